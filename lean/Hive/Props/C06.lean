import Hive.Proofs.TypedValue
import Hive.Proofs.TypedStore
import Hive.Proofs.TypedConc
import Hive.Proofs.TypedCounter
import Hive.Proofs.TypedGate
import Hive.Proofs.TypedLin
import Hive.Proofs.TypedLive
import Hive.Gen.C06_Skel
import Hive.Proofs.TypedCode
import Hive.Proofs.TypedUpgrade
import Hive.Proofs.TypedOwn
import Hive.Proofs.TypedDirty
import Hive.Proofs.TypedStoreCode
import Hive.Proofs.TypedBulk
/-!
# C06 — TypedValue / TypedStore are transparent, error-faithful typed views

Property theorems only.  Models: `Hive/Model/TypedValue.lean` (kvstore/typedvalue.go, with the
repaired encode-error branch of `Compute`), `Hive/Model/TypedStore.lean` (kvstore/typedstore.go),
`Hive/Model/TypedConc.lean` (the RWMutex protocol of one shared TypedValue).

Every theorem about `TypedValue` quantifies over an arbitrary value type, an arbitrary codec
(including one that fails *naturally* on some values / byte strings), every history of
Get/Has/Set/Delete/Compute(/reopen), every compute function (returning a value, aborting with
`ErrTypedValueNotChanged`, or failing) and every fault vector (any subset of: first store call,
second store call, decode call, encode call).
-/
namespace Hive.Typed

variable {V : Type} [Inhabited V]

/-- **Cache coherence.** From a fresh object over *any* raw store content, after every history with
every fault vector, whatever is cached equals what the store holds: a cached value is the decoding
of the stored bytes, a cached presence flag is the presence of the key — and the nil dereference in
`Compute` is unreachable. (`RoundTrip` is needed because `Set`/`Compute` cache the value they were
given, not the decoding of what they wrote.) -/
theorem C06_cache_coherent (C : Codec V) (hrt : C.RoundTrip) (raw : Option Bytes) (h : List (Op V × Faults)) :
    Coherent C (final C (fresh raw) h) ∧
    ∀ f F, (compute C (final C (fresh raw) h) f F).out ≠ .panic :=
  have hc := coherent_final hrt h (coherent_fresh C raw)
  ⟨hc, fun f F => no_panic_compute f F hc⟩

/-- **Transparency.** In every reachable state, an operation without injected faults returns what
the raw key under the codec gives (`spec`: no cache) and leaves the bytes `spec` leaves — natural
codec failures included.  The same holds under any fault vector none of whose faults is hit. -/
theorem C06_transparent (C : Codec V) (hrt : C.RoundTrip) (raw : Option Bytes) (h : List (Op V × Faults)) (op : Op V) :
    let s := final C (fresh raw) h
    ((step C s op noFaults).out = (spec C s.store op).2 ∧ (step C s op noFaults).st.store = (spec C s.store op).1) ∧
    ∀ F, (∀ e ∈ (step C s op F).tr, e.res ≠ .fail) →
      (step C s op F).out = (spec C s.store op).2 ∧ (step C s op F).st.store = (spec C s.store op).1 := by
  intro s
  have hc : Coherent C s := coherent_final hrt h (coherent_fresh C raw)
  refine ⟨transparent_step op hc, fun F hnf => ?_⟩
  have hu := unhit_step C s op F hnf
  rw [hu.1, hu.2]
  exact transparent_step op hc

/-- **The stored bytes are always the encoding of the last successfully written value.**  "Written"
is read off the caller-visible results only (`written`: `Set` returned ok, `Delete` returned ok,
`Compute` returned a changed value); before the first successful write the bytes are the initial ones. -/
theorem C06_stored_is_last_written (C : Codec V) (s : St V) (h : List (Op V × Faults)) :
    (run C s h).1.store = expectRaw C s.store (lastWritten ((h.map (·.1)).zip (run C s h).2)) :=
  store_run C s h

/-- **Reference-typed values (aliasing).**  `C06_cache_coherent` and `C06_transparent` fix one codec
for the whole history: they assume that values are immutable, i.e. that the caller does not mutate
an object it handed to `Set`/`Compute` or received from `Get` (for a pointer-typed `V` the cache
*is* that object, so such a mutation changes what the cache denotes without any call — no
implementation can prevent it).  This theorem drops the assumption for the clause that does not
depend on it: let the codec change arbitrarily between operations (what `enc` yields for a
reference after the caller mutated the object); then after every history the stored bytes are the
encoding, **at the time of that call**, of what the last successful `Set`/`Compute` was given
(`rawAfter`).  In particular a `Set` of an object that was mutated after an earlier `Set` of the
same object must write the new encoding.  `C06_failure_atomic` is per step and holds for every
codec already.  The harness runs `TypedValue[*T]` with mutate-after-Set / mutate-after-Get
histories against `Hive/Model/TypedRef.lean` (this model with a heap-dependent codec). -/
theorem C06_stored_is_last_written_aliasing (s : St V) (h : List (Codec V × Op V × Faults)) :
    (runV s h).1.store = rawAfter s.store ((h.zip (runV s h).2).map fun x => (x.1.1, x.1.2.1, x.2)) :=
  store_runV s h

/-- **Ownership: what `Compute` hands to its function and what ends up in the cache.**  The aliasing assumption above
concerns objects the *caller* keeps; this theorem is about the object the *function* works on.  In every reachable
state (any codec, history, fault vector):
(1) `Compute` uses its function through exactly one application `f cur ex` — or none, when the store read or the decode
failed — and `cur` is the value **this call's own decode produced from the stored bytes** (`ex = true`) or the zero value
(`ex = false`); it is never taken from the cache, although a value may be cached.  So for a reference-typed `V` the
function owns what it is handed: updating it in place and then aborting with `ErrTypedValueNotChanged` or failing
cannot show through the cache (which `C06_failure_atomic` says is unchanged *as a reference*).
(2) What the cache holds afterwards is what the callers handed over: a successful `Compute` caches and returns exactly
the value its function returned, `Get` returns the cached value itself, a successful `Set` caches the value it was
given — these are the objects the aliasing assumption is about. -/
theorem C06_compute_ownership (C : Codec V) (hrt : C.RoundTrip) (raw : Option Bytes) (h : List (Op V × Faults)) (F : Faults) :
    let s := final C (fresh raw) h
    ((∃ o tr, computeRead C s F = .exit o tr ∧ ∀ f g, compute C s f F = compute C s g F) ∨
     (∃ cur ex tr, computeRead C s F = .go cur ex tr ∧
        (∀ f g, f cur ex = g cur ex → compute C s f F = compute C s g F) ∧
        ((ex = true ∧ ∃ b, s.store = some b ∧ decF C F b = some cur ∧ (⟨.dec, .ok⟩ : Ev) ∈ tr) ∨ (ex = false ∧ cur = default)))) ∧
    (∀ f nv, (compute C s f F).out = .computed nv true → (compute C s f F).st.cv = some nv) ∧
    (∀ v, (get C s F).out = .val v → (get C s F).st.cv = some v) ∧
    (∀ v, (set C s v F).out = .ok → (set C s v F).st.cv = some v) := by
  intro s
  have hb : CacheBacked s := (C06_cache_coherent C hrt raw h).1.cacheBacked
  refine ⟨?_, cache_holds_given C s F⟩
  rcases compute_calls_fn_once C s F with hx | ⟨cur, ex, tr, hr, hf⟩
  · exact .inl hx
  · exact .inr ⟨cur, ex, tr, hr, hf, computeRead_provenance hb hr⟩

/-- The same for `TypedValue[*T]` in terms of object identity (`Hive/Model/TypedRef.lean`: decoding allocates the
fresh object `nxt`): whenever a cached object is backed by the store (`CacheBacked`, part of coherence), the function is
handed the object this call allocated — not the cached one, not one the caller holds — or nil.  The differential run
observes exactly this (`alias=` flags `fa`/`fg`/`fc` of the `tp` lines; the Go oracle `callback-argument-aliased`). -/
theorem C06_compute_argument_fresh (henc : List (Ref × UInt64)) (nxt : Ref) (s : St Ref) (hb : CacheBacked s) (F : Faults)
    (cur : Ref) (ex : Bool) (tr : List Ev) (h : computeRead (refCodec henc nxt) s F = .go cur ex tr) :
    ((ex = true ∧ cur = nxt) ∨ (ex = false ∧ cur = 0)) ∧
    (∀ c, s.cv = some c → c < nxt → ex = true → cur ≠ c) := by
  have h1 := ref_argument_fresh henc nxt s hb F cur ex tr h
  refine ⟨h1, fun c _ hlt hex => ?_⟩
  rcases h1 with ⟨_, rfl⟩ | ⟨he, _⟩
  · exact Nat.ne_of_gt hlt
  · simp [hex] at he

/-- The hypothesis is satisfiable by a state with a cached object: object 1 cached over stored bytes, the function is
handed the fresh object 3. -/
example : CacheBacked ({ store := some (be8 5), cv := some 1, ch := some true } : St Ref) ∧
    (match computeRead (refCodec [(1, 5)] 3) { store := some (be8 5), cv := some 1, ch := some true } {} with
     | .go cur ex _ => (cur, ex)
     | .exit _ _ => (0, false)) = (3, true) := by
  refine ⟨fun v hv => by simp, by decide⟩

/-- **Every failure is reported and leaves store and cache unchanged.**  In *any* state, for every
operation and fault vector: (1) if any call made by the operation failed — a store call, the
decoder, the encoder (injected or natural) or the compute function — the operation returns the
error of exactly that call and the state (raw bytes *and* both cache fields) is untouched;
(2) an error is returned only if a call failed; (3) a compute function that aborts with
`ErrTypedValueNotChanged` makes `Compute` return the current value without error and without
touching anything. -/
theorem C06_failure_atomic (C : Codec V) (s : St V) (op : Op V) (F : Faults) :
    (∀ e ∈ (step C s op F).tr, e.res = .fail → (step C s op F).st = s ∧ (step C s op F).out = .err (errOf e.call)) ∧
    (∀ k, (step C s op F).out = .err k → ∃ e ∈ (step C s op F).tr, e.res = .fail ∧ errOf e.call = k) ∧
    (∀ f v, op = .compute f → (step C s op F).out = .computed v false → (step C s op F).st = s) := by
  refine ⟨failAtomic_step C s op F, errTraced_step C s op F, ?_⟩
  intro f v hop hv
  subst hop
  exact notChanged_compute C s f F v hv

/-- **A store whose failing write took effect all the same** (`stepD`: a timeout after the write went through).  The
clause "a failure leaves the store unchanged" is then out of the wrapper's hands; what `TypedValue` itself guarantees, in
any state and for every operation and fault vector: same result, same calls and same cache as over an atomic store; any
failed call is reported with its own error and the **cache is untouched**; the raw bytes differ from the atomic case only
when the failed call was the operation's store write, and are then exactly what the successful write leaves. -/
theorem C06_dirty_store_failure (C : Codec V) (s : St V) (op : Op V) (F : Faults) :
    ((stepD C s op F).out = (step C s op F).out ∧ (stepD C s op F).tr = (step C s op F).tr ∧
     (stepD C s op F).st.cv = (step C s op F).st.cv ∧ (stepD C s op F).st.ch = (step C s op F).st.ch) ∧
    (∀ e ∈ (stepD C s op F).tr, e.res = .fail →
      (stepD C s op F).out = .err (errOf e.call) ∧ (stepD C s op F).st.cv = s.cv ∧ (stepD C s op F).st.ch = s.ch) ∧
    (writeFailed (step C s op F).tr = false → stepD C s op F = step C s op F) ∧
    (writeFailed (step C s op F).tr = true →
      (stepD C s op F).st.store = (step C s op (clearWriteFault s op F)).st.store) :=
  have h := stepD_facts C s op F
  ⟨⟨h.1, h.2.1, h.2.2.1, h.2.2.2.1⟩, fun e he hf => stepD_failure C s op F e he hf, h.2.2.2.2.1, h.2.2.2.2.2⟩

/-- Witness that such a store breaks cache coherence and transparency (so the property presupposes atomic store failures):
after `Set 5`, a `Set 7` whose `kv.Set` reports failure but wrote: the error is reported, the cache still holds 5, the raw
key holds 7 — the next `Get` answers 5, a fresh object answers 7. -/
theorem C06_dirty_store_witness :
    let s1 := (step codec64 (fresh none) (.set 5) {}).st
    let r := stepD codec64 s1 (.set 7) { kv1 := true }
    r.out = .err .kv ∧ r.st.cv = some 5 ∧ r.st.store = codec64.enc 7 ∧
    (step codec64 r.st .get {}).out = .val 5 ∧
    (step codec64 (step codec64 r.st .reopen {}).st .get {}).out = .val 7 := by decide

/-- Injected faults at the positions an operation reaches are hit (and then reported by
`C06_failure_atomic`): the cache-independent cases. -/
theorem C06_fault_reported (C : Codec V) (s : St V) (F : Faults) :
    (∀ v, F.enc = true → (step C s (.set v) F).out = .err .enc) ∧
    (∀ v b, F.enc = false → C.enc v = some b → F.kv1 = true → (step C s (.set v) F).out = .err .kv) ∧
    (F.kv1 = true → (step C s .delete F).out = .err .kv) ∧
    (s.cv = none → s.ch ≠ some false → F.kv1 = true → (step C s .get F).out = .err .kv) ∧
    (∀ b, s.cv = none → s.ch ≠ some false → F.kv1 = false → s.store = some b → F.dec = true →
        (step C s .get F).out = .err .dec) ∧
    (s.ch = none → F.kv1 = true → (step C s .has F).out = .err .kv) ∧
    (∀ f, s.cv = none → s.ch = none → F.kv1 = true → (step C s (.compute f) F).out = .err .kv) :=
  fault_reported C s F

/-- Witness about the *unrepaired* `Compute` (the encode-error branch tested `err`): with a failing
encoder it reports success, stores whatever bytes the encoder handed back (here: none) and caches the
value — a swallowed failure, and a cache that disagrees with the store.  Replayed on the real code by
the first corpus case of the harness. -/
theorem C06_old_compute_witness :
    let r := computeOld codec64 (fresh none) (fun _ _ => .ok 5) { enc := true } []
    r.out = .computed 5 true ∧ r.st.store = some [] ∧ r.st.cv = some 5 ∧ ¬ Coherent codec64 r.st := by
  refine ⟨rfl, rfl, rfl, ?_⟩
  intro h
  obtain ⟨b, hb, hd⟩ := h.val 5 rfl
  have : b = [] := by
    have : some ([] : Bytes) = some b := hb
    cases this; rfl
  subst this
  simp [codec64] at hd

/-! ## TypedStore -/

variable {K : Type}

omit [Inhabited V] in
/-- **TypedStore is transparent.**  Without faults every method returns what the raw store
operation under the codecs returns (`sspec`; for `Iterate` stated declaratively: the decodable
prefix of the matching entries in raw order, cut where the callback stops, plus the first decode
error) and leaves the store the raw operation leaves. -/
theorem C06_store_transparent (KC : Codec K) (VC : Codec V) (m : Store) (op : SOp K V) :
    (sstep KC VC m op noSFaults).out = (sspec KC VC m op).2 ∧ (sstep KC VC m op noSFaults).st = (sspec KC VC m op).1 := by
  cases op with
  | get k =>
    show (sget KC VC m k noSFaults).out = _ ∧ (sget KC VC m k noSFaults).st = _
    simp only [sget, sspec, encKF, decAt, noSFaults, Bool.false_eq_true, if_false, List.not_mem_nil]
    cases KC.enc k with
    | none => simp
    | some kb =>
      simp only
      cases m.get kb with
      | none => simp
      | some vb => simp only; cases VC.dec vb <;> simp
  | has k =>
    show (shas KC m k noSFaults).out = _ ∧ (shas KC m k noSFaults).st = _
    simp only [shas, sspec, encKF, noSFaults, Bool.false_eq_true, if_false]
    cases KC.enc k <;> simp
  | set k v =>
    show (sset KC VC m k v noSFaults).out = _ ∧ (sset KC VC m k v noSFaults).st = _
    simp only [sset, sspec, encKF, encVF, noSFaults, Bool.false_eq_true, if_false]
    cases KC.enc k with
    | none => simp
    | some kb => simp only; cases VC.enc v <;> simp
  | delete k =>
    show (sdelete KC m k noSFaults).out = _ ∧ (sdelete KC m k noSFaults).st = _
    simp only [sdelete, sspec, encKF, noSFaults, Bool.false_eq_true, if_false]
    cases KC.enc k <;> simp
  | iterate pfx bwd stop =>
    show (siterate KC VC m pfx bwd stop noSFaults).out = _ ∧ (siterate KC VC m pfx bwd stop noSFaults).st = _
    refine ⟨?_, by rw [siterate_st]; simp only [sspec]; split <;> rfl⟩
    have hspec := iterLoop_spec stop (mapIdxFrom (decEntry KC VC noSFaults) 0 (m.entries pfx bwd)) 0 [] []
      (rs_kinds KC VC noSFaults _)
    simp only [List.length_nil, Nat.zero_add, List.nil_append, Nat.sub_zero] at hspec
    have hst : (siterate KC VC m pfx bwd stop noSFaults).out =
        .iter (iterLoop none stop (mapIdxFrom (decEntry KC VC noSFaults) 0 (m.entries pfx bwd)) 0 [] []).1
          (iterLoop none stop (mapIdxFrom (decEntry KC VC noSFaults) 0 (m.entries pfx bwd)) 0 [] []).2.1 := by
      simp only [siterate, noSFaults, Bool.false_eq_true, if_false]
    rw [hst]
    have h1 := congrArg Prod.fst hspec
    have h2 := congrArg Prod.snd hspec
    simp only at h1 h2
    rw [h1, h2, mapIdxFrom_noFaults]
    simp only [sspec]
    split <;> rfl

omit [Inhabited V] in
/-- **TypedStore failures are reported and change nothing.**  For every method and fault vector:
a failed call (store, key/value encoder, any decode call of an iteration, injected or natural) makes
the method return exactly that call's error with the store untouched; and an error is returned only
if a call failed. -/
theorem C06_store_failure_atomic (KC : Codec K) (VC : Codec V) (m : Store) (op : SOp K V) (F : SFaults) :
    (∀ e ∈ (sstep KC VC m op F).tr, e.res = .fail →
        (sstep KC VC m op F).st = m ∧ (sstep KC VC m op F).out.error = some (serrOf e.call)) ∧
    (∀ k, (sstep KC VC m op F).out.error = some k →
        ∃ e ∈ (sstep KC VC m op F).tr, e.res = .fail ∧ serrOf e.call = k) :=
  ⟨sfailAtomic_step KC VC m op F, serrTraced_step KC VC m op F⟩

omit [Inhabited V] in
/-- **Iteration stops at the first decode error and returns it.**  For every fault vector that
leaves the store's own iteration alone (any set of failing decode positions, plus natural decode
failures): the callback receives exactly the decoded entries before the first failing decode — or
before the point where the callback itself asked to stop, whichever comes first — and the returned
error is that first decode error (none if the callback stopped earlier or nothing failed).  With a
store failure at any position the delivered pairs are still a prefix of that decodable prefix. -/
theorem C06_store_iterate_stops_at_first_decode_error (KC : Codec K) (VC : Codec V) (m : Store)
    (pfx : Bytes) (bwd : Bool) (stop : Nat) (F : SFaults) :
    let rs := mapIdxFrom (decEntry KC VC F) 0 (m.entries pfx bwd)
    (F.kv1 = false → F.kvAfter = none →
      (siterate KC VC m pfx bwd stop F).out =
        if 0 < stop ∧ stop ≤ (goodPrefix rs).length then .iter ((goodPrefix rs).take stop) none
        else .iter (goodPrefix rs) (firstErr rs)) ∧
    (F.kv1 = false → ∃ j st, (siterate KC VC m pfx bwd stop F).out = .iter ((goodPrefix rs).take j) st) := by
  intro rs
  constructor
  · intro h1 h2
    have hspec := iterLoop_spec stop rs 0 [] [] (rs_kinds KC VC F _)
    simp only [List.length_nil, Nat.zero_add, List.nil_append, Nat.sub_zero] at hspec
    have hst : (siterate KC VC m pfx bwd stop F).out =
        .iter (iterLoop none stop rs 0 [] []).1 (iterLoop none stop rs 0 [] []).2.1 := by
      simp only [siterate, h1, h2, Bool.false_eq_true, if_false]
      rfl
    rw [hst]
    have e1 := congrArg Prod.fst hspec
    have e2 := congrArg Prod.snd hspec
    simp only at e1 e2
    rw [e1, e2]
    split <;> rfl
  · intro h1
    obtain ⟨j, hj⟩ := iterLoop_prefix F.kvAfter stop rs 0 [] []
    refine ⟨j, (iterLoop F.kvAfter stop rs 0 [] []).2.1, ?_⟩
    have hst : (siterate KC VC m pfx bwd stop F).out =
        .iter (iterLoop F.kvAfter stop rs 0 [] []).1 (iterLoop F.kvAfter stop rs 0 [] []).2.1 := by
      simp only [siterate, h1, Bool.false_eq_true, if_false]
      rfl
    rw [hst, hj]; simp

omit [Inhabited V] in
/-- **`IterateKeys`** stops at the first key decode error and returns it, exactly like `Iterate`
(entry `i` makes decode call `i`), and never touches the store. -/
theorem C06_store_iterate_keys (KC : Codec K) (m : Store) (pfx : Bytes) (bwd : Bool) (stop : Nat) (F : SFaults) :
    let rs := mapIdxFrom (decKeyEntry KC F) 0 (m.entries pfx bwd)
    (siterateKeys KC m pfx bwd stop F).st = m ∧
    (F.kv1 = true → (siterateKeys KC m pfx bwd stop F).out = .iter [] (some .kv)) ∧
    (F.kv1 = false → F.kvAfter = none →
      (siterateKeys KC m pfx bwd stop F).out =
        if 0 < stop ∧ stop ≤ (goodPrefix rs).length then .iter ((goodPrefix rs).take stop) none
        else .iter (goodPrefix rs) (firstErr rs)) := by
  intro rs
  have hk : ∀ x ∈ rs, x ≠ .error .kv ∧ x ≠ .error .encK ∧ x ≠ .error .encV := by
    intro x hx
    obtain ⟨j, a, rfl⟩ := mapIdxFrom_mem _ _ _ _ hx
    unfold decKeyEntry
    split <;> simp
  refine ⟨by unfold siterateKeys; split <;> rfl, fun h1 => by simp [siterateKeys, h1], fun h1 h2 => ?_⟩
  have hspec := iterLoop_spec stop rs 0 [] [] hk
  simp only [List.length_nil, Nat.zero_add, List.nil_append, Nat.sub_zero] at hspec
  have hst : (siterateKeys KC m pfx bwd stop F).out =
      .iter (iterLoop none stop rs 0 [] []).1 (iterLoop none stop rs 0 [] []).2.1 := by
    simp only [siterateKeys, h1, h2, Bool.false_eq_true, if_false]
    rfl
  rw [hst]
  have e1 := congrArg Prod.fst hspec
  have e2 := congrArg Prod.snd hspec
  simp only at e1 e2
  rw [e1, e2]
  split <;> rfl

/-- **`DeletePrefix` / `Clear`** are the raw operations: a failing store call is reported and changes
nothing, otherwise exactly the keys with the prefix (resp. all keys) are gone. -/
theorem C06_store_delete_prefix_clear (m : Store) (pfx : Bytes) (F : SFaults) :
    (F.kv1 = true → sdeletePrefix m pfx F = (m, some .kv) ∧ sclear m F = (m, some .kv)) ∧
    (F.kv1 = false → F.kvAfter = none →
      sdeletePrefix m pfx F = (m.filter (fun e => !pfx.isPrefixOf e.1), none) ∧ sclear m F = ([], none)) := by
  constructor <;> intro h
  · simp [sdeletePrefix, sclear, bulkDelete, h]
  · intro h2; simp [sdeletePrefix, sclear, bulkDelete, Store.deletePrefix, h, h2]

/-- **Bulk operations over a store that fails part-way.**  `DeletePrefix` / `Clear` are pass-throughs: whatever the
underlying store reports is what the caller gets (unwrapped), and what is left behind is what the store left.  With the
store's bulk deletion failing up front (`kv1`), after having removed `n` entries (`kvAfter = some n` with more than `n`
to remove), or not at all, for every store content and prefix: (1) success ⇒ exactly the selected entries are gone;
(2) a failure is reported, as the store's own error; (3) the remaining store is a sub-list of the old one — nothing added,
changed or reordered; (4) **no entry outside the prefix is touched**, whatever happens; (5) an up-front failure leaves
everything; a part-way failure leaves exactly the old store minus the first `n` selected entries (in the store's iteration
order) — so a caller that sees the error can still rely on (3) and (4), and on nothing else.
(`Iterate` / `IterateKeys` over a store that fails after `n` entries: `C06_store_iterate_stops_at_first_decode_error`,
third clause — the callback has then seen a prefix of the decodable prefix, and the store's error is returned.) -/
theorem C06_store_bulk_partial (m : Store) (pfx : Bytes) (F : SFaults) :
    let p : Bytes × Bytes → Bool := fun e => pfx.isPrefixOf e.1
    let r := sdeletePrefix m pfx F
    let c := sclear m F
    ((r.2 = none → r.1 = m.deletePrefix pfx) ∧ (∀ e, r.2 = some e → e = .kv) ∧ r.1.Sublist m ∧
      r.1.filter (fun e => !p e) = m.filter (fun e => !p e) ∧
      (F.kv1 = true → r = (m, some .kv)) ∧
      (F.kv1 = false → r.2 ≠ none → ∃ n, F.kvAfter = some n ∧ n < (m.filter p).length ∧ r.1 = m.dropFirst p n ∧
        (r.1.filter p).length = (m.filter p).length - n)) ∧
    ((c.2 = none → c.1 = []) ∧ (∀ e, c.2 = some e → e = .kv) ∧ c.1.Sublist m ∧
      (F.kv1 = true → c = (m, some .kv)) ∧
      (F.kv1 = false → c.2 ≠ none → ∃ n, F.kvAfter = some n ∧ n < m.length ∧ c.1 = m.dropFirst (fun _ => true) n ∧
        c.1.length = m.length - n)) := by
  intro p r c
  have h1 := bulkDelete_facts m p (m.deletePrefix pfx) F rfl
  have h2 := bulkDelete_facts m (fun _ => true) [] F (by simp)
  refine ⟨⟨h1.1, h1.2.1, h1.2.2.1, h1.2.2.2.1, h1.2.2.2.2.1, h1.2.2.2.2.2.1⟩, h2.1, h2.2.1, h2.2.2.1, h2.2.2.2.2.1, ?_⟩
  intro hk hne
  obtain ⟨n, ha, hn, hd, hc⟩ := h2.2.2.2.2.2.1 hk hne
  have hft : ∀ l : Store, l.filter (fun _ => true) = l := fun l => by simp
  rw [hft, hft] at hc
  rw [hft] at hn
  exact ⟨n, ha, hn, hd, hc⟩

/-- A concrete part-way failure: three entries under the prefix, the store fails after removing one. -/
example : sdeletePrefix [([0, 1], [1]), ([0, 2], [2]), ([0, 3], [3]), ([1, 0], [4])] [0] { kvAfter := some 1 } =
    ([([0, 2], [2]), ([0, 3], [3]), ([1, 0], [4])], some .kv) := by decide

omit [Inhabited V] in
/-- **The typed view is the raw store.**  A successful `Set k v` leaves exactly the raw store with
`enc k ↦ enc v` inserted, after which `Get k` returns `v` (round-trip codecs) and keys with another
encoding are unaffected; a successful `Delete k` erases `enc k`, after which `Get k` is not found. -/
theorem C06_store_set_get (KC : Codec K) (VC : Codec V) (hv : VC.RoundTrip) (m : Store) (k : K) (v : V) (F : SFaults) :
    ((sstep KC VC m (.set k v) F).out = .ok →
      ∃ kb vb, KC.enc k = some kb ∧ VC.enc v = some vb ∧ (sstep KC VC m (.set k v) F).st = m.insert kb vb ∧
        (sstep KC VC (m.insert kb vb) (.get k) noSFaults).out = .val v ∧
        ∀ kb', kb' ≠ kb → (m.insert kb vb).get kb' = m.get kb') ∧
    ((sstep KC VC m (.delete k) F).out = .ok →
      ∃ kb, KC.enc k = some kb ∧ (sstep (V := V) KC VC m (.delete k) F).st = m.erase kb ∧
        (sstep KC VC (m.erase kb) (.get k) noSFaults).out = .notfound ∧
        ∀ kb', kb' ≠ kb → (m.erase kb).get kb' = m.get kb') := by
  constructor
  · intro h
    simp only [sstep, sset] at h ⊢
    cases hk : encKF KC F k with
    | none => simp [hk] at h
    | some kb =>
      simp only [hk] at h ⊢
      cases hvb : encVF VC F v with
      | none => simp [hvb] at h
      | some vb =>
        simp only [hvb] at h ⊢
        cases hf : F.kv1 with
        | true => simp [hf] at h
        | false =>
          have hk' : KC.enc k = some kb := by unfold encKF at hk; split at hk <;> simp_all
          have hv' : VC.enc v = some vb := by unfold encVF at hvb; split at hvb <;> simp_all
          refine ⟨kb, vb, hk', hv', by simp, ?_, fun kb' hne => Store.get_insert_other m kb kb' vb hne⟩
          simp [sget, encKF, noSFaults, hk', Store.get_insert_same, decAt, hv v vb hv']
  · intro h
    simp only [sstep, sdelete] at h ⊢
    cases hk : encKF KC F k with
    | none => simp [hk] at h
    | some kb =>
      simp only [hk] at h ⊢
      cases hf : F.kv1 with
      | true => simp [hf] at h
      | false =>
        have hk' : KC.enc k = some kb := by unfold encKF at hk; split at hk <;> simp_all
        refine ⟨kb, hk', by simp, ?_, fun kb' hne => Store.get_erase_other m kb kb' hne⟩
        simp [sget, encKF, noSFaults, hk', Store.get_erase_same]

omit [Inhabited V] in
/-- **The raw store changes only by a write the caller was told succeeded**: unless `Set`/`Delete`
returned ok (then `C06_store_set_get` says exactly what was stored), the raw store is untouched —
reads and iterations are pure, failed writes write nothing.  Together: under every key the bytes
are always the encoding of the last successfully written value. -/
theorem C06_store_stored_is_last_written (KC : Codec K) (VC : Codec V) (m : Store) (op : SOp K V) (F : SFaults)
    (h : (sstep KC VC m op F).out ≠ .ok) : (sstep KC VC m op F).st = m := by
  cases op with
  | get k => simp only [sstep, sget]; repeat' split
             all_goals rfl
  | has k => simp only [sstep, shas]; repeat' split
             all_goals rfl
  | set k v =>
    simp only [sstep, sset] at h ⊢
    repeat' split
    all_goals first | rfl | simp_all
  | delete k =>
    simp only [sstep, sdelete] at h ⊢
    repeat' split
    all_goals first | rfl | simp_all
  | iterate pfx bwd stop => exact siterate_st ..

/-! ## Concurrent callers of one TypedValue -/
open Hive.Conc Hive.Typed.Conc

/-- **Serialisation.**  For any number of goroutines, any scripts (operations with any fault
vectors) and *every* schedule of the micro-step protocol model (read-lock fast path, write-lock
sections split into read phase / store write / cache update): in every reachable configuration
(1) at most one goroutine is inside a write section, and then none holds the read lock;
(2) the log of completed operations — in the order the lock was released, each with the result its
caller got — is a run of the sequential machine `step` from the initial state, ending in `base`;
(3) whenever no write section is in progress the shared store and cache *are* that final state.
So concurrent Compute/Set/Delete (and the slow paths of Get/Has) are atomic: no update is lost, and
every theorem about histories above applies verbatim to the concurrent object. -/
theorem C06_serialised (C : Codec V) (s0 : St V) (scripts : List (List (Op V × Faults)))
    (c : Cfg (Shared V) (Thread V)) (hr : Reach (sys C) (init s0, scripts.map start) c) :
    (c.2.countP (fun t => inW t.pc) ≤ 1 ∧ (c.2.countP (fun t => inW t.pc) = 1 → c.2.countP (fun t => inR t.pc) = 0)) ∧
    run C s0 (logOps c.1.log) = (c.1.base, logOuts c.1.log) ∧
    (c.2.countP (fun t => inW t.pc) = 0 → c.1.tv = c.1.base) := by
  have hi := inv_reach C s0 scripts hr
  have hw : c.2.countP pW = if c.1.writer then 1 else 0 := hi.wcount
  have hrd : c.2.countP pR = c.1.readers := hi.rcount
  refine ⟨⟨?_, ?_⟩, hi.logrun, ?_⟩
  · show c.2.countP pW ≤ 1
    rw [hw]; split <;> omega
  · intro h1
    show c.2.countP pR = 0
    have h1' : c.2.countP pW = 1 := h1
    rw [hrd]
    cases hwr : c.1.writer with
    | true => exact hi.excl hwr
    | false => rw [hw, hwr] at h1'; simp at h1'
  · intro h0
    have h0' : c.2.countP pW = 0 := h0
    apply hi.quiet
    cases hwr : c.1.writer with
    | false => rfl
    | true => rw [hw, hwr] at h0'; simp at h0'

/-- Cache coherence of the shared object: with a round-trip codec and a coherent start (e.g. a
fresh object), whenever no write section is in progress the cache equals the store. -/
theorem C06_serialised_coherent (C : Codec V) (hrt : C.RoundTrip) (s0 : St V) (h0 : Coherent C s0)
    (scripts : List (List (Op V × Faults))) (c : Cfg (Shared V) (Thread V))
    (hr : Reach (sys C) (init s0, scripts.map start) c) :
    Coherent C c.1.base ∧ (c.2.countP (fun t => inW t.pc) = 0 → Coherent C c.1.tv) := by
  obtain ⟨_, hrun, hq⟩ := C06_serialised C s0 scripts c hr
  have hb : Coherent C c.1.base := by
    have := coherent_final hrt (logOps c.1.log) h0
    rw [← run_fst, hrun] at this
    exact this
  exact ⟨hb, fun h => by rw [hq h]; exact hb⟩

/-- **Readers see only written values.**  Every `Get` that any goroutine completed with a value `v`
— on the fast path under the read lock or on the slow path — returned the decoding of the bytes
that the last successful write before it in the serialisation order left in the store (or of the
initial bytes if there was none). -/
theorem C06_serialised_readers (C : Codec V) (hrt : C.RoundTrip) (raw : Option Bytes)
    (scripts : List (List (Op V × Faults))) (c : Cfg (Shared V) (Thread V))
    (hr : Reach (sys C) (init (fresh raw) , scripts.map start) c)
    (pre post : List (Op V × Faults × Out V)) (F : Faults) (v : V)
    (hlog : c.1.log = pre ++ (.get, F, .val v) :: post) :
    ∃ b, expectRaw C raw (lastWritten ((logOps pre).map (·.1) |>.zip (logOuts pre))) = some b ∧ C.dec b = some v := by
  obtain ⟨_, hrun, _⟩ := C06_serialised C (fresh raw) scripts c hr
  rw [hlog] at hrun
  have e1 : logOps (pre ++ (Op.get, F, Out.val v) :: post) = logOps pre ++ ((Op.get, F) :: logOps post) := by
    simp [logOps]
  have e2 : logOuts (pre ++ (Op.get, F, Out.val v) :: post) = logOuts pre ++ (Out.val v :: logOuts post) := by
    simp [logOuts]
  rw [e1, e2, run_append] at hrun
  have hlen : (run C (fresh raw) (logOps pre)).2.length = (logOuts pre).length := by
    rw [run_length]; simp [logOps, logOuts]
  have houts := congrArg Prod.snd hrun
  simp only at houts
  have hsplit := List.append_inj houts hlen
  obtain ⟨hpre, hrest⟩ := hsplit
  simp only [run] at hrest
  have hget : (step C (run C (fresh raw) (logOps pre)).1 .get F).out = .val v := by
    have := List.head_eq_of_cons_eq hrest
    exact this
  have hc : Coherent C (run C (fresh raw) (logOps pre)).1 := by
    rw [run_fst]; exact coherent_final hrt _ (coherent_fresh C raw)
  obtain ⟨b, hb, hd⟩ := get_val_stored F hc hget
  refine ⟨b, ?_, hd⟩
  rw [← hb, store_run, hpre]
  rfl

/-- **The serial-order judge of the gate schedules** (`conc gate …` lines: one writer parked inside the
store, a `Delete` and several `Compute`/`Set` calls queued behind it, every write unique, every `Compute`
reporting what its function was given).  The judge is sound — it accepts only if some order of the
queued calls, replayed from what the parked writer left, hands every `Compute` what it reported and
ends in the final state — and complete for the order in which the calls really took the lock, which by
`C06_serialised` is a run of the sequential machine: a serialised implementation is always accepted,
a lost `Delete` (a `Compute` handed a value that was deleted before it ran) never is. -/
theorem C06_serialised_judge (init : Nat) (ops : List GOp) (final : Nat) :
    (serialOk init ops final = true → ∃ l, l.Perm ops ∧ replayG init l = some final) ∧
    (replayG init ops = some final → serialOk init ops final = true) :=
  ⟨serialOk_sound init ops final, serialOk_complete init ops final⟩

/-- **No deadlock.**  For any number of goroutines and any scripts of method calls (`reopen` is not a method of the
shared object), in every reachable configuration of the protocol model — hence, by `C06_code_serialised`, of the protocol
over the translated fast and slow parts — in which some goroutine still has a call to make or to finish, some goroutine
can take a step: the holder of the write lock, else a holder of the read lock, else anybody (nobody holds a lock).  In
particular the `RUnlock` → `Lock` upgrade of `Get` / `Has` cannot block the object: a reader never waits for the write
lock while it holds the read lock. -/
theorem C06_no_deadlock (C : Codec V) (s0 : St V) (scripts : List (List (Op V × Faults)))
    (hm : ∀ sc ∈ scripts, ∀ x ∈ sc, isMethod x.1 = true) (c : Cfg (Shared V) (Thread V))
    (hr : Reach (sys C) (init s0, scripts.map Conc.start) c) (hu : ∃ t ∈ c.2, t.script ≠ []) :
    ∃ t ∈ c.2, (sys C).step c.1 t ≠ [] :=
  no_deadlock C s0 scripts hm hr hu

/-- The hypothesis is satisfiable (scripts of methods), and it is needed: a thread whose next "call" is `reopen` is stuck
by construction. -/
example : (∀ sc ∈ [[((.get : Op Nat), ({} : Faults)), (.has, {})], [(.set 1, {}), (.delete, {})]], ∀ x ∈ sc, isMethod x.1 = true) ∧
    tstep ({ enc := fun _ => none, dec := fun _ => none } : Codec Nat) (init (fresh none)) (Conc.start [((.reopen : Op Nat), ({} : Faults))]) = [] := by
  refine ⟨?_, by simp [tstep, Conc.start, isMethod]⟩
  intro sc hsc x hx
  simp only [List.mem_cons, List.mem_nil_iff, or_false] at hsc
  rcases hsc with rfl | rfl <;> simp only [List.mem_cons, List.mem_nil_iff, or_false] at hx <;>
    rcases hx with rfl | rfl <;> rfl

/-- **The linearizability judge of the free-running histories** (`conc lin …` lines: every call of a small concurrent
history with the logical times of its invocation and return).  Sound: it accepts only if some order of *all* calls
respects real time (`RealTime`: whoever comes later did not return before an earlier one was invoked), replays on the
raw key — every `Compute` handed the value of that moment, every `Has` / `Get` / aborted `Compute` answering it — and ends
in the final raw value.  Complete: every real-time-respecting order that replays is accepted; by `C06_serialised` the
order in which the calls were logged (each while it held the lock, i.e. between its invocation and its return) is one. -/
theorem C06_linearizable_judge (init : Nat) (ops : List LOp) (final : Nat) :
    (linOk init ops final = true → ∃ l, l.Perm ops ∧ replayG init (l.map (·.op)) = some final ∧ RealTime l) ∧
    ((∀ o ∈ ops, o.inv ≤ o.ret) → RealTime ops → replayG init (ops.map (·.op)) = some final → linOk init ops final = true) :=
  ⟨linOk_sound init ops final, linOk_complete init ops final⟩

/-- The judge is not vacuous: a `Get` that returned 10 strictly after a `Set(20)` over stored 10 had returned is rejected,
the same answers with overlapping calls are accepted. -/
example : linOk 10 [⟨⟨1, 20, 0⟩, 1, 2⟩, ⟨⟨4, 0, 10⟩, 3, 4⟩] 20 = false ∧
    linOk 10 [⟨⟨1, 20, 0⟩, 1, 3⟩, ⟨⟨4, 0, 10⟩, 2, 4⟩] 20 = true := by decide

/-- **Linearizability (real-time order) of the protocol model.**  `tsys` is the protocol model with ghost time: a clock that
ticks at every micro-step of any goroutine, the invocation time of every call in progress, and for every log entry the pair
(invocation time of its call, time of the step that logged it).  For any number of goroutines, any scripts and every
schedule, in every reachable configuration:
(1) erasing the ghost time gives a reachable configuration of the protocol model itself, so the log is a run of the
sequential machine from the initial state ending in `base` (`C06_serialised`);
(2) every call was logged by one of its own steps — not before it was invoked, and before now (a call returns no earlier
than the step that logs it: the fast-path hit under the read lock or the release of the write lock) — and the log is in
the order of these linearization points;
(3) hence the log order respects real time: a call logged later cannot have returned (at any time `rb` after its own
linearization point) before a call logged earlier was invoked.  Together: the concurrent object is linearizable with
respect to the sequential machine; `linOk` (`C06_linearizable_judge`) decides this for the histories of the real code. -/
theorem C06_linearizable (C : Codec V) (s0 : St V) (scripts : List (List (Op V × Faults)))
    (c : Cfg (TShared V) (TThread V)) (hr : Reach (tsys C) (tinit s0, scripts.map tstart) c) :
    Reach (sys C) (init s0, scripts.map Conc.start) (c.1.sh, c.2.map (·.t)) ∧
    run C s0 (logOps c.1.sh.log) = (c.1.sh.base, logOuts c.1.sh.log) ∧
    c.1.stamps.length = c.1.sh.log.length ∧
    (∀ p ∈ c.1.stamps, p.1 ≤ p.2 ∧ p.2 < c.1.clock) ∧
    c.1.stamps.Pairwise (fun a b => a.2 < b.2) ∧
    c.1.stamps.Pairwise (fun a b => ∀ rb, b.2 ≤ rb → ¬ rb < a.1) := by
  have hsim := tsys_simulates C hr
  have hmap : (scripts.map tstart).map (·.t) = scripts.map Conc.start := by
    simp [List.map_map, tstart, Function.comp_def]
  simp only [hmap] at hsim
  have hsim' : Reach (sys C) (init s0, scripts.map Conc.start) (c.1.sh, c.2.map (·.t)) := hsim
  have hi := tinv_reach C s0 scripts hr
  refine ⟨hsim', (C06_serialised C s0 scripts _ hsim').2.1, hi.len, hi.within, hi.sorted, ?_⟩
  have hw := hi.within
  refine (List.Pairwise.and_mem.mp hi.sorted).imp ?_
  intro a b hab
  obtain ⟨ha, _, hlt⟩ := hab
  intro rb hrb
  have := (hw a ha).1
  omega

/-- A concrete timed schedule: two goroutines, one `Set` each, interleaved; both calls are logged with their stamps. -/
example :
    let c := runSched (tsys codec64) (tinit (fresh none), [tstart [(.set 1, {})], tstart [(.set 2, {})]])
      [(0, 0), (1, 0), (0, 0), (0, 0), (0, 0), (0, 0), (0, 0), (1, 0), (1, 0), (1, 0), (1, 0), (1, 0)]
    c.1.stamps = [(0, 6), (1, 11)] ∧ c.1.sh.log.length = 2 := by decide

/-- **No lost update (counter workload).**  Any number of goroutines run any mix of
`Compute(increment)`, `Get` and `Has` with any fault vectors on a fresh counter.  In every
reachable configuration without a write section in progress the observations satisfy the trace
predicate `counterOk` that the driver evaluates on the real goroutines' observations: the
successful increments returned exactly `1..n` (each once), the store holds `n`, and every `Get`
saw a value in `0..n`.  (Counter in `Nat`: wrap-around after 2^64 increments is not modelled.) -/
theorem C06_serialised_counter (C : Codec Nat) (hrt : C.RoundTrip) (scripts : List (List (Op Nat × Faults)))
    (hsc : ∀ sc ∈ scripts, ∀ x ∈ sc, CounterOp x.1)
    (c : Cfg (Shared Nat) (Thread Nat)) (hr : Reach (sys C) (init (fresh none), scripts.map start) c)
    (hq : c.2.countP (fun t => inW t.pc) = 0) :
    incRets (logOuts c.1.log) = List.range' 1 (incRets (logOuts c.1.log)).length ∧
    counterOk (incRets (logOuts c.1.log)) (finalVal C c.1.tv) (getVals (logOuts c.1.log)) = true := by
  obtain ⟨_, hrun, hquiet⟩ := C06_serialised C (fresh none) scripts c hr
  have hops := (opsFrom_reach C CounterOp (fresh none) scripts hsc hr).2
  have h0 : CountInv C (fresh none : St Nat) 0 := ⟨coherent_fresh C none, Or.inl ⟨rfl, rfl⟩⟩
  have hcnt := count_run hrt (logOps c.1.log) h0 (by
    intro x hx
    simp only [logOps, List.mem_map] at hx
    obtain ⟨e, he, rfl⟩ := hx
    exact hops e he)
  rw [hrun] at hcnt
  simp only [Nat.zero_add] at hcnt
  obtain ⟨h1, h2, h3⟩ := hcnt
  refine ⟨h1, ?_⟩
  rw [hquiet hq, finalVal_of_countInv h2, h1]
  simp only [List.length_range']
  exact counterOk_range _ _ (fun g hg => (h3 g hg).2)

/-! ## Regenerated tie: the lock / store-call skeletons the models were written against

`Hive/Gen/C06_Skel.lean` is regenerated from kvstore/typedvalue.go and kvstore/typedstore.go on every
run.  The protocol model's program counters are read off these skeletons: `Get`/`Has` = `rlock`, cache
test(s) with a *deferred* `runlock` on a hit (`rHit`), otherwise `runlock` (`rMiss`), `lock` with
deferred `unlock` (`wantW`, `w1`), the re-check, then the single store call; `Compute` = `lock`,
deferred `unlock`, `kv.Get` (store call 1) … `kv.Set` (store call 2); `Set` = `lock`, one `kv.Set`;
`Delete` = `lock`, one `kv.Delete`.  The positions of the `call t.kv.*` entries are exactly the
`kv1`/`kv2` positions of the fault vectors.  A change of the lock or store-call structure breaks these
obligations even when no stress schedule hits the difference. -/
section Skeleton
open Hive.Gen.C06Skel

theorem C06_skeleton_get : skel_TypedValue_Get =
    ["rlock t.mutex", "if{", "defer runlock t.mutex", "return", "}if", "if{", "defer runlock t.mutex", "return", "}if",
     "runlock t.mutex", "lock t.mutex", "defer unlock t.mutex", "if{", "return", "}if", "if{", "return", "}if",
     "call t.kv.Get", "if{", "if{", "}if", "return", "}else{", "if{", "return", "}if", "}if", "return"] := by decide

theorem C06_skeleton_has : skel_TypedValue_Has =
    ["rlock t.mutex", "if{", "defer runlock t.mutex", "return", "}if", "runlock t.mutex", "lock t.mutex",
     "defer unlock t.mutex", "if{", "return", "}else{", "call t.kv.Has", "if{", "return", "}if", "}if", "return"] := by
  decide

theorem C06_skeleton_compute : skel_TypedValue_Compute =
    ["lock t.mutex", "defer unlock t.mutex", "call t.cachedValue", "if{", "call t.kv.Get", "if{", "if{", "return", "}if", "}else{", "if{",
     "return", "}else{", "}if", "}if", "}if", "if{", "if{", "return", "}if", "return", "}else{", "if{", "return",
     "}else{", "call t.kv.Set", "if{", "return", "}if", "}if", "}if", "return"] := by decide

theorem C06_skeleton_set : skel_TypedValue_Set =
    ["lock t.mutex", "defer unlock t.mutex", "if{", "return", "}else{", "call t.kv.Set", "if{", "return", "}if", "}if",
     "return"] := by decide

theorem C06_skeleton_delete : skel_TypedValue_Delete =
    ["lock t.mutex", "defer unlock t.mutex", "call t.kv.Delete", "if{", "return", "}if", "return"] := by decide

theorem C06_skeleton_store_get : skel_TypedStore_Get =
    ["if{", "return", "}if", "call t.kv.Get", "if{", "return", "}if", "if{", "return", "}if", "return"] := by decide

theorem C06_skeleton_store_has : skel_TypedStore_Has = ["if{", "return", "}if", "call t.kv.Has", "return"] := by decide

theorem C06_skeleton_store_set : skel_TypedStore_Set =
    ["if{", "return", "}if", "if{", "return", "}if", "call t.kv.Set", "if{", "return", "}if", "return"] := by decide

theorem C06_skeleton_store_delete : skel_TypedStore_Delete =
    ["if{", "return", "}if", "call t.kv.Delete", "if{", "return", "}if", "return"] := by decide

theorem C06_skeleton_store_iterate : skel_TypedStore_Iterate =
    ["func{", "if{", "return", "}if", "if{", "return", "}if", "return", "}func", "call t.kv.Iterate", "if{", "return",
     "}if", "return"] := by decide

theorem C06_skeleton_store_iterate_keys : skel_TypedStore_IterateKeys =
    ["func{", "if{", "return", "}if", "return", "}func", "call t.kv.IterateKeys", "if{", "return", "}if", "return"] := by
  decide

theorem C06_skeleton_store_delete_prefix_clear :
    skel_TypedStore_DeletePrefix = ["call t.kv.DeletePrefix", "return"] ∧ skel_TypedStore_Clear = ["call t.kv.Clear", "return"] := by
  decide

/-- Type facts.  `TypedValue`: exactly one store, one key, the two codec functions, the two cache pointers
(`*V`, `*bool` — the model's `Option V`, `Option Bool`) and ONE `RWMutex` by value; no further field that another
method could cache in, no embedded type that could shadow `mutex`. -/
theorem C06_skeleton_type_typedvalue : skel_type_TypedValue =
    ["struct", "kv KVStore", "keyBytes []byte", "vToBytes ObjectToBytes[V]", "bytesToV BytesToObject[V]", "valueCached *V",
     "hasCached *bool", "mutex syncutils.RWMutex"] := by decide

/-- `TypedStore` is stateless: the store and the four codec functions, nothing that could cache. -/
theorem C06_skeleton_type_typedstore : skel_type_TypedStore =
    ["struct", "kv KVStore", "keyToBytes ObjectToBytes[K]", "bytesToKey BytesToObject[K]", "valueToBytes ObjectToBytes[V]",
     "bytesToValue BytesToObject[V]"] := by decide

/-- `syncutils.RWMutex` (default build) is Go's `sync.RWMutex`, whose semantics `Hive/Model/TypedConc.lean` writes down. -/
theorem C06_skeleton_type_rwmutex : skel_type_RWMutex = ["sync.RWMutex"] := by decide

end Skeleton

/-! ## Regenerated model: the method bodies of `kvstore/typedvalue.go`, translated on every run

`harness/c06/xlate` turns the bodies of `TypedValue.Get/Has/Compute/Set/Delete/cachedValue` of the working tree
into terms of the statement language of `Hive/Model/TypedCode.lean` (`Hive/Gen/C06_Code.lean`); `Code.execOp` runs
them under that language's semantics (statement order, `if`/`else` chains, early returns, short-circuit conditions
with nil dereferences as panics, which variable every call result lands in and which variable every condition
tests, error wrapping and `ierrors.Is`, store calls counted by position for the fault vector). -/
section Code
open Hive.Typed.Code Hive.Gen.C06Code

/-- **The translated code is the model.**  In every state (reachable or not), for every value type, codec,
operation, compute function and fault vector, running the regenerated method body gives exactly the result, the
resulting raw bytes, both cache fields and the call trace of the hand-written `step` — hence every `C06_*`
theorem above is a theorem about the code as translated (`runCode` = `run` for histories) — and this over a store that reports its
errors bare or wrapped in further layers (`w`; `ErrKeyNotFound` included: the code has to use `ierrors.Is`).  Also: the translated
`cachedValue` is what the language's `cached` statement (used by `Compute`) does. -/
theorem C06_code_refines_model (C : Codec V) (s : St V) :
    (∀ w op F, execOpW w prog C s op F = step C s op F) ∧
    (∀ h, runCode prog C s h = run C s (h.map (·.2))) ∧
    (∀ w f F (m : M V), exec C f F w prog.cachedValue m = .done m [.v (m.st.cv.getD (m.env.v 1)), .b m.st.cv.isSome]) :=
  ⟨fun w => execOpW_eq_step w C s, runCode_eq_run C s, fun w f F m => code_cachedValue_eq w C f F m⟩

/-- The headline clauses restated for the translated code: from a fresh object, after any history run by the
translated bodies (over a store that wraps its errors or not, per call), the cache equals the store; and any failed
call of the next translated operation is reported with its own error and leaves raw bytes and cache untouched. -/
theorem C06_code_coherent_failure_atomic (C : Codec V) (hrt : C.RoundTrip) (raw : Option Bytes) (h : List (Bool × Op V × Faults))
    (w : Bool) (op : Op V) (F : Faults) :
    let s := (runCode prog C (fresh raw) h).1
    Coherent C s ∧
    (∀ e ∈ (execOpW w prog C s op F).tr, e.res = .fail →
      (execOpW w prog C s op F).st = s ∧ (execOpW w prog C s op F).out = .err (errOf e.call)) ∧
    (∀ k, (execOpW w prog C s op F).out = .err k → ∃ e ∈ (execOpW w prog C s op F).tr, e.res = .fail ∧ errOf e.call = k) := by
  intro s
  have hs : s = final C (fresh raw) (h.map (·.2)) := by
    show (runCode prog C (fresh raw) h).1 = _
    rw [runCode_eq_run, run_fst]
  rw [execOpW_eq_step]
  exact ⟨hs ▸ (C06_cache_coherent C hrt raw (h.map (·.2))).1, (C06_failure_atomic C s op F).1, (C06_failure_atomic C s op F).2.1⟩

/-- **Lock discipline of the translated bodies** (regenerated, decided on every run): on every path of
`Get/Has/Compute/Set/Delete` the shared cache fields are read only with the read or the write lock held; store
calls, codec calls, the compute function and every write of the cache fields happen only with the write lock held —
the foreign ones (store, codecs, compute function) moreover only with its release **deferred**, so a panic in them
cannot leave the mutex locked (the harness's `compute boom` exercises exactly that on the real code);
no lock is taken while one is held; and every `return` happens with no lock held or with its release deferred.
This is the shape the protocol model of `C06_serialised` assumes (fast path under `RLock`, everything else inside
one write section) — e.g. a cache inspection moved in front of `Lock()`, which leaves the lock skeleton and the
sequential behaviour unchanged, breaks this obligation. -/
theorem C06_code_lock_discipline :
    lockOk prog.get = true ∧ lockOk prog.has = true ∧ lockOk prog.compute = true ∧ lockOk prog.set = true ∧
    lockOk prog.delete = true := by decide

/-- **The upgrade window of `Get` / `Has`.**  Between the `RUnlock` of the fast path and the `Lock` of the slow path the
caller holds nothing, so the slow path runs in a state its own fast path never saw — e.g. with a cache that another
caller filled in between; sequentially that is unreachable, `C06_code_refines_model` is silent about it.  For the
re-translated bodies split at their first `Lock()` (`fastPart` / `slowPart`; the split preserves the body's meaning):
(1) the slow part alone, started in **every** state — also one in which the fast path would have hit —, gives the
result, raw bytes, cache fields and call trace of the sequential `step` (so the re-check branches answer from the
cache exactly like the fast path, and `Compute/Set/Delete` are slow part only);
(2) the fast part alone answers `fastOut` (hit ⇒ the cached answer, miss ⇒ falls through), makes no call and leaves
state and locals untouched.
These are the `r1` and `w1` micro-steps of the protocol model; `C06_code_serialised` puts them together. -/
theorem C06_code_upgrade_window (C : Codec V) (s : St V) :
    (∀ w op F, execSlowW w prog C s op F = step C s op F) ∧
    (∀ w op F, fastOutCode w prog C s op F = fastOut s op) ∧
    (∀ w F, outcM (exec C noFn F w (fastPart prog.get) (Code.start s)) = Code.start s ∧
            outcM (exec C noFn F w (fastPart prog.has) (Code.start s)) = Code.start s) ∧
    (slowPart prog.compute = prog.compute ∧ slowPart prog.set = prog.set ∧ slowPart prog.delete = prog.delete) ∧
    (∀ f F w body (m : M V), exec C f F w (.seq (fastPart body) (slowPart body)) m = exec C f F w body m) :=
  ⟨fun w op F => execSlowW_eq_step w C s op F, fun w op F => fastOutCode_eq w C s op F,
   fun w F => ⟨(fast_get w C s F).2, (fast_has w C s F).2⟩,
   ⟨slow_writers.1, slow_writers.2.1, slow_writers.2.2.1⟩,
   fun f F w body m => exec_split C f F w body m⟩

/-- **Serialisation of the translated code, upgrade window included.**  The protocol whose read-locked micro-step
runs the *translated fast part* and whose write-locked read phase runs the *translated slow part* — each on the
shared state of the moment it is scheduled, any number of goroutines, any scripts, every schedule, store errors bare
or wrapped — is the protocol model (`sysCode w prog C = sys C`), hence has every property of `C06_serialised`: write
sections exclude each other and the readers, the log of completed calls (fast-path hits included) is a run of the
sequential machine ending in `base`, and outside write sections the shared state is `base`. -/
theorem C06_code_serialised (w : Bool) (C : Codec V) (s0 : St V) (scripts : List (List (Op V × Faults)))
    (c : Cfg (Shared V) (Thread V)) (hr : Reach (sysCode w prog C) (init s0, scripts.map Conc.start) c) :
    sysCode w prog C = sys C ∧
    (c.2.countP (fun t => inW t.pc) ≤ 1 ∧ (c.2.countP (fun t => inW t.pc) = 1 → c.2.countP (fun t => inR t.pc) = 0)) ∧
    run C s0 (logOps c.1.log) = (c.1.base, logOuts c.1.log) ∧
    (c.2.countP (fun t => inW t.pc) = 0 → c.1.tv = c.1.base) := by
  rw [sysCode_eq] at hr
  exact ⟨sysCode_eq w C, C06_serialised C s0 scripts c hr⟩

/-- Non-vacuity of (1): a `Has` whose slow path answers with its named result instead of re-reading the cache (the
re-check only guards the store call) is sequentially indistinguishable from the code — fast path and slow path back
to back agree with `step` in a state with a cold cache and in one with a warm cache — but its slow part, started in a
state in which presence is already cached, answers `false` for a stored key. -/
def hasNamedResult : Stmt :=
 (.seq (.sync .rlock)
 (.seq (.ite .chNotNil (.seq (.sync .deferRUnlock) (.ret [.b .derefCh, .e .nil])) .skip)
 (.seq (.sync .runlock)
 (.seq (.sync .lock)
 (.seq (.sync .deferUnlock)
 (.seq (.ite .chNil
   (.seq (.seq (.kvHas 1 2) (.ite (.errNe 2) (.ret [.b .ff, .e (.wrap (.var 2) "failed to check whether key exists")]) .skip))
     (.chAddr 1))
   .skip)
 (.ret [.b (.var 1), .e .nil])))))))

example :
    let P : Prog := { prog with has := hasNamedResult }
    let warm : St UInt64 := { store := some [1], cv := none, ch := some true }
    (execOpW false P codec64 warm .has {}).out = (step codec64 warm .has {}).out ∧
    (execOpW false P codec64 (fresh (some [1])) .has {}).out = (step codec64 (fresh (some [1])) .has {}).out ∧
    (execSlowW false P codec64 warm .has {}).out = .has false ∧ (step codec64 warm .has {}).out = .has true := by
  decide

/-- **Everything else in the two anchored files** (regenerated by the two translators on every run): `typedvalue.go`
declares exactly the constructor, the accessor and the six translated functions, `typedstore.go` exactly the constructor,
the accessor and the eight translated methods — a new function breaks this obligation; the constructors return a composite
literal that gives every listed field the parameter of its own name and initialises nothing else, so a new `TypedValue`
starts with both cache pointers nil (the model's `fresh`) and an unlocked mutex, a new `TypedStore` holds nothing but the
store and the four codec functions; `KVStore()` returns the store field.  With `C06_code_refines_model` and
`C06_store_code_refines_model` the whole anchored code of C06 is derived from the source. -/
theorem C06_code_whole_files :
    Hive.Gen.C06Code.decls = ["NewTypedValue", "KVStore", "Get", "Has", "Compute", "Set", "Delete", "cachedValue"] ∧
    Hive.Gen.C06StoreCode.decls =
      ["NewTypedStore", "KVStore", "Get", "Has", "Set", "Delete", "Iterate", "IterateKeys", "DeletePrefix", "Clear"] ∧
    ctorOk ["kv", "keyBytes", "vToBytes", "bytesToV"] Hive.Gen.C06Code.ctor = true ∧
    ctorOk ["kv", "keyToBytes", "bytesToKey", "valueToBytes", "bytesToValue"] Hive.Gen.C06StoreCode.ctor = true ∧
    Hive.Gen.C06Code.accessor = "kv" ∧ Hive.Gen.C06StoreCode.accessor = "kv" := by decide

/-- The walk is not vacuous: it rejects a body that inspects the cache before taking the lock, and one that
returns with the lock held. -/
example : lockOk (.seq (.cached 1 2) (.seq (.sync .lock) (.seq (.sync .deferUnlock) (.ret [])))) = false ∧
    lockOk (.seq (.sync .lock) (.ret [])) = false ∧
    -- explicit unlock instead of `defer`: a panic of the compute function would leave the mutex locked
    lockOk (.seq (.sync .lock) (.seq (.callFn 3 4 1 2) (.seq (.sync .unlock) (.ret [])))) = false ∧
    lockOk (.seq (.sync .lock) (.seq (.sync .deferUnlock) (.seq (.callFn 3 4 1 2) (.ret [])))) = true := by decide

/-- Non-vacuity: the translated `Compute` on the concrete codec, a failing encoder: reported, nothing stored. -/
example : (execOp prog codec64 (fresh none) (.compute fun _ _ => .ok 5) { enc := true }).out = .err .enc ∧
    (execOp prog codec64 (fresh none) (.compute fun _ _ => .ok 5) { enc := true }).st = fresh none := by
  rw [execOp_eq_step]; decide

end Code

/-! ## The methods of `TypedStore`, regenerated from the source

`harness/c06/xlate_ts` translates the bodies of all eight methods of `TypedStore` of the working
tree into terms of `SCode.SStmt` (`Hive/Gen/C06_StoreCode.lean`). -/
section StoreCode
open Hive.Typed.SCode Hive.Gen.C06StoreCode

/-- **The translated methods of `TypedStore` are the model.**  For every key / value type, codec pair, raw store content,
operation (`Get/Has/Set/Delete` and `Iterate` with any prefix, direction and stopping callback), fault vector (store call,
the store's own iteration failing after n entries, key / value encoder, decode positions) and store-error flavour (`w`:
bare or wrapped, `ErrKeyNotFound` included), running the regenerated method body gives exactly the result, the resulting
raw store and the call trace of the hand-written `sstep`; the body of `IterateKeys` (run at `V := Unit`) gives `siterateKeys`,
the bodies of `DeletePrefix` / `Clear` give `sdeletePrefix` / `sclear` — hence every `C06_store_*` theorem is a theorem
about the code as translated.  For `Iterate` the consumer closure
is a term of its own, run once per entry by the underlying store's loop (`iterLoopC`); the proof shows that closure + loop +
error plumbing (`innerErr`, `iterationErr`) are the hand-written `iterLoop` over the per-entry decode results
(`Hive/Proofs/TypedStoreCode.lean`: `consumer_spec`, `iterLoopC_eq` by induction over the entries, `iterate_outer`).
The obligation pins which variable every call result lands in and which is handed on (key bytes vs value bytes), which
store method is called, which error variable every guard tests, what the closure assigns to the captured error and what
it answers the store, and which value a `return` hands out. -/
theorem C06_store_code_refines_model {K V : Type} [Inhabited K] [Inhabited V] (KC : Codec K) (VC : Codec V) (m : Store) (F : SFaults) (w : Bool) :
    (∀ op, sexecOp w sprog KC VC m op F = sstep KC VC m op F) ∧
    (∀ pfx bwd stop, sexecKeys w sprog KC m pfx bwd stop F = siterateKeys KC m pfx bwd stop F) ∧
    (∀ pfx, sexecPass w KC VC sprog.deletePrefix m pfx F = sdeletePrefix m pfx F) ∧
    (∀ pfx, sexecPass w KC VC sprog.clear m pfx F = sclear m F) :=
  ⟨fun op => sexecOp_eq_sstep w KC VC m op F, fun pfx bwd stop => scode_iterateKeys w KC m pfx bwd stop F,
   fun pfx => scode_deletePrefix w KC VC m pfx F, fun pfx => scode_clear w KC VC m pfx F⟩

/-- Non-vacuity: the translated `Delete` on the variable-length key codec removes exactly the entry of that key, not
the entries whose keys have its encoding as a prefix; the translated `Iterate` stops at the undecodable key and reports it. -/
example : (sexecOp false sprog codecVar codec64 [([1], be8 10), ([1, 0], be8 20)] (.delete 1) {}).st = [([1, 0], be8 20)] ∧
    (sexecOp false sprog codecVar codec64 [([1], be8 10), ([1, 2, 3], be8 20), ([2], be8 30)] (.iterate [] false 0) {}).out =
      .iter [(1, 10)] (some .decK) := by decide

end StoreCode

/-! ## Non-vacuity: the hypotheses are satisfiable by concrete, non-trivial instances -/

/-- The codec of the correspondence run round-trips (so `C06_cache_coherent` etc. apply to it). -/
theorem codec64_roundTrip : codec64.RoundTrip := by
  intro v b h
  simp only [codec64] at h ⊢
  split at h
  · cases h
  · rename_i hne
    cases h
    have hlen : (be8 v).length = 8 := rfl
    have hv : UInt64.ofNat (ofBE (be8 v)) = v := by
      have hlt := v.toNat_lt
      simp only [be8, ofBE, List.foldl, UInt8.toNat_ofNat']
      have : (((((((0 * 256 + v.toNat / 2 ^ 56 % 2 ^ 8) * 256 + v.toNat / 2 ^ 48 % 2 ^ 8) * 256 +
          v.toNat / 2 ^ 40 % 2 ^ 8) * 256 + v.toNat / 2 ^ 32 % 2 ^ 8) * 256 + v.toNat / 2 ^ 24 % 2 ^ 8) * 256 +
          v.toNat / 2 ^ 16 % 2 ^ 8) * 256 + v.toNat / 2 ^ 8 % 2 ^ 8) * 256 + v.toNat % 2 ^ 8 = v.toNat := by omega
      rw [this]; simp
    simp [hlen, hv, hne]

example : codec64.RoundTrip := codec64_roundTrip

/-- A codec for the counter theorem: unary. -/
def unary : Codec Nat := { enc := fun n => some (List.replicate n 0), dec := fun b => some b.length }

example : unary.RoundTrip := by
  intro v b h; simp only [unary, Option.some.injEq] at h ⊢; subst h; simp

/-- A history with a swallowed-nothing fault of every kind, on the concrete codec: results, raw bytes. -/
example :
    (run codec64 (fresh none)
      [(.compute (fun _ _ => .ok 5), { enc := true }), (.get, {}), (.set 7, {}), (.compute (fun c _ => .ok (c + 1)), { kv2 := true }),
       (.get, {}), (.compute (fun _ _ => .notChanged), {}), (.delete, { kv1 := true }), (.reopen, {}), (.get, { dec := true }),
       (.get, {})]).2
      = [.err .enc, .notfound, .ok, .err .kv, .val 7, .computed 7 false, .err .kv, .ok, .err .dec, .val 7] := by
  decide

/-- A concrete schedule of the protocol model: two goroutines increment concurrently, interleaved at
micro-step granularity (the second one waits for the lock); both increments are in the log. -/
example :
    let c := runSched (sys unary) (init (fresh none), [start [(.compute incFn, {})], start [(.compute incFn, {}), (.get, {})]])
      [(0, 0), (1, 0), (0, 0), (0, 0), (0, 0), (0, 0), (0, 0), (1, 0), (1, 0), (1, 0), (1, 0), (1, 0), (1, 0),
       (1, 0), (1, 0), (1, 0)]
    logOuts c.1.log = [.computed 1 true, .computed 2 true, .val 2] ∧ c.1.tv.store = some [0, 0] := by
  decide

end Hive.Typed
