import Hive.Proofs.StreamInPlace
import Hive.Proofs.StreamPeekC01
import Hive.Gen.C01c_Facts
import Hive.Spec.DeserFacts
/-!
# C01 (stream part) — each stream Write*/Read* helper pair round-trips through any io.Reader

Property theorems only.  Model: `Hive/Model/Stream.lean` (serializer/stream read.go, write.go,
byte_buffer.go after the `fix:` commits).  A reader is data plus an **arbitrary** list of chunk sizes
(`Rd`), so `∀ chunks` is "however that reader splits its reads"; `tail` is whatever follows the
written bytes in the stream.
-/
namespace Hive.Stream
open Hive.Dec

/-- `io.ReadFull` over any chunking delivers exactly the next `e.length` bytes and leaves the rest. -/
theorem C01_stream_readFull_any_chunking (e tail : Bytes) (chunks : List Nat) :
    ∃ chunks', readFull e.length ⟨e ++ tail, chunks⟩ = (some e, ⟨tail, chunks'⟩) :=
  readFull_append e tail chunks

/-- **Layout of what the writers write, for every buffer.**  Whatever the `ByteBuffer` holds before and
behind its position (created with an initial length, rewound with `Seek`, positioned beyond its end):
a writer program is ONE write of the concatenation of its calls' encodings (`encW`) at the current
position — it overwrites exactly `enc.length` bytes of the storage, keeps everything before and behind
them, and leaves the position directly behind what it wrote; the calls fail exactly when `encW` is
undefined (a length that does not fit its prefix).  For `WriteCollection` this is the statement that
its seek-back-and-patch of the count returns to the offset behind the written elements, not to the end
of the storage. -/
theorem C01_stream_write_layout (ops : List WOp) (w : BB) (h : ops ≠ [] ∨ w.pos ≤ w.buf.length) :
    runW ops w = (encW ops).map w.write := by
  cases ops with
  | nil =>
    rcases h with h | h
    · exact absurd rfl h
    · exact runW_write [] w h
  | cons op ops =>
    simp only [runW, encW, runWOp_write]
    cases h1 : encOp op with
    | none => simp
    | some a =>
      have hp' : (w.write a).pos ≤ (w.write a).buf.length := by
        rw [BB.write_pos, BB.write_buf]
        have := w.take_pos_length
        simp only [List.length_append]; omega
      simp only [Option.map_some, runW_write ops (w.write a) hp']
      cases h2 : encW ops with
      | none => simp
      | some b => simp [BB.write_write]

/-- the same for one call -/
theorem C01_stream_op_write_layout (op : WOp) (w : BB) : runWOp op w = (encOp op).map w.write :=
  runWOp_write op w

/-- the fresh, append-only buffer as the special case -/
theorem C01_stream_write_layout_fresh (ops : List WOp) :
    runW ops ⟨[], 0⟩ = (encW ops).map (fun e => ⟨e, e.length⟩) := by
  have h := runW_end ops []
  simpa [atEnd] using h

/-- One writer call, read back by its reader call through any chunking, with any tail. -/
theorem C01_stream_op_any_chunking (op : WOp) (e tail : Bytes) (chunks : List Nat)
    (he : encOp op = some e) (hw : op.wf) :
    ∃ chunks' c, runOp (readOf1 op) ⟨e ++ tail, chunks⟩ = ⟨.ok, ⟨tail, chunks'⟩, valsOf1 op, c⟩ :=
  op_roundtrip op e tail chunks he hw

/-- **C01, stream clause.** For every writer program whose writes into a `ByteBuffer` succeed, for
every way the reader splits its reads and every tail following the written bytes: the mirrored
reader calls succeed, return exactly the written values, and consume exactly the written bytes. -/
theorem C01_stream_any_chunking (ops : List WOp) (bb : BB) (hrun : runW ops ⟨[], 0⟩ = some bb)
    (hw : ∀ op ∈ ops, op.wf) (tail : Bytes) (chunks : List Nat) :
    (runProg (readOf ops) ⟨bb.buf ++ tail, chunks⟩).res = .ok ∧
    (runProg (readOf ops) ⟨bb.buf ++ tail, chunks⟩).vals = valsOf ops ∧
    (runProg (readOf ops) ⟨bb.buf ++ tail, chunks⟩).rd.rest = tail := by
  rw [C01_stream_write_layout_fresh] at hrun
  cases he : encW ops with
  | none => simp [he] at hrun
  | some e =>
    simp only [he, Option.map_some, Option.some.injEq] at hrun
    subst hrun
    obtain ⟨cs', c, h⟩ := prog_roundtrip ops e tail chunks he hw
    simp [h]

/-- **Round trip of data written in place.**  For every buffer `w` (any storage, any position), a writer
program run at `w.pos` and read back from that offset of the resulting storage — through any chunking —
returns exactly the written values, and what the reader has left is exactly the storage behind the new
write position (old data included: nothing of it is consumed, nothing is skipped). -/
theorem C01_stream_in_place_any_chunking (ops : List WOp) (w w' : BB) (hne : ops ≠ [] ∨ w.pos ≤ w.buf.length)
    (hrun : runW ops w = some w') (hw : ∀ op ∈ ops, op.wf) (chunks : List Nat) :
    (runProg (readOf ops) ⟨w'.buf.drop w.pos, chunks⟩).res = .ok ∧
    (runProg (readOf ops) ⟨w'.buf.drop w.pos, chunks⟩).vals = valsOf ops ∧
    (runProg (readOf ops) ⟨w'.buf.drop w.pos, chunks⟩).rd.rest = w'.buf.drop w'.pos := by
  rw [C01_stream_write_layout ops w hne] at hrun
  cases he : encW ops with
  | none => simp [he] at hrun
  | some e =>
    simp only [he, Option.map_some, Option.some.injEq] at hrun
    subst hrun
    rw [BB.drop_after_write]
    obtain ⟨cs', c, h⟩ := prog_roundtrip ops e ((w.write e).buf.drop (w.write e).pos) chunks he hw
    simp [h]

/-! ### `ByteBuffer.Seek` (`stream.GoTo` / `Skip` / `Offset`) -/

/-- the offset a seek aims at -/
def seekTarget (w : BB) (wh : Whence) (off : Int) : Int :=
  match wh with
  | .start => off
  | .cur => (w.pos : Int) + off
  | .fin => (w.buf.length : Int) + off

/-- **Seek** is refused exactly when it aims in front of the buffer; otherwise it sets the position to the
target (relative to the start, the current position or the END OF THE STORAGE — not its capacity, not the
write position) and changes nothing else.  A position beyond the end is allowed. -/
theorem C01_stream_seek_spec (w : BB) (wh : Whence) (off : Int) :
    (seekTarget w wh off < 0 → w.seek wh off = none) ∧
    (0 ≤ seekTarget w wh off → w.seek wh off = some ⟨w.buf, (seekTarget w wh off).toNat⟩) := by
  cases wh <;> simp only [BB.seek, seekTarget] <;> constructor <;> intro h <;> simp <;> omega

/-- `Seek(0, io.SeekEnd)` followed by a writer program appends its encoding to the storage, whatever the
position was before. -/
theorem C01_stream_seek_end_appends (ops : List WOp) (w : BB) :
    (w.seek .fin 0).bind (runW ops) = (encW ops).map (fun e => ⟨w.buf ++ e, w.buf.length + e.length⟩) := by
  have h : w.seek .fin 0 = some (atEnd w.buf) := by simp [BB.seek, atEnd]
  rw [h, Option.bind_some, runW_end ops w.buf]
  cases encW ops <;> simp [atEnd]

/-- **Round trip after any seek.**  Wherever a successful `Seek` (any `whence`, any distance) puts the write
position: the writer program written there reads back — from that offset of the resulting storage, through
any chunking — as the written values, leaving exactly the storage behind the new write position. -/
theorem C01_stream_seek_in_place_any_chunking (ops : List WOp) (w w1 w' : BB) (wh : Whence) (off : Int)
    (hs : w.seek wh off = some w1) (hne : ops ≠ []) (hrun : runW ops w1 = some w') (hw : ∀ op ∈ ops, op.wf)
    (chunks : List Nat) :
    w1.buf = w.buf ∧ (w1.pos : Int) = seekTarget w wh off ∧
    (runProg (readOf ops) ⟨w'.buf.drop w1.pos, chunks⟩).res = .ok ∧
    (runProg (readOf ops) ⟨w'.buf.drop w1.pos, chunks⟩).vals = valsOf ops ∧
    (runProg (readOf ops) ⟨w'.buf.drop w1.pos, chunks⟩).rd.rest = w'.buf.drop w'.pos := by
  have hsp := C01_stream_seek_spec w wh off
  have hpos : 0 ≤ seekTarget w wh off := by
    by_cases h : seekTarget w wh off < 0
    · rw [hsp.1 h] at hs; simp at hs
    · omega
  rw [hsp.2 hpos] at hs
  simp only [Option.some.injEq] at hs
  subst hs
  refine ⟨rfl, by simp [Int.toNat_of_nonneg hpos], ?_⟩
  exact C01_stream_in_place_any_chunking ops _ w' (Or.inl hne) hrun hw chunks

/-- Non-vacuity: Skip(-3) from position 5 of a 6-byte buffer, Seek(-2, end), a refused seek. -/
example :
    (⟨[1, 2, 3, 4, 5, 6], 5⟩ : BB).seek .cur (-3) = some ⟨[1, 2, 3, 4, 5, 6], 2⟩ ∧
    (⟨[1, 2, 3, 4, 5, 6], 1⟩ : BB).seek .fin (-2) = some ⟨[1, 2, 3, 4, 5, 6], 4⟩ ∧
    (⟨[1, 2, 3, 4, 5, 6], 1⟩ : BB).seek .cur (-2) = none ∧
    (⟨[1, 2, 3], 1⟩ : BB).seek .start 7 = some ⟨[1, 2, 3], 7⟩ := by
  decide

/-- Non-vacuity: a collection rewritten in place in front of existing data inside a buffer with spare
storage, followed by one more value: the bytes, the position and the read-back. -/
example :
    let w : BB := ⟨[9, 9, 9, 9, 9, 9, 9, 9, 9, 9], 2⟩
    runW [.coll .u8 (.num 1) [[5], [6]], .num 2 [7, 0]] w = some ⟨[9, 9, 2, 5, 6, 7, 0, 9, 9, 9], 7⟩ ∧
    (runProg (readOf [.coll .u8 (.num 1) [[5], [6]], .num 2 [7, 0]]) ⟨[2, 5, 6, 7, 0, 9, 9, 9], [1, 1, 1]⟩).vals
      = [.bytes [5], .bytes [6], .bytes [7, 0]] := by
  decide

/-- Non-vacuity of the hypotheses: a program with a collection, a sized byte string and a uint64
prefix is written successfully and is well-formed. -/
example : (runW [.coll .u16 (.bws .u8) [[1, 2], [], [3]], .ows .u64 [9, 9], .num 4 [1, 0, 0, 0]] ⟨[], 0⟩).isSome = true
    ∧ ∀ op ∈ [WOp.coll .u16 (.bws .u8) [[1, 2], [], [3]], .ows .u64 [9, 9], .num 4 [1, 0, 0, 0]], op.wf := by
  constructor
  · rw [C01_stream_write_layout_fresh]; decide
  · intro op hop; simp at hop; rcases hop with h | h | h <;> subst h <;> simp [WOp.wf]

/-! ### regenerated facts: the bodies of the writers, `ByteBuffer.Write` / `Seek` and the seek helpers

`Hive/Gen/C01c_Facts.lean` is rewritten from the Go source on every run (harness/c02/facts); the normalised bodies
must equal the copies the model was transcribed from (`Hive/Spec/DeserFacts.lean`). -/
section Facts
open Hive.Gen.C01cFacts

theorem C01_facts_body_writeFixedSize : body_writeFixedSize = Hive.Spec.DeserFacts.body_writeFixedSize := rfl

theorem C01_facts_body_WriteCollection : body_WriteCollection = Hive.Spec.DeserFacts.body_WriteCollection := rfl

theorem C01_facts_body_WriteBytesWithSize : body_WriteBytesWithSize = Hive.Spec.DeserFacts.body_WriteBytesWithSize := rfl

theorem C01_facts_body_ByteBuffer_Write : body_ByteBuffer_Write = Hive.Spec.DeserFacts.body_ByteBuffer_Write := rfl

theorem C01_facts_body_ByteBuffer_Seek : body_ByteBuffer_Seek = Hive.Spec.DeserFacts.body_ByteBuffer_Seek := rfl

theorem C01_facts_body_Offset : body_Offset = Hive.Spec.DeserFacts.body_Offset := rfl

theorem C01_facts_body_Skip : body_Skip = Hive.Spec.DeserFacts.body_Skip := rfl

theorem C01_facts_body_GoTo : body_GoTo = Hive.Spec.DeserFacts.body_GoTo := rfl

/-- the prefix bounds of `writeFixedSize` are the bounds of the model's `fitsLP` (the uint64 case has none: an `int` always fits) -/
theorem C01_facts_fitsLP : fitsLP .u8 255 = true ∧ fitsLP .u8 256 = false ∧ fitsLP .u16 65535 = true ∧ fitsLP .u16 65536 = false ∧
    fitsLP .u32 4294967295 = true ∧ fitsLP .u32 4294967296 = false ∧ fitsLP .u64 maxInt = true ∧
    ["if l>math.MaxUint8 {", "if l>math.MaxUint16 {", "if l>math.MaxUint32 {"].all (fun t => body_writeFixedSize.contains t) = true := by
  decide
end Facts

/-- The unrepaired `ReadBytes` (one `Read`, short read = error) failed as soon as the reader split
the bytes: regression statement about the model of the old code. -/
theorem C01_stream_old_single_read_witness :
    (readBytesOld 3 ⟨[1, 2, 3], [1, 1, 1]⟩).1 = .err ∧ (readBytes 3 ⟨[1, 2, 3], [1, 1, 1]⟩).1 = some [1, 2, 3] := by
  decide

/-! ## `PeekSize` and `ReadObjectFromReader` (round 6) -/

/-- `PeekSize` on what a sized writer call (`WriteBytesWithSize`, `WriteObjectWithSize`, `WriteCollection`) wrote,
through any chunking, with any tail: it reports the size that was written (payload length / element count) and the
reader still holds everything (`PeekSize` seeks back). -/
theorem C01_stream_peek_written (op : WOp) (e tail : Bytes) (chunks : List Nat) (lp : LP) (n : Nat)
    (he : encOp op = some e) (hs : op.sized = some (lp, n)) :
    ∃ chunks', runOp (.peek lp) ⟨e ++ tail, chunks⟩ = ⟨.ok, ⟨e ++ tail, chunks'⟩, [.size n], {}⟩ :=
  peek_written op e tail chunks lp n he hs

/-- `PeekSize`, then the mirrored reader call, any chunking: the size, then exactly the written values; exactly the
written bytes are consumed. -/
theorem C01_stream_peek_then_read_any_chunking (op : WOp) (e tail : Bytes) (chunks : List Nat) (lp : LP) (n : Nat)
    (he : encOp op = some e) (hs : op.sized = some (lp, n)) (hw : op.wf) :
    ∃ chunks' c, runProg (.cons (.peek lp) (.cons (readOf1 op) .nil)) ⟨e ++ tail, chunks⟩ =
      ⟨.ok, ⟨tail, chunks'⟩, .size n :: valsOf1 op, c⟩ :=
  peek_then_read op e tail chunks lp n he hs hw

example : (WOp.coll .u16 (.bws .u8) [[1, 2], [3]]).sized = some (.u16, 2) ∧
    encOp (.coll .u16 (.bws .u8) [[1, 2], [3]]) = some [2, 0, 2, 1, 2, 1, 3] ∧ (WOp.coll .u16 (.bws .u8) [[1, 2], [3]]).wf := by
  refine ⟨rfl, by decide, ?_⟩
  simp [WOp.wf]

/-- `ReadObjectFromReader`: a whole mirrored reader program run inside the callback, any chunking — the written
values, exactly the written bytes. -/
theorem C01_stream_sub_any_chunking (ops : List WOp) (bb : BB) (hrun : runW ops ⟨[], 0⟩ = some bb)
    (hw : ∀ op ∈ ops, op.wf) (tail : Bytes) (chunks : List Nat) :
    (runOp (.sub (readOf ops)) ⟨bb.buf ++ tail, chunks⟩).res = .ok ∧
    (runOp (.sub (readOf ops)) ⟨bb.buf ++ tail, chunks⟩).vals = valsOf ops ∧
    (runOp (.sub (readOf ops)) ⟨bb.buf ++ tail, chunks⟩).rd.rest = tail := by
  rw [sub_eq]
  exact C01_stream_any_chunking ops bb hrun hw tail chunks

end Hive.Stream
