import Hive.Proofs.Stream
/-!
# C01 (stream part) — each stream Write*/Read* helper pair round-trips through any io.Reader

Property theorems only.  Model: `Hive/Model/Stream.lean` (serializer/stream read.go, write.go,
byte_buffer.go after the `fix:` commits).  A reader is data plus an **arbitrary** list of chunk sizes
(`Rd`), so `∀ chunks` is "however that reader splits its reads"; `tail` is whatever follows the
written bytes in the stream.
-/
namespace Hive.Stream
open Hive.Dec

/-- `io.ReadFull` over any chunking delivers exactly the next `e.length` bytes and leaves the rest. -/
theorem C01_stream_readFull_any_chunking (e tail : Bytes) (chunks : List Nat) :
    ∃ chunks', readFull e.length ⟨e ++ tail, chunks⟩ = (some e, ⟨tail, chunks'⟩) :=
  readFull_append e tail chunks

/-- What a writer program leaves in a fresh `ByteBuffer` is the concatenation of the encodings of its
calls (`encW`), and the calls fail exactly when `encW` is undefined (a length that does not fit its
prefix).  `WriteCollection`'s seek-back-and-patch of the count is part of this statement. -/
theorem C01_stream_write_layout (ops : List WOp) :
    runW ops ⟨[], 0⟩ = (encW ops).map (fun e => ⟨e, e.length⟩) := by
  have h := runW_end ops []
  simpa [atEnd] using h

/-- One writer call, read back by its reader call through any chunking, with any tail. -/
theorem C01_stream_op_any_chunking (op : WOp) (e tail : Bytes) (chunks : List Nat)
    (he : encOp op = some e) (hw : op.wf) :
    ∃ chunks' c, runOp (readOf1 op) ⟨e ++ tail, chunks⟩ = ⟨.ok, ⟨tail, chunks'⟩, valsOf1 op, c⟩ :=
  op_roundtrip op e tail chunks he hw

/-- **C01, stream clause.** For every writer program whose writes into a `ByteBuffer` succeed, for
every way the reader splits its reads and every tail following the written bytes: the mirrored
reader calls succeed, return exactly the written values, and consume exactly the written bytes. -/
theorem C01_stream_any_chunking (ops : List WOp) (bb : BB) (hrun : runW ops ⟨[], 0⟩ = some bb)
    (hw : ∀ op ∈ ops, op.wf) (tail : Bytes) (chunks : List Nat) :
    (runProg (readOf ops) ⟨bb.buf ++ tail, chunks⟩).res = .ok ∧
    (runProg (readOf ops) ⟨bb.buf ++ tail, chunks⟩).vals = valsOf ops ∧
    (runProg (readOf ops) ⟨bb.buf ++ tail, chunks⟩).rd.rest = tail := by
  rw [C01_stream_write_layout] at hrun
  cases he : encW ops with
  | none => simp [he] at hrun
  | some e =>
    simp only [he, Option.map_some, Option.some.injEq] at hrun
    subst hrun
    obtain ⟨cs', c, h⟩ := prog_roundtrip ops e tail chunks he hw
    simp [h]

/-- Non-vacuity of the hypotheses: a program with a collection, a sized byte string and a uint64
prefix is written successfully and is well-formed. -/
example : (runW [.coll .u16 (.bws .u8) [[1, 2], [], [3]], .ows .u64 [9, 9], .num 4 [1, 0, 0, 0]] ⟨[], 0⟩).isSome = true
    ∧ ∀ op ∈ [WOp.coll .u16 (.bws .u8) [[1, 2], [], [3]], .ows .u64 [9, 9], .num 4 [1, 0, 0, 0]], op.wf := by
  constructor
  · rw [C01_stream_write_layout]; decide
  · intro op hop; simp at hop; rcases hop with h | h | h <;> subst h <;> simp [WOp.wf]

/-- The unrepaired `ReadBytes` (one `Read`, short read = error) failed as soon as the reader split
the bytes: regression statement about the model of the old code. -/
theorem C01_stream_old_single_read_witness :
    (readBytesOld 3 ⟨[1, 2, 3], [1, 1, 1]⟩).1 = .err ∧ (readBytes 3 ⟨[1, 2, 3], [1, 1, 1]⟩).1 = some [1, 2, 3] := by
  decide

end Hive.Stream
