import Hive.Proofs.KVConcMore
import Hive.Proofs.KVConcHist
import Hive.Proofs.KVConcClosed
import Hive.Proofs.KVLinWiden
import Hive.Proofs.KVAsm
import Hive.Proofs.KVLin
import Hive.Gen.C05_Skel
import Hive.Gen.C05_Src
import Hive.Gen.C05_WrapSkel
/-!
# C05 — KVStore operations are linearizable under concurrent use

Property theorems only.  Protocol model: `Hive/Model/KVConc.lean` — any number of goroutines with
arbitrary scripts of Get/Has/Set/Delete/DeletePrefix/Clear/Iterate/IterateKeys/batch Commit/Close
calls on arbitrary views (view = a lock + a realm) of one mapdb store, compiled to the instruction
sequences of `kvstore/mapdb` (closed-flag load, view lock, map lock, ONE atomic access to the C04
specification's ordered map, unlocks); `sync.RWMutex` with writer preference.  All theorems are
invariants over every configuration reachable from `initCfg scripts`, for every `scripts`, i.e. for
every number of goroutines, every history, every schedule.

The checker that decides recorded histories of the real code (`Hive/Model/KVLin.lean`) is proved
sound in `C05_checker_sound`.
-/
namespace Hive.KV.Conc
open Hive.Conc

/-- **Linearizability (ghost linearisation invariant).**  In every reachable configuration:
(1) the linearisation points recorded in the ghost trace, read in trace order, are a *sequential*
execution of the specification that produces exactly the recorded answers (`seqOk`: an access
answers what the C04 ordered map answers in the state reached so far; a call fails with
ErrStoreClosed only after `Close` was linearised), and the shared map and flag are the state this
sequential execution ends in;
(2) for every goroutine, its own events in trace order are `inv · lin* · ret` blocks in which the
linearisation points are exactly the accesses of that call, in order (one per Get/Has/Set/Delete/
DeletePrefix/Clear/Iterate, one per write of a Commit), and the response carries the answer of the
call's last linearisation point (`prun … = pst t ≠ bad`): every linearisation point lies between
the invocation and the response of its call, and determines the response. -/
theorem C05_linearizable (scripts : List (List COp)) (c : Cfg Shared Thread)
    (hr : Reach sys (initCfg scripts) c) :
    seqOk c.1.tr = true ∧ (replay c.1.tr).m = c.1.m ∧ (replay c.1.tr).closed = c.1.closed ∧
    (c.2.map (·.tid)).Nodup ∧
    ∀ t ∈ c.2, prun (evsOf t.tid c.1.tr) = pst t ∧ prun (evsOf t.tid c.1.tr) ≠ .bad := by
  obtain ⟨_, hs, hn⟩ := all_reach hr
  refine ⟨hs.ok, hs.m, hs.closed, hn.nodup, fun t ht => ⟨hn.nest t ht, ?_⟩⟩
  rw [hn.nest t ht]
  unfold pst; split <;> simp

/-- On a store that nobody closes the ghost linearisation consists of accesses only (no
closed-failure, no flag swap, flag never set): with (1) above it is literally a sequential run of
the C04 ordered map. -/
theorem C05_linearizable_open (scripts : List (List COp)) (hnc : ∀ sc ∈ scripts, COp.close ∉ sc)
    (c : Cfg Shared Thread) (hr : Reach sys (initCfg scripts) c) :
    c.1.closed = false ∧ ∀ e ∈ c.1.tr, ∀ tid idx out, e ≠ .lin tid idx .failClosed out ∧ e ≠ .lin tid idx .close out := by
  have h := oinv_reach hnc hr
  refine ⟨h.open_, fun e he tid idx out => ⟨?_, ?_⟩⟩ <;>
  · intro heq
    have := h.evs e he
    rw [heq] at this
    exact this

/-- **Linearizability w.r.t. the full C04 contract, `Close` included.**  Take the history a harness
would record of any reachable trace (`histOf`: one operation per linearisation point — each access,
each closed-flag failure, each `Close` — stamped with the trace positions of its call's invocation
and response; a call still running returns "at infinity").  It is `Linearizable` in the sense of the
history checker: there is an order of all operations that respects real time and in which the C04
ordered map *with its closed flag* (`hstep`: after `Close` every operation answers ErrStoreClosed
and changes nothing) gives exactly the recorded answers.  The order is that of the linearisation
points with `Close` and the failed calls moved behind all accesses: an access that the trace
linearises after the flag swap belongs to a call that had loaded the flag — hence was invoked —
before the swap (`HInv.g3`), so moving it in front of `Close` does not contradict real time. -/
theorem C05_linearizable_close (scripts : List (List COp)) (c : Cfg Shared Thread)
    (hr : Reach sys (initCfg scripts) c) : Lin.Linearizable (histOf c.1.tr).toArray :=
  Lin.validate_sound _ _ (model_history_validates hr)

/-- **What a harness records of a wrapped store is linearizable.**  A harness stamps a call through a wrapper where the
WRAPPER is invoked and where it returns: for `debug` that is before the access callback runs — in the model the `callback`
call of its own in front of the wrapped call, which has no linearisation point and hence no operation in `histOf` — so the
recorded operation is the model's operation with a *wider* window (`Lin.wider`: invoked no later, returned no earlier, same
kind, same answer).  Any history that is pointwise wider than the history of a reachable trace is linearizable w.r.t. the
full C04 contract as well (`Lin.linearizable_widen`: the same witness order works). -/
theorem C05_recorded_wrapped_history_linearizable (scripts : List (List COp)) (c : Cfg Shared Thread)
    (hr : Reach sys (initCfg scripts) c) (H' : List Lin.HOp) (hlen : (histOf c.1.tr).length = H'.length)
    (hw : ∀ i, i < (histOf c.1.tr).length →
      Lin.wider (Lin.pick (histOf c.1.tr).toArray i) (Lin.pick H'.toArray i)) :
    Lin.Linearizable H'.toArray :=
  Lin.linearizable_widen _ _ (by simpa using hlen) (by simpa using hw) (C05_linearizable_close scripts c hr)

/-- The hypotheses are satisfiable non-trivially: in the third sample run below the recorded `Set` through `flushkv∘debug` is
the model's `fset` operation invoked at the `callback`'s invocation (position 0 instead of 2). -/
example : Lin.wider { inv := 2, ret := 7, kind := .data (.set [1, 2] [3]), out := .ok }
    { inv := 0, ret := 7, kind := .data (.set [1, 2] [3]), out := .ok } := ⟨by decide, by decide, rfl, rfl⟩

/-- **Model ↔ checker.**  The history of every reachable trace of the protocol model is *accepted* by
`decideHist` — the very function `drv_c05` runs on the histories recorded from the real code (total
Wing–Gong search with memoisation, then the validator): without a node budget outright; with the
budget the driver uses (`some 400000`) unless the search reports that it gave up.  Hence a
`reject not-linearizable` of the driver is a deviation from every behaviour of the model. -/
theorem C05_checker_complete_on_model (scripts : List (List COp)) (c : Cfg Shared Thread)
    (hr : Reach sys (initCfg scripts) c) :
    Lin.decideHist (histOf c.1.tr) none = .accept ∧
    ∀ budget, Lin.decideHist (histOf c.1.tr) budget = .accept ∨
      Lin.decideHist (histOf c.1.tr) budget = .reject "budget-exhausted" :=
  ⟨model_history_accepted_unbounded hr, model_history_accepted hr⟩

/-- Where the events of a call sit in a reachable trace: every linearisation point lies after the
invocation event of its call and before its response event (positions; `retPos = length` if the call
has not returned), and an access linearised after a `Close` point belongs to a call invoked before
that `Close` point. -/
theorem C05_lin_points_in_window (scripts : List (List COp)) (c : Cfg Shared Thread)
    (hr : Reach sys (initCfg scripts) c) :
    (∀ p t i a o, c.1.tr[p]? = some (.lin t i a o) → invPos c.1.tr t i < p ∧ p < retPos c.1.tr t i) ∧
    (∀ p q t i a o e, c.1.tr[p]? = some (.lin t i (.eff a) o) → c.1.tr[q]? = some e → isCloseLin e = true →
      q < p → invPos c.1.tr t i < q) := by
  obtain ⟨_, _, _, hh⟩ := hinv_reach hr
  exact ⟨fun p t i a o hp => ⟨hh.g1 p t i a o hp, hh.g2 p t i a o hp⟩, hh.g3⟩

/-- **A closed store stays closed, concurrently.**  If a call is invoked after a `Close` point of the trace (its invocation
event lies behind the position `q` of the flag swap), none of its accesses ever takes effect - wherever the trace goes on:
it can only fail with ErrStoreClosed (`C05_linearizable` (2): its only possible linearisation point is the closed-flag
failure).  Only calls that were already running when the flag was swapped can still take effect (`C05_lin_points_in_window`,
second part) - which is what makes the reordering of `C05_linearizable_close` legitimate. -/
theorem C05_no_effect_after_close (scripts : List (List COp)) (c : Cfg Shared Thread)
    (hr : Reach sys (initCfg scripts) c) (q t i : Nat) (e : Ev) (hq : c.1.tr[q]? = some e) (hcl : isCloseLin e = true)
    (hinv : q < invPos c.1.tr t i) : ∀ (p : Nat) (a : DOp) (o : Out), c.1.tr[p]? ≠ some (Ev.lin t i (.eff a) o) := by
  intro p a o hp
  obtain ⟨h1, h2⟩ := C05_lin_points_in_window scripts c hr
  have hw := (h1 p t i _ o hp).1
  have := h2 p q t i a o e hp hq hcl (by omega)
  omega

/-- A finished goroutine has completed exactly the calls of its script: its events are complete
blocks, one per call. -/
theorem C05_finished_complete (scripts : List (List COp)) (c : Cfg Shared Thread)
    (hr : Reach sys (initCfg scripts) c) (t : Thread) (ht : t ∈ c.2) (hf : t.finished) :
    prun (evsOf t.tid c.1.tr) = .idle t.idx := by
  obtain ⟨_, _, hn⟩ := all_reach hr
  rw [hn.nest t ht]
  simp [pst, hf.1]

/-- **Iterate reports a snapshot.**  Wherever an Iterate / IterateKeys access is linearised in a
reachable trace, what it reports is the range scan (C04 `Spec.iterate`) of ONE state of the map —
the state reached by the linearisation points before it; by `C05_linearizable (2)` that instant lies
between the call's invocation and its response.  (The consumer runs afterwards on this snapshot:
the model has no instruction between the access and the response that looks at the map,
`C05_map_access_only_at_eff`.) -/
theorem C05_iterate_snapshot (scripts : List (List COp)) (c : Cfg Shared Thread)
    (hr : Reach sys (initCfg scripts) c) (pre post : List Ev) (tid idx : Nat) (fp : Bytes) (strip : Nat)
    (d : Dir) (stop : Nat) (out : Out) :
    (c.1.tr = pre ++ .lin tid idx (.eff (.iter fp strip d stop)) out :: post →
      out = .kvs (Spec.iterate fp strip d stop (replay pre).m)) ∧
    (c.1.tr = pre ++ .lin tid idx (.eff (.iterk fp strip d stop)) out :: post →
      out = .keys ((Spec.iterate fp strip d stop (replay pre).m).map (·.1))) := by
  obtain ⟨_, hs, _⟩ := all_reach hr
  have hok := hs.ok
  constructor <;>
  · intro htr
    rw [htr] at hok
    have := seqOkFrom_split seqInit pre post _ hok
    simpa [evOk, DOp.apply, replay] using this

theorem split_at_index {α : Type} (l : List α) (p : Nat) (e : α) (h : l[p]? = some e) :
    l = l.take p ++ e :: l.drop (p + 1) := by
  obtain ⟨hlt, heq⟩ := List.getElem?_eq_some_iff.mp h
  have h1 : l.drop p = e :: l.drop (p + 1) := by
    rw [← heq]; exact (List.getElem_cons_drop ..).symm
  calc l = l.take p ++ l.drop p := (List.take_append_drop p l).symm
    _ = l.take p ++ e :: l.drop (p + 1) := by rw [h1]

/-- **What a concurrent iteration may report: the entries that existed together at ONE instant inside its window.**  The
clause of the statement, literally: wherever the access of an `Iterate` / `IterateKeys` call `(t, i)` sits in a reachable
trace - position `p` - that position lies strictly between the call's invocation and its response (`retPos` = end of the
trace while the call is still running), and the report is the range scan (C04 `Spec.iterate`: prefix, direction, consumer
stop) of the map as it is after exactly the accesses linearised before `p` (`replay (tr.take p)`): every write that took
effect before that instant is in it, no write after it is, whatever the writers do while the consumer runs.  The history
checker judges the recorded iterations of the real code against the same reading (`hstep` on `.iter` / `.iterk` = `DOp.apply`). -/
theorem C05_iterate_one_instant (scripts : List (List COp)) (c : Cfg Shared Thread)
    (hr : Reach sys (initCfg scripts) c) (p t i : Nat) (fp : Bytes) (strip : Nat) (d : Dir) (stop : Nat) (out : Out) :
    (c.1.tr[p]? = some (.lin t i (.eff (.iter fp strip d stop)) out) →
      invPos c.1.tr t i < p ∧ p < retPos c.1.tr t i ∧
      out = .kvs (Spec.iterate fp strip d stop (replay (c.1.tr.take p)).m)) ∧
    (c.1.tr[p]? = some (.lin t i (.eff (.iterk fp strip d stop)) out) →
      invPos c.1.tr t i < p ∧ p < retPos c.1.tr t i ∧
      out = .keys ((Spec.iterate fp strip d stop (replay (c.1.tr.take p)).m).map (·.1))) := by
  have hw := (C05_lin_points_in_window scripts c hr).1
  have hs := C05_iterate_snapshot scripts c hr (c.1.tr.take p) (c.1.tr.drop (p + 1)) t i fp strip d stop out
  constructor
  · intro hp
    obtain ⟨h1, h2⟩ := hw p t i _ out hp
    exact ⟨h1, h2, hs.1 (split_at_index _ _ _ hp)⟩
  · intro hp
    obtain ⟨h1, h2⟩ := hw p t i _ out hp
    exact ⟨h1, h2, hs.2 (split_at_index _ _ _ hp)⟩

/-- **Well-locked (the model-level form of data-race freedom).**  In every reachable
configuration a goroutine about to access the shared map (every access except the ghost point `nop`
of the flag-only calls WithRealm / Batched / Flush, which touches nothing) holds the map's lock — in
write mode if the access writes; a write-mode holder is the only holder, a read-mode holder excludes
writers. -/
theorem C05_well_locked (scripts : List (List COp)) (s : Shared) (pre post : List Thread) (t : Thread)
    (hr : Reach sys (initCfg scripts) (s, pre ++ t :: post)) (a : DOp) (rest : List Instr)
    (hcode : t.code = .eff a :: rest) (htm : a.touchesMap = true) :
    (a.isWrite = true → (LockId.map, true) ∈ t.held) ∧
    ((LockId.map, true) ∈ t.held ∨ (LockId.map, false) ∈ t.held) ∧
    ((LockId.map, true) ∈ t.held → ∀ u ∈ pre ++ post, ∀ b, (LockId.map, b) ∉ u.held) ∧
    ((LockId.map, false) ∈ t.held → ∀ u ∈ pre ++ post, (LockId.map, true) ∉ u.held) := by
  have hl := linv_reach hr
  have ht := hl.tinv t (List.mem_append_right _ (List.mem_cons_self ..))
  obtain ⟨h1, h2⟩ := eff_holds_lock ht hcode htm
  obtain ⟨h3, h4⟩ := exclusion hl .map
  exact ⟨h1, h2, h3, h4⟩

/-- The same exclusion for every lock (view locks, batch mutexes). -/
theorem C05_locks_exclusive (scripts : List (List COp)) (s : Shared) (pre post : List Thread) (t : Thread)
    (hr : Reach sys (initCfg scripts) (s, pre ++ t :: post)) (l : LockId) :
    ((l, true) ∈ t.held → ∀ u ∈ pre ++ post, ∀ b, (l, b) ∉ u.held) ∧
    ((l, false) ∈ t.held → ∀ u ∈ pre ++ post, (l, true) ∉ u.held) :=
  exclusion (linv_reach hr) l

/-- The shared map is touched only by access instructions: any other transition leaves it as it
is (so does a read access), and a goroutine that is not at an access instruction does not even look
at it — its transition is the same for every content of the map. -/
theorem C05_map_access_only_at_eff (s s' : Shared) (t t' : Thread) (hmem : (s', t') ∈ sys.step s t) :
    (s'.m = s.m ∨ ∃ a rest, t.code = .eff a :: rest ∧ a.isWrite = true) ∧
    ((∀ a rest, t.code ≠ .eff a :: rest) → ∀ m',
      step { s with m := m' } t = (step s t).map (fun p => ({ p.1 with m := m' }, p.2))) :=
  ⟨map_changed_only_by_write (step_tstep hmem), fun h m' => map_read_only_by_eff s t m' h⟩

/-- **No deadlock**: a reachable configuration in which no goroutine can move is one in which every
goroutine has returned from its last call — whatever the number of goroutines, views, batches, and
with writer-preferring RWMutexes. -/
theorem C05_deadlock_free (scripts : List (List COp)) (c : Cfg Shared Thread)
    (hr : Reach sys (initCfg scripts) c) : ¬ Deadlock sys Thread.finished c :=
  not_deadlock (linv_reach hr)

/-- **A lock nobody uses is free** — in particular the lock of a view or batch object that has just been
created.  In every reachable configuration a `LockId` that no goroutine holds (in either mode) and no goroutine
waits for inside `Lock()` is in the state of a zero-valued `sync.RWMutex`: no writer, no readers, no pending
writer.  `WithRealm` / `Batched` return a NEW object (`C05_source_fresh_objects`: a struct literal that does not
mention the embedded mutex), i.e. a `LockId` not used before; this theorem is why the first call through it
cannot block on a phantom holder (a copied lock word would break exactly this). -/
theorem C05_unused_lock_is_free (scripts : List (List COp)) (c : Cfg Shared Thread)
    (hr : Reach sys (initCfg scripts) c) (l : LockId)
    (hheld : ∀ t ∈ c.2, ∀ b, (l, b) ∉ t.held)
    (hwait : ∀ t ∈ c.2, ¬ (t.waiting = true ∧ t.code.head? = some (.lock l))) :
    c.1.locks l = RW.free := by
  have hl := linv_reach hr
  have hw : total (hW l) c.2 = 0 := total_zero _ _ (fun u hu => List.count_eq_zero.mpr (hheld u hu true))
  have hrd : total (hR l) c.2 = 0 := total_zero _ _ (fun u hu => List.count_eq_zero.mpr (hheld u hu false))
  have hp : total (hP l) c.2 = 0 := total_zero _ _ (fun u hu => by simp [hP, hwait u hu])
  have h1 := hl.w l
  have h2 := hl.r l
  have h3 := hl.p l
  rw [hw] at h1; rw [hrd] at h2; rw [hp] at h3
  have h1' : (c.1.locks l).writer = false := by
    cases hh : (c.1.locks l).writer with
    | false => rfl
    | true => rw [hh] at h1; simp [b2n] at h1
  cases hx : c.1.locks l with
  | mk w r p =>
    rw [hx] at h1' h2 h3
    simp only at h1' h2 h3
    simp [RW.free, h1', h2, h3]

/-- The hypotheses of `C05_unused_lock_is_free` are satisfiable: initially every lock is unused. -/
example (scripts : List (List COp)) (l : LockId) : (initCfg scripts).1.locks l = RW.free :=
  C05_unused_lock_is_free scripts _ (Reach.refl _) l
    (fun t ht b => by intro hm; have hh := initThreads_mem ht; obtain ⟨n, sc, rfl, _⟩ := hh; simp [initThread] at hm)
    (fun t ht => by have hh := initThreads_mem ht; obtain ⟨n, sc, rfl, _⟩ := hh; simp [initThread])

/-- **Flag-only calls** (`WithRealm`, `WithExtendedRealm`, `Batched`, `Flush`) and **batch-local calls** (batch
`Set` / `Delete` / `Cancel`): the former load the closed flag and do nothing else — their only instruction besides
the load is the ghost point `nop`, which leaves the map as it is, answers `ok` and involves no lock; the latter take
and release the batch mutex and neither load the flag nor touch the map.  All other theorems of this file
(`C05_linearizable`, `C05_linearizable_close`, `C05_deadlock_free`, …) quantify over scripts containing them. -/
theorem C05_flag_only_calls (r : Bytes) (b : Nat) (m : AList) :
    compile (.withRealm r) = [.check, .eff .nop] ∧ compile .batched = [.check, .eff .nop] ∧
    compile .flush = [.check, .eff .nop] ∧ DOp.nop.apply m = (m, .ok) ∧ DOp.nop.isWrite = false ∧
    compile (.batchOp b) = [.lock (.batch b), .unlock (.batch b)] ∧ effsOf (compile (.batchOp b)) = [] :=
  ⟨rfl, rfl, rfl, rfl, rfl, rfl, rfl⟩

/-- A flag-only call on the recorded-history side: the contract (`hstep`) answers `closed` after `Close` and `ok`
before, and never changes the state — what `drv_c05` checks for the `flag` lines (WithRealm / Flush of the harness). -/
theorem C05_flag_call_contract (st : SeqSt) :
    Lin.hstep st (.data .nop) = (st, if st.closed then .closed else .ok) := by
  obtain ⟨m, c⟩ := st
  cases c <;> simp [Lin.hstep, DOp.apply]

theorem effsOf_append_load (l : List Instr) : effsOf (l ++ [.load]) = effsOf l := by
  induction l with
  | nil => rfl
  | cons i rest ih => cases i <;> simp [effsOf, ih]

/-- **The flushkv wrapper inside the protocol model.**  A mutator of `flushkv` (`Set`, `Delete`, `DeletePrefix`, `Clear`, batch
`Commit`) executes the code of the wrapped mutator followed by ONE more instruction: `load`, the `closed.Load()` of the
`Flush()` that `flushAfterMutation` issues and whose ErrStoreClosed it drops (fix b5d5462).  It makes exactly the accesses
of the wrapped mutator, so by `C05_linearizable` (2) its response is the answer of the wrapped mutation's last access (or
`closed` when its OWN flag load failed - then no access and no `Flush()` follow): a `Close` that falls between the
mutation and the `Flush()` cannot change the answer.  `load` reads the flag and drops the outcome: the transition
changes nothing shared and does not depend on the flag.  Every theorem of this file (`C05_linearizable`,
`C05_linearizable_close`, `C05_checker_complete_on_model`, `C05_deadlock_free`, `C05_well_locked`, ...) quantifies over scripts
containing these calls: they are the linearizability / deadlock-freedom theorems of a store behind flushkv. -/
theorem C05_flushkv_calls (v b : Nat) (r k x p : Bytes) (ws : List Write) :
    compile (.fset v r k x) = compile (.set v r k x) ++ [.load] ∧
    compile (.fdel v r k) = compile (.del v r k) ++ [.load] ∧
    compile (.fdelp v r p) = compile (.delp v r p) ++ [.load] ∧
    compile (.fclear v r) = compile (.clear v r) ++ [.load] ∧
    compile (.fcommit b v r ws) = compile (.commit b v r ws) ++ [.load] ∧
    effsOf (compile (.fset v r k x)) = effsOf (compile (.set v r k x)) ∧
    effsOf (compile (.fdel v r k)) = effsOf (compile (.del v r k)) ∧
    effsOf (compile (.fdelp v r p)) = effsOf (compile (.delp v r p)) ∧
    effsOf (compile (.fclear v r)) = effsOf (compile (.clear v r)) ∧
    effsOf (compile (.fcommit b v r ws)) = effsOf (compile (.commit b v r ws)) ∧
    (∀ (s : Shared) (t : Thread) (op : COp) (rest : List Instr), t.cur = some op → t.code = .load :: rest →
      step s t = [(s, { t with code := rest })]) := by
  have hc : compile (.fcommit b v r ws) = compile (.commit b v r ws) ++ [.load] := by
    simp [compile, List.append_assoc]
  refine ⟨rfl, rfl, rfl, rfl, hc, rfl, rfl, rfl, rfl, ?_, ?_⟩
  · rw [hc, effsOf_append_load]
  · intro s t op rest hcur hcode
    simp [step, hcur, hcode]

/-- **A call that answers ErrStoreClosed made no access** — the model-level form of the repaired flushkv finding (b5d5462),
for every call of every goroutine and in particular for the mutators of the flushkv wrapper: if the response of call `i` of
goroutine `u` is `closed`, the trace contains no access of that call (no write took effect, no read was made).  The trailing
`Flush()` of a flushkv mutator is the instruction `load`, which has no linearisation point and leaves the call's answer
alone; with the unrepaired code (the `Flush()`'s ErrStoreClosed returned to the caller) this theorem is false — the
forced-schedule scenario `flushclose` of the harness is its counterexample on the real code.
(Proof: `closed_ret_no_eff` — the goroutine's events are accepted by `pstep` (`C05_linearizable` (2)), and an access never
answers `closed` (`seqOk`).) -/
theorem C05_closed_answer_means_no_effect (scripts : List (List COp)) (c : Cfg Shared Thread)
    (hr : Reach sys (initCfg scripts) c) (u : Thread) (hu : u ∈ c.2) (i : Nat)
    (hret : Ev.ret u.tid i .closed ∈ c.1.tr) : ∀ a o, Ev.lin u.tid i (.eff a) o ∉ c.1.tr := by
  obtain ⟨hok, _, _, _, hnest⟩ := C05_linearizable scripts c hr
  obtain ⟨_, hb⟩ := hnest u hu
  have hne : ∀ e ∈ evsOf u.tid c.1.tr, ∀ t i a, e ≠ Ev.lin t i (.eff a) .closed := by
    intro e he t i' a heq
    have hmem : e ∈ c.1.tr := (List.mem_filter.mp he).1
    obtain ⟨p, hp⟩ := List.mem_iff_getElem?.mp hmem
    rw [heq] at hp
    exact eff_out_ne_closed hok hp rfl
  have hin : Ev.ret u.tid i .closed ∈ evsOf u.tid c.1.tr := List.mem_filter.mpr ⟨hret, by simp [Ev.tid]⟩
  have hno := closed_ret_no_eff _ hne hb i u.tid hin
  intro a o hm
  exact hno u.tid a o (List.mem_filter.mpr ⟨hm, by simp [Ev.tid]⟩)

/-- **The debug wrapper inside the protocol model.**  `debug`'s access callback runs before the wrapped call and outside
every lock (`C05_source_debug`, `C05_skeleton_debug`): it is user code, modelled as a call of its own of the same goroutine
with no instruction at all - it touches neither flag, nor lock, nor map, and has no linearisation point; the wrapped call
follows it in the goroutine's script (whatever the callback does with the store is further calls of that goroutine, which
the scripts - arbitrary - contain).  A call through `debug` (through `flushkv∘debug`, `debug∘flushkv`) is therefore the script
fragment `[callback, op]` (`[callback, f-op]`), and all theorems of this file cover it. -/
theorem C05_debug_callback :
    compile .callback = [] ∧ effsOf (compile .callback) = [] ∧
    (∀ (s : Shared) (t : Thread), t.cur = some .callback → t.code = [] →
      step s t = [(s.log (.ret t.tid t.idx t.answer), { t with cur := none, idx := t.idx + 1, res := none })]) := by
  refine ⟨rfl, rfl, ?_⟩
  intro s t hcur hcode
  simp [step, hcur, hcode]

/-- Every call is compiled to well-bracketed code: locks acquired in the order batch < view < map
and never twice, every release matches, the flag is loaded with no lock held, every access happens
under the map lock (write mode for writes), nothing is held at the end. -/
theorem C05_code_well_bracketed (op : COp) : wfc (compile op) [] = true := wf_compile op

/-- **The accesses are the C04 specification's steps.**  On an open store, what the C04
specification (`Spec.step`) does for a request through a view with realm `r` is exactly the one
atomic access the protocol model performs for the corresponding call. -/
theorem C05_effects_are_C04_spec (s : Spec.St) (v : Nat) (r : Bytes) (hv : s.views.lookup v = some r)
    (hopen : s.closed = false) (k x p : Bytes) (d : Dir) (stop : Nat) :
    let viaAccess := fun (a : DOp) => (({ s with m := (a.apply s.m).1 } : Spec.St), (a.apply s.m).2)
    Spec.step s (.get v k) = viaAccess (.get (r ++ k)) ∧
    Spec.step s (.has v k) = viaAccess (.has (r ++ k)) ∧
    Spec.step s (.set v k x) = viaAccess (.set (r ++ k) x) ∧
    Spec.step s (.del v k) = viaAccess (.del (r ++ k)) ∧
    Spec.step s (.delp v p) = viaAccess (.delp (r ++ p)) ∧
    Spec.step s (.clear v) = viaAccess (.delp r) ∧
    Spec.step s (.iter v p d stop) = viaAccess (.iter (r ++ p) r.length d stop) ∧
    Spec.step s (.iterk v p d stop) = viaAccess (.iterk (r ++ p) r.length d stop) := by
  obtain ⟨m, c, vs, bs⟩ := s
  simp only at hv hopen
  subst hopen
  simp [Spec.step, Spec.onView, hv, DOp.apply]
  cases Spec.lookup (r ++ k) m <;> rfl

/-- …and a committed batch is its writes, one access each, in order. -/
theorem C05_commit_effects_are_C04_spec (r : Bytes) (ws : List Write) (m : AList) :
    Spec.applyWrites (ws.map (fun w => (r ++ w.1, w.2))) m =
      ws.foldl (fun m w => ((writeOp r w).apply m).1) m := by
  induction ws generalizing m with
  | nil => rfl
  | cons w ws ih =>
    obtain ⟨k, o⟩ := w
    simp only [List.map_cons, List.foldl_cons, Spec.applyWrites] at ih ⊢
    rw [ih]
    cases o <;> rfl

end Hive.KV.Conc

namespace Hive.KV.Lin

/-- **Soundness of the history checker** used by `drv_c05` on the histories recorded from the real
code: a history is accepted only if it is linearizable — there is an order of all its operations
(each write of a committed batch is one operation) that respects real time and in which the C04
ordered map (with its closed flag) gives exactly the recorded answers.  Only the witness check is
needed for this direction. -/
theorem C05_checker_sound (h : List HOp) (budget : Option Nat) (hacc : decideHist h budget = .accept) :
    Linearizable h.toArray :=
  decideHist_sound h budget hacc

/-- **Completeness of the history checker**: the search is a total function (structural recursion
on the number of operations still to linearise; its memo table only ever contains configurations
without completion), and it finds a linearisation whenever one exists: a well-stamped (every
operation invoked before it returned) linearizable history is accepted — always without a budget,
and with a budget unless the search reports `budget-exhausted`.  Together with `C05_checker_sound`:
without budget `decideHist` *decides* linearizability of well-stamped histories. -/
theorem C05_checker_complete (h : List HOp) (hws : wellStamped h.toArray = true) (hlin : Linearizable h.toArray) :
    decideHist h none = .accept ∧
    ∀ budget, decideHist h budget = .accept ∨ decideHist h budget = .reject "budget-exhausted" :=
  ⟨decideHist_complete_unbounded h hws hlin, fun b => decideHist_complete h b hws hlin⟩

theorem perm_three (w : List Nat) (h : w.Perm [0, 1, 2]) :
    w = [0, 1, 2] ∨ w = [0, 2, 1] ∨ w = [1, 0, 2] ∨ w = [1, 2, 0] ∨ w = [2, 0, 1] ∨ w = [2, 1, 0] := by
  have hl := h.length_eq
  match w, hl, h with
  | [a, b, c], _, h =>
    have ha : a ∈ [0, 1, 2] := h.subset (by simp)
    have hb : b ∈ [0, 1, 2] := h.subset (by simp)
    have hc : c ∈ [0, 1, 2] := h.subset (by simp)
    have hnd : [a, b, c].Nodup := h.nodup_iff.mpr (by decide)
    simp only [List.mem_cons, List.not_mem_nil, or_false] at ha hb hc
    simp only [List.nodup_cons, List.mem_cons, List.not_mem_nil, or_false, not_or, List.nodup_nil, and_true] at hnd
    rcases ha with rfl | rfl | rfl <;> rcases hb with rfl | rfl | rfl <;> rcases hc with rfl | rfl | rfl <;> simp_all

/-- The history the UNREPAIRED flushkv produced (forced-schedule scenario `flushclose`, before fix b5d5462): a `Set` through
flushkv answers ErrStoreClosed although a `Get` that completed before `Close` was even invoked had read its value. -/
def unrepairedFlushkvHistory : List HOp :=
  [{ inv := 1, ret := 8, kind := .data (.set [1, 0] [170]), out := .closed },
   { inv := 2, ret := 3, kind := .data (.get [1, 0]), out := .val [170] },
   { inv := 4, ret := 5, kind := .close, out := .ok }]

/-- **Witness of the fixed finding**: that history has no linearisation w.r.t. the C04 contract (none of the six orders of its
three operations validates: the `Set` answers `closed` only after `Close`, the `Get` reads its value only after the `Set`, and
the `Get` returned before `Close` was invoked) - the statement of C05 was violated by the code before b5d5462.  The same
history is entry `flushkv-prefix-closed-but-applied` of the harness corpus, which both checkers must reject on every run;
`C05_closed_answer_means_no_effect` is the theorem about the repaired code that excludes it. -/
theorem C05_unrepaired_flushkv_history_witness : ¬ Linearizable unrepairedFlushkvHistory.toArray := by
  rintro ⟨w, hp, hrt, hs⟩
  have hv : validate unrepairedFlushkvHistory.toArray w = true := (validate_iff _ _).mpr ⟨hp, hrt, hs⟩
  have hp3 : w.Perm [0, 1, 2] := hp
  rcases perm_three w hp3 with rfl | rfl | rfl | rfl | rfl | rfl <;> revert hv <;> decide

end Hive.KV.Lin

namespace Hive.KV.Conc
open Hive.Conc

/-! ### Regenerated tie: the synchronisation skeletons the protocol model was written against

`Hive/Gen/C05_Skel.lean` is regenerated from kvstore/mapdb/{mapdb,synced_map}.go on every run.
`compile` mirrors exactly these: `closed.Load()` first and once; view `RLock` (Get/Has) or `Lock`
(Set/Delete/DeletePrefix/Clear) held by `defer` over the call of the map primitive; no view lock in
Iterate/IterateKeys; every map primitive brackets its access with the map's own (R)Lock; `iterate`
releases the read lock *before* the consumer loop; `Commit` takes batch lock, view lock, then one
map critical section per write (helper `set` / `delete`), and releases the batch lock before the
view lock (deferred in reverse).  A change of this structure breaks these obligations. -/
open Hive.Gen.C05Skel

theorem C05_skeleton_get : skel_mapDB_Get =
    ["call s.closed.Load", "if{", "return", "}if", "rlock s", "defer runlock s", "helper get", "if{", "return",
      "}if", "return"] := by decide

theorem C05_skeleton_has : skel_mapDB_Has =
    ["call s.closed.Load", "if{", "return", "}if", "rlock s", "defer runlock s", "helper has", "return"] := by decide

theorem C05_skeleton_set : skel_mapDB_Set =
    ["call s.closed.Load", "if{", "return", "}if", "lock s", "defer unlock s", "helper set", "return"] := by decide

theorem C05_skeleton_delete : skel_mapDB_Delete =
    ["call s.closed.Load", "if{", "return", "}if", "lock s", "defer unlock s", "helper delete", "return"] := by decide

theorem C05_skeleton_deletePrefix : skel_mapDB_DeletePrefix =
    ["call s.closed.Load", "if{", "return", "}if", "lock s", "defer unlock s", "helper deletePrefix", "return"] := by
  decide

theorem C05_skeleton_clear : skel_mapDB_Clear =
    ["call s.closed.Load", "if{", "return", "}if", "lock s", "defer unlock s", "helper deletePrefix", "return"] := by
  decide

theorem C05_skeleton_iterate : skel_mapDB_Iterate =
    ["call s.closed.Load", "if{", "return", "}if", "helper iterate", "return"] ∧
    skel_mapDB_IterateKeys = ["call s.closed.Load", "if{", "return", "}if", "helper iterateKeys", "return"] := by
  decide

theorem C05_skeleton_close : skel_mapDB_Close = ["call s.closed.Swap", "if{", "return", "}if", "return"] := by decide

theorem C05_skeleton_commit : skel_batchedMutations_Commit =
    ["call b.closed.Load", "if{", "return", "}if", "lock b", "lock b.kvStore", "defer unlock b.kvStore",
      "defer unlock b", "for{", "helper set", "if{", "return", "}if", "}for", "for{", "helper delete", "if{",
      "return", "}if", "}for", "return"] ∧
    skel_mapDB_set = ["helper set", "return"] ∧ skel_mapDB_delete = ["helper delete", "return"] := by decide

theorem C05_skeleton_map_primitives :
    skel_syncedKVMap_get = ["rlock s", "defer runlock s", "if{", "return", "}if", "return"] ∧
    skel_syncedKVMap_has = ["rlock s", "defer runlock s", "return"] ∧
    skel_syncedKVMap_set = ["lock s", "defer unlock s"] ∧
    skel_syncedKVMap_delete = ["lock s", "defer unlock s", "helper delete"] ∧
    skel_syncedKVMap_deletePrefix = ["lock s", "defer unlock s", "for{", "if{", "helper delete", "}if", "}for"] := by
  decide

theorem C05_skeleton_map_iterate :
    skel_syncedKVMap_iterate =
      ["rlock s", "for{", "if{", "}if", "}for", "runlock s", "for{", "}for", "for{", "if{", "break", "}if", "}for"] ∧
    skel_syncedKVMap_iterateKeys =
      ["rlock s", "for{", "if{", "}if", "}for", "runlock s", "for{", "}for", "for{", "if{", "break", "}if", "}for"] := by
  decide

/-! ### `compile` is what the assembler makes of the regenerated skeletons (`Hive/Model/KVAsm.lean`)

The obligations above pin the skeletons as strings; the theorems below close the remaining gap "`compile` was written
against them": an interpreter of the token language (`Asm.assemble`: flag load + early return ↦ `check`, lock tokens ↦ lock
instructions on the lock identity of the receiver expression, `defer`s run in reverse at the final `return`, a helper that is
- or forwards to - a map primitive consisting of ONE critical section ↦ `lock map · eff a · unlock map`, error-handling `if`s
without synchronisation skipped, a `for` loop ↦ its body once per access of a list) turns the regenerated skeleton of every
method into exactly `compile` of the corresponding call.  Stage 1 (`Asm.template`, independent of the accesses) is evaluated
by the kernel on the regenerated token lists; stage 2 (`Asm.instT`) is structural. -/
open Asm in
/-- the seven map primitives, by the name the view methods call them -/
def asmPrims : List (String × List String) :=
  [("get", skel_syncedKVMap_get), ("has", skel_syncedKVMap_has), ("set", skel_syncedKVMap_set),
   ("delete", skel_syncedKVMap_delete), ("deletePrefix", skel_syncedKVMap_deletePrefix),
   ("iterate", skel_syncedKVMap_iterate), ("iterateKeys", skel_syncedKVMap_iterateKeys)]

/-- a method of view object `v` (receiver `s`): `s` is the view's lock, the flag is `s.closed`; `set` / `delete` are the view's
lower-case wrappers, which forward to the primitives -/
def asmViewEnv (v : Nat) : Asm.Env :=
  { locks := [("s", .view v)], flag := "s",
    helpers := [("set", skel_mapDB_set), ("delete", skel_mapDB_delete)] ++ asmPrims, prims := asmPrims, ignored := [] }

/-- `Commit` of batch object `b` of view `v` (receiver `b`): `b` is the batch mutex, `b.kvStore` the view's lock -/
def asmCommitEnv (b v : Nat) : Asm.Env :=
  { locks := [("b", .batch b), ("b.kvStore", .view v)], flag := "b",
    helpers := [("set", skel_mapDB_set), ("delete", skel_mapDB_delete)], prims := asmPrims, ignored := [] }

/-- batch `Set` / `Delete` / `Cancel`: the only helper token is Go's builtin `delete` on the batch's private maps -/
def asmBatchEnv (b : Nat) : Asm.Env :=
  { locks := [("b", .batch b)], flag := "b", helpers := [("delete", [])], prims := [], ignored := ["delete"] }

/-- **Every single-access call, `Close`, the flag-only calls and the batch-local calls**: assembling the regenerated skeleton
of the method (with the access the call makes) gives `compile` of the call — for every view, realm, key, value, prefix,
direction.  (The flag-only calls get the ghost point `nop` appended, which stands for no code.)  A change of a method's or a
primitive's lock structure changes what the assembler produces and breaks this theorem even if someone "repairs" the pinned
strings of `C05_skeleton_*`. -/
theorem C05_compile_is_assembled (v b : Nat) (r k x p : Bytes) (d : Dir) (stop : Nat) :
    Asm.assemble (asmViewEnv v) skel_mapDB_Get [[.get (r ++ k)]] = some (compile (.get v r k)) ∧
    Asm.assemble (asmViewEnv v) skel_mapDB_Has [[.has (r ++ k)]] = some (compile (.has v r k)) ∧
    Asm.assemble (asmViewEnv v) skel_mapDB_Set [[.set (r ++ k) x]] = some (compile (.set v r k x)) ∧
    Asm.assemble (asmViewEnv v) skel_mapDB_Delete [[.del (r ++ k)]] = some (compile (.del v r k)) ∧
    Asm.assemble (asmViewEnv v) skel_mapDB_DeletePrefix [[.delp (r ++ p)]] = some (compile (.delp v r p)) ∧
    Asm.assemble (asmViewEnv v) skel_mapDB_Clear [[.delp r]] = some (compile (.clear v r)) ∧
    Asm.assemble (asmViewEnv v) skel_mapDB_Iterate [[.iter (r ++ p) r.length d stop]] = some (compile (.iter r p d stop)) ∧
    Asm.assemble (asmViewEnv v) skel_mapDB_IterateKeys [[.iterk (r ++ p) r.length d stop]] = some (compile (.iterk r p d stop)) ∧
    Asm.assemble (asmViewEnv v) skel_mapDB_Close [] = some (compile .close) ∧
    (Asm.assemble (asmViewEnv v) skel_mapDB_WithRealm []).map (· ++ [.eff .nop]) = some (compile (.withRealm r)) ∧
    (Asm.assemble (asmViewEnv v) skel_mapDB_Batched []).map (· ++ [.eff .nop]) = some (compile .batched) ∧
    (Asm.assemble (asmViewEnv v) skel_mapDB_Flush []).map (· ++ [.eff .nop]) = some (compile .flush) ∧
    Asm.assemble (asmBatchEnv b) skel_batchedMutations_Set [] = some (compile (.batchOp b)) ∧
    Asm.assemble (asmBatchEnv b) skel_batchedMutations_Delete [] = some (compile (.batchOp b)) ∧
    Asm.assemble (asmBatchEnv b) skel_batchedMutations_Cancel [] = some (compile (.batchOp b)) :=
  ⟨rfl, rfl, rfl, rfl, rfl, rfl, rfl, rfl, rfl, rfl, rfl, rfl, rfl, rfl, rfl⟩

/-- **`Commit`, for every batch**: the template of the regenerated skeleton is "flag load, batch lock, view lock, one loop
of write-mode critical sections (the batch's sets: helper `set`), a second one (its deletes: helper `delete`), then the two
deferred unlocks in reverse order of their `defer`s"; instantiated with the accesses of the batch's sets and of its deletes
it is `compile` of the commit — for all write lists. -/
theorem C05_compile_is_assembled_commit (b v : Nat) (r : Bytes) (sets dels : List Write) :
    Asm.template (asmCommitEnv b v) skel_batchedMutations_Commit =
      some [.s (.i .check), .s (.i (.lock (.batch b))), .s (.i (.lock (.view v))), .loop [.prim true], .loop [.prim true],
        .s (.i (.unlock (.batch b))), .s (.i (.unlock (.view v)))] ∧
    Asm.assemble (asmCommitEnv b v) skel_batchedMutations_Commit [sets.map (writeOp r), dels.map (writeOp r)] =
      some (compile (.commit b v r (sets ++ dels))) := by
  have ht : Asm.template (asmCommitEnv b v) skel_batchedMutations_Commit =
      some [.s (.i .check), .s (.i (.lock (.batch b))), .s (.i (.lock (.view v))), .loop [.prim true], .loop [.prim true],
        .s (.i (.unlock (.batch b))), .s (.i (.unlock (.view v)))] := rfl
  refine ⟨ht, ?_⟩
  simp only [Asm.assemble, ht, Option.bind_some, Asm.instT, Option.map_some, Asm.loop_writes, compile,
    Asm.commitWrites_append, List.append_assoc]

/-- The flag-only calls: one `closed.Load()`, no lock operation (what `flagCode` mirrors); `WithExtendedRealm` is
`WithRealm` on the concatenated realm. -/
theorem C05_skeleton_flag_calls :
    skel_mapDB_WithRealm = ["call s.closed.Load", "if{", "return", "}if", "return"] ∧
    skel_mapDB_WithExtendedRealm = ["helper WithRealm", "return"] ∧
    skel_mapDB_Flush = ["call s.closed.Load", "if{", "return", "}if", "return"] ∧
    skel_mapDB_Batched = ["call s.closed.Load", "if{", "return", "}if", "return"] := by decide

/-- Batch `Set` / `Delete` / `Cancel`: the batch mutex around the whole body, no flag load (what `batchCode` mirrors;
"helper delete" is Go's builtin `delete` on the batch's private maps). -/
theorem C05_skeleton_batch_ops :
    skel_batchedMutations_Set = ["lock b", "defer unlock b", "helper delete", "return"] ∧
    skel_batchedMutations_Delete = ["lock b", "defer unlock b", "helper delete", "return"] ∧
    skel_batchedMutations_Cancel = ["lock b", "defer unlock b"] := by decide

/-- The lock identities of the model: a view object embeds ONE `sync.RWMutex` (`LockId.view`) and *points* to the shared
map and the shared flag; the map object embeds ONE `sync.RWMutex` (`LockId.map`) next to the Go map; a batch embeds ONE
`sync.Mutex` (`LockId.batch`) and points to its view and the flag.  (A second mutex field, a map held by value, a flag
held by value would all break this.) -/
theorem C05_skeleton_type_locks :
    skel_type_mapDB = ["struct", "embedded sync.RWMutex", "m *syncedKVMap", "closed *atomic.Bool", "realm []byte"] ∧
    skel_type_syncedKVMap = ["struct", "embedded sync.RWMutex", "m map[string][]byte"] ∧
    skel_type_batchedMutations = ["struct", "embedded sync.Mutex", "kvStore *mapDB", "setOperations map[string]kvstore.Value",
      "deleteOperations map[string]types.Empty", "closed *atomic.Bool"] := by decide

/-! ### Regenerated tie: pinned source text (`Hive/Gen/C05_Src.lean`, regenerated by `harness/c05/srcpin` on every run)

The functions that the model summarises without a lock skeleton of their own. -/
open Hive.Gen.C05Src

/-- **New objects carry a zero-valued lock.**  `NewMapDB`, `WithRealm` and `Batched` return a struct *literal* that
names every field except the embedded mutex (which is therefore zero-valued = `RW.free`, the initial state of every
`LockId` of the model), shares the map and the flag by pointer, and — for a view — differs from its parent only in the
realm; `WithExtendedRealm` is `WithRealm` of the parent's realm (a copy: `Realm()` concatenates) extended by the
argument.  A view built by copying the parent struct (`view := *s`) would copy the parent's lock word with it. -/
theorem C05_source_fresh_objects :
    src_NewMapDB = ["func NewMapDB() kvstore.KVStore {", "return &mapDB{", "m: &syncedKVMap{m: make(map[string][]byte)},",
      "closed: new(atomic.Bool),", "}", "}"] ∧
    src_mapDB_WithRealm = ["func (s *mapDB) WithRealm(realm kvstore.Realm) (kvstore.KVStore, error) {", "if s.closed.Load() {",
      "return nil, kvstore.ErrStoreClosed", "}", "return &mapDB{", "m: s.m,", "closed: s.closed,", "realm: realm,", "}, nil", "}"] ∧
    src_mapDB_WithExtendedRealm = ["func (s *mapDB) WithExtendedRealm(realm kvstore.Realm) (kvstore.KVStore, error) {",
      "return s.WithRealm(byteutils.ConcatBytes(s.Realm(), realm))", "}"] ∧
    src_mapDB_Realm = ["func (s *mapDB) Realm() kvstore.Realm {", "return byteutils.ConcatBytes(s.realm)", "}"] ∧
    src_mapDB_Batched = ["func (s *mapDB) Batched() (kvstore.BatchedMutations, error) {", "if s.closed.Load() {",
      "return nil, kvstore.ErrStoreClosed", "}", "return &batchedMutations{", "kvStore: s,",
      "setOperations: make(map[string]kvstore.Value),", "deleteOperations: make(map[string]types.Empty),", "closed: s.closed,",
      "}, nil", "}"] ∧
    src_mapDB_Flush = ["func (s *mapDB) Flush() error {", "if s.closed.Load() {", "return kvstore.ErrStoreClosed", "}",
      "return nil", "}"] := by decide

/-- **The flushkv wrapper** (not part of the protocol model; the harness runs half of its histories through it): every
mutator is "the wrapped store's mutator; if that failed return its error; else `flushAfterMutation`", where
`flushAfterMutation` returns every error of `Flush()` except ErrStoreClosed (fix b5d5462); readers, `Flush`, `Close`,
batch `Set/Delete/Cancel` forward; `WithRealm` / `New` / `Batched` wrap without any state of their own (no lock, no flag).
So a flushkv call is the wrapped call followed by at most one flag-only call whose `closed` answer is dropped — both are
calls of the model. -/
theorem C05_source_flushkv :
    src_flushAfterMutation = ["func flushAfterMutation(store kvstore.KVStore) error {",
      "if err := store.Flush(); err != nil && !ierrors.Is(err, kvstore.ErrStoreClosed) {", "return err", "}", "return nil", "}"] ∧
    src_New = ["func New(store kvstore.KVStore) kvstore.KVStore {", "return &flushKVStore{", "store: store,", "}", "}"] ∧
    src_flushKVStore_WithRealm = ["func (s *flushKVStore) WithRealm(realm kvstore.Realm) (kvstore.KVStore, error) {",
      "store, err := s.store.WithRealm(realm)", "if err != nil {", "return nil, err", "}", "return &flushKVStore{", "store: store,",
      "}, nil", "}"] ∧
    src_flushKVStore_Set = ["func (s *flushKVStore) Set(key kvstore.Key, value kvstore.Value) error {",
      "if err := s.store.Set(key, value); err != nil {", "return err", "}", "return flushAfterMutation(s.store)", "}"] ∧
    src_flushKVStore_Delete = ["func (s *flushKVStore) Delete(key kvstore.Key) error {",
      "if err := s.store.Delete(key); err != nil {", "return err", "}", "return flushAfterMutation(s.store)", "}"] ∧
    src_flushKVStore_DeletePrefix = ["func (s *flushKVStore) DeletePrefix(prefix kvstore.KeyPrefix) error {",
      "if err := s.store.DeletePrefix(prefix); err != nil {", "return err", "}", "return flushAfterMutation(s.store)", "}"] ∧
    src_flushKVStore_Clear = ["func (s *flushKVStore) Clear() error {", "if err := s.store.Clear(); err != nil {", "return err", "}",
      "return flushAfterMutation(s.store)", "}"] ∧
    src_flush_batch_Commit = ["func (b *batchedMutations) Commit() error {", "if err := b.batched.Commit(); err != nil {",
      "return err", "}", "return flushAfterMutation(b.store)", "}"] := by decide

/-- …and everything else of flushkv forwards to the wrapped store. -/
theorem C05_source_flushkv_forwarders :
    src_flushKVStore_Get = ["func (s *flushKVStore) Get(key kvstore.Key) (kvstore.Value, error) {", "return s.store.Get(key)", "}"] ∧
    src_flushKVStore_Has = ["func (s *flushKVStore) Has(key kvstore.Key) (bool, error) {", "return s.store.Has(key)", "}"] ∧
    src_flushKVStore_Iterate = ["func (s *flushKVStore) Iterate(prefix kvstore.KeyPrefix, consumerFunc kvstore.IteratorKeyValueConsumerFunc, iterDirection ...kvstore.IterDirection) error {",
      "return s.store.Iterate(prefix, consumerFunc, iterDirection...)", "}"] ∧
    src_flushKVStore_IterateKeys = ["func (s *flushKVStore) IterateKeys(prefix kvstore.KeyPrefix, consumerFunc kvstore.IteratorKeyConsumerFunc, iterDirection ...kvstore.IterDirection) error {",
      "return s.store.IterateKeys(prefix, consumerFunc, iterDirection...)", "}"] ∧
    src_flushKVStore_Flush = ["func (s *flushKVStore) Flush() error {", "return s.store.Flush()", "}"] ∧
    src_flushKVStore_Close = ["func (s *flushKVStore) Close() error {", "return s.store.Close()", "}"] ∧
    src_flushKVStore_Batched = ["func (s *flushKVStore) Batched() (kvstore.BatchedMutations, error) {",
      "batched, err := s.store.Batched()", "if err != nil {", "return nil, err", "}", "return &batchedMutations{", "store: s.store,",
      "batched: batched,", "}, nil", "}"] ∧
    src_flush_batch_Set = ["func (b *batchedMutations) Set(key kvstore.Key, value kvstore.Value) error {",
      "return b.batched.Set(key, value)", "}"] ∧
    src_flush_batch_Delete = ["func (b *batchedMutations) Delete(key kvstore.Key) error {", "return b.batched.Delete(key)", "}"] ∧
    src_flush_batch_Cancel = ["func (b *batchedMutations) Cancel() {", "b.batched.Cancel()", "}"] :=
  ⟨rfl, rfl, rfl, rfl, rfl, rfl, rfl, rfl, rfl, rfl⟩

/-- …the two remaining methods of flushkv: `WithExtendedRealm` is `WithRealm` on the concatenated realm, `Realm` forwards. -/
theorem C05_source_flushkv_realm :
    src_flushKVStore_WithExtendedRealm = ["func (s *flushKVStore) WithExtendedRealm(realm kvstore.Realm) (kvstore.KVStore, error) {",
      "return s.WithRealm(byteutils.ConcatBytes(s.Realm(), realm))", "}"] ∧
    src_flushKVStore_Realm = ["func (s *flushKVStore) Realm() kvstore.Realm {", "return s.store.Realm()", "}"] := ⟨rfl, rfl⟩

/-- The body every callback-reporting method of the debug wrapper has (after its signature line): "if a callback is set and
the command passes the filter, call it; then return what the wrapped method returns". -/
def dbgBody (recv cmd args meth params : String) : List String :=
  ["if " ++ recv ++ ".accessCallback != nil && " ++ recv ++ ".accessCallbackCommandsFilter.HasBits(" ++ cmd ++ "Command) {",
   recv ++ ".accessCallback(" ++ cmd ++ "Command" ++ args ++ ")", "}",
   "return " ++ recv ++ ".underlying." ++ meth ++ "(" ++ params ++ ")", "}"]

/-- **The debug wrapper** (complete source text, regenerated): the eight store methods and the batch's `Set` / `Delete` call the
access callback FIRST (if set and not filtered) and then forward to the wrapped store - nothing is done after the wrapped call,
nothing between callback and call, no lock, no state; `Flush`, `Close`, `Realm`, batch `Cancel` / `Commit` forward without callback;
`WithRealm` / `Batched` / `New` wrap the result and copy callback + filter (immutable after construction). -/
theorem C05_source_debug :
    src_debugStore_Get.tail = dbgBody "s" "Get" ", key" "Get" "key" ∧
    src_debugStore_Has.tail = dbgBody "s" "Has" ", key" "Has" "key" ∧
    src_debugStore_Set.tail = dbgBody "s" "Set" ", key, value" "Set" "key, value" ∧
    src_debugStore_Delete.tail = dbgBody "s" "Delete" ", key" "Delete" "key" ∧
    src_debugStore_DeletePrefix.tail = dbgBody "s" "DeletePrefix" ", prefix" "DeletePrefix" "prefix" ∧
    src_debugStore_Clear.tail = dbgBody "s" "Clear" "" "Clear" "" ∧
    src_debugStore_Iterate.tail = dbgBody "s" "Iterate" ", prefix" "Iterate" "prefix, kvConsumerFunc, iterDirection..." ∧
    src_debugStore_IterateKeys.tail = dbgBody "s" "IterateKeys" ", prefix" "IterateKeys" "prefix, consumerFunc, iterDirection..." ∧
    src_debug_batch_Set.tail = dbgBody "b" "Set" ", key, value" "Set" "key, value" ∧
    src_debug_batch_Delete.tail = dbgBody "b" "Delete" ", key" "Delete" "key" ∧
    src_debugStore_Flush = ["func (s *debugStore) Flush() error {", "return s.underlying.Flush()", "}"] ∧
    src_debugStore_Close = ["func (s *debugStore) Close() error {", "return s.underlying.Close()", "}"] ∧
    src_debugStore_Realm = ["func (s *debugStore) Realm() kvstore.Realm {", "return s.underlying.Realm()", "}"] ∧
    src_debugStore_WithExtendedRealm = ["func (s *debugStore) WithExtendedRealm(realm kvstore.Realm) (kvstore.KVStore, error) {",
      "return s.WithRealm(byteutils.ConcatBytes(s.Realm(), realm))", "}"] ∧
    src_debug_batch_Cancel = ["func (b *batchedMutations) Cancel() {", "b.underlying.Cancel()", "}"] ∧
    src_debug_batch_Commit = ["func (b *batchedMutations) Commit() error {", "return b.underlying.Commit()", "}"] ∧
    src_debugStore_WithRealm = ["func (s *debugStore) WithRealm(realm kvstore.Realm) (kvstore.KVStore, error) {",
      "storeWithRealm, err := s.underlying.WithRealm(realm)", "if err != nil {", "return nil, err", "}", "return &debugStore{",
      "underlying: storeWithRealm,", "accessCallback: s.accessCallback,", "accessCallbackCommandsFilter: s.accessCallbackCommandsFilter,",
      "}, nil", "}"] ∧
    src_debugStore_Batched = ["func (s *debugStore) Batched() (kvstore.BatchedMutations, error) {",
      "batchedMutation, err := s.underlying.Batched()", "if err != nil {", "return nil, err", "}", "return &batchedMutations{",
      "underlying: batchedMutation,", "accessCallback: s.accessCallback,", "accessCallbackCommandsFilter: s.accessCallbackCommandsFilter,",
      "}, nil", "}"] ∧
    src_debug_New = ["func New(store kvstore.KVStore, callback AccessCallback, commandsFilter ...Command) kvstore.KVStore {",
      "var accessCallbackCommandsFilter Command", "if len(commandsFilter) == 0 {", "accessCallbackCommandsFilter = AllCommands",
      "} else {", "for _, filterCommand := range commandsFilter {", "accessCallbackCommandsFilter |= filterCommand", "}", "}",
      "return &debugStore{", "underlying: store,", "accessCallback: callback,",
      "accessCallbackCommandsFilter: accessCallbackCommandsFilter,", "}", "}"] := by decide

/-! ### Regenerated tie: call skeletons of EVERY method of the two wrappers (`Hive/Gen/C05_WrapSkel.lean`)

Which method of the wrapped store a wrapper method calls, in which order, behind which early return - what `compile` of the
wrapper calls mirrors: flushkv mutator = wrapped mutator, early return on its error, then `flushAfterMutation` (= `Flush()`,
`fwriteCode` / `fcommit`: the trailing `load`); debug method = filter test, callback (`COp.callback`), wrapped method. -/
open Hive.Gen.C05WrapSkel

/-- The mutators of flushkv (what `fset`, `fdel`, `fdelp`, `fclear`, `fcommit` mirror). -/
theorem C05_skeleton_flushkv_mutators :
    Flush.skel_flushAfterMutation = ["call store.Flush", "if{", "return", "}if", "return"] ∧
    [Flush.skel_flushKVStore_Set, Flush.skel_flushKVStore_Delete, Flush.skel_flushKVStore_DeletePrefix, Flush.skel_flushKVStore_Clear] =
      ["Set", "Delete", "DeletePrefix", "Clear"].map
        (fun m => ["call s.store." ++ m, "if{", "return", "}if", "helper flushAfterMutation", "return"]) ∧
    Flush.skel_batchedMutations_Commit = ["call b.batched.Commit", "if{", "return", "}if", "helper flushAfterMutation", "return"] := by
  decide

/-- Everything else of flushkv forwards: one call of the wrapped method (for `WithRealm` / `Batched` with the early return on its
error before the result is wrapped); the two struct types hold the wrapped store (and batch) and nothing else - no lock, no flag. -/
theorem C05_skeleton_flushkv_forwarders :
    [Flush.skel_flushKVStore_Get, Flush.skel_flushKVStore_Has, Flush.skel_flushKVStore_Iterate, Flush.skel_flushKVStore_IterateKeys,
      Flush.skel_flushKVStore_Flush, Flush.skel_flushKVStore_Close, Flush.skel_flushKVStore_Realm] =
      ["Get", "Has", "Iterate", "IterateKeys", "Flush", "Close", "Realm"].map (fun m => ["call s.store." ++ m, "return"]) ∧
    Flush.skel_flushKVStore_WithRealm = ["call s.store.WithRealm", "if{", "return", "}if", "return"] ∧
    Flush.skel_flushKVStore_Batched = ["call s.store.Batched", "if{", "return", "}if", "return"] ∧
    Flush.skel_flushKVStore_WithExtendedRealm = ["call s.Realm", "call s.WithRealm", "return"] ∧
    Flush.skel_New = ["return"] ∧
    Flush.skel_batchedMutations_Set = ["call b.batched.Set", "return"] ∧
    Flush.skel_batchedMutations_Delete = ["call b.batched.Delete", "return"] ∧
    Flush.skel_batchedMutations_Cancel = ["call b.batched.Cancel"] ∧
    Flush.skel_type_flushKVStore = ["struct", "store kvstore.KVStore"] ∧
    Flush.skel_type_batchedMutations = ["struct", "store kvstore.KVStore", "batched kvstore.BatchedMutations"] := by decide

/-- The debug wrapper: filter test, callback, wrapped method - in this order, nothing after the wrapped call - for the eight
reporting store methods and the batch's `Set` / `Delete`; the rest forwards; the struct types hold the wrapped object, the
callback and the filter and nothing else. -/
theorem C05_skeleton_debug :
    [Debug.skel_debugStore_Get, Debug.skel_debugStore_Has, Debug.skel_debugStore_Set, Debug.skel_debugStore_Delete,
      Debug.skel_debugStore_DeletePrefix, Debug.skel_debugStore_Clear, Debug.skel_debugStore_Iterate, Debug.skel_debugStore_IterateKeys] =
      ["Get", "Has", "Set", "Delete", "DeletePrefix", "Clear", "Iterate", "IterateKeys"].map
        (fun m => ["call s.accessCallbackCommandsFilter.HasBits", "if{", "call s.accessCallback", "}if", "call s.underlying." ++ m, "return"]) ∧
    [Debug.skel_batchedMutations_Set, Debug.skel_batchedMutations_Delete] = ["Set", "Delete"].map
        (fun m => ["call b.accessCallbackCommandsFilter.HasBits", "if{", "call b.accessCallback", "}if", "call b.underlying." ++ m, "return"]) ∧
    [Debug.skel_debugStore_Flush, Debug.skel_debugStore_Close, Debug.skel_debugStore_Realm] =
      ["Flush", "Close", "Realm"].map (fun m => ["call s.underlying." ++ m, "return"]) ∧
    Debug.skel_batchedMutations_Cancel = ["call b.underlying.Cancel"] ∧
    Debug.skel_batchedMutations_Commit = ["call b.underlying.Commit", "return"] ∧
    Debug.skel_debugStore_WithRealm = ["call s.underlying.WithRealm", "if{", "return", "}if", "return"] ∧
    Debug.skel_debugStore_Batched = ["call s.underlying.Batched", "if{", "return", "}if", "return"] ∧
    Debug.skel_debugStore_WithExtendedRealm = ["call s.Realm", "call s.WithRealm", "return"] ∧
    Debug.skel_type_debugStore = ["struct", "underlying kvstore.KVStore", "accessCallback AccessCallback",
      "accessCallbackCommandsFilter Command"] ∧
    Debug.skel_type_batchedMutations = ["struct", "underlying kvstore.BatchedMutations", "accessCallback AccessCallback",
      "accessCallbackCommandsFilter Command"] := by decide

/-- the method names of the wrapped interfaces (`kvstore.KVStore`, `kvstore.BatchedMutations`) -/
def asmStoreMethods : List String :=
  ["WithRealm", "Realm", "Iterate", "IterateKeys", "Clear", "Get", "Set", "Has", "Delete", "DeletePrefix", "Flush", "Close",
   "Batched", "Commit", "Cancel"]

/-- **The wrapper calls of the model are what the assembler makes of the regenerated wrapper skeletons**
(`Hive/Gen/C05_WrapSkel.lean`).  `Asm.wrapShape` reads a wrapper method as a sequence of: access callback (filter test +
`if{ call X.accessCallback }if`), wrapped call `X.<field>.<M>` (with its early return on error), `flushAfterMutation`;
`Asm.instW` turns the shape into the code blocks of the model calls the method makes, given the code of the wrapped call.
* every mutator of flushkv has the shape `[wrapped M, flush]` and is ONE model call: the wrapped call's code `++ [load]` — i.e.
  `compile` of `fset` / `fdel` / `fdelp` / `fclear` / `fcommit`;
* every reporting method of debug has the shape `[callback, wrapped M]` and is TWO model calls: `callback` (no instruction), then
  the wrapped call; through both wrappers (either order) `[callback, f-call]`;
* every other method of either wrapper has the shape `[wrapped M]`: the wrapped call itself.
A wrapper method that does anything else - a call after the wrapped one, a second flush, a callback after the call, a lock -
has another shape or none, and this theorem breaks. -/
theorem C05_compile_is_assembled_wrappers (v b : Nat) (r k x p : Bytes) (ws : List Write) :
    let fS : Asm.WEnv := { recv := "s", inner := ["store"], methods := asmStoreMethods }
    let fB : Asm.WEnv := { recv := "b", inner := ["batched"], methods := asmStoreMethods }
    let dS : Asm.WEnv := { recv := "s", inner := ["underlying"], methods := asmStoreMethods }
    let dB : Asm.WEnv := { recv := "b", inner := ["underlying"], methods := asmStoreMethods }
    let blocks := fun (env : Asm.WEnv) (sk : List String) (base : List Instr) =>
      (Asm.wrapShape env sk).map (fun sh => Asm.instW base sh [])
    blocks fS Flush.skel_flushKVStore_Set (compile (.set v r k x)) = some [compile (.fset v r k x)] ∧
    blocks fS Flush.skel_flushKVStore_Delete (compile (.del v r k)) = some [compile (.fdel v r k)] ∧
    blocks fS Flush.skel_flushKVStore_DeletePrefix (compile (.delp v r p)) = some [compile (.fdelp v r p)] ∧
    blocks fS Flush.skel_flushKVStore_Clear (compile (.clear v r)) = some [compile (.fclear v r)] ∧
    blocks fB Flush.skel_batchedMutations_Commit (compile (.commit b v r ws)) = some [compile (.fcommit b v r ws)] ∧
    [Flush.skel_flushKVStore_Get, Flush.skel_flushKVStore_Has, Flush.skel_flushKVStore_Iterate, Flush.skel_flushKVStore_IterateKeys,
      Flush.skel_flushKVStore_Flush, Flush.skel_flushKVStore_Close, Flush.skel_flushKVStore_Realm, Flush.skel_flushKVStore_WithRealm,
      Flush.skel_flushKVStore_Batched].map (Asm.wrapShape fS) =
      ["Get", "Has", "Iterate", "IterateKeys", "Flush", "Close", "Realm", "WithRealm", "Batched"].map (fun m => some [.wrapped m]) ∧
    [Flush.skel_batchedMutations_Set, Flush.skel_batchedMutations_Delete, Flush.skel_batchedMutations_Cancel].map (Asm.wrapShape fB) =
      ["Set", "Delete", "Cancel"].map (fun m => some [.wrapped m]) ∧
    blocks dS Debug.skel_debugStore_Get (compile (.get v r k)) = some [compile .callback, compile (.get v r k)] ∧
    blocks dS Debug.skel_debugStore_Set (compile (.fset v r k x)) = some [compile .callback, compile (.fset v r k x)] ∧
    [Debug.skel_debugStore_Get, Debug.skel_debugStore_Has, Debug.skel_debugStore_Set, Debug.skel_debugStore_Delete,
      Debug.skel_debugStore_DeletePrefix, Debug.skel_debugStore_Clear, Debug.skel_debugStore_Iterate,
      Debug.skel_debugStore_IterateKeys].map (Asm.wrapShape dS) =
      ["Get", "Has", "Set", "Delete", "DeletePrefix", "Clear", "Iterate", "IterateKeys"].map
        (fun m => some [.callback, .wrapped m]) ∧
    [Debug.skel_batchedMutations_Set, Debug.skel_batchedMutations_Delete].map (Asm.wrapShape dB) =
      ["Set", "Delete"].map (fun m => some [.callback, .wrapped m]) ∧
    [Debug.skel_debugStore_Flush, Debug.skel_debugStore_Close, Debug.skel_debugStore_Realm, Debug.skel_debugStore_WithRealm,
      Debug.skel_debugStore_Batched].map (Asm.wrapShape dS) =
      ["Flush", "Close", "Realm", "WithRealm", "Batched"].map (fun m => some [.wrapped m]) ∧
    [Debug.skel_batchedMutations_Cancel, Debug.skel_batchedMutations_Commit].map (Asm.wrapShape dB) =
      ["Cancel", "Commit"].map (fun m => some [.wrapped m]) := by
  refine ⟨rfl, rfl, rfl, rfl, ?_, by decide, by decide, rfl, rfl, by decide, by decide, by decide, by decide⟩
  show (Asm.wrapShape _ Flush.skel_batchedMutations_Commit).map _ = _
  have hs : Asm.wrapShape { recv := "b", inner := ["batched"], methods := asmStoreMethods } Flush.skel_batchedMutations_Commit =
      some [.wrapped "Commit", .flush] := by decide
  rw [hs]
  simp [Asm.instW, compile, List.append_assoc]

/-! ### the hypotheses are satisfiable: a concrete run -/

/-- Two goroutines (a writer through the view of realm `01`, a reader through the root view)
scheduled so that the reader's access falls between the writer's map `Lock` announcement and its
write. -/
def sampleScripts : List (List COp) := [[.set 1 [1] [255] [7]], [.get 0 [] [1, 255], .iter [] [1] .bwd 0]]

def sampleSched : List (Nat × Nat) :=
  [(0, 0), (1, 0), (0, 0), (0, 0), (0, 0), (1, 0), (1, 0), (1, 0), (0, 0), (1, 0), (1, 0), (0, 0), (0, 0), (1, 0),
   (1, 0), (1, 0), (1, 0), (0, 0), (0, 0), (0, 0), (1, 0), (1, 0), (1, 0), (1, 0)]

example : Reach sys (initCfg sampleScripts) (runSched sys (initCfg sampleScripts) sampleSched) :=
  runSched_reach sys _ _

example : (runSched sys (initCfg sampleScripts) sampleSched).1.tr =
    [.inv 0 0 (.set 1 [1] [255] [7]), .inv 1 0 (.get 0 [] [1, 255]), .lin 1 0 (.eff (.get [1, 255])) .notfound,
     .lin 0 0 (.eff (.set [1, 255] [7])) .ok, .ret 1 0 .notfound, .inv 1 1 (.iter [] [1] .bwd 0), .ret 0 0 .ok,
     .lin 1 1 (.eff (.iter [1] 0 .bwd 0)) (.kvs [([1, 255], [7])]), .ret 1 1 (.kvs [([1, 255], [7])])] := by
  decide

/-- The recorded history of that run and its witness: validated by computation. -/
example : Lin.validate (histOf (runSched sys (initCfg sampleScripts) sampleSched).1.tr).toArray
    (witness (histOf (runSched sys (initCfg sampleScripts) sampleSched).1.tr)) = true := by
  decide

/-- A second run, with the calls added in the extension round: goroutine 0 creates a view, writes through it, fills and
commits a batch; goroutine 1 closes the store and flushes.  The schedule lets goroutine 0 pass its flag load, then goroutine 1 close the store. -/
def sampleScripts2 : List (List COp) :=
  [[.withRealm [1], .set 7 [1] [2] [3], .batched, .batchOp 0, .commit 0 7 [1] [([2], some [9])]], [.close, .flush]]

def sampleSched2 : List (Nat × Nat) :=
  List.replicate 3 (0, 0) ++ List.replicate 3 (1, 0) ++ List.replicate 15 (0, 0) ++ List.replicate 3 (1, 0)

example : Reach sys (initCfg sampleScripts2) (runSched sys (initCfg sampleScripts2) sampleSched2) :=
  runSched_reach sys _ _

/-- Both goroutines finish; `WithRealm` (before the `Close` point) answers `ok`, everything of goroutine 0 after it and
the `Flush` of goroutine 1 answer `closed` (the batch-local call answers `ok`: it loads no flag); the witness order of
`C05_linearizable_close` validates on the recorded history. -/
example : ((runSched sys (initCfg sampleScripts2) sampleSched2).2.all (fun t => t.cur.isNone && t.script.isEmpty)) = true ∧
    (runSched sys (initCfg sampleScripts2) sampleSched2).1.tr.filterMap (fun e => match e with | .ret t i o => some (t, i, o) | _ => none) =
      [(1, 0, .ok), (0, 0, .ok), (0, 1, .closed), (0, 2, .closed), (0, 3, .ok), (0, 4, .closed), (1, 1, .closed)] ∧
    Lin.validate (histOf (runSched sys (initCfg sampleScripts2) sampleSched2).1.tr).toArray
      (witness (histOf (runSched sys (initCfg sampleScripts2) sampleSched2).1.tr)) = true := by
  decide

/-- A third run, through the wrappers: goroutine 0 issues a `Set` through `flushkv∘debug` (callback, then the flushkv mutator),
goroutine 1 closes the store - scheduled BETWEEN the write and the `Flush()` of the flushkv `Set` - and then reads. -/
def sampleScripts3 : List (List COp) := [[.callback, .fset 1 [1] [2] [3]], [.close, .get 0 [] [1, 2]]]

def sampleSched3 : List (Nat × Nat) :=
  List.replicate 11 (0, 0) ++ List.replicate 3 (1, 0) ++ List.replicate 2 (0, 0) ++ List.replicate 3 (1, 0)

example : Reach sys (initCfg sampleScripts3) (runSched sys (initCfg sampleScripts3) sampleSched3) :=
  runSched_reach sys _ _

/-- The flushkv `Set` answers `ok` although the store was closed before its `Flush()` (the repaired behaviour: the write took
effect before the `Close`), the later `Get` answers `closed`; the trace shows the `Close` point between the write's point and
the response of the `Set`; the witness order validates on the recorded history. -/
example : (runSched sys (initCfg sampleScripts3) sampleSched3).1.tr =
    [.inv 0 0 .callback, .ret 0 0 .ok, .inv 0 1 (.fset 1 [1] [2] [3]), .lin 0 1 (.eff (.set [1, 2] [3])) .ok,
     .inv 1 0 .close, .lin 1 0 .close .ok, .ret 1 0 .ok, .ret 0 1 .ok,
     .inv 1 1 (.get 0 [] [1, 2]), .lin 1 1 .failClosed .closed, .ret 1 1 .closed] ∧
    Lin.validate (histOf (runSched sys (initCfg sampleScripts3) sampleSched3).1.tr).toArray
      (witness (histOf (runSched sys (initCfg sampleScripts3) sampleSched3).1.tr)) = true := by
  decide

/-- The hypotheses of `C05_iterate_one_instant`, `C05_closed_answer_means_no_effect` and `C05_no_effect_after_close` are
satisfiable: the first sample run has an Iterate point (position 7, between invocation 5 and response 8 of call 1 of
goroutine 1); in the third one call 1 of goroutine 1 answers `closed`, and it was invoked (position 8) after the `Close`
point (position 5). -/
example : (runSched sys (initCfg sampleScripts) sampleSched).1.tr[7]? =
      some (.lin 1 1 (.eff (.iter [1] 0 .bwd 0)) (.kvs [([1, 255], [7])])) ∧
    invPos (runSched sys (initCfg sampleScripts) sampleSched).1.tr 1 1 = 5 ∧
    retPos (runSched sys (initCfg sampleScripts) sampleSched).1.tr 1 1 = 8 ∧
    Ev.ret 1 1 .closed ∈ (runSched sys (initCfg sampleScripts3) sampleSched3).1.tr ∧
    (runSched sys (initCfg sampleScripts3) sampleSched3).1.tr[5]? = some (.lin 1 0 .close .ok) ∧
    isCloseLin (.lin 1 0 .close .ok) = true ∧
    invPos (runSched sys (initCfg sampleScripts3) sampleSched3).1.tr 1 1 = 8 := by
  decide

end Hive.KV.Conc
