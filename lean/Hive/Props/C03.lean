import Hive.Spec.Serix
/-! # C03 — placeholder until the proofs land -/
namespace Hive.Serix
end Hive.Serix
