import Hive.Proofs.SerixCanonical
import Hive.Proofs.SerixPrim
import Hive.Proofs.SerixCanonicalValidators
import Hive.Proofs.SerixCanonicalObjects
import Hive.Proofs.SerixCanonicalPrim
import Hive.Proofs.SerixTotalRules
import Hive.Gen.C03_Consts
import Hive.Gen.C03_Skel
/-!
# C03 — the wire format is fixed; validated decoding accepts only canonical bytes

Property theorems only.  Model: `Hive/Model/Serix.lean`.  The Lean encoder is the independent
reference encoder of the tie (Go `Encode` is compared with it byte for byte); the `C03_layout_*`
theorems pin that encoder to the documented layout independently of the decoder, and
`C03_canonical` says that the validating decoder accepts no second byte string for a value.
-/
namespace Hive.Serix
open Res

/-! ## Canonicity -/

/-- **C03, reverse direction.**  Whenever `Decode` with validation accepts `b` and consumes `n`
bytes, re-encoding the decoded value with validation succeeds and yields exactly `b[:n]` — for every
well-formed schema (all array rules: bounds, lexical order, no duplicates, at most one of each
type, must occur) and all inputs whose timestamps lie inside the int64-nanosecond range.

The range condition is expressed through the decoder itself: `strictTime := true` makes the time
decoder reject stamps above `MaxInt64` instead of saturating them (`C03_strict_time_refines`: what
that decoder accepts, the real one accepts with the same result). -/
theorem C03_canonical (t : Ty) (b : Bytes) (v : Val) (n : Nat) (hwf : t.wf = true)
    (h : decode t b ⟨true, true⟩ = .ok (v, n)) : encode t v ⟨true, false⟩ = .ok (b.take n) :=
  cn_ty t hwf ⟨true, true⟩ ⟨true, false⟩ rfl rfl rfl b v n h true

/-- The decoder with the strict timestamp rule refines the real decoder. -/
theorem C03_strict_time_refines (t : Ty) (val : Bool) (b : Bytes) (r : Val × Nat)
    (h : decode t b ⟨val, true⟩ = .ok r) : decode t b ⟨val, false⟩ = .ok r :=
  sm_ty t val b r h

/-- No malleability: two accepted inputs that decode to the same value agree on the bytes consumed. -/
theorem C03_no_malleability (t : Ty) (b b' : Bytes) (v : Val) (n n' : Nat) (hwf : t.wf = true)
    (h : decode t b ⟨true, true⟩ = .ok (v, n)) (h' : decode t b' ⟨true, true⟩ = .ok (v, n')) :
    b.take n = b'.take n' := by
  have h1 := C03_canonical t b v n hwf h
  have h2 := C03_canonical t b' v n' hwf h'
  rw [h1] at h2
  exact Res.ok.inj h2

/-- The saturating timestamp decoder is the documented exception: the stamp `2^64 - 1` is accepted
and decodes to the same time as `MaxInt64` (the real decoder is not injective there), while the
strict decoder of the theorem rejects it. -/
theorem C03_time_saturation_witness :
    decode .time [255, 255, 255, 255, 255, 255, 255, 255] ⟨true, false⟩ = .ok (.i 9223372036854775807, 8) ∧
    decode .time [255, 255, 255, 255, 255, 255, 255, 127] ⟨true, false⟩ = .ok (.i 9223372036854775807, 8) ∧
    decode .time [255, 255, 255, 255, 255, 255, 255, 255] ⟨true, true⟩ = .err := by
  decide

/-- Pointers to scalars are decodable but not encodable: without `wf` canonicity fails. -/
theorem C03_pointer_target_witness :
    decode (.ptr (.uint 2)) [5, 0] ⟨true, true⟩ = .ok (.some (.n 5), 2) ∧
    encode (.ptr (.uint 2)) (.some (.n 5)) ⟨true, false⟩ = .err := by
  decide

/-- Byte-array bounds are checked by the validating decoder as by the validating encoder (fix
eec6277), so a byte array registered with bounds that exclude its own length is simply unusable
with validation — and no longer a counterexample to canonicity (`wf` does not mention it). -/
theorem C03_bytearray_bounds_example :
    (Ty.byteArr 4 none 0 2).wf = true ∧
    decode (.byteArr 4 none 0 2) [1, 2, 3, 4] ⟨true, false⟩ = .err ∧
    encode (.byteArr 4 none 0 2) (.x [1, 2, 3, 4]) ⟨true, false⟩ = .err ∧
    decode (.byteArr 4 none 0 2) [1, 2, 3, 4] ⟨false, false⟩ = .ok (.x [1, 2, 3, 4], 4) := by
  decide

/-! ## Settings priority -/

/-- **Priority of settings.**  In `hi.merge lo` (option over tag over registered settings) a value set
at the higher level wins whatever it is — an explicit `lexicalOrdering = false`, empty array rules —
and an unset one falls through to the lower level. -/
theorem C03_merge_priority (hi lo : TS) :
    (∀ b, hi.lexOrd = some b → (hi.merge lo).lexOrd = some b) ∧ (hi.lexOrd = none → (hi.merge lo).lexOrd = lo.lexOrd) ∧
    (∀ x, hi.lp = some x → (hi.merge lo).lp = some x) ∧ (hi.lp = none → (hi.merge lo).lp = lo.lp) ∧
    (∀ c, hi.code = some c → (hi.merge lo).code = some c) ∧ (hi.code = none → (hi.merge lo).code = lo.code) ∧
    (∀ r, hi.rules = some r → (hi.merge lo).rules = some r) ∧ (hi.rules = none → (hi.merge lo).rules = lo.rules) := by
  refine ⟨?_, ?_, ?_, ?_, ?_, ?_, ?_, ?_⟩ <;> intros <;> simp_all [TS.merge]

/-- Switching auto-sort off through the per-call option beats a registered `true` (and the tag level,
which cannot set the flag, is transparent). -/
theorem C03_merge_lex_off_example (tag reg : TS) (htag : tag.lexOrd = none) :
    (({ lexOrd := some false } : TS).merge (tag.merge reg)).autoSort = false ∧
    (({} : TS).merge (tag.merge { reg with lexOrd := some true })).autoSort = true := by
  simp [TS.merge, TS.autoSort, htag]

/-! ## Layout -/

theorem leBytes_getElem? (w n i : Nat) :
    (leBytes w n)[i]? = if i < w then some (UInt8.ofNat (n / 256 ^ i % 256)) else none := by
  induction w generalizing n i with
  | zero => simp [leBytes]
  | succ w ih =>
    cases i with
    | zero => simp [leBytes]
    | succ i =>
      simp only [leBytes, List.getElem?_cons_succ, ih, Nat.add_lt_add_iff_right]
      congr 3
      rw [Nat.pow_succ, Nat.mul_comm, Nat.div_div_eq_div_mul]

/-- Unsigned numbers (and float bit patterns): `w` bytes, byte `i` is `x / 256^i mod 256` — little endian. -/
theorem C03_layout_uint (w x : Nat) (o : Opts) (b : Bytes) (h : encode (.uint w) (.n x) o = .ok b) :
    x < 256 ^ w ∧ b.length = w ∧ ∀ i, i < w → b[i]? = some (UInt8.ofNat (x / 256 ^ i % 256)) := by
  simp only [encode, enc] at h
  split at h
  · rename_i hx
    cases h
    refine ⟨hx, leBytes_length w x, fun i hi => ?_⟩
    rw [leBytes_getElem?, if_pos hi]
  · contradiction

/-- Signed numbers: two's complement of the value in `w` little-endian bytes. -/
theorem C03_layout_int (w : Nat) (x : Int) (o : Opts) (b : Bytes) (h : encode (.int w) (.i x) o = .ok b) :
    b.length = w ∧ ∀ i, i < w → b[i]? = some (UInt8.ofNat ((x % (256 : Int) ^ w).toNat / 256 ^ i % 256)) := by
  simp only [encode, enc] at h
  split at h
  · cases h
    refine ⟨leBytes_length w _, fun i hi => ?_⟩
    rw [leBytes_getElem?, if_pos hi]
  · contradiction

/-- Booleans are written as the single byte 0 or 1 … -/
theorem C03_layout_bool (v : Val) (o : Opts) (b : Bytes) (h : encode .bool v o = .ok b) :
    (v = .n 0 ∧ b = [0]) ∨ (v = .n 1 ∧ b = [1]) := by
  rcases v with x | x | x | x | ⟨x, y⟩ | _ | x | ⟨x, y⟩ <;> simp only [encode, enc] at h <;> (try contradiction)
  split at h
  · rename_i hx
    cases h
    have : x = 0 ∨ x = 1 := by omega
    rcases this with rfl | rfl
    · left; exact ⟨rfl, rfl⟩
    · right; exact ⟨rfl, rfl⟩
  · contradiction

/-- … and nothing else is accepted for a boolean, with or without validation. -/
theorem C03_layout_bool_strict (x : UInt8) (rest : Bytes) (o : Opts) (r : Val × Nat)
    (h : decode .bool (x :: rest) o = .ok r) : (x = 0 ∧ r = (.n 0, 1)) ∨ (x = 1 ∧ r = (.n 1, 1)) := by
  simp only [decode, dec] at h
  split at h
  · rename_i hx
    cases h; left; exact ⟨by simpa using hx, rfl⟩
  · split at h
    · rename_i hx
      cases h; right; exact ⟨by simpa using hx, rfl⟩
    · contradiction

/-- Byte slices: a length prefix of the configured width holding the payload length (little
endian, range checked), then the payload. -/
theorem C03_layout_bytes (lp : LP) (mn mx : Nat) (bs : Bytes) (o : Opts) (b : Bytes)
    (h : encode (.bytes lp mn mx) (.x bs) o = .ok b) :
    ∃ w, lp.width = some w ∧ bs.length < 256 ^ w ∧ b = leBytes w bs.length ++ bs := by
  simp only [encode, enc] at h
  split at h
  · contradiction
  · simp only [Res.bind_eq_ok, Res.require_eq_ok_iff, exists_and_left, exists_const, Res.pure_eq] at h
    obtain ⟨_, p, hp, hb⟩ := h
    cases hb
    obtain ⟨w, hw, hl, rfl⟩ := writeLen_ok hp
    exact ⟨w, hw, hl, rfl⟩

/-- Strings: the same layout as byte slices. -/
theorem C03_layout_str (lp : LP) (mn mx : Nat) (bs : Bytes) (o : Opts) (b : Bytes)
    (h : encode (.str lp mn mx) (.x bs) o = .ok b) :
    ∃ w, lp.width = some w ∧ bs.length < 256 ^ w ∧ b = leBytes w bs.length ++ bs := by
  simp only [encode, enc] at h
  split at h
  · contradiction
  · simp only [Res.bind_eq_ok, Res.require_eq_ok_iff, exists_and_left, exists_const, Res.pure_eq] at h
    obtain ⟨_, p, hp, hb⟩ := h
    cases hb
    obtain ⟨w, hw, hl, rfl⟩ := writeLen_ok hp
    exact ⟨w, hw, hl, rfl⟩

/-- The only prefix widths are 1, 2 and 4 bytes. -/
theorem C03_layout_prefix_width (lp : LP) (w : Nat) (h : lp.width = some w) : w = 1 ∨ w = 2 ∨ w = 4 := by
  cases lp <;> simp [LP.width] at h <;> omega

/-- Slices: element count in the configured prefix width, then the element encodings — a
permutation of the encodings of the elements, which is the identity unless the settings ask for
lexical ordering, in which case it is the byte-lexically sorted one. -/
theorem C03_layout_slice (lp : LP) (r : Rules) (e : Ty) (vs : List Val) (o : Opts) (b : Bytes)
    (h : encode (.slice lp r e) (.l vs) o = .ok b) :
    ∃ w data, lp.width = some w ∧ vs.length < 256 ^ w ∧
      mapMRes (fun v => encode e v o) vs = .ok data ∧
      b = leBytes w vs.length ++ (if r.autoSort && r.lex then sortBytes data else data).flatten ∧
      (r.autoSort && r.lex = true → (sortBytes data).Pairwise (fun x y => lexLe x y = true) ∧ (sortBytes data).Perm data) := by
  simp only [encode, enc, Res.bind_eq_ok, Res.require_eq_ok_iff, exists_and_left, exists_const] at h
  obtain ⟨_, _, _, data, hdata, hseq⟩ := h
  obtain ⟨p, hp, _, _, rfl⟩ := encSeq_ok hseq
  obtain ⟨w, hw, hl, rfl⟩ := writeLen_ok hp
  have hlen : data.length = vs.length := by
    obtain ⟨hd, _⟩ := mapMRes_ok hdata
    rw [hd]; simp
  rw [hlen] at hl
  exact ⟨w, data, hw, hl, hdata, by rw [hlen], fun _ => ⟨isortBy_sorted id data, isortBy_perm id data⟩⟩

/-- Maps: entry count in the configured prefix width, then the entries (key bytes followed by value
bytes) in byte-lexical order — always, with or without validation. -/
theorem C03_layout_map (lp : LP) (r : Rules) (k v : Ty) (kvs : List Val) (o : Opts) (b : Bytes)
    (h : encode (.map lp r k v) (.l kvs) o = .ok b) :
    ∃ w entries, lp.width = some w ∧ kvs.length < 256 ^ w ∧
      mapMRes (encKV (fun a => encode k a o) (fun c => encode v c o)) kvs = .ok entries ∧
      b = leBytes w kvs.length ++ (sortBytes entries).flatten ∧
      (sortBytes entries).Pairwise (fun x y => lexLe x y = true) ∧ (sortBytes entries).Perm entries := by
  simp only [encode, enc] at h
  split at h
  · contradiction
  · simp only [Res.bind_eq_ok, Res.require_eq_ok_iff, exists_and_left, exists_const] at h
    obtain ⟨_, data, hdata, hseq⟩ := h
    obtain ⟨p, hp, _, _, rfl⟩ := encSeq_ok hseq
    obtain ⟨w, hw, hl, rfl⟩ := writeLen_ok hp
    have hlen : data.length = kvs.length := by
      obtain ⟨hd, _⟩ := mapMRes_ok hdata
      rw [hd]; simp
    rw [hlen] at hl
    have hs : (r.ordered.autoSort && r.ordered.lex) = true := by simp [Rules.ordered]
    refine ⟨w, data, hw, hl, hdata, ?_, isortBy_sorted id data, isortBy_perm id data⟩
    simp only [hs, if_true, hlen]

/-- Type-code prefix: a struct registered with an object code starts with the code in its
denotation's width (1 byte for uint8 codes, 4 bytes little endian for uint32 codes). -/
theorem C03_layout_code (c : Code) (fs : Fields) (vs : List Val) (o : Opts) (b : Bytes)
    (h : encode (.struct (some c) fs) (.l vs) o = .ok b) :
    ∃ body, encFields fs vs o = .ok body ∧ b = leBytes c.den.width c.n ++ body ∧
      (c.den.width = 1 ∨ c.den.width = 4) := by
  simp only [encode, enc, Res.bind_eq_ok, Res.pure_eq] at h
  obtain ⟨body, hbody, hb⟩ := h
  cases hb
  refine ⟨body, hbody, rfl, ?_⟩
  cases c.den <;> simp [Den.width]

/-- Optional fields: a uint32 little-endian marker holding the length of what follows — 0 for nil. -/
theorem C03_layout_optional (t : Ty) (rest : Fields) (v : Val) (vs : List Val) (o : Opts) (b : Bytes)
    (h : encFields (.cons true t rest) (v :: vs) o = .ok b) :
    ∃ tail, encFields rest vs o = .ok tail ∧
      ((v = .nil ∧ b = [0, 0, 0, 0] ++ tail) ∨
       (v ≠ .nil ∧ ∃ fb, encode t v o = .ok fb ∧ b = leBytes 4 fb.length ++ fb ++ tail)) := by
  simp only [encFields, Res.bind_eq_ok, Res.pure_eq] at h
  obtain ⟨b1, h1, b2, h2, hb⟩ := h
  cases hb
  refine ⟨b2, h2, ?_⟩
  rcases v with x | x | x | x | ⟨x, y⟩ | _ | x | ⟨x, y⟩
  case nil => left; cases h1; exact ⟨rfl, rfl⟩
  all_goals
    right
    simp only [Res.bind_eq_ok] at h1
    obtain ⟨fb, hfb, hb1⟩ := h1
    cases hb1
    exact ⟨by simp, fb, hfb, rfl⟩

/-- uint256: exactly 32 bytes, little endian. -/
theorem C03_layout_u256 (x : Int) (o : Opts) (b : Bytes) (h : encode .u256 (.i x) o = .ok b) :
    0 ≤ x ∧ b.length = 32 ∧ (leNat b : Int) = x ∧ b = leBytes 32 x.toNat := by
  simp only [encode, enc] at h
  split at h
  · rename_i hx
    cases h
    have hlt : x.toNat < 256 ^ 32 := by
      have : ((x.toNat : Nat) : Int) < ((256 ^ 32 : Nat) : Int) := by
        rw [Int.toNat_of_nonneg hx.1]
        have : ((256 ^ 32 : Nat) : Int) = (2 : Int) ^ 256 := by decide
        omega
      exact Int.ofNat_lt.1 this
    refine ⟨hx.1, leBytes_length 32 _, ?_, rfl⟩
    rw [leNat_leBytes_of_lt hlt, Int.toNat_of_nonneg hx.1]
  · contradiction

/-- Timestamps inside the int64-nanosecond range: the nanoseconds since the Unix epoch as a uint64,
little endian. -/
theorem C03_layout_time (ns : Nat) (o : Opts) (b : Bytes) (hr : ns ≤ maxInt64)
    (h : encode .time (.i ns) o = .ok b) : b = leBytes 8 ns ∧ b.length = 8 ∧ leNat b = ns := by
  simp only [encode, enc, timeToU64_natCast hr] at h
  cases h
  refine ⟨rfl, leBytes_length 8 ns, leNat_leBytes_of_lt ?_⟩
  have : maxInt64 < 256 ^ 8 := by decide
  omega

/-! ## Golden vectors (tests, by evaluation) -/

theorem C03_golden_scalars_example :
    encode (.uint 2) (.n 0x1234) ⟨true, false⟩ = .ok [0x34, 0x12] ∧
    encode (.uint 8) (.n 0x0102030405060708) ⟨true, false⟩ = .ok [8, 7, 6, 5, 4, 3, 2, 1] ∧
    encode (.int 2) (.i (-2)) ⟨true, false⟩ = .ok [0xfe, 0xff] ∧
    encode (.int 1) (.i (-128)) ⟨true, false⟩ = .ok [0x80] ∧
    encode (.float 4) (.n 0x3f800000) ⟨true, false⟩ = .ok [0, 0, 0x80, 0x3f] ∧
    encode .bool (.n 1) ⟨true, false⟩ = .ok [1] ∧
    encode .time (.i 1000000000) ⟨true, false⟩ = .ok [0, 0xca, 0x9a, 0x3b, 0, 0, 0, 0] ∧
    encode .u256 (.i 258) ⟨true, false⟩ = .ok ([2, 1] ++ List.replicate 30 0) := by
  decide

theorem C03_golden_prefixes_example :
    encode (.str .u8 0 0) (.x [0x68, 0x69]) ⟨true, false⟩ = .ok [2, 0x68, 0x69] ∧
    encode (.str .u16 0 0) (.x [0x68, 0x69]) ⟨true, false⟩ = .ok [2, 0, 0x68, 0x69] ∧
    encode (.bytes .u32 0 0) (.x [9]) ⟨true, false⟩ = .ok [1, 0, 0, 0, 9] ∧
    encode (.slice .u16 {} (.uint 1)) (.l [.n 7, .n 8]) ⟨true, false⟩ = .ok [2, 0, 7, 8] ∧
    encode (.array 3 .u8 {} (.uint 2)) (.l [.n 1, .n 2, .n 3]) ⟨true, false⟩ = .ok [3, 1, 0, 2, 0, 3, 0] ∧
    encode (.str .u64 0 0) (.x []) ⟨true, false⟩ = .err ∧
    encode (.str .unset 0 0) (.x []) ⟨true, false⟩ = .err := by
  decide

/-- The serix_test.go `TestMinMax` fixture: `example{Str string minLen=5,maxLen=10,lenPrefix=uint8}`
registered with object code uint8(0): "abcde" encodes to `00 05 61 62 63 64 65`; "abc" is refused. -/
theorem C03_golden_minmax_example :
    let t : Ty := .struct (some ⟨.u8, 0⟩) (.cons false (.str .u8 5 10) .nil)
    encode t (.l [.x [97, 98, 99, 100, 101]]) ⟨true, false⟩ = .ok [0, 5, 97, 98, 99, 100, 101] ∧
    encode t (.l [.x [97, 98, 99]]) ⟨true, false⟩ = .err ∧
    decode t [0, 5, 97, 98, 99, 100, 101] ⟨true, false⟩ = .ok (.l [.x [97, 98, 99, 100, 101]], 7) ∧
    decode t [0, 3, 97, 98, 99] ⟨true, false⟩ = .err := by
  decide

/-- The `MapStruct` fixture of `TestSerixSerializeMap` (21 bytes, entries sorted bytewise). -/
theorem C03_golden_map_example :
    let t : Ty := .struct none (.cons false (.map .u8 { min := 2, max := 4 } (.str .u16 2 5) (.str .u32 1 6)) .nil)
    encode t (.l [.l [.kv (.x [107, 50]) (.x [118, 50]), .kv (.x [107, 49]) (.x [118, 49])]]) ⟨true, false⟩ =
      .ok [2, 2, 0, 107, 49, 2, 0, 0, 0, 118, 49, 2, 0, 107, 50, 2, 0, 0, 0, 118, 50] := by
  decide

theorem C03_golden_optional_code_example :
    let inner : Ty := .ptr (.struct (some ⟨.u32, 70000⟩) (.cons false (.uint 1) .nil))
    let t : Ty := .struct (some ⟨.u8, 7⟩) (.cons true inner (.cons true inner .nil))
    encode t (.l [.nil, .some (.l [.n 9])]) ⟨true, false⟩ =
      .ok [7, 0, 0, 0, 0, 5, 0, 0, 0, 0x70, 0x11, 0x01, 0x00, 9] := by
  decide

/-! ## Array rules: what the validating encoder accepts, and the layer below serix

`Hive/Model/SerixPrim.lean` models the `Serializer` / `Deserializer` chains of serializer/serializer.go call by call
(sticky error, partial writes, offsets on failure) and the element validators of `ArrayRules.ElementValidationFunc` as
the state machines they are; the harness part `c03/prim` drives the real chains against it. -/

/-- **The element validators accept exactly the declared rules.**  Running the chained closures (map of seen
elements, previous element, maps of seen type bytes / words) over the element encodings in order ends without a
refusal iff the sequence satisfies `validSeq`: pairwise different (no-duplicates), bytewise non-decreasing / strictly
increasing (lexical order without / with no-duplicates), first byte / first four bytes pairwise different (at most one
of each type).  Every rule set, every sequence. -/
theorem C03_validators_exact (r : Rules) (data : List Bytes) :
    (vRun r {} data).2 = none ↔ validSeq r data = true :=
  vRun_ok_iff_validSeq r data

/-- The must-occur rule has set semantics: every listed type code occurs among the codes of the elements — a type
that occurs twice does not stand in for a missing one. -/
theorem C03_must_occur_set (r : Rules) (e : Ty) (vs : List Val) :
    mustOccurOk r e vs = .ok () ↔
      r.mustOccur = [] ∨ ∃ codes, mapMRes (e.codeOf ·) vs = .ok codes ∧ ∀ c ∈ r.mustOccur, c ∈ codes := by
  unfold mustOccurOk
  by_cases h : r.mustOccur = []
  · simp [h]
  · have h' : r.mustOccur.isEmpty = false := by
      cases hm : r.mustOccur with
      | nil => exact absurd hm h
      | cons a as => rfl
    simp [h', Res.bind_eq_ok, Res.require_eq_ok, h]

/-- **Validated `Encode` of a slice accepts exactly the values that satisfy the rules**: the elements encode, the
count fits the prefix and the bounds, every must-occur type is present, and the validator machines accept the element
encodings in the order they are written (sorted first when lexical ordering is switched on) — and then the output is
the count prefix followed by those encodings. -/
theorem C03_rules_exact (lp : LP) (r : Rules) (e : Ty) (vs : List Val) (b : Bytes) :
    encode (.slice lp r e) (.l vs) ⟨true, false⟩ = .ok b ↔
      ∃ data w, mapMRes (fun v => encode e v ⟨true, false⟩) vs = .ok data ∧ lp.width = some w ∧
        vs.length < 256 ^ w ∧ r.boundsOk vs.length = true ∧ mustOccurOk r e vs = .ok () ∧
        (vRun r {} (if r.autoSort && r.lex then sortBytes data else data)).2 = none ∧
        b = leBytes w vs.length ++ (if r.autoSort && r.lex then sortBytes data else data).flatten := by
  constructor
  · intro h
    simp only [encode, enc, Res.bind_eq_ok, Res.require_eq_ok_iff, exists_and_left, exists_const] at h
    obtain ⟨_, _, hm, data, hdata, hseq⟩ := h
    obtain ⟨p, hp, hbo, hv, rfl⟩ := encSeq_ok hseq
    obtain ⟨w, hw, hl, rfl⟩ := writeLen_ok hp
    have hlen : data.length = vs.length := by
      obtain ⟨hd, _⟩ := mapMRes_ok hdata
      rw [hd]; simp
    rw [hlen] at hl hbo
    refine ⟨data, w, hdata, hw, hl, hbo rfl, ?_, (vRun_ok_iff_validSeq _ _).2 (hv rfl), by rw [hlen]⟩
    simpa [mustOccurIf] using hm
  · rintro ⟨data, w, hdata, hw, hl, hbo, hm, hv, rfl⟩
    have hlen : data.length = vs.length := by
      obtain ⟨hd, _⟩ := mapMRes_ok hdata
      rw [hd]; simp
    have hseq : encSeq lp r ⟨true, false⟩ data =
        .ok (leBytes w vs.length ++ (if r.autoSort && r.lex then sortBytes data else data).flatten) := by
      have hvs := (vRun_ok_iff_validSeq _ _).1 hv
      simp only [Bool.and_eq_true] at hvs
      unfold encSeq
      simp [hw, writeLen, hlen, hl, hbo, Res.require, hvs]
    have hdata' : mapMRes (fun v => enc e true v ⟨true, false⟩) vs = .ok data := hdata
    simp [encode, enc, Res.require, hbo, mustOccurIf, hm, hdata', hseq]

/-- A `WriteSliceOfByteSlices` call of the real `Serializer` completes without error, having appended `b`, iff the
serix model's sequence writer produces `b` (the leaf the serix model had taken on trust). -/
theorem C03_write_seq_refines (lp : LP) (r : Rules) (val : Bool) (items : List Bytes) (b : Bytes) :
    wOp (.seq lp r val items) = .done b none ↔ encSeq lp r ⟨val, false⟩ items = .ok b :=
  wOp_seq_done_iff lp r val items b

/-- What a refused `WriteSliceOfByteSlices` has already put into the buffer is a prefix of the elements. -/
theorem C03_partial_write_prefix (r : Rules) (data : List Bytes) : ∃ rest, data = (vRun r {} data).1 ++ rest :=
  vRun_prefix r {} data

/-- The `Serializer` chain is sticky: once an error is stored, no further call changes buffer or error. -/
theorem C03_serializer_sticky (s : Ser) (h : s.err.isSome = true) (ops : List WOp) : s.run ops = some s :=
  Ser.run_of_err s h ops

/-- A chain that ends without a stored error has written the concatenation of what each call writes on its own: the
bytes of a call do not depend on its position. -/
theorem C03_serializer_concat (s' : Ser) (ops : List WOp) (h : ({} : Ser).run ops = some s') (he : s'.err = none) :
    s'.serialize = .ok (ops.map wBytes).flatten := by
  have := Ser.run_ok_buf {} s' ops h he
  simp only [List.nil_append] at this
  simp [Ser.serialize, he, this]

/-- Examples for the hypotheses above: a chain with a stored error, a clean chain, a refused sequence whose first two
elements are already in the buffer, and the rule sets `[100,100]` fails / `[100,101]` satisfies. -/
theorem C03_prim_example :
    (({} : Ser).run [.byte 7, .u256 (some (-1)), .byte 8]).map (fun s => (s.buf, s.err)) = some ([7], some .u256Neg) ∧
    (({} : Ser).run [.byte 7, .varBytes .u16 0 0 [1, 2], .bool true]).map (fun s => (s.buf, s.err)) = some ([7, 2, 0, 1, 2, 1], none) ∧
    wOp (.seq .u8 { lex := true } true [[1, 2], [1, 3], [1, 1], [1, 4]]) = .done [4, 1, 2, 1, 3] (some .arrOrder) ∧
    wOp (.seq .u8 { lex := true, autoSort := true } true [[1, 2], [1, 3], [1, 1]]) = .done [3, 1, 1, 1, 2, 1, 3] none ∧
    (let e : Ty := .iface .u8 (.cons 100 (.struct (some ⟨.u8, 100⟩) .nil) (.cons 101 (.struct (some ⟨.u8, 101⟩) .nil) .nil))
     mustOccurOk { mustOccur := [100, 101] } e [.alt 100 (.l []), .alt 100 (.l [])] = .err ∧
     mustOccurOk { mustOccur := [100, 101] } e [.alt 101 (.l []), .alt 100 (.l []), .alt 100 (.l [])] = .ok ()) := by
  decide

/-! ## Regenerated facts (extracted from the working tree on every run by `checks/c03.py`) -/

section Regenerated
open Hive.Gen.C03Consts Hive.Gen.C03Skel

/-- The byte sizes of serializer/consts.go are the widths the model uses: numbers 1/2/4/8, uint256 32 bytes, type codes
4 bytes (`TypeDenotationUint32`) or 1 byte (`TypeDenotationByte`), the optional-field / payload length marker 4
bytes; the saturation threshold of the time codec is `MaxInt64 / 10^9` seconds. -/
theorem C03_const_sizes :
    c_OneByte = 1 ∧ c_UInt16ByteSize = 2 ∧ c_Int16ByteSize = 2 ∧ c_UInt32ByteSize = 4 ∧ c_Int32ByteSize = 4 ∧
    c_Float32ByteSize = 4 ∧ c_UInt64ByteSize = 8 ∧ c_Int64ByteSize = 8 ∧ c_Float64ByteSize = 8 ∧
    c_UInt256ByteSize = 32 ∧ c_TypeDenotationByteSize = Den.u32.width ∧ c_SmallTypeDenotationByteSize = Den.u8.width ∧
    c_PayloadLengthByteSize = 4 ∧ c_MinPayloadByteSize = 5 ∧ c_MaxNanoTimestampInt64Seconds = maxSec := by
  decide

/-- Mode bits: validation and lexical ordering are different bits of `DeSerializationMode`; the four array validation
modes are the bits 1, 2, 4, 8 that `ElementValidationFunc` walks in this order (no-duplicates, lexical order, type
byte, type word — the order of `vErr`). -/
theorem C03_const_modes :
    c_DeSeriModeNoValidation = 0 ∧ c_DeSeriModePerformValidation = 1 ∧ c_DeSeriModePerformLexicalOrdering = 2 ∧
    c_ArrayValidationModeNone = 0 ∧ c_ArrayValidationModeNoDuplicates = 1 ∧ c_ArrayValidationModeLexicalOrdering = 2 ∧
    c_ArrayValidationModeAtMostOneOfEachTypeByte = 4 ∧ c_ArrayValidationModeAtMostOneOfEachTypeUint32 = 8 ∧
    c_TypeDenotationUint32 = 0 ∧ c_TypeDenotationByte = 1 ∧ c_TypeDenotationNone = 2 := by
  decide

/-- serix casts its `LengthPrefixType` to the serializer's `SeriLengthPrefixType`: the codes must coincide pairwise,
be pairwise different and fit a byte. -/
theorem C03_const_prefix_types :
    c_LengthPrefixTypeAsByte = c_SeriLengthPrefixTypeAsByte ∧ c_LengthPrefixTypeAsUint16 = c_SeriLengthPrefixTypeAsUint16 ∧
    c_LengthPrefixTypeAsUint32 = c_SeriLengthPrefixTypeAsUint32 ∧ c_LengthPrefixTypeAsUint64 = c_SeriLengthPrefixTypeAsUint64 ∧
    [c_SeriLengthPrefixTypeAsByte, c_SeriLengthPrefixTypeAsUint16, c_SeriLengthPrefixTypeAsUint32,
      c_SeriLengthPrefixTypeAsUint64].Nodup ∧ c_SeriLengthPrefixTypeAsUint64 < 256 := by
  decide

/-- The chain objects have exactly the state the model gives them (`Ser`: buffer and error; `De`: source, offset and
error), and `ArrayRules` the fields the schema's `Rules` mirror. -/
theorem C03_skeleton_type_chains :
    skel_type_Serializer = ["struct", "buf bytes.Buffer", "err error"] ∧
    skel_type_Deserializer = ["struct", "src []byte", "offset int", "err error"] ∧
    skel_type_ArrayRules = ["struct", "Min uint", "Max uint", "MustOccur TypePrefixes", "Guards SerializableGuard",
      "ValidationMode ArrayValidationMode"] ∧
    skel_type_TypePrefixes = ["map[uint32]struct{}"] := by
  decide

theorem C03_skeleton_type_codes :
    skel_type_SeriLengthPrefixType = ["byte"] ∧ skel_type_DeSerializationMode = ["byte"] ∧
    skel_type_ArrayValidationMode = ["byte"] ∧ skel_type_TypeDenotationType = ["byte"] ∧
    skel_type_LengthPrefixType = ["serializer.SeriLengthPrefixType"] := by
  decide

end Regenerated

/-! ## The exported validators of serializer/serializable.go, one by one

`Hive/Model/SerixC03Validators.lean` has one state machine per validator constructor (driven directly by the `x val` /
`x evf` lines of `harness/c03/prim`, refusals included); the theorems say what each accepts, for every sequence of byte
strings — so for every type code `0..255` of the byte denotation and the whole `uint32` range of the word denotation. -/

section Validators
open VX

/-- `ElementUniqueValidator` accepts exactly the sequences of pairwise different elements. -/
theorem C03_validator_unique (xs : List Bytes) : accepts .uniq {} xs = true ↔ xs.Nodup :=
  uniq_accepts_iff xs

/-- `LexicalOrderValidator` accepts exactly the ascending sequences (byte-lexical order, duplicates allowed). -/
theorem C03_validator_lex (xs : List Bytes) :
    accepts .lex {} xs = true ↔ xs.Pairwise (fun a b => lexLe a b = true) :=
  lex_accepts_iff xs

/-- `LexicalOrderWithoutDupsValidator` accepts exactly the strictly ascending sequences — which is "ascending and
pairwise different": the shortcut `ElementValidationFunc` takes for `NoDuplicates | LexicalOrdering` decides the rule
that the two separate validators would decide. -/
theorem C03_validator_lex_nodups (xs : List Bytes) :
    (accepts .lexNd {} xs = true ↔ xs.Pairwise (fun a b => lexLt a b = true)) ∧
    (accepts .lexNd {} xs = true ↔ (accepts .lex {} xs = true ∧ accepts .uniq {} xs = true)) :=
  ⟨lexNd_accepts_iff xs, lexNd_accepts_iff_lex_and_uniq xs⟩

/-- `AtMostOneOfEachTypeValidator(denotation of w bytes)` accepts exactly the sequences whose elements all carry a type
code (at least `w` bytes) and whose type codes — the first `w` bytes as a little-endian number — are pairwise
different.  `w = 1`: all 256 byte codes; `w = 4`: all of `uint32`. -/
theorem C03_validator_type_codes (w : Nat) (xs : List Bytes) :
    accepts (.one w) {} xs = true ↔
      (∀ x ∈ xs, w ≤ x.length) ∧ (xs.map (fun x => leNat (x.take w))).Nodup :=
  one_accepts_iff_codes w xs

/-- A refusal records nothing (the closure's variables are as before the call), and "no element refused" is the
acceptance the chains ask for. -/
theorem C03_validator_refusal (k : VKind) (s : S) (x : Bytes) (xs : List Bytes) :
    ((step k s x).2.isSome = true → (step k s x).1 = s) ∧
    accepts k s xs = (feed k s xs).all (·.isNone) :=
  ⟨step_refuse k s x, accepts_eq_feed k s xs⟩

/-- `ElementValidationFunc`: the chained function accepts iff every validator it chains accepts, and that is the
declarative `validSeq` the codec theorems (`C03_canonical`, `C03_rules_exact`) are about. -/
theorem C03_validation_func_chain (r : Rules) (xs : List Bytes) :
    chainAccepts (chainInit r) xs = ((chainInit r).all fun p => accepts p.1 p.2 xs) ∧
    chainAccepts (chainInit r) xs = validSeq r xs :=
  ⟨chainAccepts_eq _ xs, chain_accepts_iff_validSeq r xs⟩

/-- `ArrayRules.CheckBounds`, `TypePrefixes.Subset`, the `LexicalOrdered*` sort helpers. -/
theorem C03_bounds_subset_sort (mn mx n : Nat) (a b : List Nat) (l : List Bytes) :
    (boundsErr { min := mn, max := mx } n = none ↔ ((mn = 0 ∨ mn ≤ n) ∧ (mx = 0 ∨ n ≤ mx))) ∧
    (subset a b = true ↔ ∀ x ∈ a, x ∈ b) ∧
    ((sortLex l).Perm l ∧ (sortLex l).Pairwise (fun x y => lexLe x y = true)) :=
  ⟨checkBounds_iff mn mx n, subset_iff a b, sortLex_spec l⟩

/-- Type codes 64 and 200 are remembered like every other code; a word differing in its top byte is another type. -/
theorem C03_validator_example :
    feed (.one 1) {} [[64, 1], [200], [64, 2], [200, 0]] = [none, none, some .arrTypeUnique, some .arrTypeUnique] ∧
    feed (.one 4) {} [[1, 2, 3, 4], [1, 2, 3, 5], [1, 2, 3, 4, 9], [1, 2, 3]] = [none, none, some .arrTypeUnique, some .invalidBytes] ∧
    feed .lexNd {} [[1], [1, 0], [1, 0], [0], [2]] = [none, none, some .arrUnique, some .arrOrder, none] ∧
    chainFeed (chainInit { noDups := true, one8 := true }) [[7, 1], [7, 2], [7, 1]] = [none, some .arrTypeUnique, some .arrUnique] := by
  decide

/-- **What the validating `Decode` accepts obeys every array rule** (the decode-side twin of `C03_rules_exact`): the
element count read from the prefix lies inside the bounds, the element encodings — the consumed bytes behind the prefix cut
into the pieces the element decoder consumed — satisfy `validSeq` (no duplicates / lexical order / at most one of each
type byte or word, exactly as the validators decide it: `C03_validators_exact`), and every must-occur type is present. -/
theorem C03_decode_slice_rules (lp : LP) (r : Rules) (e : Ty) (b : Bytes) (st : Bool) (vs : List Val) (n : Nat)
    (h : decode (.slice lp r e) b ⟨true, st⟩ = .ok (.l vs, n)) :
    ∃ (w : Nat) (encs : List Bytes), lp.width = some w ∧ w ≤ n ∧ n ≤ b.length ∧
      vs.length = leNat (b.take w) ∧ r.boundsOk vs.length = true ∧
      encs.length = vs.length ∧ encs.flatten = (b.drop w).take (n - w) ∧ validSeq r encs = true ∧
      mustOccurOk r e vs = .ok () :=
  decode_slice_rules lp r e b st vs n h

/-! ### The layout of every `WriteX` of the `Serializer` chain

The `C03_layout_*` theorems above are about the serix model; these say the same for the chain model one layer below
(`wOp`, driven call by call by `harness/c03/prim`): whenever a call completes without storing an error, the bytes it
appended are the documented layout.  (`WriteSliceOfByteSlices`: `C03_write_seq_refines`; the object calls write what
their objects serialize to, `WritePayload` behind a uint32 marker: `C03_payload_marker_canonical`.) -/

theorem wLen_done {lp : LP} {l : Nat} {p : Bytes} (h : wLen lp l = .done p none) :
    ∃ w, lp.width = some w ∧ l < 256 ^ w ∧ p = leBytes w l := by
  unfold wLen at h
  split at h
  · cases h
  · rename_i w hw
    split at h
    · rename_i hl
      simp only [WOut.done.injEq, and_true] at h
      exact ⟨w, hw, hl, h.symm⟩
    · simp at h

/-- `WriteNum`: `w` bytes, byte `i` = `x mod 256^w / 256^i mod 256` (little endian, two's complement); `WriteBool`: one
byte 0 / 1; `WriteByte`, `WriteBytes`: the bytes themselves; `WriteVariableByteSlice` / `WriteString`: a length prefix of
the given width holding the length, then the payload, the length inside the bounds; `WriteTime`: the saturated
nanoseconds as 8 bytes; `WriteUint256`: 32 bytes of a number in `[0, 2^256)`; `WritePayloadLength`: 4 bytes; a type code:
1 or 4 bytes. -/
theorem C03_prim_layout :
    (∀ w x b, wOp (.num w x) = .done b none →
      b.length = w ∧ ∀ i, i < w → b[i]? = some (UInt8.ofNat ((x % (256 : Int) ^ w).toNat / 256 ^ i % 256))) ∧
    (∀ v b, wOp (.bool v) = .done b none → b = [if v then 1 else 0]) ∧
    (∀ x b, wOp (.byte x) = .done b none → b = [UInt8.ofNat x]) ∧
    (∀ bs b, wOp (.fixed bs) = .done b none → b = bs) ∧
    (∀ lp mn mx bs b, wOp (.varBytes lp mn mx bs) = .done b none →
      ∃ w, lp.width = some w ∧ bs.length < 256 ^ w ∧ b = leBytes w bs.length ++ bs ∧
        (mx = 0 ∨ bs.length ≤ mx) ∧ (mn = 0 ∨ mn ≤ bs.length)) ∧
    (∀ lp mn mx bs b, wOp (.str lp mn mx bs) = .done b none →
      ∃ w, lp.width = some w ∧ bs.length < 256 ^ w ∧ b = leBytes w bs.length ++ bs ∧
        (mx = 0 ∨ bs.length ≤ mx) ∧ (mn = 0 ∨ mn ≤ bs.length)) ∧
    (∀ x b, wOp (.time x) = .done b none → b = leBytes 8 (timeToU64 x) ∧ b.length = 8) ∧
    (∀ x b, wOp (.u256 x) = .done b none → ∃ n : Int, x = some n ∧ 0 ≤ n ∧ n < (2 : Int) ^ 256 ∧ b = leBytes 32 n.toNat ∧ b.length = 32) ∧
    (∀ n b, wOp (.payloadLen n) = .done b none → b = leBytes 4 n ∧ b.length = 4) ∧
    (∀ c b, wOp (.code c) = .done b none → b = leBytes c.den.width c.n ∧ (b.length = 1 ∨ b.length = 4)) := by
  refine ⟨?_, ?_, ?_, ?_, ?_, ?_, ?_, ?_, ?_, ?_⟩
  · intro w x b h
    simp only [wOp, WOut.done.injEq, and_true] at h
    subst h
    exact ⟨leBytes_length _ _, fun i hi => by rw [leBytes_getElem?, if_pos hi]⟩
  · intro v b h
    simp only [wOp, WOut.done.injEq, and_true] at h
    exact h.symm
  · intro x b h
    simp only [wOp, WOut.done.injEq, and_true] at h
    exact h.symm
  · intro bs b h
    simp only [wOp, WOut.done.injEq, and_true] at h
    exact h.symm
  · intro lp mn mx bs b h
    simp only [wOp] at h
    split at h
    · simp at h
    · rename_i h1
      split at h
      · simp at h
      · rename_i h2
        cases hl : wLen lp bs.length with
        | panic => simp [hl] at h
        | done p e =>
          cases e with
          | some e => simp [hl] at h
          | none =>
            simp only [hl, WOut.done.injEq, and_true] at h
            obtain ⟨w, hw, hlt, rfl⟩ := wLen_done hl
            refine ⟨w, hw, hlt, h.symm, ?_, ?_⟩
            · simp only [Bool.and_eq_true, decide_eq_true_eq, not_and, Nat.not_lt] at h1
              by_cases hm : mx = 0
              · exact Or.inl hm
              · exact Or.inr (h1 (by omega))
            · simp only [Bool.and_eq_true, decide_eq_true_eq, not_and, Nat.not_lt] at h2
              by_cases hm : mn = 0
              · exact Or.inl hm
              · exact Or.inr (h2 (by omega))
  · intro lp mn mx bs b h
    simp only [wOp] at h
    split at h
    · simp at h
    · rename_i h1
      split at h
      · simp at h
      · rename_i h2
        cases hl : wLen lp bs.length with
        | panic => simp [hl] at h
        | done p e =>
          cases e with
          | some e => simp [hl] at h
          | none =>
            simp only [hl, WOut.done.injEq, and_true] at h
            obtain ⟨w, hw, hlt, rfl⟩ := wLen_done hl
            refine ⟨w, hw, hlt, h.symm, ?_, ?_⟩
            · simp only [Bool.and_eq_true, decide_eq_true_eq, not_and, Nat.not_lt] at h1
              by_cases hm : mx = 0
              · exact Or.inl hm
              · exact Or.inr (h1 (by omega))
            · simp only [Bool.and_eq_true, decide_eq_true_eq, not_and, Nat.not_lt] at h2
              by_cases hm : mn = 0
              · exact Or.inl hm
              · exact Or.inr (h2 (by omega))
  · intro x b h
    simp only [wOp, WOut.done.injEq, and_true] at h
    subst h
    exact ⟨rfl, leBytes_length _ _⟩
  · intro x b h
    cases x with
    | none => simp [wOp] at h
    | some n =>
      simp only [wOp] at h
      split at h
      · simp at h
      · rename_i h1
        split at h
        · simp at h
        · rename_i h2
          simp only [WOut.done.injEq, and_true] at h
          subst h
          exact ⟨n, rfl, by omega, by omega, rfl, leBytes_length _ _⟩
  · intro n b h
    simp only [wOp, WOut.done.injEq, and_true] at h
    subst h
    exact ⟨rfl, leBytes_length _ _⟩
  · intro c b h
    simp only [wOp, Code.bytes, WOut.done.injEq, and_true] at h
    subst h
    refine ⟨rfl, ?_⟩
    rw [leBytes_length]
    cases c.den <;> simp [Den.width]

/-- **Reverse direction at the level of the chains, for every array rule.**  Whatever the validating
`ReadSequenceOfObjects` accepts — every prefix width, every combination of bounds, no-duplicates, lexical order, at most
one of each type byte / word — `WriteSliceOfByteSlices` with the same rules (with or without the lexical-ordering mode
bit) writes back to exactly the bytes consumed. -/
theorem C03_prim_seq_canonical (lp : LP) (r : Rules) (srt : Bool) (rem : Bytes) (total off : Nat) (xs : List Bytes) (n : Nat)
    (h : rOp rem total off (.seq lp r true) = .done (some (.items xs)) n none) :
    wOp (.seq lp { r with autoSort := srt } true xs) = .done (rem.take n) none :=
  prim_seq_canonical lp r srt rem total off xs n h

/-- The hypothesis is satisfiable (two sorted one-byte items behind a one-byte count, trailing bytes left alone), and an
unsorted input is refused behind the second item. -/
theorem C03_prim_seq_canonical_example :
    rOp [2, 1, 5, 1, 7, 9, 9] 7 0 (.seq .u8 { lex := true, noDups := true, max := 3 } true) =
      .done (some (.items [[1, 5], [1, 7]])) 5 none ∧
    rOp [2, 1, 7, 1, 5, 9, 9] 7 0 (.seq .u8 { lex := true, noDups := true, max := 3 } true) =
      .done (some (.items [[1, 7], [1, 5]])) 5 (some .arrOrder) := by
  constructor <;> rfl

/-- **The payload length marker, one layer below serix** (`ReadPayload` / `WritePayload`, model
`Hive/Model/SerixC03Objects.lean`): a payload the reader accepts is written back to exactly the bytes consumed — the uint32
marker holds the number of bytes that follow. -/
theorem C03_payload_marker_canonical (d d' : De) (bs : Bytes) (hd : d.err = none)
    (h : deReadPayload d = (d', some (some bs))) :
    d'.err = none ∧ d.off ≤ d'.off ∧
    serWritePayload {} .absent (some (some bs)) = { buf := (d.src.drop d.off).take (d'.off - d.off), err := none } :=
  payload_canonical d d' bs hd h

/-- **Must occur, one layer below serix** (`ReadSliceOfObjects`): what the validating reader accepts contains an object of
every must-occur type code, judged on the objects. -/
theorem C03_objects_must_occur (d d' : De) (lp : LP) (r : Rules) (den : Option Den) (must : List Nat) (xs : List Bytes)
    (hd : d.err = none) (h : deReadObjs d lp r true den must = some (d', some xs, none)) :
    ∀ m ∈ must, ∃ x ∈ xs, leNat (x.take (denWidth den)) = m :=
  objs_must_occur d d' lp r den must xs hd h

/-- The hypotheses are satisfiable: a payload of type 3 with a two-byte body; a marker that is one too large is refused
(`invalid-bytes`), one that is too small as well; a slice of objects without the must-occur type 64 is refused. -/
theorem C03_objects_example :
    (let r := deReadPayload { src := [7, 0, 0, 0, 3, 0, 0, 0, 2, 0xaa, 0xbb, 0xcc] }
     (r.1.off, r.1.err, r.2) = (11, none, some (some [3, 0, 0, 0, 2, 0xaa, 0xbb]))) ∧
    (deReadPayload { src := [8, 0, 0, 0, 3, 0, 0, 0, 2, 0xaa, 0xbb, 0xcc] }).1.err = some .invalidBytes ∧
    (deReadPayload { src := [6, 0, 0, 0, 3, 0, 0, 0, 2, 0xaa, 0xbb, 0xcc] }).1.err = some .invalidBytes ∧
    (deReadObjs { src := [2, 1, 0, 64, 1, 9] } .u8 {} true (some .u8) [64]).map (fun r => (r.1.off, r.2)) =
      some (6, some [[1, 0], [64, 1, 9]], none) ∧
    (deReadObjs { src := [2, 1, 0, 2, 1, 9] } .u8 {} true (some .u8) [64]).map (·.2.2) = some (some .typesNotOccurred) := by
  decide

end Validators

/-! ## Non-vacuity of `C03_canonical` -/

example :
    let t : Ty := .struct (some ⟨.u8, 7⟩) (.cons false
      (.slice .u8 { lex := true, noDups := true, max := 3 } (.str .u8 0 0)) (.cons true (.ptr (.struct (some ⟨.u8, 1⟩) .nil)) .nil))
    t.wf = true ∧
    decode t [7, 2, 1, 97, 1, 98, 1, 0, 0, 0, 1, 0xee] ⟨true, true⟩ = .ok (.l [.l [.x [97], .x [98]], .some (.l [])], 11) ∧
    -- unsorted elements, a wrong marker, a big-endian looking prefix: all rejected
    decode t [7, 2, 1, 98, 1, 97, 0, 0, 0, 0] ⟨true, true⟩ = .err ∧
    decode t [7, 2, 1, 97, 1, 98, 2, 0, 0, 0, 1] ⟨true, true⟩ = .err ∧
    decode t [7, 0, 2, 1, 97, 1, 98, 0, 0, 0, 0] ⟨true, true⟩ = .err := by
  decide

end Hive.Serix
