import Hive.Gen.C08_Coll
/-!
# C08 — the collector of the protocol model is derived from kvstore/batch_collector.go

`Hive/Gen/C08_Coll.lean` is regenerated on every run by `harness/c08/collgen` (go/ast → terms of `Coll.S`);
`Hive/Model/BatchWriterColl.lean` interprets the terms.  The theorems below are about the **generated** terms
`fn_newBatchCollector`, `fn_Add`, `fn_Commit` for every collector state, object and batch size (also ≤ 0): what they do
— effects in order, new state, result — and that this is what the hand-written protocol model does in its collector
steps.  A change of batch_collector.go changes the terms and these proofs no longer go through.
-/
namespace Hive.BatchWriter
open Hive.BatchWriter.Coll Hive.Gen.C08Coll Hive.Spec.BatchWriter

/-- the collector that holds the objects `objs` (in `BatchWrite` order), as the code represents it -/
def collOf (objs : List Nat) (b : Int) : Coll :=
  { vals := objs.map some, counter := objs.length, bsize := b, committed := false, err := false }

theorem collOf_inv (objs : List Nat) (b : Int) : Inv (collOf objs b) := by
  refine ⟨by simp [collOf], fun v hv => ?_⟩
  simp only [collOf, List.mem_map] at hv
  obtain ⟨o, _, rfl⟩ := hv
  simp

/-- `BatchCollector` has exactly the methods that are translated (a further method could break `Coll.Inv` unseen). -/
theorem C08_collector_methods : methods = ["Add", "Commit"] := by decide

/-- **`newBatchCollector(_, _, b)`**, every `b` (also ≤ 0: the capacity is `max(b, 0)`, no `makeslice` panic): an empty
collector with batch size `b`, nothing done to the outside. -/
theorem C08_collector_new_derived (b : Int) :
    run fn_newBatchCollector {} 0 b = { c := collOf [] b, eff := [], ret := .none } := by
  have h : (0 : Int) ≤ Max.max b 0 := Int.le_max_right b 0
  simp [run, execL, exec, evalE, collOf, fn_newBatchCollector, h]

/-- **`Add(o)`** on a collector holding `objs`: `ResetBatchWriteScheduled`, `scheduledCount.Add(-1)`, `BatchWrite`, in
this order and nothing else; afterwards it holds `objs ++ [o]` (slice and counter in step); the result is
`len(objs) + 1 >= b`. -/
theorem C08_collector_Add_derived (objs : List Nat) (b : Int) (o : Nat) :
    run fn_Add (collOf objs b) o =
      { c := collOf (objs ++ [o]) b, eff := [.reset o, .count (-1), .write o],
        ret := .bool (decide (b ≤ (objs.length : Int) + 1)) } := by
  simp [run, execL, exec, evalE, evalC, collOf, fn_Add, M.stuck]

theorem doneEffs_map (pre objs : List Nat) :
    doneEffs ((pre ++ objs).map some) pre.length objs.length = (objs.map Eff.done, true) := by
  induction objs generalizing pre with
  | nil => simp [doneEffs]
  | cons o rest ih =>
    have h1 : ((pre ++ o :: rest).map some)[pre.length]? = some (some o) := by simp
    have h2 := ih (pre ++ [o])
    simp only [List.append_assoc, List.singleton_append, List.length_append, List.length_singleton] at h2
    simp only [List.length_cons, doneEffs, h1, h2, List.map_cons]

/-- **`Commit()`** on a collector holding `objs`, store working: an empty batch is cancelled; otherwise the batched
mutations are committed and then `BatchWriteDone` is called for every object, once, in `BatchWrite` order. -/
theorem C08_collector_Commit_derived (objs : List Nat) (b : Int) :
    (run fn_Commit (collOf objs b)).eff = (if objs = [] then [.cancel] else .commit :: objs.map .done) ∧
    (run fn_Commit (collOf objs b)).ret = .nilErr ∧ (run fn_Commit (collOf objs b)).c.committed = true := by
  have hd := doneEffs_map [] objs
  simp only [List.nil_append, List.length_nil] at hd
  cases objs with
  | nil => simp [run, execL, exec, evalE, evalC, collOf, fn_Commit]
  | cons o rest =>
    have hne : ¬ ((rest.length : Int) + 1 = 0) := by omega
    simp only [List.length_cons, List.map_cons] at hd
    simp [run, execL, exec, evalE, evalC, collOf, fn_Commit, hne, hd]

/-- **`Commit()` with a failing store**: the error is returned before the Done loop — no `BatchWriteDone` at all. -/
theorem C08_collector_Commit_error_derived (objs : List Nat) (b : Int) (hne : objs ≠ []) :
    (run fn_Commit (collOf objs b) 0 0 true).eff = [.commitFail] ∧
    (run fn_Commit (collOf objs b) 0 0 true).ret = .err := by
  cases objs with
  | nil => exact absurd rfl hne
  | cons o rest =>
    have hne : ¬ ((rest.length : Int) + 1 = 0) := by omega
    simp [run, execL, exec, evalE, evalC, collOf, fn_Commit, hne]

/-- a committed collector refuses both methods (`panic("mutations were already committed")`) -/
theorem C08_collector_committed_panics (objs : List Nat) (b : Int) (o : Nat) :
    (run fn_Add { collOf objs b with committed := true } o).ret = .panicked ∧
    (run fn_Commit { collOf objs b with committed := true }).ret = .panicked := by
  simp [run, execL, exec, evalC, collOf, fn_Add, fn_Commit]

/-! ### The protocol model's collector steps are these functions -/

/-- the collector of a model state -/
def collOfSt (s : St) : Coll := collOf s.batch s.bsize

/-- the model's writer from `.addReset`: three steps -/
def modelAdd (s : St) : List St := (stepWriter s).flatMap (fun s1 => (stepWriter s1).flatMap stepWriter)

/-- **Model `Add` = derived `Add`.**  From `.addReset` the model's writer takes exactly three steps, without choice;
they emit `reset`, decrement the counter, emit `write` — the derived effects in the derived order —, the open batch
becomes what the derived collector holds, and the model goes on to `Commit` exactly when the derived `Add` returns
`true`. -/
theorem C08_model_Add_is_collector_Add (s : St) (hw : s.wpc = .addReset) :
    (run fn_Add (collOfSt s) s.wcur).eff = [.reset s.wcur, .count (-1), .write s.wcur] ∧
    (modelAdd s).length = 1 ∧
    ∀ s3 ∈ modelAdd s,
      s3.tr = .write s.wcur (s.ver s.wcur) :: .reset s.wcur :: s.tr ∧ s3.count = s.count - 1 ∧
      (run fn_Add (collOfSt s) s.wcur).c = collOf s3.batch s3.bsize ∧
      (s3.wpc = .commit ↔ (run fn_Add (collOfSt s) s.wcur).ret = .bool true) := by
  rw [collOfSt, C08_collector_Add_derived]
  refine ⟨rfl, ?_, fun s3 hm => ?_⟩
  · simp only [modelAdd, stepWriter, hw, emit, List.flatMap_cons, List.flatMap_nil, List.append_nil]
    split <;> rfl
  · simp only [modelAdd, stepWriter, hw, emit, List.flatMap_cons, List.flatMap_nil, List.append_nil] at hm
    by_cases h : s.bsize ≤ s.batch.length + 1
    · have h' : (s.bsize : Int) ≤ (s.batch.length : Int) + 1 := by omega
      simp only [h, if_true, List.mem_singleton] at hm
      subst hm
      simp [h']
    · have h' : ¬ (s.bsize : Int) ≤ (s.batch.length : Int) + 1 := by omega
      simp only [h, if_false, List.mem_singleton] at hm
      subst hm
      simp [h']
      split <;> simp

/-- the model's `.commit` step on a non-empty batch -/
def modelCommitSt (s : St) : St :=
  emit .commit { s with store := applyMuts s.muts s.store, todo := s.batch, batch := [], muts := [], wpc := .doneLoop }

/-- the model's `.doneLoop` step on `todo = o :: rest` -/
def modelDoneSt (s : St) (o : Nat) (rest : List Nat) : St := emit (.done o) { s with todo := rest }

/-- **Model `Commit` = derived `Commit`.**  An empty batch: no event (the derived function cancels the mutations);
otherwise the model emits `commit` and then — `.doneLoop`, head first — `done o` for exactly the objects the derived
function calls `BatchWriteDone` on, in that order. -/
theorem C08_model_Commit_is_collector_Commit (s : St) (hw : s.wpc = .commit) :
    (s.batch = [] → stepWriter s = [afterCommit s] ∧ (run fn_Commit (collOfSt s)).eff = [.cancel]) ∧
    (s.batch ≠ [] → ∃ s1, stepWriter s = [s1] ∧ s1.tr = .commit :: s.tr ∧ s1.wpc = .doneLoop ∧
      (run fn_Commit (collOfSt s)).eff = .commit :: s1.todo.map .done) ∧
    (∀ (s' : St) (o : Nat) (rest : List Nat), s'.wpc = .doneLoop → s'.todo = o :: rest →
      ∃ s'', stepWriter s' = [s''] ∧ s''.tr = .done o :: s'.tr ∧ s''.todo = rest ∧ s''.wpc = .doneLoop) := by
  refine ⟨fun hb => ?_, fun hb => ?_, fun s' o rest hw' ht => ?_⟩
  · have := (C08_collector_Commit_derived s.batch s.bsize).1
    simp only [hb, if_true] at this
    exact ⟨by simp [stepWriter, hw, hb], by rw [collOfSt, hb]; exact this⟩
  · have := (C08_collector_Commit_derived s.batch s.bsize).1
    simp only [hb, if_false] at this
    cases hbb : s.batch with
    | nil => exact absurd hbb hb
    | cons o rest =>
      refine ⟨modelCommitSt s, by simp [stepWriter, hw, hbb, modelCommitSt], rfl, rfl, ?_⟩
      rw [collOfSt, this, hbb]
      simp [modelCommitSt, emit, hbb]
  · exact ⟨modelDoneSt s' o rest, by simp [stepWriter, hw', ht, modelDoneSt], rfl, rfl, hw'⟩

end Hive.BatchWriter
