import Hive.Gen.C03_SetWrites
/-!
# C03 — the codec does not write into its configuration

The serix model (`Hive/Model/Serix.lean`) takes the schema — the merged type settings of every position: length prefix,
array rules, lexical-ordering flag, object code — as an immutable **value**: `encode t v o` and `decode t b o` are
functions of `t` and cannot change it, so in the model two positions that were configured with the same rules stay
configured the same whatever was encoded before.  The code hands settings around by reference (`TypeSettings` holds a
`*ArrayRules`, the registry keeps the `TypeSettings` values the user registered, `WithTypeSettings` captures the
caller's value, the Serializer takes `*ArrayRules` arguments): a codec function that writes through one of these
references changes what every other type registered with the same object, and every later call, sees.

The assumption *every function that receives settings writes only to a copy* is tied to the source on every run:
`harness/c03/setwrites` (go/ast + go/types over `serializer/` and `serializer/serix/`) regenerates
`Hive/Gen/C03_SetWrites.lean` — every assignment / op-assignment / inc-dec / `delete` / `clear` / `copy` whose target
lies behind a reference (pointer dereference, field selection or index through a pointer, slice or map element) and
touches a settings type (`ArrayRules`, `TypeSettings`, `TypePrefixes`, `SerializableGuard`), classified as *fresh* (the
only reference crossed is a local variable that is only ever defined by `new(T)` / `make(T,…)` / `&T{…}`) or *shared*,
plus the set of functions reachable from `API.Encode` / `API.Decode` and the map / JSON twins.  The theorems below are
the obligations on those lists; the differential side is the third harness part (`harness/c03/live`: long-lived APIs,
shared settings objects, configuration snapshot compared after every call).
-/
namespace Hive.Serix.Settings
open Hive.Gen.C03SetWrites

/-- The writes into shared settings memory that exist in the two packages: the two in-place builders of
`TypeSettings` (`WithMinLen` / `WithMaxLen` reuse an existing rules object) and the option constructor storing the
caller's value in the per-call options. -/
theorem C03_settings_shared_writes :
    shared_writes = [
      "serix.TypeSettings.WithMaxLen: ts.arrayRules.Max",
      "serix.TypeSettings.WithMinLen: ts.arrayRules.Min",
      "serix.WithTypeSettings: o.ts"] := by
  decide

/-- The writes into settings memory the writing function allocated itself — in particular `ensureOrdering`, the one
place where the codec derives settings of its own (maps are always lexically ordered): it fills a **new** `ArrayRules`
from the old one and sets the lexical-order bit there. -/
theorem C03_settings_fresh_writes :
    fresh_writes = [
      "serializer.Deserializer.ReadSliceOfObjects: seenTypes[ty]",
      "serix.API.checkArrayMustOccur: mustOccurPrefixes[0]",
      "serix.API.checkArrayMustOccur: mustOccurPrefixes[key]",
      "serix.TypeSettings.ensureOrdering: *newArrayRules",
      "serix.TypeSettings.ensureOrdering: newArrayRules.ValidationMode"] := by
  decide

/-- The only codec-reachable functions with a shared settings write are the two builders … -/
theorem C03_settings_immutable :
    shared_writers.filter (fun f => decide (f ∈ codec_reach)) =
      ["serix.TypeSettings.WithMaxLen", "serix.TypeSettings.WithMinLen"] := by
  decide

/-- … and the only function that refers to them is the struct-tag parser, which applies them to the settings value it
is building from the tag text (it starts from the empty `TypeSettings`, whose rules pointer is nil, so the first builder
allocates the object the second one writes to). -/
theorem C03_settings_builder_callers :
    writer_callers = [
      "serix.ParseSerixSettings -> serix.TypeSettings.WithMaxLen",
      "serix.ParseSerixSettings -> serix.TypeSettings.WithMinLen"] := by
  decide

/-- The functions the model transcribes are among the functions the extractor found reachable (the extractor did not
lose the codec). -/
theorem C03_settings_reach_covers_codec :
    ["serix.API.encodeMap", "serix.API.decodeMap", "serix.API.encodeSlice", "serix.API.decodeSlice", "serix.API.encodeArray",
     "serix.API.decodeArray", "serix.API.decodeSequence", "serix.TypeSettings.ensureOrdering", "serix.TypeSettings.merge",
     "serix.TypeSettings.toMode", "serix.API.checkArrayMustOccur", "serializer.Serializer.WriteSliceOfByteSlices",
     "serializer.Deserializer.ReadSequenceOfObjects", "serializer.ArrayRules.ElementValidationFunc",
     "serializer.ArrayRules.CheckBounds"].all (fun f => decide (f ∈ codec_reach)) = true := by
  decide

/-- The bodies (source text without white space, error construction collapsed to `ERR[sentinel]`) of the small functions
the settings part of the model transcribes: `TS.merge` of `Hive/Spec/Serix.lean` is `TypeSettings.merge` (the receiver wins
field by field — `C03_merge_priority`), maps get the lexical-order rule through `ensureOrdering` (on a copy), `toMode` turns
the lexical-ordering setting into the mode bit, `MinLen` / `MaxLen` treat 0 as unset, `CheckBounds` tests the minimum first
(`boundsErr`), `HasMode` is a bit test, `Subset` is inclusion. -/
theorem C03_facts_settings_bodies :
    body_serix_TypeSettings_merge =
      "{ifts.lengthPrefixType==nil{ts.lengthPrefixType=other.lengthPrefixType}ifts.objectType==nil{ts.objectType=other.objectType}ifts.lexicalOrdering==nil{ts.lexicalOrdering=other.lexicalOrdering}ifts.arrayRules==nil{ts.arrayRules=other.arrayRules}ifts.fieldKey==nil{ts.fieldKey=other.fieldKey}returnts}" ∧
    body_serix_TypeSettings_ensureOrdering =
      "{newTS:=ts.WithLexicalOrdering(true)arrayRules:=newTS.ArrayRules()newArrayRules:=new(ArrayRules)ifarrayRules!=nil{*newArrayRules=*arrayRules}newArrayRules.ValidationMode|=serializer.ArrayValidationModeLexicalOrderingreturnnewTS.WithArrayRules(newArrayRules)}" ∧
    body_serix_TypeSettings_toMode =
      "{mode:=opts.toMode()lexicalOrdering,set:=ts.LexicalOrdering()ifset&&lexicalOrdering{mode|=serializer.DeSeriModePerformLexicalOrdering}returnmode}" ∧
    body_serix_TypeSettings_MinLen =
      "{ifts.arrayRules==nil||ts.arrayRules.Min==0{return0,false}returnts.arrayRules.Min,true}" ∧
    body_serix_TypeSettings_MaxLen =
      "{ifts.arrayRules==nil||ts.arrayRules.Max==0{return0,false}returnts.arrayRules.Max,true}" ∧
    body_serializer_ArrayRules_CheckBounds =
      "{ifar.Min!=0&&count<ar.Min{returnERR[ErrArrayValidationMinElementsNotReached]}ifar.Max!=0&&count>ar.Max{returnERR[ErrArrayValidationMaxElementsExceeded]}returnnil}" ∧
    body_serializer_ArrayValidationMode_HasMode =
      "{returnav&mode>0}" ∧
    body_serializer_TypePrefixes_Subset =
      "{fortypePrefix:=rangetypePrefixes{if_,has:=other[typePrefix];!has{returnfalse}}returntrue}" :=
  ⟨rfl, rfl, rfl, rfl, rfl, rfl, rfl, rfl⟩

end Hive.Serix.Settings
