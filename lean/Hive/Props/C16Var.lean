import Hive.Model.WorkerPoolVarSched
/-!
# C16 — two small changes of the code that the protocol model distinguishes (witnesses)

`Hive/Model/WorkerPoolVar.lean` is a copy of the protocol model with two switches.  With a switch on, the
variant reaches a configuration in which nobody can move and the property fails; the real model
(`Hive/Model/WorkerPool.lean`: `isRunning` read before the counter, as two steps in the code's order;
`SignalShutdown` = broadcast to the dispatcher AND every foreign waiter) satisfies `C16_shutdown_terminates`.
Both changes are also forced on the real code by the harness (`sched haswork`; mode `foreign`).
-/
namespace Hive.WPVar
open Hive.Conc Hive.WP

def scHasWorkSwappedSched : List (Nat × Nat) :=
  [(0, 0), (0, 0), (3, 0), (1, 0), (1, 0), (1, 0), (1, 0), (2, 0), (2, 0), (2, 0), (2, 0), (2, 0), (2, 0),
   (3, 0), (3, 0), (3, 0), (3, 0), (2, 0), (2, 0)]

def scSignalOneSched : List (Nat × Nat) :=
  [(0, 0), (0, 0), (3, 0), (3, 0), (3, 0), (3, 0), (1, 0), (1, 0), (2, 0), (2, 0), (2, 0), (2, 0), (2, 0),
   (2, 1), (1, 0), (1, 0), (3, 0), (2, 0)]

theorem C16_variant_sched_example :
    scHasWorkSwapped.sched = scHasWorkSwappedSched ∧ scSignalOne.sched = scSignalOneSched := by decide

/-- **`hasWork()` reading the counter before `isRunning`** (`pending > 0 || IsRunning()`): the dispatcher's first look
sees `pending = 0`; a `Submit` is accepted and pushed, `Shutdown` switches the pool off; the dispatcher then reads
"not running", leaves its loop and closes the channel.  Everything returns — `Shutdown`, `ShutdownComplete.Wait()` —
but the accepted task is still queued, never runs, and the counter stays 1. -/
theorem C16_haswork_order_witness :
    let c := runSched (sys scHasWorkSwapped.p) scHasWorkSwapped.init scHasWorkSwappedSched
    stuckB scHasWorkSwapped.p c = true ∧ c.2.all Thr.finished = true ∧ c.1.running = false ∧ wg c.1 = 0 ∧
      c.1.pending = 1 ∧ (queuedIds c.1).length = 1 ∧ c.1.disp = .none ∧ c.1.closed = true := by
  decide

/-- **`SignalShutdown` with `Signal()` instead of `Broadcast()`**: with one foreign goroutine asleep in
`Queue.WaitSizeIsAbove`, `Shutdown`'s signal can reach that goroutine instead of the dispatcher: the dispatcher
sleeps for ever although nothing is pending, the worker waits for the channel to be closed, and
`ShutdownComplete.Wait()` never returns. -/
theorem C16_signal_one_witness :
    let c := runSched (sys scSignalOne.p) scSignalOne.init scSignalOneSched
    stuckB scSignalOne.p c = true ∧ c.1.running = false ∧ c.1.pending = 0 ∧ wg c.1 = 1 ∧
      c.1.disp = .waiting ∧ c.1.dwait = true ∧ c.1.due = 0 ∧ (c.2.any Thr.atWaitComplete) = true := by
  decide

end Hive.WPVar
