import Hive.Gen.C20_Digest

/-! Source-identity obligation of C20 (written by repin_digest.py at /repo e885e5c5cc; 36 declarations of
app/daemon/daemon.go, app/daemon/interfaces.go).
The hand-written models of this property were validated against exactly this text of the anchored declarations
(comments and layout excluded).  The digests are regenerated from the tree under check on every run
(`Hive/Gen/C20_Digest.lean`); an edited, added or removed declaration breaks the obligation and `./check` names it. -/

theorem C20_source_digest : Hive.Gen.C20Digest.digest = [
  ("app/daemon/daemon.go", "var ErrDaemonAlreadyStopped", "401588c72d70b639"),
  ("app/daemon/daemon.go", "var ErrDuplicateBackgroundWorker", "11a676846e19ca52"),
  ("app/daemon/daemon.go", "var ErrExistingBackgroundWorkerStillRunning", "0b3d6902398b8e59"),
  ("app/daemon/daemon.go", "var defaultDaemon", "17db9dffa0ea945e"),
  ("app/daemon/daemon.go", "func GetRunningBackgroundWorkers", "271aa494e2e7d4b2"),
  ("app/daemon/daemon.go", "func BackgroundWorker", "45d77a06590a10e0"),
  ("app/daemon/daemon.go", "func DebugLogger", "6720621dd34e5fe9"),
  ("app/daemon/daemon.go", "func Start", "24981b566e2e25a8"),
  ("app/daemon/daemon.go", "func Run", "694830fb6a537b04"),
  ("app/daemon/daemon.go", "func Shutdown", "3b5039f243c064dc"),
  ("app/daemon/daemon.go", "func ShutdownAndWait", "34eb2086f4ee90c2"),
  ("app/daemon/daemon.go", "func IsRunning", "b4407685ab9bc95a"),
  ("app/daemon/daemon.go", "func IsStopped", "2c8f22bf1eb6d531"),
  ("app/daemon/daemon.go", "func ContextStopped", "ffb8bfa8005f1eab"),
  ("app/daemon/daemon.go", "func New", "31d3c7ddff43853b"),
  ("app/daemon/daemon.go", "type OrderedDaemon", "e48b928299b46b12"),
  ("app/daemon/daemon.go", "type worker", "b7f90356817f6881"),
  ("app/daemon/daemon.go", "func OrderedDaemon.GetRunningBackgroundWorkers", "0ce0bbfa7062a3b3"),
  ("app/daemon/daemon.go", "func OrderedDaemon.getWorkersAndShutdownOrder", "e71b7cd7c9e775ec"),
  ("app/daemon/daemon.go", "func OrderedDaemon.runBackgroundWorker", "ea63be810db01e92"),
  ("app/daemon/daemon.go", "func OrderedDaemon.BackgroundWorker", "9e514c04bd995933"),
  ("app/daemon/daemon.go", "func OrderedDaemon.DebugLogger", "5709f6667716851c"),
  ("app/daemon/daemon.go", "func OrderedDaemon.Start", "23f648e1cb08a28d"),
  ("app/daemon/daemon.go", "func OrderedDaemon.Run", "da3186f10ddd7cb5"),
  ("app/daemon/daemon.go", "func OrderedDaemon.shutdown", "165537d7f13e844f"),
  ("app/daemon/daemon.go", "func OrderedDaemon.stopWorkers", "e50a570d595237ae"),
  ("app/daemon/daemon.go", "func OrderedDaemon.cleanupWorker", "e97fa8f79a9e652d"),
  ("app/daemon/daemon.go", "func OrderedDaemon.removeWorkerFromShutdownOrder", "cdfa7b1fbf2fba1b"),
  ("app/daemon/daemon.go", "func OrderedDaemon.clear", "785bf726f03cb5dd"),
  ("app/daemon/daemon.go", "func OrderedDaemon.Shutdown", "e157682bd618864b"),
  ("app/daemon/daemon.go", "func OrderedDaemon.ShutdownAndWait", "df408f89b64f4d88"),
  ("app/daemon/daemon.go", "func OrderedDaemon.IsRunning", "0c05c439de206538"),
  ("app/daemon/daemon.go", "func OrderedDaemon.IsStopped", "25b73debded4c4d6"),
  ("app/daemon/daemon.go", "func OrderedDaemon.ContextStopped", "9e337f315ebaa7f0"),
  ("app/daemon/interfaces.go", "type WorkerFunc", "b998ccb2844b78b0"),
  ("app/daemon/interfaces.go", "type Daemon", "a49d1a96e2b52cff")] := rfl
