import Hive.Proofs.EventsNotifier
import Hive.Proofs.EventsNotifierRace
import Hive.Proofs.EventsNotifierConc
import Hive.Proofs.EventsPromise
import Hive.Proofs.EventsMax
import Hive.Proofs.EventsIter
import Hive.Proofs.Events
import Hive.Proofs.EventsLink
import Hive.Proofs.EventsCount
import Hive.Proofs.EventsRelink
import Hive.Proofs.EventsMaxN
import Hive.Spec.Events
import Hive.Gen.C15_Skel
import Hive.Gen.C15_Twins
import Hive.Gen.C15_Bodies
import Hive.Proofs.EventsOMap
import Hive.Proofs.EventsRegSim
import Hive.Proofs.EventsRegSimConc
import Hive.Proofs.EventsPool
/-!
# C15 — events, promises and notifiers deliver exactly the right calls

Property theorems only.  Models: `Hive/Model/Events*.lean` (runtime/event, runtime/promise,
runtime/valuenotifier after the two `fix:` commits, ds/orderedmap's `ForEach`).
-/
namespace Hive.C15
open Hive.Conc

theorem count_one_of_pairwise_lt {vs : List Nat} (h : vs.Pairwise (· < ·)) {p : Nat} (hm : p ∈ vs) :
    vs.count p = 1 := by
  induction vs with
  | nil => cases hm
  | cons a l ih =>
    rw [List.pairwise_cons] at h
    rw [List.count_cons]
    simp only [List.mem_cons] at hm
    by_cases hpa : a = p
    · subst hpa
      have : l.count a = 0 := by
        rw [List.count_eq_zero]
        intro hin; exact Nat.lt_irrefl _ (h.1 a hin)
      simp [this]
    · have hin : p ∈ l := by
        rcases hm with rfl | hm
        · exact absurd rfl hpa
        · exact hm
      simp [hpa, ih h.2 hin]


/-! ## `Trigger` over sequential histories -/
section events
open Hive.Events

/-- The `Hook` call that returned handle `h` attached a hook to event `e` and no `Unhook` of `h`
follows it in `pre`. -/
def AttachedBefore (pre : List Op) (e h : Nat) : Prop :=
  ∃ p1 m b p p2, pre = p1 ++ .hook e m b p :: p2 ∧ (step (final init p1) (.hook e m b p)).2 = .hk h ∧
    ∀ op ∈ p2, op ≠ .unhook h

/-- The event's own limit lets the next Trigger through. -/
def EventPasses (s : St) (e : Nat) : Prop := ∃ ev, s.evs[e]? = some ev ∧ exceeds ev.max (ev.count + 1) = false

/-- The hook's own limit lets the next invocation through. -/
def HookBudget (s : St) (h : Nat) : Prop := ∃ hk, s.hooks[h]? = some hk ∧ exceeds hk.max (hk.count + 1) = false

theorem callOf_some {p q : Bool} {e a : Nat} {hk : Hook} {c : Call} (h : callOf p q e a hk = some c) :
    hk.ev = e ∧ hk.attached = true ∧ exceeds hk.max (hk.count + 1) = false ∧
      c = ⟨.call, hk.handle, a, q || effPooled p hk⟩ := by
  unfold callOf at h
  by_cases h1 : (hk.ev != e || !hk.attached) = true
  · simp [h1] at h
  · by_cases h2 : exceeds hk.max (hk.count + 1) = true
    · simp [h1, h2] at h
    · simp only [h1, h2, Bool.false_eq_true, if_false, Option.some.injEq] at h
      simp only [Bool.or_eq_true, bne_iff_ne, ne_eq, Bool.not_eq_true', not_or, Decidable.not_not,
        Bool.not_eq_false] at h1
      exact ⟨h1.1, h1.2, by simpa using h2, h.symm⟩

theorem callOf_of {p q : Bool} {e a : Nat} {hk : Hook} (h1 : hk.ev = e) (h2 : hk.attached = true)
    (h3 : exceeds hk.max (hk.count + 1) = false) :
    callOf p q e a hk = some ⟨.call, hk.handle, a, q || effPooled p hk⟩ := by
  simp [callOf, h1, h2, h3]

/-- The invocations among the log entries. -/
def isCall (c : Call) : Bool := c.kind == .call

theorem preCalls_not_call (p q : Bool) (e a : Nat) (hk : Hook) : (preCalls p q e a hk).filter isCall = [] := by
  unfold preCalls
  cases p <;> cases hk.pre <;> simp [isCall]

theorem entries_filter (p p' q : Bool) (e a : Nat) (hk : Hook) :
    (entriesOf p p' q e a hk).filter isCall = (callOf p' q e a hk).toList := by
  unfold entriesOf
  cases hc : callOf p' q e a hk with
  | none => simp
  | some c =>
    simp only [List.filter_append, preCalls_not_call, List.nil_append, Option.toList_some]
    rw [(callOf_some hc).2.2.2]; simp [isCall]

theorem entries_arg (p p' q : Bool) (e a : Nat) (hk : Hook) : ∀ c ∈ entriesOf p p' q e a hk, c.arg = a := by
  intro c hc
  unfold entriesOf at hc
  cases hco : callOf p' q e a hk with
  | none => simp [hco] at hc
  | some c' =>
    simp only [hco, List.mem_append, List.mem_singleton] at hc
    rcases hc with hc | rfl
    · unfold preCalls at hc
      simp only [List.mem_append] at hc
      rcases hc with hc | hc
      · split at hc <;> simp at hc; rw [hc]
      · split at hc <;> simp at hc; rw [hc]
    · rw [(callOf_some hco).2.2.2]

theorem flatMap_filter {α β : Type} (l : List α) (f : α → List β) (q : β → Bool) :
    (l.flatMap f).filter q = l.flatMap (fun x => (f x).filter q) := by
  induction l with
  | nil => rfl
  | cons a l ih => simp [List.flatMap_cons, List.filter_append, ih]

theorem calls_sorted (p q : Bool) (e a : Nat) (l : List Hook)
    (hh : ∀ (k : Nat) (hk : Hook), l[k]? = some hk → hk.handle = k) :
    ((l.flatMap (fun h => (callOf p q e a h).toList)).map (·.handle)).Pairwise (· < ·) ∧
    ∀ c ∈ l.flatMap (fun h => (callOf p q e a h).toList), c.handle < l.length := by
  induction l using snoc_induction with
  | h0 => simp
  | hs l x ih =>
    have hpre : ∀ (k : Nat) (hk : Hook), l[k]? = some hk → hk.handle = k := by
      intro k hk h
      apply hh k hk
      rw [List.getElem?_append_left (getElem?_lt h)]; exact h
    have hx : x.handle = l.length := hh l.length x (by simp)
    obtain ⟨ih1, ih2⟩ := ih hpre
    simp only [List.flatMap_append, List.flatMap_cons, List.flatMap_nil, List.append_nil, List.map_append,
      List.length_append, List.length_singleton]
    constructor
    · rw [List.pairwise_append]
      refine ⟨ih1, ?_, ?_⟩
      · cases hc : callOf p q e a x <;> simp
      · intro x1 hp x2 hq
        simp only [List.mem_map] at hp hq
        obtain ⟨c, hc, rfl⟩ := hp
        obtain ⟨d, hd, rfl⟩ := hq
        have hd' : callOf p q e a x = some d := by simpa using hd
        rw [(callOf_some hd').2.2.2]
        have := ih2 c hc
        simp only; omega
    · intro c hc
      simp only [List.mem_append] at hc
      rcases hc with hc | hc
      · have := ih2 c hc; omega
      · have hd' : callOf p q e a x = some c := by simpa using hc
        rw [(callOf_some hd').2.2.2]; simp only; omega

/-- **C15, Trigger (sequential histories of New/Hook/Unhook/Trigger with any limits, pooled hooks
and pre-trigger functions).**  For the `Trigger(e, a)` issued after history `pre`: every log entry
carries the argument `a`; the invocations are in strictly increasing handle order (= attachment
order, no hook twice); and hook `h` is invoked **iff** it was attached to `e` by a `Hook` call in
`pre`, was not unhooked afterwards, and neither the event's nor the hook's own trigger limit is
used up. -/
theorem C15_trigger_exactly_once (pre : List Op) (e a : Nat) (hnl : noLink pre)
    (he : e < (final init pre).evs.length) :
    ∃ cs, (step (final init pre) (.trigger e a)).2 = .calls cs ∧
      ((cs.filter isCall).map (·.handle)).Pairwise (· < ·) ∧ (∀ c ∈ cs, c.arg = a) ∧
      ∀ h, (∃ c ∈ cs, c.kind = .call ∧ c.handle = h) ↔
        (EventPasses (final init pre) e ∧ AttachedBefore pre e h ∧ HookBudget (final init pre) h) := by
  have hinv := hinv_of_noLink pre hnl
  obtain ⟨hnli, htr, hor⟩ := hinv
  generalize hs : final init pre = s at he hnli htr hor
  obtain ⟨ev, hev⟩ : ∃ x, s.evs[e]? = some x := ⟨s.evs[e], List.getElem?_eq_getElem he⟩
  obtain ⟨_, _, t3⟩ := trig_nolink s.evs.length s e a hnli.nolinks ev hev
  refine ⟨(trig (s.evs.length + 1) s e a false).2, by simp [step, he], ?_⟩
  generalize trig (s.evs.length + 1) s e a false = r at t3
  by_cases hx : exceeds ev.max (ev.count + 1) = true
  · simp only [hx, if_true] at t3
    rw [t3.2.2]
    refine ⟨by simp, by simp, ?_⟩
    intro h
    constructor
    · intro ⟨c, hc, _⟩; cases hc
    · intro ⟨⟨ev', hev', hp⟩, _⟩
      rw [hev] at hev'; cases hev'; rw [hx] at hp; cases hp
  · simp only [hx, Bool.false_eq_true, if_false] at t3
    rw [t3.2.2]
    have hfil : (s.hooks.flatMap (entriesOf ev.pre ev.pooled false e a)).filter isCall =
        s.hooks.flatMap (fun h => (callOf ev.pooled false e a h).toList) := by
      rw [flatMap_filter]; congr 1; funext hk; exact entries_filter ev.pre ev.pooled false e a hk
    have hmem : ∀ c, (c ∈ s.hooks.flatMap (entriesOf ev.pre ev.pooled false e a) ∧ c.kind = .call) ↔
        ∃ (k : Nat) (hk : Hook), s.hooks[k]? = some hk ∧ callOf ev.pooled false e a hk = some c := by
      intro c
      have : (c ∈ s.hooks.flatMap (entriesOf ev.pre ev.pooled false e a) ∧ c.kind = .call) ↔
          c ∈ (s.hooks.flatMap (entriesOf ev.pre ev.pooled false e a)).filter isCall := by
        simp [List.mem_filter, isCall]
      rw [this, hfil]
      simp only [List.mem_flatMap, Option.mem_toList]
      constructor
      · intro ⟨hk, hm, hc⟩
        obtain ⟨k, hk'⟩ := List.mem_iff_getElem?.mp hm
        exact ⟨k, hk, hk', hc⟩
      · intro ⟨k, hk, hk', hc⟩
        exact ⟨hk, List.mem_of_getElem? hk', hc⟩
    refine ⟨by rw [hfil]; exact (calls_sorted ev.pooled false e a s.hooks hnli.handle).1, ?_, ?_⟩
    · intro c hc
      obtain ⟨hk, _, hce⟩ := List.mem_flatMap.mp hc
      exact entries_arg ev.pre ev.pooled false e a hk c hce
    · intro h
      constructor
      · intro ⟨c, hc, hck, hch⟩
        obtain ⟨k, hk, hkk, hco⟩ := (hmem c).mp ⟨hc, hck⟩
        obtain ⟨c1, c2, c3, c4⟩ := callOf_some hco
        have hkh : k = h := by rw [← hch, c4]; exact (hnli.handle k hk hkk).symm
        subst hkh
        refine ⟨⟨ev, hev, by simpa using hx⟩, ?_, ⟨hk, hkk, c3⟩⟩
        obtain ⟨p1, p2, hdec, hout⟩ := hor k hk hkk
        obtain ⟨hk2, hhk2, _, _, _, _, hiff⟩ := htr p1 hk.ev hk.max hk.pool hk.pre p2 k hdec hout
        rw [hkk] at hhk2; cases hhk2
        exact ⟨p1, hk.max, hk.pool, hk.pre, p2, by rw [← c1]; exact hdec, by rw [← c1]; exact hout,
          (hiff.mp c2).1⟩
      · intro ⟨_, ⟨p1, m, b, p, p2, hdec, hout, hno⟩, ⟨hk, hkk, hb⟩⟩
        obtain ⟨hk2, hhk2, h1, _, _, _, hiff⟩ := htr p1 e m b p p2 h hdec hout
        rw [hkk] at hhk2; cases hhk2
        have hnex : ¬ exceeded hk := by
          intro hex
          have : exceeds hk.max (hk.count + 1) = true := by
            simp only [exceeds, Bool.and_eq_true, decide_eq_true_eq, bne_iff_ne, ne_eq]
            exact ⟨Nat.lt_succ_of_lt hex.2, hex.1⟩
          rw [hb] at this; cases this
        have hatt := hiff.mpr ⟨hno, hnex⟩
        obtain ⟨hc1, hc2⟩ := (hmem ⟨.call, hk.handle, a, false || effPooled ev.pooled hk⟩).mpr
          ⟨h, hk, hkk, callOf_of h1 hatt hb⟩
        exact ⟨_, hc1, hc2, hnli.handle h hk hkk⟩

/-- **C15, pre-trigger functions (same histories).**  The log of `Trigger(e, a)` is, for the invoked
hooks in attachment order, the event's pre-trigger call (if the event was created
`WithPreTriggerFunc`), the hook's pre-trigger call (if the hook was), then the invocation itself
(or its submission to the pool) — all with the argument `a`; pre-trigger functions run for no other
hook. -/
theorem C15_pre_trigger (pre : List Op) (e a : Nat) (hnl : noLink pre) (ev : Ev)
    (hev : (final init pre).evs[e]? = some ev) (hpass : exceeds ev.max (ev.count + 1) = false) :
    (step (final init pre) (.trigger e a)).2 = .calls
      (((final init pre).hooks.filter (fun hk => (callOf ev.pooled false e a hk).isSome)).flatMap (fun hk =>
        (if ev.pre then [⟨.preEv, e, a, false⟩] else []) ++
        (if hk.pre then [⟨.preHook, hk.handle, a, false⟩] else []) ++
        [⟨.call, hk.handle, a, effPooled ev.pooled hk⟩])) := by
  have hnli := (hinv_of_noLink pre hnl).nl
  generalize final init pre = s at hev hnli
  have he : e < s.evs.length := getElem?_lt hev
  obtain ⟨_, _, t3⟩ := trig_nolink s.evs.length s e a hnli.nolinks ev hev
  simp only [step, he, if_true]
  generalize trig (s.evs.length + 1) s e a false = r at t3
  simp only [hpass, Bool.false_eq_true, if_false] at t3
  rw [t3.2.2]
  congr 1
  generalize s.hooks = l
  induction l with
  | nil => rfl
  | cons hk l ih =>
    simp only [List.flatMap_cons, List.filter_cons]
    cases hc : callOf ev.pooled false e a hk with
    | none => simp [entriesOf, hc, ih]
    | some c =>
      simp only [entriesOf, hc, Option.isSome_some, if_true, List.flatMap_cons, ih, preCalls]
      rw [(callOf_some hc).2.2.2]; simp

/-- **C15, pooled hooks (same histories; C16's task conservation as the hypothesis).**  The entries
of a `Trigger`'s log that are marked `pooled` are the tasks it submitted to worker pools (a hook's
own pool, or the event's pool for hooks without a pool option — `WithWorkerPool(nil)` on the hook
forces in-place execution).  If the pools run every submitted task exactly once and nothing else
(`executed` is a permutation of the submitted tasks — C16), then by the time they have drained
every submitted invocation has been executed exactly once and nothing else has. -/
theorem C15_pooled_exactly_once (pre : List Op) (e a : Nat) (hnl : noLink pre)
    (he : e < (final init pre).evs.length) (cs executed : List Call)
    (hcs : (step (final init pre) (.trigger e a)).2 = .calls cs)
    (hcons : executed.Perm (cs.filter (·.pooled))) :
    (∀ c ∈ cs, c.kind = .call → c.pooled = true → executed.count c = 1) ∧
    (∀ c ∈ executed, c ∈ cs ∧ c.pooled = true) := by
  obtain ⟨cs', hcs', hsorted, _, _⟩ := C15_trigger_exactly_once pre e a hnl he
  rw [hcs] at hcs'; cases hcs'
  refine ⟨?_, ?_⟩
  · intro c hc hk hp
    rw [hcons.count_eq, List.count_filter (by simpa using hp)]
    have hcf : c ∈ cs.filter isCall := List.mem_filter.mpr ⟨hc, by simp [isCall, hk]⟩
    have h1 : (cs.filter isCall).count c = 1 := by
      generalize cs.filter isCall = l at hsorted hcf
      induction l with
      | nil => cases hcf
      | cons x l ih =>
        simp only [List.map_cons, List.pairwise_cons] at hsorted
        rw [List.count_cons]
        simp only [List.mem_cons] at hcf
        by_cases hxc : x = c
        · subst hxc
          have : l.count x = 0 := by
            rw [List.count_eq_zero]
            intro hin
            exact Nat.lt_irrefl _ (hsorted.1 x.handle (List.mem_map.mpr ⟨x, hin, rfl⟩))
          simp [this]
        · have hin : c ∈ l := by
            rcases hcf with rfl | hcf
            · exact absurd rfl hxc
            · exact hcf
          simp [hxc, ih hsorted.2 hin]
    rw [← h1, List.count_filter (by simp [isCall, hk])]
  · intro c hc
    have := hcons.mem_iff.mp hc
    have := List.mem_filter.mp this
    exact ⟨this.1, by simpa using this.2⟩

/-- Non-vacuity: hypotheses and conclusion of `C15_trigger_exactly_once` on a concrete history — hook 0
was unhooked, hook 1 (pooled, limit 1) is used up by the first trigger, hooks 2 and 3 are invoked
in attachment order with the second trigger's argument. -/
example :
    let pre : List Op := [.new 0 true false, .hook 0 0 none false, .hook 0 1 (some true) false, .hook 0 0 none true,
      .unhook 0, .trigger 0 5, .hook 0 3 none false]
    noLink pre ∧ 0 < (final init pre).evs.length ∧
    (step (final init pre) (.trigger 0 6)).2 = .calls
      [⟨.preEv, 0, 6, false⟩, ⟨.preHook, 2, 6, false⟩, ⟨.call, 2, 6, false⟩, ⟨.preEv, 0, 6, false⟩, ⟨.call, 3, 6, false⟩] ∧
    (step (final init (pre.take 5)) (.trigger 0 5)).2 = .calls
      [⟨.preEv, 0, 5, false⟩, ⟨.call, 1, 5, true⟩, ⟨.preEv, 0, 5, false⟩, ⟨.preHook, 2, 5, false⟩, ⟨.call, 2, 5, false⟩] := by
  refine ⟨?_, by decide, by decide, by decide⟩
  intro op hop
  simp only [List.mem_cons, List.mem_nil_iff, or_false] at hop
  rcases hop with rfl | rfl | rfl | rfl | rfl | rfl | rfl <;> rfl

end events

/-! ## `LinkTo` -/
section link
open Hive.Events

/-- Number of attached link hooks of event `src` in the registry of event `t` — the number of times
one `Trigger` of `t` (that passes `t`'s limit) calls `src.Trigger`. -/
def linkHooksOn (s : St) (t src : Nat) : Nat :=
  s.hooks.countP (fun h => h.attached && h.ev == t && h.link == some src)

/-- The event `src` is currently linked to. -/
def currentTarget (s : St) (src : Nat) : Option Nat :=
  match s.evs[src]? with
  | none => none
  | some ev =>
    match ev.link with
    | none => none
    | some k => (s.hooks[k]?).map (·.ev)

theorem countP_index {α : Type} (p : α → Bool) (l : List α) (k : Nat)
    (h : ∀ (j : Nat) (x : α), l[j]? = some x → p x = true → j = k) :
    l.countP p = match l[k]? with
      | some x => if p x then 1 else 0
      | none => 0 := by
  induction l generalizing k with
  | nil => simp
  | cons a l ih =>
    rw [List.countP_cons]
    cases k with
    | zero =>
      have hz : l.countP p = 0 := by
        rw [List.countP_eq_zero]
        intro x hx
        obtain ⟨j, hj⟩ := List.mem_iff_getElem?.mp hx
        intro hp
        have := h (j + 1) x (by simpa using hj) hp
        omega
      simp [hz]
    | succ k =>
      have hpa : p a = false := by
        cases hp : p a with
        | false => rfl
        | true => have := h 0 a (by simp) hp; omega
      have := ih k (fun j x hj hp => by have := h (j + 1) x (by simpa using hj) hp; omega)
      simp [hpa, this]

/-- **C15, LinkTo (all histories of New/Hook/Unhook/Trigger/LinkTo with any limits).**  After any
history, the registry of event `t` contains exactly one attached link hook of `src` if `t` is the
event `src` is currently linked to, and none otherwise — so `src` fires exactly once per trigger of
its current target and no longer for a former target. -/
theorem C15_link (ops : List Op) (src t : Nat) :
    linkHooksOn (final init ops) t src = if currentTarget (final init ops) src = some t then 1 else 0 := by
  have hinv := linkInv_final ops
  generalize final init ops = s at hinv
  unfold linkHooksOn
  have hp : ∀ (j : Nat) (x : Hook), s.hooks[j]? = some x →
      (x.attached && x.ev == t && x.link == some src) = true →
      ∃ ev, s.evs[src]? = some ev ∧ ev.link = some j := by
    intro j x hj hpx
    simp only [Bool.and_eq_true, beq_iff_eq] at hpx
    exact hinv.only j x src hj hpx.2 hpx.1.1
  cases he : s.evs[src]? with
  | none =>
    have hct : currentTarget s src = none := by simp [currentTarget, he]
    rw [hct, List.countP_eq_zero.mpr]
    · simp
    · intro x hx hpx
      obtain ⟨j, hj⟩ := List.mem_iff_getElem?.mp hx
      obtain ⟨ev, hev, _⟩ := hp j x hj hpx
      rw [he] at hev; cases hev
  | some ev =>
    cases hl : ev.link with
    | none =>
      have hct : currentTarget s src = none := by simp [currentTarget, he, hl]
      rw [hct, List.countP_eq_zero.mpr]
      · simp
      · intro x hx hpx
        obtain ⟨j, hj⟩ := List.mem_iff_getElem?.mp hx
        obtain ⟨ev', hev', hl'⟩ := hp j x hj hpx
        rw [he] at hev'; cases hev'; rw [hl] at hl'; cases hl'
    | some k =>
      obtain ⟨hk, hhk, hkl, hka, _⟩ := hinv.cur src ev k he hl
      have hct : currentTarget s src = some hk.ev := by simp [currentTarget, he, hl, hhk]
      rw [hct, countP_index _ s.hooks k (fun j x hj hpx => by
        obtain ⟨ev', hev', hl'⟩ := hp j x hj hpx
        rw [he] at hev'; cases hev'; rw [hl] at hl'; cases hl'; rfl)]
      simp only [hhk, Option.some.injEq, hka, hkl, Bool.true_and, beq_self_eq_true, Bool.and_true, beq_iff_eq]

/-- Non-vacuity: re-linking moves the single link hook; the former target keeps none. -/
example :
    let s := final init [.new 0 false false, .new 0 false false, .new 0 false false, .link 2 0, .link 2 1, .link 2 1]
    linkHooksOn s 0 2 = 0 ∧ linkHooksOn s 1 2 = 1 ∧ currentTarget s 2 = some 1 := by
  decide

end link

/-! ## `LinkTo` concurrent with `Trigger` -/
section relink
open Hive.EventsRelink

/-- **C15, LinkTo under concurrency (any interleaving).**  From a configuration in which nobody
iterates or re-links: any number of `Trigger` callers of the target `X`, of `S.LinkTo(X)` /
`S.LinkTo(elsewhere or nil)` callers (serialised by `S.linkMutex`, but interleaved with everything
else between their `Unhook` and their `Hook`) and of user `Hook`/`Unhook` callers.  For every
`Trigger` of `X` that has finished, with `c0` = the id counter and `d` = the removed hooks at the
moment it began:
* it invoked no hook twice and in attachment order;
* it invoked no hook that had been removed before it began — in particular not the link hook of a
  `LinkTo` that `S` had already been moved away from (the `Unhook` precedes the return of `LinkTo`);
* if a link hook `k` of `S` was attached before it began (`k ≤ c0`, i.e. that `LinkTo(X)` had
  performed its `Hook`) and is still attached now (no re-link since), it invoked `k` exactly once
  and no other link hook of `S`: `S` fired exactly once for this trigger. -/
theorem C15_link_concurrent (c : Cfg Sh Th) (s : Sh) (ts' : List Th) (hstart : Start c)
    (hr : Reach sys c (s, ts')) :
    ∀ c0 d vs, Th.it .fin c0 d vs ∈ ts' →
      vs.Pairwise (· < ·) ∧ (∀ v ∈ vs, v ∉ d) ∧
      ∀ k ∈ s.linkIds, k ≤ c0 → k ∈ s.reg.live → vs.count k = 1 ∧ fires s vs = 1 := by
  have hinv : CfgInv (s, ts') :=
    inv_induction CfgInv (cfgInv_start hstart) (fun a b ha hs => cfgInv_step ha hs) hr
  intro c0 d vs hm
  obtain ⟨hi, hall⟩ := hinv.th _ hm
  refine ⟨hi.sorted, hi.fresh, ?_⟩
  intro k hk hkc hkl
  have hcount : vs.count k = 1 := count_one_of_pairwise_lt hi.sorted (hall k hkl hkc)
  refine ⟨hcount, ?_⟩
  have hlk := hinv.lk
  have hlink : s.link = some k := hlk.only k hk hkl
  have hhead := (hlk.cur k hlink).2
  have huniq : ∀ v ∈ vs, v ∈ s.linkIds → v = k := by
    intro v hv hvl
    rcases Nat.lt_trichotomy v k with hlt | heq | hgt
    · exfalso
      have hvnl : v ∉ s.reg.live := by
        intro hl
        have := hlk.only v hvl hl
        rw [hlink] at this; cases this; omega
      obtain ⟨q, hq, hqv, hcnt⟩ := hlk.gone v hvl hvnl
      have hlt2 := hcnt k hk hlt
      by_cases hqd : q.1 ∈ d
      · exact hi.fresh v hv (hqv ▸ hqd)
      · have := (hi.later q hq hqd).1; omega
    · exact heq
    · exfalso
      have := head_max hlk.desc hhead v hvl
      omega
  unfold fires
  rw [← hcount, List.count_eq_countP]
  apply List.countP_congr
  intro v hv
  simp only [List.contains_eq_mem, decide_eq_true_eq, beq_iff_eq]
  constructor
  · intro h; exact huniq v hv h
  · intro h; rw [h]; exact hk

/-- The registry of the re-link model — the one the `it` differential run executes — is the registry
of `C15_weak_iteration` with one more ghost component. -/
theorem C15_registry_projection (r : Reg) (x : Nat) :
    proj (attach r) = Hive.EventsIter.attach (proj r) ∧
    proj (delete r x) = Hive.EventsIter.delete (proj r) x ∧
    Hive.EventsIter.next (proj r) x = next r x :=
  ⟨proj_attach r, proj_delete r x, proj_next r x⟩

/-- Non-vacuity: `S` is linked to `X` by hook 2; a trigger runs completely (fires `S` once); then
`S` re-links to `X` (hook 2 removed, hook 4 attached) while a second trigger stands on hook 1; that
trigger reaches the new link hook 4 (attached after it began), the old one not (removed before it
arrived); a third trigger that begins afterwards never sees the removed hook 2. -/
example :
    let s0 : Sh := { reg := { live := [1, 2, 3], frozen := [], counter := 3 }, link := some 2, mutex := false,
                     linkIds := [2] }
    let c0 : Cfg Sh Th := (s0, [.it .start 0 [] [], .it .start 0 [] [], .lk true .acquire, .it .start 0 [] []])
    Start c0 ∧
    (let c := runSched sys c0 ([(0, 0), (0, 0), (0, 0), (0, 0), (0, 0), (0, 0), (0, 0)] ++
        [(1, 0), (1, 0), (2, 0), (2, 0), (2, 0), (1, 0), (1, 0), (1, 0), (1, 0), (1, 0)] ++
        [(3, 0), (3, 0), (3, 0), (3, 0), (3, 0), (3, 0), (3, 0)])
     c.2 = [.it .fin 3 [] [1, 2, 3], .it .fin 3 [] [1, 3, 4], .lk true .fin, .it .fin 4 [2] [1, 3, 4]] ∧
     c.1.linkIds = [4, 2] ∧ c.1.link = some 4) := by
  refine ⟨⟨by decide, by decide, rfl, rfl, Or.inr ⟨2, rfl, rfl, by decide⟩, by decide⟩, by decide⟩

end relink

/-! ## trigger limits over sequential histories -/
section seqcount
open Hive.Events Hive.EventsMax

/-- **C15, max trigger count (all sequential histories, including `LinkTo` and nested triggers).**
After any history every hook has been invoked exactly `min(limit, number of triggers that reached
it)` times and every event has let exactly `min(limit, number of its Trigger calls)` through
(`fired` / `passed` are ghost counters bumped at the invocation sites of the model). -/
theorem C15_max_trigger_count_seq (ops : List Op) :
    (∀ (k : Nat) (hk : Hook), (final init ops).hooks[k]? = some hk → hk.fired = minLim hk.max hk.count) ∧
    (∀ (e : Nat) (ev : Ev), (final init ops).evs[e]? = some ev → ev.passed = minLim ev.max ev.count) :=
  ⟨(count_final ops).hook, (count_final ops).ev⟩

/-- Non-vacuity: a hook limited to 2 on an event limited to 3, five triggers. -/
example :
    let s := final init [.new 3 false false, .hook 0 2 none false, .hook 0 0 none false, .trigger 0 1, .trigger 0 2,
      .trigger 0 3, .trigger 0 4, .trigger 0 5]
    s.hooks.map (fun h => (h.count, h.fired, h.attached)) = [(3, 2, false), (3, 3, true)] ∧
    s.evs.map (fun e => (e.count, e.passed)) = [(5, 3)] := by
  decide

end seqcount

/-! ## value notifier -/
section notifier
open Hive.Notifier

theorem outs_append (f : Bool) (s : St) (a b : List Op) :
    outs f s (a ++ b) = outs f s a ++ outs f (final f s a) b := by
  induction a generalizing s with
  | nil => rfl
  | cons x xs ih => simp [outs, final, ih]

theorem outs_length (f : Bool) (s : St) (a : List Op) : (outs f s a).length = a.length := by
  induction a generalizing s with
  | nil => rfl
  | cons x xs ih => simp [outs, ih]

/-- **C15, notifier (sequential histories, repeated values).**  In every history of listener
creation, Notify, Deregister and Wait: if a `Wait` of listener `h` returns success, then the history
before it contains the creation of `h` for some value `v`, later a `Notify(v)`, and in between
neither a `Deregister` of `h` nor an earlier `Wait` of `h` (which deregisters on return). -/
theorem C15_notifier (pre post : List Op) (h : Nat) (c : Ctx)
    (hok : (outs true init (pre ++ .wait h c :: post))[pre.length]? = some .ok) :
    NotifiedInWindow pre h := by
  rw [outs_append] at hok
  rw [List.getElem?_append_right (by rw [outs_length]; exact Nat.le_refl _)] at hok
  simp only [outs_length, Nat.sub_self, outs, List.getElem?_cons_zero, Option.some.injEq] at hok
  have hinv := inv_final pre inv_init
  have hhist := hist_final pre
  generalize final true init pre = s at hok hinv hhist
  simp only [step] at hok
  cases hl : s.ls[h]? with
  | none => simp [hl] at hok
  | some l =>
    cases hd : l.dereg with
    | true => simp [hl, hd] at hok
    | false =>
      simp only [hl, hd, Bool.false_eq_true] at hok
      by_cases hc : s.closed.contains l.chan = true
      · have hhit := hinv.closed_hit (List.mem_of_getElem? hl) hd hc
        exact (hhist.each h l hl).2 hhit
      · simp only [hc, if_false] at hok
        cases c <;> simp [ctxErr] at hok

/-- The defect of the original code (kept as a statement about the model of the old
`removeListener`): `Listener(7); Notify(7); Listener(7)#2; l1.Wait(); l2.Wait()` — the second
listener's Wait succeeds although no Notify happened after its creation.  The repaired model
answers `deadline`.  Replayed on the real code by the first corpus case of the `vn` section. -/
theorem C15_notifier_old_witness :
    outs false init [.listener 7, .notify 7, .listener 7, .wait 0 .timeout, .wait 1 .timeout]
      = [.handle 0, .done, .handle 1, .ok, .ok] ∧
    outs true init [.listener 7, .notify 7, .listener 7, .wait 0 .timeout, .wait 1 .timeout]
      = [.handle 0, .done, .handle 1, .ok, .deadline] := by
  decide

/-- Non-vacuity of `C15_notifier`: a history in which a Wait succeeds. -/
example : (outs true init ([.listener 3, .listener 3, .dereg 0, .notify 3] ++ .wait 1 .cancelled :: []))[4]? = some .ok := by
  decide

end notifier

/-! ## `Wait` racing `Deregister` / `Notify` (any interleaving) -/
section race
open Hive.NotifierRace

/-- **C15, notifier, concurrent.**  From the initial state with any number of other listeners on
the entry and any pool of concurrent `Wait` and `Deregister` callers of `L`, `Deregister` callers of
the other listeners (any number per listener — overlapping deregistrations of ONE listener included),
`Notify` callers and a context cancellation, in every reachable configuration: a `Wait` that
returns (or is about to return) success implies that a `Notify` closed the channel while the
listener's deregistered flag was still unset.  `removeListener` decrements the entry's count
unconditionally in the model as in the code; that a listener is removed once only is derived from
the atomic `Swap` (`C15_notifier_count_exact`). -/
theorem C15_notifier_wait_race (others : Nat) (ts ts' : List Th) (s : Sh)
    (hts : ∀ t ∈ ts, t.initial = true) (hr : Reach (sys true) (init others, ts) (s, ts'))
    (pc : DPc) (hw : Th.dr none (some .ok) pc ∈ ts') : s.inWindow = true := by
  have : CfgInv (s, ts') :=
    inv_induction CfgInv (cfgInv_init others ts hts) (fun a b ha hs => cfgInv_step ha hs) hr
  exact (this.2 _ hw).1 rfl

/-- **C15, notifier: the reference count is exact under any concurrency.**  Same pools of threads, every
reachable configuration: while the entry exists its count equals the number of listeners whose
`deregistered` flag is unset plus the number of `Deregister` callers that won the swap and have not
yet finished `removeListener`; and when the notify channel was closed without a Notify in `L`'s
window, `L`'s flag is set (the deregistration that brought the count to 0 found every flag set). -/
theorem C15_notifier_count_exact (others : Nat) (ts ts' : List Th) (s : Sh)
    (hts : ∀ t ∈ ts, t.initial = true) (hr : Reach (sys true) (init others, ts) (s, ts')) :
    (s.entry = true → s.count = unflagged s + ts'.countP mid) ∧
    (s.nchan = true → s.inWindow = false → s.flag = true) := by
  have : CfgInv (s, ts') :=
    inv_induction CfgInv (cfgInv_init others ts hts) (fun a b ha hs => cfgInv_step ha hs) hr
  exact ⟨this.1.count_exact, this.1.closed_flag⟩

/-- Non-vacuity of the hypotheses: two overlapping `Deregister` calls of the other listener, a
`Deregister` of `L`, a waiter, a notifier and a cancellation are all admissible initial threads. -/
example : ∀ t ∈ [Th.w0, .dr (some 0) none .swap, .dr (some 0) none .swap, .dr none none .swap, .nt false, .cx false],
    t.initial = true := by decide

/-- The theorem depends on the atomicity of the swap: with `Deregister` written as "check the flag
with a plain `Load`, `removeListener`, then `Swap`" (program counters `sload …`), two overlapping
`Deregister` calls of the ONE other listener both pass the check and both decrement: the count drops
2 → 0, the shared channel is closed, and `L` — registered, never deregistered, never notified — gets
success from `Wait`.  (Seeded change C15-r6-1; on the real code the `vx` stress section looks for it.) -/
theorem C15_notifier_double_deregister_witness :
    let c := runSched (sys true) (init 1, [.w0, .dr (some 0) none .sload, .dr (some 0) none .sload])
      [(1, 0), (2, 0), (1, 0), (2, 0), (0, 0), (0, 0), (0, 0)]
    c.2[0]? = some (.dr none (some .ok) .swap) ∧ c.1.inWindow = false ∧ c.1.flag = false := by
  decide

/-- The same schedule with the code's `Deregister` (atomic swap first): the second caller returns
at the swap, the count stays at 1, the channel stays open and the waiter stays blocked at its select. -/
example :
    let c := runSched (sys true) (init 1, [.w0, .dr (some 0) none .swap, .dr (some 0) none .swap])
      [(1, 0), (2, 0), (1, 0), (1, 0), (0, 0)]
    c.2[0]? = some .w1 ∧ c.2[2]? = some (.dr (some 0) none .fin) ∧ c.1.count = 1 ∧ c.1.nchan = false ∧ c.1.entry = true := by
  decide

/-- Second effect of the same variant: the sole listener's channel is closed by `removeListener`
before the flag is set, so a `Wait` racing the `Deregister` sees the closed channel with the flag
unset and returns success without any Notify. -/
theorem C15_notifier_split_deregister_wait_witness :
    let c := runSched (sys true) (init 0, [.w0, .dr none none .sload])
      [(0, 0), (1, 0), (1, 0), (0, 0), (0, 0)]
    c.2[0]? = some (.dr none (some .ok) .swap) ∧ c.1.inWindow = false := by
  decide

/-- The select race of the original `Wait` (no re-check after the notify channel was chosen):
`Deregister` completes, then `Notify` runs (another listener keeps the entry alive), then the
waiter — which passed its flag check before — selects the notify channel and returns success
although the Notify came after the deregistration.  Replayed on the real code through the `verif`
hook by the `vr o1 dereg notify` corpus case. -/
theorem C15_notifier_wait_race_old_witness :
    let c := runSched (sys false) (init 1, [.w0, .dr none none .swap, .nt false])
      [(0, 0), (1, 0), (1, 0), (1, 0), (2, 0), (0, 0)]
    c.2[0]? = some (.dr none (some .ok) .swap) ∧ c.1.inWindow = false := by
  decide

/-- The same schedule on the repaired model ends in `ErrListenerDeregistered`. -/
example :
    let c := runSched (sys true) (init 1, [.w0, .dr none none .swap, .nt false])
      [(0, 0), (1, 0), (1, 0), (1, 0), (2, 0), (0, 0), (0, 0)]
    c.2[0]? = some (.dr none (some .dereg) .swap) := by
  decide

/-- Non-vacuity: a schedule in which Wait legitimately succeeds. -/
example :
    let c := runSched (sys true) (init 0, [.w0, .nt false]) [(0, 0), (1, 0), (0, 0), (0, 0)]
    c.2[0]? = some (.dr none (some .ok) .swap) ∧ c.1.inWindow = true := by
  decide

/-- The forced schedules of the `vr` section as the model judges them (the last other listener's
deregistration closes the notify channel only when `L` is deregistered too). -/
example : admitted true 2 [.odereg, .odereg, .cancel] = [.ctx] ∧
    admitted true 1 [.dereg, .odereg] = [.dereg, .dereg] ∧
    admitted true 1 [.dereg, .notify] = [.dereg, .dereg] ∧
    admitted true 0 [.notify, .dereg] = [.dereg, .dereg] ∧ admitted true 0 [.notify] = [.ok] := by
  decide

end race

/-! ## the whole notifier under any concurrency -/
section notifierconc
open Hive.NotifierConc

/-- **C15, notifier, full concurrency.**  Any number of values, any number of listener generations per value, any pool
of concurrent `Listener(value)`, `Notify(value)`, `Deregister` and `Wait` callers (the context of a Wait may be done at
any time), any interleaving: a `Wait` of listener `i` that returns (or is about to return) success implies that the
listener exists and is marked `hit` — and (`C15_notifier_concurrent_hit`) `hit` is set only by the write-locked part of
a `Notify` for the listener's own value, executed while the listener exists and its `deregistered` flag is unset: Notify
for its value was called after the listener was created and before it was deregistered.  This covers what the two other
notifier theorems leave open between them: listener creation racing the last deregistration or `Notify`, and several
generations of one value at once. -/
theorem C15_notifier_concurrent (ts ts' : List Th) (s : Sh) (hts : ∀ t ∈ ts, t.initial = true)
    (hr : Reach sys (init, ts) (s, ts')) (i : Nat) (pc : DPc) (hw : Th.dr i (some .ok) pc ∈ ts') :
    ∃ l, s.ls[i]? = some l ∧ l.hit = true := by
  have : CfgInv (s, ts') :=
    inv_induction CfgInv (cfgInv_init ts hts) (fun a b ha hs => cfgInv_step ha hs) hr
  exact (this.2 _ hw).1 rfl

/-- The meaning of the ghost `hit` (every transition from a reachable configuration): a listener's `hit` becomes true
only in the write-locked part of `Notify(v)` with `v` the listener's value, the listener existing before that step with
its `deregistered` flag unset.  Also part of the invariant: the reference count of every current entry is exact. -/
theorem C15_notifier_concurrent_hit (ts ts' ts'' : List Th) (s s' : Sh) (hts : ∀ t ∈ ts, t.initial = true)
    (hr : Reach sys (init, ts) (s, ts')) (hstep : Step sys (s, ts') (s', ts''))
    (i : Nat) (l' : Lst) (hi : s'.ls[i]? = some l') (hh : l'.hit = true) :
    (∃ l, s.ls[i]? = some l ∧ l.hit = true) ∨
    (∃ l v, Th.ntLock v ∈ ts' ∧ s.ls[i]? = some l ∧ l.value = v ∧ l.flag = false) := by
  have hinv : CfgInv (s, ts') :=
    inv_induction CfgInv (cfgInv_init ts hts) (fun a b ha hs => cfgInv_step ha hs) hr
  generalize ha : (s, ts') = a at hstep
  generalize hb : (s', ts'') = b at hstep
  cases hstep with
  | mk s0 pre t post s1 t1 hm =>
    cases ha; cases hb
    rcases hit_sound hinv.1 hm hi hh with h | ⟨l, v, rfl, h2, h3, h4⟩
    · exact Or.inl h
    · exact Or.inr ⟨l, v, by simp, h2, h3, h4⟩

/-- Non-vacuity and the re-used key: listener 0 of value 7 is notified and waits successfully; listener 1 (a second
generation of the same value) is created afterwards, is not hit, and the deregistration of listener 0 — which looks the
entry up by value — leaves its channel alone. -/
example :
    let c := runSched sys (init, [.mk 7 false, .ntCheck 7, .w0 0, .mk 7 false, .w0 1])
      [(0, 0), (1, 0), (1, 0), (3, 0), (2, 0), (2, 0), (2, 0), (2, 0), (2, 0), (2, 0), (4, 0)]
    c.2[2]? = some (.dr 0 (some .ok) .fin) ∧ c.1.ls.map (·.hit) = [true, false] ∧ c.1.closed = [0] ∧
    c.1.cur = [(7, 1)] ∧ c.1.counts = [1, 1] := by
  decide

/-- The theorem depends on `Listener(v)` doing its lookup inside the write-locked section: with the lookup made under the
read lock and used after taking the write lock (`ThS.mkStale`; seeded change C15-r4-2), the last deregistration can
close and delete the entry in between, the new listener joins the closed channel, and its `Wait` succeeds although
`Notify` was never called (`hit` is false; nothing was notified at all). -/
theorem C15_notifier_stale_listener_witness :
    let c := runSched sysS (init, [.base (.mk 7 false), .mkStale 7 none, .base (.dr 0 none .swap), .base (.w0 1)])
      [(0, 0), (1, 0), (2, 0), (2, 0), (2, 0), (1, 0), (3, 0), (3, 0), (3, 0)]
    c.2[3]? = some (.base (.dr 1 (some .ok) .swap)) ∧ c.1.ls.map (·.hit) = [false, false] ∧ c.1.closed = [0] := by
  decide

end notifierconc

/-! ## promise events -/
section promise
open Hive.Promise

/-- **C15, promise events (any interleaving).**  Any number of concurrent `OnTrigger` callers with
pairwise different callbacks, `Trigger` callers and unsubscribers:
* no callback ever runs twice;
* every invocation carries the argument of the one `Trigger` call that won;
* once all callers have returned and the event was triggered, every registered callback has run
  exactly once — whether its registration came before, during (while the winner was still invoking
  the collected callbacks) or after `Trigger` — except those that an unsubscribe removed from the
  collection before the trigger, which never run. -/
theorem C15_promise_once (ts ts' : List Th) (s : Sh)
    (hts : ∀ t ∈ ts, t.initial = true) (hdist : ∀ k, tot (isReg k) ts ≤ 1)
    (hr : Reach sys (init', ts) (s, ts')) :
    (∀ k, called s k ≤ 1) ∧
    (∀ x ∈ s.log, s.value = some x.2) ∧
    ((∀ t ∈ ts', t.finished = true) → s.value.isSome = true →
      ∀ k, Th.regDone k ∈ ts' → called s k + s.removed.count k = 1) := by
  have hinv : Inv (s, ts') := inv_induction Inv (inv_init ts hts) (fun a b ha hs => inv_step ha hs) hr
  have hreg : ∀ k, tot (isReg k) ts' = tot (isReg k) ts := by
    intro k
    exact inv_induction (fun c => tot (isReg k) c.2 = tot (isReg k) ts) rfl
      (fun a b ha hs => by rw [isReg_step hs k]; exact ha) hr
  refine ⟨?_, hinv.val.log_val, ?_⟩
  · intro k
    have h1 := hinv.count k
    have h2 := started_le_isReg k ts'
    have h3 := hreg k
    have h4 := hdist k
    simp only [bal] at h1
    omega
  · intro hfin htrig k hk
    have h1 := hinv.count k
    have hnil : s.cbs = none := hinv.val.val_nil htrig
    have howes : tot (owes k) ts' = 0 := by
      apply tot_eq_zero
      intro t ht
      have := hfin t ht
      cases t <;> simp_all [Th.finished, owes]
    have hge : 1 ≤ tot (started k) ts' := by
      obtain ⟨pre, post, rfl⟩ := List.append_of_mem hk
      rw [tot_mid]; simp [started]; omega
    have h2 := started_le_isReg k ts'
    have h3 := hreg k
    have h4 := hdist k
    simp only [bal, inCb, hnil] at h1
    omega

/-- Non-vacuity: registration before, during and after Trigger on one schedule; every callback ran
once with the winner's argument. -/
example :
    let c := runSched sys (init', [.reg 1, .trig 7, .reg 2, .reg 3, .trig 8])
      [(0, 0), (1, 0), (2, 0), (1, 0), (2, 0), (4, 0), (1, 0), (3, 0), (3, 0)]
    c.1.log = [(3, 7), (2, 7), (1, 7)] ∧ c.2 = [.regDone 1, .trigDone true, .regDone 2, .regDone 3, .trigDone false] := by
  decide

end promise

/-! ## WithMaxTriggerCount under concurrency -/
section maxcount
open Hive.EventsMax

/-- **C15, max trigger count (any interleaving, any number of concurrent `Trigger` callers).**
When all callers have returned, the event has let exactly `min(n, number of Trigger calls)` of them
through and the hook has been invoked exactly `min(m, that number)` times (limit 0 = unlimited). -/
theorem C15_max_trigger_count (n m : Nat) (ts ts' : List Th) (s : Sh)
    (hts : ∀ t ∈ ts, t = .t0) (hr : Reach sys (init n m, ts) (s, ts')) (hfin : ∀ t ∈ ts', t = .fin) :
    s.passed = minLim n ts.length ∧ s.fired = minLim m s.passed := by
  have hinv : Inv (s, ts') := inv_induction Inv (inv_init n m ts hts) (fun a b ha hs => inv_step ha hs) hr
  have hlim : s.n = n ∧ s.m = m :=
    inv_induction (fun c => c.1.n = n ∧ c.1.m = m) ⟨rfl, rfl⟩
      (fun a b ha hs => by obtain ⟨h1, h2⟩ := lim_step hs; rw [h1, h2]; exact ha) hr
  have hlen : ts'.length = ts.length :=
    inv_induction (fun c => c.2.length = ts.length) rfl (fun a b ha hs => by rw [step_length hs]; exact ha) hr
  have hz : ∀ x : Th, x ≠ .fin → ts'.countP (isT x) = 0 := by
    intro x hx
    rw [List.countP_eq_zero]
    intro t ht; rw [hfin t ht]; simp [isT]; exact fun h => hx h.symm
  have hall : ts'.countP notT0 = ts'.length := by
    rw [List.countP_eq_length]
    intro t ht; rw [hfin t ht]; rfl
  obtain ⟨h1, h2, h3, h4, h5, h6⟩ := hinv
  simp only at h1 h2 h3 h4 h5 h6
  rw [hz .t4 (by decide)] at h3
  rw [hz .t1 (by decide), hz .t2 (by decide)] at h4
  rw [hz .t3 (by decide)] at h5
  rw [hlim.1] at h2
  rw [hlim.2] at h3 h5
  rw [hall, hlen] at h1
  refine ⟨by rw [h2, h1], ?_⟩
  by_cases hsk : 0 < s.skipped
  · have hg := h5 (Or.inr (h6 hsk))
    simp only [minLim, hg.1, if_false] at h3 ⊢
    omega
  · have : s.skipped = 0 := by omega
    have hp : s.passed = s.hc := by omega
    rw [hp]; omega

/-- The hook never fires more often than its limit, at any time. -/
theorem C15_max_trigger_count_never_more (n m : Nat) (ts ts' : List Th) (s : Sh)
    (hts : ∀ t ∈ ts, t = .t0) (hr : Reach sys (init n m, ts) (s, ts')) (hm : m ≠ 0) : s.fired ≤ m := by
  have hinv : Inv (s, ts') := inv_induction Inv (inv_init n m ts hts) (fun a b ha hs => inv_step ha hs) hr
  have hlim : s.n = n ∧ s.m = m :=
    inv_induction (fun c => c.1.n = n ∧ c.1.m = m) ⟨rfl, rfl⟩
      (fun a b ha hs => by obtain ⟨h1, h2⟩ := lim_step hs; rw [h1, h2]; exact ha) hr
  have h3 := hinv.fired
  simp only [hlim.2, minLim, hm, if_false] at h3
  omega

/-- Non-vacuity: three concurrent callers, event limit 2, hook limit 1, one interleaving. -/
example :
    let c := runSched sys (init 2 1, [.t0, .t0, .t0])
      [(0, 0), (1, 0), (2, 0), (1, 0), (0, 0), (1, 0), (0, 0), (0, 0), (1, 0)]
    c.2 = [.fin, .fin, .fin] ∧ c.1.passed = 2 ∧ c.1.fired = 1 ∧ c.1.attached = false := by
  decide

end maxcount

/-! ## WithMaxTriggerCount with several hooks under concurrency -/
section maxcountN
open Hive.EventsMaxN
open Hive.EventsMax (minLim)

/-- **C15, max trigger count with any number of hooks (any interleaving, any number of concurrent
`Trigger` callers).**  The event has limit `n`, hook `i` has its own limit `ms[i]` (0 = unlimited).
When all callers have returned, the event has let exactly `min(n, calls)` of them through and every
hook has been invoked exactly `min(ms[i], that number)` times. -/
theorem C15_max_trigger_count_hooks (n : Nat) (ms : List Nat) (ts ts' : List Th) (s : Sh)
    (hts : ∀ t ∈ ts, t = .t0) (hr : Reach sys (init n ms, ts) (s, ts')) (hfin : ∀ t ∈ ts', t = .fin) :
    s.passed = minLim n ts.length ∧ s.hooks.map (·.m) = ms ∧
    ∀ (i : Nat) (hk : HSt), s.hooks[i]? = some hk → hk.fired = minLim hk.m s.passed := by
  have hall : Inv (s, ts') ∧ s.n = n ∧ s.hooks.map (·.m) = ms :=
    inv_induction (fun c => Inv c ∧ c.1.n = n ∧ c.1.hooks.map (·.m) = ms)
      ⟨inv_init n ms ts hts, rfl, by simp [init, Function.comp_def]⟩
      (fun a b ha hs => by
        obtain ⟨h1, h2⟩ := lim_step ha.1 hs
        exact ⟨inv_step ha.1 hs, by rw [h1]; exact ha.2.1, by rw [h2]; exact ha.2.2⟩) hr
  obtain ⟨hinv, hn, hms⟩ := hall
  have hlen : ts'.length = ts.length :=
    inv_induction (fun c => c.2.length = ts.length) rfl (fun a b ha hs => by rw [step_length hs]; exact ha) hr
  have hz : ∀ p : Th → Bool, p .fin = false → ts'.countP p = 0 := by
    intro p hp
    rw [List.countP_eq_zero]
    intro t ht; rw [hfin t ht, hp]; simp
  have hec : s.ec = ts.length := by
    have := hinv.ec
    simp only at this
    rw [this, ← hlen, List.countP_eq_length]
    intro t ht; rw [hfin t ht]; rfl
  have hp : s.passed = minLim n ts.length := by
    have := hinv.passed
    simp only at this
    rw [this, hn, hec]
  refine ⟨hp, hms, ?_⟩
  intro i hk hi
  obtain ⟨h1, h2, h3, h4⟩ := hinv.hooks i hk hi
  simp only at h1 h2 h3
  rw [hz (atCall i) rfl] at h1
  rw [hz (pending i) rfl] at h2
  rw [hz (atUnhook i) rfl] at h3
  by_cases hsk : 0 < hk.skipped
  · have hg := h3 (Or.inr (h4 hsk))
    simp only [minLim, hg.1, if_false] at h1 ⊢
    omega
  · have : hk.skipped = 0 := by omega
    have hpc : s.passed = hk.hc := by omega
    rw [hpc]; omega

/-- Non-vacuity: two callers, event limit 0, hooks limited to 1 and unlimited. -/
example :
    let c := runSched sys (init 0 [1, 0], [.t0, .t0])
      [(0, 0), (1, 0), (0, 0), (1, 0), (0, 0), (1, 0), (1, 0), (0, 0), (0, 0), (0, 0), (0, 0), (1, 0), (1, 0), (1, 0)]
    c.2 = [.fin, .fin] ∧ c.1.passed = 2 ∧ c.1.hooks.map (fun h => (h.m, h.hc, h.fired, h.attached)) =
      [(1, 2, 1, false), (0, 2, 2, true)] := by
  decide

end maxcountN

/-! ## iteration of `Trigger` under concurrent `Hook` / `Unhook` -/
section iter
open Hive.EventsIter

/-- **C15, weak iteration (any interleaving).**  Start from a registry nobody iterates, any pool of
iterating `Trigger` callers, `Hook` callers and `Unhook` callers.  Let `P` be hooks that are
attached at the start and that nobody unhooks.  In every reachable configuration, for every
iterator: the hooks it has invoked so far are in strictly increasing id order (attachment order, no
hook twice), exist, and when it has finished every hook of `P` has been invoked — hence exactly
once. -/
theorem C15_weak_iteration (P : List Nat) (r r' : Reg) (ts ts' : List Th)
    (hwf : r.WF) (hP : ∀ p ∈ P, p ∈ r.live) (hts : ∀ t ∈ ts, t.initial = true)
    (hdel : ∀ x b, Th.del x b ∈ ts → x ∉ P) (hr : Reach sys (r, ts) (r', ts')) :
    ∀ pc vs, Th.it pc vs ∈ ts' →
      vs.Pairwise (· < ·) ∧ (∀ v ∈ vs, v ≤ r'.counter) ∧ (pc = .fin → ∀ p ∈ P, vs.count p = 1) := by
  have hinv : CfgInv P (r', ts') :=
    inv_induction (CfgInv P) (cfgInv_init hwf hP hts hdel) (fun a b ha hs => cfgInv_step ha hs) hr
  intro pc vs hm
  obtain ⟨h1, h2, h3⟩ := hinv.2 _ hm
  refine ⟨h1, h2, ?_⟩
  intro hpc p hp
  subst hpc
  exact count_one_of_pairwise_lt h1 (h3 p hp)

/-- Non-vacuity of the hypotheses of `C15_weak_iteration`: a well-formed registry, protected hooks
1 and 4, unhookers only for 2 and 3. -/
example :
    let r0 : Reg := { live := [1, 2, 3, 4], frozen := [], counter := 4 }
    r0.WF ∧ (∀ p ∈ [1, 4], p ∈ r0.live) ∧
    (∀ t ∈ [Th.it .start [], .del 2 false, .del 3 false, .att false], t.initial = true) := by
  refine ⟨⟨by decide, by decide, rfl⟩, by decide, by decide⟩

/-- Non-vacuity and the frozen-pointer case: the iterator stands on hook 2 while hooks 2 and 3 are
unhooked and hook 5 is attached; it continues through the removed hook 3 and reaches hook 4. -/
example :
    let r0 : Reg := { live := [1, 2, 3, 4], frozen := [], counter := 4 }
    let c := runSched sys (r0, [.it .start [], .del 2 false, .del 3 false, .att false])
      [(0, 0), (0, 0), (0, 0), (0, 0), (1, 0), (2, 0), (3, 0), (0, 0), (0, 0), (0, 0), (0, 0), (0, 0), (0, 0), (0, 0), (0, 0)]
    c.2[0]? = some (.it .fin [1, 2, 3, 4, 5]) := by
  decide

end iter

/-! ## Regenerated tie: the synchronisation skeletons the protocol models were written against

`Hive/Gen/C15_Skel.lean` is regenerated from the working tree on every run; a change of the lock /
atomic / channel / select structure of these functions breaks these obligations. -/
section orderedmap
open Hive.EventsOMap

/-- **C15, the hook registry's data structure (all histories of `Set` / `Delete` / `Clear` on the
pointer-level model of `orderedmap.OrderedMap`).**  After any history there is a list `as` of pairwise
different element addresses such that `head` / `tail` are its ends, every element's `next` / `prev` is
its successor / predecessor in `as`, the dictionary maps exactly the keys of these elements to them and
`size` is its length (`WF`).  This is the list a quiescent `ForEach` walks (attachment order of the hooks),
and the structure `Hive/Model/EventsIter.lean` abstracts (`live`). -/
theorem C15_orderedmap_wellformed (ops : List Op) : ∃ as, WF (run ops) as := WF_run ops

/-- **C15, frozen pointers (all histories, any next operation).**  (1) An operation never writes to an
allocated element that is not in the list: the `next` / `prev` / `key` of every removed element stay what
they were — an iterator standing on an unhooked hook's element continues from the pointer the element had
when it was removed.  (2) At the moment of its removal the element's `next` / `prev` are its neighbours in
the list of that moment and `Delete` leaves them in place.  Together with `WF.next` these are exactly the
three modelling assumptions of the abstract registry (`EventsIter.next`, `EventsIter.delete`). -/
theorem C15_orderedmap_frozen_pointers (ops : List Op) :
    ∃ as, WF (run ops) as ∧
      (∀ (op : Op) (b : Nat), b ∉ as → b < (run ops).heap.length →
        nextOf (apply (run ops) op) b = nextOf (run ops) b ∧ prevOf (apply (run ops) op) b = prevOf (run ops) b ∧
        keyOf (apply (run ops) op) b = keyOf (run ops) b) ∧
      (∀ k a, lookup (run ops) k = some a →
        nextOf (delete (run ops) k).1 a = succ as a ∧ prevOf (delete (run ops) k).1 a = pred as a) := by
  obtain ⟨as, h⟩ := WF_run ops
  exact ⟨as, h, fun op b hb hlt => frozen_apply h op hb hlt, fun k a hl => removed_keeps h hl⟩

/-- **C15, queries (all histories).**  `Has(k)` holds iff an element of the list carries key `k` (and
then exactly one does, the one the dictionary returns); `Size` is the length of the list; a `Delete`
answers whether the key was present; keys of list elements are pairwise different. -/
theorem C15_orderedmap_queries (ops : List Op) :
    ∃ as, WF (run ops) as ∧ (run ops).size = as.length ∧
      (∀ k, has (run ops) k = true ↔ ∃ a ∈ as, keyOf (run ops) a = some k) ∧
      (∀ a ∈ as, ∀ b ∈ as, keyOf (run ops) a = keyOf (run ops) b → a = b) ∧
      (∀ k, (delete (run ops) k).2 = has (run ops) k) := by
  obtain ⟨as, h⟩ := WF_run ops
  refine ⟨as, h, h.size, ?_, ?_, ?_⟩
  · intro k
    unfold has
    constructor
    · intro hk
      cases hl : lookup (run ops) k with
      | none => simp [hl] at hk
      | some a => exact ⟨a, (h.dsound k a hl).1, (h.dsound k a hl).2⟩
    · rintro ⟨a, ha, hka⟩
      obtain ⟨k', hk1, hk2⟩ := h.dcompl a ha
      rw [hka] at hk1
      cases hk1
      simp [hk2]
  · intro a ha b hb hab
    obtain ⟨k1, hk1, hl1⟩ := h.dcompl a ha
    obtain ⟨k2, hk2, hl2⟩ := h.dcompl b hb
    rw [hk1, hk2] at hab
    cases hab
    rw [hl1] at hl2
    exact Option.some.inj hl2
  · intro k
    unfold has
    cases hl : lookup (run ops) k with
    | none => simp [delete_absent hl]
    | some a =>
      obtain ⟨e, he⟩ := getElem_of_bound (h.bound a (h.dsound k a hl).1)
      simp [delete_eq hl he]

/-- **C15, attachment order (all histories).**  Following `next` from `head` — what `Clone` does, and what
`ForEach` (so `Trigger`) does when nobody writes meanwhile — visits exactly the elements of the list, each
once, in list order; with hook ids from the atomic counter appended at the tail this is attachment order. -/
theorem C15_orderedmap_walk (ops : List Op) :
    ∃ as, WF (run ops) as ∧ ∀ fuel, as.length < fuel → walk (run ops) fuel (run ops).head = as := by
  obtain ⟨as, h⟩ := WF_run ops
  exact ⟨as, h, fun fuel hf => walk_list h fuel hf⟩

/-- Non-vacuity: three entries, the middle one is deleted — the list is `[0, 2]`, element `1` is
allocated but outside the list (the hypotheses of the frozen-pointer clause), and it still points to
element `2`. -/
example : WF (run [.set 5 50, .set 6 60, .set 7 70, .delete 6]) [0, 2] ∧ (1 ∉ [0, 2]) ∧
    1 < (run [.set 5 50, .set 6 60, .set 7 70, .delete 6]).heap.length ∧
    nextOf (run [.set 5 50, .set 6 60, .set 7 70, .delete 6]) 1 = some 2 ∧
    nextOf (run [.set 5 50, .set 6 60, .set 7 70, .delete 6]) 0 = some 2 :=
  ⟨WF_apply (WF_apply (WF_apply (WF_apply WF_empty (.set 5 50)) (.set 6 60)) (.set 7 70)) (.delete 6),
    by decide, by decide, by decide, by decide⟩

end orderedmap

/-! ## pooled hooks: "by the time the pool has drained" -/
section pool
open Hive.EventsPool

/-- **C15, pooled hooks (any interleaving of submitting `Trigger`s and pool workers).**  Any number of `Trigger` calls
submit their pooled invocations (task ids, in attachment order) to a pool with any number of workers; every `Submit`
increases the pending-tasks counter, every finished task decreases it.  In every reachable configuration
* no invocation has been executed more often than it was submitted, and nothing is submitted that a trigger did not
  have to submit;
* when the counter is 0 (`PendingTasksCounter.WaitIsZero()` returns: the pool has drained) the executed invocations are
  a permutation of the submitted ones — the hypothesis of `C15_pooled_exactly_once` —;
* when moreover every `Trigger` has returned, every invocation was executed exactly as often as the triggers had to
  submit it (once for the pairwise different invocations of one trigger). -/
theorem C15_pooled_drained (ts ts' : List Th) (s : Sh) (hts : ∀ t ∈ ts, t.initial = true)
    (hr : Reach sys (init, ts) (s, ts')) :
    (∀ t, s.executed.count t ≤ s.submitted.count t ∧ s.submitted.count t ≤ sumOf (todo t) ts) ∧
    (s.pending = 0 → s.executed.Perm s.submitted) ∧
    (s.pending = 0 → (∀ l, Th.sub l ∈ ts' → l = []) → ∀ t, s.executed.count t = sumOf (todo t) ts) := by
  have hinv : Inv (fun t => sumOf (todo t) ts) (s, ts') :=
    inv_induction (Inv _) (inv_init ts hts) (fun a b ha hs => inv_step ha hs) hr
  have hdrained : s.pending = 0 → ∀ t, s.executed.count t = s.submitted.count t := by
    intro hp t
    have h1 := hinv.pend
    have h2 := hinv.cons t
    have h3 := sumOf_le (hold_le_busy t) ts'
    simp only at h1 h2
    have hq : s.queue = [] := by
      have : s.queue.length = 0 := by omega
      exact List.length_eq_zero_iff.mp this
    rw [hq] at h2
    simp only [List.count_nil] at h2
    omega
  refine ⟨?_, ?_, ?_⟩
  · intro t
    have h2 := hinv.cons t
    have h3 := hinv.subm t
    simp only at h2 h3
    constructor <;> omega
  · intro hp
    exact List.perm_iff_count.mpr (hdrained hp)
  · intro hp hfin t
    have h3 := hinv.subm t
    have hz : sumOf (todo t) ts' = 0 := sumOf_zero (fun th hth => by
      cases th with
      | sub l => rw [hfin l hth]; simp [todo]
      | _ => simp [todo])
    simp only at h3
    rw [hdrained hp t]; omega

/-- Non-vacuity: one trigger with the pooled invocations 0, 1, 2, two workers; a schedule in which the pool has
drained: everything ran exactly once, in an order that differs from the submission order. -/
example :
    let c := runSched sys (init, [.sub [0, 1, 2], .idle, .idle])
      [(0, 0), (0, 0), (1, 0), (2, 0), (2, 0), (1, 0), (0, 0), (1, 0), (2, 0), (1, 0), (1, 0), (1, 0)]
    c.1.pending = 0 ∧ c.1.executed = [1, 0, 2] ∧ c.1.submitted = [0, 1, 2] ∧ c.2 = [.sub [], .idle, .idle] := by
  decide

end pool

section pooldrained
open Hive.Events Hive.EventsPool

/-- **C15, pooled hooks, composed with the pool model.**  The hypothesis of `C15_pooled_exactly_once` ("the pools run every
submitted task exactly once") discharged for the pool model: `Trigger(e, a)` submits its pooled invocations (task `i` =
the `i`-th pooled entry of its log) to a pool with any number of workers, any interleaving; once the trigger has returned
and the pending-tasks counter is 0 (the pool has drained), every pooled invocation of the trigger has been executed
exactly once and nothing else has. -/
theorem C15_pooled_exactly_once_drained (pre : List Op) (e a : Nat) (hnl : noLink pre)
    (he : e < (final init pre).evs.length) (cs : List Call)
    (hcs : (step (final init pre) (.trigger e a)).2 = .calls cs)
    (ws ts' : List Th) (hws : ∀ t ∈ ws, t = Th.idle) (s : Sh)
    (hr : Reach EventsPool.sys (EventsPool.init, Th.sub (List.range (cs.filter (·.pooled)).length) :: ws) (s, ts'))
    (hdrained : s.pending = 0) (hret : ∀ l, Th.sub l ∈ ts' → l = []) :
    let executed := s.executed.filterMap (fun i => (cs.filter (·.pooled))[i]?)
    (∀ c ∈ cs, c.kind = .call → c.pooled = true → executed.count c = 1) ∧
    (∀ c ∈ executed, c ∈ cs ∧ c.pooled = true) := by
  intro executed
  have hts : ∀ t ∈ Th.sub (List.range (cs.filter (·.pooled)).length) :: ws, t.initial = true := by
    intro t ht
    rcases List.mem_cons.mp ht with rfl | ht
    · rfl
    · rw [hws t ht]; rfl
  have hcount := (C15_pooled_drained _ ts' s hts hr).2.2 hdrained hret
  have hperm : s.executed.Perm (List.range (cs.filter (·.pooled)).length) := by
    apply List.perm_iff_count.mpr
    intro t
    rw [hcount t]
    have hz : sumOf (todo t) ws = 0 := sumOf_zero (fun th hth => by rw [hws th hth]; rfl)
    simp only [sumOf, List.map_cons, List.sum_cons] at hz ⊢
    simp only [todo]
    omega
  have hcons : executed.Perm (cs.filter (·.pooled)) := by
    have := hperm.filterMap (fun i => (cs.filter (·.pooled))[i]?)
    rw [range_filterMap_getElem?] at this
    exact this
  exact C15_pooled_exactly_once pre e a hnl he cs executed hcs hcons
end pooldrained

/-! ## the ordered map as `Hook` / `Unhook` use it refines the abstract registry (one simulation) -/
section regsim
open Hive.EventsRegSim Hive.EventsOMap

/-- **C15, registry refinement (all histories).**  Run any history of `Hook` (= `hooksCounter.Add(1)`; `Set(id, hook)`)
and `Unhook` (= `Delete(id)`, any ids, any number of times) on the pointer-level ordered map *and* on the abstract
registry of `C15_weak_iteration` / `C15_link_concurrent`.  Then the two states simulate each other, element at address
`a` ↔ hook id `a + 1`:
* the counters agree and every `Set` allocated (`counter = number of elements ever allocated`);
* following `next` from `head` visits exactly the live ids, in order; `head` is the first live id; `Has(id)` iff live;
* **every read an iterating `Trigger` can make agrees**: the element at any allocated address — in the list or removed
  from it — carries the id `a + 1`, and its `next` pointer is the abstract `next` (live: the next live id; removed: the
  successor frozen at removal).
Hence the iterator threads of the abstract `Sys` (read `live.head?`, read `next r x`) are exactly the pointer reads of
`ForEach` on the code-level structure: the three facts `C15_orderedmap_wellformed` / `_frozen_pointers` / `_walk` as one
simulation between the two machines. -/
theorem C15_registry_simulation (ops : List ROp) :
    let s := runCode ops
    let r := runReg ops
    r.counter = s.c ∧ s.c = s.m.heap.length ∧
    (∀ fuel, r.live.length < fuel → (walk s.m fuel s.m.head).map (· + 1) = r.live) ∧
    s.m.head.map (· + 1) = r.live.head? ∧
    (∀ x, r.live.contains x = has s.m x) ∧
    (∀ a, a < s.m.heap.length →
      keyOf s.m a = some (a + 1) ∧ (nextOf s.m a).map (· + 1) = Hive.EventsIter.next r (a + 1)) := by
  obtain ⟨as, h, hfull⟩ := sim_run ops
  refine ⟨h.cnt, h.len, fun fuel hf => h.walk_eq fuel hf, h.head_eq, h.contains_iff,
    fun a ha => ⟨h.keys a ha, h.next_eq ha ?_⟩⟩
  by_cases hm : a ∈ as
  · left; rw [← h.live]; exact mem_map_succ.mpr hm
  · right; exact hfull a ha hm

/-- One step of the simulation, for any related pair of states (the induction step of the theorem above, usable from
any reachable state — e.g. between two steps of an iterator). -/
theorem C15_registry_simulation_step {s : Code} {r : Hive.EventsIter.Reg} {as : List Nat} (h : Sim s r as) (op : ROp) :
    ∃ as', Sim (codeStep s op) (regStep r op) as' := by
  cases op with
  | attach v => exact ⟨_, sim_attach h v⟩
  | delete x => exact sim_delete h x

/-- Non-vacuity: hooks 1, 2, 3 attached, hook 2 unhooked (twice), hook 4 attached — live ids `[1, 3, 4]`; the removed
element (address 1) still points to address 2 = id 3 on both levels. -/
example :
    let ops : List ROp := [.attach 10, .attach 20, .attach 30, .delete 2, .delete 2, .attach 40, .delete 9]
    (runReg ops).live = [1, 3, 4] ∧ nextOf (runCode ops).m 1 = some 2 ∧ Hive.EventsIter.next (runReg ops) 2 = some 3 ∧
    (walk (runCode ops).m 9 (runCode ops).m.head) = [0, 2, 3] := by
  decide

/-- **C15, weak iteration on the code-level ordered map (any interleaving).**  Start from the map + hook counter
after any history of `Hook` / `Unhook` (nobody iterating yet), with any pool of iterating `Trigger` callers — each reads
`head`, hands the key of the element it stands on to the consumer, then reads that element's `next` pointer, whether the
element is still in the list or has been removed meanwhile —, `Hook` callers (`hooksCounter.Add(1)`; `Set`) and `Unhook`
callers (`Delete`), all on the **pointer-level** structure.  For hooks `P` that are attached at the start and that nobody
unhooks: in every reachable configuration every iterator has invoked hook ids in strictly increasing order (attachment
order, nobody twice), only ids that were handed out, and a finished iterator has invoked every hook of `P` exactly once.
Proof: step-by-step simulation by the abstract system (`reach_sim`) and `C15_weak_iteration`. -/
theorem C15_weak_iteration_code (P : List Nat) (ops : List ROp) (ts ts' : List CTh) (s' : Code)
    (hP : ∀ p ∈ P, has (runCode ops).m p = true) (hts : ∀ t ∈ ts, t.initial = true)
    (hdel : ∀ x b, CTh.del x b ∈ ts → x ∉ P) (hr : Reach csys (runCode ops, ts) (s', ts')) :
    ∀ pc vs, CTh.it pc vs ∈ ts' →
      vs.Pairwise (· < ·) ∧ (∀ v ∈ vs, v ≤ s'.c) ∧ (pc = .fin → ∀ p ∈ P, vs.count p = 1) := by
  obtain ⟨as, h, _⟩ := sim_run ops
  have h0 := h.forget
  have hwf : Hive.EventsIter.Reg.WF { runReg ops with frozen := [] } := ⟨h.sorted, h.live_le, rfl⟩
  have hP' : ∀ p ∈ P, p ∈ ({ runReg ops with frozen := [] } : Hive.EventsIter.Reg).live := by
    intro p hp
    have := hP p hp
    rw [← h.contains_iff] at this
    simpa using this
  have hts' : ∀ t ∈ ts.map absTh, t.initial = true := by
    intro t ht
    obtain ⟨t0, ht0, rfl⟩ := List.mem_map.mp ht
    exact initial_abs (hts t0 ht0)
  have hdel' : ∀ x b, Hive.EventsIter.Th.del x b ∈ ts.map absTh → x ∉ P := by
    intro x b ht
    obtain ⟨t0, ht0, he⟩ := List.mem_map.mp ht
    cases t0 with
    | it pc vs => simp [absTh] at he
    | att v d => simp [absTh] at he
    | del y d =>
      simp only [absTh, Hive.EventsIter.Th.del.injEq] at he
      obtain ⟨rfl, rfl⟩ := he
      exact hdel _ _ ht0
  have hinv0 := Hive.EventsIter.cfgInv_init (P := P) hwf hP' hts' hdel'
  obtain ⟨r, as', hreach, hsim⟩ := reach_sim h0 hinv0 hr
  intro pc vs hm
  have hm' : Hive.EventsIter.Th.it (absPc pc) vs ∈ ts'.map absTh := List.mem_map.mpr ⟨_, hm, rfl⟩
  obtain ⟨h1, h2, h3⟩ := C15_weak_iteration P _ r _ _ hwf hP' hts' hdel' hreach (absPc pc) vs hm'
  refine ⟨h1, ?_, ?_⟩
  · intro v hv; have := h2 v hv; rw [hsim.cnt] at this; exact this
  · intro hpc; subst hpc; exact h3 rfl

/-- Non-vacuity: after `Hook; Hook; Hook; Hook` the ids 1 and 4 are attached and protected; an iterator, two unhookers
(of 2 and 3) and a hooker are admissible threads; and one schedule on the pointer-level structure: the iterator stands on
element 1 (id 2) while ids 2 and 3 are unhooked and id 5 is attached — it continues through the removed element of id 3
(frozen pointer) and invokes 1, 2, 3, 4, 5. -/
example :
    let ops : List ROp := [.attach 10, .attach 20, .attach 30, .attach 40]
    (∀ p ∈ [1, 4], has (runCode ops).m p = true) ∧
    (∀ t ∈ [CTh.it .start [], .del 2 false, .del 3 false, .att 50 false], t.initial = true) ∧
    (let c := runSched csys (runCode ops, [CTh.it .start [], .del 2 false, .del 3 false, .att 50 false])
      [(0, 0), (0, 0), (0, 0), (0, 0), (1, 0), (2, 0), (3, 0), (0, 0), (0, 0), (0, 0), (0, 0), (0, 0), (0, 0), (0, 0), (0, 0)]
     c.2[0]? = some (.it .fin [1, 2, 3, 4, 5])) := by
  decide

end regsim

section skeletons
open Hive.Gen.C15Skel

/-- `Th.w0` (flag load, early return), `defer Deregister` (`Th.dr (some r) _`), the three-way `select` (`Th.w1`) and the re-check after the notify channel was chosen (`Th.w2`). -/
theorem C15_skeleton_Listener_Wait : skel_Listener_Wait =
    ["call l.deregistered.Load", "if{", "return", "}if", "defer helper Deregister", "select{",
      "case recv l.channel", "call l.deregistered.Load", "if{", "return", "}if", "return",
      "case recv l.deregisteredChan", "return", "case recv ctx.Done()", "return", "}select"] := by decide

/-- `DPc.swap` (atomic Swap), `DPc.close`, then the `deregister` closure = `removeListener` (`DPc.remove`). -/
theorem C15_skeleton_Listener_Deregister : skel_Listener_Deregister =
    ["call l.deregistered.Swap", "if{", "close l.deregisteredChan", "}if"] := by decide

/-- one critical section: look the entry up by value, return when it is not this listener's channel, decrement, close and delete at zero (`removeL` / `removeO`, `Notifier.removeListener`). -/
theorem C15_skeleton_Notifier_removeListener : skel_Notifier_removeListener =
    ["lock v.mutex", "defer unlock v.mutex", "call v.listeners.Get", "if{", "return", "}if", "if{",
      "close valueListeners.channel", "call v.listeners.Delete", "}if"] := by decide

/-- an unlocked pre-check, then one critical section closing the channel and deleting the entry (`notify`). -/
theorem C15_skeleton_Notifier_Notify : skel_Notifier_Notify =
    ["rlock v.mutex", "call v.listeners.Has", "if{", "runlock v.mutex", "return", "}if", "runlock v.mutex",
      "lock v.mutex", "defer unlock v.mutex", "call v.listeners.Get", "if{", "return", "}if",
      "close valueListener.channel", "call v.listeners.Delete"] := by decide

/-- one critical section: join the existing entry or create one; both closures call `removeListener`. -/
theorem C15_skeleton_Notifier_Listener : skel_Notifier_Listener =
    ["lock v.mutex", "defer unlock v.mutex", "call v.listeners.Get", "if{", "func{", "helper removeListener",
      "}func", "return", "}if", "call v.listeners.Set", "func{", "helper removeListener", "}func", "return"] := by decide

/-- promise: the registering critical section (`Th.reg`), the unsubscribe critical section (`Th.unsub`), the inline call outside the lock when the collection was nil (`Th.regCall`). -/
theorem C15_skeleton_Event1_OnTrigger : skel_Event1_OnTrigger =
    ["func{", "lock e.mutex", "defer unlock e.mutex", "if{", "return", "}if", "call e.callbackIDs.Next",
      "call e.callbacks.Set", "func{", "lock e.mutex", "defer unlock e.mutex", "if{",
      "call e.callbacks.Delete", "}if", "}func", "return", "}func", "if{", "}if", "return"] := by decide

/-- promise: the swap runs in a function literal inside the `range` expression (not expanded by the extractor); callbacks are called in the loop body outside the lock (`Th.trigCall`). -/
theorem C15_skeleton_Event_Trigger : skel_Event_Trigger =
    ["for{", "}for", "return"] := by decide

/-- exactly one atomic `Add` per call (`EventsMax.Th.t0`, `.t2`). -/
theorem C15_skeleton_triggerSettings_currentTriggerExceedsMaxTriggerCount : skel_triggerSettings_currentTriggerExceedsMaxTriggerCount =
    ["call t.triggerCount.Add", "return"] := by decide

/-- under the link mutex: unhook the previous link hook, then hook the new target (`unlinkSt` then `linkSt`). -/
theorem C15_skeleton_event_linkTo : skel_event_linkTo =
    ["lock e.linkMutex", "defer unlock e.linkMutex", "if{", "call e.link.Unhook", "}if", "if{", "}else{",
      "call target.Hook", "}if"] := by decide

/-- atomic id, then `Set` appends at the tail (`EventsIter.attach`). -/
theorem C15_skeleton_event_Hook : skel_event_Hook =
    ["call e.hooksCounter.Add", "call e.hooks.Set", "return"] := by decide

/-- `Delete(id)` (`EventsIter.delete`, `Events.detach`). -/
theorem C15_skeleton_Hook_Unhook : skel_Hook_Unhook =
    ["call h.event.hooks.Delete"] := by decide

/-- event check, then `ForEach` with the consumer: hook check → `Unhook` or (pre-trigger functions,) `Submit` to the pool or direct call (`Events.visitKey`, `EventsMax.Th`). -/
theorem C15_skeleton_Event1_Trigger : skel_Event1_Trigger =
    ["helper currentTriggerExceedsMaxTriggerCount", "if{", "return", "}if", "func{",
      "helper currentTriggerExceedsMaxTriggerCount", "if{", "call hook.Unhook", "return", "}if", "if{", "}if", "if{",
      "}if", "helper WorkerPool", "if{", "func{", "}func", "call workerPool.Submit", "}else{", "}if", "return",
      "}func", "call e.hooks.ForEach"] := by decide

/-- read `head` under the read lock, consumer outside the lock, read `next` under the read lock (`EventsIter.ItPc`). -/
theorem C15_skeleton_OrderedMap_ForEach : skel_OrderedMap_ForEach =
    ["if{", "return", "}if", "rlock o.mutex", "runlock o.mutex", "for{", "if{", "return", "}if",
      "rlock o.mutex", "runlock o.mutex", "}for", "return"] := by decide

/-- unlink under the write lock; the removed element's own `next` is not touched (`frozen`). -/
theorem C15_skeleton_OrderedMap_Delete : skel_OrderedMap_Delete =
    ["call o.Get", "if{", "return", "}if", "lock o.mutex", "defer unlock o.mutex", "call o.dictionary.Get",
      "if{", "return", "}if", "call o.dictionary.Delete", "if{", "}else{", "}if", "if{", "}else{", "}if",
      "return"] := by decide

/-- append at the tail under the write lock. -/
theorem C15_skeleton_OrderedMap_Set : skel_OrderedMap_Set =
    ["lock o.mutex", "defer unlock o.mutex", "call o.dictionary.Get", "if{", "return", "}if", "if{",
      "}else{", "}if", "call o.dictionary.Set", "return"] := by decide

/-- `hook.WorkerPool()`: the hook's own setting if it has one (`WithWorkerPool(nil)` = in place), else
the event's (`effPooled`). -/
theorem C15_skeleton_Hook_WorkerPool : skel_Hook_WorkerPool =
    ["helper hasWorkerPool", "if{", "return", "}if", "helper WorkerPool", "return"] := by decide

/-- The sentinel for "in place" counts as a setting. -/
theorem C15_skeleton_triggerSettings_hasWorkerPool : skel_triggerSettings_hasWorkerPool =
    ["if{", "return", "}if", "return"] := by decide

/-- promise, the parameterless twin: the callback id is drawn inside the registering critical section
(after the lock, before `Set`) — two registrations never share an id. -/
theorem C15_skeleton_Event_OnTrigger : skel_Event_OnTrigger =
    ["func{", "lock e.mutex", "defer unlock e.mutex", "if{", "return", "}if", "call e.callbackIDs.Next",
      "call e.callbacks.Set", "func{", "lock e.mutex", "defer unlock e.mutex", "if{", "call e.callbacks.Delete", "}if",
      "}func", "return", "}func", "if{", "}if", "return"] := by decide

/-- `uniqueID.Next` is a plain increment: it is only safe under the event's mutex (see the two
`OnTrigger` skeletons). -/
theorem C15_skeleton_uniqueID_Next : skel_uniqueID_Next = ["return"] := by decide

/-- The limit comparisons use the `uint64` counter and limit directly — no call of the `int`
accessors `TriggerCount()` / `MaxTriggerCount()` (which would turn limits above MaxInt64 negative). -/
theorem C15_skeleton_triggerSettings_MaxTriggerCountReached : skel_triggerSettings_MaxTriggerCountReached =
    ["call t.triggerCount.Load", "return"] := by decide

/-- The counter is an `atomic.Uint64`, the limit a `uint64`: the model's naturals up to 2^64. -/
theorem C15_skeleton_type_triggerSettings : skel_type_triggerSettings =
    ["struct", "workerPool *workerpool.WorkerPool", "triggerCount atomic.Uint64", "maxTriggerCount uint64",
      "preTriggerFunc any"] := by decide

/-- **Uniformity of the arity twins.**  `events.go` holds ten hand-expanded twins (`Event`,
`Event1` … `Event9`).  With the argument list `arg1, …, argN` (in this order) and the type list
normalised, the `Trigger` and `LinkTo` bodies of all ten are identical to `Event1`'s — the twin the
models, theorems and most of the harness are about — and `Event1`'s are the ones written here. -/
theorem C15_skeleton_twins_uniform :
    Hive.Gen.C15Twins.twins_Trigger = List.replicate 10 Hive.Gen.C15Twins.twin_Trigger_1 ∧
    Hive.Gen.C15Twins.twins_LinkTo = List.replicate 10 Hive.Gen.C15Twins.twin_LinkTo_1 ∧
    Hive.Gen.C15Twins.twin_Trigger_1 =
  ["{",
    "if e.currentTriggerExceedsMaxTriggerCount() {",
    "return",
    "}",
    "e.hooks.ForEach(func(_ uint64, hook *Hook[func(TYPES)]) bool {",
    "if hook.currentTriggerExceedsMaxTriggerCount() {",
    "hook.Unhook()",
    "return true",
    "}",
    "if e.preTriggerFunc != nil {",
    "e.preTriggerFunc(ARGS)",
    "}",
    "if hook.preTriggerFunc != nil {",
    "hook.preTriggerFunc(ARGS)",
    "}",
    "if workerPool := hook.WorkerPool(); workerPool != nil {",
    "workerPool.Submit(func() { hook.trigger(ARGS) })",
    "} else {",
    "hook.trigger(ARGS)",
    "}",
    "return true",
    "})",
    "}"] ∧
    Hive.Gen.C15Twins.twin_LinkTo_1 =
  ["{",
    "e.linkTo(target, e.Trigger)",
    "}"] := by
  decide

/-- The declarations around the twin bodies are uniform too: for every arity the struct type (only the
embedded generic `*event[func(…)]`, so `Hook`, `linkTo`, the counters and the options are the shared
generic code), the constructor (`newEvent[func(…)](opts...)` — all options are passed on) and the signatures
of `Trigger` and `LinkTo`, normalised, equal `Event1`'s; and `events.go` declares nothing else — in
particular no arity has a method of its own that would shadow the embedded `Hook` / `TriggerCount` / …. -/
theorem C15_skeleton_twins_decls :
    Hive.Gen.C15Twins.twins_Decls = List.replicate 10 Hive.Gen.C15Twins.twin_Decls_1 ∧
    Hive.Gen.C15Twins.twin_Decls_1 =
  ["type EVENT[TYPES any] struct {",
    "*event[func(TYPES)]",
    "}",
    "func NEW[TYPES any](opts ...Option) *EVENT[TYPES] {",
    "return &EVENT[TYPES]{",
    "event: newEvent[func(TYPES)](opts...),",
    "}",
    "}",
    "func (e *EVENT[TYPES]) Trigger(PARAMS)",
    "func (e *EVENT[TYPES]) LinkTo(target *EVENT[TYPES])"] ∧
    Hive.Gen.C15Twins.twins_toplevel =
  ["type Event",
    "func New",
    "method Event.Trigger",
    "method Event.LinkTo",
    "type Event1",
    "func New1",
    "method Event1[T1].Trigger",
    "method Event1[T1].LinkTo",
    "type Event2",
    "func New2",
    "method Event2[T1, T2].Trigger",
    "method Event2[T1, T2].LinkTo",
    "type Event3",
    "func New3",
    "method Event3[T1, T2, T3].Trigger",
    "method Event3[T1, T2, T3].LinkTo",
    "type Event4",
    "func New4",
    "method Event4[T1, T2, T3, T4].Trigger",
    "method Event4[T1, T2, T3, T4].LinkTo",
    "type Event5",
    "func New5",
    "method Event5[T1, T2, T3, T4, T5].Trigger",
    "method Event5[T1, T2, T3, T4, T5].LinkTo",
    "type Event6",
    "func New6",
    "method Event6[T1, T2, T3, T4, T5, T6].Trigger",
    "method Event6[T1, T2, T3, T4, T5, T6].LinkTo",
    "type Event7",
    "func New7",
    "method Event7[T1, T2, T3, T4, T5, T6, T7].Trigger",
    "method Event7[T1, T2, T3, T4, T5, T6, T7].LinkTo",
    "type Event8",
    "func New8",
    "method Event8[T1, T2, T3, T4, T5, T6, T7, T8].Trigger",
    "method Event8[T1, T2, T3, T4, T5, T6, T7, T8].LinkTo",
    "type Event9",
    "func New9",
    "method Event9[T1, T2, T3, T4, T5, T6, T7, T8, T9].Trigger",
    "method Event9[T1, T2, T3, T4, T5, T6, T7, T8, T9].LinkTo"] := by
  decide

/-- `Clear` swaps in a fresh dictionary and resets `head` / `tail` under the write lock; the elements are not touched (`EventsOMap.clear`). -/
theorem C15_skeleton_OrderedMap_Clear : skel_OrderedMap_Clear =
    ["if{", "return", "}if", "lock o.mutex", "defer unlock o.mutex"] := by decide

/-- `ForEachReverse`: as `ForEach`, from `tail` along `prev` (`EventsOMap.stepLine`, `rev`). -/
theorem C15_skeleton_OrderedMap_ForEachReverse : skel_OrderedMap_ForEachReverse =
    ["if{", "return", "}if", "rlock o.mutex", "runlock o.mutex", "for{",
      "if{", "return", "}if", "rlock o.mutex", "runlock o.mutex", "}for",
      "return"] := by decide

/-- **The source text the pointer-level model was written against.**  `Hive/Model/EventsOMap.lean`
mirrors these assignments one by one (`set`, `delete`, `clear`, the pointer reads of the iteration in
`stepLine`); the text is regenerated from the working tree on every run (`harness/c15/bodies`), so any
edit of these bodies or of the two struct types has to be carried over to the model. -/
theorem C15_skeleton_orderedmap_bodies :
    Hive.Gen.C15Bodies.body_type_OrderedMap =
  ["struct {",
    "head *Element[K, V]",
    "tail *Element[K, V]",
    "dictionary *shrinkingmap.ShrinkingMap[K, *Element[K, V]]",
    "size int",
    "mutex sync.RWMutex",
    "}"] ∧
    Hive.Gen.C15Bodies.body_OrderedMap_Set =
  ["{",
    "o.mutex.Lock()",
    "defer o.mutex.Unlock()",
    "if oldValue, oldValueExists := o.dictionary.Get(key); oldValueExists {",
    "previousValue = oldValue.value",
    "oldValue.value = newValue",
    "return previousValue, true",
    "}",
    "newElement := new(Element[K, V])",
    "newElement.key = key",
    "newElement.value = newValue",
    "if o.head == nil {",
    "o.head = newElement",
    "} else {",
    "o.tail.next = newElement",
    "newElement.prev = o.tail",
    "}",
    "o.tail = newElement",
    "o.size++",
    "o.dictionary.Set(key, newElement)",
    "return previousValue, false",
    "}"] ∧
    Hive.Gen.C15Bodies.body_OrderedMap_Delete =
  ["{",
    "if _, valueExists := o.Get(key); !valueExists {",
    "return false",
    "}",
    "o.mutex.Lock()",
    "defer o.mutex.Unlock()",
    "value, valueExists := o.dictionary.Get(key)",
    "if !valueExists {",
    "return false",
    "}",
    "o.dictionary.Delete(key)",
    "o.size--",
    "if value.prev != nil {",
    "value.prev.next = value.next",
    "} else {",
    "o.head = value.next",
    "}",
    "if value.next != nil {",
    "value.next.prev = value.prev",
    "} else {",
    "o.tail = value.prev",
    "}",
    "return true",
    "}"] ∧
    Hive.Gen.C15Bodies.body_OrderedMap_Clear =
  ["{",
    "if o == nil {",
    "return",
    "}",
    "o.mutex.Lock()",
    "defer o.mutex.Unlock()",
    "o.head = nil",
    "o.tail = nil",
    "o.size = 0",
    "o.dictionary = shrinkingmap.New[K, *Element[K, V]]()",
    "}"] ∧
    Hive.Gen.C15Bodies.body_OrderedMap_ForEach =
  ["{",
    "if o == nil {",
    "return true",
    "}",
    "o.mutex.RLock()",
    "currentEntry := o.head",
    "o.mutex.RUnlock()",
    "for currentEntry != nil {",
    "if !consumer(currentEntry.key, currentEntry.value) {",
    "return false",
    "}",
    "o.mutex.RLock()",
    "currentEntry = currentEntry.next",
    "o.mutex.RUnlock()",
    "}",
    "return true",
    "}"] ∧
    Hive.Gen.C15Bodies.body_OrderedMap_ForEachReverse =
  ["{",
    "if o == nil {",
    "return true",
    "}",
    "o.mutex.RLock()",
    "currentEntry := o.tail",
    "o.mutex.RUnlock()",
    "for currentEntry != nil {",
    "if !consumer(currentEntry.key, currentEntry.value) {",
    "return false",
    "}",
    "o.mutex.RLock()",
    "currentEntry = currentEntry.prev",
    "o.mutex.RUnlock()",
    "}",
    "return true",
    "}"] ∧
    Hive.Gen.C15Bodies.body_OrderedMap_Head =
  ["{",
    "o.mutex.RLock()",
    "defer o.mutex.RUnlock()",
    "if exists = o.head != nil; !exists {",
    "return",
    "}",
    "key = o.head.key",
    "value = o.head.value",
    "return",
    "}"] ∧
    Hive.Gen.C15Bodies.body_OrderedMap_Tail =
  ["{",
    "o.mutex.RLock()",
    "defer o.mutex.RUnlock()",
    "if exists = o.tail != nil; !exists {",
    "return",
    "}",
    "key = o.tail.key",
    "value = o.tail.value",
    "return",
    "}"] ∧
    Hive.Gen.C15Bodies.body_OrderedMap_Get =
  ["{",
    "o.mutex.RLock()",
    "defer o.mutex.RUnlock()",
    "orderedMapElement, orderedMapElementExists := o.dictionary.Get(key)",
    "if !orderedMapElementExists {",
    "var result V",
    "return result, false",
    "}",
    "return orderedMapElement.value, true",
    "}"] ∧
    Hive.Gen.C15Bodies.body_OrderedMap_Has =
  ["{",
    "o.mutex.RLock()",
    "defer o.mutex.RUnlock()",
    "return o.dictionary.Has(key)",
    "}"] ∧
    Hive.Gen.C15Bodies.body_OrderedMap_Size =
  ["{",
    "if o == nil {",
    "return 0",
    "}",
    "o.mutex.RLock()",
    "defer o.mutex.RUnlock()",
    "return o.size",
    "}"] ∧
    Hive.Gen.C15Bodies.body_OrderedMap_Clone =
  ["{",
    "if o == nil {",
    "return nil",
    "}",
    "cloned := New[K, V]()",
    "o.mutex.RLock()",
    "defer o.mutex.RUnlock()",
    "for currentEntry := o.head; currentEntry != nil; currentEntry = currentEntry.next {",
    "cloned.Set(currentEntry.key, currentEntry.value)",
    "}",
    "return cloned",
    "}"] ∧
    Hive.Gen.C15Bodies.body_type_Element =
  ["struct {",
    "key K",
    "value V",
    "prev *Element[K, V]",
    "next *Element[K, V]",
    "}"] := by
  decide

end skeletons

end Hive.C15
