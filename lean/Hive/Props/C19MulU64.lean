import Hive.Proofs.SafeMathU64
/-!
# C19 — SafeMulUint64: exact result or the overflow error, for every integer type

The definition `SafeMulUint64` is **generated** from core/safemath/safe_math.go on every run (Hive/Gen/C19_SafeMath.lean).  This
module rests only on the proof about that one function (`Hive/Proofs/SafeMathU64.lean`) and on lemmas that mention no generated
definition: a change of another function of safe_math.go leaves these theorems standing, a change of `SafeMulUint64` that is not an
equivalent rewrite breaks exactly them.  `SafeMulUint64` is the uint64 twin of the generic `SafeMul`.
-/
namespace Hive.GoInt
open Hive.Gen.SafeMath IntTy

theorem C19_mulU64_exact (x y : Int) (hx : IntTy.u64.InRange x) (hy : IntTy.u64.InRange y) :
    SafeMulUint64 x y = exact IntTy.u64 (x * y) := safeMulUint64_exact x y hx hy

/-- never a wrapped value -/
theorem C19_mulU64_never_wraps (x y : Int) (hx : IntTy.u64.InRange x) (hy : IntTy.u64.InRange y) (r : Int) :
    SafeMulUint64 x y = .ok r → r = x * y ∧ IntTy.u64.InRange r :=
  (exact_clauses _ _ _ (C19_mulU64_exact x y hx hy)).1 r

/-- never a spurious error -/
theorem C19_mulU64_never_spurious (x y : Int) (hx : IntTy.u64.InRange x) (hy : IntTy.u64.InRange y) :
    IntTy.u64.InRange (x * y) → SafeMulUint64 x y = .ok (x * y) :=
  (exact_clauses _ _ _ (C19_mulU64_exact x y hx hy)).2.1

/-- the overflow error exactly when the product is not representable -/
theorem C19_mulU64_error_iff (x y : Int) (hx : IntTy.u64.InRange x) (hy : IntTy.u64.InRange y) :
    (SafeMulUint64 x y = .overflow ↔ ¬ IntTy.u64.InRange (x * y)) ∧ SafeMulUint64 x y ≠ .divzero ∧ SafeMulUint64 x y ≠ .panic :=
  (exact_clauses _ _ _ (C19_mulU64_exact x y hx hy)).2.2

end Hive.GoInt
