import Hive.Props.C07
import Hive.Proofs.SeqConcLift
import Hive.Proofs.SeqConcAnswers
import Hive.Proofs.SeqConcLive
import Hive.Gen.C07_Skel
/-!
# C07 — concurrent callers on one `Sequence` object (protocol level)

Property theorems only.  Model: `Hive/Model/SeqConc.lean` — any number of goroutines with arbitrary
scripts of `Next` / `Release` on ONE live `kvstore.Sequence`, every method cut into the code's
shared-memory micro-steps (`Lock`, the lease test, `store.Get`, `seq.next = num`, `store.Set`,
`seq.reserved = reserved`, `val := next; next++`, the deferred `Unlock`; store calls may fail), plus
environment threads that abandon the whole object at ANY point (whatever micro-step the goroutine
inside a method has reached) and restart with a fresh object of any positive interval, used by the
goroutines of the next generation.  Every theorem quantifies over **every reachable configuration**:
any pool (`specs`), any scripts, any schedule (`Reach`), and any sequentially reachable initial state
`s0` (`Hive.Seq.Inv s0`; `Hive.Seq.init` is one, `inv_final` gives all others).

The model is written against exactly the regenerated skeletons `C07_skeleton_next / release / update`
(`Hive/Props/C07.lean`), restated here as `C07_concurrent_skeleton`: `lock seq` + `defer unlock seq`
around everything, `update` = `call seq.store.Get` then `call seq.store.Set` without any lock
operation of its own, `Release` = test, early return, `call seq.store.Set`.
-/
namespace Hive.Seq.Conc
open Hive.Conc Hive.Seq

/-- **Mutual exclusion.**  In every reachable configuration at most one live goroutine is between
`Lock` and `Unlock`; a goroutine at any program point that reads or writes `next` / `reserved` / the
store (every point but `idle`) is the holder of the mutex; and a step taken by a goroutine that is
not inside is the acquisition of the free mutex, which touches neither the fields nor the store nor
the history. -/
theorem C07_concurrent_mutual_exclusion (s0 : St) (specs : List Spec) {c : Cfg Shared Thread}
    (hr : Reach sys (initSh s0, specs.map spawn) c) :
    c.2.countP (pIn c.1.epoch) ≤ 1 ∧
    (∀ g, .gor g ∈ c.2 → g.epoch = c.1.epoch → g.pc.inside = true → c.1.holder = some g.id) ∧
    (∀ g s' t', (s', t') ∈ tstep c.1 (.gor g) → g.pc.inside = false →
      c.1.holder = none ∧ s'.holder = some g.id ∧ s'.st = c.1.st ∧ s'.log = c.1.log ∧ s'.hist = c.1.hist) := by
  have hi := inv_reach s0 specs hr
  refine ⟨?_, fun g hg hep hin => ((hi.threads _ hg).2 hep hin).1, fun g s' t' h hout => ?_⟩
  · rw [hi.cnt]; split <;> simp
  · obtain ⟨h1, h2, h3, h4, h5, _⟩ := outside_step h hout
    exact ⟨h1, h2, h3, h4, h5⟩

/-- **Refinement of the sequential machine.**  In every reachable configuration the ghost history —
one entry per call at its linearisation point inside the mutex-protected section, per crash (at the
store-operation boundary the interrupted micro-state corresponds to) and per restart — is a run of
`Hive.Seq.step` from `s0`: the recorded answers are the sequential answers and the run ends in
`base`; whenever the mutex is free the concrete state *is* that sequential state; a goroutine about
to return (`unlock a`) returns the answer recorded last; and the ghost log of hand-outs is exactly
the list of numbers answered. -/
theorem C07_concurrent_refines_sequential (s0 : St) (specs : List Spec) {c : Cfg Shared Thread}
    (hr : Reach sys (initSh s0, specs.map spawn) c) :
    Seq.run s0 (histOps c.1.hist) = (c.1.base, histOuts c.1.hist) ∧
    (∀ op ∈ histOps c.1.hist, op.wf) ∧
    (c.1.holder = none → c.1.st = c.1.base) ∧
    (∀ g a, .gor g ∈ c.2 → g.epoch = c.1.epoch → g.pc = .unlock a →
      c.1.st = c.1.base ∧ ∃ op, c.1.hist.getLast? = some (some g.id, op, a)) ∧
    c.1.log.map (·.2) = nums (histOuts c.1.hist) := by
  have hi := inv_reach s0 specs hr
  refine ⟨hi.run, hi.wf, fun h => (hi.quiet h).1, fun g a hg hep hpc => ?_, ?_⟩
  · have := ((hi.threads _ hg).2 hep (by rw [hpc]; rfl)).2
    rw [hpc] at this
    exact ⟨this.1, this.2.2⟩
  · have h1 := run_returned s0 (histOps c.1.hist)
    rw [← run_fst, hi.run] at h1
    have h2 := hi.lognums
    rw [h1] at h2
    have := List.append_cancel_right h2
    exact (List.reverse_inj.mp this).symm

/-- Every answer any goroutine has ever received from `Next` / `Release` (`got`) is the answer recorded
for a linearised call of that goroutine — by `C07_concurrent_refines_sequential` the answer of the
sequential machine at that call's linearisation point. -/
theorem C07_concurrent_answers_are_sequential (s0 : St) (specs : List Spec) {c : Cfg Shared Thread}
    (hr : Reach sys (initSh s0, specs.map spawn) c) :
    ∀ g, .gor g ∈ c.2 → ∀ a ∈ g.got, ∃ op, (some g.id, op, a) ∈ c.1.hist :=
  answers_reach s0 specs hr

/-- **C07 for concurrent callers, main statement.**  Over every schedule of any number of goroutines
calling `Next` and `Release` on one object, with store errors, crashes at any micro-step and
restarts with any positive interval: the numbers in the ghost log are strictly increasing in
hand-out order, and above everything handed out before (`s0.returned`, newest first). -/
theorem C07_concurrent_strictly_increasing (s0 : St) (h0 : Seq.Inv s0) (specs : List Spec)
    {c : Cfg Shared Thread} (hr : Reach sys (initSh s0, specs.map spawn) c) :
    (s0.returned.reverse ++ c.1.log.map (·.2)).Pairwise (· < ·) := by
  have hi := inv_reach s0 specs hr
  have hs := (base_inv h0 hi).sorted
  rw [hi.lognums] at hs
  have := List.pairwise_reverse.mpr hs
  simpa using this

/-- Hence no number is ever returned twice, to whichever goroutine. -/
theorem C07_concurrent_no_number_twice (specs : List Spec) {c : Cfg Shared Thread}
    (hr : Reach sys (initSh Seq.init, specs.map spawn) c) : (c.1.log.map (·.2)).Nodup := by
  have h := C07_concurrent_strictly_increasing Seq.init Seq.inv_init specs hr
  simp only [Seq.init, List.reverse_nil, List.nil_append] at h
  exact h.imp (fun hab => Nat.ne_of_lt hab)

/-- **Waste bound, global form** (lifted from `C07_crash_wastes_le_interval`): in every reachable
configuration everything handed out lies below the frontier at the last linearisation point, and the
number of skipped numbers below it is at most the sum of the intervals of the abandoned objects. -/
theorem C07_concurrent_crash_wastes_le_interval (s0 : St) (h0 : Seq.Inv s0) (specs : List Spec)
    {c : Cfg Shared Thread} (hr : Reach sys (initSh s0, specs.map spawn) c) :
    (∀ e ∈ c.1.log, e.2 < frontier c.1.base) ∧
      frontier c.1.base ≤ c.1.log.length + s0.returned.length + c.1.base.budget := by
  have hi := inv_reach s0 specs hr
  obtain ⟨h1, h2⟩ := frontier_bounds (base_inv h0 hi)
  rw [hi.lognums] at h1 h2
  refine ⟨fun e he => h1 e.2 ?_, ?_⟩
  · simp only [List.mem_append, List.mem_reverse, List.mem_map]
    exact Or.inl ⟨e, he, rfl⟩
  · simpa using h2

/-- **A crash wastes at most one interval, per crash**: whatever micro-step the environment
interrupts, the fresh object starts at or above the frontier of the last linearisation point and at
most the abandoned object's interval above it; the budget grows by exactly that interval. -/
theorem C07_concurrent_crash_step (s0 : St) (h0 : Seq.Inv s0) (specs : List Spec)
    {c : Cfg Shared Thread} (hr : Reach sys (initSh s0, specs.map spawn) c)
    {rs : List Nat} {s' : Shared} {t' : Thread} (hs : (s', t') ∈ tstep c.1 (.env rs))
    {o : Obj} (hobj : c.1.base.obj = some o) :
    frontier c.1.base ≤ frontier s'.st ∧ frontier s'.st ≤ frontier c.1.base + o.interval ∧
      s'.st.budget = c.1.base.budget + o.interval := by
  have hi := inv_reach s0 specs hr
  obtain ⟨i, _, hst, _⟩ := env_step hs
  obtain ⟨hab, _, hnw⟩ := crash_ok hi
  have hne : c.1.cp = .nextWrite → lease (mark c.1.base) o.interval ≠ 0 := by
    intro hcp
    obtain ⟨o', ho', _, hz⟩ := hnw hcp
    rw [hobj] at ho'; cases ho'; exact hz
  have hm : mark c.1.st = mark (step c.1.base (.crash c.1.cp)).1 := by
    rw [← mark_abandon, hab, mark_abandon]
  have hcf := crash_frontier (base_inv h0 hi) hobj c.1.cp
  rw [hst, frontier_new, hm]
  refine ⟨hcf.1, hcf.2, ?_⟩
  have hb : (abandon c.1.st).budget = (abandon (step c.1.base (.crash c.1.cp)).1).budget := by rw [hab]
  have hon : (step c.1.base (.crash c.1.cp)).1.obj = none ∧
      (step c.1.base (.crash c.1.cp)).1.budget = c.1.base.budget + o.interval := by
    cases hcp : c.1.cp with
    | nextWrite =>
      have hz := hne hcp
      cases hl : hasLease o <;> simp [step, hobj, hl, abandon, hz]
    | idle => simp [step, hobj, abandon]
    | nextRead => cases hl : hasLease o <;> simp [step, hobj, hl, abandon]
    | relWrite => cases hl : hasLease o <;> simp [step, hobj, hl, abandon]
  show (step c.1.st (.new i)).1.budget = _
  have : (step c.1.st (.new i)).1.budget = (abandon c.1.st).budget := rfl
  rw [this, hb, abandon_budget, hon.1, hon.2]; simp

/-- **No wrap-around**, also in the middle of a method: in every reachable configuration the stored
mark and the object's `next` / `reserved` are at most `cap` = `math.MaxUint64` and every number handed out is
below it — every value a micro-step computes (`seq.next + lease`, `seq.next++`, the value `Release`
writes) is one of these values of the successor state, so the code's `uint64` arithmetic coincides with the
model's `Nat` arithmetic (lifted from `C07_no_wrap`; `Bnd Seq.init` is `bnd_init`). -/
theorem C07_concurrent_no_wrap (s0 : St) (h0 : Seq.Inv s0) (hb0 : Bnd s0) (specs : List Spec)
    {c : Cfg Shared Thread} (hr : Reach sys (initSh s0, specs.map spawn) c) :
    mark c.1.st ≤ cap ∧ (∀ o, c.1.st.obj = some o → o.next ≤ cap ∧ o.reserved ≤ cap) ∧
      (∀ e ∈ c.1.log, e.2 < cap) := by
  have hi := inv_reach s0 specs hr
  obtain ⟨h1, h2⟩ := conc_bnd h0 hb0 hi
  refine ⟨h1, h2, fun e he => ?_⟩
  have hb := base_bnd h0 hb0 hi
  have hlt := (base_inv h0 hi).below_mark e.2 (by
    rw [hi.lognums]
    simp only [List.mem_append, List.mem_reverse, List.mem_map]
    exact Or.inl ⟨e, he, rfl⟩)
  exact Nat.lt_of_lt_of_le hlt hb.mark_le

/-- **A clean Release wastes none**, under concurrency: whenever the last linearised event is a
successful `Release` (of any goroutine, however its micro-steps were interleaved with blocked
callers), the stored mark is exactly the frontier — a restart continues without a gap. -/
theorem C07_concurrent_release_wastes_none (s0 : St) (h0 : Seq.Inv s0) (specs : List Spec)
    {c : Cfg Shared Thread} (hr : Reach sys (initSh s0, specs.map spawn) c)
    (h' : List (Option Nat × Op × Out)) (who : Option Nat) (hh : c.1.hist = h' ++ [(who, .release, .ok)]) :
    mark c.1.base = frontier c.1.base := by
  have hi := inv_reach s0 specs hr
  have hrun := hi.run
  rw [hh, (hist_snoc h' who .release .ok).1, (hist_snoc h' who .release .ok).2] at hrun
  obtain ⟨hb, ha⟩ := run_last hrun
  have hwf : ∀ op ∈ histOps h', op.wf := fun op hop => hi.wf op (by
    rw [hh, (hist_snoc h' who .release .ok).1]; exact List.mem_append_left _ hop)
  have hinv : Seq.Inv (run s0 (histOps h')).1 := by rw [run_fst']; exact inv_final _ hwf h0
  cases hobj : (run s0 (histOps h')).1.obj with
  | none => simp [step, hobj] at ha
  | some o =>
    obtain ⟨_, _, hf, hm⟩ := release_out hobj
    rw [hb, hf, hm]

/-- **Contiguity**: as long as no crash and no store error has happened, the numbers handed out to
all goroutines together are exactly the consecutive numbers from the initial frontier, in hand-out
order — concurrent `Release` calls and the interleaving neither skip nor repeat anything.  (This is
the predicate the driver evaluates on recorded histories, request `chist`.) -/
theorem C07_concurrent_contiguous (s0 : St) (h0 : Seq.Inv s0) {o : Obj} (hobj : s0.obj = some o)
    (specs : List Spec) {c : Cfg Shared Thread} (hr : Reach sys (initSh s0, specs.map spawn) c)
    (hops : ∀ op ∈ histOps c.1.hist, op = .next ∨ op = .release) :
    c.1.log.map (·.2) = List.range' (front s0) c.1.log.length := by
  have hi := inv_reach s0 specs hr
  have hc := contiguous (histOps c.1.hist) hops h0 hobj
  rw [hi.run] at hc
  have hl := (C07_concurrent_refines_sequential s0 specs hr).2.2.2.2
  have hn : ∀ l, nums l = outNums l := by
    intro l
    induction l with
    | nil => rfl
    | cons x xs ih => cases x <;> simp [nums, outNums, ih]
  rw [hn] at hl
  rw [← hl] at hc
  simpa [front_eq] using hc

/-- **Progress (no reachable stuck configuration).**  In every reachable configuration of any pool on an existing
object: unless everybody is finished (`Finished`: environments without further restarts, goroutines of another
generation than the live object's, goroutines whose script is done), somebody can take a step — the mutex is the only
thing a goroutine ever waits for, its holder is a live goroutine (`C07_concurrent_mutual_exclusion`) and every program
point between `Lock` and `Unlock` has a successor, also after a failed store call, also on the exhaustion path (the
deferred `Unlock` is reached on every return).  So no schedule of `Next` / `Release` callers, store errors, crashes and
restarts hangs. -/
theorem C07_concurrent_no_deadlock (s0 : St) (specs : List Spec) (h0 : s0.obj.isSome = true) {c : Cfg Shared Thread}
    (hr : Reach sys (initSh s0, specs.map spawn) c) : ¬ Deadlock sys (Finished c.1.epoch) c :=
  no_deadlock s0 specs h0 hr

/-- The hypothesis is satisfiable (and needed: without an object a caller has nothing to call). -/
example : (final Seq.init [.new 3, .next]).obj.isSome = true := by decide

/-- The lock / store-call skeletons (regenerated from kvstore/sequence.go on every run) that the
micro-steps of `Hive/Model/SeqConc.lean` were written against; in `update`: the store read, the cap of the
lease (`if{ }if`), the early return `ErrSequenceExhausted` (`if{ return }if`, the edge `uNext → unlock err`),
then the store write. -/
theorem C07_concurrent_skeleton :
    Hive.Gen.C07Skel.skel_Sequence_Next =
      ["lock seq", "defer unlock seq", "if{", "helper update", "if{", "return", "}if", "}if", "return"] ∧
    Hive.Gen.C07Skel.skel_Sequence_Release =
      ["lock seq", "defer unlock seq", "if{", "return", "}if", "call seq.store.Set", "if{", "return", "}if",
        "return"] ∧
    Hive.Gen.C07Skel.skel_Sequence_update =
      ["call seq.store.Get", "switch{", "case", "case", "return", "case", "}switch", "if{", "}if", "if{", "return",
        "}if", "call seq.store.Set", "if{", "return", "}if", "return"] := by decide

/-! ### Non-vacuity: concrete interleaved schedules, replayed on the model by `runSched` -/

/-- Pool: an environment with two restarts (intervals 3 and 2), goroutines 1 and 2 on the first
object, goroutine 3 on the second. -/
def examplePool : List Thread :=
  [Spec.env [3, 2], .gor 1 1 [.next, .next], .gor 2 1 [.next, .release], .gor 3 2 [.next]].map spawn

/-- restart; goroutine 1: a full `Next` with `update`; goroutine 2: `Next` from the lease, then
`Release` up to and including its store write; crash there + restart; goroutine 3: `Next`. -/
def exampleSched : List (Nat × Nat) :=
  [(0, 0)] ++ List.replicate 8 (1, 0) ++ List.replicate 4 (2, 0) ++ List.replicate 3 (2, 0) ++ [(0, 0)] ++
    List.replicate 8 (3, 0)

example : (runSched sys (initSh Seq.init, examplePool) exampleSched).1.log = [(1, 0), (2, 1), (3, 2)] := by decide

example : histOps (runSched sys (initSh Seq.init, examplePool) exampleSched).1.hist =
    [.crash .idle, .new 3, .next, .next, .crash .relWrite, .new 2, .next] := by decide

example : (runSched sys (initSh Seq.init, examplePool) exampleSched).1.st.store = some 4 := by decide

/-- While goroutine 1 is inside `update`, goroutine 2 is blocked at `Lock`. -/
def exampleBlocked : Cfg Shared Thread :=
  runSched sys (initSh Seq.init, examplePool) ([(0, 0)] ++ List.replicate 5 (1, 0))

example : exampleBlocked.1.holder = some 1 ∧
    (exampleBlocked.2[2]?.map fun t => (tstep exampleBlocked.1 t).length) = some 0 := by decide

/-- A crash between the store write of `update` and `seq.reserved = reserved` wastes the interval:
the fresh object continues at 3 (+ store error path: the second successor of `uGet`). -/
def exampleCrashInUpdate : Cfg Shared Thread :=
  runSched sys (initSh Seq.init, examplePool)
    ([(0, 0)] ++ List.replicate 6 (1, 0) ++ [(0, 0)] ++ [(3, 0), (3, 0), (3, 1), (3, 0)])

example : exampleCrashInUpdate.1.log = [] ∧
    histOuts exampleCrashInUpdate.1.hist = [.noobj, .ok, .crashed, .ok, .err] ∧
    histOps exampleCrashInUpdate.1.hist = [.crash .idle, .new 3, .crash .nextWrite, .new 2, .failNext .get] ∧
    exampleCrashInUpdate.1.st.store = some 3 ∧
    exampleCrashInUpdate.2[3]? = some (.gor { id := 3, epoch := 2, script := [], pc := .idle, got := [.err] }) := by
  decide

/-- An exhausted `Next` (the mark is at `cap`: the early return `ErrSequenceExhausted` of `update`): Lock, lease
test, store read, `seq.next = num` + empty lease → the call is linearised as the sequential `next` answering
`err`, nothing is handed out or written, the mutex is released by the deferred Unlock. -/
def exampleExhausted : Cfg Shared Thread :=
  runSched sys (initSh { Seq.init with store := some cap, obj := some ⟨5, 0, 0⟩ }, [spawn (.gor 1 0 [.next])])
    (List.replicate 5 (0, 0))

example : exampleExhausted.1.log = [] ∧ histOps exampleExhausted.1.hist = [.next] ∧
    histOuts exampleExhausted.1.hist = [.err] ∧ exampleExhausted.1.holder = none ∧
    exampleExhausted.1.st.store = some cap ∧
    exampleExhausted.2 = [.gor { id := 1, epoch := 0, script := [], pc := .idle, got := [.err] }] := by decide

/-- The hypotheses of the theorems are satisfiable: `Hive.Seq.init` satisfies the sequential
invariant, and so does every state reached by a sequential history (e.g. with a live object, as
`C07_concurrent_contiguous` needs). -/
example : Seq.Inv Seq.init ∧ Bnd Seq.init := ⟨Seq.inv_init, bnd_init⟩
example : Seq.Inv (final Seq.init [.new 3, .next]) ∧ (final Seq.init [.new 3, .next]).obj.isSome = true :=
  ⟨inv_final _ (by intro op hop; simp at hop; rcases hop with rfl | rfl <;> simp [Op.wf]) Seq.inv_init, by decide⟩

end Hive.Seq.Conc
