import Hive.Proofs.SafeMathSub
/-!
# C19 — SafeSub: exact result or the overflow error, for every integer type

The definition `SafeSub` is **generated** from core/safemath/safe_math.go on every run (Hive/Gen/C19_SafeMath.lean).  This
module rests only on the proof about that one function (`Hive/Proofs/SafeMathSub.lean`) and on lemmas that mention no generated
definition: a change of another function of safe_math.go leaves these theorems standing, a change of `SafeSub` that is not an
equivalent rewrite breaks exactly them.  Generic in the type: every width `0 < bits` and either signedness (hence the eight Go types and every defined type over them).
-/
namespace Hive.GoInt
open Hive.Gen.SafeMath IntTy

/-- `SafeSub` returns the exact mathematical result when it is representable, the overflow error otherwise. -/
theorem C19_sub_exact (T : IntTy) (hw : 0 < T.bits) (x y : Int) (hx : T.InRange x) (hy : T.InRange y) :
    SafeSub T x y = exact T (x - y) := safeSub_exact T hw x y hx hy

/-- never a wrapped value: a value returned without error is the exact result (and representable) -/
theorem C19_sub_never_wraps (T : IntTy) (hw : 0 < T.bits) (x y : Int) (hx : T.InRange x) (hy : T.InRange y) (r : Int) :
    SafeSub T x y = .ok r → r = x - y ∧ T.InRange r :=
  (exact_clauses T _ _ (C19_sub_exact T hw x y hx hy)).1 r

/-- never a spurious error: a representable result is returned -/
theorem C19_sub_never_spurious (T : IntTy) (hw : 0 < T.bits) (x y : Int) (hx : T.InRange x) (hy : T.InRange y) :
    T.InRange (x - y) → SafeSub T x y = .ok (x - y) :=
  (exact_clauses T _ _ (C19_sub_exact T hw x y hx hy)).2.1

/-- the overflow error exactly when the result is not representable; never the division-by-zero error, never a panic -/
theorem C19_sub_error_iff (T : IntTy) (hw : 0 < T.bits) (x y : Int) (hx : T.InRange x) (hy : T.InRange y) :
    (SafeSub T x y = .overflow ↔ ¬ T.InRange (x - y)) ∧ SafeSub T x y ≠ .divzero ∧ SafeSub T x y ≠ .panic :=
  (exact_clauses T _ _ (C19_sub_exact T hw x y hx hy)).2.2

/-- non-vacuity: boundary operands of a Go type satisfy the hypotheses -/
example : 0 < IntTy.i8.bits ∧ IntTy.i8.InRange (-128) ∧ IntTy.i8.InRange 127 := by decide

end Hive.GoInt
