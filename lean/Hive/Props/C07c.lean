import Hive.Proofs.SeqStore
import Hive.Props.C07
/-!
# C07 over an arbitrary store layer — what the Sequence owes to the store and what the store owes to the Sequence

Model: `Hive/Model/SeqStore.lean` (the code of kvstore/sequence.go written against a store *layer* `L` with its own state:
any stack of views and wrappers over a database that may be shut down and opened again while the object is in use, also
between the store read and the store write of a lease renewal).  The obligation on the layer is `Faithful L`; its first
clause is the one the no-reuse argument rests on: **a `Set` that answered nil is in the database**.
-/
namespace Hive.Seq.Layered
open Hive.Seq

variable {σ : Type}

/-- **Refinement.**  Over every faithful store layer, every history of restarts, `Next` (with any environment event
between its store read and write), `Release`, crashes at every store-operation boundary and shutdowns / reopenings of
the database is a history of the sequential machine of `Hive/Model/Seq.lean` — failed store calls appear as its
`failNext` / `failRelease` operations — with the same answers, and the final states correspond (store cell = what the
database holds). -/
theorem C07_layered_refines_sequential (L : Layer σ) (hF : Faithful L) (s : LSt σ) (ops : List LOp) :
    run (abs L s) (seqOps L s ops) = (abs L (lrun L s ops).1, callOuts L s ops) :=
  sim_run L hF s ops

/-- Environment events answer no number: the numbers among all answers are those of the calls. -/
theorem nums_lrun (L : Layer σ) (hF : Faithful L) (s : LSt σ) (ops : List LOp) :
    nums (lrun L s ops).2 = nums (callOuts L s ops) := by
  induction ops generalizing s with
  | nil => simp [lrun, callOuts]
  | cons op ops ih =>
    have h := sim_step L hF s op
    unfold SimStep at h
    simp only [lrun, callOuts]
    cases hso : seqOp L s op with
    | none =>
      rw [hso] at h
      simp only
      have : nums ((lstep L s op).2 :: (lrun L (lstep L s op).1 ops).2) = nums (lrun L (lstep L s op).1 ops).2 := by
        rw [h.2]; rfl
      rw [this, ih]
    | some sop =>
      simp only
      have := nums_append [(lstep L s op).2] (lrun L (lstep L s op).1 ops).2
      have h2 := nums_append [(lstep L s op).2] (callOuts L (lstep L s op).1 ops)
      simp only [List.singleton_append] at this h2
      rw [this, h2, ih]

theorem abs_linit (L : Layer σ) (l0 : σ) (h0 : L.disk l0 = none) : abs L (linit l0) = init := by
  simp [abs, linit, init, h0]

/-- **C07 over every faithful store.**  Whatever the store stack is made of — as long as a write that answered nil is
in the database, a failed write changed nothing, a read answers what the database holds and shutting down / reopening
keeps the content — the numbers handed out over the whole life of the (initially empty) database are strictly
increasing: none is returned twice, across crashes, restarts with any intervals, releases, store errors and shutdowns
in the middle of a lease renewal. -/
theorem C07_no_reuse_over_faithful_store (L : Layer σ) (hF : Faithful L) (l0 : σ) (h0 : L.disk l0 = none)
    (ops : List LOp) (hw : ∀ op ∈ ops, op.wf) :
    (nums (lrun L (linit l0) ops).2).Pairwise (· < ·) := by
  have hsim := sim_run L hF (linit l0) ops
  rw [abs_linit L l0 h0] at hsim
  have hinc := C07_strictly_increasing (seqOps L (linit l0) ops) (seqOps_wf L _ ops hw)
  rw [hsim] at hinc
  rw [nums_lrun L hF]
  exact hinc

/-- The waste bound over every faithful store: everything handed out lies below the frontier, and the frontier is at
most the count of numbers handed out plus the intervals of the abandoned objects — store errors and shutdowns waste
nothing. -/
theorem C07_waste_over_faithful_store (L : Layer σ) (hF : Faithful L) (l0 : σ) (h0 : L.disk l0 = none)
    (ops : List LOp) (hw : ∀ op ∈ ops, op.wf) :
    let s := abs L (lrun L (linit l0) ops).1
    (∀ r ∈ s.returned, r < frontier s) ∧ frontier s ≤ s.returned.length + s.budget := by
  have hsim := sim_run L hF (linit l0) ops
  rw [abs_linit L l0 h0] at hsim
  have hw' := C07_crash_wastes_le_interval (seqOps L (linit l0) ops) (seqOps_wf L _ ops hw)
  rw [← run_fst, hsim] at hw'
  exact hw'

/-- The plain views of the repository (`mapdb` with any realm; a closed store answers `ErrStoreClosed` and does
nothing) meet the obligation. -/
theorem C07_store_contract_plain : Faithful plainLayer := by
  constructor
  · intro d v h; cases hc : d.closed <;> simp_all [plainLayer]
  · intro d v h; cases hc : d.closed <;> simp_all [plainLayer]
  · intro d v h; cases hc : d.closed <;> simp_all [plainLayer]
  · intro d; rfl
  · intro e d; cases e <;> rfl

/-- `flushkv.New(view)` as it is (the error of the mutation is returned; only the `ErrStoreClosed` of the `Flush` that
follows a mutation that took effect is not reported) meets the obligation. -/
theorem C07_store_contract_flushkv : Faithful (flushLayer false) := by
  constructor
  · intro d v h; cases hc : d.closed <;> simp_all [flushLayer, plainLayer]
  · intro d v h; cases hc : d.closed <;> simp_all [flushLayer, plainLayer]
  · intro d v h; cases hc : d.closed <;> simp_all [flushLayer, plainLayer]
  · intro d; rfl
  · intro e d; cases e <;> rfl

/-- **The obligation is needed** (seeded change C07-r5-3): a `flushkv` that also hides the `ErrStoreClosed` of the
mutation itself acknowledges a write it did not make — it is not faithful — and then, with no crash at all, a shutdown
between the store read and the store write of one lease renewal makes `Next` hand out `5` from an unpersisted lease;
after the restart `5` is handed out again. -/
theorem C07_unfaithful_store_witness :
    ¬ Faithful (flushLayer true) ∧
    (lrun (flushLayer true) (linit ⟨none, false⟩)
      [.new 5, .next none, .next none, .next none, .next none, .next none, .next (some .close), .env .reopen,
       .new 5, .next none]).2
      = [.ok, .num 0, .num 1, .num 2, .num 3, .num 4, .num 5, .ok, .ok, .num 5] ∧
    (lrun (flushLayer false) (linit ⟨none, false⟩)
      [.new 5, .next none, .next none, .next none, .next none, .next none, .next (some .close), .env .reopen,
       .new 5, .next none]).2
      = [.ok, .num 0, .num 1, .num 2, .num 3, .num 4, .err, .ok, .ok, .num 5] := by
  refine ⟨?_, by decide, by decide⟩
  intro hF
  have h := hF.set_ack ⟨none, true⟩ 7 (by decide)
  revert h
  decide

/-- `flushkv.New(view)` of the earlier model is the wrapper over the plain layer. -/
theorem flushLayer_eq_wrap (b : Bool) (d : Disk) (v : Nat) :
    (flushLayer b).set d v = (flushWrap b plainLayer).set d v ∧ (flushLayer b).get d = (flushWrap b plainLayer).get d := by
  cases hc : d.closed <;> simp [flushLayer, flushWrap, plainLayer, hc]

theorem faithful_debug (c : DebugCfg) (L : Layer σ) (hF : Faithful L) : Faithful (debugLayer true c L) := by
  constructor
  · intro s v h; simp only [debugLayer, Bool.or_true, if_true] at h ⊢; exact hF.set_ack s v h
  · intro s v h; simp only [debugLayer, Bool.or_true, if_true] at h ⊢; exact hF.set_nak s v h
  · intro s v h; exact hF.get_sound s v h
  · intro s; exact hF.get_disk s
  · intro e s; exact hF.env_disk e s

theorem faithful_flush (L : Layer σ) (hF : Faithful L) : Faithful (flushWrap false L) := by
  constructor
  · intro s v h
    have := hF.set_ack s v
    simp only [flushWrap] at h ⊢
    cases hs : L.set s v with
    | mk s' b => cases b <;> simp_all
  · intro s v h
    have := hF.set_nak s v
    simp only [flushWrap] at h ⊢
    cases hs : L.set s v with
    | mk s' b => cases b <;> simp_all
  · intro s v h; exact hF.get_sound s v h
  · intro s; exact hF.get_disk s
  · intro e s; exact hF.env_disk e s

/-- **Every wrapper stack of the module is faithful if what it wraps is**: any nesting of `debug.New` in any
configuration (no callback, a callback with any command filter), `flushkv.New` and realm views made through them. -/
theorem C07_store_contract_stack (ws : List Wrapper) (L : Layer σ) (hF : Faithful L) : Faithful (stackLayer ws L) := by
  induction ws with
  | nil => exact hF
  | cons w ws ih =>
    cases w with
    | debug c => exact faithful_debug c _ ih
    | flush => exact faithful_flush _ ih
    | realm => exact ih

/-- …so over every stack on top of a `mapdb` view C07 holds: no number twice, waste bounded (the two theorems above
apply with `L := stackLayer ws plainLayer`). -/
theorem C07_no_reuse_over_every_stack (ws : List Wrapper) (ops : List LOp) (hw : ∀ op ∈ ops, op.wf) :
    (nums (lrun (stackLayer ws plainLayer) (linit ⟨none, false⟩) ops).2).Pairwise (· < ·) := by
  refine C07_no_reuse_over_faithful_store _ (C07_store_contract_stack ws _ C07_store_contract_plain) _ ?_ ops hw
  induction ws with
  | nil => rfl
  | cons w ws ih => cases w <;> exact ih

/-- **A debug store must forward what it does not report** (seeded change C07-r6-3): a `debug.New(store, nil)` — or one
whose filter leaves `SetCommand` out — that answers nil without forwarding the write is not faithful, and then, with no
crash and no fault at all, the second lease renewal reads a database that never received the first: `0` is handed out
twice inside one object, and again after every restart.  The debug store as it is hands out 0, 1, 2, 3. -/
theorem C07_silent_debug_store_witness :
    ¬ Faithful (debugLayer false ⟨false, true, true⟩ plainLayer) ∧
    (lrun (debugLayer false ⟨true, false, true⟩ plainLayer) (linit ⟨none, false⟩)
      [.new 1, .next none, .next none, .crash .idle, .new 2, .next none]).2
      = [.ok, .num 0, .num 0, .crashed, .ok, .num 0] ∧
    (lrun (stackLayer [.debug ⟨true, false, true⟩, .flush, .realm, .debug ⟨false, true, true⟩] plainLayer) (linit ⟨none, false⟩)
      [.new 1, .next none, .next none, .crash .idle, .new 2, .next none, .next none]).2
      = [.ok, .num 0, .num 1, .crashed, .ok, .num 2, .num 3] := by
  refine ⟨?_, by decide, by decide⟩
  intro hF
  have h := hF.set_ack ⟨none, false⟩ 7 (by decide)
  revert h
  decide

/-- The hypotheses of the theorems above are satisfiable: an empty open database under the plain layer. -/
example : plainLayer.disk ⟨none, false⟩ = none ∧ (∀ op ∈ [LOp.new 3, .next (some .close), .crash .nextWrite], op.wf) := by
  refine ⟨rfl, ?_⟩
  intro op h
  simp at h
  rcases h with h | h | h <;> subst h <;> simp [LOp.wf]

/-- Non-vacuity: a history over the real `flushkv` layer with a shutdown inside a renewal, a failed `Release` on the
closed database, a reopening, a crash after the store write and a restart. -/
example :
    (lrun (flushLayer false) (linit ⟨none, false⟩)
      [.new 3, .next none, .env .close, .release, .next none, .next none, .next none, .env .reopen, .release,
       .new 2, .next (some .close), .env .reopen, .crash .nextWrite, .new 4, .next none]).2
      = [.ok, .num 0, .ok, .err, .num 1, .num 2, .err, .ok, .ok, .ok, .err, .ok, .crashed, .ok, .num 5] := by
  decide

end Hive.Seq.Layered
