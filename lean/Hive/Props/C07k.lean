import Hive.Gen.C07_Ast
/-!
# C07 — the buffer discipline of the code, read off the translated source

`Hive/Model/SeqMem.lean` proves that the stored value is a private copy *for the buffer policy `local`*: every `store.Set` is
handed an array that was allocated for this very call.  That this is the policy of kvstore/sequence.go is a fact about the
source text; here it is decided on the terms `harness/c07/srcgen` translates from the working tree on every run
(`Hive/Gen/C07_Ast.lean`): in `update` and `Release` every statement that contains a store write is immediately preceded by
`var buf [8]byte` and `binary.BigEndian.PutUint64(buf[:], e)` for the very buffer the write is handed, nothing else in the
four functions writes to the store, and no buffer is declared that is not used this way.  (A buffer field, a package-level
buffer or a pooled one does not even translate: `C07_generated_supported`.)
-/
namespace Hive.Seq.Go
open Hive.Gen.C07Ast

mutual
/-- The number of store writes in a statement, at any depth. -/
def setsS : S → Nat
  | .set _ _ => 1
  | .ite pre _ t e => setsL pre + setsL t + setsL e
  | .sw cs => setsC cs
  | _ => 0
def setsL : List S → Nat
  | [] => 0
  | s :: r => setsS s + setsL r
def setsC : List (C × List S) → Nat
  | [] => 0
  | (_, l) :: r => setsL l + setsC r
end

/-- The buffer a statement hands to `store.Set` at its top: `err = seq.store.Set(seq.key, buf[:])` or
`if err := seq.store.Set(seq.key, buf[:]); … { … }`. -/
def setBuf : S → Option Nat
  | .set _ b => some b
  | .ite [.set _ b] _ _ _ => some b
  | _ => none

def isBufStmt : S → Bool
  | .varBuf _ => true
  | .put _ _ => true
  | _ => false

/-- Every store write of the statement list is the third statement of a triple `var buf [8]byte`,
`PutUint64(buf[:], e)`, `… store.Set(seq.key, buf[:]) …` on one and the same buffer; no other statement writes to the store
or touches a buffer. -/
def localBufOk : List S → Bool
  | [] => true
  | .varBuf b :: .put b1 _ :: s :: rest => (setBuf s == some b && b1 == b && setsS s == 1) && localBufOk rest
  | s :: rest => (setsS s == 0 && !isBufStmt s) && localBufOk rest

/-- **The value buffer is a fresh local array per store write** — the policy `local` of `Hive/Model/SeqMem.lean`, decided
on the translated source: one such triple in `Release`, one in `update`, no store write and no buffer anywhere else. -/
theorem C07_generated_buffer_is_local :
    localBufOk fn_Sequence_Release = true ∧ setsL fn_Sequence_Release = 1 ∧
    localBufOk fn_Sequence_update = true ∧ setsL fn_Sequence_update = 1 ∧
    localBufOk fn_Sequence_Next = true ∧ setsL fn_Sequence_Next = 0 ∧
    localBufOk fn_NewSequence = true ∧ setsL fn_NewSequence = 0 := by
  decide

/-- The checker is not vacuous: a buffer that is filled once and handed to two writes, and a write of a buffer that was
not declared right before, are rejected. -/
example :
    localBufOk [.varBuf 0, .put 0 (.fld .next), .set 1 0, .set 1 0] = false ∧
    localBufOk [.put 0 (.fld .next), .set 1 0] = false ∧
    localBufOk [.varBuf 0, .put 0 (.fld .next), .set 1 2] = false ∧
    localBufOk [.varBuf 0, .put 0 (.fld .next), .ite [.set 1 0] (.notNil 1) [.ret [.loc 1]] []] = true := by
  decide

end Hive.Seq.Go
