import Hive.Model.SeqMem
/-!
# C07 — the value handed to `store.Set` is a fresh private copy (memory-level model `Hive/Model/SeqMem.lean`)

The aliasing obligation behind every cell-level theorem of C07: *the database holds, for every key and at every moment,
the number of the last `Set` that answered nil — as it was encoded when that call was made — and nothing but a completed
`Set` of that key changes it.*  Proved for the buffer discipline of the code (a local array per call, pinned by
`C07_source_update` / `C07_source_release` / `C07_skeleton_type_sequence` / `C07_source_decls`: `var buf [8]byte`, no
buffer field, no package-level buffer) over **every** store, copying or not, with any number of keys interleaved
arbitrarily; for a per-object buffer over copying stores only; the witnesses are the seeded changes C07-r6-1 (per-object
buffer over a store that keeps the slice) and C07-r6-2 (shared buffer, copying store).
-/
namespace Hive.Seq.Mem

theorem updA_same (f : Addr → Nat) (a : Addr) (v : Nat) : updA f a v a = v := by simp [updA]
theorem updA_other (f : Addr → Nat) (a b : Addr) (v : Nat) (h : b ≠ a) : updA f a v b = f b := by simp [updA, h]
theorem updK_same {α : Type} (f : Nat → α) (k : Nat) (v : α) : updK f k v k = v := by simp [updK]
theorem updK_other {α : Type} (f : Nat → α) (k j : Nat) (v : α) (h : j ≠ k) : updK f k v j = f j := by simp [updK, h]

/-- An address below the allocation mark. -/
def Old (m : M) (a : Addr) : Prop := ∃ n, a = .fresh n ∧ n < m.brk

theorem old_ne_brk (m : M) (a : Addr) (h : Old m a) : a ≠ .fresh m.brk := by
  obtain ⟨n, rfl, hn⟩ := h
  intro e
  injection e with e
  omega

/-- Invariant for the local buffer (any store): stored values and slices under way live at old addresses — nobody
writes there any more — and hold the acknowledged / wanted number. -/
structure InvL (m : M) : Prop where
  cellOk : ∀ k a, m.cell k = some a → Old m a ∧ m.acked k = some (m.heap a)
  cellNone : ∀ k, m.cell k = none → m.acked k = none
  pendOk : ∀ k a, m.pending k = some a → Old m a ∧ m.want k = some (m.heap a)

theorem invL_init : InvL init := by
  constructor <;> intros <;> simp_all [init]

theorem old_mono (m : M) (a : Addr) (b : Nat) (h : Old m a) (hb : m.brk ≤ b) (m' : M) (hm : m'.brk = b) : Old m' a := by
  obtain ⟨n, rfl, hn⟩ := h
  exact ⟨n, rfl, by omega⟩

theorem invL_step (copying : Bool) (m : M) (h : InvL m) (e : Ev) : InvL (step .local copying m e) := by
  cases e with
  | encode k0 v =>
    cases hp : m.pending k0 with
    | some a => simpa [step, hp] using h
    | none =>
      simp only [step, hp, bufAddr]
      constructor
      · intro k a hc
        have := h.cellOk k a hc
        refine ⟨old_mono m a _ this.1 (Nat.le_succ _) _ rfl, ?_⟩
        simp only []
        rw [updA_other _ _ _ _ (old_ne_brk m a this.1)]
        exact this.2
      · intro k hc; exact h.cellNone k hc
      · intro k a hpk
        by_cases hk : k = k0
        · subst hk
          simp only [updK_same] at hpk
          injection hpk with hpk
          subst hpk
          exact ⟨⟨m.brk, rfl, Nat.lt_succ_self _⟩, by simp [updK_same, updA_same]⟩
        · simp only [updK_other _ _ _ _ hk] at hpk ⊢
          have := h.pendOk k a hpk
          refine ⟨old_mono m a _ this.1 (Nat.le_succ _) _ rfl, ?_⟩
          rw [updA_other _ _ _ _ (old_ne_brk m a this.1)]
          exact this.2
  | commit k0 =>
    cases hp : m.pending k0 with
    | none => simpa [step, hp] using h
    | some a0 =>
      have h0 := h.pendOk k0 a0 hp
      cases copying with
      | true =>
        simp only [step, hp, if_true]
        constructor
        · intro k a hc
          by_cases hk : k = k0
          · subst hk
            simp only [updK_same] at hc ⊢
            injection hc with hc
            subst hc
            exact ⟨⟨m.brk, rfl, Nat.lt_succ_self _⟩, by rw [updA_same]; exact h0.2⟩
          · simp only [updK_other _ _ _ _ hk] at hc ⊢
            have := h.cellOk k a hc
            refine ⟨old_mono m a _ this.1 (Nat.le_succ _) _ rfl, ?_⟩
            rw [updA_other _ _ _ _ (old_ne_brk m a this.1)]
            exact this.2
        · intro k hc
          by_cases hk : k = k0
          · subst hk; simp [updK_same] at hc
          · simp only [updK_other _ _ _ _ hk] at hc ⊢
            exact h.cellNone k hc
        · intro k a hpk
          by_cases hk : k = k0
          · subst hk; simp [updK_same] at hpk
          · simp only [updK_other _ _ _ _ hk] at hpk
            have := h.pendOk k a hpk
            refine ⟨old_mono m a _ this.1 (Nat.le_succ _) _ rfl, ?_⟩
            simp only []
            rw [updA_other _ _ _ _ (old_ne_brk m a this.1)]
            exact this.2
      | false =>
        simp only [step, hp, Bool.false_eq_true, if_false]
        constructor
        · intro k a hc
          by_cases hk : k = k0
          · subst hk
            simp only [updK_same] at hc ⊢
            injection hc with hc
            subst hc
            exact ⟨h0.1, h0.2⟩
          · simp only [updK_other _ _ _ _ hk] at hc ⊢
            exact h.cellOk k a hc
        · intro k hc
          by_cases hk : k = k0
          · subst hk; simp [updK_same] at hc
          · simp only [updK_other _ _ _ _ hk] at hc ⊢
            exact h.cellNone k hc
        · intro k a hpk
          by_cases hk : k = k0
          · subst hk; simp [updK_same] at hpk
          · simp only [updK_other _ _ _ _ hk] at hpk
            exact h.pendOk k a hpk
  | refuse k0 =>
    simp only [step]
    constructor
    · exact h.cellOk
    · exact h.cellNone
    · intro k a hpk
      by_cases hk : k = k0
      · subst hk; simp [updK_same] at hpk
      · simp only [updK_other _ _ _ _ hk] at hpk
        exact h.pendOk k a hpk

theorem invL_run (copying : Bool) (m : M) (h : InvL m) (evs : List Ev) : InvL (run .local copying m evs) := by
  induction evs generalizing m with
  | nil => exact h
  | cons e es ih => exact ih _ (invL_step copying m h e)

theorem stored_of_invL (m : M) (h : InvL m) (k : Nat) : stored m k = m.acked k := by
  unfold stored
  cases hc : m.cell k with
  | none => simp [h.cellNone k hc]
  | some a => simp [(h.cellOk k a hc).2]

/-- **The stored value is a private copy (the code as it is).**  With a local buffer per call, over every store —
copying the bytes or keeping the very slice it was given —, for any number of sequence keys whose encodings and store
calls interleave in any order (also: other keys encode and write while the `Set` of this key is under way), at every
moment the database holds under every key exactly the number of the last `Set` of that key that answered nil, as it was
encoded when the call was made.  In particular the stored value never changes between store calls, a failed `Set`
changes nothing, and no key can disturb another. -/
theorem C07_stored_value_is_private_copy (copying : Bool) (evs : List Ev) (k : Nat) :
    stored (run .local copying init evs) k = (run .local copying init evs).acked k :=
  stored_of_invL _ (invL_run copying init invL_init evs) k

/-- …and a `Set` that answers nil acknowledges the number its caller encoded when it made the call (`want`), whatever
was encoded by whom in between. -/
theorem C07_commit_stores_what_was_encoded (copying : Bool) (evs : List Ev) (k : Nat) (a : Addr)
    (hp : (run .local copying init evs).pending k = some a) :
    stored (step .local copying (run .local copying init evs) (.commit k)) k = (run .local copying init evs).want k := by
  have hI := invL_run copying init invL_init evs
  have h := stored_of_invL _ (invL_step copying _ hI (.commit k)) k
  rw [h]
  cases copying <;> simp [step, hp, updK_same]

/-! ### A per-object buffer: safe over copying stores only -/

structure InvO (m : M) : Prop where
  cellOk : ∀ k a, m.cell k = some a → Old m a ∧ m.acked k = some (m.heap a)
  cellNone : ∀ k, m.cell k = none → m.acked k = none
  pendOk : ∀ k a, m.pending k = some a → a = .object k ∧ m.want k = some (m.heap a)

theorem invO_init : InvO init := by
  constructor <;> intros <;> simp_all [init]

theorem old_ne_object (m : M) (a : Addr) (k : Nat) (h : Old m a) : a ≠ .object k := by
  obtain ⟨n, rfl, _⟩ := h
  intro e
  cases e

theorem invO_step (m : M) (h : InvO m) (e : Ev) : InvO (step .perObject true m e) := by
  cases e with
  | encode k0 v =>
    cases hp : m.pending k0 with
    | some a => simpa [step, hp] using h
    | none =>
      simp only [step, hp, bufAddr]
      constructor
      · intro k a hc
        have := h.cellOk k a hc
        refine ⟨old_mono m a _ this.1 (Nat.le_succ _) _ rfl, ?_⟩
        simp only []
        rw [updA_other _ _ _ _ (old_ne_object m a k0 this.1)]
        exact this.2
      · intro k hc; exact h.cellNone k hc
      · intro k a hpk
        by_cases hk : k = k0
        · subst hk
          simp only [updK_same] at hpk
          injection hpk with hpk
          subst hpk
          exact ⟨rfl, by simp [updK_same, updA_same]⟩
        · simp only [updK_other _ _ _ _ hk] at hpk ⊢
          have := h.pendOk k a hpk
          refine ⟨this.1, ?_⟩
          have hne : a ≠ .object k0 := by
            rw [this.1]; intro e; injection e with e; exact hk e
          rw [updA_other _ _ _ _ hne]
          exact this.2
  | commit k0 =>
    cases hp : m.pending k0 with
    | none => simpa [step, hp] using h
    | some a0 =>
      have h0 := h.pendOk k0 a0 hp
      simp only [step, hp, if_true]
      constructor
      · intro k a hc
        by_cases hk : k = k0
        · subst hk
          simp only [updK_same] at hc ⊢
          injection hc with hc
          subst hc
          exact ⟨⟨m.brk, rfl, Nat.lt_succ_self _⟩, by rw [updA_same]; exact h0.2⟩
        · simp only [updK_other _ _ _ _ hk] at hc ⊢
          have := h.cellOk k a hc
          refine ⟨old_mono m a _ this.1 (Nat.le_succ _) _ rfl, ?_⟩
          rw [updA_other _ _ _ _ (old_ne_brk m a this.1)]
          exact this.2
      · intro k hc
        by_cases hk : k = k0
        · subst hk; simp [updK_same] at hc
        · simp only [updK_other _ _ _ _ hk] at hc ⊢
          exact h.cellNone k hc
      · intro k a hpk
        by_cases hk : k = k0
        · subst hk; simp [updK_same] at hpk
        · simp only [updK_other _ _ _ _ hk] at hpk
          have := h.pendOk k a hpk
          refine ⟨this.1, ?_⟩
          simp only []
          have hne : a ≠ .fresh m.brk := by rw [this.1]; intro e; cases e
          rw [updA_other _ _ _ _ hne]
          exact this.2
  | refuse k0 =>
    simp only [step]
    constructor
    · exact h.cellOk
    · exact h.cellNone
    · intro k a hpk
      by_cases hk : k = k0
      · subst hk; simp [updK_same] at hpk
      · simp only [updK_other _ _ _ _ hk] at hpk
        exact h.pendOk k a hpk

/-- A buffer field of the object instead of the local array is harmless **as long as the store copies the bytes**
(mutation M9 of design/C07.md: equivalent on `mapdb`). -/
theorem C07_per_object_buffer_needs_copying_store (evs : List Ev) (k : Nat) :
    stored (run .perObject true init evs) k = (run .perObject true init evs).acked k := by
  have hI : InvO (run .perObject true init evs) := by
    suffices ∀ m, InvO m → InvO (run .perObject true m evs) from this init invO_init
    intro m hm
    induction evs generalizing m with
    | nil => exact hm
    | cons e es ih => exact ih _ (invO_step m hm e)
  unfold stored
  cases hc : (run .perObject true init evs).cell k with
  | none => simp [hI.cellNone k hc]
  | some a => simp [(hI.cellOk k a hc).2]

/-- **Seeded change C07-r6-1** (per-object buffer + a store that keeps the slice): the lease write of `update` (1010) is
acknowledged; `Release` encodes `next` = 1004 into the same buffer and its `Set` *fails* — and the database holds 1004
although the last acknowledged write was 1010: a failed `Release` rolled the stored mark back below the lease that the
object keeps serving.  With the local buffer of the code the same events leave 1010. -/
theorem C07_aliased_buffer_witness :
    stored (run .perObject false init [.encode 0 1010, .commit 0, .encode 0 1004, .refuse 0]) 0 = some 1004 ∧
    (run .perObject false init [.encode 0 1010, .commit 0, .encode 0 1004, .refuse 0]).acked 0 = some 1010 ∧
    stored (run .local false init [.encode 0 1010, .commit 0, .encode 0 1004, .refuse 0]) 0 = some 1010 := by
  decide

/-- **Seeded change C07-r6-2** (a buffer shared by all sequences, copying store): key 0 encodes its lease end 1010 and
enters `Set`; before the database copies the bytes key 1 encodes 10 into the same buffer; the `Set` of key 0 answers nil
and the database holds 10 under key 0.  With the local buffer of the code the same interleaving stores 1010. -/
theorem C07_pooled_buffer_witness :
    stored (run .pooled true init [.encode 0 1010, .encode 1 10, .commit 0, .commit 1]) 0 = some 10 ∧
    (run .pooled true init [.encode 0 1010, .encode 1 10, .commit 0, .commit 1]).acked 0 = some 1010 ∧
    stored (run .local true init [.encode 0 1010, .encode 1 10, .commit 0, .commit 1]) 0 = some 1010 := by
  decide

/-- Non-vacuity: three keys, interleaved encodings and store calls, a refused write, over a store that keeps the slices. -/
example :
    let m := run .local false init [.encode 0 5, .encode 1 7, .commit 1, .encode 2 1, .commit 0, .refuse 2, .encode 0 9, .encode 2 3, .commit 2]
    (stored m 0, stored m 1, stored m 2, m.pending 0) = (some 5, some 7, some 3, some (.fresh 3)) := by
  decide

end Hive.Seq.Mem
