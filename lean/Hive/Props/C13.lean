import Hive.Proofs.ReactiveInst
import Hive.Proofs.ReactiveDiff
import Hive.Proofs.ReactiveVariants
import Hive.Proofs.ReactiveElements
import Hive.Proofs.ReactiveDir
import Hive.Gen.C13_Skel
/-!
# C13 — reactive subscribers see every change exactly once, in order

Property theorems only.  Model: `Hive/Model/Reactive.lean` (the protocol of ds/reactive
variable_impl.go / set_impl.go / event_impl.go / utils.go over a thread-safe callback list),
instantiated by `varObj` (Variable, and Event = Variable[bool] with the `||` transformation) and
`setObj` (Set, with the repaired `Replace`).  `Reachable o cfg` ranges over every configuration
reachable from an initial one: any number of goroutines, each with an arbitrary script of writes /
`OnUpdate` calls / unsubscribe calls, under every schedule.  A subscription's log `evs` is its
event sequence (`enter note`, `exit`, `unsubRet`); `notes evs` are the notes it was handed.

Assumption of the model: callback bodies are opaque — they do not call back into the same reactive
object (a callback that writes to or unsubscribes from its own object self-deadlocks in the code).
-/
namespace Hive.Reactive
open Hive.Conc

variable {S N : Type}

/-! ## all object kinds -/

/-- **Callbacks of one subscription never run concurrently with each other**: the event log of every
subscription is well bracketed (`enter`, `exit`, `enter`, `exit`, …). -/
theorem C13_callbacks_exclusive (o : Obj S N) {cfg : Cfg (Sh S N) (Th o.WOp N)} (h : Reachable o cfg) (c : Nat) :
    exclusive (cfg.1.cbs c).evs = true := by
  obtain ⟨b, hb, _⟩ := (h.inv.i2.cb c).scanOk
  simp [exclusive, hb]

/-- … and at quiescence (no call in progress) none is still running. -/
theorem C13_callbacks_closed (o : Obj S N) {cfg : Cfg (Sh S N) (Th o.WOp N)} (h : Reachable o cfg)
    (hq : Quiescent cfg.2) (c : Nat) : closed (cfg.1.cbs c).evs = true := by
  obtain ⟨b, hb, hbe⟩ := (h.inv.i2.cb c).scanOk
  cases b with
  | false => simp [closed, hb]
  | true => rw [quiescent_elock o h.inv hq c] at hbe; exact absurd (hbe rfl) (by simp)

/-- **No callback starts after the subscription's `unsubscribe()` call has returned.** -/
theorem C13_none_after_unsubscribe_returned (o : Obj S N) {cfg : Cfg (Sh S N) (Th o.WOp N)} (h : Reachable o cfg)
    (c : Nat) : noneAfterUnsub (cfg.1.cbs c).evs = true :=
  (h.inv.i2.cb c).nau

/-- **Exactly once, in order.**  For every subscription there is the sequence `hist` of *all*
changes of the object since the subscription was registered (each produced by a write operation,
each starting in the state the previous one ended in, from the state `s0` at registration to the
current state) such that the notes handed to the subscription are: its initial note (what `OnUpdate`
delivers for `s0`), then a prefix of `hist` — every change at most once, in order, nothing else. -/
theorem C13_exactly_once_in_order (o : Obj S N) {cfg : Cfg (Sh S N) (Th o.WOp N)} (h : Reachable o cfg)
    {c : Nat} (hc : c < cfg.1.ncb) :
    ∃ (hist : List (Entry S N)) (s0 : S) (flag : Bool) (d : Nat),
      linked s0 hist cfg.1.st ∧
      (∀ e ∈ hist, ∃ w, o.upd e.before w = .change e.after e.note) ∧
      (notes (cfg.1.cbs c).evs = (o.ini s0 flag).toList ++ (hist.take d).map (·.note) ∨
        (cfg.1.cbs c).evs = []) := by
  have hi := h.inv
  have h3 := hi.i3.cb c
  obtain ⟨flag, hflag⟩ := h3.iniOk hc
  refine ⟨(cfg.1.cbs c).since, (cfg.1.cbs c).s0, flag, (cfg.1.cbs c).d, h3.chain hc, h3.upd, ?_⟩
  rcases done_or_untouched o hi hc with hd | ⟨he, _⟩
  · left
    rw [h3.log, ← hflag]
    simp [iniPart, hd]
  · exact Or.inr he

/-- **… and all of them**: at quiescence a subscription that was never unsubscribed has been handed
its initial note followed by *every* change since its registration. -/
theorem C13_every_change_delivered (o : Obj S N) {cfg : Cfg (Sh S N) (Th o.WOp N)} (h : Reachable o cfg)
    (hq : Quiescent cfg.2) {c : Nat} (hc : c ∈ cfg.1.listed) :
    ∃ (hist : List (Entry S N)) (s0 : S) (flag : Bool),
      linked s0 hist cfg.1.st ∧
      (∀ e ∈ hist, ∃ w, o.upd e.before w = .change e.after e.note) ∧
      notes (cfg.1.cbs c).evs = (o.ini s0 flag).toList ++ hist.map (·.note) := by
  have hi := h.inv
  have hlt := hi.i1.listedLt c hc
  have h3 := hi.i3.cb c
  obtain ⟨flag, hflag⟩ := h3.iniOk hlt
  refine ⟨(cfg.1.cbs c).since, (cfg.1.cbs c).s0, flag, h3.chain hlt, h3.upd, ?_⟩
  rw [log_complete o hi hq hc, hflag]

/-- The `updateID == lastUpdate` test of `callback.LockExecution` never fires for a writer:
a writer skips a callback of its snapshot iff the callback is unsubscribed. -/
theorem C13_update_id_test_never_fires (o : Obj S N) {cfg : Cfg (Sh S N) (Th o.WOp N)} (h : Reachable o cfg)
    {t : Th o.WOp N} (ht : t ∈ cfg.2) {id : Nat} {n : Option N} {c : Nat} {rest : List Nat}
    (hpc : t.pc = .wLoop id n (c :: rest)) : (cfg.1.cbs c).takes id = !(cfg.1.cbs c).unsub := by
  have hlt := (h.inv.i2.thr t ht).lastLt c (by simp [todo, hpc])
  simp only [tid, hpc] at hlt
  cases hu : (cfg.1.cbs c).unsub with
  | true => simp [Cb.takes, hu]
  | false =>
    cases htk : (cfg.1.cbs c).takes id with
    | true => rfl
    | false => rw [takes_false_unsub hlt htk] at hu; cases hu

/-! ## Repeated and late calls of an unsubscribe function

The scripts of the model's threads are arbitrary: `unsub c` may occur any number of times, in any
thread, at any time after callback `c` was registered — so every theorem of this file already holds
for histories in which unsubscribe functions are called twice, concurrently, or long after other
subscribers came and went.  The two facts below say *why* such calls are harmless: the element an
unsubscribe function holds is the element of its own callback for ever (the callback list never
hands an element to a second subscription: `C13_skeleton_list_inner_insertValue`,
`C13_skeleton_type_list`), so a repeated `Remove` finds nothing to unlink. -/

/-- **Calling an unsubscribe function again is a no-op**: once `MarkUnsubscribed` has run for callback
`c`, a further call (by any thread, whatever was subscribed or unsubscribed in between) changes
nothing of the shared state in its `Remove` step — in particular the callback list keeps every other
subscription — and in its `MarkUnsubscribed` step only appends one more `unsubRet` to `c`'s own log. -/
theorem C13_repeated_unsubscribe_noop (o : Obj S N) {cfg : Cfg (Sh S N) (Th o.WOp N)} (h : Reachable o cfg)
    {c : Nat} (hc : c < cfg.1.ncb) (hu : (cfg.1.cbs c).unsub = true) (rest : List (Op o.WOp)) :
    step o cfg.1 { pc := .idle, script := .unsub c :: rest } = [(cfg.1, { pc := .uRm c, script := rest })] ∧
    ∀ sh' t', (sh', t') ∈ step o cfg.1 { pc := .uRm c, script := rest } →
      t' = { pc := .idle, script := rest } ∧ sh'.st = cfg.1.st ∧ sh'.uid = cfg.1.uid ∧
      sh'.listed = cfg.1.listed ∧ sh'.ncb = cfg.1.ncb ∧ (∀ i, i ≠ c → sh'.cbs i = cfg.1.cbs i) ∧
      (sh'.cbs c).unsub = true ∧ notes (sh'.cbs c).evs = notes (cfg.1.cbs c).evs := by
  have hnl : c ∉ cfg.1.listed := (h.inv.i2.cb c).unsubNL hu
  have hf : cfg.1.listed.filter (· != c) = cfg.1.listed := by
    rw [List.filter_eq_self]
    intro a ha
    simp only [bne_iff_ne, ne_eq]
    intro hac; exact hnl (hac ▸ ha)
  constructor
  · simp only [step, hc, if_true, hf]
  · intro sh' t' hm
    simp only [step] at hm
    split at hm
    · simp at hm
    · simp only [List.mem_singleton, Prod.mk.injEq] at hm
      obtain ⟨rfl, rfl⟩ := hm
      refine ⟨rfl, rfl, rfl, rfl, rfl, ?_, ?_, ?_⟩
      · intro i hi; simp [setCb, hi]
      · simp [setCb]
      · simp [setCb, notes_unsubRet]

/-- The history of seeded change r6-1 on the model: A subscribes and unsubscribes, B subscribes next, A's
unsubscribe function is called a second time, the value changes, A's function is called a third time. -/
def exLate : Cfg (Sh Nat (Nat × Nat)) (Th (varObj Nat 0 0).WOp (Nat × Nat)) :=
  runSched (sys (varObj Nat 0 0))
    (sh0 (varObj Nat 0 0), [{ script := [.sub true, .unsub 0, .sub true, .unsub 0, .write (fun _ => 5), .unsub 0] }])
    (List.replicate 30 (0, 0))

/-- … B stays in the list and is handed the change; A's log only collects `unsubRet`s. -/
theorem C13_late_unsubscribe_example :
    exLate.1.listed = [1] ∧ (exLate.1.cbs 1).evs = [.enter (0, 0), .exit, .enter (0, 5), .exit] ∧
    (exLate.1.cbs 0).evs = [.enter (0, 0), .exit, .unsubRet, .unsubRet, .unsubRet] ∧
    exLate.2.map (fun t => t.script.length) = [0] := by decide

/-! ### why the callback list must never hand an element to a second subscription

The model identifies a list element with the callback it was created for (`listed : List Nat`, a fresh
index per `PushBack`), which is what `ds.list` does: `insertValue` allocates.  A list that recycles the
most recently removed element (seeded change r6-1) breaks exactly this: the handle a stale unsubscribe
closure holds then *is* the next subscriber's element. -/

/-- A callback list with element identities: `(element id, callback)` in list order, `next` = the next fresh id,
`spare` = a recycled element (always `none` in the real list). -/
structure ElemList where
  elems : List (Nat × Nat) := []
  next : Nat := 0
  spare : Option Nat := none

/-- `PushBack` of the real list: a fresh element. -/
def ElemList.push (l : ElemList) (cb : Nat) : ElemList × Nat :=
  ({ l with elems := l.elems ++ [(l.next, cb)], next := l.next + 1 }, l.next)

/-- `PushBack` of a list that recycles the spare element. -/
def ElemList.pushRecycling (l : ElemList) (cb : Nat) : ElemList × Nat :=
  match l.spare with
  | some e => ({ l with elems := l.elems ++ [(e, cb)], spare := none }, e)
  | none => l.push cb

/-- `Remove(element)`: unlinks iff the element is in this list (`element.list == l`). -/
def ElemList.remove (l : ElemList) (e : Nat) (recycle : Bool := false) : ElemList :=
  if l.elems.any (·.1 == e) then
    { l with elems := l.elems.filter (·.1 != e), spare := if recycle then some e else l.spare }
  else l

def ElemList.values (l : ElemList) : List Nat := l.elems.map (·.2)

/-- With fresh elements a repeated `Remove` through a stale handle finds nothing, whatever was pushed in between. -/
theorem C13_fresh_elements_stale_remove_noop (l : ElemList) (hlt : ∀ p ∈ l.elems, p.1 < l.next) (cbA cbB : Nat) :
    let (l1, a) := l.push cbA
    let l2 := l1.remove a
    let (l3, _) := l2.push cbB
    (l3.remove a).values = l3.values ∧ cbB ∈ (l3.remove a).values := by
  have hne : ∀ p ∈ l.elems, (p.1 == l.next) = false := fun p hp => by
    have := hlt p hp; simp; omega
  have hnone : l.elems.any (fun p => p.1 == l.next) = false := by
    rw [List.any_eq_false]; intro p hp; simp [hne p hp]
  have hfilter : l.elems.filter (fun p => p.1 != l.next) = l.elems := by
    rw [List.filter_eq_self]; intro p hp; simp [bne, hne p hp]
  simp only [ElemList.push, ElemList.remove, ElemList.values, List.any_append, List.any_cons, List.any_nil,
    BEq.rfl, Bool.or_false, Bool.or_true, if_true, List.filter_append, hfilter, List.filter_cons, bne_self_eq_false,
    Bool.false_eq_true, if_false, List.filter_nil, List.append_nil, hnone, Bool.false_or]
  have h1 : (l.next + 1 == l.next) = false := by simp
  simp [h1]

/-- The recycling list of seeded change r6-1: A subscribes and unsubscribes, B subscribes (and is given A's
element), A's unsubscribe function is called again — B is gone from the list. -/
theorem C13_recycled_element_witness :
    let l0 : ElemList := {}
    let (l1, a) := l0.pushRecycling 0
    let l2 := l1.remove a true
    let (l3, _) := l2.pushRecycling 1
    l3.values = [1] ∧ (l3.remove a true).values = [] := by decide

/-! ## Variable and Event -/
section Var
variable {V : Type} [DecidableEq V] (zero init : V)

/-- **C13 chain.** Every subscription's notes are `(zero,a₀),(a₀,a₁),…`: the first previous value is
the zero value, each note's previous value equals the preceding note's new value. -/
theorem C13_chain {cfg : Cfg (Sh V (V × V)) (Th (varObj V zero init).WOp (V × V))}
    (h : Reachable (varObj V zero init) cfg) {c : Nat} (hc : c < cfg.1.ncb) :
    chainFrom zero (notes (cfg.1.cbs c).evs) = true := by
  have hi := h.inv
  have h3 := hi.i3.cb c
  have hch := chain_take (h3.chain hc) (fun e he => (var_entry (h3.upd e he)).1) (cfg.1.cbs c).d
  rcases done_or_untouched _ hi hc with hd | ⟨he, _⟩
  · rw [h3.log]
    obtain ⟨flag, hflag⟩ := h3.iniOk hc
    simp only [iniPart, hd, if_true, hflag, varObj]
    split
    · simp only [Option.toList, List.cons_append, List.nil_append, chainFrom, decide_true, Bool.true_and]
      exact hch
    · next hno =>
      have hz : (cfg.1.cbs c).s0 = zero := by
        apply Classical.byContradiction; intro hne; exact hno (Or.inl hne)
      simp only [Option.toList, List.nil_append]
      rw [← hz]; exact hch
  · rw [he]; rfl

/-- **C13 last is final.** At quiescence the last value reported to a subscription that was never
unsubscribed equals `Get()` (the zero value if nothing was ever reported). -/
theorem C13_last_is_final {cfg : Cfg (Sh V (V × V)) (Th (varObj V zero init).WOp (V × V))}
    (h : Reachable (varObj V zero init) cfg) (hq : Quiescent cfg.2) {c : Nat} (hc : c ∈ cfg.1.listed) :
    lastNew zero (notes (cfg.1.cbs c).evs) = cfg.1.st := by
  have hi := h.inv
  have hlt := hi.i1.listedLt c hc
  have h3 := hi.i3.cb c
  rw [log_complete _ hi hq hc]
  rw [lastNew_linked (h3.chain hlt) (fun e he => (var_entry (h3.upd e he)).1)]
  split
  · next hnil =>
    have hst : (cfg.1.cbs c).s0 = cfg.1.st := by
      have := h3.chain hlt; rw [hnil] at this; exact this
    obtain ⟨flag, hflag⟩ := h3.iniOk hlt
    rw [hflag]
    simp only [varObj]
    split
    · simp [lastNew, hst]
    · next hno =>
      have hz : (cfg.1.cbs c).s0 = zero := by
        apply Classical.byContradiction; intro hne; exact hno (Or.inl hne)
      simp [lastNew, ← hst, hz]
  · rfl

/-- The predicate `drv_c13` evaluates on a Variable / Event log recorded at quiescence holds for
every subscription of the model (`active` = the subscription is still in the callback list). -/
theorem C13_var_trace_ok {cfg : Cfg (Sh V (V × V)) (Th (varObj V zero init).WOp (V × V))}
    (h : Reachable (varObj V zero init) cfg) (hq : Quiescent cfg.2) {c : Nat} (hc : c < cfg.1.ncb) :
    varOk zero (decide (c ∈ cfg.1.listed)) cfg.1.st (cfg.1.cbs c).evs = true := by
  simp only [varOk, Bool.and_eq_true, Bool.or_eq_true, Bool.not_eq_true', decide_eq_false_iff_not,
    decide_eq_true_eq]
  refine ⟨⟨⟨C13_callbacks_closed _ h hq c, C13_none_after_unsubscribe_returned _ h c⟩, C13_chain zero init h hc⟩, ?_⟩
  by_cases hl : c ∈ cfg.1.listed
  · exact Or.inr (C13_last_is_final zero init h hq hl)
  · exact Or.inl hl

end Var

/-! ## Event (`event_impl.go`): a `Variable[bool]` whose transformation is `current || new`

Every clause, stated for the Event explicitly (the twin of the Variable and Set statements): the
protocol is the Variable's (`event` embeds `Variable[bool]`, `OnTrigger` is `OnUpdate`, `Trigger` is
`Set(true)`: `C13_skeleton_type_event`, `C13_skeleton_event_*`). -/

/-- The whole C13 predicate holds for every `OnUpdate` / `OnTrigger` subscription of an Event at quiescence;
its callbacks never overlap and none starts after its unsubscribe call returned, in every reachable
configuration. -/
theorem C13_event_trace_ok {cfg : Cfg (Sh Bool (Bool × Bool)) (Th eventObj.WOp (Bool × Bool))}
    (h : Reachable eventObj cfg) {c : Nat} (hc : c < cfg.1.ncb) :
    exclusive (cfg.1.cbs c).evs = true ∧ noneAfterUnsub (cfg.1.cbs c).evs = true ∧
    chainFrom false (notes (cfg.1.cbs c).evs) = true ∧
    (Quiescent cfg.2 → varOk false (decide (c ∈ cfg.1.listed)) cfg.1.st (cfg.1.cbs c).evs = true) :=
  ⟨C13_callbacks_exclusive _ h c, C13_none_after_unsubscribe_returned _ h c, C13_chain false false h hc,
    fun hq => C13_var_trace_ok false false h hq hc⟩

/-! ## Set -/

/-- **C13 set fold, sequentially**: the mutation `Apply` / `Compute` / the repaired `Replace` report
is the true difference — folding it (additions, then deletions) into the previous contents gives
the new contents. -/
theorem C13_set_fold_step (init s : List Nat) (op : SetOp) (s' : List Nat) (m : Mut)
    (h : (setObj init).upd s op = .change s' m) : sameSet (foldStep s m) s' = true := by
  rw [sameSet_iff]
  intro x
  exact (set_entry (e := { before := s, note := m, after := s' }) ⟨op, h⟩ x).symm

/-- The unrepaired `Replace` violated it: `Replace({2,3})` on `{1,2}` folded to `{3}`. -/
theorem C13_old_replace_witness :
    (replaceMutOld [1, 2] [2, 3]).1 = [2, 3] ∧ foldStep [1, 2] (replaceMutOld [1, 2] [2, 3]).2 = [3] :=
  replaceMutOld_witness

/-- Why the repaired `replace` takes a private snapshot of its argument before anything else: read
live (three reads), `s.Replace(s)` on `{1,2}` empties the set and reports no change. -/
theorem C13_replace_needs_snapshot_witness :
    replaceMutLive [1, 2] [1, 2] [1, 2] [] = ([], ([], [])) ∧
      foldStep [1, 2] (replaceMutLive [1, 2] [1, 2] [1, 2] []).2 = [1, 2] :=
  replaceMutLive_self_witness

/-- With the snapshot, `Replace` of the set by itself (or by a view of it) changes nothing and says so. -/
theorem C13_replace_self (init s : List Nat) :
    (setObj init).upd s (.replaceView id) = .change s (s.filter (fun x => !s.contains x), s.filter (fun x => !s.contains x)) ∧
      sameSet (foldStep s (replaceMut s s).2) s = true := by
  refine ⟨rfl, ?_⟩
  rw [sameSet_iff]
  intro x
  exact (replaceMut_fold s s x).symm

/-- `Set.Decode` (deserialisation: the decoded elements are merged into the contents under the value
mutex only — no update-order mutex, no id, no callback; `C13_skeleton_set_Decode`) is not one of the
writers the property quantifies over, and must not be used on a set that already has subscribers:
a subscriber of `{1}` folds to `{1}` while the contents after `Decode({2})` are `{1,2}`, and a later
`Delete(2)` reports a deletion of something that was never reported as added. -/
def decodeMerge (s xs : List Nat) : List Nat := s ++ xs.filter (fun x => !s.contains x)

theorem C13_decode_is_not_a_writer_witness :
    decodeMerge [1] [2] = [1, 2] ∧ sameSet (foldNotes [([1], [])]) (decodeMerge [1] [2]) = false ∧
      (setObj []).upd (decodeMerge [1] [2]) (.apply ([], [2])) = .change [1] ([], [2]) ∧
      trueDiffs [([1], []), ([], [2])] = false :=
  ⟨by decide, by decide, rfl, by decide⟩

/-- **C13 set fold.** At quiescence, folding the mutations reported to a subscription that was never
unsubscribed (starting from the empty set) reproduces the set's contents. -/
theorem C13_set_fold (init : List Nat) {cfg : Cfg (Sh (List Nat) Mut) (Th (setObj init).WOp Mut)}
    (h : Reachable (setObj init) cfg) (hq : Quiescent cfg.2) {c : Nat} (hc : c ∈ cfg.1.listed) :
    sameSet (foldNotes (notes (cfg.1.cbs c).evs)) cfg.1.st = true := by
  have hi := h.inv
  have hlt := hi.i1.listedLt c hc
  have h3 := hi.i3.cb c
  rw [sameSet_iff, log_complete _ hi hq hc, foldNotes, List.foldl_append]
  apply fold_linked (h3.chain hlt) (fun e he => set_entry (h3.upd e he))
  intro x
  obtain ⟨flag, hflag⟩ := h3.iniOk hlt
  rw [hflag]
  simp only [setObj]
  split
  · simp [Option.toList, foldStep]
  · next hno =>
    have : (cfg.1.cbs c).s0 = [] := by
      cases hs : (cfg.1.cbs c).s0 with
      | nil => rfl
      | cons a r => simp [hs] at hno
    simp [Option.toList, this]

/-- **Every reported mutation is a true difference, in the order of the changes**: at any moment, under
any schedule, the notes handed to a Set subscription (its initial note included) never add an element
that the notes before already added and did not delete since, and never delete an element that is
not there ("delete 7" never precedes "add 7").  Together with `C13_set_fold` this is clause (b) at
every prefix of the log, not only at quiescence. -/
theorem C13_set_notes_true_difference (init : List Nat) {cfg : Cfg (Sh (List Nat) Mut) (Th (setObj init).WOp Mut)}
    (h : Reachable (setObj init) cfg) {c : Nat} (hc : c < cfg.1.ncb) :
    trueDiffs (notes (cfg.1.cbs c).evs) = true :=
  set_notes_trueDiffs init h.inv hc

/-- The predicate `drv_c13` evaluates on a Set log recorded at quiescence holds for every
subscription of the model. -/
theorem C13_set_trace_ok (init : List Nat) {cfg : Cfg (Sh (List Nat) Mut) (Th (setObj init).WOp Mut)}
    (h : Reachable (setObj init) cfg) (hq : Quiescent cfg.2) {c : Nat} (hc : c < cfg.1.ncb) :
    setOk (decide (c ∈ cfg.1.listed)) cfg.1.st (cfg.1.cbs c).evs = true := by
  simp only [setOk, Bool.and_eq_true, Bool.or_eq_true, Bool.not_eq_true', decide_eq_false_iff_not]
  refine ⟨⟨⟨C13_callbacks_closed _ h hq c, C13_none_after_unsubscribe_returned _ h c⟩,
    C13_set_notes_true_difference init h hc⟩, ?_⟩
  by_cases hl : c ∈ cfg.1.listed
  · exact Or.inr (C13_set_fold init h hq hl)
  · exact Or.inl hl

/-! ## The subscription variants: `OnUpdateOnce`, `WithValue` / `WithNonEmptyValue`, `OnUpdateWithContext`

Each variant is a sequential machine over the note stream of one inner `OnUpdate` subscription
(`Hive/Spec/ReactiveVariants.lean`); sequential because callbacks of one subscription never overlap
(`C13_callbacks_exclusive`), and the stream is what `C13_exactly_once_in_order` says.  The theorems
hold for every stream, every condition and every callback body. -/
section Variants

/-- `OnUpdateOnce`: the callback runs at most once … -/
theorem C13_once_at_most_one {N : Type} (cond : N → Bool) (fired : Bool) (stream : List N) :
    (onceRun cond fired stream).2.length ≤ 1 :=
  onceRun_length cond fired stream

/-- … namely for the first note of the stream that satisfies the condition (the initial note
`(zero, current)` of a non-zero variable counts), with exactly that note … -/
theorem C13_once_first_match {N : Type} (cond : N → Bool) (stream : List N) :
    (onceRun cond false stream).2 = (stream.find? cond).toList :=
  onceRun_calls cond stream

/-- … and never again, however the stream continues (concurrent writers included). -/
theorem C13_once_never_again {N : Type} (cond : N → Bool) (s1 s2 : List N)
    (h : (s1.find? cond).isSome = true) : (onceRun cond false (s1 ++ s2)).2 = (onceRun cond false s1).2 := by
  rw [onceRun_append, onceRun_state, h, onceRun_fired]; simp

/-- In the protocol: what an `OnUpdateOnce` built on subscription `c` calls back with is the first
matching note of "initial note, then the changes since registration". -/
theorem C13_once_in_protocol {V : Type} [DecidableEq V] (zero init : V) (cond : V × V → Bool)
    {cfg : Cfg (Sh V (V × V)) (Th (varObj V zero init).WOp (V × V))} (h : Reachable (varObj V zero init) cfg) (c : Nat) :
    (onceRun cond false (notes (cfg.1.cbs c).evs)).2 =
      ((iniPart (cfg.1.cbs c) ++ ((cfg.1.cbs c).since.take (cfg.1.cbs c).d).map (·.note)).find? cond).toList := by
  rw [onceRun_calls, log_shape _ h.inv c]

/-- `WithValue`: setups and teardowns strictly alternate, each teardown is the one returned by the
setup right before it (so it runs exactly once, before the next setup). -/
theorem C13_withvalue_alternates {V : Type} [DecidableEq V] (cond : V → Bool) (vals : List V) :
    wvAlternates (wvRun cond none vals).2 = true := by
  simp [wvAlternates, wvRun_scan]

/-- … and after the final teardown (the function `WithValue` returns) nothing is left set up. -/
theorem C13_withvalue_closed_after_teardown {V : Type} [DecidableEq V] (cond : V → Bool) (vals : List V) :
    wvClosed ((wvRun cond none vals).2 ++ wvUnsub (wvRun cond none vals).1) = true := by
  simp [wvClosed, List.foldl_append, wvRun_scan, wvUnsub_scan]

/-- `setup` is called for the value at subscription time and each later value that satisfies the
condition — each once, in order. -/
theorem C13_withvalue_setups {V : Type} [DecidableEq V] (cond : V → Bool) (vals : List V) :
    wvSetups (wvRun cond none vals).2 = vals.filter cond :=
  wvRun_setups cond none vals

/-- In the protocol: at quiescence a `WithValue` / `WithNonEmptyValue` built on a subscription that was never
unsubscribed (and has been handed its initial note — `WithValue` always asks for it) is set up for exactly the
current value of the variable if that value satisfies the condition, and for nothing otherwise — under
every schedule of writers. -/
theorem C13_withvalue_in_protocol {V : Type} [DecidableEq V] (zero init : V) (cond : V → Bool)
    {cfg : Cfg (Sh V (V × V)) (Th (varObj V zero init).WOp (V × V))} (h : Reachable (varObj V zero init) cfg)
    (hq : Quiescent cfg.2) {c : Nat} (hc : c ∈ cfg.1.listed) (hne : notes (cfg.1.cbs c).evs ≠ []) :
    (wvRun cond none ((notes (cfg.1.cbs c).evs).map (·.2))).1 = if cond cfg.1.st then some cfg.1.st else none := by
  have hl := C13_last_is_final zero init h hq hc
  rw [wvRun_state, List.getLast?_map]
  cases hg : (notes (cfg.1.cbs c).evs).getLast? with
  | none => exact absurd (List.getLast?_eq_none_iff.mp hg) hne
  | some x =>
    simp only [lastNew, hg, Option.map_some, Option.getD_some] at hl
    simp [hl]

/-- `OnUpdateWithContext`: when a callback starts, every `withinContext` subscription of the previous
callback has been torn down (once, in registration order); the unsubscribe function tears down the
last ones; the user callback sees exactly the notes of the stream. -/
theorem C13_context_torn_down {N : Type} (body : Nat → N → List Bool) (stream : List N) :
    ctxOk (ctxRun body {} stream).2 = true ∧
    ctxClosed ((ctxRun body {} stream).2 ++ ctxUnsub (ctxRun body {} stream).1) = true ∧
    ctxCalls (ctxRun body {} stream).2 = stream := by
  have h := ctxRun_scan body {} stream
  refine ⟨by simp [ctxOk, h], ?_, ctxRun_calls body {} stream⟩
  simp [ctxClosed, List.foldl_append, h, ctxUnsub_scan]

/-- concrete runs of the three machines -/
example : (onceRun (fun n : Nat × Nat => n.2 % 2 == 1) false [(0, 2), (2, 3), (3, 5)]).2 = [(2, 3)] := by decide

example : (wvRun (fun v : Nat => v != 0) none [0, 3, 4, 0, 2]).2
    = [.setup 3, .teardown 3, .setup 4, .teardown 4, .setup 2] := by decide

example : (ctxRun (fun _ (n : Nat × Nat) => List.replicate (n.2 % 3) true) {} [(0, 2), (2, 4), (4, 3)]).2
    = [.call (0, 2), .sub (0, 0), .sub (0, 1), .down (0, 0), .down (0, 1), .call (2, 4), .sub (1, 0), .down (1, 0),
       .call (4, 3)] := by decide

end Variants

/-! ## `ReadableSet.WithElements`, the subscription variant of the Set

A sequential machine over the note stream of one inner `OnUpdate` subscription
(`Hive/Spec/ReactiveElements.lean`), for every condition and every `setup` (`hasTd x` = `setup(x)`
returns a teardown function). -/
section Elements

/-- **What is set up is what is there**: after any stream of notes a teardown function is pending for
exactly the elements of the folded contents that satisfy the condition (and whose `setup` returned one). -/
theorem C13_withelements_active (cond hasTd : Nat → Bool) (ms : List Mut) (x : Nat) :
    x ∈ (weRun cond hasTd [] ms).1 ↔ x ∈ foldNotes ms ∧ cond x = true ∧ hasTd x = true :=
  weRun_active cond hasTd ms [] [] (by simp) x

/-- On a stream of true differences (what `C13_set_notes_true_difference` says the inner subscription
gets) `setup(x)` is never called again before the teardown of the previous `setup(x)` ran, and every
teardown call belongs to a pending setup (each teardown function runs at most once). -/
theorem C13_withelements_alternates (cond hasTd : Nat → Bool) (ms : List Mut) (hd : trueDiffs ms = true)
    (hn : addsNodup ms) : weOk hasTd (weRun cond hasTd [] ms).2 = true := by
  simp [weOk, weRun_scan cond hasTd ms [] [] (by simp) hd hn]

/-- … and after the function `WithElements` returned has run, nothing is left set up. -/
theorem C13_withelements_closed_after_teardown (cond hasTd : Nat → Bool) (ms : List Mut) (hd : trueDiffs ms = true)
    (hn : addsNodup ms) :
    weClosed hasTd ((weRun cond hasTd [] ms).2 ++ weUnsub (weRun cond hasTd [] ms).1) = true := by
  simp [weClosed, List.foldl_append, weRun_scan cond hasTd ms [] [] (by simp) hd hn,
    weUnsub_scan hasTd _ (weRun_nodup cond hasTd ms [] List.nodup_nil)]

/-- In the protocol: at quiescence a `WithElements` built on a subscription that was never unsubscribed is
set up for exactly the matching elements of the set's contents — under every schedule. -/
theorem C13_withelements_in_protocol (init : List Nat) (cond hasTd : Nat → Bool)
    {cfg : Cfg (Sh (List Nat) Mut) (Th (setObj init).WOp Mut)} (h : Reachable (setObj init) cfg)
    (hq : Quiescent cfg.2) {c : Nat} (hc : c ∈ cfg.1.listed) (x : Nat) :
    x ∈ (weRun cond hasTd [] (notes (cfg.1.cbs c).evs)).1 ↔ x ∈ cfg.1.st ∧ cond x = true ∧ hasTd x = true := by
  rw [C13_withelements_active, (sameSet_iff _ _).mp (C13_set_fold init h hq hc) x]

/-- a concrete run: condition "odd", `setup(5)` returns nil -/
example : (weRun (fun x => x % 2 == 1) (fun x => x != 5) [] [([1, 2, 3], []), ([5, 7], [1]), ([], [3, 5, 2])]).2
    = [.setup 1, .setup 3, .setup 5, .setup 7, .teardown 1, .teardown 3] := by decide

example : trueDiffs [([1, 2, 3], []), ([5, 7], [1]), ([], [3, 5, 2])] = true ∧
    addsNodup [([1, 2, 3], []), ([5, 7], [1]), ([], [3, 5, 2])] := by
  refine ⟨by decide, ?_⟩
  intro m hm
  simp only [List.mem_cons, List.not_mem_nil, or_false] at hm
  rcases hm with rfl | rfl | rfl <;> decide

end Elements

/-! ## Directed schedules, the early return of `Apply`, calls without effect -/

/-- **Every answer of a directed case comes from a reachable configuration**: whatever sequence of
director lines (`go write …`, `go sub …`, `go unsub …`, `release …`, `finish`, …) `drv_c13` is fed, the
configuration it holds — whose thread statuses and subscription logs it prints, to be compared with
what the real goroutines did — is reachable in the protocol model, so every theorem above applies to
those logs. -/
theorem C13_directed_reachable (o : Obj S N) (f : Dir.Fmt o) (lines : List (List String)) :
    Reachable o (Dir.cfg (Dir.run o f lines)) :=
  Dir.good_run o f lines

/-- … for instance: every log a directed Variable case prints is well bracketed, has no callback after
an `unsubscribe()` return, and is a `(previous,new)` chain from the zero value. -/
theorem C13_directed_logs_ok (event : Bool) (lines : List (List String)) (c : Nat) :
    let d := Dir.run Dir.varO (Dir.varFmt event) lines
    exclusive (d.sh.cbs c).evs = true ∧ noneAfterUnsub (d.sh.cbs c).evs = true ∧
      (c < d.sh.ncb → chainFrom 0 (notes (d.sh.cbs c).evs) = true) := by
  intro d
  have h := C13_directed_reachable Dir.varO (Dir.varFmt event) lines
  exact ⟨C13_callbacks_exclusive _ h c, C13_none_after_unsubscribe_returned _ h c, fun hc => C13_chain 0 0 h hc⟩

/-- The Set twin: every log a directed Set case prints is well bracketed, has no callback after an
`unsubscribe()` return, and consists of true differences. -/
theorem C13_directed_set_logs_ok (init : List Nat) (lines : List (List String)) (c : Nat) :
    let d := Dir.run (setObj init) (Dir.setFmt init) lines
    exclusive (d.sh.cbs c).evs = true ∧ noneAfterUnsub (d.sh.cbs c).evs = true ∧
      (c < d.sh.ncb → trueDiffs (notes (d.sh.cbs c).evs) = true) := by
  intro d
  have h := C13_directed_reachable (setObj init) (Dir.setFmt init) lines
  exact ⟨C13_callbacks_exclusive _ h c, C13_none_after_unsubscribe_returned _ h c,
    fun hc => C13_set_notes_true_difference init h hc⟩

/-- A directed case on the model (it is the first entry of the directed corpus of `harness/c13/dir.go`): three
subscriptions of the set `{1,2}`, the second invocation of subscription 0 is gated; `Replace({2,3})` stands at that
gate holding its snapshot `[0,1,2]`; subscription 1 is unsubscribed meanwhile; the gate is opened. -/
def exDir : Dir.D (setObj [1, 2]) :=
  let o := setObj [1, 2]
  let d1 := Dir.spawn o { Dir.D.init o with gates := [(0, 1)] } (.sub true)
  let d2 := Dir.spawn o (Dir.spawn o d1 (.sub true)) (.sub true)
  let d3 := Dir.spawn o d2 (.write (.replace [2, 3]))
  let d4 := Dir.spawn o d3 (.unsub 1)
  Dir.settle o 200 { d4 with held := d4.held.erase 0 }

/-- … subscription 1 gets nothing after its `unsubscribe()` returned, subscription 2 — behind it in the writer's
snapshot — still gets the `Replace` (`+{3} -{1}`), everybody has finished. -/
theorem C13_directed_unsubscribed_in_snapshot_example :
    (exDir.sh.cbs 1).evs = [.enter ([1, 2], []), .exit, .unsubRet] ∧
    (exDir.sh.cbs 2).evs = [.enter ([1, 2], []), .exit, .enter ([3], [1]), .exit] ∧
    exDir.sh.st = [2, 3] ∧ exDir.ths.all Dir.finished = true := by decide

/-- The early return of `Set.Apply` (empty mutations: no lock taken, `Obj.early`) does what the locked
path would have done with the same argument: nothing — no change, no id consumed. -/
theorem C13_early_return_is_noop (init s : List Nat) (w : SetOp) (h : (setObj init).early w = true) :
    (setObj init).upd s w = .quiet false := by
  cases w with
  | apply m => simp [setObj] at h; simp [setObj, setUpd, h]
  | compute g => simp [setObj] at h
  | replace els => simp [setObj] at h
  | replaceView g => simp [setObj] at h

/-- A Variable / Event never returns early. -/
theorem C13_variable_never_early {V : Type} [DecidableEq V] (zero init : V) (w : (varObj V zero init).WOp) :
    (varObj V zero init).early w = false := rfl

/-- Calls without effect (`Add` of a present element, `Delete` of an absent one — the `idle` lines of the
sequential differential): the update id is consumed, nobody is notified. -/
theorem C13_idle_call_quiet (s : List Nat) (x : Nat) :
    (s.contains x = true → setUpd s (.apply ([x], [])) = .quiet true) ∧
    (s.contains x = false → setUpd s (.apply ([], [x])) = .quiet true) := by
  constructor
  · intro h
    have hm : x ∈ s := by simpa using h
    simp [setUpd, Mut.isEmpty, applyMut, hm]
  · intro h
    have hm : ¬ x ∈ s := by simpa using h
    simp [setUpd, Mut.isEmpty, applyMut, hm]

/-! ## Non-vacuity: a concrete schedule, replayed on the model -/

/-- writer `Set(5); Set(7)`, a subscriber `OnUpdate(cb)`, an unsubscriber of subscription 0 -/
def exThreads : List (Th (varObj Nat 0 0).WOp (Nat × Nat)) :=
  [{ script := [.write (fun _ => 5), .write (fun _ => 7), .write (fun _ => 9)] }, { script := [.sub false, .sub true] },
   { script := [.unsub 0] }]

/-- `Set(5)` completes; subscription 0 registers and gets `(0,5)`; `Set(7)` is delivered as `(5,7)`;
subscription 0 is unsubscribed; subscription 1 registers (`(0,7)`); `Set(9)` reaches only it. -/
def exSched : List (Nat × Nat) :=
  List.replicate 5 (0, 0) ++ List.replicate 5 (1, 0) ++ List.replicate 7 (0, 0) ++ List.replicate 2 (2, 0) ++
    List.replicate 5 (1, 0) ++ List.replicate 8 (0, 0)

def exCfg := runSched (sys (varObj Nat 0 0)) (sh0 (varObj Nat 0 0), exThreads) exSched

theorem exCfg_reachable : Reachable (varObj Nat 0 0) exCfg :=
  ⟨(sh0 (varObj Nat 0 0), exThreads), ⟨rfl, by simp [exThreads]⟩, runSched_reach _ _ _⟩

/-- The hypotheses of the theorems are satisfiable by a non-trivial state: two subscriptions with
notes, one unsubscribed, quiescent. -/
example :
    (exCfg.1.cbs 0).evs = [.enter (0, 5), .exit, .enter (5, 7), .exit, .unsubRet] ∧
    (exCfg.1.cbs 1).evs = [.enter (0, 7), .exit, .enter (7, 9), .exit] ∧
    exCfg.1.listed = [1] ∧ exCfg.1.ncb = 2 ∧ exCfg.1.st = 9 ∧ exCfg.2.map (fun t => t.script.length) = [0, 0, 0] := by
  decide

example : Quiescent exCfg.2 := by
  intro t ht
  have : exCfg.2.all (fun t => match t.pc with | .idle => true | _ => false) = true := by decide
  rw [List.all_eq_true] at this
  have := this t ht
  split at this <;> simp_all

example : lastNew 0 (notes (exCfg.1.cbs 1).evs) = 9 := by decide

/-- Event = `Variable[bool]` with the transformation `current || new`: the chain theorem applies. -/
example {cfg : Cfg (Sh Bool (Bool × Bool)) (Th eventObj.WOp (Bool × Bool))} (h : Reachable eventObj cfg)
    {c : Nat} (hc : c < cfg.1.ncb) : chainFrom false (notes (cfg.1.cbs c).evs) = true :=
  C13_chain false false h hc

/-- Set: `{1,2}`; a subscriber registers (initial note `+{1,2}`); `Replace({2,3})`; `Apply(+{2,4} -{3})`. -/
def exSetThreads : List (Th (setObj [1, 2]).WOp Mut) :=
  [{ script := [.sub false] }, { script := [.write (.replace [2, 3]), .write (.apply ([2, 4], [3]))] }]

def exSetCfg := runSched (sys (setObj [1, 2])) (sh0 (setObj [1, 2]), exSetThreads)
  (List.replicate 5 (0, 0) ++ List.replicate 14 (1, 0))

theorem exSetCfg_reachable : Reachable (setObj [1, 2]) exSetCfg :=
  ⟨(sh0 (setObj [1, 2]), exSetThreads), ⟨rfl, by simp [exSetThreads]⟩, runSched_reach _ _ _⟩

/-- The hypotheses of `C13_set_fold` are satisfiable by a non-trivial quiescent state, and its
conclusion can be observed on it. -/
example :
    (exSetCfg.1.cbs 0).evs = [.enter ([1, 2], []), .exit, .enter ([3], [1]), .exit, .enter ([4], [3]), .exit] ∧
    exSetCfg.1.listed = [0] ∧ exSetCfg.1.st = [2, 4] ∧ foldNotes (notes (exSetCfg.1.cbs 0).evs) = [2, 4] ∧
    exSetCfg.2.all (fun t => match t.pc with | .idle => true | _ => false) = true := by
  decide

/-- `C13_set_fold_step` on a concrete `Replace`: `{1,2}.Replace({2,3})` reports `+{3} -{1}`. -/
example : (setObj []).upd [1, 2] (.replace [2, 3]) = .change [2, 3] ([3], [1]) := rfl

/-! ## Regenerated tie: the synchronisation skeletons the protocol model was written against

`Hive/Gen/C13_Skel.lean` is regenerated from ds/reactive on every run.  The model's thread programs
are these skeletons: a writer takes the update-order mutex for the whole call, updates under the
value mutex (id bump and `Values()` snapshot inside), then per callback `LockExecution` /
`Invoke` / `UnlockExecution`; `OnUpdate` does `PushBack` and `LockExecution` *before* releasing the
value mutex and invokes afterwards, with the unlock deferred; unsubscribing is `Remove` then
`MarkUnsubscribed`; `LockExecution` unlocks on its skip path, `MarkUnsubscribed` holds the execution
mutex; `set.replace` reads its argument exactly once (`elements.ToSlice`, the private snapshot), under the
value mutex and before the two filters and `value.Replace` (see `C13_replace_needs_snapshot_witness`). -/
section Skel
open Hive.Gen.C13Skel

theorem C13_skeleton_variable_Compute : skel_variable_Compute =
    ["lock v.updateOrderMutex", "defer unlock v.updateOrderMutex", "call v.updateValue", "for{",
      "call registeredCallback.LockExecution", "if{", "call registeredCallback.Invoke",
      "call registeredCallback.UnlockExecution", "}if", "}for", "return"] := by decide

theorem C13_skeleton_variable_updateValue : skel_variable_updateValue =
    ["lock v.valueMutex", "defer unlock v.valueMutex", "if{", "call v.uniqueUpdateID.Next",
      "call v.registeredCallbacks.Values", "}if", "return"] := by decide

theorem C13_skeleton_variable_OnUpdate : skel_readableVariable_OnUpdate =
    ["lock r.valueMutex", "call r.registeredCallbacks.PushBack", "call createdCallback.LockExecution",
      "defer call createdCallback.UnlockExecution", "unlock r.valueMutex", "if{", "call createdCallback.Invoke", "}if",
      "func{", "call r.registeredCallbacks.Remove", "call createdCallback.MarkUnsubscribed", "}func", "return"] := by
  decide

theorem C13_skeleton_callback_LockExecution : skel_callback_LockExecution =
    ["lock c.executionMutex", "if{", "unlock c.executionMutex", "return", "}if", "return"] := by decide

theorem C13_skeleton_callback_UnlockExecution : skel_callback_UnlockExecution = ["unlock c.executionMutex"] := by
  decide

theorem C13_skeleton_callback_MarkUnsubscribed : skel_callback_MarkUnsubscribed =
    ["lock c.executionMutex", "defer unlock c.executionMutex"] := by decide

theorem C13_skeleton_set_Apply : skel_set_Apply =
    ["if{", "return", "}if", "lock s.mutex", "defer unlock s.mutex", "call s.apply", "if{", "return", "}if", "for{",
      "call registeredCallback.LockExecution", "if{", "call registeredCallback.Invoke",
      "call registeredCallback.UnlockExecution", "}if", "}for", "return"] := by decide

theorem C13_skeleton_set_Compute : skel_set_Compute =
    ["lock s.mutex", "defer unlock s.mutex", "call s.apply", "for{", "call registeredCallback.LockExecution", "if{",
      "call registeredCallback.Invoke", "call registeredCallback.UnlockExecution", "}if", "}for", "return"] := by decide

theorem C13_skeleton_set_Replace : skel_set_Replace =
    ["lock s.mutex", "defer unlock s.mutex", "call s.replace", "for{", "call registeredCallback.LockExecution", "if{",
      "call registeredCallback.Invoke", "call registeredCallback.UnlockExecution", "}if", "}for", "return"] := by decide

theorem C13_skeleton_set_apply : skel_set_apply =
    ["lock s.readableSet.mutex", "defer unlock s.readableSet.mutex", "call s.value.Apply", "call s.uniqueUpdateID.Next",
      "call s.updateCallbacks.Values", "return"] := by decide

theorem C13_skeleton_set_replace : skel_set_replace =
    ["lock s.readableSet.mutex", "defer unlock s.readableSet.mutex", "call elements.ToSlice", "func{", "return", "}func",
      "func{", "return", "}func", "helper Replace", "call s.uniqueUpdateID.Next", "call s.updateCallbacks.Values",
      "return"] := by decide

theorem C13_skeleton_set_OnUpdate : skel_readableSet_OnUpdate =
    ["lock r.mutex", "call r.updateCallbacks.PushBack", "call createdCallback.LockExecution",
      "defer call createdCallback.UnlockExecution", "unlock r.mutex", "if{", "call createdCallback.Invoke", "}if",
      "func{", "call r.updateCallbacks.Remove", "call createdCallback.MarkUnsubscribed", "}func", "return"] := by decide

theorem C13_skeleton_event_Trigger : skel_event_Trigger = ["call e.Set", "return"] := by decide

theorem C13_skeleton_event_OnTrigger : skel_event_OnTrigger = ["func{", "}func", "call e.OnUpdate", "return"] := by
  decide

/-! ### the callback list (ds/list_impl.go)

The model treats `PushBack`, `Remove` and `Values` of the callback list as atomic.  That is what the
thread-safe list does: each takes the list mutex around the *whole* operation — in particular
`Values` holds the read lock during the whole walk (`list.Values` → `list.Range` → `element.Next`).
An unsubscribe removes its element outside the value mutex and clears the element's pointers, so a
walk without the lock could end early and lose the subscribers behind the removed one. -/

theorem C13_skeleton_list_Values : skel_threadSafeList_Values =
    ["rlock t.mutex", "defer runlock t.mutex", "call t.list.Values", "return"] := by decide

theorem C13_skeleton_list_PushBack : skel_threadSafeList_PushBack =
    ["lock t.mutex", "defer unlock t.mutex", "call t.list.PushBack", "return"] := by decide

theorem C13_skeleton_list_Remove : skel_threadSafeList_Remove =
    ["lock t.mutex", "defer unlock t.mutex", "call t.list.Remove", "return"] := by decide

theorem C13_skeleton_list_Range : skel_threadSafeList_Range =
    ["rlock t.mutex", "defer runlock t.mutex", "call t.list.Range"] := by decide

theorem C13_skeleton_list_inner_Values : skel_list_Values = ["func{", "}func", "call l.Range", "return"] := by decide

theorem C13_skeleton_list_inner_Range : skel_list_Range = ["helper Front", "for{", "call element.Next", "}for"] := by decide

/-! The links and the length counter behind `Remove` / `PushBack` / the walk (the model's `listed.filter` /
`listed ++ [c]` / snapshot): `Remove` acts only on an element that is still part of this list, decided inside
`list.Remove` (that is, under the write lock `threadSafeList.Remove` holds); `remove` unlinks, clears all three
pointers of the removed element and counts down; `Front` answers from the length counter; `Next` ends at the root
or at a removed element. -/
theorem C13_skeleton_list_inner_Remove : skel_list_Remove =
    ["if{", "}if", "call typedElement.list.Load", "if{", "call l.remove", "}if", "call typedElement.value.Load", "return"] := by
  decide

theorem C13_skeleton_list_inner_remove : skel_list_remove =
    ["call e.next.Load", "call e.prev.Load", "call e.prev.Load().next.Store", "call e.prev.Load", "call e.next.Load",
      "call e.next.Load().prev.Store", "call e.next.Store", "call e.prev.Store", "call e.list.Store"] := by decide

theorem C13_skeleton_list_inner_PushBack : skel_list_PushBack =
    ["call l.lazyInit", "call l.root.prev.Load", "call l.insertValue", "return"] := by decide

theorem C13_skeleton_list_inner_insert : skel_list_insert =
    ["call e.prev.Store", "call at.next.Load", "call e.next.Store", "call e.prev.Load", "call e.prev.Load().next.Store",
      "call e.next.Load", "call e.next.Load().prev.Store", "call e.list.Store", "return"] := by decide

theorem C13_skeleton_list_inner_Front : skel_list_Front = ["if{", "return", "}if", "call l.root.next.Load", "return"] := by
  decide

theorem C13_skeleton_listElement_Next : skel_listElement_Next =
    ["call l.next.Load", "call l.list.Load", "if{", "return", "}if", "return"] := by decide

theorem C13_skeleton_type_list : skel_type_list = ["struct", "root listElement[T]", "len int"] := by decide

theorem C13_skeleton_type_listElement : skel_type_listElement =
    ["struct", "next atomic.Pointer[listElement[T]]", "prev atomic.Pointer[listElement[T]]",
      "list atomic.Pointer[list[T]]", "value atomic.Pointer[T]"] := by decide

/-! `Add` / `AddAll` / `Delete` / `DeleteAll` are `Apply` (the writer program, including its early return); the update
id is a plain increment. -/
theorem C13_skeleton_set_Add : skel_set_Add = ["call s.Apply", "return"] := by decide
theorem C13_skeleton_set_AddAll : skel_set_AddAll = ["call elements.ToSlice", "call s.Apply", "return"] := by decide
theorem C13_skeleton_set_Delete : skel_set_Delete = ["call s.Apply", "return"] := by decide
theorem C13_skeleton_set_DeleteAll : skel_set_DeleteAll = ["call s.Apply", "return"] := by decide
theorem C13_skeleton_uniqueID_Next : skel_uniqueID_Next = ["return"] := by decide

/-! An element is allocated by the insert that links it (`new(listElement)` in `insertValue`, no branch, no
recycling): the element an unsubscribe closure holds never becomes the element of a later subscription, which is
why a repeated / late unsubscribe call cannot unlink anybody else (`C13_repeated_unsubscribe_noop`). -/
theorem C13_skeleton_list_inner_insertValue : skel_list_insertValue =
    ["call newElement.value.Store", "call l.insert", "return"] := by decide

/-! `WithElements` = one inner `OnUpdate` whose callback ranges over the added elements (condition, `setup`,
remember the teardown function if it is not nil), then over the deleted ones (forget and call the remembered
teardown), batched with a function that tears down what is left (`Hive/Spec/ReactiveElements.lean`).
`WasTriggered` is `Get`; `LogUpdates` is an `OnUpdate` without initial-zero trigger inside the logger's
level handler; `Decode` replaces the contents under the value mutex only — it takes no update-order mutex,
bumps no id and notifies nobody: it is a deserialisation entry for a set nobody has subscribed to yet, not one
of the writers the property quantifies over (`Set/Compute/Apply/Replace`). -/
theorem C13_skeleton_set_WithElements : skel_readableSet_WithElements =
    ["func{", "func{", "if{", "if{", "}if", "}if", "}func", "call appliedMutations.AddedElements().Range", "func{", "if{",
      "}if", "}func", "call appliedMutations.DeletedElements().Range", "}func", "call r.OnUpdate", "func{", "for{", "}for",
      "}func", "return"] := by decide

theorem C13_skeleton_set_Decode : skel_set_Decode =
    ["lock s.readableSet.mutex", "defer unlock s.readableSet.mutex", "helper Decode", "return"] := by decide

theorem C13_skeleton_event_WasTriggered : skel_event_WasTriggered = ["call e.Get", "return"] := by decide

theorem C13_skeleton_variable_LogUpdates : skel_readableVariable_LogUpdates =
    ["func{", "func{", "if{", "}else{", "if{", "}else{", "}if", "}if", "}func", "call r.OnUpdate", "return", "}func",
      "return"] := by decide

/-! ### DerivedSet: inherited mutations are one more writer of the same protocol

`derivedSet.inheritMutations` is the writer program again (`lock s.mutex` … per-callback
`LockExecution`/`Invoke`/`UnlockExecution`), its update a `SetOp.compute` (always notifies).  The
theorems cover the subscribers of a DerivedSet only because `s.mutex` there *is* the embedded
`set.mutex` that `Apply`/`Compute`/`Replace` hold — i.e. because `derivedSet` declares no mutex of its
own (`C13_skeleton_type_derivedSet`). -/

theorem C13_skeleton_derivedSet_inheritMutations : skel_derivedSet_inheritMutations =
    ["lock s.mutex", "defer unlock s.mutex", "call s.applyInheritedMutations", "for{",
      "call registeredCallback.LockExecution", "if{", "call registeredCallback.Invoke",
      "call registeredCallback.UnlockExecution", "}if", "}for", "return"] := by decide

theorem C13_skeleton_derivedSet_applyInheritedMutations : skel_derivedSet_applyInheritedMutations =
    ["lock s.readableSet.mutex", "defer unlock s.readableSet.mutex", "call mutations.AddedElements().Range",
      "call mutations.DeletedElements().Range", "call s.value.Apply", "call s.uniqueUpdateID.Next",
      "call s.updateCallbacks.Values", "return"] := by decide

/-! ### type facts: which mutex a selector resolves to, and the width of the update id

A field added to a struct can shadow an embedded one without any function body changing; the model's
`U`, `V`, `E` are exactly these fields.  Update ids are unbounded naturals in the model (`Sh.uid`,
`Cb.last : Nat`): justified by `uniqueID` being 64 bits wide (2⁶⁴ updates are out of reach); with a
narrower type the id of a real change could wrap onto the `lastUpdate` a callback recorded earlier and
`LockExecution` would drop the change. -/

theorem C13_skeleton_type_variable : skel_type_variable =
    ["struct", "embedded *readableVariable[Type]", "transformationFunc func(currentValueType,newValueType)Type",
      "updateOrderMutex sync.Mutex"] := by decide

theorem C13_skeleton_type_readableVariable : skel_type_readableVariable =
    ["struct", "value Type", "registeredCallbacks ds.List[*callback[func(prevValue,newValueType)]]",
      "uniqueUpdateID uniqueID", "valueMutex sync.RWMutex"] := by decide

theorem C13_skeleton_type_set : skel_type_set =
    ["struct", "embedded *readableSet[ElementType]", "mutex sync.Mutex"] := by decide

theorem C13_skeleton_type_readableSet : skel_type_readableSet =
    ["struct", "updateCallbacks ds.List[*callback[func(ds.SetMutations[ElementType])]]", "uniqueUpdateID uniqueID",
      "value ds.Set[ElementType]", "mutex sync.RWMutex", "embedded ds.ReadableSet[ElementType]"] := by decide

theorem C13_skeleton_type_derivedSet : skel_type_derivedSet =
    ["struct", "embedded *set[ElementType]", "setArithmetic ds.SetArithmetic[ElementType]"] := by decide

theorem C13_skeleton_type_callback : skel_type_callback =
    ["struct", "Invoke FuncType", "unsubscribed bool", "lastUpdate uniqueID", "executionMutex sync.Mutex"] := by decide

theorem C13_skeleton_type_uniqueID : skel_type_uniqueID = ["uint64"] := by decide

theorem C13_skeleton_type_event : skel_type_event = ["struct", "embedded Variable[bool]"] := by decide

theorem C13_skeleton_type_threadSafeList : skel_type_threadSafeList =
    ["struct", "embedded *list[T]", "mutex sync.RWMutex"] := by decide

/-! ### the subscription variants, the reader and the remaining writers (variable_impl.go)

The variant machines of `Hive/Spec/ReactiveVariants.lean` mirror these bodies: `OnUpdateOnce` = inner
`OnUpdate` whose callback tests `callbackTriggered.Get()`, then the condition, then `Trigger()`s, and
an `OnTrigger` handler that unsubscribes in a goroutine and calls back; `OnUpdateWithContext` =
inner `OnUpdate` whose callback first triggers the previous unsubscribed-event, and an unsubscribe
function that triggers the last one; `WithValue` / `WithNonEmptyValue` on top of it; `Read`/`Get`
under the read lock; `Init`, `Set`, `DefaultTo`, `ToggleValue`, `InheritFrom`, `DeriveValueFrom` are
all `Compute` (the writer program). -/

theorem C13_skeleton_variable_OnUpdateOnce : skel_readableVariable_OnUpdateOnce =
    ["func{", "call callbackTriggered.Get", "if{", "return", "}if", "if{", "return", "}if",
      "call callbackTriggered.Trigger", "}func", "call r.OnUpdate", "func{", "go", "}func",
      "call callbackTriggered.OnTrigger", "return"] := by decide

theorem C13_skeleton_variable_OnUpdateWithContext : skel_readableVariable_OnUpdateWithContext =
    ["func{", "if{", "call previousUnsubscribedEvent.Trigger", "}if", "func{", "call unsubscribedEvent.WasTriggered",
      "if{", "if{", "call unsubscribedEvent.OnTrigger", "}if", "}if", "}func", "}func", "call r.OnUpdate", "func{", "if{",
      "call previousUnsubscribedEvent.Trigger", "}if", "}func", "return"] := by decide

theorem C13_skeleton_variable_WithValue : skel_readableVariable_WithValue =
    ["func{", "if{", "func{", "return", "}func", "}if", "}func", "call r.OnUpdateWithContext", "return"] := by decide

theorem C13_skeleton_variable_WithNonEmptyValue : skel_readableVariable_WithNonEmptyValue =
    ["func{", "return", "}func", "call r.WithValue", "return"] := by decide

theorem C13_skeleton_variable_Read : skel_readableVariable_Read =
    ["rlock r.valueMutex", "defer runlock r.valueMutex"] := by decide

theorem C13_skeleton_variable_Get : skel_readableVariable_Get =
    ["rlock r.valueMutex", "defer runlock r.valueMutex", "return"] := by decide

theorem C13_skeleton_variable_Init : skel_variable_Init = ["call v.Set", "return"] := by decide

theorem C13_skeleton_variable_Set : skel_variable_Set = ["func{", "return", "}func", "call v.Compute", "return"] := by
  decide

theorem C13_skeleton_variable_DefaultTo : skel_variable_DefaultTo =
    ["func{", "if{", "}else{", "}if", "return", "}func", "call v.Compute", "return"] := by decide

theorem C13_skeleton_variable_ToggleValue : skel_variable_ToggleValue =
    ["call v.Set", "func{", "call v.Set", "}func", "return"] := by decide

theorem C13_skeleton_variable_InheritFrom : skel_variable_InheritFrom =
    ["func{", "call v.Set", "}func", "call other.OnUpdate", "return"] := by decide

theorem C13_skeleton_variable_DeriveValueFrom : skel_variable_DeriveValueFrom = ["call v.InheritFrom", "return"] := by
  decide

end Skel

end Hive.Reactive
