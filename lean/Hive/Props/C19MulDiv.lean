import Hive.Proofs.SafeMathMulDiv
/-!
# C19 — Safe64MulDiv: exact result or the overflow error, for every integer type

The definition `Safe64MulDiv` is **generated** from core/safemath/safe_math.go on every run (Hive/Gen/C19_SafeMath.lean).  This
module rests only on the proof about that one function (`Hive/Proofs/SafeMathMulDiv.lean`) and on lemmas that mention no generated
definition: a change of another function of safe_math.go leaves these theorems standing, a change of `Safe64MulDiv` that is not an
equivalent rewrite breaks exactly them.  
-/
namespace Hive.GoInt
open Hive.Gen.SafeMath IntTy

/-- `Safe64MulDiv`: `(x*y)/d` exactly, overflow iff the quotient needs more than 64 bits, division by
zero iff `d = 0`; in particular `bits.Div64` is never called with arguments that make it panic. -/
theorem C19_mulDiv64_exact (x y d : Int) (hx : IntTy.u64.InRange x) (hy : IntTy.u64.InRange y)
    (hd : IntTy.u64.InRange d) :
    Safe64MulDiv x y d = if d = 0 then .divzero else exact IntTy.u64 (x * y / d) :=
  safe64MulDiv_exact x y d hx hy hd

/-- `Safe64MulDiv`, clause by clause: exact floor quotient when it fits (never a wrapped value), overflow only when it does
not (never a spurious error), division by zero exactly for a zero divisor, and never the panic of `bits.Div64`. -/
theorem C19_mulDiv64_clauses (x y d r : Int) (hx : IntTy.u64.InRange x) (hy : IntTy.u64.InRange y)
    (hd : IntTy.u64.InRange d) :
    (Safe64MulDiv x y d = .ok r → d ≠ 0 ∧ r = x * y / d ∧ IntTy.u64.InRange r) ∧
    (Safe64MulDiv x y d = .overflow → d ≠ 0 ∧ ¬ IntTy.u64.InRange (x * y / d)) ∧
    (Safe64MulDiv x y d = .divzero ↔ d = 0) ∧ Safe64MulDiv x y d ≠ .panic := by
  rw [C19_mulDiv64_exact x y d hx hy hd]
  by_cases hd0 : d = 0
  · simp [hd0]
  · have c := exact_clauses IntTy.u64 (x * y / d) _ rfl
    simp only [hd0, iff_false, ne_eq, not_false_eq_true, true_and]
    exact ⟨c.1 r, c.2.2.1.mp, c.2.2.2.1, c.2.2.2.2⟩

/-- never a spurious error, as a statement of its own -/
theorem C19_mulDiv64_never_spurious (x y d : Int) (hx : IntTy.u64.InRange x) (hy : IntTy.u64.InRange y)
    (hd : IntTy.u64.InRange d) :
    d ≠ 0 → IntTy.u64.InRange (x * y / d) → Safe64MulDiv x y d = .ok (x * y / d) := by
  intro hd0 h
  rw [C19_mulDiv64_exact x y d hx hy hd, if_neg hd0]
  exact (exact_clauses IntTy.u64 _ _ rfl).2.1 h

end Hive.GoInt
