import Hive.Proofs.BatchWriterLive
import Hive.Gen.C08_Skel
/-!
# C08 — BatchedWriter never loses or half-writes an enqueued object

Property theorems only.  Model: `Hive/Model/BatchWriter.lean` (kvstore/batch_writer.go and
batch_collector.go after `fix: BatchedWriter must add to its WaitGroup before starting the writer goroutine`).
The property is the decidable trace predicate `Spec.BatchWriter.ok` / `okFinal` (`Hive/Spec/BatchWriter.lean`),
the same definition the driver evaluates on traces recorded from the implementation.  Every theorem quantifies
over every queue size `q`, batch size `b`, every pool of threads (`Init`: any number of producers with any
scripts, Stop callers, Flush callers, store observers) and every reachable configuration, i.e. every
interleaving of every length.

The code has one life-cycle window left (`Enqueue` between its `running` check and `scheduledCount.Add(1)`
while `StopBatchWriter` clears `running`).  The ghost flag `raced` records exactly that: it is set by Stop's
`running.Store(false)` step iff some producer is inside the window at that moment (`C08_window_counter`).
Theorems that need "no such race" carry it as a hypothesis and are named `_partial`; the corresponding
`_witness` theorems exhibit schedules on which the model violates the full statement (`C08_statement`); the
same schedules are forced on the real code by the harness (`window`, `window-dup`, `window-block`).
-/
namespace Hive.BatchWriter
open Hive.Conc Hive.Spec.BatchWriter

/-- The observable trace of a configuration, oldest event first. -/
def trace (c : Cfg St Thread) : List Event := c.1.tr.reverse

theorem not_mem_errs {c : Cfg St Thread} (hi : Inv c) (w : Why) (hw : w ≠ .stopReturnedEarly) :
    w ∉ c.1.mon.errs := fun h => hw (hi.n.errs w h).1

/-- **Written and committed before Done.**  On every trace of the model no `BatchWriteDone(o)` happens
unless a `BatchWrite(o)` that has been committed is still waiting for its Done; at every moment
`#Done(o) ≤ #committed BatchWrite(o) ≤ #BatchWrite(o)`. -/
theorem C08_written_before_done {q b : Nat} {c0 c : Cfg St Thread} (h0 : Init q b c0) (hr : Reach sys c0 c) :
    Why.doneBeforeCommit ∉ (Mon.run (trace c)).errs ∧
    ∀ o, (Mon.run (trace c)).dn o ≤ (Mon.run (trace c)).com o ∧ (Mon.run (trace c)).com o ≤ (Mon.run (trace c)).wr o := by
  have hi := inv_reach h0 hr
  rw [trace, ← mon_eq_run h0 hr]
  refine ⟨not_mem_errs hi _ (by decide), fun o => ?_⟩
  have h1 := (hi.wo o).dn_com
  have h2 := (hi.wo o).com_wr
  constructor <;> omega

/-- **Once per scheduling.**  No `BatchWrite(o)` without a scheduling of `o` that has not been written yet:
`#Done(o) ≤ #BatchWrite(o) ≤ #successful BatchWriteScheduled(o)` at every moment of every trace (equality at
the end is `C08_racing_enqueue_all_or_nothing_partial`). -/
theorem C08_done_once_per_scheduling {q b : Nat} {c0 c : Cfg St Thread} (h0 : Init q b c0) (hr : Reach sys c0 c) :
    Why.writeUnscheduled ∉ (Mon.run (trace c)).errs ∧
    ∀ o, (Mon.run (trace c)).dn o ≤ (Mon.run (trace c)).wr o ∧ (Mon.run (trace c)).wr o ≤ (Mon.run (trace c)).sch o := by
  have hi := inv_reach h0 hr
  rw [trace, ← mon_eq_run h0 hr]
  refine ⟨not_mem_errs hi _ (by decide), fun o => ?_⟩
  have h1 := (hi.wo o).dn_com
  have h2 := (hi.wo o).com_wr
  have h3 := (hi.wo o).wr_rst
  have h4 := hi.n.sch_rst o
  constructor <;> omega

/-- **The store holds the last committed BatchWrite of every object**, at every moment (observers may read
at any time: no `store-mismatch`), and whenever no batch is open that is the last BatchWrite. -/
theorem C08_store_is_last_write {q b : Nat} {c0 c : Cfg St Thread} (h0 : Init q b c0) (hr : Reach sys c0 c) :
    Why.storeMismatch ∉ (Mon.run (trace c)).errs ∧
    (∀ o, c.1.store o = (Mon.run (trace c)).lastCom o) ∧
    (c.1.muts = [] → ∀ o, c.1.store o = (Mon.run (trace c)).lastW o) := by
  have hi := inv_reach h0 hr
  rw [trace, ← mon_eq_run h0 hr]
  refine ⟨not_mem_errs hi _ (by decide), hi.ws.store_eq, fun hm o => ?_⟩
  rw [hi.ws.lastW_eq o, hm, hi.ws.store_eq o]
  rfl

/-- The model never reports a blocked call or a panic by itself, and the other checks cannot fail: the
only check of the trace predicate that can fail on a model trace is `stop-returned-early`, and only after a
race in the Enqueue window. -/
theorem C08_only_stop_can_fail {q b : Nat} {c0 c : Cfg St Thread} (h0 : Init q b c0) (hr : Reach sys c0 c) :
    ∀ w ∈ (Mon.run (trace c)).errs, w = .stopReturnedEarly ∧ c.1.raced = true := by
  have hi := inv_reach h0 hr
  rw [trace, ← mon_eq_run h0 hr]
  exact hi.n.errs

/-- **Stop waits** (partial: hypothesis `raced = false`, i.e. no producer was between its `running` check
and its counter increment when Stop cleared `running`).  Then every `StopBatchWriter` return on the trace
found every object whose `Enqueue` had returned before Stop was first invoked written, committed and done.
Missing for the full statement: the code does lose such objects after a race, see `C08_stop_waits_witness`. -/
theorem C08_stop_waits_partial {q b : Nat} {c0 c : Cfg St Thread} (h0 : Init q b c0) (hr : Reach sys c0 c)
    (hrace : c.1.raced = false) : Why.stopReturnedEarly ∉ (Mon.run (trace c)).errs := by
  intro h
  have := (C08_only_stop_can_fail h0 hr _ h).2
  simp [hrace] at this

/-- The whole trace predicate holds on every trace without a window race. -/
theorem C08_ok_partial {q b : Nat} {c0 c : Cfg St Thread} (h0 : Init q b c0) (hr : Reach sys c0 c)
    (hrace : c.1.raced = false) : ok (trace c) = true := by
  have h := C08_only_stop_can_fail h0 hr
  simp only [ok, List.isEmpty_iff]
  cases he : (Mon.run (trace c)).errs with
  | nil => rfl
  | cons w ws =>
    have := (h w (by simp [he])).2
    simp [hrace] at this

/-- What Stop waits for, directly on the state: once the writer goroutine has left its loop (Stop's
`Wait` returns only then) without a window race, every scheduling of every object has been written,
committed and done, and Stop's obligations are met. -/
theorem C08_stop_waits_state_partial {q b : Nat} {c0 c : Cfg St Thread} (h0 : Init q b c0) (hr : Reach sys c0 c)
    (hrace : c.1.raced = false) (hex : c.1.wpc = .exited) :
    ∀ o, (Mon.run (trace c)).need o ≤ (Mon.run (trace c)).dn o ∧ (Mon.run (trace c)).sch o = (Mon.run (trace c)).dn o := by
  have hi := inv_reach h0 hr
  rw [trace, ← mon_eq_run h0 hr]
  intro o
  have h1 := hi.n.fin hrace (Or.inr hex) o
  have h2 := hi.n.need_sch o
  constructor <;> omega

/-- **A racing Enqueue is all-or-nothing** (partial: hypothesis `raced = false`).  When the writer has
terminated, every object is either untouched by a scheduling or every one of its schedulings was written,
committed and done: the final check of the trace predicate holds, so the complete-run predicate `okFinal`
holds.  Missing for the full statement: `C08_racing_enqueue_witness`. -/
theorem C08_racing_enqueue_all_or_nothing_partial {q b : Nat} {c0 c : Cfg St Thread} (h0 : Init q b c0)
    (hr : Reach sys c0 c) (hrace : c.1.raced = false) (hex : c.1.wpc = .exited) : okFinal (trace c) = true := by
  have h := C08_stop_waits_state_partial h0 hr hrace hex
  simp only [okFinal, C08_ok_partial h0 hr hrace, Bool.true_and, Mon.finalOk, List.all_eq_true, decide_eq_true_eq]
  intro o _
  exact (h o).2

/-- Meaning of the ghost flag `raced`: the window counter it is computed from is exactly the number of
producer threads between their `running` check and their counter increment. -/
theorem C08_window_counter {q b : Nat} {c0 c : Cfg St Thread} (h0 : Init q b c0) (hr : Reach sys c0 c) :
    c.1.win = c.2.countP inWin :=
  (inv_reach h0 hr).cnt.win

/-- **No call blocks for ever** (partial).  Hypothesis `raced = false`.  Proved: no reachable configuration
is a deadlock — whenever some Enqueue / Stop / Flush call is unfinished, some thread can move; in particular
a producer blocked on the full queue implies the writer goroutine is alive, and Stop blocked in `Wait` implies
the writer is alive or about to be started.  Missing for the full statement: (i) after a window race a
producer does block for ever (`C08_no_block_forever_witness`); (ii) the step from "no deadlock" to "every
blocked call eventually moves under fair scheduling" (a variant argument over queue length, batch progress and
remaining scripts) is not formalised. -/
theorem C08_no_block_forever_partial {q b : Nat} {c0 c : Cfg St Thread} (h0 : Init q b c0)
    (hw : Thread.writer ∈ c0.2) (hr : Reach sys c0 c) (hrace : c.1.raced = false) :
    ¬ Deadlock sys (fun t => t.finished = true) c :=
  no_deadlock (inv_reach h0 hr) (writer_mem_reach hw hr) hrace

/-! ### Hypotheses are satisfiable: a complete race-free run -/

/-- producer 0 enqueues object 0 completely, the writer takes it, writes, commits, calls Done; Stop;
the writer exits; Stop returns. -/
def goodSched : List (Nat × Nat) := rep 0 15 ++ rep 2 9 ++ rep 1 4 ++ rep 2 3 ++ rep 1 3

def goodCfg : Cfg St Thread := runSched sys (initSt 1 1, witnessThreads 1 (fun _ => 0)) goodSched

theorem init_witness (q p : Nat) (f : Nat → Nat) : Init q 1 (initSt q 1, witnessThreads p f) := by
  refine ⟨rfl, ?_, ?_⟩
  · intro t ht
    simp only [witnessThreads, List.mem_append, List.mem_map, List.mem_cons, List.not_mem_nil, or_false] at ht
    rcases ht with ⟨i, _, rfl⟩ | rfl | rfl <;> rfl
  · simp only [distinctIds, witnessThreads, List.filterMap_append, List.filterMap_map]
    have : (List.filterMap (Thread.pid ∘ fun i => Thread.prod i PPc.idle 0 [f i]) (List.range p)) = List.range p := by
      induction p with
      | zero => rfl
      | succ n ih => simp [List.range_succ, List.filterMap_append, ih, Thread.pid]
    have e : List.filterMap Thread.pid [Thread.stopper 0 SPc.idle, Thread.writer] = [] := rfl
    rw [this, e, List.append_nil]
    exact List.nodup_range

set_option maxRecDepth 4000 in
example : goodCfg.1.raced = false ∧ goodCfg.1.wpc = .exited ∧ okFinal (trace goodCfg) = true ∧
    (Mon.run (trace goodCfg)).dn 0 = 1 ∧ (trace goodCfg).length = 10 := by decide

example : Reach sys (initSt 1 1, witnessThreads 1 (fun _ => 0)) goodCfg := runSched_reach _ _ _

/-! ### The full statement, and the schedules on which the code (hence the model) violates it -/

/-- The property at full strength: on every reachable configuration the trace predicate holds, after the
writer has terminated the final (all-or-nothing) check holds, and no unfinished Enqueue / Stop call is
blocked for ever (some continuation lets it take a step). -/
def C08_statement : Prop :=
  ∀ (q b : Nat) (c0 c : Cfg St Thread), 0 < b → Init q b c0 → Thread.writer ∈ c0.2 → Reach sys c0 c →
    ok (trace c) = true ∧
    (c.1.wpc = .exited → (Mon.run (trace c)).finalOk = true) ∧
    (∀ (i : Nat) (t : Thread), c.2[i]? = some t → t.finished = false →
      ∃ c', Reach sys c c' ∧ ∃ t', c'.2[i]? = some t' ∧ step c'.1 t' ≠ [])

def windowCfg : Cfg St Thread := runSched sys (initSt 1 1, witnessThreads 1 (fun _ => 0)) (windowSched 1)

set_option maxRecDepth 4000 in
/-- **Witness (schedule `window`)**: one producer passes its `running` check, Stop runs to completion (the
writer exits: nothing is counted), the producer continues: the object is marked scheduled, counted and
queued, never written — and every call has returned. -/
theorem C08_racing_enqueue_witness :
    Reach sys (initSt 1 1, witnessThreads 1 (fun _ => 0)) windowCfg ∧
    windowCfg.1.raced = true ∧ windowCfg.1.wpc = .exited ∧ (∀ t ∈ windowCfg.2, t.finished = true) ∧
    ok (trace windowCfg) = true ∧ okFinal (trace windowCfg) = false ∧
    (Mon.run (trace windowCfg)).finalVerdict = some .touchedNotWritten ∧
    (Mon.run (trace windowCfg)).sch 0 = 1 ∧ (Mon.run (trace windowCfg)).wr 0 = 0 :=
  ⟨runSched_reach _ _ _, by decide⟩

def windowDupCfg : Cfg St Thread := runSched sys (initSt 1 1, witnessThreads 2 (fun _ => 0)) windowDupSched

set_option maxRecDepth 4000 in
/-- **Witness (schedule `window-dup`)**: producer 0 has marked the object scheduled but not yet counted it,
producer 1's `Enqueue` of the same object returns (already scheduled) before Stop is invoked, Stop returns:
the object whose Enqueue returned before Stop was invoked has not been written. -/
theorem C08_stop_waits_witness :
    Reach sys (initSt 1 1, witnessThreads 2 (fun _ => 0)) windowDupCfg ∧
    windowDupCfg.1.raced = true ∧ Why.stopReturnedEarly ∈ (Mon.run (trace windowDupCfg)).errs ∧
    ok (trace windowDupCfg) = false ∧ (Mon.run (trace windowDupCfg)).need 0 = 1 ∧
    (Mon.run (trace windowDupCfg)).dn 0 = 0 :=
  ⟨runSched_reach _ _ _, by decide⟩

/-- no thread can move -/
def stuckB (c : Cfg St Thread) : Bool := c.2.all (fun t => (step c.1 t).isEmpty)

theorem stuck_of_stuckB {c : Cfg St Thread} (h : stuckB c = true) : Stuck sys c := by
  intro t ht
  have := List.all_eq_true.mp h t ht
  show step c.1 t = []
  simpa [List.isEmpty_iff] using this

def windowBlockCfg : Cfg St Thread := runSched sys (initSt 1 1, witnessThreads 2 id) (windowSched 2)

set_option maxRecDepth 4000 in
/-- **Witness (schedule `window-block`)**: queue size 1, two producers inside the window while Stop
completes; the first fills the queue, the second blocks on the queue send for ever: a deadlock (no thread can
move, producer 1 has not finished). -/
theorem C08_no_block_forever_witness :
    Reach sys (initSt 1 1, witnessThreads 2 id) windowBlockCfg ∧
    Deadlock sys (fun t => t.finished = true) windowBlockCfg ∧
    windowBlockCfg.1.raced = true ∧ windowBlockCfg.2[1]? = some (.prod 1 .send 1 []) :=
  ⟨runSched_reach _ _ _, ⟨stuck_of_stuckB (by decide), .prod 1 .send 1 [], by decide, by decide⟩, by decide, by decide⟩

/-- The model (hence the code it mirrors) does not satisfy the full statement. -/
theorem C08_statement_witness : ¬ C08_statement := by
  intro h
  have hw : Thread.writer ∈ (initSt 1 1, witnessThreads 1 (fun _ => 0)).2 := by decide
  have := (h 1 1 _ windowCfg (by decide) (init_witness 1 1 _) hw C08_racing_enqueue_witness.1).2.1
    C08_racing_enqueue_witness.2.2.1
  have h2 := C08_racing_enqueue_witness.2.2.2.2.2.1
  simp [okFinal, C08_racing_enqueue_witness.2.2.2.2.1] at h2
  simp [h2] at this


/-! ### Regenerated tie: the synchronisation skeletons the protocol model was written against

`Hive/Gen/C08_Skel.lean` is regenerated from kvstore/batch_writer.go and batch_collector.go on every run.  The
model's atomic steps are exactly these operations in this order (Once body; running check, object flag
test-and-set, counter increment, queue send; lock / load / store / Wait / unlock; loop condition's two loads,
select over queue / flush / timer, reset / decrement / BatchWrite, Commit then the Done loop; Add before `go`).
A change of the code's lock / channel / atomic / WaitGroup structure breaks these obligations. -/

open Hive.Gen.C08Skel in
theorem C08_skeleton_Enqueue : skel_BatchedWriter_Enqueue =
    ["func{", "call bw.running.Load", "if{", "helper startBatchWriter", "}if", "}func",
      "call bw.autoStartOnce.Do", "call bw.running.Load", "if{", "return", "}if",
      "call object.BatchWriteScheduled", "if{", "return", "}if", "call bw.scheduledCount.Add",
      "send bw.batchQueue"] := by decide

open Hive.Gen.C08Skel in
theorem C08_skeleton_startBatchWriter : skel_BatchedWriter_startBatchWriter =
    ["lock bw.startStopMutex", "call bw.running.Load", "if{", "call bw.running.Store", "call bw.writeWg.Add",
      "go", "helper runBatchWriter", "}if", "unlock bw.startStopMutex"] := by decide

open Hive.Gen.C08Skel in
theorem C08_skeleton_StopBatchWriter : skel_BatchedWriter_StopBatchWriter =
    ["lock bw.startStopMutex", "call bw.running.Load", "if{", "call bw.running.Store",
      "call bw.writeWg.Wait", "}if", "unlock bw.startStopMutex"] := by decide

open Hive.Gen.C08Skel in
theorem C08_skeleton_Flush : skel_BatchedWriter_Flush =
    ["call bw.running.Load", "if{", "select{", "case send bw.flushChan", "default", "}select", "}if"] := by decide

open Hive.Gen.C08Skel in
theorem C08_skeleton_runBatchWriter : skel_BatchedWriter_runBatchWriter =
    ["for{", "call bw.running.Load", "call bw.scheduledCount.Load", "call bw.store.Batched", "if{", "}if",
      "func{", "for{", "select{", "case recv bw.batchQueue", "call batchCollector.Add", "if{",
      "call batchCollector.Commit", "if{", "}if", "return", "}if", "case recv bw.flushChan", "return",
      "case recv batchWriterTimeoutTimer.C", "call batchCollector.Commit", "if{", "}if", "return", "}select",
      "}for", "}func", "if{", "for{", "select{", "case recv bw.batchQueue", "call batchCollector.Add", "if{",
      "call batchCollector.Commit", "if{", "}if", "call bw.store.Batched", "if{", "}if", "}if", "default",
      "call batchCollector.Commit", "if{", "}if", "break", "}select", "}for", "}if", "}for",
      "call bw.writeWg.Done"] := by decide

open Hive.Gen.C08Skel in
theorem C08_skeleton_collector_Add : skel_BatchCollector_Add =
    ["if{", "}if", "call objectToPersist.ResetBatchWriteScheduled", "call br.scheduledCount.Add",
      "call objectToPersist.BatchWrite", "return"] := by decide

open Hive.Gen.C08Skel in
theorem C08_skeleton_collector_Commit : skel_BatchCollector_Commit =
    ["if{", "}if", "if{", "call br.batchedMuts.Cancel", "return", "}if", "call br.batchedMuts.Commit", "if{",
      "return", "}if", "for{", "call br.writtenValues[i].BatchWriteDone", "}for", "return"] := by decide

end Hive.BatchWriter
