import Hive.Proofs.BatchWriterProgress
import Hive.Proofs.BatchWriterErr
import Hive.Gen.C08_Skel
/-!
# C08 — BatchedWriter never loses or half-writes an enqueued object

Property theorems only.  Model: `Hive/Model/BatchWriter.lean` (kvstore/batch_writer.go and
batch_collector.go after `fix: BatchedWriter must add to its WaitGroup before starting the writer goroutine`
and `fix: BatchedWriter.Enqueue must count the object before checking running`).  The property is the
decidable trace predicate `Spec.BatchWriter.ok` / `okFinal` (`Hive/Spec/BatchWriter.lean`), the same definition
the driver evaluates on traces recorded from the implementation.  Every theorem quantifies over every queue
size `q`, batch size `b`, every pool of threads (`Init`: any number of producers with any scripts, Stop
callers, Flush callers, store observers) and every reachable configuration, i.e. every interleaving of every
length.  No theorem carries a hypothesis about the schedule any more: the Enqueue/Stop window of the old
code (running check before the counter increment) is closed; the old protocol is kept as `sysOld` and the
schedules on which it violates the property are the `C08_old_*_witness` theorems.
-/
namespace Hive.BatchWriter
open Hive.Conc Hive.Spec.BatchWriter

/-- The observable trace of a configuration, oldest event first. -/
def trace (c : Cfg St Thread) : List Event := c.1.tr.reverse

/-- **The trace predicate holds on every trace of the model**: no check of the monitor ever fails. -/
theorem C08_ok {q b : Nat} {c0 c : Cfg St Thread} (h0 : Init q b c0) (hr : Reach sys c0 c) :
    ok (trace c) = true := by
  have hi := inv_reach h0 hr
  simp only [ok, trace, ← mon_eq_run h0 hr, hi.n.errs, List.isEmpty_nil]

theorem errs_nil {q b : Nat} {c0 c : Cfg St Thread} (h0 : Init q b c0) (hr : Reach sys c0 c) :
    (Mon.run (trace c)).errs = [] := by
  rw [trace, ← mon_eq_run h0 hr]; exact (inv_reach h0 hr).n.errs

/-- **Written and committed before Done.**  On every trace of the model no `BatchWriteDone(o)` happens
unless a `BatchWrite(o)` that has been committed is still waiting for its Done; at every moment
`#Done(o) ≤ #committed BatchWrite(o) ≤ #BatchWrite(o)`. -/
theorem C08_written_before_done {q b : Nat} {c0 c : Cfg St Thread} (h0 : Init q b c0) (hr : Reach sys c0 c) :
    Why.doneBeforeCommit ∉ (Mon.run (trace c)).errs ∧
    ∀ o, (Mon.run (trace c)).dn o ≤ (Mon.run (trace c)).com o ∧ (Mon.run (trace c)).com o ≤ (Mon.run (trace c)).wr o := by
  refine ⟨by simp [errs_nil h0 hr], ?_⟩
  have hi := inv_reach h0 hr
  rw [trace, ← mon_eq_run h0 hr]
  intro o
  have h1 := (hi.wo o).dn_com
  have h2 := (hi.wo o).com_wr
  constructor <;> omega

/-- **Once per scheduling.**  No `BatchWrite(o)` without a scheduling of `o` that has not been written yet:
`#Done(o) ≤ #BatchWrite(o) ≤ #successful BatchWriteScheduled(o)` at every moment of every trace (equality once
the writer has terminated: `C08_racing_enqueue_all_or_nothing`). -/
theorem C08_done_once_per_scheduling {q b : Nat} {c0 c : Cfg St Thread} (h0 : Init q b c0) (hr : Reach sys c0 c) :
    Why.writeUnscheduled ∉ (Mon.run (trace c)).errs ∧
    ∀ o, (Mon.run (trace c)).dn o ≤ (Mon.run (trace c)).wr o ∧ (Mon.run (trace c)).wr o ≤ (Mon.run (trace c)).sch o := by
  refine ⟨by simp [errs_nil h0 hr], ?_⟩
  have hi := inv_reach h0 hr
  rw [trace, ← mon_eq_run h0 hr]
  intro o
  have h1 := (hi.wo o).dn_com
  have h2 := (hi.wo o).com_wr
  have h3 := (hi.wo o).wr_rst
  have h4 := hi.n.sch_rst o
  constructor <;> omega

/-- **The store holds the last committed BatchWrite of every object**, at every moment (observers may read
at any time: no `store-mismatch`), and whenever no batch is open that is the last BatchWrite. -/
theorem C08_store_is_last_write {q b : Nat} {c0 c : Cfg St Thread} (h0 : Init q b c0) (hr : Reach sys c0 c) :
    Why.storeMismatch ∉ (Mon.run (trace c)).errs ∧
    (∀ o, c.1.store o = (Mon.run (trace c)).lastCom o) ∧
    (c.1.muts = [] → ∀ o, c.1.store o = (Mon.run (trace c)).lastW o) := by
  refine ⟨by simp [errs_nil h0 hr], ?_⟩
  have hi := inv_reach h0 hr
  rw [trace, ← mon_eq_run h0 hr]
  refine ⟨hi.ws.store_eq, fun hm o => ?_⟩
  rw [hi.ws.lastW_eq o, hm, hi.ws.store_eq o]
  rfl

/-- **Stop waits — every Stop call.**  The pool holds any number of Stop callers.  At the return of *each*
`StopBatchWriter` call, every object whose accepted `Enqueue` had returned before *that* call was invoked has
been written (by a BatchWrite that started after that Enqueue call), committed and done (`Mon.snap t` is taken
at `stopCall t` and checked at `stopRet t`) — for every interleaving, including producers racing with Stop and
Stop calls overlapping each other. -/
theorem C08_stop_waits {q b : Nat} {c0 c : Cfg St Thread} (h0 : Init q b c0) (hr : Reach sys c0 c) :
    Why.stopReturnedEarly ∉ (Mon.run (trace c)).errs := by
  simp [errs_nil h0 hr]

/-- What Stop waits for, directly on the state: once the writer goroutine has left its loop (Stop's `Wait`
returns only then) every scheduling of every object has been written, committed and done, and Stop's
obligations are met. -/
theorem C08_stop_waits_state {q b : Nat} {c0 c : Cfg St Thread} (h0 : Init q b c0) (hr : Reach sys c0 c)
    (hex : c.1.wpc = .exited) :
    ∀ o, (Mon.run (trace c)).need o ≤ (Mon.run (trace c)).dn o ∧ (Mon.run (trace c)).sch o = (Mon.run (trace c)).dn o := by
  have hi := inv_reach h0 hr
  rw [trace, ← mon_eq_run h0 hr]
  intro o
  have h1 := hi.n.fin (Or.inr hex) o
  have h2 := hi.n.need_sch o
  constructor <;> omega

/-- **A racing Enqueue is all-or-nothing.**  When the writer has terminated, every object is either
untouched by a scheduling or every one of its schedulings was written, committed and done: the final check of
the trace predicate holds, so the complete-run predicate `okFinal` holds. -/
theorem C08_racing_enqueue_all_or_nothing {q b : Nat} {c0 c : Cfg St Thread} (h0 : Init q b c0)
    (hr : Reach sys c0 c) (hex : c.1.wpc = .exited) : okFinal (trace c) = true := by
  have h := C08_stop_waits_state h0 hr hex
  simp only [okFinal, C08_ok h0 hr, Bool.true_and, Mon.finalOk, List.all_eq_true, decide_eq_true_eq]
  intro o _
  exact (h o).2

/-- After the writer has terminated no producer is past a successful `running` check (none can still mark an
object scheduled or send it): an Enqueue that comes too late backs out without touching its object. -/
theorem C08_late_enqueue_backs_out {q b : Nat} {c0 c : Cfg St Thread} (h0 : Init q b c0) (hr : Reach sys c0 c)
    (hex : c.1.wpc = .exited) : c.2.countP inWin = 0 := by
  have hi := inv_reach h0 hr
  rw [← hi.cnt.win]
  exact hi.l.fin_win (Or.inr hex)

/-- **No deadlock** (the weaker, global form of the third clause; the per-call form is `C08_no_block_forever`
below).  For every reachable configuration: whenever some Enqueue / Stop / Flush call is unfinished, some thread
can move; in particular a producer blocked on the full queue implies the writer goroutine is alive (it has
counted itself before the writer could leave), and Stop blocked in `Wait` implies the writer is alive or about
to be started.  (The name keeps its historic `_partial`: it was the proved part before `C08_no_block_forever`.) -/
theorem C08_no_block_forever_partial {q b : Nat} {c0 c : Cfg St Thread} (h0 : Init q b c0)
    (hw : Thread.writer ∈ c0.2) (hr : Reach sys c0 c) :
    ¬ Deadlock sys (fun t => t.finished = true) c :=
  no_deadlock (inv_reach h0 hr) (writer_mem_reach hw hr)

/-- **Ranked waits-for (the `Once` is a lock class).**  In every reachable configuration an unfinished call
can move or is blocked in exactly one of four ways, and these have ranks: waiting for `autoStartOnce` (3) →
waiting for `startStopMutex` (2) → Stop in `writeWg.Wait()` / Enqueue on the full queue (1) → the writer
goroutine (0).  Whoever is blocked at rank `r` waits for a thread that can move or is blocked at a strictly
lower rank, and the writer can move whenever somebody waits for it.  So every blocked call reaches, in at most
three hops, a thread that can move; in particular the thread inside the Once body may wait for the mutex but no
holder of the mutex ever waits for the Once (the order a `StopBatchWriter` that touched the Once under the
mutex would invert).  This is the per-call strengthening of `C08_no_block_forever_partial`; the variant argument
that the thread at the end of the chain releases the resource after finitely many steps is `C08_no_block_forever`
(measures `odist`, `hdist`, `drainMeasure`, `exitDist`, `wdist` in `Proofs/BatchWriterProgress.lean`). -/
theorem C08_waits_for_ranked {q b : Nat} {c0 c : Cfg St Thread} (h0 : Init q b c0) (hr : Reach sys c0 c) :
    (∀ t ∈ c.2, t.finished = false →
      Enabled c.1 t ∨ BlockedOnOnce c.1 t ∨ BlockedOnMutex c.1 t ∨ BlockedOnWait c.1 t ∨ BlockedOnQueue c.1 t) ∧
    (∀ t ∈ c.2, BlockedOnOnce c.1 t →
      ∃ u ∈ c.2, (bodyPre u = true ∨ bodyPost u = true) ∧ (Enabled c.1 u ∨ BlockedOnMutex c.1 u)) ∧
    (∀ t ∈ c.2, BlockedOnMutex c.1 t →
      ∃ u ∈ c.2, holdsMu u = true ∧ (Enabled c.1 u ∨ BlockedOnWait c.1 u)) ∧
    (∀ t ∈ c.2, BlockedOnWait c.1 t ∨ BlockedOnQueue c.1 t → Enabled c.1 .writer) := by
  have hi := inv_reach h0 hr
  refine ⟨fun t _ hnf => blocked_classes c.1 t hi.l.once_le hnf, fun t _ hb => ?_, fun t _ hb => ?_, fun t ht hb => ?_⟩
  · cases t with
    | prod id pc cur sc => exact once_has_body hi hb.2
    | _ => exact hb.elim
  · cases t with
    | prod id pc cur sc => exact mutex_has_holder hi hb.2
    | stopper id pc => exact mutex_has_holder hi hb.2
    | _ => exact hb.elim
  · rcases hb with hb | hb
    · exact wait_has_writer hi t ht hb
    · exact queue_has_writer hi t ht hb

/-- The property at full strength for a protocol `S`: on every reachable configuration the trace predicate
holds, after the writer has terminated the final (all-or-nothing) check holds, and no unfinished Enqueue /
Stop call is blocked for ever (some continuation lets it take a step). -/
def C08_statement_for (S : Sys St Thread) : Prop :=
  ∀ (q b : Nat) (c0 c : Cfg St Thread), 0 < b → Init q b c0 → Thread.writer ∈ c0.2 → Reach S c0 c →
    ok (trace c) = true ∧
    (c.1.wpc = .exited → (Mon.run (trace c)).finalOk = true) ∧
    (∀ (i : Nat) (t : Thread), c.2[i]? = some t → t.finished = false →
      ∃ c', Reach S c c' ∧ ∃ t', c'.2[i]? = some t' ∧ S.step c'.1 t' ≠ [])

def C08_statement : Prop := C08_statement_for sys

/-- The safety clauses of `C08_statement` hold for the repaired code (the progress clause only as
`C08_no_block_forever_partial`). -/
theorem C08_statement_safety {q b : Nat} {c0 c : Cfg St Thread} (h0 : Init q b c0) (hr : Reach sys c0 c) :
    ok (trace c) = true ∧ (c.1.wpc = .exited → (Mon.run (trace c)).finalOk = true) := by
  refine ⟨C08_ok h0 hr, fun hex => ?_⟩
  have := C08_racing_enqueue_all_or_nothing h0 hr hex
  simp only [okFinal, C08_ok h0 hr, Bool.true_and] at this
  exact this

/-- **No Enqueue or Stop call blocks for ever** (third clause, full strength).  From every reachable
configuration — every queue size including 0, every batch size, every thread pool, every interleaving so far —
and for every thread whose call is unfinished there is a continuation *in which that thread does not move* and
after which it can take a step.  The continuation is constructed: a producer blocked on the queue send is
released by the writer goroutine alone (it reaches a `select` in at most `wdist` steps and takes an object);
a Stop caller inside `writeWg.Wait()` is released by draining (`drain_to_exit`: producers that have announced
an object back out or hand it over, the writer receives, writes, commits, calls the Dones, sees `running = false`
and the counter at 0 and leaves — well-founded descent on `drainMeasure` and `exitDist`; the counter cannot grow
because only threads past their increment are scheduled); whoever waits for `startStopMutex` is released by its
holder (`holder_releases`, through the previous case when the holder is a Stop in `Wait`); whoever waits for
`autoStartOnce` is released by the thread inside the body (`once_completes`, through the previous case when that
thread waits for the mutex).  This is "no blocked call is ever beyond rescue": under any scheduler that
eventually runs the finitely many steps of such a continuation (e.g. a fair one: the measures bound the number
of steps each helper thread needs, and none of the helper steps can be disabled by other threads' steps for
ever) the call proceeds. -/
theorem C08_no_block_forever {q b : Nat} {c0 c : Cfg St Thread} (h0 : Init q b c0) (hw : Thread.writer ∈ c0.2)
    (hr : Reach sys c0 c) (i : Nat) (t : Thread) (hi : c.2[i]? = some t) (hnf : t.finished = false) :
    ∃ c', Reach sys c c' ∧ c'.2[i]? = some t ∧ sys.step c'.1 t ≠ [] :=
  unblocks h0 hw hr i t hi hnf

/-- a configuration in which both Stop callers are blocked: Stop 0 inside `Wait` (the object is in `BatchWrite`),
Stop 1 on the mutex -/
def blockedCfg : Cfg St Thread :=
  runSched sys (initSt 1 1, twoStopsThreads) (rep 0 15 ++ rep 3 6 ++ rep 1 4 ++ rep 2 1)

set_option maxRecDepth 4000 in
-- the hypotheses of `C08_no_block_forever` are satisfiable by really blocked calls
example : Init 1 1 (initSt 1 1, twoStopsThreads) ∧ Thread.writer ∈ twoStopsThreads ∧
    blockedCfg.2[1]? = some (.stopper 0 .wait) ∧ sys.step blockedCfg.1 (.stopper 0 .wait) = [] ∧
    blockedCfg.2[2]? = some (.stopper 1 .lock) ∧ sys.step blockedCfg.1 (.stopper 1 .lock) = [] ∧
    (Thread.stopper 1 .lock).finished = false :=
  ⟨⟨rfl, by decide, by simp [distinctIds, twoStopsThreads, Thread.pid, List.filterMap_cons]⟩, by decide, by decide, by decide, by decide, by decide, by decide⟩

/-- The two blocking calls, separately: a blocked queue send needs only the writer goroutine. -/
theorem C08_enqueue_send_unblocked_by_writer {q b : Nat} {c0 : Cfg St Thread} (h0 : Init q b c0) {s : St}
    {ts : List Thread} (hr : Reach sys c0 (s, ts)) (hw : Thread.writer ∈ ts) {id cur : Nat} {sc : List Nat}
    (ht : Thread.prod id .send cur sc ∈ ts) :
    ∃ s', Reach sys (s, ts) (s', ts) ∧ sys.step s' (Thread.prod id .send cur sc) ≠ [] :=
  blocked_send_unblocks h0 hr hw ht

/-- A Stop caller inside `writeWg.Wait()`: there is a continuation after which the WaitGroup counter is 0 (the
writer goroutine has terminated), the Stop caller not having moved. -/
theorem C08_stop_wait_released {q b : Nat} {c0 : Cfg St Thread} (h0 : Init q b c0) {s : St} {ts : List Thread}
    (hr : Reach sys c0 (s, ts)) (hw : Thread.writer ∈ ts) {i id : Nat} (ht : ts[i]? = some (Thread.stopper id .wait)) :
    ∃ s' ts', Reach sys (s, ts) (s', ts') ∧ ts'[i]? = some (Thread.stopper id .wait) ∧ s'.wg = 0 ∧ s'.wpc = .exited := by
  have hrun := running_false_of_wait (inv_reach h0 hr) (List.mem_of_getElem? ht)
  obtain ⟨s', ts', hr', ht', hwg, _, _⟩ := drain_to_exit h0 (drainMeasure s ts) s ts hr hw ht hrun (Nat.le_refl _)
  refine ⟨s', ts', hr', ht', hwg, ?_⟩
  have hi' := inv_reach h0 (hr.trans hr')
  have h1 := hi'.l.wg
  have h2 := (hi'.t _ (List.mem_of_getElem? ht')).2.2.1 rfl
  simp only at h1 h2
  by_cases hx : s'.wpc = .exited
  · exact hx
  · simp [h2, hx] at h1; omega

/-- **The property at full strength holds for the repaired code.** -/
theorem C08_statement_holds : C08_statement := by
  intro q b c0 c _ h0 hw hr
  refine ⟨C08_ok h0 hr, (C08_statement_safety h0 hr).2, fun i t hi hnf => ?_⟩
  obtain ⟨c', hr', hi', hen⟩ := C08_no_block_forever h0 hw hr i t hi hnf
  exact ⟨c', hr', t, hi', hen⟩

/-! ### Non-vacuity: complete runs of the repaired model, among them the three formerly failing schedules -/

theorem nodup_map_pair (l : List Nat) (h : l.Nodup) : (l.map (fun i => ((false, i) : Bool × Nat))).Nodup := by
  induction l with
  | nil => simp
  | cons a l ih =>
    rw [List.nodup_cons] at h
    simp only [List.map_cons, List.nodup_cons, List.mem_map, Prod.mk.injEq, true_and, exists_eq_right]
    exact ⟨h.1, ih h.2⟩

theorem init_witness (q p : Nat) (f : Nat → Nat) : Init q 1 (initSt q 1, witnessThreads p f) := by
  refine ⟨rfl, ?_, ?_⟩
  · intro t ht
    simp only [witnessThreads, List.mem_append, List.mem_map, List.mem_cons, List.not_mem_nil, or_false] at ht
    rcases ht with ⟨i, _, rfl⟩ | rfl | rfl <;> rfl
  · simp only [distinctIds, witnessThreads, List.filterMap_append, List.filterMap_map]
    have : (List.filterMap (Thread.pid ∘ fun i => Thread.prod i PPc.idle 0 [f i]) (List.range p))
        = (List.range p).map (fun i => (false, i)) := by
      induction p with
      | zero => rfl
      | succ n ih => simp [List.range_succ, List.filterMap_append, ih, Thread.pid]
    have e : List.filterMap Thread.pid [Thread.stopper 0 SPc.idle, Thread.writer] = [(true, 0)] := rfl
    rw [this, e, List.nodup_append]
    refine ⟨?_, by simp, ?_⟩
    · exact nodup_map_pair _ List.nodup_range
    · intro a ha b hb
      simp only [List.mem_map, List.mem_range] at ha
      obtain ⟨i, _, rfl⟩ := ha
      simp only [List.mem_singleton] at hb
      subst hb
      simp

/-- producer 0 enqueues object 0 completely, the writer takes it, writes, commits, calls Done; Stop;
the writer exits; Stop returns. -/
def goodSched : List (Nat × Nat) := rep 0 15 ++ rep 2 9 ++ rep 1 4 ++ rep 2 3 ++ rep 1 3

def goodCfg : Cfg St Thread := runSched sys (initSt 1 1, witnessThreads 1 (fun _ => 0)) goodSched

set_option maxRecDepth 4000 in
example : goodCfg.1.wpc = .exited ∧ okFinal (trace goodCfg) = true ∧
    (Mon.run (trace goodCfg)).dn 0 = 1 ∧ (trace goodCfg).length = 10 := by decide

def windowCfg : Cfg St Thread := runSched sys (initSt 1 1, witnessThreads 1 (fun _ => 0)) (windowSched 1)
def windowDupCfg : Cfg St Thread := runSched sys (initSt 1 1, witnessThreads 2 (fun _ => 0)) windowDupSched
def windowBlockCfg : Cfg St Thread := runSched sys (initSt 1 1, witnessThreads 2 id) (windowSched 2)

-- The forced schedule `window` on the repaired model: the producer is parked after its running check
-- while Stop is invoked; Stop waits; the object is written, committed, done; everything terminates.
set_option maxRecDepth 4000 in
example : windowCfg.1.wpc = .exited ∧ (∀ t ∈ windowCfg.2, t.finished = true) ∧ okFinal (trace windowCfg) = true ∧
    (Mon.run (trace windowCfg)).dn 0 = 1 ∧ (trace windowCfg).getLast? = some (.stopRet 0) := by decide

def twoStopsCfg : Cfg St Thread := runSched sys (initSt 1 1, twoStopsThreads) twoStopsSched

-- two overlapping Stop calls: the second one is invoked while the first waits and the object is inside
-- BatchWrite; neither returns before the Done
set_option maxRecDepth 4000 in
example : twoStopsCfg.1.wpc = .exited ∧ (∀ t ∈ twoStopsCfg.2, t.finished = true) ∧ okFinal (trace twoStopsCfg) = true ∧
    trace twoStopsCfg = [.enqCall 0 0, .hook 0, .schedNew 0, .enqRet 0 0, .reset 0, .write 0 1, .stopCall 0,
      .stopCall 1, .commit, .done 0, .stopRet 0, .stopRet 1] ∧
    ((Mon.run (trace twoStopsCfg)).snap 1) 0 = 1 := by decide

set_option maxRecDepth 4000 in
example : windowDupCfg.1.wpc = .exited ∧ (∀ t ∈ windowDupCfg.2, t.finished = true) ∧
    okFinal (trace windowDupCfg) = true ∧ (Mon.run (trace windowDupCfg)).need 0 = 1 ∧
    (Mon.run (trace windowDupCfg)).dn 0 = 1 := by decide

set_option maxRecDepth 4000 in
example : windowBlockCfg.1.wpc = .exited ∧ (∀ t ∈ windowBlockCfg.2, t.finished = true) ∧
    okFinal (trace windowBlockCfg) = true ∧ (Mon.run (trace windowBlockCfg)).dn 1 = 1 := by decide

/-! ### Flushes: one flush spanning several batches, and a flush request pending while Stop clears `running`

`C08_done_once_per_scheduling` / `C08_written_before_done` / `C08_stop_waits` hold for every reachable configuration,
hence for these; the examples show that the configurations they are about are reachable (non-vacuity) and give the
exact traces that the forced scenarios `flush-span` / `flush-stop` of the harness must reproduce on the real code. -/

/-- inside one flush: the writer has just committed a full batch and replaces the collector (`again`) -/
def flushSpanMidCfg : Cfg St Thread :=
  runThread sys 3 flushFirst (fun s => s.again && s.wpc = .doneLoop && s.todo.isEmpty) 100
    (runSched sys (initSt 5 2, flushThreads 5) (rep 0 15 ++ rep 3 6 ++ rep 0 28 ++ rep 1 2))

set_option maxRecDepth 8000 in
-- batch size 2, five objects queued behind the first BatchWrite: the flush request is taken with three objects still
-- queued, the first full batch is committed inside the flush loop and the collector is replaced
example : flushSpanMidCfg.1.fl = true ∧ flushSpanMidCfg.1.again = true ∧ flushSpanMidCfg.1.queue = [2, 3, 4] ∧
    flushSpanMidCfg.1.wpc = .doneLoop ∧ (Mon.run (trace flushSpanMidCfg)).dn 0 = 1 ∧
    (Mon.run (trace flushSpanMidCfg)).dn 1 = 1 := by decide

set_option maxRecDepth 8000 in
-- the complete run: three commits inside one flush (2 + 2 + 1 objects), every object done exactly once, in order
example : (flushSpanCfg 2 5).1.wpc = .exited ∧ (∀ t ∈ (flushSpanCfg 2 5).2, t.finished = true) ∧
    okFinal (trace (flushSpanCfg 2 5)) = true ∧
    (trace (flushSpanCfg 2 5)).filter (fun e => match e with | .commit => true | .done _ => true | _ => false)
      = [.commit, .done 0, .done 1, .commit, .done 2, .done 3, .commit, .done 4] ∧
    (List.range 5).all (fun o => (Mon.run (trace (flushSpanCfg 2 5))).dn o = 1) = true := by decide

set_option maxRecDepth 8000 in
-- a flush request pending when Stop clears `running` (open batch of one object, batch size 3): the batch is
-- committed and done before Stop returns
example : (flushStopCfg 1 3).1.wpc = .exited ∧ (∀ t ∈ (flushStopCfg 1 3).2, t.finished = true) ∧
    okFinal (trace (flushStopCfg 1 3)) = true ∧
    trace (flushStopCfg 1 3) = [.enqCall 0 0, .hook 0, .schedNew 0, .enqRet 0 0, .reset 0, .write 0 1, .flush,
      .stopCall 0, .commit, .done 0, .stopRet 0] := by decide

/-! ### Store errors (`sysE`): `Batched()` / `Commit()` may fail at any call; the writer goroutine panics, the process dies

The statement does not mention store errors.  What the code does (`panic(err)` in the writer goroutine, which nobody
can recover) is modelled as the death of the whole system: `Model/BatchWriterErr.lean`.  Proved: everything the
statement says about *order* holds up to the crash — in particular no `BatchWriteDone` for an object of a batch whose
`Commit` failed, and the store holds nothing of that batch — and the crash is final (no call returns afterwards).
What can not hold is the third clause: a `StopBatchWriter` that was waiting never returns
(`C08_store_error_stop_never_returns_witness`); the harness checks that the real process indeed dies there
(scenario `store-fail`, child process) instead of, say, calling the Dones or returning from Stop. -/

/-- **Store errors: the trace predicate holds up to the crash**, for every failing call, every queue / batch size,
thread pool and interleaving: no Done before a successful commit, no BatchWrite without scheduling, no Stop returned
early, the store holds the last *successfully committed* BatchWrite of every object. -/
theorem C08_store_error_safety {q b : Nat} {c0 : Cfg St Thread} {c : Cfg StE Thread} (h0 : Init q b c0)
    (hr : Reach sysE (liftCfg c0) c) :
    ok (trace (dropCfg c)) = true ∧
    ∀ o, (Mon.run (trace (dropCfg c))).dn o ≤ (Mon.run (trace (dropCfg c))).com o ∧
      (Mon.run (trace (dropCfg c))).com o ≤ (Mon.run (trace (dropCfg c))).wr o ∧
      c.1.1.store o = (Mon.run (trace (dropCfg c))).lastCom o := by
  have hs := sysE_sim hr
  refine ⟨C08_ok h0 hs, fun o => ?_⟩
  have h1 := (C08_written_before_done h0 hs).2 o
  exact ⟨h1.1, h1.2, (C08_store_is_last_write h0 hs).2.1 o⟩

/-- **The crash is final**: once a store call has failed no thread moves any more — the trace is frozen: no further
`BatchWriteDone`, no commit, no return of any `Enqueue` / `StopBatchWriter` call. -/
theorem C08_store_error_crash_is_final {c c' : Cfg StE Thread} (hd : c.1.2 = true) (hr : Reach sysE c c') :
    c' = c ∧ Stuck sysE c' := by
  have := reach_of_dead hd hr
  subst this
  exact ⟨rfl, stuck_of_dead hd⟩

/-- **A batch whose `Commit` failed**: each of its objects has been passed to `BatchWrite` but that write is neither
committed nor — ever, whatever follows — done, and the store still holds what the last successful commit left. -/
theorem C08_failed_commit_batch_never_done {q b : Nat} {c0 : Cfg St Thread} {c c' : Cfg StE Thread} (h0 : Init q b c0)
    (hr : Reach sysE (liftCfg c0) c) (hd : c.1.2 = true) (hr' : Reach sysE c c') :
    ∀ o ∈ c.1.1.batch,
      (Mon.run (trace (dropCfg c'))).dn o ≤ (Mon.run (trace (dropCfg c'))).com o ∧
      (Mon.run (trace (dropCfg c'))).com o < (Mon.run (trace (dropCfg c'))).wr o ∧
      c'.1.1.store o = (Mon.run (trace (dropCfg c'))).lastCom o := by
  have hcc := (C08_store_error_crash_is_final hd hr').1
  rw [hcc]
  intro o ho
  have hs := sysE_sim hr
  have hi := inv_reach h0 hs
  have h1 := (C08_store_error_safety h0 hr).2 o
  refine ⟨h1.1, ?_, h1.2.2⟩
  have h2 := (hi.wo o).com_wr
  have h3 : 0 < c.1.1.batch.count o := List.count_pos_iff.mpr ho
  rw [trace, ← mon_eq_run h0 hs]
  simp only [dropCfg] at h2 ⊢
  omega

/-- the object is inside a batch of size 1 whose `Commit` fails while a `StopBatchWriter` waits -/
def storeErrCfg : Cfg StE Thread :=
  let c := runSched sysE (liftCfg (initSt 1 1, witnessThreads 1 (fun _ => 0))) (rep 0 15 ++ rep 2 6 ++ rep 1 4)
  runSched sysE c [(2, failChoice c.1.1)]

set_option maxRecDepth 8000 in
/-- **With a failing store the third clause cannot hold**: a reachable configuration in which `Commit` has failed —
the object is written, not committed, not done — and the Stop caller inside `writeWg.Wait()` never returns: nothing
moves any more.  (On the real code: the process has terminated with the panic of the writer goroutine.) -/
theorem C08_store_error_stop_never_returns_witness :
    Reach sysE (liftCfg (initSt 1 1, witnessThreads 1 (fun _ => 0))) storeErrCfg ∧
    storeErrCfg.1.2 = true ∧ storeCall storeErrCfg.1.1 = some "Commit" ∧ storeErrCfg.1.1.batch = [0] ∧
    storeErrCfg.2[1]? = some (.stopper 0 .wait) ∧
    Deadlock sysE (fun t => t.finished = true) storeErrCfg ∧
    trace (dropCfg storeErrCfg) = [.enqCall 0 0, .hook 0, .schedNew 0, .enqRet 0 0, .reset 0, .write 0 1, .stopCall 0] :=
  ⟨Reach.trans (runSched_reach _ _ _) (runSched_reach _ _ _), by decide, by decide, by decide, by decide,
    ⟨stuck_of_dead (by decide), .stopper 0 .wait, by decide, by decide⟩, by decide⟩

-- the hypotheses of the three theorems above are satisfiable: `storeErrCfg`, and crashes at the other store calls
set_option maxRecDepth 8000 in
example : (storeFailCfg 2 5 "Commit" 2).1.2 = true ∧ (storeFailCfg 2 5 "Commit" 2).1.1.batch = [2, 3] ∧
    (storeFailCfg 2 5 "Batched" 1).1.2 = true ∧ (storeFailCfg 2 5 "Batched" 1).1.1.wpc = .loopRun ∧
    (storeFailCfg 2 5 "Batched" 2).1.2 = true ∧ (storeFailCfg 2 5 "Batched" 2).1.1.again = true ∧
    (storeFailCfg 2 5 "Commit" 4).1.2 = false ∧ (storeFailCfg 2 5 "Commit" 4).1.1.wpc = .exited := by decide

/-! ### Queue size 0 (`WithQueueSize(0)`: the queue is an unbuffered channel)

Every theorem above quantifies over `q`, hence covers `q = 0`, where the model's send is the rendezvous hand-off
(`stepProd`, `.send`: enabled only while the writer is in one of its two `select`s).  Non-vacuity: the forced
schedules on the model with `q = 0` are complete runs; the hand-off is the only way an object reaches the writer. -/

def windowCfgU : Cfg St Thread := runSched sys (initSt 0 1, witnessThreads 1 (fun _ => 0)) (windowSchedU 1)
def windowDupCfgU : Cfg St Thread := runSched sys (initSt 0 1, witnessThreads 2 (fun _ => 0)) windowDupSchedU
def twoStopsCfgU : Cfg St Thread := runSched sys (initSt 0 1, twoStopsThreads) twoStopsSchedU

set_option maxRecDepth 4000 in
example : windowCfgU.1.wpc = .exited ∧ (∀ t ∈ windowCfgU.2, t.finished = true) ∧ okFinal (trace windowCfgU) = true ∧
    (Mon.run (trace windowCfgU)).dn 0 = 1 ∧ windowCfgU.1.queue = [] ∧ windowCfgU.1.rcv 0 = 1 ∧
    (trace windowCfgU).getLast? = some (.stopRet 0) := by decide

set_option maxRecDepth 4000 in
example : windowDupCfgU.1.wpc = .exited ∧ (∀ t ∈ windowDupCfgU.2, t.finished = true) ∧
    okFinal (trace windowDupCfgU) = true ∧ (Mon.run (trace windowDupCfgU)).dn 0 = 1 := by decide

set_option maxRecDepth 4000 in
example : twoStopsCfgU.1.wpc = .exited ∧ (∀ t ∈ twoStopsCfgU.2, t.finished = true) ∧ okFinal (trace twoStopsCfgU) = true ∧
    trace twoStopsCfgU = trace twoStopsCfg := by decide

/-- With queue size 0 nothing is ever buffered: the queue stays empty in every reachable configuration, and every
object the writer has received was handed over by a producer's send (`rcv = snt`). -/
theorem C08_unbuffered_queue_empty {b : Nat} {c0 c : Cfg St Thread} (h0 : Init 0 b c0) (hr : Reach sys c0 c) :
    c.1.queue = [] ∧ ∀ o, c.1.rcv o = c.1.snt o := by
  have hq : c.1.qsize = 0 ∧ c.1.queue = [] := by
    obtain ⟨s0, ts⟩ := c0
    obtain ⟨rfl, _, _⟩ := h0
    refine inv_of_step (fun c => c.1.qsize = 0 ∧ c.1.queue = []) ⟨rfl, rfl⟩ ?_ hr
    intro s pre t post s' t' h hm
    obtain ⟨h1, h2⟩ := h
    simp only at h1 h2 ⊢
    step_cases
    all_goals (first | exact ⟨h1, h2⟩ | (simp_all [emit, afterCommit]; done) | (exfalso; simp_all; done))
  refine ⟨hq.2, fun o => ?_⟩
  have := ((inv_reach h0 hr).wo o).rcv_snt
  simp [hq.2] at this
  exact this

/-! ### The counter stays inside the range of `atomic.Int32` -/

theorem countP_le_length (p : Thread → Bool) (l : List Thread) : l.countP p ≤ l.length := by
  induction l with
  | nil => simp
  | cons a l ih => simp only [List.countP_cons, List.length_cons]; split <;> omega

/-- `scheduledCount` is an `atomic.Int32` (`C08_skeleton_type_BatchedWriter`); the model's counter is an unbounded
integer.  In every reachable configuration it is non-negative and at most (number of threads) + (queue size) + 1:
the model is exact for the 32-bit counter as long as fewer than 2^31 − q − 1 goroutines call `Enqueue`
concurrently. -/
theorem C08_counter_in_int32_range {q b : Nat} {c0 c : Cfg St Thread} (h0 : Init q b c0) (hr : Reach sys c0 c) :
    0 ≤ c.1.count ∧ c.1.count ≤ (c.2.length : Int) + c.1.qsize + 1 ∧ c.1.qsize = q := by
  have hi := inv_reach h0 hr
  have h1 := hi.cnt.count
  have h2 := queue_le h0 hr
  have h3 := countP_le_length atSend c.2
  have h4 : holdC c.1.wpc ≤ 1 := by unfold holdC; split <;> omega
  have hq : c.1.qsize = q := by
    obtain ⟨s0, ts⟩ := c0
    obtain ⟨rfl, _, _⟩ := h0
    refine inv_of_step (fun c => c.1.qsize = q) rfl ?_ hr
    intro s pre t post s' t' h hm
    simp only at h ⊢
    step_cases
    all_goals (first | exact h | (simp_all [emit, afterCommit]; done))
  refine ⟨by omega, by omega, hq⟩

example : (runSched sys (initSt 1 1, witnessThreads 2 id) (rep 0 12 ++ rep 1 4)).1.count = 2 := by decide

/-! ### The old protocol (`sysOld`: running check before the counter increment) violates the statement -/

def oldWindowCfg : Cfg St Thread := runSched sysOld (initSt 1 1, witnessThreads 1 (fun _ => 0)) (oldWindowSched 1)

set_option maxRecDepth 4000 in
/-- **Old code, schedule `window`**: one producer passes its `running` check, Stop runs to completion (the
writer exits: nothing is counted), the producer continues: the object is marked scheduled, counted and
queued, never written — and every call has returned. -/
theorem C08_old_racing_enqueue_witness :
    Reach sysOld (initSt 1 1, witnessThreads 1 (fun _ => 0)) oldWindowCfg ∧
    oldWindowCfg.1.wpc = .exited ∧ (∀ t ∈ oldWindowCfg.2, t.finished = true) ∧
    ok (trace oldWindowCfg) = true ∧ okFinal (trace oldWindowCfg) = false ∧
    (Mon.run (trace oldWindowCfg)).finalVerdict = some .touchedNotWritten ∧
    (Mon.run (trace oldWindowCfg)).sch 0 = 1 ∧ (Mon.run (trace oldWindowCfg)).wr 0 = 0 :=
  ⟨runSched_reach _ _ _, by decide⟩

def oldWindowDupCfg : Cfg St Thread := runSched sysOld (initSt 1 1, witnessThreads 2 (fun _ => 0)) oldWindowDupSched

set_option maxRecDepth 4000 in
/-- **Old code, schedule `window-dup`**: producer 0 has marked the object scheduled but not yet counted it,
producer 1's `Enqueue` of the same object returns (already scheduled) before Stop is invoked, Stop returns:
the object whose Enqueue returned before Stop was invoked has not been written. -/
theorem C08_old_stop_waits_witness :
    Reach sysOld (initSt 1 1, witnessThreads 2 (fun _ => 0)) oldWindowDupCfg ∧
    Why.stopReturnedEarly ∈ (Mon.run (trace oldWindowDupCfg)).errs ∧
    ok (trace oldWindowDupCfg) = false ∧ (Mon.run (trace oldWindowDupCfg)).need 0 = 1 ∧
    (Mon.run (trace oldWindowDupCfg)).dn 0 = 0 :=
  ⟨runSched_reach _ _ _, by decide⟩

/-- no thread can move -/
def stuckB (S : Sys St Thread) (c : Cfg St Thread) : Bool := c.2.all (fun t => (S.step c.1 t).isEmpty)

theorem stuck_of_stuckB {S : Sys St Thread} {c : Cfg St Thread} (h : stuckB S c = true) : Stuck S c := by
  intro t ht
  have := List.all_eq_true.mp h t ht
  simpa [List.isEmpty_iff] using this

def oldWindowBlockCfg : Cfg St Thread := runSched sysOld (initSt 1 1, witnessThreads 2 id) (oldWindowSched 2)

set_option maxRecDepth 4000 in
/-- **Old code, schedule `window-block`**: queue size 1, two producers inside the window while Stop
completes; the first fills the queue, the second blocks on the queue send for ever: a deadlock (no thread can
move, producer 1 has not finished). -/
theorem C08_old_no_block_forever_witness :
    Reach sysOld (initSt 1 1, witnessThreads 2 id) oldWindowBlockCfg ∧
    Deadlock sysOld (fun t => t.finished = true) oldWindowBlockCfg ∧
    oldWindowBlockCfg.2[1]? = some (.prod 1 .send 1 []) :=
  ⟨runSched_reach _ _ _, ⟨stuck_of_stuckB (by decide), .prod 1 .send 1 [], by decide, by decide⟩, by decide⟩

/-- The old protocol does not satisfy the full statement. -/
theorem C08_old_statement_witness : ¬ C08_statement_for sysOld := by
  intro h
  have hw : Thread.writer ∈ (initSt 1 1, witnessThreads 1 (fun _ => 0)).2 := by decide
  have := (h 1 1 _ oldWindowCfg (by decide) (init_witness 1 1 _) hw C08_old_racing_enqueue_witness.1).2.1
    C08_old_racing_enqueue_witness.2.1
  have h2 := C08_old_racing_enqueue_witness.2.2.2.2.1
  simp [okFinal, C08_old_racing_enqueue_witness.2.2.2.1] at h2
  simp [h2] at this

/-! ### The order of the two loads in the writer's loop condition is load-bearing -/

def swappedCfg : Cfg St Thread := runSched sysSwapped (initSt 1 1, witnessThreads 1 (fun _ => 0)) swappedSched

set_option maxRecDepth 4000 in
/-- With the loop condition written `scheduledCount.Load() != 0 || running.Load()` (counter first) the protocol
violates the statement: the writer reads the counter (0), a producer announces its object and still sees
`running = true`, Stop clears `running`, the writer reads `running = false` and leaves; every call returns and
the object is marked scheduled, queued and never written.  (On the real code this window is two adjacent atomic
loads wide; no run has ever hit it, the regenerated skeleton / statement obligations are what reports the swap.) -/
theorem C08_loop_condition_order_witness :
    Reach sysSwapped (initSt 1 1, witnessThreads 1 (fun _ => 0)) swappedCfg ∧
    swappedCfg.1.wpc = .exited ∧ (∀ t ∈ swappedCfg.2, t.finished = true) ∧
    ok (trace swappedCfg) = true ∧ okFinal (trace swappedCfg) = false ∧
    (Mon.run (trace swappedCfg)).sch 0 = 1 ∧ (Mon.run (trace swappedCfg)).wr 0 = 0 ∧ swappedCfg.1.queue = [0] :=
  ⟨runSched_reach _ _ _, by decide⟩

/-! ### The time-out alternative of `collectValues` is load-bearing -/

set_option maxRecDepth 8000 in
/-- With `collectValues` lacking its time-out alternative (a nil timer channel for a "disabled" time-out) and a
`StopBatchWriter` that wakes the writer with a flush request instead (the two cooperating edits of seeded change
r6-3) the protocol violates the statement: a producer is past its running check when Stop clears `running`; the
writer consumes the wake-up flush (empty batch), comes back to its select because the counter is 1; the producer sends;
the object is reset, counted down and written into a batch that is not full — and nothing ever wakes the writer again:
the object is written and never committed, Stop is inside `writeWg.Wait()` for ever, no thread can move. -/
theorem C08_timeout_alternative_needed_witness :
    Reach sysNoTimer (initSt 1 2, witnessThreads 1 (fun _ => 0)) noTimerCfg ∧
    Deadlock sysNoTimer (fun t => t.finished = true) noTimerCfg ∧
    noTimerCfg.2[1]? = some (.stopper 0 .wait) ∧ noTimerCfg.1.wpc = .sel ∧ noTimerCfg.1.batch = [0] ∧
    (Mon.run (trace noTimerCfg)).wr 0 = 1 ∧ (Mon.run (trace noTimerCfg)).com 0 = 0 ∧
    trace noTimerCfg = [.enqCall 0 0, .hook 0, .stopCall 0, .schedNew 0, .enqRet 0 0, .reset 0, .write 0 1] :=
  ⟨runSched_reach _ _ _, ⟨stuck_of_stuckB (by decide), .stopper 0 .wait, by decide, by decide⟩, by decide, by decide,
    by decide, by decide, by decide, by decide⟩

/-! ### Regenerated tie: the synchronisation skeletons the protocol model was written against

`Hive/Gen/C08_Skel.lean` is regenerated from kvstore/batch_writer.go and batch_collector.go on every run.  The
model's atomic steps are exactly these operations in this order (Once body; counter increment, running check
with the decrement on the way out, object flag test-and-set with the decrement on the way out, queue send; lock / load / store / Wait / unlock; loop condition's two loads,
select over queue / flush / timer, reset / decrement / BatchWrite, Commit then the Done loop; Add before `go`).
A change of the code's lock / channel / atomic / WaitGroup structure breaks these obligations. -/

open Hive.Gen.C08Skel in
theorem C08_skeleton_Enqueue : skel_BatchedWriter_Enqueue =
    ["func{", "call bw.running.Load", "if{", "helper startBatchWriter", "}if", "}func",
      "call bw.autoStartOnce.Do", "call bw.scheduledCount.Add", "call bw.running.Load", "if{",
      "call bw.scheduledCount.Add", "return", "}if", "call object.BatchWriteScheduled", "if{",
      "call bw.scheduledCount.Add", "return", "}if", "send bw.batchQueue"] := by decide

open Hive.Gen.C08Skel in
theorem C08_skeleton_startBatchWriter : skel_BatchedWriter_startBatchWriter =
    ["lock bw.startStopMutex", "call bw.running.Load", "if{", "call bw.running.Store", "call bw.writeWg.Add",
      "go", "helper runBatchWriter", "}if", "unlock bw.startStopMutex"] := by decide

open Hive.Gen.C08Skel in
theorem C08_skeleton_StopBatchWriter : skel_BatchedWriter_StopBatchWriter =
    ["lock bw.startStopMutex", "call bw.running.Load", "if{", "call bw.running.Store",
      "call bw.writeWg.Wait", "}if", "unlock bw.startStopMutex"] := by decide

open Hive.Gen.C08Skel in
theorem C08_skeleton_Flush : skel_BatchedWriter_Flush =
    ["call bw.running.Load", "if{", "select{", "case send bw.flushChan", "default", "}select", "}if"] := by decide

open Hive.Gen.C08Skel in
theorem C08_skeleton_runBatchWriter : skel_BatchedWriter_runBatchWriter =
    ["for{", "call bw.running.Load", "call bw.scheduledCount.Load", "call bw.store.Batched", "if{", "}if",
      "func{", "for{", "select{", "case recv bw.batchQueue", "call batchCollector.Add", "if{",
      "call batchCollector.Commit", "if{", "}if", "return", "}if", "case recv bw.flushChan", "return",
      "case recv batchWriterTimeoutTimer.C", "call batchCollector.Commit", "if{", "}if", "return", "}select",
      "}for", "}func", "if{", "for{", "select{", "case recv bw.batchQueue", "call batchCollector.Add", "if{",
      "call batchCollector.Commit", "if{", "}if", "call bw.store.Batched", "if{", "}if", "}if", "default",
      "call batchCollector.Commit", "if{", "}if", "break", "}select", "}for", "}if", "}for",
      "call bw.writeWg.Done"] := by decide

open Hive.Gen.C08Skel in
theorem C08_skeleton_collector_Add : skel_BatchCollector_Add =
    ["if{", "}if", "call objectToPersist.ResetBatchWriteScheduled", "call br.scheduledCount.Add",
      "call objectToPersist.BatchWrite", "return"] := by decide

open Hive.Gen.C08Skel in
theorem C08_skeleton_collector_Commit : skel_BatchCollector_Commit =
    ["if{", "}if", "if{", "call br.batchedMuts.Cancel", "return", "}if", "call br.batchedMuts.Commit", "if{",
      "return", "}if", "for{", "call br.writtenValues[i].BatchWriteDone", "}for", "return"] := by decide

end Hive.BatchWriter
