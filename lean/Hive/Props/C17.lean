import Hive.Proofs.SyncMutexWB
import Hive.Proofs.SyncMutexDag
import Hive.Proofs.SyncMutexWait
import Hive.Gen.C17_Skel
import Hive.Proofs.SyncMutexExec
import Hive.Proofs.SyncMutexComp9
import Hive.Proofs.SyncMutexWaitV
/-!
# C17 — Starving/DAG mutexes: exclusion, no lost wake-up, condition waits

Property theorems only.  Models: `Hive/Model/SyncMutex.lean` (StarvingMutex as a monitor protocol, code
after the repair of `Unlock`), `Hive/Model/SyncMutexDag.lean` (DAGMutex over abstract per-entity
reader/writer locks), `Hive/Model/SyncMutexWait.lean` (Counter/Stack wait primitives).  Every theorem is
about **all** reachable configurations of a system with any number of goroutines; `WB`/`WBD` restrict the
scripts to well-bracketed ones where the statement needs it (a goroutine can only be said to *hold* a lock
if it is the one that releases it).
-/
namespace Hive.SyncMutex
open Hive.Conc

/-! ## StarvingMutex -/

/-- **Exclusion.**  For well-bracketed goroutines (any number, any scripts): at most one goroutine holds
the write lock, and while one does nobody holds a read lock.  A goroutine holds from the step inside
`Lock`/`RLock` that grants it the lock to the step inside `Unlock`/`RUnlock` that gives it back. -/
theorem C17_exclusion {scripts : List (List Op)} (hwb : WB scripts) {c : Cfg Mx Th}
    (hr : Reach sys (initCfg scripts) c) :
    Excl (sumV fWr (views c.2)) (sumV fRd (views c.2)) := by
  obtain ⟨⟨hg, hrd, hwr, _⟩, _⟩ := winvC_reach hwb hr
  have hex := hg.excl
  unfold Excl
  cases hw : c.1.writer <;> simp [hw] at hwr hex <;> omega

/-- The counters of the mutex are exactly what the goroutines hold. -/
theorem C17_counters_exact {scripts : List (List Op)} (hwb : WB scripts) {c : Cfg Mx Th}
    (hr : Reach sys (initCfg scripts) c) :
    c.1.readers = sumV fRd (views c.2) ∧ (if c.1.writer then 1 else 0) = sumV fWr (views c.2) := by
  obtain ⟨⟨_, hrd, hwr, _⟩, _⟩ := winvC_reach hwb hr
  exact ⟨hrd, hwr⟩

/-- Exclusion of the lock state itself, for **arbitrary** scripts (including goroutines that unlock what
another goroutine locked): the writer flag is never set together with active readers. -/
theorem C17_exclusion_state {scripts : List (List Op)} {c : Cfg Mx Th}
    (hr : Reach sys (initCfg scripts) c) : c.1.writer = true → c.1.readers = 0 :=
  (ginvC_reach hr).excl

/-- Well-bracketed goroutines never panic. -/
theorem C17_wellbracketed_no_panic {scripts : List (List Op)} (hwb : WB scripts) {c : Cfg Mx Th}
    (hr : Reach sys (initCfg scripts) c) : ∀ t ∈ c.2, t.v.pc ≠ .dead := by
  intro t ht hd
  have := (winvC_reach hwb hr).1.loc t.v (by simp only [views, List.mem_map]; exact ⟨t, ht, rfl⟩)
  simp [vinv, hd] at this

/-- **No lost wake-up**, for arbitrary scripts and any number of goroutines.
(1) Whenever the write lock is grantable (`¬writer ∧ readers = 0`) and a writer is registered on the
writer condition, some goroutine owes that condition a `Signal` (`ruS`, `ulS`), or a notification is
already delivered (`wakeW`), or a notified writer is on its way to re-test (`lkR`, `lkC`).
(2) Whenever no writer is active and a reader is registered on the reader condition, some goroutine owes
the `Broadcast` (`ulB`) or a writer is pending — and then (1) applies to that writer.
(3) The registered and notified goroutines of each condition are exactly the goroutines parked in `Wait`,
and `pendingWriters` counts the goroutines between `pendingWriters++` and `pendingWriters--`. -/
theorem C17_no_lost_wakeup {scripts : List (List Op)} {c : Cfg Mx Th} (hr : Reach sys (initCfg scripts) c) :
    (c.1.writer = false → c.1.readers = 0 → 0 < c.1.waitW →
        (∃ t ∈ c.2, t.v.pc = .ruS ∨ t.v.pc = .ulS ∨ t.v.pc = .lkR ∨ t.v.pc = .lkC) ∨ 0 < c.1.wakeW) ∧
    (c.1.writer = false → 0 < c.1.waitR → (∃ t ∈ c.2, t.v.pc = .ulB) ∨ 0 < c.1.pending) ∧
    (c.1.waitW + c.1.wakeW = sumV fPW (views c.2) ∧ c.1.waitR + c.1.wakeR = sumV fPR (views c.2) ∧
      c.1.pending = sumV fPend (views c.2)) := by
  have g := ginvC_reach hr
  refine ⟨?_, ?_, g.hW, g.hR, g.hpend⟩
  · intro h1 h2 h3
    have := g.phiW h1 h2 h3
    by_cases hw : 0 < c.1.wakeW
    · exact Or.inr hw
    · left
      obtain ⟨t, ht, hp⟩ := sumV_views_pos (f := fHW) (ts := c.2) (by omega)
      exact ⟨t, ht, fHW_pos hp⟩
  · intro h1 h2
    rcases g.phiR h1 h2 with h | h
    · left
      obtain ⟨t, ht, hp⟩ := sumV_views_pos (f := fBR) (ts := c.2) h
      exact ⟨t, ht, fBR_pos hp⟩
    · exact Or.inr h

/-- **At quiescence every parked goroutine is blocked by a current holder** (arbitrary scripts): when
nobody is in flight and no notification is undelivered, a parked writer means the lock is held, and a
parked reader means a writer holds it — or a writer is parked as well and readers hold the lock (readers
queue behind pending writers: the mutex serves writers first). -/
theorem C17_no_lost_wakeup_quiescent {scripts : List (List Op)} {c : Cfg Mx Th}
    (hr : Reach sys (initCfg scripts) c) (hq : Quiescent c.1 (views c.2)) :
    (0 < c.1.waitW → c.1.writer = true ∨ 0 < c.1.readers) ∧
    (0 < c.1.waitR → c.1.writer = true ∨ (0 < c.1.readers ∧ 0 < c.1.waitW)) := by
  have g := ginvC_reach hr
  obtain ⟨hfl, hwR, hwW⟩ := hq
  have zHW : sumV fHW (views c.2) = 0 := sumV_zero (fun v hv => (quiet_flags (hfl v hv)).1)
  have zBR : sumV fBR (views c.2) = 0 := sumV_zero (fun v hv => (quiet_flags (hfl v hv)).2.1)
  have hpp : sumV fPend (views c.2) = sumV fPW (views c.2) :=
    sumV_congr (fun v hv => (quiet_flags (hfl v hv)).2.2)
  have first : 0 < c.1.waitW → c.1.writer = true ∨ 0 < c.1.readers := by
    intro hw
    cases hwr : c.1.writer with
    | true => exact Or.inl rfl
    | false =>
      right
      rcases Nat.eq_zero_or_pos c.1.readers with h0 | hp
      · have := g.phiW hwr h0 hw; omega
      · exact hp
  refine ⟨first, ?_⟩
  intro hw
  cases hwr : c.1.writer with
  | true => exact Or.inl rfl
  | false =>
    right
    rcases g.phiR hwr hw with h | h
    · omega
    · have hWpos : 0 < c.1.waitW := by have := g.hW; have := g.hpend; omega
      rcases first hWpos with h' | h'
      · rw [hwr] at h'; cases h'
      · exact ⟨h', hWpos⟩

/-- **No deadlock** for well-bracketed goroutines: in a reachable configuration in which no goroutine
can take a step, every goroutine has finished its script.  (Equivalent form of "no wake-up is lost":
whoever is still parked could never be woken.) -/
theorem C17_deadlock_free {scripts : List (List Op)} (hwb : WB scripts) {c : Cfg Mx Th}
    (hr : Reach sys (initCfg scripts) c) : ¬ Deadlock sys Th.done c := by
  rintro ⟨hst, t, ht, hnd⟩
  exact hnd (stuck_all_done (s := c.1) (ts := c.2) (winvC_reach hwb hr) hst t ht)

/-- **Unlocking what is not held panics and changes nothing**: inside the critical section of `Unlock`
with no writer active (or readers active), and inside that of `RUnlock` with no reader active (or a writer
active), the only successor is the panic, with the lock state untouched and the internal mutex released again
(code after the repair "release the internal mutex before panicking"). -/
theorem C17_unlock_unheld_panics (s : Mx) (v : V) :
    (v.pc = .ulC → (s.writer = false ∨ 0 < s.readers) →
      mxStep s v = [({ s with m := false }, { v with pc := .dead })]) ∧
    (v.pc = .ruC → (s.readers = 0 ∨ s.writer = true) →
      mxStep s v = [({ s with m := false }, { v with pc := .dead })]) := by
  constructor
  · intro hp h
    simp only [mxStepG, hp, ulCStep]
    rcases h with h | h
    · simp [h]
    · simp [h]
  · intro hp h
    simp only [mxStepG, hp]
    rcases h with h | h
    · simp [h]
    · simp [h]

/-- …and unlocking what *is* held does not panic. -/
theorem C17_unlock_held_ok (s : Mx) (v : V) (s' : Mx) (v' : V) :
    (v.pc = .ulC → s.writer = true → s.readers = 0 → (s', v') ∈ mxStep s v → v'.pc ≠ .dead ∧ s'.writer = false) ∧
    (v.pc = .ruC → s.writer = false → 0 < s.readers → (s', v') ∈ mxStep s v →
      v'.pc ≠ .dead ∧ s'.readers = s.readers - 1) := by
  constructor
  · intro hp hw hr hm
    simp [mxStepG, hp, ulCStep, hw, hr] at hm
    split at hm <;> simp at hm <;> obtain ⟨rfl, rfl⟩ := hm <;> simp
  · intro hp hw hr hm
    have : s.readers ≠ 0 := by omega
    simp [mxStepG, hp, hw, this] at hm
    split at hm <;> simp at hm <;> obtain ⟨rfl, rfl⟩ := hm <;> simp

/-- **The monitor implements a reader/writer lock**: the only effects a step of any goroutine has on the
lock state (`writer`, `readers`) are the four transitions of the abstract lock used for the entities of
the DAGMutex model — grant of the write lock when nobody holds it, grant of a read lock when no writer
holds it, and the two releases (from a state in which the lock is held that way). -/
theorem C17_monitor_refines_rwlock (s : Mx) (v : V) (s' : Mx) (v' : V) (h : (s', v') ∈ mxStep s v) :
    (s'.writer = s.writer ∧ s'.readers = s.readers) ∨
    (v.pc = .lkC ∧ s.writer = false ∧ s.readers = 0 ∧ s'.writer = true ∧ s'.readers = 0) ∨
    (v.pc = .rlC ∧ s.writer = false ∧ s'.writer = false ∧ s'.readers = s.readers + 1) ∨
    (v.pc = .ulC ∧ s.writer = true ∧ s.readers = 0 ∧ s'.writer = false ∧ s'.readers = 0) ∨
    (v.pc = .ruC ∧ s.writer = false ∧ 0 < s.readers ∧ s'.writer = false ∧ s'.readers = s.readers - 1) := by
  obtain ⟨pc, rd, wr⟩ := v
  obtain ⟨m, readers, writer, pending, waitR, wakeR, waitW, wakeW⟩ := s
  cases pc <;> cases m <;> cases writer <;>
    simp [mxStepG, ulCStep, signalW, broadcastR] at h <;>
    (repeat' split at h) <;>
    (try simp at h) <;>
    (try (first | (obtain ⟨rfl, rfl⟩ := h) | (obtain ⟨hg, rfl, rfl⟩ := h)
          simp_all <;> omega))

/-- **A misuse panic leaves the mutex as it was — usable** (arbitrary scripts, any number of goroutines, code after the
repair "release the internal mutex before panicking"): the internal mutex is held exactly while some goroutine is
inside a critical section of the mutex (`fM`; a panicked goroutine is not), so once nobody is inside one the internal
mutex is free, whoever has panicked before.  With `C17_unlock_unheld_panics` (the panicking step changes nothing but
releases the internal mutex) and `C17_no_lost_wakeup` (Φ_W, Φ_R and the accounting hold for arbitrary scripts): after
any number of recovered misuse panics the mutex grants and releases exactly as if the misused calls had never been
made.  (The harness: after every recovered panic the counters are the ones before the call, the internal mutex is free,
and the mutex is probed for a grant alongside the known holders.) -/
theorem C17_panic_releases_internal_mutex {scripts : List (List Op)} {c : Cfg Mx Th}
    (hr : Reach sys (initCfg scripts) c) :
    (if c.1.m then 1 else 0) = sumV fM (views c.2) ∧
      ((∀ t ∈ c.2, fM t.v = 0) → c.1.m = false) ∧ (∀ v : V, v.pc = .dead → fM v = 0) := by
  have g := ginvC_reach hr
  refine ⟨g.hm, ?_, fun v hv => by simp [fM, hv]⟩
  intro h0
  have hz : sumV fM (views c.2) = 0 := by
    apply sumV_zero
    intro v hv
    simp only [views, List.mem_map] at hv
    obtain ⟨t, ht, rfl⟩ := hv
    exact h0 t ht
  have hm := g.hm
  rw [hz] at hm
  cases hmm : c.1.m <;> simp [hmm] at hm ⊢

/-- Non-vacuity: `Unlock` of the unlocked mutex by goroutine 0 panics with the internal mutex free again; goroutine 1
then runs its `Lock` to the end and holds the write lock. -/
example :
    let c := Conc.runSched sys (initCfg [[.unlock], [.lock]]) [(0, 0), (0, 0), (0, 0)]
    c.2.map (·.v.pc) = [.dead, .idle] ∧ c.1.m = false ∧
      (let c' := Conc.runSched sys c [(1, 0), (1, 0), (1, 0), (1, 0)]
       c'.2.map (·.v.pc) = [.dead, .idle] ∧ c'.1.writer = true ∧ c'.1.m = false ∧ c'.2.map (·.script) = [[], []]) := by
  decide

/-- The code before the repair: `Unlock` on a fresh mutex ran through (and broadcast) instead of
panicking.  Replayed on the implementation by the `seq` requests of the harness. -/
theorem C17_unlock_unheld_old_witness :
    (Conc.runSched sysOld (initCfg [[.unlock]]) [(0, 0), (0, 0), (0, 0), (0, 0)]).2.map (·.v.pc) = [.idle] ∧
    (Conc.runSched sys (initCfg [[.unlock]]) [(0, 0), (0, 0), (0, 0), (0, 0)]).2.map (·.v.pc) = [.dead] := by
  decide

/-! ## DAGMutex -/

open Dag in
/-- **DAG exclusion**: per entity at most one write holder, and then no read holder. -/
theorem C17_dag_exclusion {scripts : List (List DOp)} (hwb : WBD scripts) {c : Cfg DSh DTh}
    (hr : Reach Dag.sys (Dag.initCfg scripts) c) (x : Nat) :
    Excl (Wait.sumL (hW x) c.2) (Wait.sumL (hR x) c.2) := by
  obtain ⟨hg, _⟩ := dinv_reach hwb hr
  have h1 := hg.hw x; have h2 := hg.hr x; have h3 := hg.ex x
  unfold Excl
  cases hw : (c.1 x).writer <;> simp [hw] at h1 h3 <;> omega

open Dag in
/-- **Acquiring along an acyclic order never deadlocks.**  Entities are numbered along a topological
order of the DAG; `WBD` says every goroutine asks for an entity only while everything it holds is
smaller, releases only what it holds and ends holding nothing.  Then in every reachable configuration in
which each goroutine has either finished or is waiting for an entity that *somebody holds in any mode*
(the pessimistic reading of "blocked", which covers readers queued behind a parked writer), everybody
has finished. -/
theorem C17_dag_deadlock_free {scripts : List (List DOp)} (hwb : WBD scripts) {c : Cfg DSh DTh}
    (hr : Reach Dag.sys (Dag.initCfg scripts) c) (hst : PStuck c) : ∀ t ∈ c.2, t.done :=
  pstuck_all_done (s := c.1) (ts := c.2) (dinv_reach hwb hr) hst

open Dag in
/-- The same in the kit's terms: no reachable configuration is a deadlock. -/
theorem C17_dag_no_deadlock {scripts : List (List DOp)} (hwb : WBD scripts) {c : Cfg DSh DTh}
    (hr : Reach Dag.sys (Dag.initCfg scripts) c) : ¬ Deadlock Dag.sys DTh.done c := by
  rintro ⟨hst, t, ht, hnd⟩
  have hinv := dinv_reach hwb hr
  apply hnd
  refine C17_dag_deadlock_free hwb hr ?_ t ht
  intro u hu
  have hs : stepG true c.1 u = [] := hst u hu
  have hti := hinv.2 u hu
  obtain ⟨pc, held, script⟩ := u
  cases pc with
  | dead => exact absurd hti (by simp [TI])
  | idle =>
    left
    cases script with
    | nil => exact ⟨rfl, rfl⟩
    | cons op rest =>
      cases op <;> simp [stepG] at hs
      all_goals (split at hs <;> simp at hs)
  | acqW x =>
    right
    refine ⟨x, rfl, ?_⟩
    simp only [stepG] at hs
    split at hs
    · simp at hs
    · rename_i hn
      cases hw : (c.1 x).writer with
      | true => exact Or.inl rfl
      | false => right; simp [hw] at hn; omega
  | acqR xs =>
    cases xs with
    | nil => simp [stepG] at hs
    | cons x xs =>
      right
      refine ⟨x, rfl, ?_⟩
      simp only [stepG] at hs
      split at hs
      · simp at hs
      · rename_i hn
        left; simpa using hn

open Dag in
/-- Well-bracketed DAG scripts never panic. -/
theorem C17_dag_wellbracketed_no_panic {scripts : List (List DOp)} (hwb : WBD scripts) {c : Cfg DSh DTh}
    (hr : Reach Dag.sys (Dag.initCfg scripts) c) : ∀ t ∈ c.2, t.pc ≠ .dead := by
  intro t ht hd
  have := (dinv_reach hwb hr).2 t ht
  simp [TI, hd] at this

open Dag in
/-- **Unlocking an entity that is not held in that mode panics**: nobody registered, a write unlock of an
entity that is not write-locked, a read unlock of an entity without readers. -/
theorem C17_dag_unlock_unheld_panics (s : DSh) (x : Nat) :
    ((s x).cnt = 0 → ∀ md, unlockEnt true md s x = none) ∧
    (((s x).writer = false ∨ 0 < (s x).readers) → unlockEnt true .w s x = none) ∧
    (((s x).readers = 0 ∨ (s x).writer = true) → unlockEnt true .r s x = none) := by
  refine ⟨?_, ?_, ?_⟩
  · intro h md; simp [unlockEnt, h]
  · intro h
    by_cases hc : (s x).cnt = 0
    · simp [unlockEnt, hc]
    · rcases h with h | h
      · simp [unlockEnt, hc, h]
      · simp [unlockEnt, hc, h]
  · intro h
    by_cases hc : (s x).cnt = 0
    · simp [unlockEnt, hc]
    · rcases h with h | h
      · simp [unlockEnt, hc, h]
      · simp [unlockEnt, hc, h]

open Dag in
/-- The code before the repair of `unregisterMutex`: the last consumer's unlock in the wrong mode went
through silently and dropped the entity (here: `RLock(7)` then `Unlock(7)`). -/
theorem C17_dag_unlock_wrong_mode_old_witness :
    (Conc.runSched Dag.sysOld (Dag.initCfg [[.rlock [7], .unlock 7]]) [(0, 0), (0, 0), (0, 0)]).2.map (·.pc)
      = [.idle] ∧
    (Conc.runSched Dag.sys (Dag.initCfg [[.rlock [7], .unlock 7]]) [(0, 0), (0, 0), (0, 0)]).2.map (·.pc)
      = [.dead] := by
  decide

/-! ## DAGMutex composed of StarvingMutex monitors

`Hive/Model/SyncMutexComp.lean`: the registry mutex `d.Mutex`, the maps `mutexes`/`consumerCounter`, a heap
of StarvingMutex objects each stepped by the monitor protocol `mxStep` (the very transition function of
the StarvingMutex theorems above), registration before blocking, `RLock` acquiring its ids in argument
order, `Unlock`/`RUnlock` looking the mutexes up, unlocking them and only then unregistering (the repair of the
"registry modified before the panic" finding), the last consumer detaching the entity's object.  The theorems below are
about this composed system directly — no abstract reader/writer lock, and `Stuck` is the real one (a reader
parked behind a queued writer is not enabled). -/

open Comp in
/-- Every mutex object of the registry is a StarvingMutex monitor in a state satisfying the monitor
invariants (`WInv`: Φ_W, Φ_R, condition accounting, counters = holds of the goroutines' views), the consumer
counter of an entity is the number of goroutines registered for it, and an entity has a mutex iff its counter
is not zero. -/
theorem C17_dag_composed_monitors {scripts : List (List Dag.DOp)} (hwb : Dag.WBD scripts) {c : Cfg CSh CTh}
    (hr : Reach Comp.sys (Comp.initCfg scripts) c) :
    (∀ o, WInv (c.1.heap o) (c.2.map (proj o))) ∧ (∀ x, c.1.cnt x = Wait.sumL (regc x) c.2) ∧
      (∀ x, c.1.cnt x = 0 ↔ c.1.ent x = none) := by
  have h := cinv_reach hwb hr
  exact ⟨h.obj, h.cnt, h.rw.z⟩

open Comp in
/-- **DAG exclusion over the composed system**: per entity at most one goroutine holds it for writing, and
then none for reading (`held` = from the return of `Lock`/`RLock` to the call of `Unlock`/`RUnlock`). -/
theorem C17_dag_composed_exclusion {scripts : List (List Dag.DOp)} (hwb : Dag.WBD scripts) {c : Cfg CSh CTh}
    (hr : Reach Comp.sys (Comp.initCfg scripts) c) (x : Nat) :
    Excl (Wait.sumL (fun t => t.held.count (x, .w)) c.2) (Wait.sumL (fun t => t.held.count (x, .r)) c.2) :=
  comp_exclusion (cinv_reach hwb hr) x

open Comp in
/-- **Acquiring along an acyclic order never deadlocks — over the composed system**: no reachable
configuration is a deadlock (nobody can take a step although somebody has not finished), for any number of
goroutines whose scripts acquire entities upwards along the order and release what they hold. -/
theorem C17_dag_composed_deadlock_free {scripts : List (List Dag.DOp)} (hwb : Dag.WBD scripts) {c : Cfg CSh CTh}
    (hr : Reach Comp.sys (Comp.initCfg scripts) c) : ¬ Deadlock Comp.sys CTh.done c := by
  rintro ⟨hst, t, ht, hnd⟩
  exact hnd (comp_stuck_all_done (s := c.1) (ts := c.2) (cinv_reach hwb hr) hst t ht)

open Comp in
/-- Such goroutines never panic: neither in `unregisterMutex` nor inside a StarvingMutex method. -/
theorem C17_dag_composed_no_panic {scripts : List (List Dag.DOp)} (hwb : Dag.WBD scripts) {c : Cfg CSh CTh}
    (hr : Reach Comp.sys (Comp.initCfg scripts) c) : ∀ t ∈ c.2, t.ctl ≠ .dead ∧ t.ipc ≠ .dead := by
  intro t ht
  have h := cinv_reach hwb hr
  constructor
  · intro hd
    have := (h.th t ht).si
    simp [SI, hd] at this
  · intro hd
    have := (h.obj t.cur).loc (proj t.cur t) (List.mem_map.mpr ⟨t, ht, rfl⟩)
    simp [proj, vinv, hd] at this

open Comp in
/-- **Nothing is left behind**: when every goroutine has finished, no entity is registered any more — every consumer
counter is 0 and `mutexes` is empty (the last consumer of an entity drops it in the final critical section of its
`Unlock`/`RUnlock`; the harness checks the same on the real object after every arrival case and stress run). -/
theorem C17_dag_composed_no_leak {scripts : List (List Dag.DOp)} (hwb : Dag.WBD scripts) {c : Cfg CSh CTh}
    (hr : Reach Comp.sys (Comp.initCfg scripts) c) (hall : ∀ t ∈ c.2, t.done) :
    ∀ x, c.1.cnt x = 0 ∧ c.1.ent x = none := by
  intro x
  have h := cinv_reach hwb hr
  have h0 : c.1.cnt x = 0 := by
    rw [h.cnt x]
    apply Wait.sumL_zero
    intro t ht
    obtain ⟨hc, hs⟩ := hall t ht
    have hni : isInner t = false := by simp [isInner, hc]
    have hsi := (h.th t ht).si
    simp only [SI, hc, hs, Dag.okD, List.isEmpty_iff] at hsi
    rw [regc_outside hni]
    simp [hsi, unrg, hc]
  exact ⟨h0, (h.rw.z x).mp h0⟩

/-- Non-vacuity of `C17_dag_composed_no_leak`: two goroutines run `Lock(1); RLock(2); RUnlock(2); Unlock(1)` and
`RLock(1,2); RUnlock(2,1)` one after the other to the end; everybody has finished, and the registry is empty again. -/
example :
    let c := Conc.runSched Comp.sys
      (Comp.initCfg [[.lock 1, .rlock [2], .runlock [2], .unlock 1], [.rlock [1, 2], .runlock [2, 1]]])
      (List.replicate 30 (0, 0) ++ List.replicate 20 (1, 0))
    c.2.map (fun t => (t.ctl, t.script, t.held)) = [(.idle, [], []), (.idle, [], [])] ∧
      [c.1.cnt 1, c.1.cnt 2] = [0, 0] ∧ [c.1.ent 1, c.1.ent 2] = [none, none] ∧ c.1.next = 4 := by
  decide

open Comp in
/-- **Unlocking something that is not held panics instead of corrupting state — DAGMutex** (the repair of the finding
"`Unlock`/`RUnlock` modify the registry before they panic").  From *any* state (no assumption on the scripts: misuse
is the case in which the invariants above do not hold):

1. `Unlock(x)` of an entity without a mutex panics in its lookup section; the whole state is as it was before the call
   (`d.Mutex` released again).
2. `RUnlock(xs...)` panics in its lookup section — again with the whole state untouched — exactly when some id has no
   mutex or occurs in `xs` more often than it is registered (`consumerCounter`).
3. Registry frame: `mutexes`, `consumerCounter` and the allocation of mutex objects change only inside the bodies of
   `registerMutex(es)` and of `unregisterMutexes` (`regSection`); in particular not while a goroutine is inside
   `Unlock`/`RUnlock` before its final `unregisterMutexes` (`inRelease`: the lookup and every `StarvingMutex.Unlock`/
   `RUnlock` it issues), and there a StarvingMutex step touches only the object it runs on.
4. The wrong-mode case: the step in which `StarvingMutex.Unlock`/`RUnlock` panics only releases the internal mutex of
   that object again (it is the failing guard; `C17_unlock_unheld_panics`), so a wrong-mode `Unlock(x)` leaves the
   registry and every entity's mutex as before the call, and a wrong-mode panic at the k-th id of `RUnlock(ids…)` leaves the k−1 read
   locks before it released and *all* registrations in place — exactly what the repaired code guarantees (the
   over-counted consumers can never lead to a wrong grant: `C17_dag_misuse_panic_fixed_witness`).
5. The final `unregisterMutexes` (`unregA`/`runregA`) is entered only by a normal return of the last StarvingMutex
   unlock of the call (or directly, by `RUnlock()` without ids). -/
theorem C17_dag_misuse_panic_preserves_state (s : CSh) (t : CTh) :
    (∀ x, t.ctl = .unlockC x → s.ent x = none →
      Comp.step s t = [({ s with dm := false }, { t with ctl := .dead })]) ∧
    (∀ xs, t.ctl = .runlockC xs →
      ((∃ x ∈ xs, s.ent x = none ∨ s.cnt x < xs.count x) ↔
        Comp.step s t = [({ s with dm := false }, { t with ctl := .dead })])) ∧
    (∀ s' t', (s', t') ∈ Comp.step s t → regSection t = false →
      s'.ent = s.ent ∧ s'.cnt = s.cnt ∧ s'.next = s.next) ∧
    (inRelease t = true → regSection t = false) ∧
    (∀ k s' t', t.ctl = .inner k → (s', t') ∈ Comp.step s t → ∀ o, o ≠ t.cur → s'.heap o = s.heap o) ∧
    (∀ k s' t', t.ctl = .inner k → (s', t') ∈ Comp.step s t → t'.ipc = .dead →
      s' = { s with heap := Dag.upd s.heap t.cur { s.heap t.cur with m := false } } ∧ (t.ipc = .ulC ∨ t.ipc = .ruC)) ∧
    (∀ s' t', (s', t') ∈ Comp.step s t → t.ctl ≠ t'.ctl →
      ((∀ x, t'.ctl = .unregA x → t.ctl = .inner (.ul x) ∧ t.ipc = .idle) ∧
       (∀ xs, t'.ctl = .runregA xs → (t.ctl = .inner (.ru [] xs) ∧ t.ipc = .idle) ∨ (t.ctl = .runlockC xs ∧ xs = [])))) := by
  refine ⟨?_, ?_, fun s' t' hm hr => step_registry_frame hm hr, inRelease_not_regSection,
    fun k s' t' hc hm => step_inner_frame hc hm, fun k s' t' hc hm h1 => step_inner_panic hc hm h1, ?_⟩
  · intro x hc he
    simp [Comp.step, hc, he]
  · intro xs hc
    have hl := lookAll_none_iff s xs []
    simp only [List.count_nil, Nat.zero_add] at hl
    rw [← hl]
    constructor
    · intro h; simp [Comp.step, hc, h]
    · intro h
      cases hla : lookAll s [] xs with
      | none => rfl
      | some os =>
        exfalso
        cases os <;> simp [Comp.step, hc, hla, startInner] at h
  · intro s' t' hm hne
    exact step_enters_unreg hm hne

open Comp in
/-- **The whole misused call, executed alone** (the sequential reading of "unlocking something that is not held panics
instead of corrupting state"; any state `s` with `d.Mutex` free, any other goroutines standing still):
1. `Unlock(x)` of an entity without a mutex: after its three steps the goroutine has panicked and the *entire* shared
   state is `s` again.
2. `RUnlock(xs…)` with an id that has no mutex or occurs more often than it is registered: the same.
3. `Unlock(x)` of a registered entity whose mutex (internal mutex free) is not write-locked or has readers: after its
   five steps the goroutine has panicked inside `StarvingMutex.Unlock` and the *entire* shared state is `s` again —
   registry, consumer counts, every mutex object including its internal mutex (released before the panic).
4. `RUnlock(xs…)` that passes the lookup (`lookAll` = the objects `o :: os`) but whose first mutex is not read-locked or
   is write-locked: the same, inside `StarvingMutex.RUnlock` of `o` (for a later id see
   `C17_dag_misuse_panic_preserves_state` (4) and `C17_dag_misuse_panic_kth_id_witness`). -/
theorem C17_dag_misuse_call_preserves_state (s : CSh) (t : CTh) (r : List Dag.DOp) (others : List CTh)
    (hc : t.ctl = .idle) (hd : s.dm = false) :
    (∀ x, t.script = .unlock x :: r → s.ent x = none →
      Conc.runSched Comp.sys (s, t :: others) [(0, 0), (0, 0), (0, 0)] = (s, { t with ctl := .dead, script := r } :: others)) ∧
    (∀ xs, t.script = .runlock xs :: r → (∃ x ∈ xs, s.ent x = none ∨ s.cnt x < xs.count x) →
      Conc.runSched Comp.sys (s, t :: others) [(0, 0), (0, 0), (0, 0)] = (s, { t with ctl := .dead, script := r } :: others)) ∧
    (∀ x o, t.script = .unlock x :: r → s.ent x = some o → (s.heap o).m = false →
      (0 < (s.heap o).readers ∨ (s.heap o).writer = false) →
      ∃ t', Conc.runSched Comp.sys (s, t :: others) (List.replicate 5 (0, 0)) = (s, t' :: others) ∧
        t'.ipc = .dead ∧ t'.script = r) ∧
    (∀ xs o os, t.script = .runlock xs :: r → lookAll s [] xs = some (o :: os) → (s.heap o).m = false →
      ((s.heap o).readers = 0 ∨ (s.heap o).writer = true) →
      ∃ t', Conc.runSched Comp.sys (s, t :: others) (List.replicate 5 (0, 0)) = (s, t' :: others) ∧
        t'.ipc = .dead ∧ t'.script = r) :=
  ⟨fun x hs he => call_unlock_unregistered s t x r others hc hs hd he,
   fun xs hs he => call_runlock_lookup s t xs r others hc hs hd he,
   fun x o hs he hm hw => call_unlock_wrong_mode s t x o r others hc hs hd he hm hw,
   fun xs o os hs hl hm hw => call_runlock_wrong_mode s t xs o os r others hc hs hd hl hm hw⟩

/-- Non-vacuity of the hypotheses of `C17_dag_misuse_call_preserves_state` (3): after `RLock(1)` entity 1 is registered,
its mutex is read-locked with the internal mutex free, and the goroutine is between calls. -/
example :
    let c := Conc.runSched Comp.sys (Comp.initCfg [[.rlock [1], .unlock 1]]) (List.replicate 6 (0, 0))
    c.2.map (fun t => (t.ctl, t.script)) = [(.idle, [.unlock 1])] ∧ c.1.dm = false ∧ c.1.ent 1 = some 0 ∧
      (c.1.heap 0).m = false ∧ (c.1.heap 0).readers = 1 := by
  decide

open Comp in
/-- **No misuse can corrupt a mutex object** — the composed system under *arbitrary* scripts (any calls in any order on
any entities, wrong-mode and unregistered unlocks included, any number of them panicking): in every reachable
configuration every StarvingMutex object of the DAGMutex satisfies the script-independent monitor invariant `GInv` for
the goroutines' views of it — `writer → readers = 0`, the internal mutex is held by exactly the goroutines inside a
critical section of that object (a panicked one included), `pendingWriters` and both condition variables are accounted
for, Φ_W and Φ_R (no lost wake-up) hold.  Together with `C17_dag_misuse_panic_preserves_state` (the registry is written
only by the registering / unregistering sections): what a misused call leaves behind is never
a lock state that grants two holders.  (`C17_dag_misuse_panic_wrong_mode_witness` is a reachable configuration after a
misuse.) -/
theorem C17_dag_composed_objects_any_scripts {scripts : List (List Dag.DOp)} {c : Cfg CSh CTh}
    (hr : Reach Comp.sys (Comp.initCfg scripts) c) (o : Nat) :
    ((c.1.heap o).writer = true → (c.1.heap o).readers = 0) ∧ GInv (c.1.heap o) (c.2.map (proj o)) :=
  ⟨((gi_reach hr).obj o).excl, (gi_reach hr).obj o⟩

/-- The sequences of the former known finding, on the model of the repaired code (evaluation of one schedule each, a
witness, not a general claim; the harness replays the same calls on the real DAGMutex: `seq dagc rlock:1 runlock:1,2
lock:1`, `seq dagc rlock:1 unlock:1`).  (a) `RLock(1); RUnlock(1, 2)` panics at the unregistered entity 2 with entity 1
still registered (count 1, its mutex object 0 still read-locked, `d.Mutex` free) and a `Lock(1)` by another goroutine
registers (count 2) and is parked on that same object — it is *not* granted.  (b) `RLock(1); Unlock(1)` panics inside
`StarvingMutex.Unlock` (wrong mode) with the registration and the read lock in place. -/
theorem C17_dag_misuse_panic_fixed_witness :
    let c := Conc.runSched Comp.sys (Comp.initCfg [[.rlock [1], .runlock [1, 2]], [.lock 1]])
      (List.replicate 9 (0, 0) ++ List.replicate 6 (1, 0))
    c.2.map (fun t => (t.ctl, t.ipc, t.held)) = [(.dead, .idle, [(1, .r)]), (.inner .done, .lkP, [])] ∧
      (c.1.heap 0).readers = 1 ∧ (c.1.heap 0).writer = false ∧ c.1.ent 1 = some 0 ∧ c.1.cnt 1 = 2 ∧ c.1.dm = false := by
  decide

/-- Part (b) of the witness above: the wrong-mode `Unlock`. -/
theorem C17_dag_misuse_panic_wrong_mode_witness :
    let c := Conc.runSched Comp.sys (Comp.initCfg [[.rlock [1], .unlock 1]]) (List.replicate 11 (0, 0))
    c.2.map (fun t => (t.ctl, t.ipc, t.held)) = [(.inner (.ul 1), .dead, [(1, .r)])] ∧
      (c.1.heap 0).readers = 1 ∧ (c.1.heap 0).writer = false ∧ c.1.ent 1 = some 0 ∧ c.1.cnt 1 = 1 ∧ c.1.dm = false := by
  decide

/-- Part (c): a wrong mode at the k-th id.  `RLock(1,2); Lock(3); RUnlock(1,3,2)` passes the lookup (all three are
registered), releases the read lock of entity 1 (object 0), panics inside `StarvingMutex.RUnlock` of entity 3 (object 2,
write-locked: its lock state is untouched, its internal mutex is free again) and never reaches entity 2 (object 1, still
read-locked): k−1 = 1 read lock released, *all three* registrations in place, `d.Mutex` free. -/
theorem C17_dag_misuse_panic_kth_id_witness :
    let c := Conc.runSched Comp.sys (Comp.initCfg [[.rlock [1, 2], .lock 3, .runlock [1, 3, 2]]]) (List.replicate 24 (0, 0))
    c.2.map (fun t => (t.ctl, t.ipc)) = [(.inner (.ru [1] [1, 3, 2]), .dead)] ∧
      [1, 2, 3].map c.1.cnt = [1, 1, 1] ∧ [1, 2, 3].map c.1.ent = [some 0, some 1, some 2] ∧
      [0, 1, 2].map (fun o => ((c.1.heap o).readers, (c.1.heap o).writer, (c.1.heap o).m)) =
        [(0, false, false), (1, false, false), (0, true, false)] ∧ c.1.dm = false := by
  decide

/-- Non-vacuity: goroutine 0 holds entity 1 for writing and is parked in `RLock` of entity 2, which
goroutine 1 holds for writing; goroutine 2 is parked in `Lock(1)`. -/
example :
    let c := Conc.runSched Comp.sys
      (Comp.initCfg [[.lock 1, .rlock [2], .runlock [2], .unlock 1], [.lock 2, .unlock 2], [.lock 1, .unlock 1]])
      ((List.replicate 7 (1, 0)) ++ (List.replicate 12 (0, 0)) ++ (List.replicate 6 (2, 0)))
    c.2.map (fun t => (t.ctl, t.ipc, t.held)) =
      [(.inner (.rl []), .rlP, [(1, .w)]), (.idle, .idle, [(2, .w)]), (.inner .done, .lkP, [])] := by
  decide

/-! ## Counter / Stack waits -/

open Wait in
/-- **A wait returns only if its condition holds** at the moment it decides to return (inside the lock,
hence at a moment between call and return): `WaitIsBelow(t)`/`WaitIsZero`/`WaitIsEmpty` leave the loop
only with `value < t`, `WaitIsAbove(t)` only with `t < value`, and `PopOrWait` takes an element only from a
non-empty stack and otherwise returns `false` only because the callback said so on an empty stack. -/
theorem C17_wait_iff_returns_only_if (s : Mon) (t : WTh) (s' : Mon) (t' : WTh) (op : WOp)
    (hp : t.pc = .crit op) (hm : (s', t') ∈ Wait.step s t) :
    (∀ thr, op = .waitBelow thr → t'.pc = .idle → s.value < thr) ∧
    (∀ thr, op = .waitAbove thr → t'.pc = .idle → thr < s.value) ∧
    (op = .popOrWait → (t'.pc = .bcD → 0 < s.value ∧ s'.value = s.value - 1 ∧ t'.res = true :: t.res) ∧
      (t'.pc = .idle → s.value ≤ 0 ∧ t'.res = false :: t.res)) := by
  simp only [Wait.step, hp] at hm
  refine ⟨?_, ?_, ?_⟩
  · rintro thr rfl hi
    simp only [critStep] at hm
    split at hm <;> simp at hm <;> obtain ⟨rfl, rfl⟩ := hm
    · simp at hi
    · omega
  · rintro thr rfl hi
    simp only [critStep] at hm
    split at hm <;> simp at hm <;> obtain ⟨rfl, rfl⟩ := hm
    · simp at hi
    · omega
  · rintro rfl
    simp only [critStep] at hm
    split at hm
    · rename_i hv
      simp at hm
      rcases hm with ⟨rfl, rfl⟩ | ⟨rfl, rfl⟩ <;> simp [hv]
    · rename_i hv
      simp at hm
      obtain ⟨rfl, rfl⟩ := hm
      simp; omega

open Wait in
/-- **A wait does return when its condition holds** (no lost wake-up, arbitrary scripts, any number of
goroutines): a goroutine parked in `Wait` that has not been notified since it registered either still has
to wait (`mustWait`: its condition is not met by the current value) or some goroutine has released the
lock and owes the `Broadcast` on that condition variable. -/
theorem C17_wait_iff_no_lost_wakeup {v : Int} {scripts : List (List WOp)} {c : Cfg Mon WTh}
    (hr : Reach Wait.sys (Wait.initCfg v scripts) c) :
    ∀ t ∈ c.2, ∀ op g,
      (t.pc = .parkI op g → g = c.1.genI → mustWait op c.1.value ∨ ∃ u ∈ c.2, u.pc = .bcI) ∧
      (t.pc = .parkD op g → g = c.1.genD → mustWait op c.1.value ∨ ∃ u ∈ c.2, u.pc = .bcD) := by
  intro t ht op g
  have hl := (Wait.inv_reach hr).loc t ht
  constructor
  · intro hp hg
    simp only [Wait.tinv, hp] at hl
    rcases hl.2.2 hg with h | h
    · exact Or.inl h
    · right
      obtain ⟨u, hu, hpos⟩ := Dag.sumL_pos h
      exact ⟨u, hu, fBcI_pos hpos⟩
  · intro hp hg
    simp only [Wait.tinv, hp] at hl
    rcases hl.2.2 hg with h | h
    · exact Or.inl h
    · right
      obtain ⟨u, hu, hpos⟩ := Dag.sumL_pos h
      exact ⟨u, hu, fBcD_pos hpos⟩

open Wait in
/-- At quiescence a goroutine is still inside a wait **iff** its condition is not met: in a reachable
configuration in which nobody can move, every goroutine has finished its script or is parked with
`mustWait` true for the current value. -/
theorem C17_wait_iff_quiescent {v : Int} {scripts : List (List WOp)} {c : Cfg Mon WTh}
    (hr : Reach Wait.sys (Wait.initCfg v scripts) c) (hst : Stuck Wait.sys c) :
    ∀ t ∈ c.2, t.done ∨ ∃ op g, (t.pc = .parkI op g ∨ t.pc = .parkD op g) ∧ mustWait op c.1.value :=
  Wait.stuck_waiters (s := c.1) (ts := c.2) (Wait.inv_reach hr) hst

/-! ## Counter / Stack with their data (`Hive/Model/SyncMutexWaitV.lean`)

The model the driver runs for the `wm` cases: the wait monitor's transition function with the stack contents, the
return values of `Set`/`Update` and the subscriber notifications attached. -/

open WaitV in
/-- **The data model refines the wait monitor**: forgetting the data maps every run to a run of `Wait.sys`, and
stuck configurations to stuck configurations — so `C17_wait_iff_*` hold for it. -/
theorem C17_waitv_refines_wait {c0 c : Cfg MonV WThV} (hr : Reach WaitV.sys c0 c) :
    Reach Wait.sys (proj c0) (proj c) ∧ (Stuck WaitV.sys c → Stuck Wait.sys (proj c)) :=
  ⟨reach_proj hr, stuck_proj⟩

open WaitV in
/-- `C17_wait_iff_quiescent` for the data model (Stack flavour; the Counter flavour is the same with `initCounter`):
at quiescence every goroutine has finished or is parked with its condition unmet. -/
theorem C17_waitv_quiescent {n : Nat} {scripts : List (List Wait.WOp)} {c : Cfg MonV WThV}
    (hr : Reach WaitV.sys (initStack n scripts) c) (hst : Stuck WaitV.sys c) :
    ∀ t ∈ c.2, t.base.done ∨
      ∃ op g, (t.base.pc = .parkI op g ∨ t.base.pc = .parkD op g) ∧ Wait.mustWait op c.1.base.value := by
  intro t ht
  have hr' : Reach Wait.sys (Wait.initCfg n scripts) (proj c) := by
    have := reach_proj hr
    simpa [proj, initStack, MonV.initStack, Wait.initCfg, WThV.new, List.map_map, Function.comp_def] using this
  exact C17_wait_iff_quiescent hr' (stuck_proj hst) t.base (List.mem_map.mpr ⟨t, ht, rfl⟩)

open WaitV in
/-- **The Stack hands its elements out exactly once and in push order** (any number of goroutines calling
`Push`/`Pop`/`PopOrWait`/`WaitSizeIs…`/`SignalShutdown` in any order, all schedules): the elements pushed so far
(`0 … pushed-1`, identified by their push sequence number) are exactly the elements taken so far, in the order they
were taken, followed by the current contents front to back; the size the waits look at is the length of the contents;
what a goroutine received is a subsequence of what was taken. -/
theorem C17_stack_fifo_conservation {n : Nat} {scripts : List (List Wait.WOp)}
    (hs : ∀ sc ∈ scripts, ∀ op ∈ sc, stackOp op) {c : Cfg MonV WThV}
    (hr : Reach WaitV.sys (initStack n scripts) c) :
    List.range c.1.pushed = c.1.popped ++ c.1.q ∧ c.1.base.value = c.1.q.length ∧
      ∀ t ∈ c.2, t.vals.reverse.Sublist c.1.popped := by
  have h := sinv_reach n hs hr
  exact ⟨h.fifo, h.len, h.sub⟩

/-- Stack scripts exist and use every method. -/
example : ∀ sc ∈ [[Wait.WOp.add 1, .tryPop, .popOrWait], [.waitBelow 1, .waitAbove 0, .shutdown]], ∀ op ∈ sc, WaitV.stackOp op := by
  decide

open WaitV in
/-- **Subscribers see every change of the Counter exactly once, in order** (arbitrary scripts): the notifications
`(old, new)` delivered so far form a chain from the initial value to the current value, each with `old ≠ new`. -/
theorem C17_counter_notifications_chain {v : Int} {scripts : List (List Wait.WOp)} {c : Cfg MonV WThV}
    (hr : Reach WaitV.sys (initCounter v scripts) c) : Chain v c.1.log c.1.base.value :=
  chain_reach (v0 := v) (by simp [initCounter, MonV.initCounter, Chain, Wait.Mon.init]) hr

open WaitV in
/-- **Return values**: `Set(v)` returns the value it replaced, `Update(d)` the value it installed, and `Pop`/`PopOrWait`
return the front element of a non-empty stack. -/
theorem C17_counter_stack_return_values (s : MonV) (t : WThV) (s' : MonV) (t' : WThV) (h : (s', t') ∈ WaitV.step s t) :
    (∀ v, t.base.pc = .crit (.set v) → t'.rets = s.base.value :: t.rets ∧ s'.base.value = v) ∧
    (∀ d, t.base.pc = .crit (.add d) → t'.rets = (s.base.value + d) :: t.rets ∧ s'.base.value = s.base.value + d) ∧
    (∀ x r, (t.base.pc = .crit .tryPop ∨ t.base.pc = .crit .popOrWait) → s.q = x :: r → 0 < s.base.value →
      t'.vals = x :: t.vals ∧ s'.q = r) := by
  simp only [WaitV.step, List.mem_map] at h
  obtain ⟨p, hp, he⟩ := h
  have h1 : (dataStep s t p).1 = s' := by rw [he]
  have h2 : (dataStep s t p).2 = t' := by rw [he]
  subst h1 h2
  refine ⟨?_, ?_, ?_⟩
  · intro v hpc
    simp only [Wait.step, hpc, Wait.critStep, List.mem_singleton] at hp
    subst hp
    simp [dataStep, hpc]
  · intro d hpc
    simp only [Wait.step, hpc, Wait.critStep, List.mem_singleton] at hp
    subst hp
    simp [dataStep, hpc]
  · intro x r hpc hq hv
    have hv' : ¬ s.base.value ≤ 0 := by omega
    rcases hpc with hpc | hpc <;>
      simp only [Wait.step, hpc, Wait.critStep, hv, hv', if_true, if_false, List.mem_singleton] at hp <;>
      subst hp <;> simp [dataStep, hpc, hq]

/-! ## The executable oracle of the tie

The driver answers `ok` for an observed quiescent state iff it is among the configurations computed by
`Exec.quiescentFrom` from the configurations that explained the observations so far. -/

/-- Everything the driver accepts as an admissible quiescent outcome (of any of the three protocol models,
`S` = `sys`, `Dag.sys`, `Wait.sys`) is a configuration reachable in that model from one of the start
configurations, in which no goroutine can move. -/
theorem C17_driver_outcomes_reachable {σ τ κ : Type} (S : Sys σ τ) (key : Cfg σ τ → κ) [BEq κ] [Hashable κ]
    (starts : List (Cfg σ τ)) (c : Cfg σ τ) (h : c ∈ (Exec.quiescentFrom S key starts).1) :
    (∃ c0 ∈ starts, Reach S c0 c) ∧ Stuck S c :=
  Exec.quiescentFrom_sound S key starts c h

/-! ## Regenerated tie: the synchronisation skeletons the models were written against

`Hive/Gen/C17_Skel.lean` is regenerated from runtime/syncutils on every run of the check; a change of the lock /
condition-variable structure of the code (a `Signal` turned into a `Broadcast`, a notification moved inside the
lock, a dropped unlock) breaks these obligations. -/

open Hive.Gen.C17Skel in
/-- The monitor protocol of `Hive/Model/SyncMutex.lean` was written against exactly these skeletons: `Lock`/`RLock` wait in a loop inside the deferred critical section of `f.mutex`; `RUnlock`/`Unlock` release `f.mutex` explicitly and issue `Signal`/`Broadcast` only afterwards. -/
theorem C17_skeleton_starvingmutex :
    skel_StarvingMutex_RLock = ["lock f.mutex", "defer unlock f.mutex", "if{", "go", "}if", "for{", "call f.readerCond.Wait", "}for", "if{", "close doneChan", "}if"] ∧
    skel_StarvingMutex_RUnlock = ["lock f.mutex", "if{", "unlock f.mutex", "}if", "if{", "unlock f.mutex", "}if", "if{", "unlock f.mutex", "call f.writerCond.Signal", "return", "}if", "unlock f.mutex"] ∧
    skel_StarvingMutex_Lock = ["lock f.mutex", "defer unlock f.mutex", "if{", "go", "}if", "for{", "call f.writerCond.Wait", "}for", "if{", "close doneChan", "}if"] ∧
    skel_StarvingMutex_Unlock = ["lock f.mutex", "if{", "unlock f.mutex", "}if", "if{", "unlock f.mutex", "}if", "if{", "unlock f.mutex", "call f.readerCond.Broadcast", "return", "}if", "unlock f.mutex", "call f.writerCond.Signal"] := by
  decide

open Hive.Gen.C17Skel in
/-- `DAGMutex`: registration, lookup and unregistration are critical sections of `d.Mutex` without blocking calls; the entity mutexes are locked/unlocked outside of them, `RLock` in the order of the arguments; `Unlock`/`RUnlock` unregister last. -/
theorem C17_skeleton_dagmutex :
    skel_DAGMutex_RLock = ["helper registerMutexes", "for{", "rlock mutex", "}for"] ∧
    skel_DAGMutex_RUnlock = ["helper lookupMutexes", "for{", "runlock mutex", "}for", "helper unregisterMutexes"] ∧
    skel_DAGMutex_Lock = ["lock d.Mutex", "unlock d.Mutex", "lock mutex"] ∧
    skel_DAGMutex_Unlock = ["lock d.Mutex", "unlock d.Mutex", "if{", "}if", "unlock mutex", "helper unregisterMutexes"] ∧
    skel_DAGMutex_registerMutexes = ["lock d.Mutex", "defer unlock d.Mutex", "for{", "}for", "return"] ∧
    skel_DAGMutex_lookupMutexes = ["lock d.Mutex", "defer unlock d.Mutex", "for{", "if{", "}if", "}for", "return"] ∧
    skel_DAGMutex_unregisterMutexes = ["lock d.Mutex", "defer unlock d.Mutex", "for{", "helper unregisterMutex", "}for"] ∧
    skel_DAGMutex_unregisterMutex = ["if{", "}if", "if{", "return", "}if", "helper Set"] := by
  decide

open Hive.Gen.C17Skel in
/-- `Counter`: the value changes inside `valueMutex`, the `Broadcast` follows after the helper returned (lock released); waiters loop on `Wait` inside the lock. -/
theorem C17_skeleton_counter :
    skel_Counter_Set = ["if{", "call c.valueIncreasedCond.Broadcast", "}else{", "if{", "call c.valueDecreasedCond.Broadcast", "}if", "}if", "return"] ∧
    skel_Counter_Update = ["helper update", "if{", "call c.valueIncreasedCond.Broadcast", "}else{", "if{", "call c.valueDecreasedCond.Broadcast", "}if", "}if", "return"] ∧
    skel_Counter_update = ["lock c.valueMutex", "defer unlock c.valueMutex", "if{", "}if", "return"] ∧
    skel_Counter_WaitIsBelow = ["lock c.valueMutex", "defer unlock c.valueMutex", "for{", "call c.valueDecreasedCond.Wait", "}for"] ∧
    skel_Counter_WaitIsAbove = ["lock c.valueMutex", "defer unlock c.valueMutex", "for{", "call c.valueIncreasedCond.Wait", "}for"] := by
  decide

open Hive.Gen.C17Skel in
/-- `Stack`: same shape; the deferred `Broadcast` of `Pop`/`PopOrWait` is registered first and therefore runs after the deferred unlock; `SignalShutdown` broadcasts while holding the lock (repair a0dbad3 of the PopOrWait gap). -/
theorem C17_skeleton_stack :
    skel_Stack_Push = ["lock b.mutex", "unlock b.mutex", "call b.elementAdded.Broadcast"] ∧
    skel_Stack_Pop = ["defer func{", "if{", "call b.elementRemoved.Broadcast", "}if", "}func", "lock b.mutex", "defer unlock b.mutex", "if{", "return", "}if", "return"] ∧
    skel_Stack_PopOrWait = ["defer func{", "if{", "call b.elementRemoved.Broadcast", "}if", "}func", "lock b.mutex", "defer unlock b.mutex", "for{", "if{", "return", "}if", "call b.elementAdded.Wait", "}for", "return"] ∧
    skel_Stack_WaitSizeIsBelow = ["lock b.mutex", "defer unlock b.mutex", "for{", "call b.elementRemoved.Wait", "}for"] ∧
    skel_Stack_WaitSizeIsAbove = ["lock b.mutex", "defer unlock b.mutex", "for{", "call b.elementAdded.Wait", "}for"] ∧
    skel_Stack_SignalShutdown = ["lock b.mutex", "defer unlock b.mutex", "call b.elementAdded.Broadcast"] := by
  decide

open Hive.Gen.C17Skel in
/-- Type facts.  The models use unbounded integers (`Int`/`Nat`) for `Counter.value`, the Stack length and the
StarvingMutex counters; the code's fields are Go `int`s: the tie covers values over the whole `int` range
(`Set` to `MaxInt`/`MinInt`/`MinInt+2`/`MaxInt−1` from values of the opposite sign) but no arithmetic that leaves
it (`Update` over the end of the range wraps in the code and is not modelled).  Both condition variables of a type
hang on the one lock the models assume. -/
theorem C17_skeleton_types :
    skel_type_Counter = ["struct", "value int", "valueMutex sync.RWMutex", "valueIncreasedCond *sync.Cond", "valueDecreasedCond *sync.Cond", "subscribers *orderedmap.OrderedMap[uint64,func(oldValue,newValueint)]", "subscribersCounter uint64", "subscribersMutex sync.RWMutex"] ∧
    skel_type_Stack = ["struct", "elements *list.List", "mutex sync.RWMutex", "elementAdded *sync.Cond", "elementRemoved *sync.Cond"] ∧
    skel_type_StarvingMutex = ["struct", "readersActive int", "writerActive bool", "pendingWriters int", "mutex sync.Mutex", "readerCond sync.Cond", "writerCond sync.Cond"] ∧
    skel_type_DAGMutex = ["struct", "consumerCounter *shrinkingmap.ShrinkingMap[T,int]", "mutexes *shrinkingmap.ShrinkingMap[T,*StarvingMutex]", "embedded sync.Mutex"] := by
  decide

/-! ## Non-vacuity -/

/-- Well-bracketed scripts exist and exercise every method; recursion of read locks is allowed. -/
example : WB [[.lock, .unlock, .rlock, .rlock, .runlock, .runlock], [.rlock, .runlock, .lock, .unlock], []] := by
  unfold WB; decide

/-- A reachable configuration with a parked reader, a parked writer and an active writer: thread 0 holds
the write lock, thread 1 is parked in `RLock`, thread 2 in `Lock`. -/
example :
    let c := Conc.runSched sys (initCfg [[.lock, .unlock], [.rlock, .runlock], [.lock, .unlock]])
      [(0, 0), (0, 0), (0, 0), (0, 0), (1, 0), (1, 0), (1, 0), (2, 0), (2, 0), (2, 0), (2, 0)]
    c.1 = ⟨false, 0, true, 1, 1, 0, 1, 0⟩ ∧ c.2.map (·.v.pc) = [.idle, .rlP, .lkP] := by
  decide

/-- Ordered DAG scripts: a writer of entity 1 that reads its parents 2 and 3, a reader of 2 and 3. -/
example : Dag.WBD [[.lock 1, .rlock [2, 3], .runlock [2, 3], .unlock 1], [.rlock [2, 3], .runlock [3, 2]]] := by
  unfold Dag.WBD; decide

/-- A waiter that is parked although a decrease has happened has the decreaser's broadcast pending. -/
example :
    let c := Conc.runSched Wait.sys (Wait.initCfg 1 [[.waitBelow 1], [.add (-1)]])
      [(0, 0), (0, 0), (0, 0), (1, 0), (1, 0), (1, 0)]
    c.1.value = 0 ∧ c.2.map (·.pc) = [.parkD (.waitBelow 1) 0, .bcD] := by
  decide

end Hive.SyncMutex
