import Hive.Proofs.SafeMathLemmas
import Hive.Proofs.SafeMathOpsSpec
/-!
# C19 — the trusted operator semantics meet their specification

What "exact" means, the eight Go types, and the Go integer operators / `math/bits` functions as modelled in
`Hive/Base/GoInt.lean` and `Hive/Model/SafeMathOps.lean`.  Nothing here mentions a definition generated from safe_math.go: no change
of that file can break this module.
-/
namespace Hive.GoInt
open IntTy

/-- Meaning of `exact`: the mathematical result if representable, the overflow error otherwise. -/
theorem C19_exact_spec (T : IntTy) (z : Int) :
    (∀ r, exact T z = .ok r → r = z ∧ T.InRange z) ∧ (exact T z = .overflow → ¬ T.InRange z) ∧
      exact T z ≠ .divzero ∧ exact T z ≠ .panic := by
  unfold exact
  by_cases h : T.InRange z <;> simp [h]

/-- The eight Go integer types all have positive width (so every theorem below applies to them). -/
def goTypes : List IntTy := [.u8, .u16, .u32, .u64, .i8, .i16, .i32, .i64]

theorem C19_go_types_covered : ∀ T ∈ goTypes, 0 < T.bits := by decide

/-! ## The Go integer semantics used by the model meet their specification (`Hive/Base/GoInt.lean`) -/

/-- `wrap` is *the* two's-complement reduction: the unique in-range number congruent to `z` modulo `2^bits`. -/
theorem C19_wrap_spec (T : IntTy) (hw : 0 < T.bits) (z : Int) :
    T.InRange (T.wrap z) ∧ (∃ k, T.wrap z = z - k * 2 ^ T.bits) ∧
      ∀ w k : Int, T.InRange w → w = z - k * 2 ^ T.bits → w = T.wrap z := by
  refine ⟨T.wrap_inRange hw z, T.wrap_congr hw z, ?_⟩
  intro w k hwr hk
  have := T.wrap_shift hw z k (by unfold IntTy.modulus; rw [← hk]; exact hwr)
  rw [this]; exact hk

/-- `bits.Mul64` as modelled: `hi·2^64 + lo = x·y` with both words in range. -/
theorem C19_mul64_spec (x y : Int) (hx : IntTy.u64.InRange x) (hy : IntTy.u64.InRange y) :
    (mul64 x y).1 * 2 ^ 64 + (mul64 x y).2 = x * y ∧ IntTy.u64.InRange (mul64 x y).1 ∧ IntTy.u64.InRange (mul64 x y).2 := by
  rw [u64_inRange] at hx hy
  simp only [mul64, u64_inRange, pow64]
  have hp : 0 ≤ x * y := Int.mul_nonneg hx.1 hy.1
  have hle : x * y ≤ 18446744073709551615 * 18446744073709551615 :=
    Int.mul_le_mul (by omega) (by omega) hy.1 (by decide)
  have hlt : x * y < 18446744073709551616 * 18446744073709551616 := by omega
  have h1 := Int.emod_add_mul_ediv (x * y) 18446744073709551616
  have h2 := Int.emod_nonneg (x * y) (b := 18446744073709551616) (by decide)
  have h3 := Int.emod_lt_of_pos (x * y) (b := 18446744073709551616) (by decide)
  have h4 : 0 ≤ x * y / 18446744073709551616 := Int.ediv_nonneg hp (by decide)
  have h5 : x * y / 18446744073709551616 < 18446744073709551616 :=
    Int.ediv_lt_of_lt_mul (by decide) hlt
  omega

/-- `bits.Div64` as modelled: panics exactly when the quotient does not fit (`y ≤ hi`, which includes `y = 0`),
otherwise quotient and remainder of the 128-bit number. -/
theorem C19_div64_spec (hi lo y : Int) (hh : IntTy.u64.InRange hi) (hy : IntTy.u64.InRange y) :
    (div64 hi lo y = none ↔ y ≤ hi) ∧
    ∀ q r, div64 hi lo y = some (q, r) → q * y + r = hi * 2 ^ 64 + lo ∧ 0 ≤ r ∧ r < y := by
  rw [u64_inRange] at hh hy
  unfold div64
  constructor
  · by_cases h : y = 0 ∨ y ≤ hi
    · simp only [if_pos h, true_iff]; omega
    · simp only [if_neg h]; constructor
      · intro c; cases c
      · intro c; omega
  · intro q r h
    by_cases hc : y = 0 ∨ y ≤ hi
    · simp [hc] at h
    · simp only [if_neg hc, Option.some.injEq, Prod.mk.injEq] at h
      have hy0 : 0 < y := by omega
      have h1 := Int.emod_add_mul_ediv (hi * 2 ^ 64 + lo) y
      have h2 := Int.emod_nonneg (hi * 2 ^ 64 + lo) (Int.ne_of_gt hy0)
      have h3 := Int.emod_lt_of_pos (hi * 2 ^ 64 + lo) hy0
      rw [← h.1, ← h.2]
      refine ⟨?_, h2, h3⟩
      rw [Int.mul_comm]; omega

/-! ## `math/bits` helpers and builtins of the translator subset (`Hive/Model/SafeMathOps.lean`)

safe_math.go as it is uses only `bits.Mul64` / `bits.Div64`; rewrites of it use the functions below (seeded change
C19-r6-1: `bits.Len64`), so the translator knows them and the model of such a tree rests on these definitions. -/

/-- `bits.Len64` as modelled: 0 for 0, otherwise the `n + 1` with `2^n ≤ x < 2^(n+1)`; `bits.LeadingZeros<w>` is the
complement to the width. -/
theorem C19_bitLen_spec (x : Int) : (x ≤ 0 → bitLen x = 0) ∧
    (0 < x → ∃ n : Nat, bitLen x = (n : Int) + 1 ∧ (2 : Int) ^ n ≤ x ∧ x < 2 ^ (n + 1)) ∧
      ∀ w : Nat, leadingZeros w x + bitLen x = w :=
  ⟨(bitLen_spec x).1, (bitLen_spec x).2, fun w => leadingZeros_spec w x⟩

/-- `bits.TrailingZeros<w>` as modelled: `w` for 0, otherwise the exponent of the largest power of two dividing `x`. -/
theorem C19_trailingZeros_spec (w : Nat) (x : Int) :
    (x ≤ 0 → trailingZeros w x = w) ∧
    (0 < x → x < 2 ^ w → ∃ k : Nat, trailingZeros w x = k ∧ 2 ^ k ∣ x.toNat ∧ ¬ 2 ^ (k + 1) ∣ x.toNat) :=
  trailingZeros_spec w x

/-- `bits.Add64` / `bits.Sub64` as modelled: the two result words recombine to the exact sum / difference. -/
theorem C19_add64_sub64_spec (x y c : Int) (hx : 0 ≤ x ∧ x < 2 ^ 64) (hy : 0 ≤ y ∧ y < 2 ^ 64) (hc : c = 0 ∨ c = 1) :
    ((add64 x y c).1 + (add64 x y c).2 * 2 ^ 64 = x + y + c ∧ 0 ≤ (add64 x y c).1 ∧ (add64 x y c).1 < 2 ^ 64 ∧
      ((add64 x y c).2 = 0 ∨ (add64 x y c).2 = 1)) ∧
    ((sub64 x y c).1 - (sub64 x y c).2 * 2 ^ 64 = x - y - c ∧ 0 ≤ (sub64 x y c).1 ∧ (sub64 x y c).1 < 2 ^ 64 ∧
      ((sub64 x y c).2 = 0 ∨ (sub64 x y c).2 = 1)) :=
  ⟨add64_spec x y c hx hy hc, sub64_spec x y c hx hy hc⟩

example : bitLen 255 = 8 ∧ bitLen 256 = 9 ∧ leadingZeros 64 1 = 63 ∧ trailingZeros 64 0 = 64 ∧ trailingZeros 64 40 = 3 ∧
    add64 18446744073709551615 1 0 = (0, 1) ∧ sub64 0 1 0 = (18446744073709551615, 1) := by decide

end Hive.GoInt
