import Hive.Proofs.SerixNoPanic
/-!
# C02 (binary serix decode part) — the decoder model is total and never over-reports consumption

Property theorems only.  Model: `Hive/Model/Serix.lean` (`decode` = serix `API.Decode` after the
`fix:` commits 8805e2e, 0c80050, 41a09a2, which removed the three panics of the unchanged tree:
unaddressable array destination, `GetByValue` on a nil map entry destination, `lenPrefix=uint64`).
Both theorems hold for **every** schema (no well-formedness needed), every byte string and both
validation modes.  Allocation and iteration bounds of the Deserializer primitives are the subject of
the other part of C02 (Props/C02.lean).
-/
namespace Hive.Serix

/-- `Decode` returns a value or an error, it never panics. -/
theorem C02_no_panic (t : Ty) (b : Bytes) (o : Opts) : decode t b o ≠ .panic :=
  np_ty t b o

/-- `Decode` never reports more consumed bytes than were supplied. -/
theorem C02_consumed_le (t : Ty) (b : Bytes) (o : Opts) (v : Val) (n : Nat)
    (h : decode t b o = .ok (v, n)) : n ≤ b.length :=
  cl_ty t b o v n h

/-- The unchanged tree panicked on arrays of non-byte elements; kept as a regression statement about
the *model of the old code* is not possible (the model is the repaired code) — instead: the repaired
decoder rejects a count that differs from the array length and accepts the matching one. -/
theorem C02_array_count_example :
    decode (.array 3 .u8 {} (.uint 2)) [3, 1, 0, 2, 0, 3, 0] ⟨true, false⟩ = .ok (.l [.n 1, .n 2, .n 3], 7) ∧
    decode (.array 3 .u8 {} (.uint 2)) [2, 1, 0, 2, 0] ⟨true, false⟩ = .err ∧
    decode (.array 3 .u8 {} (.uint 2)) [4, 1, 0, 2, 0, 3, 0, 4, 0] ⟨false, false⟩ = .err ∧
    decode (.str .u64 0 0) [0, 0, 0, 0, 0, 0, 0, 0] ⟨false, false⟩ = .err := by
  decide

end Hive.Serix
