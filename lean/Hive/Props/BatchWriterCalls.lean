import Hive.Gen.C08_Calls
/-!
# C08 — `StopBatchWriter`, `Flush`, `startBatchWriter` and `Enqueue` of the protocol model are derived from the source

`Hive/Gen/C08_Calls.lean` is regenerated on every run by `harness/c08/callgen` (go/ast → terms of `Calls.PS`);
`Hive/Model/BatchWriterCalls.lean` lays the terms out as instruction lists and gives every instruction its meaning as one
atomic protocol step.  The theorems say that the hand-written step functions of the protocol model (`stepStop`,
`stepFlush`, the `startBatchWriter` part of `stepProd`) are, program counter by program counter, the interpreted generated
programs.  What stays hand-written around them: the call / return events of the trace (`stopCall`, `stopRet`, `flush`),
and the bookkeeping of the `sync.Once` that encloses `startBatchWriter` (`once := 2` = "inside the body, past the start
decision": `onceChk` treats 1 and 2 alike).
-/
namespace Hive.BatchWriter
open Hive.BatchWriter.Calls Hive.Gen.C08Calls Hive.Spec.BatchWriter

theorem C08_calls_flatten :
    flatten fn_StopBatchWriter = [.lock, .brRunning false 4, .storeRunning false, .wgWait, .unlock] ∧
    flatten fn_Flush = [.brRunning false 2, .flushTrySend] ∧
    flatten fn_startBatchWriter = [.lock, .brRunning true 5, .storeRunning true, .wgAdd 1, .goWriter, .unlock] := by
  decide

/-! ### StopBatchWriter -/

/-- program counter of the model ↔ instruction index of `flatten fn_StopBatchWriter` (5 = past the end: return) -/
def stopIdx : SPc → Nat
  | .lock => 0 | .load => 1 | .store => 2 | .wait => 3 | .unlock => 4 | _ => 5

def stopPc : Nat → SPc
  | 0 => .lock | 1 => .load | 2 => .store | 3 => .wait | 4 => .unlock | _ => .ret

/-- **The model's `StopBatchWriter` is the interpreted source**: between its call event (`.idle`) and its return event
(`.ret`) every step of `stepStop` is the step of the instruction at the corresponding index. -/
theorem C08_model_Stop_is_source (s : St) (id : Nat) (pc : SPc)
    (hpc : pc = .lock ∨ pc = .load ∨ pc = .store ∨ pc = .wait ∨ pc = .unlock) :
    stepStop s id pc =
      (stepP (flatten fn_StopBatchWriter) s (stopIdx pc)).map (fun x => (x.1, Thread.stopper id (stopPc x.2))) := by
  rw [C08_calls_flatten.1]
  rcases hpc with rfl | rfl | rfl | rfl | rfl
  · by_cases h : s.mu <;> simp [stepStop, stepP, stepI, stopIdx, stopPc, h]
  · by_cases h : s.running <;> simp [stepStop, stepP, stepI, stopIdx, stopPc, h]
  · simp [stepStop, stepP, stepI, stopIdx, stopPc]
  · by_cases h : s.wg = 0 <;> simp [stepStop, stepP, stepI, stopIdx, stopPc, h]
  · simp [stepStop, stepP, stepI, stopIdx, stopPc]

/-! ### Flush -/

/-- **The model's `Flush` is the interpreted source**: the load of `running` (with which the model records the call
event) and the non-blocking send on the flush channel. -/
theorem C08_model_Flush_is_source (s : St) (n : Nat) :
    stepFlush s false (n + 1) =
      (stepP (flatten fn_Flush) s 0).map
        (fun x => (emit .flush x.1, if x.2 = 1 then Thread.flusher true (n + 1) else Thread.flusher false n)) ∧
    stepFlush s true (n + 1) = (stepP (flatten fn_Flush) s 1).map (fun x => (x.1, Thread.flusher false n)) := by
  rw [C08_calls_flatten.2.1]
  constructor
  · by_cases h : s.running <;> simp [stepFlush, stepP, stepI, h]
  · simp [stepFlush, stepP, stepI]

/-! ### startBatchWriter (inside `autoStartOnce.Do`) -/

def startIdx : PPc → Nat
  | .startLock => 0 | .startLoad => 1 | .startStore => 2 | .startAdd => 3 | .startGo => 4 | .startUnlock => 5 | _ => 6

def startPc : Nat → PPc
  | 0 => .startLock | 1 => .startLoad | 2 => .startStore | 3 => .startAdd | 4 => .startGo | 5 => .startUnlock
  | _ => .onceEnd

/-- the Once bookkeeping the model adds: past the start decision -/
def onceMark (s : St) (pc : PPc) (s' : St) : St :=
  if (pc = .startLoad ∧ s.running = true) ∨ pc = .startStore then { s' with once := 2 } else s'

/-- **The model's `startBatchWriter` is the interpreted source** (lock, `if !running { Store(true); Add(1); go }`,
unlock), up to the Once bookkeeping. -/
theorem C08_model_startBatchWriter_is_source (s : St) (id cur : Nat) (script : List Nat) (pc : PPc)
    (hpc : pc = .startLock ∨ pc = .startLoad ∨ pc = .startStore ∨ pc = .startAdd ∨ pc = .startGo ∨ pc = .startUnlock) :
    stepProd s id pc cur script =
      (stepP (flatten fn_startBatchWriter) s (startIdx pc)).map
        (fun x => (onceMark s pc x.1, Thread.prod id (startPc x.2) cur script)) := by
  rw [C08_calls_flatten.2.2]
  rcases hpc with rfl | rfl | rfl | rfl | rfl | rfl
  · by_cases h : s.mu <;> simp [stepProd, stepP, stepI, startIdx, startPc, onceMark, h]
  · by_cases h : s.running <;> simp [stepProd, stepP, stepI, startIdx, startPc, onceMark, h]
  · simp [stepProd, stepP, stepI, startIdx, startPc, onceMark]
  · simp [stepProd, stepP, stepI, startIdx, startPc, onceMark]
  · simp [stepProd, stepP, stepI, startIdx, startPc, onceMark]
  · simp [stepProd, stepP, stepI, startIdx, startPc, onceMark]

/-! ### Enqueue -/

theorem C08_calls_flatten_Enqueue :
    flatten fn_Enqueue = [.onceEnter 4, .brRunning true 3, .callStart, .onceExit, .countAdd 1, .brRunning true 8,
      .countAdd (-1), .ret, .yield, .brScheduled 12, .countAdd (-1), .ret, .send] := by decide

/-- instruction index ↔ program counter of the model.  Index 2 (`bw.startBatchWriter()`) is the entry of the helper
(`C08_model_startBatchWriter_is_source`, which returns to `.onceEnd` = index 3); 6 and 10 are the two
`scheduledCount.Add(-1)` on the way out (one state `.undo` in the model), 7 / 11 / 13 the returns; 8 (the yield point)
is never a resting point: the model takes it together with the running check (`stepPF`). -/
def enqPc : Nat → PPc
  | 0 => .onceChk | 1 => .body | 2 => .startLock | 3 => .onceEnd | 4 => .inc | 5 => .chkRun | 6 => .undo
  | 9 => .cas | 10 => .undo | 12 => .send | _ => .ret

/-- the Once bookkeeping the model adds in the body: past the start decision -/
def onceMarkE (s : St) (i : Nat) (s' : St) : St := if i = 1 ∧ s.running = true then { s' with once := 2 } else s'

/-- **The model's `Enqueue` is the interpreted source.**  For every instruction index at which the model rests
(`onceChk`, `body`, `onceEnd`, `inc`, `chkRun`, both `undo` sites, `cas`, `send`): the step of `stepProd` at the
corresponding program counter is the (yield-fused) step of the generated program — the Once entry, the start decision,
`scheduledCount.Add(1)` **before** `running.Load()`, `Add(-1)` on both early returns, the flag test-and-set after the
yield point, the queue send. -/
theorem C08_model_Enqueue_is_source (s : St) (id cur : Nat) (script : List Nat) (i : Nat)
    (hi : i = 0 ∨ i = 1 ∨ i = 3 ∨ i = 4 ∨ i = 5 ∨ i = 6 ∨ i = 9 ∨ i = 10 ∨ i = 12) :
    stepProd s id (enqPc i) cur script =
      (stepPF (flatten fn_Enqueue) s i id cur).map
        (fun x => (onceMarkE s i x.1, Thread.prod id (enqPc x.2) cur script)) := by
  rw [C08_calls_flatten_Enqueue]
  rcases hi with rfl | rfl | rfl | rfl | rfl | rfl | rfl | rfl | rfl
  · by_cases h0 : s.once = 0
    · simp [stepProd, stepPF, stepP, stepI, enqPc, onceMarkE, h0]
    · by_cases h3 : s.once = 3 <;> simp [stepProd, stepPF, stepP, stepI, enqPc, onceMarkE, h0, h3]
  · by_cases h : s.running <;> simp [stepProd, stepPF, stepP, stepI, enqPc, onceMarkE, h]
  · simp [stepProd, stepPF, stepP, stepI, enqPc, onceMarkE]
  · simp [stepProd, stepPF, stepP, stepI, enqPc, onceMarkE]
  · by_cases h : s.running <;> simp [stepProd, stepPF, stepP, stepI, enqPc, onceMarkE, h, emit]
  · simp [stepProd, stepPF, stepP, stepI, enqPc, onceMarkE]; rfl
  · by_cases h : s.flag cur <;> simp [stepProd, stepPF, stepP, stepI, enqPc, onceMarkE, h]
  · simp [stepProd, stepPF, stepP, stepI, enqPc, onceMarkE]; rfl
  · by_cases hq : s.queue.length < s.qsize
    · simp [stepProd, stepPF, stepP, stepI, enqPc, onceMarkE, hq]
    · by_cases h1 : s.qsize = 0 ∧ s.wpc = .sel
      · simp [stepProd, stepPF, stepP, stepI, enqPc, onceMarkE, hq, h1]
      · by_cases h2 : s.qsize = 0 ∧ s.wpc = .fsel
        · simp [stepProd, stepPF, stepP, stepI, enqPc, onceMarkE, hq, h2]
        · have h3 : ¬ (s.qsize = 0 ∧ (s.wpc = .sel ∨ s.wpc = .fsel)) := by
            rintro ⟨ha, hb | hb⟩
            · exact h1 ⟨ha, hb⟩
            · exact h2 ⟨ha, hb⟩
          simp [stepProd, stepPF, stepP, stepI, enqPc, onceMarkE, hq, h1, h2, h3]

end Hive.BatchWriter
