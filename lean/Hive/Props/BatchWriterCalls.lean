import Hive.Gen.C08_Calls
/-!
# C08 — `StopBatchWriter`, `Flush` and `startBatchWriter` of the protocol model are derived from the source

`Hive/Gen/C08_Calls.lean` is regenerated on every run by `harness/c08/callgen` (go/ast → terms of `Calls.PS`);
`Hive/Model/BatchWriterCalls.lean` lays the terms out as instruction lists and gives every instruction its meaning as one
atomic protocol step.  The theorems say that the hand-written step functions of the protocol model (`stepStop`,
`stepFlush`, the `startBatchWriter` part of `stepProd`) are, program counter by program counter, the interpreted generated
programs.  What stays hand-written around them: the call / return events of the trace (`stopCall`, `stopRet`, `flush`),
and the bookkeeping of the `sync.Once` that encloses `startBatchWriter` (`once := 2` = "inside the body, past the start
decision": `onceChk` treats 1 and 2 alike).
-/
namespace Hive.BatchWriter
open Hive.BatchWriter.Calls Hive.Gen.C08Calls Hive.Spec.BatchWriter

theorem C08_calls_flatten :
    flatten fn_StopBatchWriter = [.lock, .brRunning false 4, .storeRunning false, .wgWait, .unlock] ∧
    flatten fn_Flush = [.brRunning false 2, .flushTrySend] ∧
    flatten fn_startBatchWriter = [.lock, .brRunning true 5, .storeRunning true, .wgAdd 1, .goWriter, .unlock] := by
  decide

/-! ### StopBatchWriter -/

/-- program counter of the model ↔ instruction index of `flatten fn_StopBatchWriter` (5 = past the end: return) -/
def stopIdx : SPc → Nat
  | .lock => 0 | .load => 1 | .store => 2 | .wait => 3 | .unlock => 4 | _ => 5

def stopPc : Nat → SPc
  | 0 => .lock | 1 => .load | 2 => .store | 3 => .wait | 4 => .unlock | _ => .ret

/-- **The model's `StopBatchWriter` is the interpreted source**: between its call event (`.idle`) and its return event
(`.ret`) every step of `stepStop` is the step of the instruction at the corresponding index. -/
theorem C08_model_Stop_is_source (s : St) (id : Nat) (pc : SPc)
    (hpc : pc = .lock ∨ pc = .load ∨ pc = .store ∨ pc = .wait ∨ pc = .unlock) :
    stepStop s id pc =
      (stepP (flatten fn_StopBatchWriter) s (stopIdx pc)).map (fun x => (x.1, Thread.stopper id (stopPc x.2))) := by
  rw [C08_calls_flatten.1]
  rcases hpc with rfl | rfl | rfl | rfl | rfl
  · by_cases h : s.mu <;> simp [stepStop, stepP, stepI, stopIdx, stopPc, h]
  · by_cases h : s.running <;> simp [stepStop, stepP, stepI, stopIdx, stopPc, h]
  · simp [stepStop, stepP, stepI, stopIdx, stopPc]
  · by_cases h : s.wg = 0 <;> simp [stepStop, stepP, stepI, stopIdx, stopPc, h]
  · simp [stepStop, stepP, stepI, stopIdx, stopPc]

/-! ### Flush -/

/-- **The model's `Flush` is the interpreted source**: the load of `running` (with which the model records the call
event) and the non-blocking send on the flush channel. -/
theorem C08_model_Flush_is_source (s : St) (n : Nat) :
    stepFlush s false (n + 1) =
      (stepP (flatten fn_Flush) s 0).map
        (fun x => (emit .flush x.1, if x.2 = 1 then Thread.flusher true (n + 1) else Thread.flusher false n)) ∧
    stepFlush s true (n + 1) = (stepP (flatten fn_Flush) s 1).map (fun x => (x.1, Thread.flusher false n)) := by
  rw [C08_calls_flatten.2.1]
  constructor
  · by_cases h : s.running <;> simp [stepFlush, stepP, stepI, h]
  · simp [stepFlush, stepP, stepI]

/-! ### startBatchWriter (inside `autoStartOnce.Do`) -/

def startIdx : PPc → Nat
  | .startLock => 0 | .startLoad => 1 | .startStore => 2 | .startAdd => 3 | .startGo => 4 | .startUnlock => 5 | _ => 6

def startPc : Nat → PPc
  | 0 => .startLock | 1 => .startLoad | 2 => .startStore | 3 => .startAdd | 4 => .startGo | 5 => .startUnlock
  | _ => .onceEnd

/-- the Once bookkeeping the model adds: past the start decision -/
def onceMark (s : St) (pc : PPc) (s' : St) : St :=
  if (pc = .startLoad ∧ s.running = true) ∨ pc = .startStore then { s' with once := 2 } else s'

/-- **The model's `startBatchWriter` is the interpreted source** (lock, `if !running { Store(true); Add(1); go }`,
unlock), up to the Once bookkeeping. -/
theorem C08_model_startBatchWriter_is_source (s : St) (id cur : Nat) (script : List Nat) (pc : PPc)
    (hpc : pc = .startLock ∨ pc = .startLoad ∨ pc = .startStore ∨ pc = .startAdd ∨ pc = .startGo ∨ pc = .startUnlock) :
    stepProd s id pc cur script =
      (stepP (flatten fn_startBatchWriter) s (startIdx pc)).map
        (fun x => (onceMark s pc x.1, Thread.prod id (startPc x.2) cur script)) := by
  rw [C08_calls_flatten.2.2]
  rcases hpc with rfl | rfl | rfl | rfl | rfl | rfl
  · by_cases h : s.mu <;> simp [stepProd, stepP, stepI, startIdx, startPc, onceMark, h]
  · by_cases h : s.running <;> simp [stepProd, stepP, stepI, startIdx, startPc, onceMark, h]
  · simp [stepProd, stepP, stepI, startIdx, startPc, onceMark]
  · simp [stepProd, stepP, stepI, startIdx, startPc, onceMark]
  · simp [stepProd, stepP, stepI, startIdx, startPc, onceMark]
  · simp [stepProd, stepP, stepI, startIdx, startPc, onceMark]

end Hive.BatchWriter
