import Hive.Proofs.C12bBytesFilter
import Hive.Proofs.C12bWalker
import Hive.Proofs.C12bTimeHeap
import Hive.Proofs.C12bIndexedStorage
import Hive.Proofs.C12bOnChangeMap
import Hive.Proofs.C12bSubMgrMirror
import Hive.Proofs.C12bSubMgrLimit
import Hive.Gen.C12b_Src
import Hive.Spec.C12bSource
import Hive.Proofs.C12bTimeHeapFloat
/-!
# C12 (part B) — BytesFilter, Walker, TimeHeap, IndexedStorage, OnChangeMap, SubscriptionManager
are equivalent to their abstract models

Property theorems only.  Every theorem quantifies over **every operation history** (`ops : List Op`)
and **every option setting** (filter size, revisit flag, callback presence and failures, subscription
limit).  Models: `Hive/Model/C12b*.lean` (the Go code after the four `fix:` commits recorded in
`known_findings/C12b.json`); helper lemmas: `Hive/Proofs/C12b*.lean`.
-/
namespace Hive.C12b

/-! ## BytesFilter — remembers exactly the last N distinct identifiers -/

/-- Observational equivalence with the abstract model "the last `size` accepted identifiers": the
answers of every history coincide, for every size (size 0 included: both sides panic on `Add`). -/
theorem C12_bytesfilter_refines (size : Nat) (ops : List BF.Op) :
    (BF.run (BF.init size) ops).2 = (BF.specRun { size := size, recent := [] } ops).2 :=
  (BF.run_refines (BF.init size) ops (BF.inv_init size)).1

/-- Slice + set consistency, and the content of the filter in closed form: after every history
the slice holds exactly the last `size` identifiers that were accepted (for which `Add` answered
true), without duplicates, and the set — hence `Contains` — agrees with it. -/
theorem C12_bytesfilter_last_n (size : Nat) (ops : List BF.Op) :
    let s := BF.final (BF.init size) ops
    s.ids = BF.lastN size s.accepted ∧ s.ids.Nodup ∧ s.ids.length ≤ size ∧
      (∀ x, x ∈ s.known ↔ x ∈ s.ids) ∧
      ∀ x, (BF.step s (.has x)).2 = .bool (decide (x ∈ BF.lastN size s.accepted)) := by
  intro s
  have h : BF.Inv s := BF.inv_final _ ops (BF.inv_init size)
  have hsz : s.size = size := by
    show (BF.final (BF.init size) ops).size = size
    generalize hst : BF.init size = st
    have h0 : st.size = size := by rw [← hst]; rfl
    clear hst h
    induction ops generalizing st with
    | nil => exact h0
    | cons op ops ih => exact ih _ (by rw [BF.step_size]; exact h0)
  refine ⟨hsz ▸ h.last, h.nodup, hsz ▸ h.bound, h.known, ?_⟩
  intro x
  simp only [BF.step]
  congr 1
  have := h.known x
  have hl := h.last
  rw [hsz] at hl
  rw [← hl]
  exact decide_eq_decide.2 this

/-- The ghost list `accepted` is what the answers say: an identifier is recorded exactly when
`Add` answers true; `Contains` records nothing. -/
theorem C12_bytesfilter_accepted (s : BF.St) (x : Nat) :
    (BF.step s (.add x)).1.accepted = s.accepted ++ (if (BF.step s (.add x)).2 = .bool true then [x] else []) ∧
    (BF.step s (.has x)).1 = s := by
  refine ⟨?_, rfl⟩
  simp only [BF.step]
  split
  · simp
  · split
    · split <;> simp
    · simp

/-- Non-vacuity: size 2, the third distinct identifier evicts the first. -/
example : (BF.run (BF.init 2) [.add 1, .add 2, .add 1, .add 3, .has 1, .has 2, .add 1, .has 2]).2 =
    [.bool true, .bool true, .bool false, .bool true, .bool false, .bool true, .bool true, .bool false] := by
  decide

/-! ## Walker — every pushed element once, in queue order, with PushFront semantics -/

/-- Observational equivalence with the abstract model (a deque of pending elements plus the *set*
of elements seen), for both settings of the revisit flag. -/
theorem C12_walker_refines (revisit : Bool) (ops : List WK.Op) :
    (WK.run (WK.init revisit) ops).2 =
      (WK.specRun { revisit := revisit, pending := [], seen := fun _ => false, stopped := false } ops).2 := by
  have h := (WK.run_refines (WK.init revisit) ops).1
  have e : WK.abs (WK.init revisit) =
      { revisit := revisit, pending := [], seen := fun _ => false, stopped := false } := by
    simp [WK.abs, WK.init]
  rw [e] at h; exact h

/-- Without revisiting: after every history, every element offered (to Push, PushAll or PushFront)
since the last Reset has been yielded by `Next` or is still queued — exactly once. -/
theorem C12_walker_every_element_once (ops : List WK.Op) :
    let s := WK.final (WK.init false) ops
    (s.yielded ++ s.queue).Nodup ∧ ∀ x, x ∈ s.yielded ++ s.queue ↔ x ∈ s.offered := by
  intro s
  have h : WK.InvOnce s := WK.invOnce_final _ ops WK.invOnce_init
  exact ⟨h.nodup, fun x => (h.cover x).trans (h.offered x)⟩

/-- With revisiting: every offer is yielded or still queued, as often as it was offered. -/
theorem C12_walker_revisit_yields_all (ops : List WK.Op) :
    let s := WK.final (WK.init true) ops
    (s.yielded ++ s.queue).Perm s.offered :=
  (WK.invAll_final _ ops WK.invAll_init).2

/-- Queue order: `Next` hands out the front of the queue and nothing else changes; `HasNext` is
"queue non-empty and not stopped". -/
theorem C12_walker_next_is_front (s : WK.St) (x : Nat) (q : List Nat) (h : s.queue = x :: q) :
    (WK.step s .next).2 = .elem x ∧ (WK.step s .next).1.queue = q ∧
      (WK.step s .next).1.yielded = s.yielded ++ [x] ∧ (WK.step s .next).1.pushed = s.pushed := by
  simp [WK.step, h]

example : ∃ s : WK.St, ∃ x q, s.queue = x :: q :=
  ⟨(WK.step (WK.init false) (.pushAll [4, 5])).1, 4, [5], by decide⟩

/-- Push / PushFront semantics in closed form (no revisiting): `PushAll xs` appends the new
elements of `xs` (first occurrences, argument order) to the back, `PushFront xs` puts them in front
one after the other — so they come out in reverse argument order — and *every* argument is
examined (the unrepaired code stopped at the first repeat). -/
theorem C12_walker_push_semantics (s : WK.St) (xs : List Nat) (hr : s.revisit = false) :
    (WK.step s (.pushFront xs)).1.queue = (WK.fresh s.pushed xs).reverse ++ s.queue ∧
    (WK.step s (.pushFront xs)).1.pushed = s.pushed ++ WK.fresh s.pushed xs ∧
    (WK.step s (.pushAll xs)).1.queue = s.queue ++ WK.fresh s.pushed xs ∧
    (WK.step s (.pushAll xs)).1.pushed = s.pushed ++ WK.fresh s.pushed xs := by
  obtain ⟨h1, h2⟩ := WK.pushFront_queue s xs hr
  obtain ⟨h3, h4⟩ := WK.push_queue s xs hr
  exact ⟨h1, h2, h3, h4⟩

example : (WK.step (WK.init false) (.push 1)).1.revisit = false := rfl

/-- Non-vacuity / regression: `Push(1); PushFront(1,2,3)` then draining yields 3, 2, 1. -/
example : (WK.run (WK.init false) [.push 1, .pushFront [1, 2, 3], .next, .next, .next, .next, .pushed 3]).2 =
    [.ok, .ok, .elem 3, .elem 2, .elem 1, .panic, .bool true] := by
  decide

/-- `StopWalk` forces `HasNext` to false (whatever is queued), `Reset` returns to the freshly
constructed walker (queue, pushed set and stop flag; the revisit option is kept). -/
theorem C12_walker_stop_and_reset (s : WK.St) :
    (WK.step (WK.step s .stop).1 .hasNext).2 = .bool false ∧
    (WK.step (WK.step s .stop).1 .stopped).2 = .bool true ∧
    (WK.step s .reset).1 = WK.init s.revisit := by
  simp [WK.step, WK.init]

/-- Witness about the model of the **unrepaired** `PushFront` (returns at the first repeat):
`Push(1); PushFront(1,2,3)` leaves 2 and 3 neither queued nor marked as pushed. -/
theorem C12_walker_old_pushfront_witness :
    let s := WK.pushFrontOld (WK.step (WK.init false) (.push 1)).1 [1, 2, 3]
    s.queue = [1] ∧ s.pushed = [1] := by
  decide

/-! ## TimeHeap — the windowed sum of what was added and not cleared -/

/-- Observational equivalence with the abstract model (list of live entries over an explicit
clock; a query drops what is outside its window and answers the sum of the rest), for every
history of `tick`, `Add`, `Clear` and `AveragePerSecond` with arbitrary windows.  The
implementation-level model keeps a `container/heap` array; the proof goes through the heap order
(`heap.Pop` returns a minimal timestamp) and the permutation invariance of `up`/`down`. -/
theorem C12_timeheap_refines (ops : List TH.Op) :
    (TH.run TH.init ops).2 = (TH.specRun TH.specInit ops).2 :=
  (TH.run_refines TH.init TH.specInit ops TH.rel_init).1

/-- The running total is the sum of the counts currently in the heap, in every reachable state
(this is what the unrepaired `Clear` broke). -/
theorem C12_timeheap_total_is_heap_sum (ops : List TH.Op) :
    (TH.final TH.init ops).total = TH.counts (TH.final TH.init ops).heap % TH.W :=
  TH.total_final TH.init ops rfl

/-- The statement of the property in closed form, for one fixed window `h` (how the type is used):
after any history whose queries all use `h`, `AveragePerSecond(h)` reports the sum of the counts of
exactly those entries that were added since the last `Clear` and are inside the window now. -/
theorem C12_timeheap_fixed_window (h : Nat) (ops : List TH.Op) (hf : TH.FixedWindow h ops) :
    (TH.step (TH.final TH.init ops) (.avg h)).2 =
      .total (TH.counts ((TH.addedSince ops).2.filter (TH.inWindow (TH.addedSince ops).1 h)) % TH.W) h := by
  obtain ⟨_, hrel⟩ := TH.run_refines TH.init TH.specInit ops TH.rel_init
  rw [TH.run_fst] at hrel
  obtain ⟨h1, _⟩ := TH.step_refines hrel (.avg h)
  rw [h1]
  obtain ⟨f1, f2⟩ := TH.spec_fixed h ops TH.specInit (0, []) hf rfl rfl
  show TH.Out.total (TH.counts ((TH.specRun TH.specInit ops).1.live.filter
    (TH.inWindow (TH.specRun TH.specInit ops).1.now h)) % TH.W) h = _
  rw [f2]; rfl

/-- Non-vacuity of `FixedWindow`, and a concrete run: entries age out, `Clear` forgets. -/
example : TH.FixedWindow 3 [.add 5, .tick 1, .add 2, .avg 3, .tick 1, .avg 3, .clear, .avg 3] := by
  intro op hop h' e; subst e; simp at hop; omega

example : (TH.run TH.init [.add 5, .tick 1, .add 2, .avg 3, .tick 1, .avg 3, .add 1, .clear, .avg 3, .avg 0]).2 =
    [.ok, .ok, .ok, .total 7 3, .ok, .total 2 3, .ok, .ok, .total 0 3, .total 0 0] := by
  rw [C12_timeheap_refines]; decide

/-- Witness about the model of the **unrepaired** `Clear` (heap emptied, total kept):
`Add(5); Clear(); AveragePerSecond` still reports 5. -/
theorem C12_timeheap_old_clear_witness :
    (TH.step (TH.clearOld (TH.step TH.init (.add 5)).1) (.avg 3)).2 = .total 5 3 := by
  decide

/-- The slice is a binary min-heap on the timestamps in every reachable state (what `heap.Pop`
returning the oldest entry rests on; the harness checks the same on the real array after requests). -/
theorem C12_timeheap_heap_ordered (ops : List TH.Op) : TH.HeapOrd (TH.final TH.init ops).heap := by
  have h := (TH.run_refines TH.init TH.specInit ops TH.rel_init).2
  rw [TH.run_fst] at h
  exact h.ord

theorem TH.counts_filter_le (p : TH.Entry → Bool) (l : List TH.Entry) : TH.counts (l.filter p) ≤ TH.counts l := by
  induction l with
  | nil => exact Nat.le_refl _
  | cons e l ih =>
    rw [List.filter_cons]
    split
    · rw [TH.counts_cons, TH.counts_cons]; omega
    · rw [TH.counts_cons]; omega

/-- The `uint64` running total is exact as long as it cannot wrap: if everything added since the last
`Clear` sums to less than 2^64, the answer is the true windowed sum (no `mod`). -/
theorem C12_timeheap_exact_without_wrap (h : Nat) (ops : List TH.Op) (hf : TH.FixedWindow h ops)
    (hs : TH.counts (TH.addedSince ops).2 < TH.W) :
    (TH.step (TH.final TH.init ops) (.avg h)).2 =
      .total (TH.counts ((TH.addedSince ops).2.filter (TH.inWindow (TH.addedSince ops).1 h))) h := by
  rw [C12_timeheap_fixed_window h ops hf]
  have := TH.counts_filter_le (TH.inWindow (TH.addedSince ops).1 h) (TH.addedSince ops).2
  rw [Nat.mod_eq_of_lt (by omega)]

example : TH.counts (TH.addedSince [.add 5, .tick 1, .add 2, .avg 3, .tick 1, .avg 3]).2 < TH.W := by decide

/-- Wrap-around, concretely: 2^64 − 1 and 7 are both inside the window — the answer is 6; once the
big entry has left the window the answer is 7 again (the subtraction wraps back). -/
example : (TH.run TH.init [.add 18446744073709551615, .tick 1, .add 7, .avg 5, .avg 1]).2 =
    [.ok, .ok, .ok, .total 6 5, .total 7 1] := by
  rw [C12_timeheap_refines]; decide

/-- **The `float32` model always yields a 24-bit mantissa**: for every positive rational `n / d` the result
`(m, e)` of `TH.f32OfRat` (value `m · 2^e`; it models `float32(total)` and the `float32` quotient of
`AveragePerSecond`) has `2^23 ≤ m < 2^24` — the exponent chosen from the bit lengths of `n` and `d`, corrected by
at most one, is the right one, also when the rounding carries into the next binade. -/
theorem C12_timeheap_float_normalised (n d : Nat) (hn : n ≠ 0) (hd : d ≠ 0) :
    2 ^ 23 ≤ (TH.f32OfRat n d).1 ∧ (TH.f32OfRat n d).1 < 2 ^ 24 :=
  TH.f32OfRat_normal n d hn hd

-- non-vacuity: the carry case (2^24 - 1/2 rounds up into the next binade) and an ordinary one
example : TH.f32OfRat 33554431 2 = (8388608, 1) ∧ TH.f32OfRat 1 3 = (11184811, -25) := by decide

/-- **The rounding of the returned `float32` is round-to-nearest, ties-to-even**: `TH.roundDiv N D` (the rounding
step of `TH.f32OfRat`, which models `float32(total)` and the `float32` quotient of `AveragePerSecond`) is within
half a unit of `N / D`, and on a tie it is even. -/
theorem C12_timeheap_float_round_nearest_even (N D : Nat) (hD : 0 < D) :
    2 * N ≤ (2 * TH.roundDiv N D + 1) * D ∧ 2 * TH.roundDiv N D * D ≤ 2 * N + D ∧
    (2 * N + D = 2 * TH.roundDiv N D * D ∨ 2 * N = (2 * TH.roundDiv N D + 1) * D → TH.roundDiv N D % 2 = 0) := by
  have h1 := Nat.div_add_mod N D
  have h2 := Nat.mod_lt N hD
  unfold TH.roundDiv
  simp only
  generalize N / D = q at *
  generalize N % D = r at *
  have e1 : (2 * (q + 1) + 1) * D = 2 * (D * q) + 3 * D := by rw [Nat.add_mul, Nat.mul_assoc, Nat.mul_comm (q+1) D, Nat.mul_add]; omega
  have e2 : 2 * (q + 1) * D = 2 * (D * q) + 2 * D := by rw [Nat.mul_assoc, Nat.mul_comm (q+1) D, Nat.mul_add]; omega
  have e3 : (2 * q + 1) * D = 2 * (D * q) + D := by rw [Nat.add_mul, Nat.mul_assoc, Nat.mul_comm q D]; omega
  have e4 : 2 * q * D = 2 * (D * q) := by rw [Nat.mul_assoc, Nat.mul_comm q D]
  split
  · rw [e1, e2]
    refine ⟨by omega, by omega, ?_⟩
    intro h; omega
  · rw [e3, e4]
    refine ⟨by omega, by omega, ?_⟩
    intro h; omega

-- non-vacuity: 5/2 rounds to 2 (tie, even), 7/2 to 4 (tie, even), 8/3 to 3
example : TH.roundDiv 5 2 = 2 ∧ TH.roundDiv 7 2 = 4 ∧ TH.roundDiv 8 3 = 3 := by decide

/-! ## IndexedStorage — a keyed store of storages -/

/-- Observational equivalence with the abstract model (a partial function from indexes to
storage handles, storages being partial functions): all scalar answers of every history coincide. -/
theorem C12_indexedstorage_refines (ops : List IX.Op) :
    ((IX.run IX.init ops).2.map IX.scalar) = (IX.specRun IX.specInit ops).2 := by
  have h := (IX.run_refines IX.init ops).1
  have e : IX.abs IX.init = IX.specInit := by
    simp [IX.abs, IX.init, IX.specInit, AMap.get]
  rw [e] at h; exact h

/-- The callback log of `ForEach` and the result of `Clear` mirror the store: in every reachable
state they enumerate exactly the cached (index, storage, contents) triples, each index once, and
after `Clear` nothing is left. -/
theorem C12_indexedstorage_iteration_mirrors (ops : List IX.Op) :
    let s := IX.final IX.init ops
    (IX.step s .forEach).2 = .pairs (IX.listing s) ∧ (IX.step s .clear).2 = .pairs (IX.listing s) ∧
    IX.listing (IX.step s .clear).1 = [] ∧
    ((IX.listing s).map (·.1)).Nodup ∧
    ∀ i h c, (i, h, c) ∈ IX.listing s ↔ s.cache.get i = some h ∧ c = IX.contents s h := by
  intro s
  have hv : IX.Inv s := IX.inv_final _ ops IX.inv_init
  refine ⟨rfl, rfl, rfl, ?_, fun i h c => IX.mem_listing s hv.cacheNodup i h c⟩
  rw [IX.listing_indexes]; exact hv.cacheNodup

/-- No dangling and no shared storages: every cached handle was allocated and is backed by a
storage, and two different indexes never share one. -/
theorem C12_indexedstorage_no_aliasing (ops : List IX.Op) :
    let s := IX.final IX.init ops
    (∀ i h, s.cache.get i = some h → h < s.nextId ∧ (s.stores.get h).isSome = true) ∧
    ∀ i j h, s.cache.get i = some h → s.cache.get j = some h → i = j := by
  intro s
  have hv : IX.Inv s := IX.inv_final _ ops IX.inv_init
  exact ⟨hv.live, hv.inj⟩

/-- Storages are handed out by pointer: evicting an index or clearing the cache detaches the storage
but never touches its contents (it stays usable through the handles given out before). -/
theorem C12_indexedstorage_detached_storage_survives (s : IX.St) (i : Nat) :
    (IX.step s (.evict i)).1.stores = s.stores ∧ (IX.step s .clear).1.stores = s.stores ∧
    (IX.step s (.evict i)).1.cache.get i = none := by
  refine ⟨?_, rfl, ?_⟩
  · simp only [IX.step]; split <;> rfl
  · simp only [IX.step]
    split
    · exact AMap.get_del_self _ _
    · assumption

example : (IX.run IX.init [.get 1 false, .get 1 true, .sset 0 2 7, .get 2 true, .evict 1, .sset 0 3 1, .sget 0 2,
    .get 1 true, .forEach, .clear, .forEach]).2 =
    [.nil, .handle 0, .ok, .handle 1, .handle 0, .ok, .val (some 7), .handle 2,
     .pairs [(2, 1, []), (1, 2, [])], .pairs [(2, 1, []), (1, 2, [])], .pairs []] := by
  decide

/-! ## OnChangeMap — a keyed store whose callbacks mirror every change -/

/-- Keyed-store behaviour, for every callback configuration and every pattern of callback
failures: the stored contents, the returned copies and the store-level answers
(exists / missing) are those of a plain map; callbacks (and their failures) never change what is
stored. -/
theorem C12_onchangemap_keyed_store (s : OC.St) (op : OC.Op) :
    OC.abs (OC.step s op).1 = (OC.specStep (OC.abs s) op).1 ∧
    (OC.step s op).2.item = (OC.specStep (OC.abs s) op).2.2 ∧
    (∀ r, (OC.specStep (OC.abs s) op).2.1 = some r → (OC.step s op).2.res = r) :=
  OC.step_store s op

/-- The changed-callback always receives the contents of the map as they are after the change. -/
theorem C12_onchangemap_changed_snapshot (s : OC.St) (op : OC.Op) (snap : AMap Nat)
    (h : OC.Event.changed snap ∈ (OC.step s op).2.events) : snap = (OC.step s op).1.m :=
  OC.step_snapshot s op snap h

example : OC.Event.changed [(1, 5)] ∈
    (OC.step (OC.step (OC.init true true true true) (.enable true)).1 (.add 1 5 false false)).2.events := by
  decide

/-- With the callbacks switched off nothing is ever called and no request fails because of a
callback: the answer is that of the plain keyed store. -/
theorem C12_onchangemap_disabled_silent (s : OC.St) (op : OC.Op) (h : s.enabled = false)
    (hop : ∀ b, op ≠ .enable b) :
    (OC.step s op).2.events = [] ∧ (OC.step s op).2.res ≠ .errChanged ∧ (OC.step s op).2.res ≠ .errItem := by
  cases op with
  | enable b => exact absurd rfl (hop b)
  | add k v fc fi => simp only [OC.step]; split <;> simp [OC.execItem, h]
  | modify k v mu rp fc fi =>
    simp only [OC.step]
    split
    · simp
    · split <;> simp [OC.execItem, h]
  | delete k fc fi => simp only [OC.step]; split <;> simp [OC.execItem, h]
  | get k => simp only [OC.step]; split <;> simp
  | all => simp [OC.step]
  | exec fc => simp [OC.step, OC.execChanged, h]

example : (OC.init true true true true).enabled = false := rfl

/-- A request that is refused (`Add` of an existing id, `Modify` / `Delete` / `Get` of a missing one)
changes nothing and calls nothing. -/
theorem C12_onchangemap_refused_no_effect (s : OC.St) (op : OC.Op)
    (h : (OC.step s op).2.res = .errExists ∨ (OC.step s op).2.res = .errMissing) :
    (OC.step s op).1 = s ∧ (OC.step s op).2.events = [] := by
  cases op with
  | enable b => simp [OC.step] at h
  | add k v fc fi =>
    simp only [OC.step] at h ⊢
    split
    · exact ⟨rfl, rfl⟩
    · rename_i hk
      simp only [hk] at h
      have := OC.execItem_res { s with m := s.m.set k v } s.hasA (.added k v) fc fi
      rcases h with h | h
      · exact absurd h this.1
      · exact absurd h this.2
  | modify k v mu rp fc fi =>
    simp only [OC.step] at h ⊢
    split
    · exact ⟨rfl, rfl⟩
    · rename_i old hk
      simp only [hk] at h
      exfalso
      revert h
      split
      · simp
      · intro h
        have := OC.execItem_res { s with m := s.m.set k (if mu then v else old) } s.hasM
          (.modified k (if mu then v else old)) fc fi
        rcases h with h | h
        · exact absurd h this.1
        · exact absurd h this.2
  | delete k fc fi =>
    simp only [OC.step] at h ⊢
    split
    · exact ⟨rfl, rfl⟩
    · rename_i old hk
      simp only [hk] at h
      have := OC.execItem_res { s with m := s.m.del k } s.hasD (.deleted k old) fc fi
      rcases h with h | h
      · exact absurd h this.1
      · exact absurd h this.2
  | get k => simp only [OC.step]; split <;> exact ⟨rfl, rfl⟩
  | all => exact ⟨rfl, rfl⟩
  | exec fc =>
    simp only [OC.step] at h ⊢
    have := OC.execChanged_res s fc
    rcases h with h | h
    · exact absurd h this.1
    · exact absurd h this.2

example : (OC.step (OC.step (OC.init true true true true) (.add 1 5 false false)).1 (.add 1 6 false false)).2.res = .errExists := by
  decide

/-- Callbacks mirror every change: with the callbacks switched on and all item callbacks installed,
over every history of honest requests (callbacks stay on, the changed-callback does not fail, a
mutating modify reports) a listener that folds the added / modified / deleted callbacks into a
replica ends with exactly the contents of the map — whatever the item callbacks themselves return. -/
theorem C12_onchangemap_callbacks_mirror (c : Bool) (ops : List OC.Op) (ho : ∀ op ∈ ops, op.honest) :
    let s0 := (OC.step (OC.init c true true true) (.enable true)).1
    OC.replay (fun _ => none) (OC.allEvents s0 ops) = OC.abs (OC.final s0 ops) := by
  intro s0
  have hr : OC.Reporting s0 := ⟨rfl, rfl, rfl, rfl⟩
  have := OC.mirror_run s0 ops hr ho
  have e : OC.abs s0 = fun _ => none := by
    funext k; simp [s0, OC.abs, OC.step, OC.init, AMap.get]
  rw [e] at this; exact this

example : ∀ op ∈ [OC.Op.add 1 5 false true, .modify 1 7 true true false false, .modify 1 9 false false false true,
    .delete 1 false false, .exec true, .get 1, .all], op.honest := by
  intro op h
  simp at h
  rcases h with h | h | h | h | h | h | h <;> subst h <;> simp [OC.Op.honest]

/-! ## SubscriptionManager — topic counts are the sum of the clients' subscriptions; events mirror state -/

/-- `topics[t] = Σ_c subs[c][t]` in every reachable state, for every subscription limit and every
history of connect / disconnect / subscribe / unsubscribe (same client ids reconnecting, forced
drops at the limit included); all stored counts are positive and no map has duplicate keys. -/
theorem C12_submgr_topic_count_is_sum (limit : Int) (ops : List SM.Op) :
    let s := SM.final (SM.init limit) ops
    (∀ t, SM.topicCount s t = SM.sumOver s.subs t) ∧
    (∀ t n, s.topics.get t = some n → 0 < n) ∧
    (∀ c m t n, s.subs.get c = some m → m.get t = some n → 0 < n) ∧
    s.subs.keys.Nodup ∧ s.topics.keys.Nodup := by
  intro s
  have hv : SM.Inv s := SM.inv_final _ ops (SM.inv_init limit)
  exact ⟨hv.sum, hv.tpos, hv.pos, hv.subsNodup, hv.topicsNodup⟩

/-- The subscription limit holds in every reachable state: with a limit `L ≠ 0` a connected client
holds nothing or at most `L − 1` distinct topics (nothing at all for `L = 1` and for negative `L`:
every new topic "reaches" such a limit and drops the client). -/
theorem C12_submgr_limit_bound (limit : Int) (ops : List SM.Op) (hl : limit ≠ 0) :
    let s := SM.final (SM.init limit) ops
    ∀ c m, s.subs.get c = some m → m = [] ∨ (m.length : Int) + 1 ≤ limit := by
  intro s c m h
  obtain ⟨hb, hlim⟩ := SM.bounded_final (SM.init limit) ops (SM.bounded_init limit)
  have := hb c m h (by rw [hlim]; exact hl)
  rw [hlim] at this
  exact this

/-- Non-vacuity: limit 3, a client holding two topics (the bound is tight). -/
example : (SM.final (SM.init 3) [.connect 1, .subscribe 1 4, .subscribe 1 5]).subs.get 1 = some [(4, 1), (5, 1)] := by
  decide

/-- Observable form: a topic has subscribers exactly when some client is subscribed to it. -/
theorem C12_submgr_topic_iff_client (limit : Int) (ops : List SM.Op) (t : Nat) :
    let s := SM.final (SM.init limit) ops
    (SM.step s (.hasTopic t)).2.ret = some true ↔ ∃ c, 0 < SM.cnt s c t := by
  intro s
  have hv : SM.Inv s := SM.inv_final _ ops (SM.inv_init limit)
  rw [← SM.has_topic_iff hv t]
  simp [SM.step]

/-- Events mirror every state change: a listener that folds *all* emitted events of a history
(connected / disconnected, subscribed / unsubscribed, topic added / removed — the batches of a
reconnect, a disconnect and a forced drop included) reconstructs exactly the set of connected
clients, every client's subscription count per topic and the set of topics with subscribers. -/
theorem C12_submgr_events_mirror (limit : Int) (ops : List SM.Op) :
    let s := SM.final (SM.init limit) ops
    let r := SM.replay SM.Rep.empty (SM.allEvents (SM.init limit) ops)
    (∀ c, r.conn c = s.subs.has c) ∧ (∀ c t, r.sub c t = SM.cnt s c t) ∧ (∀ t, r.topic t = s.topics.has t) := by
  intro s r
  have h := SM.agree_run SM.Rep.empty (SM.init limit) ops (SM.agree_empty limit) (SM.inv_init limit)
  exact ⟨h.conn, fun c t => by rw [SM.cnt_eq]; exact h.sub c t, h.topic⟩

/-- The forced drop at the subscription limit: subscribing a *new* topic that would take the
client to the limit removes the client with everything it held (and only that), answers false and
ends the event batch with DropClient, ClientDisconnected; no TopicSubscribed is emitted. -/
theorem C12_submgr_forced_drop (s : SM.St) (c t : Nat) (m : AMap Nat)
    (hc : s.subs.get c = some m) (hm : m.get t = none) (hl : s.limit ≠ 0 ∧ s.limit ≤ (m.length : Int) + 1) :
    (SM.step s (.subscribe c t)).1 = SM.cleaned s c m ∧
    (SM.step s (.subscribe c t)).2.ret = some false ∧
    (SM.step s (.subscribe c t)).2.events = SM.cleanEvents c m s.topics ++ [.drop c, .disconnected c] := by
  simp only [SM.step, hc, hm]
  rw [if_pos hl, SM.cleanup_some s c m hc]
  exact ⟨rfl, rfl, rfl⟩

example : ∃ s : SM.St, ∃ c t m, s.subs.get c = some m ∧ m.get t = none ∧ (s.limit ≠ 0 ∧ s.limit ≤ m.length + 1) :=
  ⟨(SM.run (SM.init 2) [.connect 2, .subscribe 2 5]).1, 2, 3, [(5, 1)], by decide, by decide, by decide⟩

/-- Non-vacuity / regression: limit 2, client 1 holds topic 3; client 2 is dropped when it asks for
a second topic — client 1's topic keeps its count. -/
example : (SM.run (SM.init 2) [.connect 1, .subscribe 1 3, .connect 2, .subscribe 2 5, .subscribe 2 3,
    .hasTopic 3, .clientSub 1 3, .subscribe 2 3, .sizes]).2.map (·.ret) =
    [none, some true, none, some true, some false, some true, some true, some false, none] := by
  decide

/-- Witness about the model of the **unrepaired** limit path (the new topic is stored before the
limit check and cleaned up with the rest): after the same history client 1 still holds topic 3 but
the global count of topic 3 is gone. -/
theorem C12_submgr_old_limit_path_witness :
    let s0 := (SM.run (SM.init 2) [.connect 1, .subscribe 1 3, .connect 2, .subscribe 2 5]).1
    let s := (SM.subscribeOld s0 2 3).1
    SM.cnt s 1 3 = 1 ∧ SM.topicCount s 3 = 0 := by
  decide

/-! ## The source text the models were written against

`Hive/Gen/C12b_Src.lean` is regenerated from the working tree on every run (`harness/c12b/srcpin`): every
declaration of the modelled files — functions, struct layouts (field types and widths), constants and
default values, error values — as printed text.  `Hive/Spec/C12bSource.lean` is the text the models in
`Hive/Model/C12b*.lean` were written (and validated) against.  Any edit of the modelled code breaks one of
these obligations; the check then names the declaration and the differing lines, and the differential run
and the Go oracles search for a failing input. -/

theorem C12_source_bytesfilter : Hive.Gen.C12bSrc.src_bytesfilter = Source.pinned_bytesfilter := rfl
theorem C12_source_walker : Hive.Gen.C12bSrc.src_walker = Source.pinned_walker := rfl
/-- `Walker` keeps its pushed set in an `OrderedMap`: `Set` keeps the position of a known key and reports it. -/
theorem C12_source_orderedmap : Hive.Gen.C12bSrc.src_orderedmap = Source.pinned_orderedmap := rfl
theorem C12_source_timeheap : Hive.Gen.C12bSrc.src_timeheap = Source.pinned_timeheap := rfl
theorem C12_source_indexedstorage : Hive.Gen.C12bSrc.src_memstorage = Source.pinned_memstorage := rfl
theorem C12_source_onchangemap : Hive.Gen.C12bSrc.src_onchangemap = Source.pinned_onchangemap := rfl
theorem C12_source_subscriptionmanager :
    Hive.Gen.C12bSrc.src_subscriptionmanager = Source.pinned_subscriptionmanager := rfl

end Hive.C12b
