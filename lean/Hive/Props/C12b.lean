import Hive.Model.C12bBytesFilter
import Hive.Model.C12bWalker
import Hive.Model.C12bTimeHeap
import Hive.Model.C12bIndexedStorage
import Hive.Model.C12bOnChangeMap
import Hive.Model.C12bSubMgr
