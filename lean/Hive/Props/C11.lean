import Hive.Proofs.OMapSeq
import Hive.Proofs.OMapPtr
import Hive.Proofs.OMapConc
import Hive.Proofs.OMapLin
import Hive.Proofs.OMapIter
import Hive.Proofs.OMapDict
import Hive.Proofs.OMapStep
import Hive.Model.OMapLine
import Hive.Gen.C11_Skel
import Hive.Gen.C11_Stmts
import Hive.Proofs.OMapWidth
import Hive.Proofs.OMapMethods
import Hive.Proofs.OMapDecode
import Hive.Proofs.OMapAlias
/-!
# C11 — OrderedMap and Set: insertion-ordered model, exact diffs, no deadlock

Property theorems only.  Models: `Hive/Model/OMap.lean` (abstract ordered map, `ds.Set`,
`SetArithmetic`, byte format), `Hive/Model/OMapPtr.lean` (hash index + doubly linked chain),
`Hive/Model/OMapConc.lean` (lock protocol, method-level protocol, linearizability checker); all
mirror the code after the two `fix:` commits (`DeleteAll`, `Replace`).
-/
namespace Hive.OMap
open PMap (MOp)

/-! ## insertion order -/

/-- **Iteration order = first-insertion order of the live keys, for every operation history.**
After any history of `Set`/`Delete`/`Clear` (starting from an empty map) the keys in chain order are
duplicate-free, are exactly the keys that are live (have a birth time), and are strictly sorted by
birth time — the position in the history of the `Set` that created the current incarnation (a `Set`
of a live key keeps it, delete + re-insert gives a later one).  `ForEach` of the pointer-level map —
following `next` from `head` — reports exactly this list with the stored values, `ForEachReverse` —
following `prev` from `tail` — its reverse, `Head`/`Tail`/`Size` its ends and length. -/
theorem C11_omap_order (h : List MOp) :
    let m := AMap.run h
    (AMap.keys m).Nodup ∧
    (∀ k, k ∈ AMap.keys m ↔ (birth h k).isSome = true) ∧
    (AMap.keys m).Pairwise (fun a b => (birth h a).getD 0 < (birth h b).getD 0) ∧
    (PMap.run h).forEach = m ∧ (PMap.run h).forEachReverse = m.reverse ∧
    (PMap.run h).headKV = m.head? ∧ (PMap.run h).tailKV = m.getLast? ∧ (PMap.run h).size = m.length := by
  intro m
  have ho := ordInv h.reverse
  have hrun : AMap.runRev h.reverse = m := (run_eq_runRev h).symm
  obtain ⟨habs, hinv⟩ := PMap.run_refines h
  refine ⟨hrun ▸ ho.nodup, ?_, ?_, ?_, ?_, ?_, ?_, ?_⟩
  · intro k; have := ho.live k; rw [hrun] at this; exact this
  · have := ho.sorted; rw [hrun] at this; exact this
  · rw [PMap.forEach_refines hinv, habs]
  · rw [PMap.forEachReverse_refines hinv, habs]
  · rw [PMap.head_refines hinv, habs]; rfl
  · rw [PMap.tail_refines hinv, habs]; rfl
  · rw [PMap.size_refines hinv, habs]; rfl

/-- One step: a `Set` of a live key leaves the order unchanged (the key keeps its position), a `Set`
of a new key appends it, `Delete` removes the key and keeps the relative order of the others — so
delete + re-insert moves a key to the end. -/
theorem C11_omap_order_step (m : AMap) (k v : Nat) :
    AMap.keys (AMap.set m k v).1 = (if k ∈ AMap.keys m then AMap.keys m else AMap.keys m ++ [k]) ∧
    AMap.keys (AMap.delete m k).1 = (AMap.keys m).filter (· != k) ∧
    (k ∈ AMap.keys m → (AMap.keys m).Nodup →
      AMap.keys (AMap.set (AMap.delete m k).1 k v).1 = (AMap.keys m).filter (· != k) ++ [k]) := by
  refine ⟨AMap.keys_set m k v, AMap.keys_delete m k, ?_⟩
  intro _ _
  rw [AMap.keys_set, AMap.keys_delete]
  simp

/-- The pointer-level map (hash index + doubly linked chain, as in `orderedmap.go`) refines the
abstract map for every history: same results of `Set`/`Delete`/`Get`/`Has`, same contents. -/
theorem C11_omap_refines (h : List MOp) (k v : Nat) :
    let p := PMap.run h
    let m := AMap.run h
    p.get k = AMap.get m k ∧ p.has k = AMap.has m k ∧
    (p.set k v).2 = (AMap.set m k v).2 ∧ (p.delete k).2 = (AMap.delete m k).2 ∧
    (p.set k v).1.forEach = (AMap.set m k v).1 ∧ (p.delete k).1.forEach = (AMap.delete m k).1 := by
  intro p m
  obtain ⟨habs, hinv⟩ := PMap.run_refines h
  have hs := PMap.set_refines hinv k v
  have hd := PMap.delete_refines hinv k
  refine ⟨?_, ?_, ?_, ?_, ?_, ?_⟩
  · rw [PMap.get_refines hinv, habs]
  · rw [PMap.has_refines, habs]
  · rw [hs.2.1, habs]
  · rw [hd.2.1, habs]
  · rw [PMap.forEach_refines hs.2.2, hs.1, habs]
  · rw [PMap.forEach_refines hd.2.2, hd.1, habs]

example : (AMap.run [.set 1 10, .set 2 20, .set 3 30, .set 1 11, .del 2, .set 2 21]) = [(1, 11), (3, 30), (2, 21)]
    ∧ (PMap.run [.set 1 10, .set 2 20, .set 3 30, .set 1 11, .del 2, .set 2 21]).forEachReverse = [(2, 21), (3, 30), (1, 11)]
    ∧ birth [.set 1 10, .set 2 20, .set 3 30, .set 1 11, .del 2, .set 2 21] 2 = some 5 := by decide

/-! ## the hash index (dictionary) and its rebuilds -/

/-- **Rebuilding the hash index is invisible.**  `OrderedMap.dictionary` is a `ShrinkingMap` with the default options:
every deletion that takes effect counts (`deletedKeys`), and when 100 deletions *and* ten times the remaining size are
reached the Go map is rebuilt by copying every entry into a fresh map (`ShrinkingMap.shrink`); `Clear` installs a
fresh dictionary.  For every history the ordered map with this bookkeeping (`DMap`, the rebuild modelled as that copy)
is exactly the pointer-level map without it (`PMap.run`, the object of `C11_omap_order`, `C11_omap_refines`,
`C11_weak_iteration`); the counter never exceeds the number of `Delete`s; and right after a deletion that took
effect the counter never asks for a rebuild (it was done).  -/
theorem C11_dict_shrink_transparent (h : List MOp) :
    (DMap.run h).p = PMap.run h ∧
    (DMap.run h).dk ≤ (h.filter isDel).length ∧
    (∀ k, ((DMap.run h).delete k).2 = true →
      shouldShrink SOpts.default ((DMap.run h).delete k).1.dk ((DMap.run h).delete k).1.p.dict.length = false) := by
  refine ⟨DMap.run_p h, ?_, fun k hk => DMap.delete_settled _ k hk⟩
  have := DMap.applyOps_dk_le DMap.empty h
  simpa [DMap.run, DMap.empty] using this

/-- the thresholds of the default options: 100 deletions with at most 10 keys left rebuild, 11 keys left do not (yet),
99 deletions never, an empty map never -/
example : shouldShrink SOpts.default 100 10 = true ∧ shouldShrink SOpts.default 100 11 = false ∧
    shouldShrink SOpts.default 110 11 = true ∧ shouldShrink SOpts.default 99 1 = false ∧
    shouldShrink SOpts.default 150 0 = false ∧ shouldShrink ⟨0, 0⟩ 1000 1 = false ∧ shouldShrink ⟨0, 5⟩ 5 100 = true := by decide

/-- the 100th deletion with two keys left rebuilds the index and resets the counter; the 99th does not -/
example :
    let d : DMap := { p := PMap.run [.set 0 0, .set 1 1, .set 2 2], dk := 99, shrinks := 0 }
    (d.delete 1).1.shrinks = 1 ∧ (d.delete 1).1.dk = 0 ∧ (d.delete 1).1.p.forEach = [(0, 0), (2, 2)] ∧
    (d.delete 7).1.dk = 99 ∧ (({ d with dk := 98 } : DMap).delete 1).1.dk = 99 := by decide

/-! ## prior presence -/

/-- `OrderedMap.Set` returns the previous value iff the key was present, `OrderedMap.Delete` /
`Set.Delete` return whether it was present, `Set.Add` whether it was absent; afterwards the key is
present resp. absent. -/
theorem C11_prior_presence (m : AMap) (s : ASet) (k v e : Nat) :
    (AMap.set m k v).2 = AMap.get m k ∧
    (AMap.delete m k).2 = AMap.has m k ∧
    (sAdd s e).2 = !(AMap.has s e) ∧
    (sDelete s e).2 = AMap.has s e ∧
    AMap.get (AMap.set m k v).1 k = some v ∧
    AMap.has (AMap.delete m k).1 k = false ∧
    AMap.has (sAdd s e).1 e = true ∧
    AMap.has (sDelete s e).1 e = false := by
  refine ⟨AMap.set_snd m k v, AMap.delete_snd m k, sAdd_snd s e, sDelete_snd s e, ?_, ?_, ?_, ?_⟩
  · rw [AMap.get_set]; simp
  · unfold AMap.has; rw [AMap.get_delete]; simp
  · rw [has_iff_mem, mem_sAdd]; exact Or.inr rfl
  · rw [has_false_iff, mem_sDelete]; exact fun h => h.2 rfl

/-! ## exact diffs -/

/-- `AddAll` returns exactly the elements that became members, `DeleteAll` / `Replace` exactly those
that stopped being members. -/
theorem C11_diffs_exact (s : ASet) (els : List Nat) :
    -- AddAll
    (∀ x, x ∈ elems (addAll s els).1 ↔ x ∈ elems s ∨ x ∈ els) ∧
    (∀ x, x ∈ elems (addAll s els).2 ↔ x ∉ elems s ∧ x ∈ elems (addAll s els).1) ∧
    -- DeleteAll
    (∀ x, x ∈ elems (deleteAll s els).1 ↔ x ∈ elems s ∧ x ∉ els) ∧
    (∀ x, x ∈ elems (deleteAll s els).2 ↔ x ∈ elems s ∧ x ∉ elems (deleteAll s els).1) ∧
    -- Replace
    (∀ x, x ∈ elems (replace s els).1 ↔ x ∈ els) ∧
    (∀ x, x ∈ elems (replace s els).2 ↔ x ∈ elems s ∧ x ∉ elems (replace s els).1) := by
  have a1 : ∀ x, x ∈ elems (addAll s els).1 ↔ x ∈ elems s ∨ x ∈ els := fun x => by
    rw [addAll_eq, mem_addFold_fst]
  have d1 : ∀ x, x ∈ elems (deleteAll s els).1 ↔ x ∈ elems s ∧ x ∉ els := fun x => by
    rw [deleteAll_eq, mem_delFold_fst]
  have r1 : ∀ x, x ∈ elems (replace s els).1 ↔ x ∈ els := fun x => by
    simp [replace, mem_newSet]
  refine ⟨a1, ?_, d1, ?_, r1, ?_⟩
  · intro x
    rw [a1, addAll_eq, mem_addFold_snd]
    simp only [elems_nil, List.not_mem_nil, false_or]
    constructor
    · rintro ⟨h1, h2⟩; exact ⟨h2, Or.inr h1⟩
    · rintro ⟨h1, h2 | h2⟩
      · exact absurd h2 h1
      · exact ⟨h2, h1⟩
  · intro x
    rw [d1, deleteAll_eq, mem_delFold_snd]
    simp only [elems_nil, List.not_mem_nil, false_or]
    constructor
    · rintro ⟨h1, h2⟩; exact ⟨h2, fun h => h.2 h1⟩
    · rintro ⟨h1, h2⟩
      exact ⟨Classical.byContradiction fun hn => h2 ⟨h1, hn⟩, h1⟩
  · intro x
    rw [r1]
    simp only [replace, mem_newSet, List.mem_filter, Bool.not_eq_true', has_false_iff]

/-- `Apply` (and `Compute`, which applies the factory's mutations): the returned mutations are exactly
the elements that were inserted (`adds` not present before) and exactly those that were unlinked
(`dels` present after the additions); they satisfy the fold law `old ∪ added \ deleted = new`; and
when the requested additions and deletions are disjoint they are exactly the membership changes. -/
theorem C11_diffs_exact_apply (s : ASet) (adds dels : List Nat) :
    let r := apply s adds dels
    (∀ x, x ∈ elems r.2.1 ↔ x ∈ adds ∧ x ∉ elems s) ∧
    (∀ x, x ∈ elems r.2.2 ↔ x ∈ dels ∧ (x ∈ elems s ∨ x ∈ adds)) ∧
    (∀ x, x ∈ elems r.1 ↔ (x ∈ elems s ∨ x ∈ elems r.2.1) ∧ x ∉ elems r.2.2) ∧
    ((∀ x ∈ adds, x ∉ dels) →
      (∀ x, x ∈ elems r.2.1 ↔ x ∉ elems s ∧ x ∈ elems r.1) ∧
      (∀ x, x ∈ elems r.2.2 ↔ x ∈ elems s ∧ x ∉ elems r.1)) := by
  intro r
  have hA : ∀ x, x ∈ elems r.2.1 ↔ x ∈ adds ∧ x ∉ elems s := fun x => by
    show x ∈ elems (addAll s adds).2 ↔ _
    rw [addAll_eq, mem_addFold_snd]; simp [elems_nil]
  have hmid : ∀ x, x ∈ elems (addAll s adds).1 ↔ x ∈ elems s ∨ x ∈ adds := fun x => by
    rw [addAll_eq, mem_addFold_fst]
  have hD : ∀ x, x ∈ elems r.2.2 ↔ x ∈ dels ∧ (x ∈ elems s ∨ x ∈ adds) := fun x => by
    show x ∈ elems (deleteAll (addAll s adds).1 dels).2 ↔ _
    rw [deleteAll_eq, mem_delFold_snd, hmid]; simp [elems_nil]
  have hS : ∀ x, x ∈ elems r.1 ↔ (x ∈ elems s ∨ x ∈ adds) ∧ x ∉ dels := fun x => by
    show x ∈ elems (deleteAll (addAll s adds).1 dels).1 ↔ _
    rw [deleteAll_eq, mem_delFold_fst, hmid]
  refine ⟨hA, hD, ?_, ?_⟩
  · intro x
    rw [hS, hA, hD]
    constructor
    · rintro ⟨h1 | h1, h2⟩
      · exact ⟨Or.inl h1, fun h => h2 h.1⟩
      · by_cases hx : x ∈ elems s
        · exact ⟨Or.inl hx, fun h => h2 h.1⟩
        · exact ⟨Or.inr ⟨h1, hx⟩, fun h => h2 h.1⟩
    · rintro ⟨h1 | ⟨h1, _⟩, h2⟩
      · exact ⟨Or.inl h1, fun h => h2 ⟨h, Or.inl h1⟩⟩
      · exact ⟨Or.inr h1, fun h => h2 ⟨h, Or.inr h1⟩⟩
  · intro hdis
    constructor
    · intro x
      rw [hA, hS]
      constructor
      · rintro ⟨h1, h2⟩; exact ⟨h2, Or.inr h1, hdis x h1⟩
      · rintro ⟨h1, h2 | h2, _⟩
        · exact absurd h2 h1
        · exact ⟨h2, h1⟩
    · intro x
      rw [hD, hS]
      constructor
      · rintro ⟨h1, h2 | h2⟩
        · exact ⟨h2, fun h => h.2 h1⟩
        · exact absurd h1 (hdis x h2)
      · rintro ⟨h1, h2⟩
        exact ⟨Classical.byContradiction fun hn => h2 ⟨Or.inl h1, hn⟩, Or.inl h1⟩

/-- `Compute` is `Apply` of what the factory returns for the current contents. -/
theorem C11_diffs_exact_compute (s : ASet) (factory : List Nat → List Nat × List Nat) :
    compute s factory = apply s (factory (elems s)).1 (factory (elems s)).2 := rfl

/-- All sets handed out (`Set` itself, returned diffs) stay duplicate-free. -/
theorem C11_diffs_nodup (s : ASet) (hs : (elems s).Nodup) (els adds dels : List Nat) :
    (elems (addAll s els).1).Nodup ∧ (elems (addAll s els).2).Nodup ∧
    (elems (deleteAll s els).1).Nodup ∧ (elems (deleteAll s els).2).Nodup ∧
    (elems (replace s els).1).Nodup ∧ (elems (replace s els).2).Nodup ∧
    (elems (apply s adds dels).1).Nodup ∧ (elems (apply s adds dels).2.1).Nodup ∧ (elems (apply s adds dels).2.2).Nodup := by
  have ha := nodup_addFold els (s, []) hs (by simp [elems_nil])
  have hd := nodup_delFold els (s, []) hs (by simp [elems_nil])
  have ha2 := nodup_addFold adds (s, []) hs (by simp [elems_nil])
  have hd2 := nodup_delFold dels ((addAll s adds).1, []) ha2.1 (by simp [elems_nil])
  exact ⟨ha.1, ha.2, hd.1, hd.2, nodup_newSet _, nodup_newSet _, hd2.1, ha2.2, hd2.2⟩

/-- The behaviour before the fix, kept as a regression witness: `Replace({3,4})` on `{1,2,3}` reported
`3` as removed although it is still a member. -/
theorem C11_old_replace_witness :
    elems (replaceOld (newSet [1, 2, 3]) [3, 4]).2 = [1, 2, 3] ∧
    elems (replace (newSet [1, 2, 3]) [3, 4]).2 = [1, 2] ∧
    3 ∈ elems (replace (newSet [1, 2, 3]) [3, 4]).1 := by decide

example : (apply (newSet [1, 2]) [2, 3, 4] [4, 1, 5]).1 = newSet [2, 3]
    ∧ elems (apply (newSet [1, 2]) [2, 3, 4] [4, 1, 5]).2.1 = [3, 4]
    ∧ elems (apply (newSet [1, 2]) [2, 3, 4] [4, 1, 5]).2.2 = [4, 1] := by decide

/-! ## set algebra -/

/-- `HasAll`, `Equals`, `Intersect`, `Filter`, `Clone`, `Is`, `Any`, `ToSlice` against their
mathematical definitions (`ToSlice` *is* `elems`); results that are sets come in the receiver's
iteration order. -/
theorem C11_algebra (s o : ASet) (hs : (elems s).Nodup) (ho : (elems o).Nodup) (p : Nat → Bool) (e : Nat) :
    (hasAll s (elems o) = true ↔ ∀ x ∈ elems o, x ∈ elems s) ∧
    (equals s o = true ↔ ∀ x, x ∈ elems s ↔ x ∈ elems o) ∧
    elems (intersect s o) = (elems s).filter (fun x => decide (x ∈ elems o)) ∧
    elems (filter s p) = (elems s).filter p ∧
    elems (sClone s) = elems s ∧
    (is s e = true ↔ elems s = [e]) ∧
    (any s = (elems s).head?) ∧
    (AMap.has s e = true ↔ e ∈ elems s) ∧
    AMap.size s = (elems s).length := by
  have hHas : hasAll s (elems o) = true ↔ ∀ x ∈ elems o, x ∈ elems s := by
    simp [hasAll, List.all_eq_true, has_iff_mem]
  have hlen : ∀ t : ASet, AMap.size t = (elems t).length := fun t => by simp [AMap.size, elems, AMap.keys]
  refine ⟨hHas, ?_, ?_, elems_filter hs p, ?_, ?_, rfl, has_iff_mem s e, hlen s⟩
  · unfold equals
    rw [Bool.and_eq_true, hHas, beq_iff_eq, hlen, hlen]
    constructor
    · rintro ⟨hl, hsub⟩ x
      exact ⟨fun hx => subset_of_nodup_subset_length ho hs hsub (by omega) x hx, hsub x⟩
    · intro h
      refine ⟨?_, fun x hx => (h x).2 hx⟩
      have h1 := length_le_of_nodup_subset hs (fun x hx => (h x).1 hx)
      have h2 := length_le_of_nodup_subset ho (fun x hx => (h x).2 hx)
      omega
  · unfold intersect
    rw [elems_filter hs]
    congr 1; funext x; exact AMap.has_eq_decide o x
  · unfold sClone
    have : ∀ (l : List Nat) (acc : ASet × ASet), (l.foldl addStep acc).1 = l.foldl (fun a x => (AMap.set a x 0).1) acc.1 := by
      intro l; induction l with
      | nil => intro acc; rfl
      | cons x r ih => intro acc; simp only [List.foldl_cons, ih]; rfl
    rw [addAll_eq, this, elems_foldl_set_nodup _ _ (by simpa [elems_nil] using hs)]
    simp [elems_nil]
  · unfold is
    rw [Bool.and_eq_true, beq_iff_eq, hlen, has_iff_mem]
    constructor
    · rintro ⟨hl, hm⟩
      match hse : elems s, hl, hm with
      | [y], _, hm => simp at hm; rw [hm]
    · intro h; rw [h]; simp

example : equals (newSet [1, 2, 3]) (newSet [3, 1, 2]) = true ∧ equals (newSet [1, 2]) (newSet [1, 4]) = false
    ∧ elems (intersect (newSet [1, 2, 3, 4]) (newSet [4, 9, 2])) = [2, 4] := by decide

/-! ## SetArithmetic thresholds -/

/-- **Net mutations = changes of the threshold set.**  Start with fresh mutations `m`, run any
sequence of `AddedElementsCollector(m, thr)` / `SubtractedElementsCollector(m, thr)` calls (with
repetitions, in any order) against counters `c`: afterwards `m.added` is exactly the set of elements
that were below the threshold and are now at or above it, `m.deleted` exactly those that were at or
above and are now below; every counter moved by (#added-calls − #subtracted-calls).
`SetArithmetic.Add` and `Subtract` are the two special cases. -/
theorem C11_arith_threshold (c : Counts) (thr : Int) (xs : List (Bool × Nat)) :
    let a := ArSt.run { counts := c, added := [], deleted := [] } thr xs
    (∀ x, x ∈ elems a.added ↔ ¬ above c thr x ∧ above a.counts thr x) ∧
    (∀ x, x ∈ elems a.deleted ↔ above c thr x ∧ ¬ above a.counts thr x) ∧
    (∀ x, a.counts x = c x + ((xs.filter (fun y => y.1 && y.2 == x)).length : Int)
        - ((xs.filter (fun y => !y.1 && y.2 == x)).length : Int)) ∧
    (elems a.added).Nodup ∧ (elems a.deleted).Nodup := by
  intro a
  have h := arInv_run xs (arInv_fresh c thr)
  refine ⟨?_, ?_, fun x => counts_run _ thr xs x, h.nodupA, h.nodupD⟩
  · intro x; rw [h.added x]; unfold above
    exact ⟨fun ⟨h1, h2⟩ => ⟨Int.not_le.2 h1, h2⟩, fun ⟨h1, h2⟩ => ⟨Int.not_le.1 h1, h2⟩⟩
  · intro x; rw [h.deleted x]; unfold above
    exact ⟨fun ⟨h1, h2⟩ => ⟨h1, Int.not_le.2 h2⟩, fun ⟨h1, h2⟩ => ⟨h1, Int.not_le.1 h2⟩⟩

/-- `Add(mutations, thr)` / `Subtract(mutations, thr)` instantiate the collector sequence. -/
theorem C11_arith_threshold_add_sub (c : Counts) (adds dels : List Nat) (thr : Int) :
    arAdd c adds dels thr = ArSt.run { counts := c, added := [], deleted := [] } thr
      (adds.map (fun e => (true, e)) ++ dels.map (fun e => (false, e))) ∧
    arSub c adds dels thr = ArSt.run { counts := c, added := [], deleted := [] } thr
      (adds.map (fun e => (false, e)) ++ dels.map (fun e => (true, e))) := ⟨rfl, rfl⟩

example : elems (arAdd (fun _ => 0) [1, 2] [2, 3] 1).added = [1] ∧ elems (arAdd (fun _ => 0) [1, 2] [2, 3] 1).deleted = [] := by
  decide

/-! ## codec -/

/-- **Encode/Decode round-trips contents and order.**  For element codecs whose decoder inverts the
encoder on the element domains `DK`/`DV` whatever follows (hence injective and prefix-free there), a
map with distinct keys (every reachable map), entries in the domains and fewer than 2³² of them:
decoding `Encode(m)` (followed by arbitrary further bytes) into a receiver `m0` is the fold of `Set`
over the entries in order (the receiver is not cleared) and reports exactly the encoding's length as
consumed; into an empty receiver this gives back `m` itself — same entries, same order. -/
theorem C11_codec_roundtrip {DK DV : Nat → Prop} {encK encV : Nat → Bytes} {decK decV : Dec}
    (hK : Codec DK encK decK) (hV : Codec DV encV decV) (m m0 : AMap) (hdom : ∀ p ∈ m, DK p.1 ∧ DV p.2)
    (hn : (AMap.keys m).Nodup) (hlen : m.length < 4294967296) (rest : Bytes) :
    decode decK decV m0 (encode encK encV m ++ rest)
      = (m.foldl (fun c p => (AMap.set c p.1 p.2).1) m0, some (encode encK encV m).length) ∧
    decode decK decV [] (encode encK encV m ++ rest) = (m, some (encode encK encV m).length) := by
  have h1 : ∀ m0, decode decK decV m0 (encode encK encV m ++ rest)
      = (m.foldl (fun c p => (AMap.set c p.1 p.2).1) m0, some (encode encK encV m).length) := by
    intro m0
    unfold decode encode
    rw [Nat.mod_eq_of_lt hlen, List.append_assoc, le32_unle32 _ hlen]
    simp only
    rw [decodeLoop_encodeEntries hK hV m hdom _ _ _ hn (by simp)]
    simp [length_le32]
  refine ⟨h1 m0, ?_⟩
  rw [h1 []]
  have := AMap.foldl_set_append [] m (by simpa using hn)
  simp only [List.nil_append] at this
  rw [this]

/-- **Decode into any receiver, for any bytes — success or failure.**  No hypothesis on the element decoders or on the
input: `Decode` does not clear the receiver and `Set`s each entry as soon as it is decoded, so afterwards the receiver is
the fold of `Set` over the entries `l` decoded before the end *or before the failure* (partial progress is kept), whose
keys are pairwise distinct (duplicate-key refusal).  Consequently the keys the receiver had are a **prefix** of its keys
afterwards — live keys keep their position, new keys follow in input order — and a key not among the decoded ones keeps
its value.  `l` has at most `count` entries, exactly `count` when the call succeeds; if the count itself cannot be read
nothing changes. -/
theorem C11_codec_decode_into_receiver (decK decV : Dec) (m0 : AMap) (b : Bytes) :
    ∃ l : List (Nat × Nat),
      (decode decK decV m0 b).1 = l.foldl (fun c p => (AMap.set c p.1 p.2).1) m0 ∧
      (l.map (·.1)).Nodup ∧
      AMap.keys m0 <+: AMap.keys (decode decK decV m0 b).1 ∧
      (∀ k, k ∉ l.map (·.1) → AMap.get (decode decK decV m0 b).1 k = AMap.get m0 k) ∧
      (unle32 b = none → l = []) ∧
      (∀ n rest, unle32 b = some (n, rest) → l.length ≤ n ∧ ((decode decK decV m0 b).2 ≠ none → l.length = n)) := by
  unfold decode
  cases hu : unle32 b with
  | none =>
    exact ⟨[], rfl, List.nodup_nil, List.prefix_refl _, fun _ _ => rfl, fun _ => rfl, by simp⟩
  | some cr =>
    obtain ⟨c, rest⟩ := cr
    obtain ⟨l, hl, hnd, _, hlen, hfull⟩ := decodeLoop_fold decK decV c rest m0 4 []
    refine ⟨l, hl, hnd, ?_, ?_, by simp, ?_⟩
    · simp only; rw [hl]; exact keys_prefix_setFold l m0
    · intro k hk; simp only; rw [hl]; exact get_setFold_of_not_mem l m0 k hk
    · intro n r h
      simp only [Option.some.injEq, Prod.mk.injEq] at h
      obtain ⟨rfl, rfl⟩ := h
      exact ⟨hlen, hfull⟩

/-- a truncated input decoded into `{9:1, 1:0}`: the entry decoded before the failure is kept (the live key 1 keeps its
place and gets the new value), the call reports failure -/
example : decode decU16 decU8 [(9, 1), (1, 0)] [2, 0, 0, 0, 1, 0, 5, 2, 0] = ([(9, 1), (1, 5)], none) ∧
    decode decU16 decU8 [(9, 1)] [2, 0, 0, 0, 1, 0, 5, 2, 0, 7] = ([(9, 1), (1, 5), (2, 7)], some 10) := by decide

/-- After the fix a serialized map that mentions a key twice is rejected (before the fix the two
entries were merged silently, so two different byte strings decoded to the same map). -/
theorem C11_codec_rejects_duplicate_witness :
    (decode decU16 decU8 [] [2, 0, 0, 0, 1, 0, 5, 1, 0, 7]).2 = none ∧
    (decode decU16 decVoid [] [2, 0, 0, 0, 3, 0, 3, 0]).2 = none := by decide

/-- **Decoding is canonical (after the duplicate-key fix).**  For element decoders that accept only their
encoder's bytes: whenever `Decode` of `b` into an empty map succeeds with result `m` consuming `n`
bytes, the consumed prefix of `b` *is* `Encode(m)` — no two different byte strings decode to the same
map — and `m` has distinct keys. -/
theorem C11_codec_canonical {encK encV : Nat → Bytes} {decK decV : Dec} (hK : Canon encK decK) (hV : Canon encV decV)
    (b : Bytes) (m : AMap) (n : Nat) (h : decode decK decV [] b = (m, some n)) :
    encode encK encV m = b.take n ∧ (AMap.keys m).Nodup := by
  unfold decode at h
  cases hu : unle32 b with
  | none => simp [hu] at h
  | some cr =>
    obtain ⟨c, rest⟩ := cr
    simp only [hu] at h
    obtain ⟨hb, hc⟩ := unle32_le32 hu
    obtain ⟨l, hl, hn, hrest, hm, hnd, _⟩ := decodeLoop_canonical hK hV c rest [] 4 [] m n h
    have hml : m = l := by
      rw [hm]
      have := AMap.foldl_set_append [] l (by simpa using hnd)
      simpa using this
    subst hml
    refine ⟨?_, hnd⟩
    unfold encode
    rw [hl, Nat.mod_eq_of_lt hc, hn]
    have hb2 : b = (le32 c ++ encodeEntries encK encV m) ++ rest.drop (encodeEntries encK encV m).length := by
      rw [List.append_assoc, ← hrest]; exact hb
    have hlen : (le32 c ++ encodeEntries encK encV m).length = 4 + (encodeEntries encK encV m).length := by
      simp [length_le32]
    conv => rhs; rw [hb2]
    exact (List.take_left' hlen).symm

theorem C11_codec_concrete_canonical : Canon encU16 decU16 ∧ Canon encVoid decVoid := by
  refine ⟨?_, ?_⟩
  · intro b x n h
    match b, h with
    | a0 :: a1 :: r, h =>
      simp only [decU16, Option.some.injEq, Prod.mk.injEq] at h
      obtain ⟨hx, hn⟩ := h
      subst hn
      have h0 := a0.toNat_lt; have h1 := a1.toNat_lt
      have e0 : x % 256 = a0.toNat := by omega
      have e1 : x / 256 % 256 = a1.toNat := by omega
      simp [encU16, e0, e1]
  · intro b x n h
    simp only [decVoid, Option.some.injEq, Prod.mk.injEq] at h
    obtain ⟨hx, hn⟩ := h
    subst hn; simp [encVoid]

/-- the concrete element codecs of the correspondence run (serix `uint16`, `uint8`, `struct{}`) satisfy
the hypothesis on their domains -/
theorem C11_codec_concrete :
    Codec (· < 65536) encU16 decU16 ∧ Codec (· < 256) encU8 decU8 ∧ Codec (· = 0) encVoid decVoid := by
  refine ⟨?_, ?_, ?_⟩
  · intro x hx rest
    simp only [encU16, List.cons_append, List.nil_append, decU16, UInt8.toNat_ofNat', List.length_cons, List.length_nil]
    congr 1; simp only [Prod.mk.injEq, and_true]; omega
  · intro x hx rest
    simp only [encU8, List.cons_append, List.nil_append, decU8, UInt8.toNat_ofNat', List.length_cons, List.length_nil]
    congr 1; simp only [Prod.mk.injEq, and_true]; omega
  · intro x hx rest; subst hx; rfl

example : decode decU16 decVoid [] (encode encU16 encVoid (newSet [3, 1, 2])) = (newSet [3, 1, 2], some 10) := by decide

/-- **Every element width, down to one byte per entry.**  Little-endian numbers of any width `w` (serix `uint8`,
`int8`, `bool`: 1 … `uint64`: 8) are a codec on `[0, 256^w)`; with the zero-byte `types.Empty` value an encoded
`Set[uint8]` spends a single byte per entry.  Hence `Decode(Encode(s))` gives back `s` — contents and order — for a
set of every such element type and every size below 2³² (in particular sizes 1, 2, many; an entry is *not* at least
two bytes long). -/
theorem C11_codec_widths (w : Nat) (s : ASet) (hs : ∀ p ∈ s, p.1 < 256 ^ w ∧ p.2 = 0) (hn : (elems s).Nodup)
    (hlen : s.length < 4294967296) (rest : Bytes) :
    Codec (· < 256 ^ w) (encLE w) (decLE w) ∧
    decode (decLE w) decVoid [] (encode (encLE w) encVoid s ++ rest) = (s, some (encode (encLE w) encVoid s).length) :=
  ⟨codec_LE w, (C11_codec_roundtrip (codec_LE w) C11_codec_concrete.2.2 s [] hs hn hlen rest).2⟩

example : (∀ p ∈ newSet [200, 7], p.1 < 256 ^ 1 ∧ p.2 = 0) ∧
    encode (encLE 1) encVoid (newSet [200, 7]) = [2, 0, 0, 0, 200, 7] ∧
    decode (decLE 1) decVoid [] [1, 0, 0, 0, 9] = (newSet [9], some 5) := by decide

/-! ## the entry-count prefix: what its width is for -/

open Hive.Gen.C11Stmts in
/-- `Encode` as written: the count is `uint32(o.Size())` (a conversion that wraps), then per entry key bytes, value bytes. -/
theorem C11_stmts_SerializableOrderedMap_Encode : stmts_SerializableOrderedMap_Encode =
    ["func func(api *serix.API) ([]byte, error)", "seri := serializer.NewSerializer()",
      "seri.WriteNum(uint32(o.Size()), func(err error) error {..})", "func{",
      "return ierrors.Wrap(err, \"failed to write SerializableOrderedMap size to serializer\")", "}func",
      "o.ForEach(func(key K, val V) bool {..})", "func{", "keyBytes, err := api.Encode(context.Background(), key)",
      "if err != nil", "seri.AbortIf(func(_ error) error {..})", "func{",
      "return ierrors.Wrap(err, \"failed to encode SerializableOrderedMap key\")", "}func", "end",
      "seri.WriteBytes(keyBytes, func(err error) error {..})", "func{",
      "return ierrors.Wrap(err, \"failed to write SerializableOrderedMap key to serializer\")", "}func",
      "valBytes, err := api.Encode(context.Background(), val)", "if err != nil",
      "seri.AbortIf(func(_ error) error {..})", "func{",
      "return ierrors.Wrap(err, \"failed to serialize SerializableOrderedMap value\")", "}func", "end",
      "seri.WriteBytes(valBytes, func(err error) error {..})", "func{",
      "return ierrors.Wrap(err, \"failed to write SerializableOrderedMap value to serializer\")", "}func",
      "return true", "}func", "return seri.Serialize()"] := rfl

open Hive.Gen.C11Stmts in
/-- `Decode` as written: the count is read into a `uint32`, the loop runs `mapSize` times, a key seen before is refused,
entries are `Set` into the receiver as they come. -/
theorem C11_stmts_SerializableOrderedMap_Decode : stmts_SerializableOrderedMap_Decode =
    ["func func(api *serix.API, b []byte) (bytesRead int, err error)", "var mapSize uint32",
      "bytesReadSize, err := api.Decode(context.Background(), b[bytesRead:], &mapSize)", "if err != nil", "return 0, err",
      "end", "bytesRead += bytesReadSize", "decodedKeys := make(map[K]struct{})", "range mapSize", "var key K",
      "bytesReadKey, err := api.Decode(context.Background(), b[bytesRead:], &key)", "if err != nil", "return 0, err", "end",
      "bytesRead += bytesReadKey", "if _, duplicate := decodedKeys[key]; duplicate",
      "return 0, ierrors.Errorf(\"duplicate key in serialized SerializableOrderedMap: %v\", key)", "end",
      "decodedKeys[key] = struct{}{}", "var value V",
      "bytesReadValue, err := api.Decode(context.Background(), b[bytesRead:], &value)", "if err != nil", "return 0, err",
      "end", "bytesRead += bytesReadValue", "o.Set(key, value)", "end", "return bytesRead, nil"] := rfl

/-- The codec of the line protocol (`encode`/`decode`, count = `le32 (length % 2^32)`) is the instance `w = 4` of the codec
with a count field of `w` bytes - the width the two pinned statements above have. -/
theorem C11_count_prefix_is_four_bytes (encK encV : Nat → Bytes) (decK decV : Dec) (m : AMap) (b : Bytes) :
    encodeW 4 encK encV m = encode encK encV m ∧ decodeW 4 decK decV m b = decode decK decV m b :=
  ⟨encodeW_four encK encV m, decodeW_four decK decV m b⟩

/-- **Round trip for every width of the count field**: a map with fewer than `256^w` entries (distinct keys, elements in
the codecs' domains) comes back from `Decode(Encode(m) ++ rest)` entry for entry, in order, with exactly the encoding's
length reported as consumed. -/
theorem C11_count_prefix_roundtrip {DK DV : Nat → Prop} {encK encV : Nat → Bytes} {decK decV : Dec}
    (w : Nat) (hK : Codec DK encK decK) (hV : Codec DV encV decV) (m : AMap) (hdom : ∀ p ∈ m, DK p.1 ∧ DV p.2)
    (hn : (AMap.keys m).Nodup) (hlen : m.length < 256 ^ w) (rest : Bytes) :
    decodeW w decK decV [] (encodeW w encK encV m ++ rest) = (m, some (encodeW w encK encV m).length) := by
  rw [decodeW_encodeW w hK hV m [] hdom hn hlen rest]
  have := AMap.foldl_set_append [] m (by simpa using hn)
  simp only [List.nil_append] at this
  rw [this]

/-- **… and the bound is sharp**: a map with exactly `256^w` entries is written with count 0, and `Decode` of its encoding
succeeds having read the `w` count bytes and nothing else - whatever the element codecs are.  For `w = 2` this is the
behaviour of seeded change C11-r6-1 at 65 536 entries (exhibited on the real code by the `wbig` cases). -/
theorem C11_count_prefix_wraps (w : Nat) (encK encV : Nat → Bytes) (decK decV : Dec) (m m0 : AMap)
    (hlen : m.length = 256 ^ w) (rest : Bytes) :
    decodeW w decK decV m0 (encodeW w encK encV m ++ rest) = (m0, some w) :=
  decodeW_wraps w encK encV decK decV m m0 hlen rest

example : (newSet [7]).length = 256 ^ 0 ∧ decodeW 0 (decLE 1) decVoid [] (encodeW 0 (encLE 1) encVoid (newSet [7])) = ([], some 0) := by
  decide

/-! ## weak iteration -/

/-- **Weak iteration.** A `ForEach` (`fwd = true`) or `ForEachReverse` (`fwd = false`) on the map
reached by any history, with arbitrary writers (`script`: per visit a list of `Set`/`Delete`/`Clear`,
run by the consumer or by other goroutines while the lock is released) between its steps: if it runs
to completion, the keys it passed to the consumer, restricted to the keys that were live throughout
(present at the start, never deleted or cleared meanwhile), are exactly those keys, each once, in
(reverse) insertion order.  Proved over the pointer-level model: the iterator follows `next`/`prev`
pointers of possibly unlinked elements; element identities strictly increase (decrease) along every
such pointer of an element that was live at some time during the iteration, and no such pointer ever
jumps over an element that stays live (`WInv`, `WInvR`). -/
theorem C11_weak_iteration (fwd : Bool) (h : List MOp) (fuel : Nat) (script : List (List MOp × Bool)) :
    let p0 := PMap.run h
    let r := PMap.weakWalk fwd fuel p0 (if fwd then p0.head else p0.tail) script
    r.2.2 = true →
    (r.2.1.map (·.2.1)).filter (PMap.liveThrough p0 script)
      = ((if fwd then AMap.keys (AMap.run h) else (AMap.keys (AMap.run h)).reverse)).filter (PMap.liveThrough p0 script) := by
  intro p0 r hdone
  obtain ⟨habs, hinv⟩ := PMap.run_refines h
  have hk : AMap.keys (AMap.run h) = AMap.keys p0.dict := by rw [← habs, PMap.keys_abs]
  cases fwd with
  | true => simp only [if_true] at *; rw [hk]; exact PMap.weak_iteration_fwd hinv fuel script hdone
  | false =>
    simp only [Bool.false_eq_true, if_false] at *; rw [hk]; exact PMap.weak_iteration_rev hinv fuel script hdone

/-- the `ForEach` instance, spelled out -/
theorem C11_weak_iteration_forward (h : List MOp) (fuel : Nat) (script : List (List MOp × Bool))
    (hdone : (PMap.weakWalk true fuel (PMap.run h) (PMap.run h).head script).2.2 = true) :
    ((PMap.weakWalk true fuel (PMap.run h) (PMap.run h).head script).2.1.map (·.2.1)).filter
        (PMap.liveThrough (PMap.run h) script)
      = (AMap.keys (AMap.run h)).filter (PMap.liveThrough (PMap.run h) script) :=
  C11_weak_iteration true h fuel script hdone

/-- the probe of section 7: while visiting key 1 the consumer deletes 1 and 2 and re-inserts 1 — the
iteration walks through the unlinked elements (it even reports the deleted key 2) and visits the
re-inserted 1 again, but the keys live throughout (0, 3, 4) come exactly once and in order -/
example :
    let h : List MOp := [.set 0 0, .set 1 1, .set 2 2, .set 3 3, .set 4 4]
    let script : List (List MOp × Bool) := [([], false), ([.del 1, .del 2, .set 1 5], false)]
    let r := PMap.weakWalk true 100 (PMap.run h) (PMap.run h).head script
    r.2.1.map (·.2.1) = [0, 1, 2, 3, 4, 1] ∧ r.2.2 = true ∧
    (r.2.1.map (·.2.1)).filter (PMap.liveThrough (PMap.run h) script) = [0, 3, 4] := by decide

/-- the same in reverse: while visiting key 3 the consumer deletes 3 and 2 and re-inserts 3 (at the end,
never seen by a reverse iteration); 4, 1, 0 stay live and come once each in reverse order -/
example :
    let h : List MOp := [.set 0 0, .set 1 1, .set 2 2, .set 3 3, .set 4 4]
    let script : List (List MOp × Bool) := [([], false), ([.del 3, .del 2, .set 3 5], false)]
    let r := PMap.weakWalk false 100 (PMap.run h) (PMap.run h).tail script
    r.2.1.map (·.2.1) = [4, 3, 2, 1, 0] ∧ r.2.2 = true ∧
    (r.2.1.map (·.2.1)).filter (PMap.liveThrough (PMap.run h) script) = [4, 1, 0] := by decide

/-- **One step of an iteration that is interleaved with writers.**  After any history, let `k` be a live key with
element `i` (the dictionary — in chain order — splits as `d1 ++ (k, i) :: d2`).  When `ForEach` stands on that entry and
reads its `next` pointer under the lock — after the consumer returned, whatever the consumer or other goroutines did
before that moment is part of the history — it moves on to the entry of the key that follows `k` in insertion order at
that moment, and ends if `k` is the last one; `ForEachReverse` moves to the key before `k`, and ends if `k` is the first.
So a key deleted while its predecessor was being visited is not visited, a key appended while the last entry is being
visited is.  (The Go oracle `iteration-step` checks exactly this on the real code.) -/
theorem C11_iteration_step (h : List MOp) (d1 d2 : List (Nat × Nat)) (k i : Nat)
    (hsplit : (PMap.run h).dict = d1 ++ (k, i) :: d2) :
    AMap.keys (AMap.run h) = AMap.keys d1 ++ k :: AMap.keys d2 ∧
    ((PMap.run h).stepCursor true i).map (PMap.keyOf (PMap.run h).heap) = (AMap.keys d2).head? ∧
    ((PMap.run h).stepCursor false i).map (PMap.keyOf (PMap.run h).heap) = (AMap.keys d1).getLast? :=
  PMap.iteration_step_run h d1 d2 k i hsplit

/-- the consumer of key 0 deleted key 1 (the history ends with that deletion): from 0 the iteration goes on to 2 -/
example : (PMap.run [.set 0 0, .set 1 1, .set 2 2, .del 1]).dict = [] ++ (0, 0) :: [(2, 2)] ∧
    ((PMap.run [.set 0 0, .set 1 1, .set 2 2, .del 1]).stepCursor true 0).map
      (PMap.keyOf (PMap.run [.set 0 0, .set 1 1, .set 2 2, .del 1]).heap) = some 2 := by decide

/-- **`s.DeleteAll(s)` — the argument is the receiver itself.**  The consumer of every entry deletes that very entry, so
the iteration always stands on an element that has just been unlinked and follows its stale `next` pointer.  On the map
reached by any history this visits every key exactly once in insertion order, runs to completion and leaves the map
empty — what the abstract model (`deleteAll` applied to the receiver's own elements, the way the line protocol treats an
aliased argument) says: nothing is left and every element is reported. -/
theorem C11_alias_deleteall (h : List MOp) (fuel : Nat) (hf : (AMap.run h).length < fuel) (s : ASet) :
    (let r := PMap.weakWalk true fuel (PMap.run h) (PMap.run h).head (PMap.delSelfScript (AMap.keys (AMap.run h)))
     r.2.1.map (·.2.1) = AMap.keys (AMap.run h) ∧ r.2.2 = true ∧ r.1.dict = []) ∧
    (deleteAll s (elems s)).1 = [] ∧ (∀ x, x ∈ elems (deleteAll s (elems s)).2 ↔ x ∈ elems s) :=
  ⟨PMap.deleteSelf_run h fuel hf, deleteAll_self s⟩

example : (AMap.run [.set 3 0, .set 1 0, .set 2 0, .del 1]).length < 5 ∧
    (PMap.weakWalk true 5 (PMap.run [.set 3 0, .set 1 0, .set 2 0, .del 1]) (PMap.run [.set 3 0, .set 1 0, .set 2 0, .del 1]).head
      (PMap.delSelfScript [3, 2])).2.1.map (·.2.1) = [3, 2] := by decide

/-- **`s.AddAll(s)` / `s.Apply(added = s)` — the argument is the receiver itself.**  The consumer of every entry `Set`s
that very entry again; `Set` of a live key only overwrites the value cell of its element.  On the map reached by any history
the interleaved iteration therefore visits every key exactly once in insertion order, runs to completion, and leaves the
dictionary (hence the key order) and the structural invariant as they were — what the abstract model (`addAll` applied to
the receiver's own elements) says: nothing is reported as added, no element appears or disappears.  With
`C11_alias_deleteall` this covers every self-aliased call that writes while it iterates (`Replace` reads its argument
completely before its first write, `HasAll`/`Equals`/`Intersect` do not write). -/
theorem C11_alias_addall (h : List MOp) (v fuel : Nat) (hf : (AMap.run h).length < fuel) (s : ASet) :
    (let r := PMap.weakWalk true fuel (PMap.run h) (PMap.run h).head (PMap.setSelfScript v (AMap.keys (AMap.run h)))
     r.2.1.map (·.2.1) = AMap.keys (AMap.run h) ∧ r.2.2 = true ∧ r.1.dict = (PMap.run h).dict ∧
     AMap.keys (PMap.abs r.1) = AMap.keys (AMap.run h) ∧ PMap.PInv r.1) ∧
    elems (addAll s (elems s)).2 = [] ∧ (∀ x, x ∈ elems (addAll s (elems s)).1 ↔ x ∈ elems s) :=
  ⟨PMap.setSelf_run h v fuel hf, addAll_self s⟩

example : (AMap.run [.set 3 0, .set 1 0, .set 2 0, .del 1]).length < 5 ∧
    (PMap.weakWalk true 5 (PMap.run [.set 3 0, .set 1 0, .set 2 0, .del 1]) (PMap.run [.set 3 0, .set 1 0, .set 2 0, .del 1]).head
      (PMap.setSelfScript 0 [3, 2])).2.1.map (·.2.1) = [3, 2] ∧
    addAll (newSet [3, 2]) [3, 2] = (newSet [3, 2], []) := by decide

/-! ## concurrency: every method returns -/
open Hive.Conc

/-- **No combination of Set methods can deadlock — for any number of sets.**  Locks: `A i` = `applyMutex` of set
`i`, `M i` = the `mutex` of its ordered map.  Any number of goroutines, each running an arbitrary well-formed lock
script (`WF0`: an `applyMutex` of whichever set is only acquired while the goroutine holds nothing at all, a map
mutex of whichever set only while it holds no map mutex, no re-entrant acquisition, `Lock()` not interleaved with
anything else, data accesses under a map mutex): in every configuration reachable under the permissive `RWMutex`
semantics (a reader may or may not get in while a writer is only pending), as long as some goroutine has not
finished some goroutine can move under the *strict* semantics (a pending writer blocks new readers, the behaviour
that makes a re-entrant `RLock` fatal).  Hence no reachable configuration is a deadlock.  *Why no cycle exists*:
all `applyMutex`es have rank 0 and are never nested, all map mutexes — the receiver's and every source's — are
leaves. -/
theorem C11_deadlock_free (scripts : List (List Act)) (hwf : ∀ s ∈ scripts, WF0 s)
    (c : Cfg Locks Th) (hr : Reach lockSysP (Locks.init, scripts.map Th.start) c) :
    ¬ Deadlock lockSys threadDone c := by
  rintro ⟨hstuck, t, ht, hnd⟩
  obtain ⟨u, hu, hstep⟩ := progress (linv_reach hwf hr) ⟨t, ht, hnd⟩
  exact hstep (hstuck u hu)

/-- The scripts of all `ds.Set` and `OrderedMap` methods (after the fixes) — for every receiver `i`, every source
set **including the receiver itself** (`s.AddAll(s)`, `s.DeleteAll(s)`, `s.Apply(mutations built from s)`,
`s.Replace(s)`, `s.HasAll(s)` …) and **crosswise** (`a.AddAll(b)` ‖ `b.AddAll(a)`), every argument size and every
outcome of their data-dependent branches — are well formed: a source only contributes its map mutex, one
`ForEach` step at a time.  So goroutines that call any sequence of such methods on any sets never deadlock, under the
strict semantics as well as under the permissive one. -/
theorem C11_deadlock_free_methods (threads : List (List (Nat × Call))) (c : Cfg Locks Th)
    (hr : Reach lockSys (Locks.init, (threads.map (fun cs => cs.flatMap (fun x => methodScript x.1 x.2))).map Th.start) c) :
    ¬ Deadlock lockSys threadDone c := by
  apply C11_deadlock_free _ _ c (reach_strict_permissive hr)
  intro s hs
  obtain ⟨cs, _, rfl⟩ := List.mem_map.1 hs
  exact wf_methods cs

example : WF0 (methodScript 0 (.deleteAll 0 [true, false, true]) ++ methodScript 0 (.apply 0 1 2 [true]) ++
    methodScript 1 (.replace 1 2 3) ++ methodScript 1 (.addAll 0 2) ++ methodScript 0 (.addAll 1 2)) := by decide

/-- **The defect that was fixed.**  `DeleteAll` as it was (the callback calls `s.Delete`, which takes
`applyMutex.RLock` again): goroutine 0 takes the read lock, goroutine 1 (`Apply`) announces its
`Lock()`, and now neither can move — a reachable deadlock of two goroutines; the old script is not
well formed. -/
theorem C11_old_deleteall_deadlock_witness :
    let c0 : Cfg Locks Th := (Locks.init, [Th.start (deleteAllOld 0 [true]), Th.start (methodScript 0 (.apply 1 1 1 []))])
    let c := runSched lockSys c0 [(0, 0), (1, 0)]
    Reach lockSys c0 c ∧ Deadlock lockSys threadDone c ∧ ¬ WF0 (deleteAllOld 0 [true]) := by
  refine ⟨runSched_reach _ _ _, ⟨stuck_of_stuckB (by decide), ?_⟩, by decide⟩
  exact ⟨_, List.mem_cons_self, by unfold threadDone; decide⟩

/-- `OrderedMap.Clone` must not iterate through `ForEach` while it holds the read lock: with a `Set`
announcing its `Lock()` between two of the nested `RLock`s nobody can move any more. (`Clone` as it is
— one `RLock` around a loop that reads the chain directly — is `methodScript i (.clone n)`, well formed.) -/
theorem C11_clone_reentrant_deadlock_witness :
    let c0 : Cfg Locks Th := (Locks.init, [Th.start (cloneReentrant 0 2), Th.start (methodScript 0 .mapSet)])
    let c := runSched lockSys c0 [(0, 0), (1, 0)]
    Reach lockSys c0 c ∧ Deadlock lockSys threadDone c ∧ ¬ WF0 (cloneReentrant 0 2) ∧
    WF0 (methodScript 0 (.clone 2)) := by
  refine ⟨runSched_reach _ _ _, ⟨stuck_of_stuckB (by decide), ?_⟩, by decide, by decide⟩
  exact ⟨_, List.mem_cons_self, by unfold threadDone; decide⟩

/-- **Taking the source's `applyMutex` is not allowed.**  An `AddAll` that read-locks the `applyMutex` of its
source while holding its own is not well formed, and both ways of going wrong are reachable deadlocks:
(1) aliasing `s.AddAll(s)`: the second `RLock` of the same mutex queues behind an `Apply` that announced its
`Lock()` in between; (2) crosswise `a.AddAll(b)` ‖ `b.AddAll(a)` with an `Apply` pending on each set: a lock-order
cycle between two `applyMutex`es. -/
theorem C11_source_applymutex_deadlock_witness :
    (let c0 : Cfg Locks Th := (Locks.init, [Th.start (addAllSourceLocked 0 0 1), Th.start (methodScript 0 (.apply 1 1 1 []))])
     let c := runSched lockSys c0 [(0, 0), (1, 0)]
     Reach lockSys c0 c ∧ Deadlock lockSys threadDone c) ∧
    (let c0 : Cfg Locks Th := (Locks.init, [Th.start (addAllSourceLocked 0 1 1), Th.start (addAllSourceLocked 1 0 1),
        Th.start (methodScript 0 (.apply 2 2 1 [])), Th.start (methodScript 1 (.apply 2 2 1 []))])
     let c := runSched lockSys c0 [(0, 0), (1, 0), (2, 0), (3, 0)]
     Reach lockSys c0 c ∧ Deadlock lockSys threadDone c) ∧
    ¬ WF0 (addAllSourceLocked 0 0 1) ∧ ¬ WF0 (addAllSourceLocked 0 1 1) ∧
    WF0 (methodScript 0 (.addAll 0 1)) ∧ WF0 (methodScript 0 (.addAll 1 1) ++ methodScript 1 (.addAll 0 1)) := by
  refine ⟨⟨runSched_reach _ _ _, stuck_of_stuckB (by decide), ?_⟩, ⟨runSched_reach _ _ _, stuck_of_stuckB (by decide), ?_⟩,
    by decide, by decide, by decide, by decide⟩
  · exact ⟨_, List.mem_cons_self, by unfold threadDone; decide⟩
  · exact ⟨_, List.mem_cons_self, by unfold threadDone; decide⟩

/-! ## concurrency: Apply/Compute/Replace are atomic w.r.t. each other -/

/-- **Mutual exclusion on `applyMutex`.**  In every reachable configuration of any pool of well-formed
goroutines at most one holds a given `applyMutex` for writing, and while one does nobody holds it for reading
(the same for every map mutex).  `Apply`/`Compute`/`Replace` on set `i` perform *all* their writes to set `i`
while holding `A i` for writing, `Add`/`Delete`/`AddAll`/`DeleteAll` all theirs while holding it for reading —
whatever their sources are: no write of another mutator can fall between two writes of an
`Apply`/`Compute`/`Replace`. -/
theorem C11_apply_atomic (scripts : List (List Act)) (hwf : ∀ s ∈ scripts, WF0 s)
    (c : Cfg Locks Th) (hr : Reach lockSysP (Locks.init, scripts.map Th.start) c) :
    (∀ l, cnt l .w c.2 ≤ 1 ∧ (cnt l .w c.2 = 1 → cnt l .r c.2 = 0)) ∧
    (∀ (i : Nat) (call : Call), call.isMutator = true →
      guardedBy i (if call.isAtomic then .w else .r) .none 0 none (methodScript i call) = true) :=
  ⟨fun l => exclusion (linv_reach hwf hr) l, guarded_methodScript⟩

example : guardedBy 0 .w .none 0 none (methodScript 0 (.apply 1 0 2 [true, false])) = true ∧
    guardedBy 0 .r .none 0 none (methodScript 0 (.deleteAll 0 [true])) = true ∧
    guardedBy 0 .r .none 0 none (methodScript 0 (.apply 1 1 1 [])) = false := by decide

/-! ## concurrency: single-element operations are linearizable -/

/-- **Linearizability of `Add`/`Delete`/`Has`/`Clear`.**  Any number of goroutines, each executing an
arbitrary sequence of these calls at the granularity lock – dictionary lookup – write – unlock: in
every reachable configuration the linearization log (one entry per call, appended by a step of that
very call, hence between its invocation and its response) replays on the sequential specification to
exactly the current contents with exactly the logged results; every result already returned to a
caller, and every result a call past its linearization point is going to return, is the logged one;
and at most one goroutine is inside a write section of `OrderedMap.mutex`. -/
theorem C11_single_linearizable (s0 : ASet) (hz : ∀ p ∈ s0, p.2 = 0) (progs : List (List SOp))
    (c : Cfg OSh OTh) (hr : Reach opSys ({ m := RW.free, set := s0, log := [] }, progs.map OTh.start) c) :
    replay s0 c.1.log = some c.1.set ∧
    (∀ t ∈ c.2, ∀ x ∈ t.rets, x ∈ c.1.log) ∧
    (∀ t ∈ c.2, ∀ x, pendingRet t = some x → x ∈ c.1.log) ∧
    c.2.countP (fun t => holdsW t.pc) ≤ 1 := by
  have h := oinv_reach hz hr
  refine ⟨h.lin, h.rets, h.pend, ?_⟩
  rw [← h.excl]; split <;> omega

example : ∀ p ∈ newSet [1, 2, 3], p.2 = 0 := by decide

/-- **The checker the driver runs on recorded histories is sound**: if it accepts, there is a
linearization — a permutation of the completed calls that the sequential specification executes with
exactly the recorded results and that respects the real-time order. -/
theorem C11_lincheck_sound (init : ASet) (cs : List HCall) (h : linearizable init cs = true) :
    ∃ order, LinWitness init cs order := linearizable_sound init cs h

example : linearizable (newSet [1]) [⟨.add 1, .bool false, 0, 3⟩, ⟨.del 1, .bool true, 1, 2⟩, ⟨.has 1, .bool false, 4, 5⟩] = true
    ∧ linearizable (newSet []) [⟨.has 1, .bool true, 0, 1⟩, ⟨.add 1, .bool true, 2, 3⟩] = false := by decide

/-- the reading of seeded C11-r6-2's author, decided by the checker: the factory of `Compute(+{4}, -current∩{1,2})` saw 2 in
the set, a `Delete(2)` inside the window reports `true`, `Compute` reports that it removed nothing.  With the factory's
observation recorded (`computeSaw`) no linearization exists; without it the three calls alone would be explained by
"Delete first". -/
example :
    linearizable (newSet [2, 3]) [⟨.computeSaw [4] [1, 2] [2], .mut [4] [], 1, 6⟩, ⟨.del 2, .bool true, 2, 3⟩,
      ⟨.del 4, .bool false, 4, 5⟩] = false ∧
    linearizable (newSet [2, 3]) [⟨.compute [4] [1, 2], .mut [4] [], 1, 6⟩, ⟨.del 2, .bool true, 2, 3⟩,
      ⟨.del 4, .bool false, 4, 5⟩] = true ∧
    linearizable (newSet [2, 3]) [⟨.computeSaw [4] [1, 2] [2], .mut [4] [2], 1, 3⟩, ⟨.del 2, .bool false, 2, 4⟩] = true := by decide

/-! ## regenerated lock skeletons

`Hive/Gen/C11_Skel.lean` is regenerated from the working tree on every run (`harness/tools/extract-sync`).
The lock scripts of `Hive/Model/OMapConc.lean` (`methodScript`, `omSet`, `omDelete`, `omRead`, `omClear`)
were written against exactly these skeletons: `Add`/`Delete`/`AddAll`/`DeleteAll` take `applyMutex.RLock`
once and call `OrderedMap.Set` / `OrderedMap.Delete` (never a `set` method that locks again),
`Apply`/`Compute`/`Replace` take `applyMutex.Lock`, the ordered-map methods take only `mutex`, and
`ForEach` releases it before every consumer call.  A change of the code's locking structure breaks
these obligations. -/

open Hive.Gen.C11Skel in
theorem C11_skeleton_set_Add : skel_set_Add =
    ["rlock s.applyMutex", "defer runlock s.applyMutex", "call s.Set", "return"] := by decide

open Hive.Gen.C11Skel in
theorem C11_skeleton_set_AddAll : skel_set_AddAll =
    ["rlock s.applyMutex", "defer runlock s.applyMutex", "func{", "call s.Set", "if{",
      "call addedElements.Add", "}if", "return", "}func", "call elements.ForEach", "return"] := by decide

open Hive.Gen.C11Skel in
theorem C11_skeleton_set_Delete : skel_set_Delete =
    ["rlock s.applyMutex", "defer runlock s.applyMutex", "call s.OrderedMap.Delete", "return"] := by decide

open Hive.Gen.C11Skel in
theorem C11_skeleton_set_DeleteAll : skel_set_DeleteAll =
    ["rlock s.applyMutex", "defer runlock s.applyMutex", "func{", "call s.OrderedMap.Delete", "if{",
      "call removedElements.Add", "}if", "return", "}func", "call other.ForEach", "return"] := by decide

open Hive.Gen.C11Skel in
theorem C11_skeleton_set_Apply : skel_set_Apply =
    ["lock s.applyMutex", "defer unlock s.applyMutex", "call s.apply", "return"] := by decide

open Hive.Gen.C11Skel in
theorem C11_skeleton_set_Compute : skel_set_Compute =
    ["lock s.applyMutex", "defer unlock s.applyMutex", "call s.apply", "return"] := by decide

open Hive.Gen.C11Skel in
theorem C11_skeleton_set_Replace : skel_set_Replace =
    ["lock s.applyMutex", "defer unlock s.applyMutex", "call s.ToSlice", "call elements.ToSlice", "call s.Clear", "for{",
      "call s.Set", "}for", "for{", "call s.Has", "if{", "call removedElements.Add", "}if", "}for", "return"] := by decide

open Hive.Gen.C11Skel in
theorem C11_skeleton_set_apply : skel_set_apply =
    ["func{", "call s.Set", "if{", "call addedElements.Add", "}if", "}func",
      "call mutations.AddedElements().Range", "func{", "call s.OrderedMap.Delete", "if{",
      "call removedElements.Add", "}if", "}func", "call mutations.DeletedElements().Range", "return"] := by decide

open Hive.Gen.C11Skel in
theorem C11_skeleton_OrderedMap_Set : skel_OrderedMap_Set =
    ["lock o.mutex", "defer unlock o.mutex", "call o.dictionary.Get", "if{", "return", "}if", "if{", "}else{",
      "}if", "call o.dictionary.Set", "return"] := by decide

open Hive.Gen.C11Skel in
theorem C11_skeleton_OrderedMap_Delete : skel_OrderedMap_Delete =
    ["call o.Get", "if{", "return", "}if", "lock o.mutex", "defer unlock o.mutex", "call o.dictionary.Get",
      "if{", "return", "}if", "call o.dictionary.Delete", "if{", "}else{", "}if", "if{", "}else{", "}if",
      "return"] := by decide

open Hive.Gen.C11Skel in
theorem C11_skeleton_OrderedMap_Get : skel_OrderedMap_Get =
    ["rlock o.mutex", "defer runlock o.mutex", "call o.dictionary.Get", "if{", "return", "}if", "return"] := by decide

open Hive.Gen.C11Skel in
theorem C11_skeleton_OrderedMap_Has : skel_OrderedMap_Has =
    ["rlock o.mutex", "defer runlock o.mutex", "call o.dictionary.Has", "return"] := by decide

open Hive.Gen.C11Skel in
theorem C11_skeleton_OrderedMap_Clear : skel_OrderedMap_Clear =
    ["if{", "return", "}if", "lock o.mutex", "defer unlock o.mutex"] := by decide

open Hive.Gen.C11Skel in
theorem C11_skeleton_OrderedMap_ForEach : skel_OrderedMap_ForEach =
    ["if{", "return", "}if", "rlock o.mutex", "runlock o.mutex", "for{", "if{", "return", "}if",
      "rlock o.mutex", "runlock o.mutex", "}for", "return"] := by decide

open Hive.Gen.C11Skel in
theorem C11_skeleton_OrderedMap_ForEachReverse : skel_OrderedMap_ForEachReverse =
    ["if{", "return", "}if", "rlock o.mutex", "runlock o.mutex", "for{", "if{", "return", "}if",
      "rlock o.mutex", "runlock o.mutex", "}for", "return"] := by decide

/-! `Clone` holds `mutex.RLock` over a plain `for` loop that only calls `Set` on the new map: no method of the
receiver (in particular not `ForEach`) is called while the lock is held. -/
open Hive.Gen.C11Skel in
theorem C11_skeleton_OrderedMap_Clone : skel_OrderedMap_Clone =
    ["if{", "return", "}if", "rlock o.mutex", "defer runlock o.mutex", "for{", "call cloned.Set", "}for", "return"] := by decide

open Hive.Gen.C11Skel in
theorem C11_skeleton_OrderedMap_Head : skel_OrderedMap_Head =
    ["rlock o.mutex", "defer runlock o.mutex", "if{", "return", "}if", "return"] := by decide

open Hive.Gen.C11Skel in
theorem C11_skeleton_OrderedMap_Tail : skel_OrderedMap_Tail =
    ["rlock o.mutex", "defer runlock o.mutex", "if{", "return", "}if", "return"] := by decide

open Hive.Gen.C11Skel in
theorem C11_skeleton_OrderedMap_Size : skel_OrderedMap_Size =
    ["if{", "return", "}if", "rlock o.mutex", "defer runlock o.mutex", "return"] := by decide

open Hive.Gen.C11Skel in
theorem C11_skeleton_OrderedMap_IsEmpty : skel_OrderedMap_IsEmpty =
    ["call o.Size", "return"] := by decide

/-! ### the dictionary layer and the shapes of the anchored types

`ShrinkingMap.delete` counts, removes, asks `shouldShrink` and calls `shrink` in this order; `shouldShrink` has the
three guarded early returns of `Hive.OMap.shouldShrink`; `Delete`/`Set`/`Compute`/`Clear` hold the map's own mutex
exclusively, `Get`/`Has` shared — leaves below the ordered map's mutex.  The type facts pin the fields the models are
written against (`PMap`: `head`/`tail`/`dictionary`/`size`; `Node`: `key`/`value`/`prev`/`next`; `DMap.dk`:
`deletedKeys int`; `SOpts`; one `applyMutex` next to the embedded readable set; the arithmetic's counter type `int`). -/

open Hive.Gen.C11Skel in
theorem C11_skeleton_ShrinkingMap_delete : skel_ShrinkingMap_delete =
    ["if{", "return", "}if", "helper delete", "call s.shouldShrink", "if{", "call s.shrink", "}if", "return"] := by decide

open Hive.Gen.C11Skel in
theorem C11_skeleton_ShrinkingMap_shouldShrink : skel_ShrinkingMap_shouldShrink =
    ["if{", "return", "}if", "if{", "if{", "return", "}if", "if{", "return", "}if", "}if", "if{",
      "if{", "return", "}if", "}if", "return"] := by decide

open Hive.Gen.C11Skel in
theorem C11_skeleton_ShrinkingMap_shrink : skel_ShrinkingMap_shrink = ["for{", "}for"] := by decide

open Hive.Gen.C11Skel in
theorem C11_skeleton_ShrinkingMap_Delete : skel_ShrinkingMap_Delete =
    ["lock s.mutex", "defer unlock s.mutex", "if{", "return", "}if", "call s.delete", "return"] := by decide

open Hive.Gen.C11Skel in
theorem C11_skeleton_ShrinkingMap_Set : skel_ShrinkingMap_Set =
    ["lock s.mutex", "defer unlock s.mutex", "return"] := by decide

open Hive.Gen.C11Skel in
theorem C11_skeleton_ShrinkingMap_Get : skel_ShrinkingMap_Get =
    ["rlock s.mutex", "defer runlock s.mutex", "return"] := by decide

open Hive.Gen.C11Skel in
theorem C11_skeleton_ShrinkingMap_Has : skel_ShrinkingMap_Has =
    ["rlock s.mutex", "defer runlock s.mutex", "return"] := by decide

open Hive.Gen.C11Skel in
theorem C11_skeleton_ShrinkingMap_Compute : skel_ShrinkingMap_Compute =
    ["lock s.mutex", "defer unlock s.mutex", "return"] := by decide

open Hive.Gen.C11Skel in
theorem C11_skeleton_ShrinkingMap_Clear : skel_ShrinkingMap_Clear =
    ["lock s.mutex", "defer unlock s.mutex"] := by decide

open Hive.Gen.C11Skel in
theorem C11_skeleton_setArithmetic_elementsCollector : skel_setArithmetic_elementsCollector =
    ["func{", "func{", "return", "}func", "call s.Compute", "call opposingSet.Delete", "if{", "call targetSet.Add", "}if",
      "}func", "return"] := by decide

open Hive.Gen.C11Skel in
theorem C11_skeleton_type_OrderedMap : skel_type_OrderedMap =
    ["struct", "head *Element[K,V]", "tail *Element[K,V]", "dictionary *shrinkingmap.ShrinkingMap[K,*Element[K,V]]",
      "size int", "mutex sync.RWMutex"] := by decide

open Hive.Gen.C11Skel in
theorem C11_skeleton_type_Element : skel_type_Element =
    ["struct", "key K", "value V", "prev *Element[K,V]", "next *Element[K,V]"] := by decide

open Hive.Gen.C11Skel in
theorem C11_skeleton_type_SerializableOrderedMap : skel_type_SerializableOrderedMap =
    ["struct", "embedded *orderedmap.OrderedMap[K,V]"] := by decide

open Hive.Gen.C11Skel in
theorem C11_skeleton_type_set : skel_type_set =
    ["struct", "embedded *readableSet[ElementType]", "applyMutex sync.RWMutex"] := by decide

open Hive.Gen.C11Skel in
theorem C11_skeleton_type_readableSet : skel_type_readableSet =
    ["struct", "embedded *serializableorderedmap.SerializableOrderedMap[T,types.Empty]"] := by decide

open Hive.Gen.C11Skel in
theorem C11_skeleton_type_setMutations : skel_type_setMutations =
    ["struct", "addedElements Set[ElementType]", "deletedElements Set[ElementType]"] := by decide

open Hive.Gen.C11Skel in
theorem C11_skeleton_type_setArithmetic : skel_type_setArithmetic =
    ["struct", "embedded *shrinkingmap.ShrinkingMap[ElementType,int]"] := by decide

open Hive.Gen.C11Skel in
theorem C11_skeleton_type_ShrinkingMap : skel_type_ShrinkingMap =
    ["struct", "m map[K]V", "deletedKeys int", "opts *Options", "mutex sync.RWMutex"] := by decide

open Hive.Gen.C11Skel in
theorem C11_skeleton_type_Options : skel_type_Options =
    ["struct", "shrinkingThresholdRatio float32", "shrinkingThresholdCount int"] := by decide

/-! ### the read side of `ds.Set` and the codec (every method of the regenerated method set has a skeleton)

`HasAll`/`Equals`/`Intersect`/`Filter`/`ToSlice`/`Clone`/`String`/`Iterator` go through `readableSet.ForEach` →
`OrderedMap.ForEach` (lock released around every callback), `Is` = `Size` + `Has` (two separate locked reads), `Encode` =
`Size` + `ForEach`, `Decode` = one `Set` per entry; none of them holds a lock while calling another method. -/

open Hive.Gen.C11Skel in
theorem C11_skeleton_set_ReadOnly : skel_set_ReadOnly =
    ["return"] := by decide

open Hive.Gen.C11Skel in
theorem C11_skeleton_readableSet_HasAll : skel_readableSet_HasAll =
    ["if{", "return", "}if", "func{", "call r.Has", "if{", "return", "}if", "return", "}func",
     "call other.ForEach", "return"] := by decide

open Hive.Gen.C11Skel in
theorem C11_skeleton_readableSet_ForEach : skel_readableSet_ForEach =
    ["if{", "return", "}if", "func{", "if{", "return", "}if", "return", "}func", "call r.OrderedMap.ForEach",
     "return"] := by decide

open Hive.Gen.C11Skel in
theorem C11_skeleton_readableSet_Range : skel_readableSet_Range =
    ["if{", "func{", "return", "}func", "call r.OrderedMap.ForEach", "}if"] := by decide

open Hive.Gen.C11Skel in
theorem C11_skeleton_readableSet_Intersect : skel_readableSet_Intersect =
    ["call r.Filter", "return"] := by decide

open Hive.Gen.C11Skel in
theorem C11_skeleton_readableSet_Filter : skel_readableSet_Filter =
    ["func{", "if{", "call filtered.Add", "}if", "return", "}func", "call r.ForEach", "return"] := by decide

open Hive.Gen.C11Skel in
theorem C11_skeleton_readableSet_Equals : skel_readableSet_Equals =
    ["call r.Size", "call other.Size", "call r.HasAll", "return"] := by decide

open Hive.Gen.C11Skel in
theorem C11_skeleton_readableSet_Any : skel_readableSet_Any =
    ["if{", "func{", "return", "}func", "call r.OrderedMap.ForEach", "}if", "return"] := by decide

open Hive.Gen.C11Skel in
theorem C11_skeleton_readableSet_Is : skel_readableSet_Is =
    ["call r.Size", "call r.Has", "return"] := by decide

open Hive.Gen.C11Skel in
theorem C11_skeleton_readableSet_Iterator : skel_readableSet_Iterator =
    ["call r.ToSlice", "call walker.New[T](false).PushAll", "return"] := by decide

open Hive.Gen.C11Skel in
theorem C11_skeleton_readableSet_Clone : skel_readableSet_Clone =
    ["call NewSet[T]().AddAll", "return"] := by decide

open Hive.Gen.C11Skel in
theorem C11_skeleton_readableSet_ToSlice : skel_readableSet_ToSlice =
    ["if{", "func{", "return", "}func", "call r.ForEach", "}if", "return"] := by decide

open Hive.Gen.C11Skel in
theorem C11_skeleton_readableSet_String : skel_readableSet_String =
    ["func{", "return", "}func", "call r.ForEach", "return"] := by decide

open Hive.Gen.C11Skel in
theorem C11_skeleton_SerializableOrderedMap_Encode : skel_SerializableOrderedMap_Encode =
    ["call o.Size", "func{", "return", "}func", "func{", "helper Encode", "if{", "func{", "return", "}func", "}if",
     "func{", "return", "}func", "helper Encode", "if{", "func{", "return", "}func", "}if", "func{", "return",
     "}func", "return", "}func", "call o.ForEach", "return"] := by decide

open Hive.Gen.C11Skel in
theorem C11_skeleton_SerializableOrderedMap_Decode : skel_SerializableOrderedMap_Decode =
    ["helper Decode", "if{", "return", "}if", "for{", "helper Decode", "if{", "return", "}if", "if{", "return",
     "}if", "helper Decode", "if{", "return", "}if", "call o.Set", "}for", "return"] := by decide

/-! ## regenerated method sets: which declaration a selector reaches through the embedding chain

`Hive/Gen/C11_Methods.lean` is regenerated on every run by `harness/c11/methodset` (go/ast over `ds/set_impl.go`,
`ds/serializableorderedmap`, `ds/orderedmap`: `set` embeds `*readableSet` embeds `*SerializableOrderedMap` embeds
`*OrderedMap`).  Go resolves `s.Delete(x)` to the shallowest declaration: were `set.Delete` removed (or renamed), every
caller would silently get the promoted `OrderedMap.Delete`, which does not take `applyMutex` (seeded C11-r6-2) — the
program still compiles; the entry `("Delete", "set", 0)` below becomes `("Delete", "OrderedMap", 3)`.  Each tuple is
(method, declaring type, embedding depth); `hidden_*` are the deeper declarations that a shallower one overrides. -/

open Hive.Gen.C11Methods in
theorem C11_methodset_set : methods_set =
    [("Add", "set", 0), ("AddAll", "set", 0), ("Any", "readableSet", 1), ("Apply", "set", 0),
     ("Clear", "OrderedMap", 3), ("Clone", "readableSet", 1), ("Compute", "set", 0),
     ("Decode", "SerializableOrderedMap", 2), ("Delete", "set", 0), ("DeleteAll", "set", 0),
     ("Encode", "SerializableOrderedMap", 2), ("Equals", "readableSet", 1), ("Filter", "readableSet", 1),
     ("ForEach", "readableSet", 1), ("ForEachReverse", "OrderedMap", 3), ("Get", "OrderedMap", 3),
     ("Has", "OrderedMap", 3), ("HasAll", "readableSet", 1), ("Head", "OrderedMap", 3),
     ("Intersect", "readableSet", 1), ("Is", "readableSet", 1), ("IsEmpty", "OrderedMap", 3),
     ("Iterator", "readableSet", 1), ("Range", "readableSet", 1), ("ReadOnly", "set", 0), ("Replace", "set", 0),
     ("Set", "OrderedMap", 3), ("Size", "OrderedMap", 3), ("String", "readableSet", 1), ("Tail", "OrderedMap", 3),
     ("ToSlice", "readableSet", 1), ("apply", "set", 0)] ∧
    ambiguous_set = [] ∧ unresolved_set = [] ∧ hidden_set = ["OrderedMap.Clone@3", "OrderedMap.Delete@3", "OrderedMap.ForEach@3"] := by decide

open Hive.Gen.C11Methods in
theorem C11_methodset_readableSet : methods_readableSet =
    [("Any", "readableSet", 0), ("Clear", "OrderedMap", 2), ("Clone", "readableSet", 0),
     ("Decode", "SerializableOrderedMap", 1), ("Delete", "OrderedMap", 2), ("Encode", "SerializableOrderedMap", 1),
     ("Equals", "readableSet", 0), ("Filter", "readableSet", 0), ("ForEach", "readableSet", 0),
     ("ForEachReverse", "OrderedMap", 2), ("Get", "OrderedMap", 2), ("Has", "OrderedMap", 2),
     ("HasAll", "readableSet", 0), ("Head", "OrderedMap", 2), ("Intersect", "readableSet", 0),
     ("Is", "readableSet", 0), ("IsEmpty", "OrderedMap", 2), ("Iterator", "readableSet", 0),
     ("Range", "readableSet", 0), ("Set", "OrderedMap", 2), ("Size", "OrderedMap", 2),
     ("String", "readableSet", 0), ("Tail", "OrderedMap", 2), ("ToSlice", "readableSet", 0)] ∧
    ambiguous_readableSet = [] ∧ unresolved_readableSet = [] ∧ hidden_readableSet = ["OrderedMap.Clone@2", "OrderedMap.ForEach@2"] := by decide

open Hive.Gen.C11Methods in
theorem C11_methodset_SerializableOrderedMap : methods_SerializableOrderedMap =
    [("Clear", "OrderedMap", 1), ("Clone", "OrderedMap", 1), ("Decode", "SerializableOrderedMap", 0),
     ("Delete", "OrderedMap", 1), ("Encode", "SerializableOrderedMap", 0), ("ForEach", "OrderedMap", 1),
     ("ForEachReverse", "OrderedMap", 1), ("Get", "OrderedMap", 1), ("Has", "OrderedMap", 1),
     ("Head", "OrderedMap", 1), ("IsEmpty", "OrderedMap", 1), ("Set", "OrderedMap", 1), ("Size", "OrderedMap", 1),
     ("Tail", "OrderedMap", 1)] ∧
    ambiguous_SerializableOrderedMap = [] ∧ unresolved_SerializableOrderedMap = [] ∧ hidden_SerializableOrderedMap = [] := by decide

open Hive.Gen.C11Methods in
theorem C11_methodset_OrderedMap : methods_OrderedMap =
    [("Clear", "OrderedMap", 0), ("Clone", "OrderedMap", 0), ("Delete", "OrderedMap", 0),
     ("ForEach", "OrderedMap", 0), ("ForEachReverse", "OrderedMap", 0), ("Get", "OrderedMap", 0),
     ("Has", "OrderedMap", 0), ("Head", "OrderedMap", 0), ("IsEmpty", "OrderedMap", 0), ("Set", "OrderedMap", 0),
     ("Size", "OrderedMap", 0), ("Tail", "OrderedMap", 0)] ∧
    ambiguous_OrderedMap = [] ∧ unresolved_OrderedMap = [] ∧ hidden_OrderedMap = [] := by decide

/-- **Nothing outside `set` can name `applyMutex`.**  The go/ast reading of every method body reachable through the
method sets of the embedded types (`readableSet`, `SerializableOrderedMap`, `OrderedMap`): no lock call on, and no other
mention of, a field called `applyMutex`.  So a selector that resolves below `set` never takes the lock. -/
theorem C11_methodset_applymutex_confined :
    Hive.Gen.C11Methods.applymutex_readableSet.all (fun p => p.2 == []) = true ∧
    Hive.Gen.C11Methods.applymutex_SerializableOrderedMap.all (fun p => p.2 == []) = true ∧
    Hive.Gen.C11Methods.applymutex_OrderedMap.all (fun p => p.2 == []) = true := by decide

/-- **The per-method table "takes `applyMutex`: R / W / not at all"**, computed from the regenerated method set of `set`
and the regenerated lock skeleton of the DECLARING method of each entry (`modeOfSkel`: the lock is the first action and its
release the `defer` right behind it, or the field is never mentioned; anything else would be `bad`).  `Add`, `AddAll`,
`Delete`, `DeleteAll` hold it shared, `Apply`, `Compute`, `Replace` exclusively; every other selectable method — the whole
read side, `Clear`, `Set`, `Get`, `Encode`, `Decode` (promoted from the ordered map) and the helper `apply` — does not
touch it.  This is the table behind the reading "single-element operations next to bulk operations" in design/C11.md:
`Add`/`Delete` are serialised with the bulk operations, `Has`/`Size`/iteration are not.  The second conjunct: the
method-set tool's own reading of the bodies (any receiver name, also `TryLock` and non-call mentions) agrees. -/
theorem C11_applymutex_table :
    modeTable Hive.Gen.C11Methods.methods_set =
      [("Add", "set", some .R), ("AddAll", "set", some .R), ("Any", "readableSet", some .none), ("Apply", "set", some .W),
       ("Clear", "OrderedMap", some .none), ("Clone", "readableSet", some .none), ("Compute", "set", some .W),
       ("Decode", "SerializableOrderedMap", some .none), ("Delete", "set", some .R), ("DeleteAll", "set", some .R),
       ("Encode", "SerializableOrderedMap", some .none), ("Equals", "readableSet", some .none),
       ("Filter", "readableSet", some .none), ("ForEach", "readableSet", some .none),
       ("ForEachReverse", "OrderedMap", some .none), ("Get", "OrderedMap", some .none), ("Has", "OrderedMap", some .none),
       ("HasAll", "readableSet", some .none), ("Head", "OrderedMap", some .none), ("Intersect", "readableSet", some .none),
       ("Is", "readableSet", some .none), ("IsEmpty", "OrderedMap", some .none), ("Iterator", "readableSet", some .none),
       ("Range", "readableSet", some .none), ("ReadOnly", "set", some .none), ("Replace", "set", some .W),
       ("Set", "OrderedMap", some .none), ("Size", "OrderedMap", some .none), ("String", "readableSet", some .none),
       ("Tail", "OrderedMap", some .none), ("ToSlice", "readableSet", some .none), ("apply", "set", some .none)] ∧
    Hive.Gen.C11Methods.applymutex_set.map (fun p => (p.1, modeOfUse p.2)) =
      (modeTable Hive.Gen.C11Methods.methods_set).map (fun t => (t.1, t.2.2.getD .bad)) := by decide

/-- **No method re-enters `applyMutex`, and the unlocked helper is only reached under the write lock** — derived from the
regenerated facts, not from a literal comparison.  For every method declared on `set`: each call it makes on its own
receiver (`call s.X` in its skeleton, callbacks included) resolves through the regenerated method set; if it resolves to
another method declared on `set`, that method's skeleton never mentions `applyMutex`, and so on transitively
(`reentryFree`; methods declared below `set` cannot name the field, `C11_methodset_applymutex_confined`).  The pre-fix
`DeleteAll` (callback calls `s.Delete`, mode `R`) and an `AddAll` whose callback calls `s.Add` fail exactly this.  And every
method whose skeleton calls `s.apply` (the helper that writes without locking) holds the lock exclusively. -/
theorem C11_no_reentrant_applymutex :
    (Hive.Gen.C11Methods.methods_set.filter (fun m => m.2.1 == "set")).all (fun m => reentryFree 8 m.1) = true ∧
    (Hive.Gen.C11Methods.methods_set.filter (fun m => m.2.1 == "set")).all (fun m =>
      match skelTable.lookup ("set", m.1) with
      | some sk => !(selfCalls (receiverOf m.1) sk).contains "apply" || modeOfSkel sk == .W
      | none => false) = true := by decide

/-- the old `DeleteAll` skeleton is rejected by the same reading: `s.Delete` resolves to `set.Delete`, which takes the lock -/
example : (selfCalls "s" ["rlock s.applyMutex", "defer runlock s.applyMutex", "func{", "call s.Delete", "}func"]).all (fun path =>
    match resolveOnSet path with
    | some (decl, n) => decl != "set" || (skelTable.lookup ("set", n)).map modeOfSkel == some AMode.none
    | none => false) = false := by decide

/-- **The two inner mutexes are leaves** — derived from the regenerated skeletons, for every method of the regenerated
method set of `OrderedMap`: while `o.mutex` is held (from `Lock`/`RLock` to the matching release; a deferred release holds
it to the end; callbacks included) the only calls on the receiver go to `o.dictionary` and are among `Get`/`Set`/`Has`/
`Delete` of the `ShrinkingMap`; and for each `ShrinkingMap` method used here and by `SetArithmetic`: while `s.mutex` is held
only the helpers `delete`/`shouldShrink`/`shrink` are called, whose skeletons never touch the mutex (transitively).  This is
the hypothesis "every map mutex is a leaf" of the lock scripts (`WF`), and what a `Clone` that iterates through `o.ForEach`
under its read lock violates (`C11_clone_reentrant_deadlock_witness`). -/
theorem C11_no_nested_leaf_mutex :
    Hive.Gen.C11Methods.methods_OrderedMap.all (fun m =>
      match skelTable.lookup ("OrderedMap", m.1) with
      | some sk => (heldSelfCalls "o" "mutex" false sk).all (fun p =>
          ["dictionary.Get", "dictionary.Set", "dictionary.Has", "dictionary.Delete"].contains p)
      | none => false) = true ∧
    ["Set", "Get", "Has", "Compute", "Delete", "Clear"].all (fun n =>
      match shrinkSkelTable.lookup n with
      | some sk => (heldSelfCalls "s" "mutex" false sk).all (shrinkHelperLockFree 4)
      | none => false) = true := by decide

/-- a `Clone` that iterates through `o.ForEach` while holding the read lock is rejected by the same reading -/
example : heldSelfCalls "o" "mutex" false
    ["rlock o.mutex", "defer runlock o.mutex", "func{", "call cloned.Set", "}func", "call o.ForEach", "return"] = ["ForEach"] := by
  decide

/-- **Every selectable method is one of the modelled lock scripts.**  For every entry of the regenerated method sets of
`set` and `OrderedMap` (hence of the two types in between) there is a list of `Call`s — the alphabet of `methodScript`, over
which `C11_deadlock_free_methods` (no deadlock for any pool of goroutines running any sequences of calls on any sets) and
`C11_apply_atomic` quantify — and what the model says about `applyMutex` for those calls (`Call.isAtomic` ⇒ all writes
under the exclusive lock, `Call.isMutator` ⇒ under the shared lock, readers and direct map calls: not at all) is what the
regenerated skeleton of the declaring method does.  A new method, or one that moves to another declaring type, has no
entry and breaks this obligation. -/
theorem C11_methodset_modelled :
    (Hive.Gen.C11Methods.methods_set ++ Hive.Gen.C11Methods.methods_OrderedMap).all (fun m =>
      (modelOf (m.2.1, m.1)).isSome &&
      (modelOf (m.2.1, m.1)).map modeOfCalls == (skelTable.lookup (m.2.1, m.1)).map modeOfSkel) = true := by decide

example : modeOfCalls [.apply 1 1 1 [true]] = .W ∧ modeOfCalls [.deleteAll 0 [true, false]] = .R ∧
    modeOfCalls [.reader 3, .mapSet, .clear] = .none := by decide

end Hive.OMap
