import Hive.Proofs.DListObs
import Hive.Proofs.DListCode
import Hive.Proofs.DListConc
import Hive.Gen.C10_Skel
/-!
# C10 — `ds.List` behaves exactly like a reference doubly-linked list (Go's `container/list`)

Property theorems only.  Model: `Hive/Model/DList.lean` — a heap of `{prev, next, owner, val}` nodes
with two sentinel-rooted lists, every operation written as the loads and stores of
ds/list_impl.go (after the two `fix:` commits, see design/C10.md).  Specification:
`Hive/Spec/DList.lean` — two sequences of handles with `container/list`'s semantics.  `abs` forgets
the pointers; `WF` is the ring invariant (Hive/Proofs/DListWF.lean).

The only hypothesis on histories is `okRun`: no operation is handed an element that was in a list
when `Init` was called on that list (both libraries leave such elements pointing into the cleared
list; their use is unspecified and can corrupt the ring).
-/
namespace Hive.DList

/-- **Ring well-formedness is an invariant**: every operation — with live, removed or foreign handle
arguments — takes a well-formed heap to a well-formed heap. -/
theorem C10_wf_preserved (s : St) (op : Op) (w : WF s) (hok : OpOk s op) : WF (step s op).1 :=
  (step_ok w op hok).1

/-- **Refinement, one step**: PushFront, PushBack, InsertBefore, InsertAfter, Remove, MoveToFront,
MoveToBack, MoveBefore, MoveAfter, PushBackList, PushFrontList (self-pushes included) and Init return
what the abstract list returns and commute with the abstraction. -/
theorem C10_refines (s : St) (op : Op) (w : WF s) (hok : OpOk s op) :
    (step s op).2 = (sstep (abs s) op).2 ∧ abs (step s op).1 = (sstep (abs s) op).1 :=
  (step_ok w op hok).2

/-- **Refinement, every history** from two freshly created lists: same results, same final abstract
state, and the final heap is well-formed. -/
theorem C10_refines_run (ops : List Op) (hok : okRun sinit ops) :
    (run init ops).2 = (srun sinit ops).2 ∧ abs (run init ops).1 = (srun sinit ops).1
      ∧ WF (run init ops).1 := by
  have := run_refines ops init wf_init (by rw [abs_init]; exact hok)
  rw [abs_init] at this
  exact ⟨this.2.1, this.2.2, this.1⟩

/-- **Removed and foreign handles are no-ops**, exactly as `container/list`'s `e.list != l` guard: a
handle that is not an element of list `l` (it was removed, or it sits in the other list) leaves the
whole state — both rings, both lengths — unchanged in every handle-taking operation; `Remove` still
returns the handle's value, the inserts return `nil`. -/
theorem C10_foreign_noop (s : St) (w : WF s) (l : Bool) (e : Nat) (he : e ∉ s.seq l) (hs : e ∉ s.stale) :
    step s (.remove l e) = (s, .value (s.heap e).val) ∧
    (∀ v, step s (.insertBefore l v e) = (s, .nil)) ∧
    (∀ v, step s (.insertAfter l v e) = (s, .nil)) ∧
    step s (.moveToFront l e) = (s, .ok) ∧
    step s (.moveToBack l e) = (s, .ok) ∧
    (∀ m, step s (.moveBefore l e m) = (s, .ok) ∧ step s (.moveBefore l m e) = (s, .ok)) ∧
    (∀ m, step s (.moveAfter l e m) = (s, .ok) ∧ step s (.moveAfter l m e) = (s, .ok)) := by
  have ho := w.not_owned he hs
  refine ⟨?_, ?_, ?_, ?_, ?_, ?_, ?_⟩
  · simp [step, ho]
  · intro v; simp [step, ho]
  · intro v; simp [step, ho]
  · simp [step, ho]
  · simp [step, ho]
  · intro m; simp [step, ho]
  · intro m; simp [step, ho]

/-- The abstract specification agrees: such calls do not change the abstract lists either. -/
theorem C10_foreign_noop_spec (t : SSt) (l : Bool) (e : Nat) (he : e ∉ t.lst l) :
    (sstep t (.remove l e)).1 = t ∧ (∀ v, sstep t (.insertBefore l v e) = (t, .nil)) ∧
    (∀ v, sstep t (.insertAfter l v e) = (t, .nil)) ∧ (sstep t (.moveToFront l e)).1 = t ∧
    (sstep t (.moveToBack l e)).1 = t ∧
    (∀ m, (sstep t (.moveBefore l e m)).1 = t ∧ (sstep t (.moveBefore l m e)).1 = t) ∧
    (∀ m, (sstep t (.moveAfter l e m)).1 = t ∧ (sstep t (.moveAfter l m e)).1 = t) := by
  refine ⟨?_, ?_, ?_, ?_, ?_, ?_, ?_⟩ <;> simp [sstep, he]

/-- **Observations read off the abstract sequence.**  In a well-formed state, for each list: `Len`,
`Front`, `Back`, `Values`/`ForEach`, `ForEachReverse` and the handle walk `Front, Next, Next, …` are
those of the sequence; for every live handle `Prev`/`Next` are its neighbours in the sequence (`0` =
`nil` at the ends); a removed handle reads `nil` on both sides.  (`Value` of a handle is the `val`
component, which `C10_refines` ties to the value given at creation.) -/
theorem C10_neighbours (s : St) (w : WF s) (l : Bool) :
    s.len l = (s.seq l).length ∧
    front s l = (s.seq l).head?.getD 0 ∧
    back s l = (s.seq l).getLast?.getD 0 ∧
    values s l = (s.seq l).map (fun e => (s.heap e).val) ∧
    valuesRev s l = ((s.seq l).map (fun e => (s.heap e).val)).reverse ∧
    walkIds s s.fresh (front s l) = s.seq l ∧
    (∀ pre e post, s.seq l = pre ++ e :: post →
      prevOf s e = pre.getLast?.getD 0 ∧ nextOf s e = post.head?.getD 0) ∧
    (∀ e, (∀ k, e ∉ s.seq k) → e ∉ s.stale → prevOf s e = 0 ∧ nextOf s e = 0) := by
  refine ⟨w.len l, front_eq w l, back_eq w l, values_eq w l, valuesRev_eq w l, ?_, ?_, ?_⟩
  · rw [front_eq w l]
    exact walkIds_seq (o := l) w (s.seq l) [] s.fresh (by simp) (seq_length_le w l)
  · intro pre e post h
    exact ⟨prevOf_at w h, nextOf_at w h⟩
  · intro e h hs
    exact neighbours_removed w h hs

/-- The pointer-level content of `C10_wf_preserved`, spelled out: after every history the sentinel
and the elements of each list form a doubly-linked ring in the order of the abstract sequence. -/
theorem C10_ring_after_run (ops : List Op) (hok : okRun sinit ops) (l : Bool) :
    Ring (run init ops).1.heap (root l) ((srun sinit ops).1.lst l) := by
  obtain ⟨_, h2, h3⟩ := C10_refines_run ops hok
  rw [← h2]
  exact h3.ring l

/-! ## statements about every state (stale handles included) -/

/-- **`Init` resets the list whatever state it is in** (no well-formedness assumed: also after stale handles corrupted
the ring or drove `Len` negative): afterwards `Len = 0`, `Front = Back = nil`, both traversals deliver nothing, the
sentinel points at itself; the other list's `len` is untouched. -/
theorem C10_init_resets (s : St) (l : Bool) :
    let s' := (step s (.init l)).1
    s'.len l = 0 ∧ front s' l = 0 ∧ back s' l = 0 ∧ (∀ fuel, walkF s' fuel (front s' l) = []) ∧
    (∀ fuel, walkB s' fuel (back s' l) = []) ∧
    (s'.heap (root l)).next = root l ∧ (s'.heap (root l)).prev = root l ∧ s'.len (!l) = s.len (!l) := by
  have hl : (step s (.init l)).1.len l = 0 := by simp [step, initL, upd]
  have hf : front (step s (.init l)).1 l = 0 := by unfold front; rw [if_pos hl]
  have hb : back (step s (.init l)).1 l = 0 := by unfold back; rw [if_pos hl]
  refine ⟨hl, hf, hb, ?_, ?_, ?_, ?_, ?_⟩
  · intro fuel; rw [hf]; cases fuel <;> simp [walkF]
  · intro fuel; rw [hb]; cases fuel <;> simp [walkB]
  · simp [step, initL, setPrev, setNext]
  · simp [step, initL, setPrev, setNext]
  · cases l <;> simp [step, initL, upd]

/-- **`Remove` of any element whose list pointer is `l`** — live, or left over from before an `Init` — decrements
`Len` by exactly one (below zero if need be, as in container/list), clears the element's three pointers and returns its
value; any other handle changes nothing (`C10_foreign_noop` needs `WF` only to know the list pointer). -/
theorem C10_remove_any_state (s : St) (l : Bool) (e : Nat) :
    (owned s e l = true →
      (step s (.remove l e)).1.len l = s.len l - 1 ∧
      ((step s (.remove l e)).1.heap e).owner = none ∧ ((step s (.remove l e)).1.heap e).next = 0 ∧
      ((step s (.remove l e)).1.heap e).prev = 0 ∧ (step s (.remove l e)).2 = .value (s.heap e).val) ∧
    (owned s e l = false → step s (.remove l e) = (s, .value (s.heap e).val)) := by
  constructor
  · intro h
    simp [step, h, remove, upd, setOwner, setPrev, setNext]
  · intro h
    simp [step, h]

/-- The two statements above on the history of the corpus (`pb A 1; init A; rm A 3; init A`): the stale `Remove`
drives `Len` to −1 (its list pointer is still `A`), the second `Init` brings it back to 0. -/
example : owned (run init [.pushBack false 1, .init false]).1 3 false = true ∧
    (run init [.pushBack false 1, .init false, .remove false 3]).1.len false = -1 ∧
    (run init [.pushBack false 1, .init false, .remove false 3, .init false]).1.len false = 0 := by decide

/-! ## non-vacuity -/

/-- A history with pushes, inserts, moves relative to handles, a removal, foreign and removed
handles, a self-push, a cross-list push and an `Init`; it satisfies `okRun`. -/
def demo : List Op :=
  [.pushBack false 10, .pushBack false 11, .pushFront false 12, .moveBefore false 5 3, .moveAfter false 3 4,
   .pushBack true 20, .insertBefore false 13 4, .remove false 4, .remove false 4, .moveToFront true 3,
   .insertAfter true 14 5, .pushBackList false false, .pushFrontList true false, .init false,
   .pushBack false 30, .moveToBack true 6]

example : okRun sinit demo := by decide

example : (srun sinit demo).2 =
    [.handle 3, .handle 4, .handle 5, .ok, .ok, .handle 6, .handle 7, .value 11, .value 11, .ok, .nil, .ok, .ok,
     .ok, .handle 17, .ok] := by decide

/-- The hypotheses of `C10_wf_preserved`/`C10_refines`/`C10_neighbours`/`C10_foreign_noop` hold in
the (non-empty, two-list) state reached by `demo`. -/
example : WF (run init demo).1 := (C10_refines_run demo (by decide)).2.2

example : (srun sinit demo).1.lst true = [16, 15, 14, 13, 12, 11, 6] ∧ (srun sinit demo).1.lst false = [17]
    ∧ (srun sinit demo).1.stale = [5, 7, 3, 8, 9, 10] := by decide

/-- The unrepaired `MoveBefore` took the position from the *element* argument
(`positionTyped := element.(*listElement)`), so the move target was the element's own predecessor. -/
def oldMoveBefore (s : St) (l : Bool) (e m : Nat) : St :=
  if !owned s e l || e == m || !owned s e l then s else move s l e (s.heap e).prev

/-- Witness kept as a regression statement about the *old* code: on `[1, 2, 3]` moving the last
element before the first changed nothing, while the specification (and `container/list`) give
`[3, 1, 2]`. -/
theorem C10_old_moveBefore_witness :
    let s := (run init [.pushBack false 1, .pushBack false 2, .pushBack false 3]).1
    (oldMoveBefore s false 5 3).seq false = [3, 4, 5] ∧
    (sstep (abs s) (.moveBefore false 5 3)).1.lst false = [5, 3, 4] := by
  decide

/-! ## the regenerated code

`Hive/Gen/C10_Code.lean` is the translation (harness/c10/xlate, go/ast) of every function of the inner `list` and of
`listElement` in ds/list_impl.go, and of every function of GOROOT's `container/list`, into the statement language of
`Hive/Model/DListIR.lean`; it is regenerated on every run.  The hand-written model is therefore no longer trusted:
it is *proved equal* to the meaning of the translated source, on every state. -/
section code
open IR Hive.Gen.C10Code

/-- The translator accepted both files completely: no function outside the language, all 21 functions of
ds/list_impl.go (inner list + element) and all 20 of container/list present. -/
theorem C10_code_translated :
    errors = [] ∧
    hive_defined = [.Init, .lazyInit, .insert, .insertValue, .remove, .move, .Front, .Back, .Len, .PushFront,
      .PushBack, .Remove, .InsertBefore, .InsertAfter, .MoveToFront, .MoveToBack, .MoveBefore, .MoveAfter, .Next, .Prev,
      .Value] ∧
    std_defined = [.Init, .lazyInit, .insert, .insertValue, .remove, .move, .Front, .Back, .Len, .PushFront,
      .PushBack, .Remove, .InsertBefore, .InsertAfter, .MoveToFront, .MoveToBack, .MoveBefore, .MoveAfter, .Next, .Prev] := by
  decide

/-- **The source of `ds.List` is the source of `container/list`**: function by function the two translations are the
same statement lists (hive's atomics and interface-typed handles normalised away), the two whole-list push loops
included.  `Value()` exists only in hive (a field in container/list). -/
theorem C10_code_same_as_container_list :
    (∀ fn, fn ≠ .Value → std_code fn = hive_code fn) ∧
    std_PushBackList = hive_PushBackList ∧ std_PushFrontList = hive_PushFrontList :=
  ⟨std_agrees.code, rfl, rfl⟩

/-- **The translated code means the model** — every operation, every state (no well-formedness, no `okRun`: stale
handles, corrupted rings and negative `len` included). -/
theorem C10_code_is_model (s : St) (op : Op) :
    semOp hiveLib op (conc s) = (conc (step s op).1, outVal (step s op).2) :=
  code_step hive_agrees s op

/-- **Unconditionally the same pointer program as `container/list`**: on every concrete state (heap, lengths,
allocation counter — arbitrary, also not reachable ones) every operation executed by hive's code and by
container/list's code gives the same state and the same result.  This is the statement that covers handles that were
live before an `Init`, where no simpler specification exists. -/
theorem C10_code_is_container_list (c : CSt) (op : Op) : semOp hiveLib op c = semOp stdLib op c := by
  have h : c = conc { heap := c.heap, len := c.len, fresh := c.fresh, seq := fun _ => [], stale := [] } := rfl
  rw [h, code_step hive_agrees, code_step std_agrees]

/-- The observers of the translated code are the model's observers (every state). -/
theorem C10_code_observers (s : St) (l : Bool) (e : Nat) :
    sem hive_code .Front [] l (conc s) = (conc s, .word (front s l)) ∧
    sem hive_code .Back [] l (conc s) = (conc s, .word (back s l)) ∧
    sem hive_code .Len [] l (conc s) = (conc s, .int (s.len l)) ∧
    semElem hive_code .Next e (conc s) = .word (nextOf s e) ∧
    semElem hive_code .Prev e (conc s) = .word (prevOf s e) ∧
    semElem hive_code .Value e (conc s) = .word (valueOf s e) := by
  exact ⟨front_c (fun _ _ => rfl) s l, back_c (fun _ _ => rfl) s l, len_c (fun _ _ => rfl) s l,
    next_c (fun _ _ => rfl) s e, prev_c (fun _ _ => rfl) s e, value_c s e⟩

/-- **The four traversals of the translated code are the model's walks** (every state, every step bound): `Range`
and `ForEach` start at `Front()` and advance by `Next()`, the reverse ones start at `Back()` and advance by `Prev()`,
each hands `Value()` of the element to the callback; only the `ForEach` pair can be aborted by the callback's error;
`Values()` collects what `Range` delivers. -/
theorem C10_code_walks (s : St) (l : Bool) (fuel : Nat) :
    walkAll hive_code hive_Range l (conc s) fuel = walkF s fuel (front s l) ∧
    walkAll hive_code hive_ForEach l (conc s) fuel = walkF s fuel (front s l) ∧
    walkAll hive_code hive_RangeReverse l (conc s) fuel = walkB s fuel (back s l) ∧
    walkAll hive_code hive_ForEachReverse l (conc s) fuel = walkB s fuel (back s l) ∧
    hive_Range.abortable = false ∧ hive_RangeReverse.abortable = false ∧
    hive_ForEach.abortable = true ∧ hive_ForEachReverse.abortable = true ∧
    hive_Values = ["{", "values := make([]T, 0)", "l.Range(func(value T) {", "values = append(values, value)", "})",
      "return values", "}"] := by
  refine ⟨?_, ?_, ?_, ?_, rfl, rfl, rfl, rfl, by decide⟩
  · unfold walkAll; rw [show hive_Range.start = .Front from rfl, front_c (fun _ _ => rfl)]; exact walk_fwd _ rfl s _ _
  · unfold walkAll; rw [show hive_ForEach.start = .Front from rfl, front_c (fun _ _ => rfl)]; exact walk_fwd _ rfl s _ _
  · unfold walkAll; rw [show hive_RangeReverse.start = .Back from rfl, back_c (fun _ _ => rfl)]; exact walk_bwd _ rfl s _ _
  · unfold walkAll; rw [show hive_ForEachReverse.start = .Back from rfl, back_c (fun _ _ => rfl)]
    exact walk_bwd _ rfl s _ _

/-- **What a traversal delivers, in a well-formed state**: all four deliver the values of the abstract sequence
(forwards / backwards) within the harness's step bound — never `cycle` — and a `ForEach` whose callback fails at its
`k`-th call delivers exactly the first `k` values and reports the abort (`k` larger than the list: everything, no
abort). -/
theorem C10_traversals (s : St) (w : WF s) (l : Bool) (k : Nat) :
    walkF s (bound s + 1) (front s l) = (s.seq l).map (fun e => (s.heap e).val) ∧
    walkB s (bound s + 1) (back s l) = ((s.seq l).map (fun e => (s.heap e).val)).reverse ∧
    (s.seq l).length ≤ bound s ∧
    (1 ≤ k → k ≤ (s.seq l).length →
      forEachAbort (walkF s (bound s + 1) (front s l)) k = (((s.seq l).map (fun e => (s.heap e).val)).take k, true)) ∧
    ((s.seq l).length < k →
      forEachAbort (walkF s (bound s + 1) (front s l)) k = ((s.seq l).map (fun e => (s.heap e).val), false)) := by
  have hlen : (s.seq l).length ≤ bound s := by
    have := seq_length_le w l
    unfold bound; omega
  have hF : walkF s (bound s + 1) (front s l) = (s.seq l).map (fun e => (s.heap e).val) := by
    rw [front_eq w l]; exact walkF_seq (o := l) w (s.seq l) [] _ (by simp) (by omega)
  have hB : walkB s (bound s + 1) (back s l) = ((s.seq l).map (fun e => (s.heap e).val)).reverse := by
    have := walkB_seq (o := l) w (s.seq l).reverse [] (bound s + 1) (by simp) (by simp; omega)
    rw [List.head?_reverse, ← back_eq w l] at this
    rw [this, List.map_reverse]
  refine ⟨hF, hB, hlen, ?_, ?_⟩
  · intro h1 h2
    rw [hF]; unfold forEachAbort
    rw [if_pos ⟨by omega, by simpa using h2⟩]
  · intro h
    rw [hF]; unfold forEachAbort
    rw [if_neg (by simp; omega)]

/-- The hypotheses of `C10_traversals` are satisfiable: the state reached by `demo` is well-formed, its list B has 7
elements, a callback failing at its 3rd call gets the first three values. -/
example : forEachAbort (walkF (run init demo).1 (bound (run init demo).1 + 1) (front (run init demo).1 true)) 3
    = ((((run init demo).1.seq true).map fun e => ((run init demo).1.heap e).val).take 3, true) :=
  (C10_traversals (run init demo).1 (C10_refines_run demo (by decide)).2.2 true 3).2.2.2.1 (by decide) (by decide)

/-- A history executed by a translated library. -/
def runCode (lib : Lib) (c : CSt) : List Op → CSt × List Val
  | [] => (c, [])
  | op :: ops =>
    let r := semOp lib op c
    let rs := runCode lib r.1 ops
    (rs.1, r.2 :: rs.2)

theorem runCode_eq (lib : Lib) (a : Agrees lib) : ∀ (ops : List Op) (s : St),
    runCode lib (conc s) ops = (conc (run s ops).1, (run s ops).2.map outVal) := by
  intro ops
  induction ops with
  | nil => intro s; rfl
  | cons op ops ih =>
    intro s
    simp only [runCode, run, code_step a, ih, List.map_cons]

/-- **End to end**: the code translated from the working tree, run on any history from two fresh lists that does not
reuse handles from before an `Init`, returns exactly what the abstract `container/list` specification returns, ends in
a heap that is the doubly-linked ring of the specification's final sequences, and `len` is their length. -/
theorem C10_code_refines_run (ops : List Op) (hok : okRun sinit ops) :
    (runCode hiveLib (conc init) ops).2 = (srun sinit ops).2.map outVal ∧
    (∀ l, Ring (runCode hiveLib (conc init) ops).1.heap (root l) ((srun sinit ops).1.lst l)) ∧
    (∀ l, (runCode hiveLib (conc init) ops).1.len l = ((srun sinit ops).1.lst l).length) := by
  obtain ⟨h1, h2, h3⟩ := C10_refines_run ops hok
  rw [runCode_eq hiveLib hive_agrees]
  refine ⟨by rw [h1], fun l => C10_ring_after_run ops hok l, fun l => ?_⟩
  have := h3.len l
  rw [← h2]; exact this

/-- The same for `container/list`'s code: the specification `Hive/Spec/DList.lean` really is container/list. -/
theorem C10_container_list_meets_spec (ops : List Op) (hok : okRun sinit ops) :
    (runCode stdLib (conc init) ops).2 = (srun sinit ops).2.map outVal := by
  rw [runCode_eq stdLib std_agrees, (C10_refines_run ops hok).1]

/-- The hypothesis is satisfiable: `demo` (all operation kinds, foreign and removed handles, self-push, `Init`). -/
example : (runCode hiveLib (conc init) demo).2 = (srun sinit demo).2.map outVal :=
  (C10_code_refines_run demo (by decide)).1

/-- The thread-safe wrapper delegates every method to the inner method of the same name with its own parameters in
their order; every method of the file has a pointer receiver (a value receiver on the wrapper would lock a copy of the
mutex — the lock skeleton does not show receivers); the constructors initialise (`newList` calls `Init`, which is the model's initial state) and `NewList`
hands out the lock-free list only for `lockFree[0] == true`. -/
theorem C10_code_wrappers :
    hive_wrappers = ["Init -> Init()", "Front -> Front()", "Back -> Back()", "PushFront -> PushFront(p0)",
      "PushBack -> PushBack(p0)", "Remove -> Remove(p0)", "InsertBefore -> InsertBefore(p0,p1)",
      "InsertAfter -> InsertAfter(p0,p1)", "MoveToFront -> MoveToFront(p0)", "MoveToBack -> MoveToBack(p0)",
      "MoveBefore -> MoveBefore(p0,p1)", "MoveAfter -> MoveAfter(p0,p1)", "PushBackList -> PushBackList(p0)",
      "PushFrontList -> PushFrontList(p0)", "snapshot -> ", "ForEach -> ForEach(p0)", "ForEachReverse -> ForEachReverse(p0)",
      "Range -> Range(p0)", "RangeReverse -> RangeReverse(p0)", "Values -> Values()", "Len -> Len()"] ∧
    hive_value_receivers = [] ∧
    hive_constructors = ["func newList", "{", "l := new(list[T])", "l.Init()", "return l", "}",
      "func newThreadSafeList", "{", "return &threadSafeList[T]{", "list: newList[T](),", "}", "}",
      "func NewList", "{", "if len(lockFree) > 0 && lockFree[0] {", "return newList[T]()", "}",
      "return newThreadSafeList[T]()", "}"] := by
  decide

end code

/-! ## regenerated synchronisation skeletons of the thread-safe wrapper

`Hive/Gen/C10_Skel.lean` is regenerated from ds/list_impl.go on every run (checks/c10.py `regen`).  The
sequential theorems above are about the inner `list`; they carry over to `threadSafeList` because every method of
the wrapper is **one** lock with a deferred unlock of the wrapper's only mutex around **exactly one** call of the
inner list's method of the same name — the write lock for everything that mutates, the read lock for the
observers, never released in between, never a call back into the wrapper (whose own lock would be re-acquired). -/
section skeletons
open Hive.Gen.C10Skel

/-- `lock; defer unlock; call t.list.<m>[; return]` -/
def wrapped (lock unlock m : String) (ret : Bool) : List String :=
  [lock ++ " t.mutex", "defer " ++ unlock ++ " t.mutex", "call t.list." ++ m] ++ (if ret then ["return"] else [])

theorem C10_skeleton_writers :
    skel_threadSafeList_Init = wrapped "lock" "unlock" "Init" true ∧
    skel_threadSafeList_PushFront = wrapped "lock" "unlock" "PushFront" true ∧
    skel_threadSafeList_PushBack = wrapped "lock" "unlock" "PushBack" true ∧
    skel_threadSafeList_Remove = wrapped "lock" "unlock" "Remove" true ∧
    skel_threadSafeList_InsertBefore = wrapped "lock" "unlock" "InsertBefore" true ∧
    skel_threadSafeList_InsertAfter = wrapped "lock" "unlock" "InsertAfter" true ∧
    skel_threadSafeList_MoveToFront = wrapped "lock" "unlock" "MoveToFront" false ∧
    skel_threadSafeList_MoveToBack = wrapped "lock" "unlock" "MoveToBack" false ∧
    skel_threadSafeList_MoveBefore = wrapped "lock" "unlock" "MoveBefore" false ∧
    skel_threadSafeList_MoveAfter = wrapped "lock" "unlock" "MoveAfter" false := by
  decide

theorem C10_skeleton_readers :
    skel_threadSafeList_Front = wrapped "rlock" "runlock" "Front" true ∧
    skel_threadSafeList_Back = wrapped "rlock" "runlock" "Back" true ∧
    skel_threadSafeList_ForEach = wrapped "rlock" "runlock" "ForEach" true ∧
    skel_threadSafeList_ForEachReverse = wrapped "rlock" "runlock" "ForEachReverse" true ∧
    skel_threadSafeList_Range = wrapped "rlock" "runlock" "Range" false ∧
    skel_threadSafeList_RangeReverse = wrapped "rlock" "runlock" "RangeReverse" false ∧
    skel_threadSafeList_Values = wrapped "rlock" "runlock" "Values" true ∧
    skel_threadSafeList_Len = wrapped "rlock" "runlock" "Len" true := by
  decide

/-- The whole-list pushes: the same shape with the self-push test (`other == t`, then read through the inner
list) between the lock and the one delegated call — and, **before** the lock is taken, another thread-safe list is
replaced by a private snapshot of itself (`snapshot`: one read-lock section of the *other* list copying its inner
list; fix 4f43112): our own lock is never held while another list's lock is requested, and the element-wise loop of
the inner list never walks a list that somebody else is modifying. -/
theorem C10_skeleton_pushlists :
    skel_threadSafeList_PushBackList
      = ["if{", "call otherThreadSafeList.snapshot", "}if", "lock t.mutex", "defer unlock t.mutex", "if{", "}if",
         "call t.list.PushBackList"] ∧
    skel_threadSafeList_PushFrontList
      = ["if{", "call otherThreadSafeList.snapshot", "}if", "lock t.mutex", "defer unlock t.mutex", "if{", "}if",
         "call t.list.PushFrontList"] ∧
    skel_threadSafeList_snapshot
      = ["rlock t.mutex", "defer runlock t.mutex", "call snapshot.PushBackList", "return"] := by
  decide

/-- One mutex, one embedded inner list; `len` is a plain int guarded by that mutex; the element's pointers are
atomics (read by `Prev`/`Next`/`Value` without the lock). -/
theorem C10_skeleton_type_shapes :
    skel_type_threadSafeList = ["struct", "embedded *list[T]", "mutex sync.RWMutex"] ∧
    skel_type_list = ["struct", "root listElement[T]", "len int"] ∧
    skel_type_listElement = ["struct", "next atomic.Pointer[listElement[T]]", "prev atomic.Pointer[listElement[T]]",
      "list atomic.Pointer[list[T]]", "value atomic.Pointer[T]"] := by
  decide

end skeletons

/-! ## the thread-safe flavour under concurrent use

`threadSafeList` puts one `sync.RWMutex` in front of the inner list (skeleton obligations above: every method is
`Lock|RLock; defer Unlock|RUnlock;` exactly one inner call).  `TS.tsSys` (Hive/Model/DListConc.lean) is that protocol
for **any** number of goroutines running **any** sequences of calls; the inner call is split into a first read and a
commit computed from that read (writers) / a second read from which the result is returned (readers), so that the
theorem below really rests on the mutual exclusion the mutex provides. -/
section concurrent
open Hive.Conc TS

/-- **Every call through the wrapper takes effect at one point between its invocation and its response, and the
effects in that order are a sequential history of the list** — for every thread pool, every program, every schedule:
in every reachable configuration
* the linearization log, read as a sequential run of the object from its initial state, returns exactly the logged
  results and ends in the current object (`Replays`), and it is sorted by stamp;
* every completed call of every goroutine — with the result *it returned to its caller* — has its entry in the log,
  stamped strictly after its invocation and strictly before its response (so the order of the log respects the
  real-time order of non-overlapping calls);
* at most one goroutine is inside a write section, and then none is inside a read section. -/
theorem C10_ts_linearizable {σ O R : Type} (B : Obj σ O R) (x0 : σ) (progs : List (List O))
    (c : Cfg (Sh σ O R) (Th σ O R)) (hr : Reach (tsSys B) (Sh.start x0, progs.map Th.start) c) :
    Replays B x0 c.1.log c.1.obj ∧
    c.1.log.Pairwise (fun a b => a.stamp < b.stamp) ∧
    (∀ t ∈ c.2, ∀ r ∈ t.rets, (⟨r.op, r.res, r.lin⟩ : LE O R) ∈ c.1.log ∧ r.inv < r.lin ∧ r.lin < r.ret) ∧
    c.2.countP (fun t => inW t.pc) ≤ 1 ∧
    (0 < c.2.countP (fun t => inW t.pc) → c.2.countP (fun t => inR t.pc) = 0) := by
  have h := tinv_reach B x0 progs hr
  refine ⟨h.lin, h.logOk.1, ?_, ?_, ?_⟩
  · intro t ht r hr'
    obtain ⟨a, b, c', _⟩ := (h.good t ht).2 r hr'
    exact ⟨a, b, c'⟩
  · rw [← h.exclW]; split <;> omega
  · intro hpos
    rw [← h.cntR]
    apply h.excl
    have := h.exclW
    cases hw : c.1.rw.writer with
    | true => rfl
    | false => rw [hw] at this; simp at this; omega

/-- **The order of the log respects real time**: if a completed call returned before another completed call (of any
goroutine) was invoked, its linearization stamp is the smaller one — its entry comes first in the (stamp-sorted) log. -/
theorem C10_ts_real_time_order {σ O R : Type} (B : Obj σ O R) (x0 : σ) (progs : List (List O))
    (c : Cfg (Sh σ O R) (Th σ O R)) (hr : Reach (tsSys B) (Sh.start x0, progs.map Th.start) c)
    (t u : Th σ O R) (ht : t ∈ c.2) (hu : u ∈ c.2) (a b : Ret O R) (ha : a ∈ t.rets) (hb : b ∈ u.rets)
    (hab : a.ret < b.inv) : a.lin < b.lin := by
  obtain ⟨_, _, h, _⟩ := C10_ts_linearizable B x0 progs c hr
  have h1 := (h t ht a ha).2.2
  have h2 := (h u hu b hb).2.1
  omega

/-- **The log is exactly the calls, each once**: in every reachable configuration the linearization stamps held by the
goroutines — one per call that has passed its linearization point, in progress or completed (`thStamps`) — are a
permutation of the stamps of the log, and they are pairwise distinct. With `C10_ts_linearizable` (each completed call's
entry carries *its* stamp, strictly between invocation and response; the log in stamp order is a sequential run) this
is linearizability in the textbook sense: the completed calls plus the pending ones that already took effect, ordered
by their stamps, are a sequential history compatible with the real-time order. -/
theorem C10_ts_log_is_the_calls {σ O R : Type} (B : Obj σ O R) (x0 : σ) (progs : List (List O))
    (c : Cfg (Sh σ O R) (Th σ O R)) (hr : Reach (tsSys B) (Sh.start x0, progs.map Th.start) c) :
    (claimed c.2).Perm (c.1.log.map (·.stamp)) ∧ (claimed c.2).Nodup := by
  have hp := stamps_reach B x0 progs hr
  refine ⟨hp, hp.nodup_iff.2 (nodup_of_sorted ?_)⟩
  have := (C10_ts_linearizable B x0 progs c hr).2.1
  exact List.pairwise_map.2 this

/-- **The wrapper cannot block itself**: no reachable configuration is a deadlock — unless every goroutine has
returned from its last call, some goroutine can take a step (one lock, never re-acquired inside a call, released on
every path: the shape the skeleton obligations pin). -/
theorem C10_ts_no_deadlock {σ O R : Type} (B : Obj σ O R) (x0 : σ) (progs : List (List O))
    (c : Cfg (Sh σ O R) (Th σ O R)) (hr : Reach (tsSys B) (Sh.start x0, progs.map Th.start) c) :
    ¬ Deadlock (tsSys B) finished c :=
  ts_not_stuck (tinv_reach B x0 progs hr)

/-- **Go's writer preference** (`sync.RWMutex` refuses new readers while a writer has announced `Lock()`): every run
of the wrapper under that rule is a run of `tsSys` — so `C10_ts_linearizable`, `C10_ts_log_is_the_calls` and
`C10_ts_list_is_sequential` hold for it — and it cannot block itself either: a reader is refused only while a writer is
pending, and a pending writer gets the mutex as soon as nobody is inside. -/
theorem C10_ts_writer_preference {σ O R : Type} (B : Obj σ O R) (x0 : σ) (progs : List (List O))
    (c : Cfg (Sh σ O R) (Th σ O R)) (hr : Reach (tsSysStrict B) (Sh.start x0, progs.map Th.start) c) :
    Reach (tsSys B) (Sh.start x0, progs.map Th.start) c ∧ ¬ Deadlock (tsSysStrict B) finished c :=
  ⟨strict_reach_sub hr,
   ts_strict_not_stuck (tinv_reach B x0 progs (strict_reach_sub hr)) (pinv_reach B x0 progs (strict_reach_sub hr))⟩

/-- The sequential meaning of a call on the list object: a mutating method is the pointer-level model's `step` (=
the translated code, `C10_code_is_model`), an observer leaves the list alone and reads `Len` / the forward walk /
the backward walk / `Front` / `Back`. -/
theorem C10_ts_list_object (s : St) :
    (∀ op, listObj.seq s (.wr op) = ((step s op).1, .out (step s op).2)) ∧
    (∀ l, listObj.seq s (.len l) = (s, .n (s.len l))) ∧
    (∀ l, listObj.seq s (.vals l) = (s, .l (values s l))) ∧
    (∀ l, listObj.seq s (.rvals l) = (s, .l (valuesRev s l))) ∧
    (∀ l, listObj.seq s (.front l) = (s, .e (front s l))) ∧
    (∀ l, listObj.seq s (.back l) = (s, .e (back s l))) :=
  ⟨fun _ => rfl, fun _ => rfl, fun _ => rfl, fun _ => rfl, fun _ => rfl, fun _ => rfl⟩

/-- the mutating operations of a log, in log order -/
def mutOps : List (LE LOp LOut) → List Op
  | [] => []
  | e :: rest => match e.op with
    | .wr op => op :: mutOps rest
    | _ => mutOps rest

theorem replays_run (log : List (LE LOp LOut)) (x y : St) (h : Replays listObj x log y) :
    y = (run x (mutOps log)).1 := by
  induction log generalizing x with
  | nil => simp only [Replays] at h; subst h; rfl
  | cons e rest ih =>
    simp only [Replays] at h
    have := ih _ h.2
    cases hop : e.op with
    | wr op =>
      rw [hop] at this
      simp only [mutOps, hop, run]
      exact this
    | len l => rw [hop] at this; simp only [mutOps, hop]; exact this
    | vals l => rw [hop] at this; simp only [mutOps, hop]; exact this
    | rvals l => rw [hop] at this; simp only [mutOps, hop]; exact this
    | front l => rw [hop] at this; simp only [mutOps, hop]; exact this
    | back l => rw [hop] at this; simp only [mutOps, hop]; exact this

/-- **The thread-safe list under any concurrent use is a sequential history of the list**: whatever goroutines call
whatever methods, in every reachable configuration the list is the state the sequential model reaches by executing
the mutating calls in linearization order; if that history never reuses a handle from before an `Init` (`okRun`) the
heap is a well-formed pair of rings and the list is what the `container/list` specification gives for that history. -/
theorem C10_ts_list_is_sequential (progs : List (List LOp)) (c : Cfg (Sh St LOp LOut) (Th St LOp LOut))
    (hr : Reach (tsSys listObj) (Sh.start init, progs.map Th.start) c) :
    c.1.obj = (run init (mutOps c.1.log)).1 ∧
    (okRun sinit (mutOps c.1.log) → WF c.1.obj ∧ abs c.1.obj = (srun sinit (mutOps c.1.log)).1) := by
  have h := (C10_ts_linearizable listObj init progs c hr).1
  have hrun := replays_run _ _ _ h
  refine ⟨hrun, fun hok => ?_⟩
  obtain ⟨_, h2, h3⟩ := C10_refines_run (mutOps c.1.log) hok
  rw [hrun]
  exact ⟨h3, h2⟩

/-- The lock each call is modelled under is the lock the wrapper method of the working tree takes (regenerated
skeletons): write lock for the twelve mutating methods (the whole-list pushes after their lock-free prologue that
snapshots another thread-safe source), read lock for the eight observers and for `snapshot`. -/
theorem C10_ts_lock_kinds :
    let w := some (lockWord (listObj.kind (.wr (.init false))))
    let r := some (lockWord (listObj.kind (.len false)))
    (∀ op, listObj.kind (.wr op) = .w) ∧
    listObj.kind (.vals false) = .r ∧ listObj.kind (.rvals false) = .r ∧ listObj.kind (.front false) = .r ∧
    listObj.kind (.back false) = .r ∧
    Hive.Gen.C10Skel.skel_threadSafeList_Init.head? = w ∧ Hive.Gen.C10Skel.skel_threadSafeList_PushFront.head? = w ∧
    Hive.Gen.C10Skel.skel_threadSafeList_PushBack.head? = w ∧ Hive.Gen.C10Skel.skel_threadSafeList_Remove.head? = w ∧
    Hive.Gen.C10Skel.skel_threadSafeList_InsertBefore.head? = w ∧ Hive.Gen.C10Skel.skel_threadSafeList_InsertAfter.head? = w ∧
    Hive.Gen.C10Skel.skel_threadSafeList_MoveToFront.head? = w ∧ Hive.Gen.C10Skel.skel_threadSafeList_MoveToBack.head? = w ∧
    Hive.Gen.C10Skel.skel_threadSafeList_MoveBefore.head? = w ∧ Hive.Gen.C10Skel.skel_threadSafeList_MoveAfter.head? = w ∧
    (Hive.Gen.C10Skel.skel_threadSafeList_PushBackList.drop 3).head? = w ∧
    (Hive.Gen.C10Skel.skel_threadSafeList_PushFrontList.drop 3).head? = w ∧
    Hive.Gen.C10Skel.skel_threadSafeList_snapshot.head? = r ∧
    Hive.Gen.C10Skel.skel_threadSafeList_Len.head? = r ∧ Hive.Gen.C10Skel.skel_threadSafeList_Front.head? = r ∧
    Hive.Gen.C10Skel.skel_threadSafeList_Back.head? = r ∧ Hive.Gen.C10Skel.skel_threadSafeList_Values.head? = r ∧
    Hive.Gen.C10Skel.skel_threadSafeList_Range.head? = r ∧ Hive.Gen.C10Skel.skel_threadSafeList_ForEach.head? = r ∧
    Hive.Gen.C10Skel.skel_threadSafeList_RangeReverse.head? = r ∧ Hive.Gen.C10Skel.skel_threadSafeList_ForEachReverse.head? = r := by
  refine ⟨fun _ => rfl, rfl, rfl, rfl, rfl, ?_⟩
  decide

/-- **The checker the driver runs on recorded histories is sound**: if it accepts the `lin` line of a concurrent run,
there is a linearization — a permutation of the recorded calls that the `container/list` specification (`sstep`, from
the abstraction of the state the setup lines reached) executes with exactly the recorded results, and that never
places a call before one that had already returned when it was invoked. -/
theorem C10_lincheck_sound (s : St) (cs : List CCall) (h : linearizable (absC s) cs = true) :
    ∃ order, LinWitness [] (abs s) cs order := linearizable_sound (abs s) cs h

/-- **… and complete**: a recorded history (every call stamped `inv ≤ ret`, as the harness stamps them) that has a
linearization is accepted; hence `reject not-linearizable` means that no sequential order of the recorded calls is
compatible with their real-time order and returns the recorded results — a call did not take effect as one operation. -/
theorem C10_lincheck_complete (s : St) (cs order : List CCall) (hw : LinWitness [] (abs s) cs order)
    (hwf : ∀ c ∈ cs, c.inv ≤ c.ret) : linearizable (absC s) cs = true :=
  linearizable_complete (abs s) cs order hw hwf

/-- the abstract state after the setup `pb A 1; pb A 2; pb A 3; pb B 11; pb B 12` of a forced schedule -/
def linDemoState : SSt :=
  (srun sinit [.pushBack false 1, .pushBack false 2, .pushBack false 3, .pushBack true 11, .pushBack true 12]).1

/-- The checker on two recorded shapes: a queued reader that sees the list after the **whole** `PushBackList` is
accepted (as is one that sees the list before it); a reader that sees the first value of the block only — what a
`PushBackList` that locks per element delivers (seeded change C10-r6-3) — has no linearization. `decide` on concrete
histories: tests of the checker, not the general claim. -/
theorem C10_lincheck_example :
    linearizable linDemoState
      [⟨1, 4, .vals false, .l [1, 2, 3]⟩, ⟨2, 6, .mut (.pushBackList false true), .ok⟩,
       ⟨3, 7, .vals false, .l [1, 2, 3, 11, 12]⟩, ⟨5, 8, .mut (.pushBack false 99), .h 100000⟩,
       ⟨9, 10, .vals false, .l [1, 2, 3, 11, 12, 99]⟩, ⟨11, 12, .mut (.remove false 100000), .v 99⟩,
       ⟨13, 14, .rvals false, .l [12, 11, 3, 2, 1]⟩] = true ∧
    linearizable linDemoState
      [⟨1, 4, .vals false, .l [1, 2, 3]⟩, ⟨2, 6, .mut (.pushBackList false true), .ok⟩,
       ⟨3, 5, .vals false, .l [1, 2, 3, 11]⟩, ⟨7, 8, .vals false, .l [1, 2, 3, 11, 12]⟩] = false := by
  decide

/-- A run of the protocol in which calls really overlap: three goroutines (`PushBack 7; Len`, `Values; PushFront 8`,
`PushBackList A A`); the reader is inside its section while both writers have announced `Lock()`. -/
def tsDemo : Cfg (Sh St LOp LOut) (Th St LOp LOut) :=
  runSched (tsSys listObj)
    (Sh.start init, [[LOp.wr (.pushBack false 7), .len false], [.vals false, .wr (.pushFront false 8)],
      [.wr (.pushBackList false false)]].map Th.start)
    [(1, 0), (0, 0), (2, 0), (1, 0), (1, 0), (1, 0), (0, 0), (0, 0), (0, 0), (0, 0), (2, 0), (2, 0), (2, 0), (2, 0),
     (1, 0), (1, 0), (0, 0)]

/-- The hypothesis of `C10_ts_linearizable` / `C10_ts_list_is_sequential` / `C10_ts_real_time_order` is satisfiable:
`tsDemo` is reachable. -/
example : Reach (tsSys listObj)
    (Sh.start init, [[LOp.wr (.pushBack false 7), .len false], [.vals false, .wr (.pushFront false 8)],
      [.wr (.pushBackList false false)]].map Th.start) tsDemo :=
  runSched_reach _ _ _

/-- … and what the theorems say about it, computed: the three calls were invoked at 1, 0, 2, took effect at 5, 3, 7 and
returned at 6, 4, 8 (so they overlap pairwise); the log is sorted by those stamps; the reader saw the empty list, the
`PushBack` got handle 3, and the list ends as `[7 7]` (the self-push came last). -/
example :
    tsDemo.1.log.map (·.stamp) = [3, 5, 7] ∧
    tsDemo.2.map (fun t => t.rets.map (fun r => (r.inv, r.lin, r.ret))) = [[(1, 5, 6)], [(0, 3, 4)], [(2, 7, 8)]] ∧
    tsDemo.1.log.map (·.res) = [.l [], .out (.handle 3), .out .ok] ∧
    values tsDemo.1.obj false = [7, 7] := by
  decide

/-- `NewList(lockFree ...bool)`: the condition of the regenerated body, `len(lockFree) > 0 && lockFree[0]`, as a
function of the argument list. -/
def newListLockFree (args : List Bool) : Bool := decide (args.length > 0) && args.getD 0 false

/-- **Flavour selection for every argument list**: the lock-free list is handed out exactly when the first optional
argument exists and is `true` — `NewList()`, `NewList(false)`, `NewList(false, …)` are thread-safe whatever follows,
`NewList(true, …)` is lock-free whatever follows; the condition and the two constructors it chooses between are the
regenerated source lines (the harness checks the same five spellings by dynamic type and by behaviour). -/
theorem C10_newlist_flavour (args : List Bool) :
    (newListLockFree args = true ↔ args.head? = some true) ∧
    newListLockFree [] = false ∧ (∀ rest, newListLockFree (false :: rest) = false) ∧
    (∀ rest, newListLockFree (true :: rest) = true) ∧
    Hive.Gen.C10Code.hive_constructors.drop 12 = ["func NewList", "{", "if len(lockFree) > 0 && lockFree[0] {",
      "return newList[T]()", "}", "return newThreadSafeList[T]()", "}"] := by
  refine ⟨?_, rfl, fun _ => rfl, fun _ => by simp [newListLockFree], by decide⟩
  cases args with
  | nil => simp [newListLockFree]
  | cons a r => cases a <;> simp [newListLockFree]

end concurrent

/-! ## traversals whose callback modifies the list

`Range` / `ForEach` / `RangeReverse` / `ForEachReverse` are `container/list`'s documented loop (`C10_code_walks`: start
at `Front()`/`Back()`, advance by `Next()`/`Prev()` **after** the callback). `walkMut` (Hive/Model/DListConc.lean) is
that loop with a callback that modifies the list at its `k`-th call; the harness runs every traversal × 12 actions ×
every position on lists of 1..5 elements three-way (op line `reent`). -/
section reentrant

/-- **The loop acts, then advances in the list as the callback left it** (every state, both directions): before the
`k`-th call values are delivered from the unchanged list; at the `k`-th call the callback's action is applied and the
rest of the traversal is the plain walk of the *new* list from the *new* successor of the current element; in
particular an element removed inside its own callback ends the traversal (its `Next()`/`Prev()` is nil afterwards); an
action scheduled for a call beyond the end of the list never happens (the traversal is the plain walk, the list is
unchanged). -/
theorem C10_reentrant_traversal (fwd : Bool) (act : St → Nat → St) (f : Nat) (s : St) (e : Nat) (he : e ≠ 0) :
    (∀ k, walkMut fwd act (f + 1) (k + 2) s e =
      ((walkMut fwd act f (k + 1) s (if fwd then nextOf s e else prevOf s e)).1,
       valueOf s e :: (walkMut fwd act f (k + 1) s (if fwd then nextOf s e else prevOf s e)).2)) ∧
    walkMut fwd act (f + 1) 1 s e =
      (act s e, valueOf s e ::
        (if fwd then walkF (act s e) f (nextOf (act s e) e) else walkB (act s e) f (prevOf (act s e) e))) ∧
    (∀ l first last, owned s e l = true →
      walkMut fwd (reAct l first last .rmCur) (f + 1) 1 s e = ((step s (.remove l e)).1, [valueOf s e])) ∧
    (∀ k, (if fwd then walkF s f e else walkB s f e).length < k →
      walkMut fwd act f k s e = (s, if fwd then walkF s f e else walkB s f e)) := by
  refine ⟨fun k => walkMut_before fwd act f k s e he, walkMut_acts fwd act f s e he, ?_,
    fun k hk => walkMut_beyond fwd act f k s e hk⟩
  intro l first last ho
  rw [walkMut_acts fwd _ f s e he]
  have hn : nextOf (reAct l first last .rmCur s e) e = 0 := by
    simp [reAct, step, ho, remove, nextOf, setOwner]
  have hp : prevOf (reAct l first last .rmCur s e) e = 0 := by
    simp [reAct, step, ho, remove, prevOf, setOwner]
  rw [hn, hp]
  cases fwd <;> cases f <;> simp [walkF, walkB, reAct]

/-- On `[1 2 3]` (handles 3, 4, 5), computed: moving the **current** element to the back at the first call ends the walk
(its `Next()` is nil there), moving the **first** element to the back at the second call makes the walk meet it again;
removing the successor skips it; inserting after the current element at the second call delivers the new value next;
`Init` inside the second callback empties the list but the walk goes on over the old elements (they keep their
pointers, exactly as in container/list); backwards, moving the current (last) element to the front ends the walk at
once. (`decide` on concrete instances — tests, not the general claim.) -/
example :
    let s := (run init [.pushBack false 1, .pushBack false 2, .pushBack false 3]).1
    (walkMut true (reAct false 3 5 .mbCur) 20 1 s (front s false)).2 = [1] ∧
    (walkMut true (reAct false 3 5 .mbFirst) 20 2 s (front s false)).2 = [1, 2, 3, 1] ∧
    (walkMut true (reAct false 3 5 .rmNext) 20 1 s (front s false)).2 = [1, 3] ∧
    (walkMut true (reAct false 3 5 .iaCur) 20 2 s (front s false)).2 = [1, 2, 102, 3] ∧
    (walkMut true (reAct false 3 5 .init) 20 2 s (front s false)).2 = [1, 2, 3] ∧
    values (walkMut true (reAct false 3 5 .init) 20 2 s (front s false)).1 false = [] ∧
    (walkMut false (reAct false 3 5 .mfCur) 20 1 s (back s false)).2 = [3] := by
  decide

end reentrant

end Hive.DList
