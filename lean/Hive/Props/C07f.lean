import Hive.Model.SeqMulti
import Hive.Props.C07
/-!
# C07 for several sequences with different keys over one store: the system is a product of independent sequences

Model: `Hive/Model/SeqMulti.lean` (`mstep`: a request on key `k` is the step of the sequential machine on the store
entry, the object and the ghosts of `k`).  Theorems, over every interleaved history of requests on any number of keys:
the projection to one key is the history of that key alone (`C07_sequences_independent`), requests on different keys
commute (`C07_requests_on_different_keys_commute`), and therefore the numbers handed out *for each key* are strictly
increasing and the waste bounds hold per key (`C07_per_key_strictly_increasing`, `C07_per_key_waste`).

What the theorems rest on is the frame of `mstep`: a call on key `k` reads and writes nothing of another key.  The code
can break exactly that by sharing memory between `Sequence` objects (seeded change C07-r6-2: the 8-byte buffer handed
to `store.Set` comes from a `sync.Pool` and is back in the pool while the store call is under way).  The tie: the harness
runs requests of other keys inside a store call of a request and concurrently, and the driver answers with the product
machine (`stepLineM`).
-/
namespace Hive.Seq.Multi
open Hive.Seq

theorem proj_put_same (s : MSt) (k : Nat) (t : St) : proj (put s k t) k = t := by
  simp [proj, put, upd]

theorem proj_put_other (s : MSt) (k k' : Nat) (t : St) (h : k' ≠ k) : proj (put s k t) k' = proj s k' := by
  simp [proj, put, upd, h]

theorem mstep_same (s : MSt) (k : Nat) (op : Op) :
    proj (mstep s (k, op)).1 k = (step (proj s k) op).1 ∧ (mstep s (k, op)).2 = (step (proj s k) op).2 := by
  simp [mstep, lift, proj_put_same]

/-- **Frame.**  A request on key `k` leaves the store entry, the object and the ghosts of every other key alone. -/
theorem mstep_other (s : MSt) (k k' : Nat) (op : Op) (h : k' ≠ k) : proj (mstep s (k, op)).1 k' = proj s k' := by
  simp [mstep, lift, proj_put_other _ _ _ _ h]

/-- Two states of the system are the same when all their projections are. -/
theorem ext_proj (s t : MSt) (h : ∀ k, proj s k = proj t k) : s = t := by
  cases s with
  | mk s1 s2 s3 s4 =>
    cases t with
    | mk t1 t2 t3 t4 =>
      have h1 : s1 = t1 := funext fun k => by have := h k; simp [proj] at this; exact this.1
      have h2 : s2 = t2 := funext fun k => by have := h k; simp [proj] at this; exact this.2.1
      have h3 : s3 = t3 := funext fun k => by have := h k; simp [proj] at this; exact this.2.2.1
      have h4 : s4 = t4 := funext fun k => by have := h k; simp [proj] at this; exact this.2.2.2
      subst h1 h2 h3 h4
      rfl

/-- **The system is a product.**  For every interleaved history of requests on any keys, from any state: the state of
key `k` at the end is the state the requests *on `k` alone*, in their order, lead to from the state of `k` at the
beginning, and the answers to the requests on `k` are the answers of that run — whatever requests on other keys were
made in between. -/
theorem C07_sequences_independent (s : MSt) (ops : List (Nat × Op)) (k : Nat) :
    proj (mrun s ops).1 k = (run (proj s k) (opsOf k ops)).1 ∧
    outsOf k (mrun s ops).2 = (run (proj s k) (opsOf k ops)).2 := by
  induction ops generalizing s with
  | nil => simp [mrun, opsOf, outsOf, run]
  | cons r rs ih =>
    obtain ⟨k', op⟩ := r
    have hi := ih (mstep s (k', op)).1
    by_cases hk : k' = k
    · subst hk
      have hs := mstep_same s k' op
      simp only [mrun, opsOf, outsOf, if_true, run]
      rw [hi.1, hi.2, hs.1, hs.2]
      exact ⟨rfl, rfl⟩
    · have ho := mstep_other s k' k op (fun h => hk h.symm)
      simp only [mrun, opsOf, outsOf, hk, if_false]
      rw [hi.1, hi.2, ho]
      exact ⟨rfl, rfl⟩

/-- Requests on different keys commute: the same state and the same two answers in either order.  (So a request that
runs *inside* a store call of a request on another key, or concurrently with it, must be indistinguishable from one
made before or after it.) -/
theorem C07_requests_on_different_keys_commute (s : MSt) (k k' : Nat) (a b : Op) (h : k ≠ k') :
    (mstep (mstep s (k, a)).1 (k', b)).1 = (mstep (mstep s (k', b)).1 (k, a)).1 ∧
    (mstep (mstep s (k, a)).1 (k', b)).2 = (mstep s (k', b)).2 ∧
    (mstep (mstep s (k', b)).1 (k, a)).2 = (mstep s (k, a)).2 := by
  have h' : k' ≠ k := fun e => h e.symm
  refine ⟨?_, ?_, ?_⟩
  · apply ext_proj
    intro j
    by_cases hj : j = k
    · subst hj
      rw [mstep_other _ k' j b h, (mstep_same _ j a).1, (mstep_same _ j a).1, mstep_other _ k' j b h]
    · by_cases hj' : j = k'
      · subst hj'
        rw [(mstep_same _ j b).1, mstep_other _ k j a h', mstep_other _ k j a h', (mstep_same _ j b).1]
      · rw [mstep_other _ k' j b hj', mstep_other _ k j a hj, mstep_other _ k j a hj, mstep_other _ k' j b hj']
  · rw [(mstep_same _ k' b).2, mstep_other _ k k' a h', (mstep_same _ k' b).2]
  · rw [(mstep_same _ k a).2, mstep_other _ k' k b h, (mstep_same _ k a).2]

theorem proj_minit (k : Nat) : proj minit k = init := rfl

theorem opsOf_wf (k : Nat) (ops : List (Nat × Op)) (hw : ∀ r ∈ ops, r.2.wf) : ∀ op ∈ opsOf k ops, op.wf := by
  induction ops with
  | nil => intro op h; simp [opsOf] at h
  | cons r rs ih =>
    have hrs : ∀ r' ∈ rs, r'.2.wf := fun r' h => hw r' (List.mem_cons_of_mem _ h)
    intro op h
    by_cases hk : r.1 = k
    · simp only [opsOf, hk, if_true, List.mem_cons] at h
      rcases h with h | h
      · subst h; exact hw r (List.mem_cons_self ..)
      · exact ih hrs op h
    · simp only [opsOf, hk, if_false] at h
      exact ih hrs op h

/-- **C07 per key.**  Over the whole life of one (initially empty) store that any number of sequences with different
keys and different intervals use in any interleaving — restarts, `Next`, `Release`, crashes at every store-operation
boundary, store errors, on any key at any time — the numbers handed out for each single key are strictly increasing:
none is returned twice. -/
theorem C07_per_key_strictly_increasing (ops : List (Nat × Op)) (hw : ∀ r ∈ ops, r.2.wf) (k : Nat) :
    (nums (outsOf k (mrun minit ops).2)).Pairwise (· < ·) := by
  rw [(C07_sequences_independent minit ops k).2, proj_minit]
  exact C07_strictly_increasing (opsOf k ops) (opsOf_wf k ops hw)

/-- The waste bound per key: everything handed out for key `k` lies below the frontier of `k`, which is at most the
count of numbers handed out for `k` plus the intervals of the abandoned objects *of `k`* — what happens to other keys
(their crashes, their intervals) wastes nothing of `k`. -/
theorem C07_per_key_waste (ops : List (Nat × Op)) (hw : ∀ r ∈ ops, r.2.wf) (k : Nat) :
    let s := proj (mrun minit ops).1 k
    (∀ r ∈ s.returned, r < frontier s) ∧ frontier s ≤ s.returned.length + s.budget := by
  have h := C07_crash_wastes_le_interval (opsOf k ops) (opsOf_wf k ops hw)
  rw [← run_fst] at h
  rw [(C07_sequences_independent minit ops k).1, proj_minit]
  exact h

/-- The hypotheses are satisfiable and the statement is not vacuous: three keys with intervals 2, 5 and 1, interleaved,
with a crash of key 0 after its store write and a release of key 1. -/
example :
    (mrun minit [(0, .new 2), (1, .new 5), (0, .next), (1, .next), (2, .new 1), (1, .next), (0, .crash .nextWrite),
                 (2, .next), (1, .release), (0, .new 3), (0, .next), (1, .new 1), (1, .next), (2, .next)]).2
      = [(0, .ok), (1, .ok), (0, .num 0), (1, .num 0), (2, .ok), (1, .num 1), (0, .num 1),
         (2, .num 0), (1, .ok), (0, .ok), (0, .num 2), (1, .ok), (1, .num 2), (2, .num 1)] := by
  decide

/-- **Sharing the value buffer between sequences breaks the frame** (seeded change C07-r6-2, at the level of the store
cells): key 0 renews its lease at 1000 (interval 10) and hands `be8 1010` to the store in a pooled buffer; while the
store call is under way key 1 (mark 0, interval 10) encodes `10` into the same buffer; the store copies `10` for key 0.
In memory key 0 holds the lease [1000,1010), the store says 10: after a crash key 0 continues at 10 — below numbers
handed out long ago.  In the product machine this cannot happen: the same requests leave 1010 under key 0. -/
def sharedBufferRun : MSt × Out :=
  let s0 : MSt := put minit 0 { store := some 1000, obj := some { interval := 10, next := 0, reserved := 0 }, returned := [999], budget := 0 }
  let s1 := put s0 1 { store := none, obj := some { interval := 10, next := 0, reserved := 0 }, returned := [], budget := 0 }
  -- key 0: Next → 1000, lease [1000,1010); the cell of key 0 receives what key 1 wrote into the shared buffer
  let a := mstep s1 (0, .next)
  let b := mstep a.1 (1, .next)
  let broken := { b.1 with store := upd b.1.store 0 ((proj b.1 1).store) }
  mstep (mstep (mstep broken (0, .crash .idle)).1 (0, .new 10)).1 (0, .next)

theorem C07_shared_buffer_witness :
    sharedBufferRun.2 = .num 10 ∧
    (let s0 : MSt := put minit 0 { store := some 1000, obj := some { interval := 10, next := 0, reserved := 0 }, returned := [999], budget := 0 }
     let s1 := put s0 1 { store := none, obj := some { interval := 10, next := 0, reserved := 0 }, returned := [], budget := 0 }
     (mrun s1 [(0, .next), (1, .next), (0, .crash .idle), (0, .new 10), (0, .next)]).2
       = [(0, .num 1000), (1, .num 0), (0, .crashed), (0, .ok), (0, .num 1010)]) := by
  decide

end Hive.Seq.Multi
