import Hive.Proofs.KVConcPosStep
import Hive.Proofs.KVLinComplete
/-!
# C05: the history of every trace of the protocol model is linearizable w.r.t. the full C04 contract
(including `Close`), and the checker's verified validator accepts it

The witness is the order of the linearisation points, with the calls that answered ErrStoreClosed
and `Close` itself moved behind all accesses (the accesses linearised after the flag swap belong to
calls that were invoked before it: `HInv.g3`).
-/
namespace Hive.KV.Conc
open Hive.Conc Hive.KV.Lin

/-! ## completeness of the validator's Boolean checks -/

def endSeq (st : SeqSt) (l : List HOp) : SeqSt := l.foldl (fun s o => (hstep s o.kind).1) st

theorem runSeq_append (st : SeqSt) (a b : List HOp) :
    runSeq st (a ++ b) = (runSeq st a && runSeq (endSeq st a) b) := by
  induction a generalizing st with
  | nil => simp [runSeq, endSeq]
  | cons o rest ih => simp [runSeq, endSeq, ih, Bool.and_assoc]

/-! ## sequential part -/

theorem apply_out_ne_closed (a : DOp) (m : AList) : (a.apply m).2 ≠ .closed := by
  cases a <;> simp [DOp.apply]
  cases Spec.lookup _ m <;> simp

/-- The accesses of a (relaxed-)consistent trace, alone and in order, are a run of the full contract
on an open store, and reach the trace's final map. -/
theorem seq_early (whole : List Ev) : ∀ (l : List Ev) (st : SeqSt), seqOkFrom st l = true →
    runSeq ⟨st.m, false⟩ ((l.filterMap (toHOp whole)).filter (fun o => !o.late)) = true ∧
    endSeq ⟨st.m, false⟩ ((l.filterMap (toHOp whole)).filter (fun o => !o.late)) = ⟨(l.foldl applyEv st).m, false⟩
  | [], st, _ => by simp [runSeq, endSeq]
  | e :: rest, st, h => by
    simp only [seqOkFrom, Bool.and_eq_true] at h
    have ih := seq_early whole rest (applyEv st e) h.2
    cases e with
    | inv t i op => simpa [List.filterMap_cons, toHOp, applyEv] using ih
    | ret t i o => simpa [List.filterMap_cons, toHOp, applyEv] using ih
    | lin t i a o =>
      cases a with
      | eff a =>
        have ho : o = (a.apply st.m).2 := by simpa [evOk] using h.1
        have hne := apply_out_ne_closed a st.m
        subst ho
        simp only [List.filterMap_cons, toHOp, linKind, List.foldl_cons]
        rw [List.filter_cons_of_pos (by simp [HOp.late, hne])]
        have hst : hstep ⟨st.m, false⟩ (HKind.data a) = (⟨(a.apply st.m).1, false⟩, (a.apply st.m).2) := by
          simp [hstep]
        refine ⟨?_, ?_⟩
        · simp only [runSeq, hst, beq_self_eq_true, Bool.true_and]
          simpa [applyEv] using ih.1
        · show endSeq (hstep ⟨st.m, false⟩ (HKind.data a)).1 _ = _
          rw [hst]
          simpa [applyEv] using ih.2
      | failClosed =>
        have ho : o = .closed := by
          have := h.1; simp only [evOk, Bool.and_eq_true, beq_iff_eq] at this; exact this.2
        subst ho
        simp only [List.filterMap_cons, toHOp, linKind, List.foldl_cons]
        rw [List.filter_cons_of_neg (by simp [HOp.late])]
        simpa [applyEv] using ih
      | close =>
        simp only [List.filterMap_cons, toHOp, linKind, List.foldl_cons]
        rw [List.filter_cons_of_neg (by simp [HOp.late])]
        simpa [applyEv] using ih

/-- `Close` and the calls that failed on the flag, alone and in order, are a run of the full
contract from any map and the flag the trace started with. -/
theorem seq_late (whole : List Ev) : ∀ (l : List Ev) (st : SeqSt), seqOkFrom st l = true → ∀ m',
    runSeq ⟨m', st.closed⟩ ((l.filterMap (toHOp whole)).filter (fun o => o.late)) = true
  | [], _, _, _ => by simp [runSeq]
  | e :: rest, st, h, m' => by
    simp only [seqOkFrom, Bool.and_eq_true] at h
    have ih := seq_late whole rest (applyEv st e) h.2 m'
    cases e with
    | inv t i op => simpa [List.filterMap_cons, toHOp, applyEv] using ih
    | ret t i o => simpa [List.filterMap_cons, toHOp, applyEv] using ih
    | lin t i a o =>
      cases a with
      | eff a =>
        have ho : o = (a.apply st.m).2 := by simpa [evOk] using h.1
        have hne := apply_out_ne_closed a st.m
        subst ho
        simp only [List.filterMap_cons, toHOp, linKind]
        rw [List.filter_cons_of_neg (by simp [HOp.late, hne])]
        simpa [applyEv] using ih
      | failClosed =>
        have hh := h.1
        simp only [evOk, Bool.and_eq_true, beq_iff_eq] at hh
        obtain ⟨hc, ho⟩ := hh
        subst ho
        simp only [List.filterMap_cons, toHOp, linKind]
        rw [List.filter_cons_of_pos (by simp [HOp.late])]
        simp only [runSeq, hstep, hc, if_true, beq_self_eq_true, Bool.true_and]
        simpa [applyEv, hc] using ih
      | close =>
        have ho : o = .ok := by simpa [evOk] using h.1
        subst ho
        simp only [List.filterMap_cons, toHOp, linKind]
        rw [List.filter_cons_of_pos (by simp [HOp.late])]
        simp only [runSeq, hstep, beq_self_eq_true, Bool.true_and]
        simpa [applyEv] using ih

/-! ## what `seqOk` says about single positions -/

theorem seqOk_at {tr : List Ev} (h : seqOk tr = true) {p : Nat} {e : Ev} (hp : tr[p]? = some e) :
    evOk (replay (tr.take p)) e = true := by
  have hlt := getElem?_lt hp
  have hsplit : tr = tr.take p ++ e :: tr.drop (p + 1) := by
    have he : tr[p] = e := by rw [List.getElem?_eq_getElem hlt] at hp; exact Option.some.inj hp
    rw [← he]; simp
  have := seqOkFrom_split seqInit (tr.take p) (tr.drop (p + 1)) e (by rw [← hsplit]; exact h)
  exact this

theorem closed_has_close : ∀ (l : List Ev) (st : SeqSt), (l.foldl applyEv st).closed = true →
    st.closed = true ∨ ∃ e ∈ l, isCloseLin e = true
  | [], _, h => Or.inl h
  | e :: rest, st, h => by
    rcases closed_has_close rest (applyEv st e) h with h' | ⟨x, hx, hc⟩
    · cases e with
      | lin t i a o =>
        cases a with
        | close => exact Or.inr ⟨_, List.mem_cons_self .., rfl⟩
        | eff a => exact Or.inl (by simpa [applyEv] using h')
        | failClosed => exact Or.inl (by simpa [applyEv] using h')
      | inv t i op => exact Or.inl (by simpa [applyEv] using h')
      | ret t i o => exact Or.inl (by simpa [applyEv] using h')
    · exact Or.inr ⟨x, List.mem_cons_of_mem _ hx, hc⟩

/-- A closed-flag failure is preceded by a `Close` point. -/
theorem fail_after_close {tr : List Ev} (h : seqOk tr = true) {q t i : Nat} {o : Out}
    (hq : tr[q]? = some (.lin t i .failClosed o)) :
    o = .closed ∧ ∃ q' e, q' < q ∧ tr[q']? = some e ∧ isCloseLin e = true := by
  have := seqOk_at h hq
  simp only [evOk, Bool.and_eq_true, beq_iff_eq] at this
  refine ⟨this.2, ?_⟩
  rcases closed_has_close (tr.take q) seqInit this.1 with hc | ⟨e, he, hce⟩
  · cases hc
  · obtain ⟨k, hk⟩ := List.mem_iff_getElem?.mp he
    rw [List.getElem?_take] at hk
    split at hk
    · rename_i hlt; exact ⟨k, e, hlt, hk, hce⟩
    · cases hk

theorem eff_out_ne_closed {tr : List Ev} (h : seqOk tr = true) {p t i : Nat} {a : DOp} {o : Out}
    (hp : tr[p]? = some (.lin t i (.eff a) o)) : o ≠ .closed := by
  have := seqOk_at h hp
  simp only [evOk, beq_iff_eq] at this
  rw [this]; exact apply_out_ne_closed _ _

/-! ## real-time order -/

theorem toHOp_some {whole : List Ev} {e : Ev} {b : HOp} (h : toHOp whole e = some b) :
    ∃ t i a o, e = .lin t i a o ∧ b = { inv := invPos whole t i, ret := retPos whole t i, kind := linKind a, out := o } := by
  cases e with
  | lin t i a o => simp only [toHOp, Option.some.injEq] at h; exact ⟨t, i, a, o, rfl, h.symm⟩
  | inv t i op => simp [toHOp] at h
  | ret t i o => simp [toHOp] at h

theorem mem_histOf {tr : List Ev} {b : HOp} (h : b ∈ histOf tr) :
    ∃ (p t i : Nat) (a : LinAct) (o : Out), tr[p]? = some (Ev.lin t i a o) ∧
      b = { inv := invPos tr t i, ret := retPos tr t i, kind := linKind a, out := o } := by
  unfold histOf at h
  rw [List.mem_filterMap] at h
  obtain ⟨e, he, hb⟩ := h
  obtain ⟨t, i, a, o, rfl, rfl⟩ := toHOp_some hb
  obtain ⟨p, hp⟩ := List.mem_iff_getElem?.mp he
  exact ⟨p, t, i, a, o, hp, rfl⟩

/-- In trace order every operation was invoked before every later one returned. -/
theorem hist_rt1 {c : Cfg Shared Thread} (h : HInv c) :
    (histOf c.1.tr).Pairwise (fun x y => x.inv < y.ret) := by
  unfold histOf
  rw [List.pairwise_filterMap, List.pairwise_iff_getElem]
  intro i j hi hj hij b hb b' hb'
  obtain ⟨t, k, a, o, he, rfl⟩ := toHOp_some hb
  obtain ⟨t', k', a', o', he', rfl⟩ := toHOp_some hb'
  have h1 := h.g1 i t k a o (by rw [List.getElem?_eq_getElem hi, he])
  have h2 := h.g2 j t' k' a' o' (by rw [List.getElem?_eq_getElem hj, he'])
  simp only at h1 h2 ⊢
  omega

/-- An access was invoked before any `Close` / closed-failure operation returned — also when it is
linearised after it. -/
theorem hist_rt2 {c : Cfg Shared Thread} (h : HInv c) (hs : seqOk c.1.tr = true) (x y : HOp)
    (hx : x ∈ histOf c.1.tr) (hxl : x.late = false) (hy : y ∈ histOf c.1.tr) (hyl : y.late = true) :
    x.inv < y.ret := by
  obtain ⟨p, t, i, a, o, hp, rfl⟩ := mem_histOf hx
  obtain ⟨q, t', i', a', o', hq, rfl⟩ := mem_histOf hy
  have h1 := h.g1 p t i a o hp
  have h2 := h.g2 q t' i' a' o' hq
  simp only at h1 h2 ⊢
  rcases Nat.lt_trichotomy p q with hpq | hpq | hpq
  · omega
  · subst hpq
    rw [hp] at hq
    simp only [Option.some.injEq, Ev.lin.injEq] at hq
    obtain ⟨rfl, rfl, rfl, rfl⟩ := hq
    rw [hxl] at hyl; cases hyl
  · -- the access is linearised after the late operation
    cases a with
    | failClosed =>
      have := (fail_after_close hs hp).1
      subst this
      simp [HOp.late] at hxl
    | close => simp [HOp.late, linKind] at hxl
    | eff a0 =>
      cases a' with
      | eff a1 =>
        have := eff_out_ne_closed hs hq
        simp [HOp.late, linKind, this] at hyl
      | close =>
        have := h.g3 p q t i a0 o _ hp hq rfl hpq
        omega
      | failClosed =>
        obtain ⟨_, q', e, hq', he, hce⟩ := fail_after_close hs hq
        have := h.g3 p q' t i a0 o e hp he hce (by omega)
        omega

/-! ## the witness -/

theorem map_pick_range (H : List HOp) : (List.range H.length).map (pick H.toArray) = H := by
  apply List.ext_getElem
  · simp
  · intro i h1 h2
    simp only [List.length_map, List.length_range] at h1
    simp [pick, Array.getD, h1]

theorem length_filter_add {α : Type} (p : α → Bool) (l : List α) :
    (l.filter (fun x => !p x)).length + (l.filter p).length = l.length := by
  induction l with
  | nil => rfl
  | cons x xs ih =>
    cases hp : p x <;> simp [hp] <;> omega

/-- The order of the linearisation points with the late operations moved to the end. -/
def witness (H : List HOp) : List Nat :=
  (List.range H.length).filter (fun k => !(pick H.toArray k).late) ++
    (List.range H.length).filter (fun k => (pick H.toArray k).late)

theorem witness_map (H : List HOp) :
    (witness H).map (pick H.toArray) = H.filter (fun o => !o.late) ++ H.filter (fun o => o.late) := by
  unfold witness
  rw [List.map_append]
  have e1 : (List.range H.length).filter (fun k => !(pick H.toArray k).late) =
      (List.range H.length).filter ((fun o : HOp => !o.late) ∘ pick H.toArray) := rfl
  have e2 : (List.range H.length).filter (fun k => (pick H.toArray k).late) =
      (List.range H.length).filter ((fun o : HOp => o.late) ∘ pick H.toArray) := rfl
  rw [e1, e2, ← List.filter_map, ← List.filter_map, map_pick_range]

theorem witness_perm (H : List HOp) : (witness H).Perm (List.range H.length) := by
  unfold witness
  have := List.filter_append_perm (fun k => !(pick H.toArray k).late) (List.range H.length)
  simpa using this

/-- **The validator accepts the history of every reachable trace.** -/
theorem model_history_validates {scripts : List (List COp)} {c : Cfg Shared Thread}
    (hr : Reach sys (initCfg scripts) c) :
    validate (histOf c.1.tr).toArray (witness (histOf c.1.tr)) = true := by
  obtain ⟨_, hs, _, hh⟩ := hinv_reach hr
  have hearly := seq_early c.1.tr c.1.tr seqInit hs.ok
  have hlate := seq_late c.1.tr c.1.tr seqInit hs.ok
  rw [validate_iff]
  refine ⟨by simpa using witness_perm (histOf c.1.tr), ?_, ?_⟩
  · rw [witness_map, List.pairwise_append]
    refine ⟨List.Pairwise.filter _ (hist_rt1 hh), List.Pairwise.filter _ (hist_rt1 hh), ?_⟩
    intro a ha b hb
    have ha' := List.mem_filter.mp ha
    have hb' := List.mem_filter.mp hb
    exact hist_rt2 hh hs.ok a b ha'.1 (by simpa using ha'.2) hb'.1 hb'.2
  · rw [witness_map, runSeq_append]
    simp only [Bool.and_eq_true]
    refine ⟨hearly.1, ?_⟩
    have : endSeq seqInit ((histOf c.1.tr).filter (fun o => !o.late)) = ⟨(replay c.1.tr).m, false⟩ := hearly.2
    rw [this]
    exact hlate (replay c.1.tr).m

/-- Every recorded operation of a reachable trace was invoked before it returned. -/
theorem model_history_wellStamped {scripts : List (List COp)} {c : Cfg Shared Thread}
    (hr : Reach sys (initCfg scripts) c) : wellStamped (histOf c.1.tr).toArray = true := by
  obtain ⟨_, _, _, hh⟩ := hinv_reach hr
  simp only [wellStamped, List.all_toArray, List.all_eq_true, decide_eq_true_eq]
  intro o ho
  obtain ⟨p, t, i, a, out, hp, rfl⟩ := mem_histOf ho
  have h1 := hh.g1 p t i a out hp
  have h2 := hh.g2 p t i a out hp
  simp only at h1 h2 ⊢
  omega

/-- **The checker accepts the history of every reachable trace of the protocol model** (unless its
search exhausts the node budget, which it reports as such). -/
theorem model_history_accepted {scripts : List (List COp)} {c : Cfg Shared Thread}
    (hr : Reach sys (initCfg scripts) c) (budget : Option Nat) :
    decideHist (histOf c.1.tr) budget = .accept ∨ decideHist (histOf c.1.tr) budget = .reject "budget-exhausted" :=
  decideHist_complete _ budget (model_history_wellStamped hr) (validate_sound _ _ (model_history_validates hr))

theorem model_history_accepted_unbounded {scripts : List (List COp)} {c : Cfg Shared Thread}
    (hr : Reach sys (initCfg scripts) c) : decideHist (histOf c.1.tr) none = .accept :=
  decideHist_complete_unbounded _ (model_history_wellStamped hr) (validate_sound _ _ (model_history_validates hr))

end Hive.KV.Conc
