import Hive.Proofs.OMapPtr
import Hive.Proofs.OMapSeq
import Hive.Model.OMapDict
/-!
# The dictionary's shrinking is invisible (C11)

`DMap` (ordered map + `ShrinkingMap` bookkeeping, the rebuild modelled as a real copy) and `PMap` (no bookkeeping)
are the same map after every history; the counter never stays at a value that asks for a rebuild.
-/
namespace Hive.OMap
open PMap (MOp)

theorem shrinkCopy_eq {p : PMap} (hp : PMap.PInv p) : shrinkCopy p.dict = p.dict := AMap.clone_eq hp.nodupK

theorem PMap.delete_false {p : PMap} {k : Nat} (h : (p.delete k).2 = false) : (p.delete k).1 = p := by
  unfold PMap.delete at h ⊢
  cases hg : AMap.get p.dict k with
  | none => simp
  | some i =>
    cases hh : p.heap[i]? with
    | none => simp [hh]
    | some n => simp [hg, hh] at h

theorem shouldShrink_zero (n : Nat) : shouldShrink SOpts.default 0 n = false := by
  cases n with
  | zero => rfl
  | succ m => simp [shouldShrink, SOpts.default]

/-! ## little-endian element codecs of every width -/

theorem length_encLE (w n : Nat) : (encLE w n).length = w := by
  induction w generalizing n with
  | zero => rfl
  | succ w ih => simp [encLE, ih]

theorem codec_LE (w : Nat) : Codec (· < 256 ^ w) (encLE w) (decLE w) := by
  induction w with
  | zero =>
    intro x hx rest
    have : x = 0 := by simpa using hx
    subst this; rfl
  | succ w ih =>
    intro x hx rest
    have hx' : x / 256 < 256 ^ w := by
      rw [Nat.pow_succ] at hx
      exact Nat.div_lt_of_lt_mul (by rw [Nat.mul_comm]; exact hx)
    have h := ih (x / 256) hx' rest
    simp only [encLE, List.cons_append, decLE, h, length_encLE, List.length_cons, UInt8.toNat_ofNat']
    congr 1
    simp only [Prod.mk.injEq, and_true]
    omega

def isDel : MOp → Bool
  | .del _ => true
  | _ => false

namespace DMap

theorem delete_p {d : DMap} (hp : PMap.PInv d.p) (k : Nat) : (d.delete k).1.p = (d.p.delete k).1 := by
  have hinv := (PMap.delete_refines hp k).2.2
  cases h : (d.p.delete k).2 with
  | false => simp [DMap.delete, h, PMap.delete_false h]
  | true =>
    cases hs : shouldShrink SOpts.default (d.dk + 1) (d.p.delete k).1.dict.length with
    | false => simp [DMap.delete, h, hs]
    | true => simp [DMap.delete, h, hs, shrinkCopy_eq hinv]

theorem applyOp_p {d : DMap} (hp : PMap.PInv d.p) (op : MOp) : (d.applyOp op).p = PMap.applyOp d.p op := by
  cases op with
  | set k v => rfl
  | del k => exact delete_p hp k
  | clear => rfl

theorem applyOps_p {d : DMap} (hp : PMap.PInv d.p) (ops : List MOp) :
    (d.applyOps ops).p = PMap.applyOps d.p ops := by
  induction ops generalizing d with
  | nil => rfl
  | cons op r ih =>
    have h1 := applyOp_p hp op
    have h2 : PMap.PInv (d.applyOp op).p := by rw [h1]; exact (PMap.applyOp_refines hp op).2
    have := ih h2
    simp only [applyOps, PMap.applyOps, List.foldl_cons] at this ⊢
    rw [this, h1]

theorem run_p (h : List MOp) : (run h).p = PMap.run h := applyOps_p PMap.pinv_empty h

/-- right after a deletion that took effect the counter does not ask for a rebuild (the rebuild happened) -/
theorem delete_settled (d : DMap) (k : Nat) (h : (d.delete k).2 = true) :
    shouldShrink SOpts.default (d.delete k).1.dk (d.delete k).1.p.dict.length = false := by
  cases hd : (d.p.delete k).2 with
  | false => simp [DMap.delete, hd] at h
  | true =>
    cases hs : shouldShrink SOpts.default (d.dk + 1) (d.p.delete k).1.dict.length with
    | false => simp [DMap.delete, hd, hs]
    | true => simp [DMap.delete, hd, hs, shouldShrink_zero]

theorem applyOp_dk_le (d : DMap) (op : MOp) : (d.applyOp op).dk ≤ d.dk + (if isDel op then 1 else 0) := by
  cases op with
  | set k v => simp [applyOp, set, isDel]
  | clear => simp [applyOp, clear, isDel]
  | del k =>
    cases hd : (d.p.delete k).2 with
    | false => simp [applyOp, DMap.delete, hd, isDel]
    | true =>
      cases hs : shouldShrink SOpts.default (d.dk + 1) (d.p.delete k).1.dict.length with
      | false => simp [applyOp, DMap.delete, hd, hs, isDel]
      | true => simp [applyOp, DMap.delete, hd, hs, isDel]

theorem applyOps_dk_le (d : DMap) (ops : List MOp) : (d.applyOps ops).dk ≤ d.dk + (ops.filter isDel).length := by
  induction ops generalizing d with
  | nil => simp [applyOps]
  | cons op r ih =>
    have h1 := applyOp_dk_le d op
    have h2 := ih (d.applyOp op)
    simp only [applyOps, List.foldl_cons] at h2 ⊢
    cases hop : isDel op <;> simp [hop] at h1 ⊢ <;> omega

end DMap
end Hive.OMap
