import Hive.Proofs.SafeMathLemmas
import Hive.Gen.C19_SafeMath
/-! Safe64MulDiv: the definition generated from core/safemath/safe_math.go meets the specification, for every width and signedness. -/
namespace Hive.GoInt
open Hive.Gen.SafeMath IntTy

theorem safe64MulDiv_exact (x y d : Int) (hx : IntTy.u64.InRange x) (hy : IntTy.u64.InRange y)
    (hd : IntTy.u64.InRange d) : Safe64MulDiv x y d = exactMulDiv x y d := by
  rw [u64_inRange] at hx hy hd
  have hp : 0 ≤ x * y := Int.mul_nonneg hx.1 hy.1
  unfold Safe64MulDiv exactMulDiv exact mul64 div64
  simp only [u64_inRange, pow64]
  by_cases hd0 : d = 0
  · simp [hd0]
  · have hdpos : 0 < d := by omega
    simp only [hd0, decide_false, Bool.false_eq_true, if_false]
    generalize x * y = p at hp ⊢
    have hq0 : 0 ≤ p / d := Int.ediv_nonneg hp (Int.le_of_lt hdpos)
    have hrecomb : p / 18446744073709551616 * 18446744073709551616 + p % 18446744073709551616 = p := by omega
    by_cases hle : d ≤ p / 18446744073709551616
    · -- quotient ≥ 2^64
      have : 18446744073709551616 ≤ p / d := by
        rw [Int.le_ediv_iff_mul_le hdpos]
        have := Int.mul_le_mul_of_nonneg_left hle (show (0 : Int) ≤ 18446744073709551616 by decide)
        omega
      have hnot : ¬ (0 ≤ p / d ∧ p / d < 18446744073709551616) := by omega
      simp [hle, hnot]
    · have hlt : p / d < 18446744073709551616 := by
        rw [Int.ediv_lt_iff_lt_mul hdpos]
        have h1 : p / 18446744073709551616 + 1 ≤ d := by omega
        have := Int.mul_le_mul_of_nonneg_left h1 (show (0 : Int) ≤ 18446744073709551616 by decide)
        omega
      have hin : (0 ≤ p / d ∧ p / d < 18446744073709551616) := ⟨hq0, hlt⟩
      simp only [hle, decide_false, Bool.false_eq_true, if_false, false_or, hrecomb, if_pos hin]

end Hive.GoInt
