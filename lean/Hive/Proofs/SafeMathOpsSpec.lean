import Hive.Model.SafeMathOps
/-! Specification theorems for the `math/bits` helpers of Hive/Model/SafeMathOps.lean (trusted operator semantics of the
safemath translator): what the modelled `bits.Len64`, `bits.LeadingZeros64`, `bits.TrailingZeros64`, `bits.Add64`, `bits.Sub64`
and the builtins `min` / `max` compute.  No generated definition is mentioned. -/
namespace Hive.GoInt

/-- `bits.Len64`: 0 for 0, otherwise the `n` with `2^(n-1) ≤ x < 2^n`. -/
theorem bitLen_spec (x : Int) : (x ≤ 0 → bitLen x = 0) ∧
    (0 < x → ∃ n : Nat, bitLen x = (n : Int) + 1 ∧ (2 : Int) ^ n ≤ x ∧ x < 2 ^ (n + 1)) := by
  constructor
  · intro h; unfold bitLen; simp [h]
  · intro h
    have hn : x.toNat ≠ 0 := by omega
    refine ⟨Nat.log2 x.toNat, ?_, ?_, ?_⟩
    · unfold bitLen; rw [if_neg (by omega)]
    · have := Nat.log2_self_le hn
      have h2 : ((2 ^ Nat.log2 x.toNat : Nat) : Int) ≤ (x.toNat : Int) := Int.ofNat_le.mpr this
      rw [Int.toNat_of_nonneg (by omega)] at h2
      simpa using h2
    · have := Nat.lt_log2_self (n := x.toNat)
      have h2 : (x.toNat : Int) < ((2 ^ (Nat.log2 x.toNat + 1) : Nat) : Int) := Int.ofNat_lt.mpr this
      rw [Int.toNat_of_nonneg (by omega)] at h2
      simpa using h2

/-- `bits.LeadingZeros<w>` and `bits.Len<w>` add up to the width. -/
theorem leadingZeros_spec (w : Nat) (x : Int) : leadingZeros w x + bitLen x = w := by
  unfold leadingZeros; omega

/-- `bits.Add64`: sum and carry-out recombine to the exact sum; both are in range. -/
theorem add64_spec (x y c : Int) (hx : 0 ≤ x ∧ x < 2 ^ 64) (hy : 0 ≤ y ∧ y < 2 ^ 64) (hc : c = 0 ∨ c = 1) :
    (add64 x y c).1 + (add64 x y c).2 * 2 ^ 64 = x + y + c ∧ 0 ≤ (add64 x y c).1 ∧ (add64 x y c).1 < 2 ^ 64 ∧
      ((add64 x y c).2 = 0 ∨ (add64 x y c).2 = 1) := by
  have p : (2 : Int) ^ 64 = 18446744073709551616 := by decide
  simp only [add64, p] at *
  omega

/-- `bits.Sub64`: difference and borrow-out recombine to the exact difference; both are in range. -/
theorem sub64_spec (x y b : Int) (hx : 0 ≤ x ∧ x < 2 ^ 64) (hy : 0 ≤ y ∧ y < 2 ^ 64) (hb : b = 0 ∨ b = 1) :
    (sub64 x y b).1 - (sub64 x y b).2 * 2 ^ 64 = x - y - b ∧ 0 ≤ (sub64 x y b).1 ∧ (sub64 x y b).1 < 2 ^ 64 ∧
      ((sub64 x y b).2 = 0 ∨ (sub64 x y b).2 = 1) := by
  have p : (2 : Int) ^ 64 = 18446744073709551616 := by decide
  rw [p] at hx hy
  by_cases h : x - y - b < 0
  · simp only [sub64, p, if_pos h]
    refine ⟨by omega, by omega, by omega, by simp⟩
  · simp only [sub64, p, if_neg h]
    refine ⟨by omega, by omega, by omega, by simp⟩

theorem trailingZerosAux_spec (fuel n : Nat) (hn : 0 < n) (hf : n < 2 ^ fuel) :
    2 ^ trailingZerosAux fuel n ∣ n ∧ ¬ 2 ^ (trailingZerosAux fuel n + 1) ∣ n := by
  induction fuel generalizing n with
  | zero => simp at hf; omega
  | succ f ih =>
    unfold trailingZerosAux
    by_cases hodd : n % 2 = 1
    · simp only [if_pos hodd, Nat.pow_zero, Nat.one_dvd, Nat.zero_add, Nat.pow_one, true_and]
      omega
    · simp only [if_neg hodd]
      have he : n % 2 = 0 := by omega
      have hn2 : 0 < n / 2 := by omega
      have hf2 : n / 2 < 2 ^ f := by rw [Nat.pow_succ] at hf; omega
      obtain ⟨a, b⟩ := ih (n / 2) hn2 hf2
      generalize trailingZerosAux f (n / 2) = t at a b ⊢
      constructor
      · obtain ⟨c, hc⟩ := a
        refine ⟨c, ?_⟩
        calc n = 2 * (n / 2) := by omega
          _ = 2 * (2 ^ t * c) := by rw [hc]
          _ = 2 ^ (t + 1) * c := by rw [Nat.pow_succ, Nat.mul_comm (2 ^ t) 2, Nat.mul_assoc]
      · intro ⟨c, hc⟩
        apply b
        refine ⟨c, ?_⟩
        have h2 : n = 2 * (2 ^ (t + 1) * c) := by
          rw [hc, Nat.pow_succ, Nat.mul_comm (2 ^ (t + 1)) 2, Nat.mul_assoc]
        rw [h2, Nat.mul_div_cancel_left _ (by decide : 0 < 2)]

/-- `bits.TrailingZeros<w>`: `w` for 0, otherwise the exponent of the largest power of two dividing `x`. -/
theorem trailingZeros_spec (w : Nat) (x : Int) :
    (x ≤ 0 → trailingZeros w x = w) ∧
    (0 < x → x < 2 ^ w → ∃ k : Nat, trailingZeros w x = k ∧ 2 ^ k ∣ x.toNat ∧ ¬ 2 ^ (k + 1) ∣ x.toNat) := by
  constructor
  · intro h; unfold trailingZeros; simp [h]
  · intro h hw
    refine ⟨trailingZerosAux w x.toNat, ?_, ?_⟩
    · unfold trailingZeros; rw [if_neg (by omega)]
    · have hlt : ((x.toNat : Nat) : Int) < ((2 ^ w : Nat) : Int) := by
        rw [Int.toNat_of_nonneg (by omega)]; simpa using hw
      have hpos : 0 < x.toNat := by omega
      exact trailingZerosAux_spec w x.toNat hpos (Int.ofNat_lt.mp hlt)

/-- builtin `min` / `max` -/
theorem minmax_spec (a b : Int) : imin a b ≤ a ∧ imin a b ≤ b ∧ (imin a b = a ∨ imin a b = b) ∧
    a ≤ imax a b ∧ b ≤ imax a b ∧ (imax a b = a ∨ imax a b = b) := by
  unfold imin imax
  by_cases h : a ≤ b <;> simp [h] <;> omega

end Hive.GoInt
