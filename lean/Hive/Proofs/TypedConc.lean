import Hive.Model.TypedConc
import Hive.Proofs.TypedValue
/-! Invariant of the protocol model of a shared `TypedValue`: write sections exclude each other and
all readers, and the log of completed operations is a run of the sequential machine. -/
namespace Hive.Typed.Conc
open Hive.Conc

variable {V : Type} [Inhabited V]

/-- The result a thread carries through its write section is the sequential step of its current
operation on the state the section started from. -/
def HeadStep (C : Codec V) (sh : Shared V) (t : Thread V) (r : Res V) : Prop :=
  match t.script with
  | (op, F) :: _ => r = step C sh.base op F
  | [] => False

/-- What holds for a thread inside its write section. -/
def ThreadOk (C : Codec V) (sh : Shared V) (t : Thread V) : Prop :=
  match t.pc with
  | .w1 => sh.tv = sh.base
  | .w2 r => sh.tv = sh.base ∧ HeadStep C sh t r
  | .w3 r => sh.tv = { sh.base with store := r.st.store } ∧ HeadStep C sh t r
  | .wUnlock r => sh.tv = r.st ∧ HeadStep C sh t r
  | _ => True

abbrev pW : Thread V → Bool := fun t => inW t.pc
abbrev pR : Thread V → Bool := fun t => inR t.pc

structure Inv (C : Codec V) (s0 : St V) (c : Cfg (Shared V) (Thread V)) : Prop where
  wcount : c.2.countP pW = if c.1.writer then 1 else 0
  rcount : c.2.countP pR = c.1.readers
  excl : c.1.writer = true → c.1.readers = 0
  logrun : run C s0 (logOps c.1.log) = (c.1.base, logOuts c.1.log)
  quiet : c.1.writer = false → c.1.tv = c.1.base
  threads : ∀ t ∈ c.2, ThreadOk C c.1 t

theorem threadOk_congr {C : Codec V} {sh sh' : Shared V} {u : Thread V}
    (h1 : sh'.tv = sh.tv) (h2 : sh'.base = sh.base) (h : ThreadOk C sh u) : ThreadOk C sh' u := by
  unfold ThreadOk HeadStep at *
  rw [h1, h2]; exact h

theorem threadOk_of_not_inW {C : Codec V} {sh : Shared V} {u : Thread V} (h : inW u.pc = false) :
    ThreadOk C sh u := by
  unfold ThreadOk
  cases hp : u.pc <;> simp_all [inW]

/-- If the stepping thread is the writer, nobody else is inside a write section. -/
theorem others_not_inW {pre post : List (Thread V)} {t : Thread V} {w : Bool}
    (hc : (pre ++ t :: post).countP pW = if w then 1 else 0) (ht : inW t.pc = true) :
    ∀ u, u ∈ pre ∨ u ∈ post → inW u.pc = false := by
  rw [countP_mid] at hc
  have h1 : pW t = true := ht
  simp only [h1, if_true] at hc
  have hpre : pre.countP pW = 0 := by split at hc <;> omega
  have hpost : post.countP pW = 0 := by split at hc <;> omega
  intro u hu
  rcases hu with hu | hu
  · have := (List.countP_eq_zero.mp hpre) u hu; simpa [pW] using this
  · have := (List.countP_eq_zero.mp hpost) u hu; simpa [pW] using this

theorem run_append (C : Codec V) (s : St V) (h1 h2 : List (Op V × Faults)) :
    run C s (h1 ++ h2) = ((run C (run C s h1).1 h2).1, (run C s h1).2 ++ (run C (run C s h1).1 h2).2) := by
  induction h1 generalizing s with
  | nil => simp [run]
  | cons x xs ih => obtain ⟨op, F⟩ := x; simp [run, ih]

theorem logrun_snoc {C : Codec V} {s0 base : St V} {log : List (Op V × Faults × Out V)}
    (h : run C s0 (logOps log) = (base, logOuts log)) (op : Op V) (F : Faults) :
    run C s0 (logOps (log ++ [(op, F, (step C base op F).out)])) =
      ((step C base op F).st, logOuts (log ++ [(op, F, (step C base op F).out)])) := by
  simp only [logOps, logOuts, List.map_append, List.map_cons, List.map_nil] at h ⊢
  rw [run_append, h]
  simp [run]

/-- The fast path agrees with the sequential step: a cache hit is the whole operation. -/
theorem fast_hit {C : Codec V} {s : St V} {op : Op V} {o : Out V} (F : Faults) (h : fastOut s op = some o) :
    (step C s op F).st = s ∧ (step C s op F).out = o := by
  cases op with
  | get =>
    simp only [fastOut] at h
    show (get C s F).st = s ∧ (get C s F).out = o
    unfold get
    split at h
    · rename_i hc; cases h; simp [hc]
    · rename_i hc
      cases hv : s.cv with
      | none => simp [hv] at h
      | some v => simp [hv] at h; subst h; simp [hc]
  | has =>
    simp only [fastOut] at h
    show (has s F).st = s ∧ (has s F).out = o
    unfold has
    cases hc : s.ch with
    | none => simp [hc] at h
    | some b => simp [hc] at h; subst h; simp
  | set v => simp [fastOut] at h
  | delete => simp [fastOut] at h
  | compute f => simp [fastOut] at h
  | reopen => simp [fastOut] at h

theorem inv_init (C : Codec V) (s0 : St V) (scripts : List (List (Op V × Faults))) :
    Inv C s0 (init s0, scripts.map start) := by
  constructor
  · simp only [init]
    induction scripts with
    | nil => rfl
    | cons x xs ih => simp [List.countP_cons, pW, start, inW]
  · simp only [init]
    induction scripts with
    | nil => rfl
    | cons x xs ih => simp [List.countP_cons, pR, start, inR]
  · simp [init]
  · simp [init, logOps, logOuts, run]
  · simp [init]
  · intro t ht
    simp only [List.mem_map] at ht
    obtain ⟨sc, _, rfl⟩ := ht
    simp [ThreadOk, start]

/-- Bookkeeping of the two counters when the middle thread changes. -/
theorem countP_swap (p : Thread V → Bool) (pre post : List (Thread V)) (t t' : Thread V) :
    (pre ++ t' :: post).countP p + (if p t then 1 else 0) =
      (pre ++ t :: post).countP p + (if p t' then 1 else 0) := by
  rw [countP_mid, countP_mid]; omega

theorem mem_mid {α : Type} {pre post : List α} {t u : α} (h : u ∈ pre ++ t :: post) :
    u = t ∨ u ∈ pre ∨ u ∈ post := by
  simp only [List.mem_append, List.mem_cons] at h
  rcases h with h | h | h
  · exact Or.inr (Or.inl h)
  · exact Or.inl h
  · exact Or.inr (Or.inr h)

theorem mem_mid' {α : Type} {pre post : List α} {t u : α} (h : u ∈ pre ∨ u ∈ post) : u ∈ pre ++ t :: post := by
  simp only [List.mem_append, List.mem_cons]
  rcases h with h | h
  · exact Or.inl h
  · exact Or.inr (Or.inr h)

theorem countP_swap' (p : Thread V → Bool) (pre post : List (Thread V)) (t t' : Thread V) (b b' : Bool)
    (hb : p t = b) (hb' : p t' = b') :
    (pre ++ t' :: post).countP p + (if b then 1 else 0) =
      (pre ++ t :: post).countP p + (if b' then 1 else 0) := by
  subst hb hb'; exact countP_swap p pre post t t'

/-- A step of a thread outside every write section that leaves `tv`, `base`, `log` and `writer` alone. -/
theorem inv_light (C : Codec V) (s0 : St V) {s s' : Shared V} {pre post : List (Thread V)} {t t' : Thread V}
    (hi : Inv C s0 (s, pre ++ t :: post))
    (htv : s'.tv = s.tv) (hbase : s'.base = s.base) (hlog : s'.log = s.log) (hw : s'.writer = s.writer)
    (hW : inW t.pc = false) (hW' : inW t'.pc = false)
    (hr : s'.readers + (if inR t.pc then 1 else 0) = s.readers + (if inR t'.pc then 1 else 0))
    (hex : s'.writer = true → s'.readers = 0) :
    Inv C s0 (s', pre ++ t' :: post) := by
  have hsw := countP_swap' pW pre post t t' false false hW hW'
  have hsr := countP_swap' pR pre post t t' (inR t.pc) (inR t'.pc) rfl rfl
  have h1 : (pre ++ t :: post).countP pW = if s.writer then 1 else 0 := hi.wcount
  have h2 : (pre ++ t :: post).countP pR = s.readers := hi.rcount
  simp only [Bool.false_eq_true, if_false, Nat.add_zero] at hsw
  constructor
  · show (pre ++ t' :: post).countP pW = if s'.writer then 1 else 0
    rw [hw, hsw]; exact h1
  · show (pre ++ t' :: post).countP pR = s'.readers
    omega
  · exact hex
  · simp only [hlog, hbase]; exact hi.logrun
  · simp only [hw, htv, hbase]; exact hi.quiet
  · intro u hu
    rcases mem_mid hu with rfl | hu
    · exact threadOk_of_not_inW hW'
    · exact threadOk_congr htv hbase (hi.threads u (mem_mid' hu))


theorem writer_of_inW {C : Codec V} {s0 : St V} {s : Shared V} {pre post : List (Thread V)} {t : Thread V}
    (hi : Inv C s0 (s, pre ++ t :: post)) (hW : inW t.pc = true) : s.writer = true := by
  have h1 : (pre ++ t :: post).countP pW = if s.writer then 1 else 0 := hi.wcount
  rw [countP_mid] at h1
  have : pW t = true := hW
  simp only [this, if_true] at h1
  cases hw : s.writer with
  | true => rfl
  | false => simp [hw] at h1

theorem readers_pos_of_inR {C : Codec V} {s0 : St V} {s : Shared V} {pre post : List (Thread V)} {t : Thread V}
    (hi : Inv C s0 (s, pre ++ t :: post)) (hR : inR t.pc = true) : 0 < s.readers := by
  have h2 : (pre ++ t :: post).countP pR = s.readers := hi.rcount
  rw [countP_mid] at h2
  have : pR t = true := hR
  simp only [this, if_true] at h2
  omega

/-- A micro-step inside the write section: only `tv` changes. -/
theorem inv_writer (C : Codec V) (s0 : St V) {s s' : Shared V} {pre post : List (Thread V)} {t t' : Thread V}
    (hi : Inv C s0 (s, pre ++ t :: post))
    (hW : inW t.pc = true) (hW' : inW t'.pc = true) (hR : inR t.pc = false) (hR' : inR t'.pc = false)
    (hbase : s'.base = s.base) (hlog : s'.log = s.log) (hw : s'.writer = s.writer) (hrd : s'.readers = s.readers)
    (hok : ThreadOk C s' t') : Inv C s0 (s', pre ++ t' :: post) := by
  have hsw := countP_swap' pW pre post t t' true true hW hW'
  have hsr := countP_swap' pR pre post t t' false false hR hR'
  have h1 : (pre ++ t :: post).countP pW = if s.writer then 1 else 0 := hi.wcount
  have h2 : (pre ++ t :: post).countP pR = s.readers := hi.rcount
  have hwr := writer_of_inW hi hW
  simp only [Bool.false_eq_true, if_false, Nat.add_zero] at hsr
  simp only [if_true, Nat.add_right_cancel_iff] at hsw
  constructor
  · show (pre ++ t' :: post).countP pW = if s'.writer then 1 else 0
    rw [hw, hsw]; exact h1
  · show (pre ++ t' :: post).countP pR = s'.readers
    rw [hrd, hsr]; exact h2
  · intro _; show s'.readers = 0; rw [hrd]; exact hi.excl hwr
  · simp only [hlog, hbase]; exact hi.logrun
  · intro h; simp only [hw, hwr] at h; cases h
  · intro u hu
    rcases mem_mid hu with rfl | hu
    · exact hok
    · exact threadOk_of_not_inW (others_not_inW hi.wcount hW u hu)

theorem inv_step (C : Codec V) (s0 : St V) {a b : Cfg (Shared V) (Thread V)}
    (hi : Inv C s0 a) (hs : Step (sys C) a b) : Inv C s0 b := by
  cases hs with
  | mk s pre t post s' t' hmem =>
    obtain ⟨script, pc⟩ := t
    simp only [sys, tstep] at hmem
    cases script with
    | nil => simp at hmem
    | cons x rest =>
      obtain ⟨op, F⟩ := x
      cases pc with
      | idle =>
        simp only at hmem
        split at hmem
        · simp at hmem
        · split at hmem
          all_goals
            simp only [List.mem_singleton, Prod.mk.injEq] at hmem
            obtain ⟨rfl, rfl⟩ := hmem
            exact inv_light C s0 hi rfl rfl rfl rfl rfl rfl (by simp [inR]) hi.excl
      | wantR =>
        simp only at hmem
        split at hmem
        · simp at hmem
        · rename_i hw
          simp only [List.mem_singleton, Prod.mk.injEq] at hmem
          obtain ⟨rfl, rfl⟩ := hmem
          exact inv_light C s0 hi rfl rfl rfl rfl rfl rfl (by simp [inR]) (by intro h; simp_all)
      | r1 =>
        simp only at hmem
        have hrp := readers_pos_of_inR hi (t := ⟨(op, F) :: rest, .r1⟩) rfl
        have hnw : s.writer = false := by
          cases hw : s.writer with
          | false => rfl
          | true => have h0 : s.readers = 0 := hi.excl hw; omega
        cases hf : fastOut s.tv op with
        | none =>
          simp only [hf, List.mem_singleton, Prod.mk.injEq] at hmem
          obtain ⟨rfl, rfl⟩ := hmem
          exact inv_light C s0 hi rfl rfl rfl rfl rfl rfl (by simp [inR]) hi.excl
        | some o =>
          simp only [hf, List.mem_singleton, Prod.mk.injEq] at hmem
          obtain ⟨rfl, rfl⟩ := hmem
          have hq : s.tv = s.base := hi.quiet hnw
          have hfh := fast_hit (C := C) F (hq ▸ hf)
          have hl := logrun_snoc hi.logrun op F
          rw [hfh.1, hfh.2] at hl
          have hi' : Inv C s0 ({ s with log := s.log ++ [(op, F, o)] }, pre ++ ⟨(op, F) :: rest, .r1⟩ :: post) :=
            { wcount := hi.wcount, rcount := hi.rcount, excl := hi.excl, logrun := hl, quiet := hi.quiet,
              threads := fun u hu => threadOk_congr rfl rfl (hi.threads u hu) }
          exact inv_light C s0 hi' rfl rfl rfl rfl rfl rfl (by simp [inR]) hi.excl
      | rHit o =>
        simp only [List.mem_singleton, Prod.mk.injEq] at hmem
        obtain ⟨rfl, rfl⟩ := hmem
        have hrp := readers_pos_of_inR hi (t := ⟨(op, F) :: rest, .rHit o⟩) rfl
        exact inv_light C s0 hi rfl rfl rfl rfl rfl rfl (by simp [inR]; omega)
          (by intro h; have h0 : s.readers = 0 := hi.excl h; omega)
      | rMiss =>
        simp only [List.mem_singleton, Prod.mk.injEq] at hmem
        obtain ⟨rfl, rfl⟩ := hmem
        have hrp := readers_pos_of_inR hi (t := ⟨(op, F) :: rest, .rMiss⟩) rfl
        exact inv_light C s0 hi rfl rfl rfl rfl rfl rfl (by simp [inR]; omega)
          (by intro h; have h0 : s.readers = 0 := hi.excl h; omega)
      | wantW =>
        simp only at hmem
        split at hmem
        · simp at hmem
        · rename_i hc
          simp only [List.mem_singleton, Prod.mk.injEq] at hmem
          obtain ⟨rfl, rfl⟩ := hmem
          have hnw : s.writer = false := by simp at hc; exact hc.1
          have hnr : s.readers = 0 := by simp at hc; exact hc.2
          have hsw := countP_swap' pW pre post ⟨(op, F) :: rest, .wantW⟩ ⟨(op, F) :: rest, .w1⟩ false true rfl rfl
          have hsr := countP_swap' pR pre post ⟨(op, F) :: rest, .wantW⟩ ⟨(op, F) :: rest, .w1⟩ false false rfl rfl
          have h1 : (pre ++ ⟨(op, F) :: rest, .wantW⟩ :: post).countP pW = if s.writer then 1 else 0 := hi.wcount
          have h2 : (pre ++ ⟨(op, F) :: rest, .wantW⟩ :: post).countP pR = s.readers := hi.rcount
          simp only [Bool.false_eq_true, if_false, if_true, Nat.add_zero] at hsw hsr
          constructor
          · show (pre ++ _ :: post).countP pW = if true then 1 else 0
            simp only [hnw, Bool.false_eq_true, if_false] at h1
            simp only [if_true]; omega
          · show (pre ++ _ :: post).countP pR = s.readers
            omega
          · intro _; exact hnr
          · exact hi.logrun
          · intro h; cases h
          · intro u hu
            rcases mem_mid hu with rfl | hu
            · exact hi.quiet hnw
            · exact threadOk_congr rfl rfl (hi.threads u (mem_mid' hu))
      | w1 =>
        have hme : ThreadOk C s ⟨(op, F) :: rest, .w1⟩ := hi.threads _ (by simp)
        have hq : s.tv = s.base := hme
        simp only [List.mem_singleton, Prod.mk.injEq] at hmem
        obtain ⟨rfl, rfl⟩ := hmem
        refine inv_writer C s0 hi rfl rfl rfl rfl rfl rfl rfl rfl ?_
        exact ⟨hq, by simp [HeadStep, hq]⟩
      | w2 r =>
        simp only [List.mem_singleton, Prod.mk.injEq] at hmem
        obtain ⟨rfl, rfl⟩ := hmem
        have hme : ThreadOk C s ⟨(op, F) :: rest, .w2 r⟩ := hi.threads _ (by simp)
        obtain ⟨hq, hh⟩ := hme
        refine inv_writer C s0 hi rfl rfl rfl rfl rfl rfl rfl rfl ?_
        exact ⟨by simp [hq], hh⟩
      | w3 r =>
        simp only [List.mem_singleton, Prod.mk.injEq] at hmem
        obtain ⟨rfl, rfl⟩ := hmem
        have hme : ThreadOk C s ⟨(op, F) :: rest, .w3 r⟩ := hi.threads _ (by simp)
        obtain ⟨hq, hh⟩ := hme
        refine inv_writer C s0 hi rfl rfl rfl rfl rfl rfl rfl rfl ?_
        exact ⟨by simp [hq], hh⟩
      | wUnlock r =>
        simp only [List.mem_singleton, Prod.mk.injEq] at hmem
        obtain ⟨rfl, rfl⟩ := hmem
        have hme : ThreadOk C s ⟨(op, F) :: rest, .wUnlock r⟩ := hi.threads _ (by simp)
        obtain ⟨hq, hh⟩ := hme
        have hh' : r = step C s.base op F := hh
        have hwr := writer_of_inW hi (t := ⟨(op, F) :: rest, .wUnlock r⟩) rfl
        have hsw := countP_swap' pW pre post ⟨(op, F) :: rest, .wUnlock r⟩ ⟨rest, .idle⟩ true false rfl rfl
        have hsr := countP_swap' pR pre post ⟨(op, F) :: rest, .wUnlock r⟩ ⟨rest, .idle⟩ false false rfl rfl
        have h1 : (pre ++ ⟨(op, F) :: rest, .wUnlock r⟩ :: post).countP pW = if s.writer then 1 else 0 := hi.wcount
        have h2 : (pre ++ ⟨(op, F) :: rest, .wUnlock r⟩ :: post).countP pR = s.readers := hi.rcount
        simp only [Bool.false_eq_true, if_false, if_true, Nat.add_zero] at hsw hsr
        have hl := logrun_snoc hi.logrun op F
        rw [← hh', ← hq] at hl
        constructor
        · show (pre ++ _ :: post).countP pW = if false then 1 else 0
          simp only [hwr, if_true] at h1
          simp only [Bool.false_eq_true, if_false]; omega
        · show (pre ++ _ :: post).countP pR = s.readers
          omega
        · intro h; cases h
        · exact hl
        · intro _; rfl
        · intro u hu
          rcases mem_mid hu with rfl | hu
          · simp [ThreadOk]
          · exact threadOk_of_not_inW (others_not_inW hi.wcount (t := ⟨(op, F) :: rest, .wUnlock r⟩) rfl u hu)


/-- The invariant holds in every configuration reachable from any pool of threads with any scripts. -/
theorem inv_reach (C : Codec V) (s0 : St V) (scripts : List (List (Op V × Faults))) {c : Cfg (Shared V) (Thread V)}
    (hr : Reach (sys C) (init s0, scripts.map start) c) : Inv C s0 c :=
  inv_induction (Inv C s0) (inv_init C s0 scripts) (fun _ _ hi hs => inv_step C s0 hi hs) hr

/-! ### scripts only shrink, and every log entry is an operation some script contained -/

theorem tstep_ops (C : Codec V) {s s' : Shared V} {t t' : Thread V} (h : (s', t') ∈ tstep C s t) :
    (∀ x ∈ t'.script, x ∈ t.script) ∧ (∀ e ∈ s'.log, e ∈ s.log ∨ (e.1, e.2.1) ∈ t.script) := by
  obtain ⟨script, pc⟩ := t
  simp only [tstep] at h
  cases script with
  | nil => simp at h
  | cons x rest =>
    obtain ⟨op, F⟩ := x
    cases pc with
    | idle =>
      simp only at h
      split at h
      · simp at h
      · split at h
        all_goals
          simp only [List.mem_singleton, Prod.mk.injEq] at h
          obtain ⟨rfl, rfl⟩ := h
          exact ⟨fun x hx => hx, fun e he => Or.inl he⟩
    | wantR =>
      simp only at h
      split at h
      · simp at h
      · simp only [List.mem_singleton, Prod.mk.injEq] at h
        obtain ⟨rfl, rfl⟩ := h
        exact ⟨fun x hx => hx, fun e he => Or.inl he⟩
    | r1 =>
      simp only at h
      cases hf : fastOut s.tv op with
      | none =>
        simp only [hf, List.mem_singleton, Prod.mk.injEq] at h
        obtain ⟨rfl, rfl⟩ := h
        exact ⟨fun x hx => hx, fun e he => Or.inl he⟩
      | some o =>
        simp only [hf, List.mem_singleton, Prod.mk.injEq] at h
        obtain ⟨rfl, rfl⟩ := h
        refine ⟨fun x hx => hx, fun e he => ?_⟩
        simp only [List.mem_append, List.mem_singleton] at he
        rcases he with he | rfl
        · exact Or.inl he
        · exact Or.inr (by simp)
    | rHit o =>
      simp only [List.mem_singleton, Prod.mk.injEq] at h
      obtain ⟨rfl, rfl⟩ := h
      exact ⟨fun x hx => List.mem_cons_of_mem _ hx, fun e he => Or.inl he⟩
    | rMiss =>
      simp only [List.mem_singleton, Prod.mk.injEq] at h
      obtain ⟨rfl, rfl⟩ := h
      exact ⟨fun x hx => hx, fun e he => Or.inl he⟩
    | wantW =>
      simp only at h
      split at h
      · simp at h
      · simp only [List.mem_singleton, Prod.mk.injEq] at h
        obtain ⟨rfl, rfl⟩ := h
        exact ⟨fun x hx => hx, fun e he => Or.inl he⟩
    | w1 =>
      simp only [List.mem_singleton, Prod.mk.injEq] at h
      obtain ⟨rfl, rfl⟩ := h
      exact ⟨fun x hx => hx, fun e he => Or.inl he⟩
    | w2 r =>
      simp only [List.mem_singleton, Prod.mk.injEq] at h
      obtain ⟨rfl, rfl⟩ := h
      exact ⟨fun x hx => hx, fun e he => Or.inl he⟩
    | w3 r =>
      simp only [List.mem_singleton, Prod.mk.injEq] at h
      obtain ⟨rfl, rfl⟩ := h
      exact ⟨fun x hx => hx, fun e he => Or.inl he⟩
    | wUnlock r =>
      simp only [List.mem_singleton, Prod.mk.injEq] at h
      obtain ⟨rfl, rfl⟩ := h
      refine ⟨fun x hx => List.mem_cons_of_mem _ hx, fun e he => ?_⟩
      simp only [List.mem_append, List.mem_singleton] at he
      rcases he with he | rfl
      · exact Or.inl he
      · exact Or.inr (by simp)

/-- All operations in the scripts and in the log satisfy `P`. -/
def OpsFrom (P : Op V → Prop) (c : Cfg (Shared V) (Thread V)) : Prop :=
  (∀ t ∈ c.2, ∀ x ∈ t.script, P x.1) ∧ (∀ e ∈ c.1.log, P e.1)

theorem opsFrom_reach (C : Codec V) (P : Op V → Prop) (s0 : St V) (scripts : List (List (Op V × Faults)))
    (hP : ∀ sc ∈ scripts, ∀ x ∈ sc, P x.1) {c : Cfg (Shared V) (Thread V)}
    (hr : Reach (sys C) (init s0, scripts.map start) c) : OpsFrom P c := by
  refine inv_induction (OpsFrom P) ?_ ?_ hr
  · constructor
    · intro t ht x hx
      simp only [List.mem_map] at ht
      obtain ⟨sc, hsc, rfl⟩ := ht
      exact hP sc hsc x hx
    · intro e he; simp [init] at he
  · intro a b ha hs
    cases hs with
    | mk s pre t post s' t' hmem =>
      obtain ⟨h1, h2⟩ := tstep_ops C hmem
      obtain ⟨ha1, ha2⟩ := ha
      constructor
      · intro u hu x hx
        rcases mem_mid hu with rfl | hu
        · exact ha1 t (by simp) x (h1 x hx)
        · exact ha1 u (mem_mid' hu) x hx
      · intro e he
        rcases h2 e he with he | he
        · exact ha2 e he
        · exact ha1 t (by simp) _ he

end Hive.Typed.Conc
