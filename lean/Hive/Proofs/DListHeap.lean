import Hive.Model.DList
import Hive.Proofs.DListBase
/-!
# Pointer-level splice lemmas for C10

`Ring h r xs`: in heap `h` the sentinel `r` and the elements `xs` form a doubly-linked ring in this
order — every adjacent pair `(a, b)` of `r :: xs ++ [r]` satisfies `a.next = b` and `b.prev = a`.
`ring_link` / `ring_unlink` are the splice theorems for the four stores of `insert`/`move` and the two
stores of `remove`/`move`; `ring_congr` is the frame rule.
-/
namespace Hive.DList

/-! ### field updates -/

@[simp] theorem setPrev_prev (h : Heap) (i v j : Nat) :
    (setPrev h i v j).prev = if j = i then v else (h j).prev := by
  unfold setPrev; split <;> rfl
@[simp] theorem setPrev_next (h : Heap) (i v j : Nat) : (setPrev h i v j).next = (h j).next := by
  unfold setPrev; split <;> rfl
@[simp] theorem setPrev_owner (h : Heap) (i v j : Nat) : (setPrev h i v j).owner = (h j).owner := by
  unfold setPrev; split <;> rfl
@[simp] theorem setPrev_val (h : Heap) (i v j : Nat) : (setPrev h i v j).val = (h j).val := by
  unfold setPrev; split <;> rfl
@[simp] theorem setNext_next (h : Heap) (i v j : Nat) :
    (setNext h i v j).next = if j = i then v else (h j).next := by
  unfold setNext; split <;> rfl
@[simp] theorem setNext_prev (h : Heap) (i v j : Nat) : (setNext h i v j).prev = (h j).prev := by
  unfold setNext; split <;> rfl
@[simp] theorem setNext_owner (h : Heap) (i v j : Nat) : (setNext h i v j).owner = (h j).owner := by
  unfold setNext; split <;> rfl
@[simp] theorem setNext_val (h : Heap) (i v j : Nat) : (setNext h i v j).val = (h j).val := by
  unfold setNext; split <;> rfl
@[simp] theorem setOwner_owner (h : Heap) (i : Nat) (o : Option Bool) (j : Nat) :
    (setOwner h i o j).owner = if j = i then o else (h j).owner := by
  unfold setOwner; split <;> rfl
@[simp] theorem setOwner_prev (h : Heap) (i : Nat) (o : Option Bool) (j : Nat) :
    (setOwner h i o j).prev = (h j).prev := by
  unfold setOwner; split <;> rfl
@[simp] theorem setOwner_next (h : Heap) (i : Nat) (o : Option Bool) (j : Nat) :
    (setOwner h i o j).next = (h j).next := by
  unfold setOwner; split <;> rfl
@[simp] theorem setOwner_val (h : Heap) (i : Nat) (o : Option Bool) (j : Nat) :
    (setOwner h i o j).val = (h j).val := by
  unfold setOwner; split <;> rfl

/-! ### what `link` and `unlink` store -/

theorem link_next (h : Heap) {e a : Nat} (hne : e ≠ a) (j : Nat) :
    (link h e a j).next = if j = a then e else if j = e then (h a).next else (h j).next := by
  simp only [link, setPrev_next, setNext_next, if_true]
  by_cases h1 : j = a
  · subst h1; simp
  · by_cases h2 : j = e
    · subst h2; simp [h1]
    · simp [h1, h2]

theorem link_prev (h : Heap) {e a : Nat} (hne : e ≠ a) (j : Nat) :
    (link h e a j).prev = if j = (h a).next then e else if j = e then a else (h j).prev := by
  simp only [link, setPrev_next, setNext_next, setPrev_prev, setNext_prev, if_true, if_neg hne]

@[simp] theorem link_owner (h : Heap) (e a j : Nat) : (link h e a j).owner = (h j).owner := by
  simp [link]
@[simp] theorem link_val (h : Heap) (e a j : Nat) : (link h e a j).val = (h j).val := by
  simp [link]

theorem unlink_next (h : Heap) (e j : Nat) :
    (unlink h e j).next = if j = (h e).prev then (h e).next else (h j).next := by
  simp [unlink]

theorem unlink_prev (h : Heap) {e : Nat} (hne : e ≠ (h e).prev) (j : Nat) :
    (unlink h e j).prev = if j = (h e).next then (h e).prev else (h j).prev := by
  simp [unlink, hne]

@[simp] theorem unlink_owner (h : Heap) (e j : Nat) : (unlink h e j).owner = (h j).owner := by
  simp [unlink]
@[simp] theorem unlink_val (h : Heap) (e j : Nat) : (unlink h e j).val = (h j).val := by
  simp [unlink]

/-! ### rings -/

def Linked (h : Heap) (full : List Nat) : Prop :=
  ∀ p ∈ pairs full, (h p.1).next = p.2 ∧ (h p.2).prev = p.1

def Ring (h : Heap) (r : Nat) (xs : List Nat) : Prop := Linked h (r :: xs ++ [r])

theorem ring_nil_iff (h : Heap) (r : Nat) : Ring h r [] ↔ (h r).next = r ∧ (h r).prev = r := by
  simp [Ring, Linked]

/-- sources of the ring's pairs -/
theorem full_dropLast (r : Nat) (xs : List Nat) : (r :: xs ++ [r]).dropLast = r :: xs := by
  rw [show r :: xs ++ [r] = (r :: xs) ++ [r] from rfl, List.dropLast_concat]

/-- targets of the ring's pairs -/
theorem full_tail (r : Nat) (xs : List Nat) : (r :: xs ++ [r]).tail = xs ++ [r] := rfl

theorem nodup_targets {r : Nat} {xs : List Nat} (h : (r :: xs).Nodup) : (xs ++ [r]).Nodup := by
  rw [List.nodup_cons] at h
  rw [List.nodup_append]
  refine ⟨h.2, by simp, ?_⟩
  intro a ha b hb
  simp only [List.mem_singleton] at hb
  subst hb
  intro e; subst e; exact h.1 ha

/-- Frame rule: a ring is unaffected by stores to nodes outside it. -/
theorem ring_congr {h h' : Heap} {r : Nat} {xs : List Nat}
    (hc : ∀ x ∈ r :: xs, (h' x).next = (h x).next ∧ (h' x).prev = (h x).prev) (hr : Ring h r xs) :
    Ring h' r xs := by
  intro p hp
  obtain ⟨m1, m2⟩ := mem_pairs hp
  rw [full_dropLast] at m1
  rw [full_tail] at m2
  have m2' : p.2 ∈ r :: xs := by
    rcases List.mem_append.1 m2 with k | k
    · exact List.mem_cons_of_mem _ k
    · simp only [List.mem_singleton] at k; rw [k]; exact List.mem_cons_self
  rw [(hc p.1 m1).1, (hc p.2 m2').2]
  exact hr p hp

/-- Reading a ring: the neighbours of an element. -/
theorem ring_at {h : Heap} {r : Nat} {pre post : List Nat} {e : Nat} (hr : Ring h r (pre ++ e :: post)) :
    (h e).next = post.head?.getD r ∧ (h e).prev = pre.getLast?.getD r := by
  constructor
  · cases post with
    | nil =>
      have : (e, r) ∈ pairs (r :: (pre ++ [e]) ++ [r]) := by
        have : r :: (pre ++ [e]) ++ [r] = (r :: pre) ++ e :: r :: [] := by simp
        rw [this]; exact mem_pairs_mid _ _ _ _
      simpa using (hr _ this).1
    | cons b T =>
      have : (e, b) ∈ pairs (r :: (pre ++ e :: b :: T) ++ [r]) := by
        have : r :: (pre ++ e :: b :: T) ++ [r] = (r :: pre) ++ e :: b :: (T ++ [r]) := by simp
        rw [this]; exact mem_pairs_mid _ _ _ _
      simpa using (hr _ this).1
  · by_cases hp : pre = []
    · subst hp
      have : (r, e) ∈ pairs (r :: ([] ++ e :: post) ++ [r]) := by
        have : r :: ([] ++ e :: post) ++ [r] = [] ++ r :: e :: (post ++ [r]) := by simp
        rw [this]; exact mem_pairs_mid _ _ _ _
      simpa using (hr _ this).2
    · obtain ⟨Q, a, hQ⟩ := snoc_of_ne_nil hp
      subst hQ
      have : (a, e) ∈ pairs (r :: ((Q ++ [a]) ++ e :: post) ++ [r]) := by
        have : r :: ((Q ++ [a]) ++ e :: post) ++ [r] = (r :: Q) ++ a :: e :: (post ++ [r]) := by simp
        rw [this]; exact mem_pairs_mid _ _ _ _
      simpa using (hr _ this).2

/-- The sentinel's neighbours: first and last element (or the sentinel itself). -/
theorem ring_root {h : Heap} {r : Nat} {xs : List Nat} (hr : Ring h r xs) :
    (h r).next = xs.head?.getD r ∧ (h r).prev = xs.getLast?.getD r := by
  constructor
  · cases xs with
    | nil => exact ((ring_nil_iff h r).1 hr).1
    | cons b T =>
      have : (r, b) ∈ pairs (r :: (b :: T) ++ [r]) := by
        have : r :: (b :: T) ++ [r] = [] ++ r :: b :: (T ++ [r]) := by simp
        rw [this]; exact mem_pairs_mid _ _ _ _
      simpa using (hr _ this).1
  · by_cases hp : xs = []
    · subst hp; exact ((ring_nil_iff h r).1 hr).2
    · obtain ⟨Q, a, hQ⟩ := snoc_of_ne_nil hp
      subst hQ
      have : (a, r) ∈ pairs (r :: (Q ++ [a]) ++ [r]) := by
        have : r :: (Q ++ [a]) ++ [r] = (r :: Q) ++ a :: r :: [] := by simp
        rw [this]; exact mem_pairs_mid _ _ _ _
      simpa using (hr _ this).2

/-- **Splice-in.** Linking a node `e` that is not in the ring after a ring node `a` yields the ring
with `e` inserted after `a`. -/
theorem ring_link {h : Heap} {r : Nat} {xs : List Nat} {e a : Nat}
    (hr : Ring h r xs) (hnd : (r :: xs).Nodup) (he : e ∉ r :: xs) (ha : a ∈ r :: xs) :
    Ring (link h e a) r (insAfter a e (r :: xs)).tail := by
  obtain ⟨P, S, hPS, haP⟩ := decomp_of_mem ha
  have hea : e ≠ a := fun k => he (k ▸ ha)
  -- the old ring around `a`
  cases hS : S ++ [r] with
  | nil => simp at hS
  | cons b T =>
  have hfull : r :: xs ++ [r] = P ++ a :: b :: T := by
    rw [show r :: xs ++ [r] = (r :: xs) ++ [r] from rfl, hPS]; simp [hS]
  have hfull' : r :: (insAfter a e (r :: xs)).tail ++ [r] = P ++ a :: e :: b :: T := by
    rw [show r :: (insAfter a e (r :: xs)).tail ++ [r] = (r :: (insAfter a e (r :: xs)).tail) ++ [r] from rfl,
      insAfter_cons_tail, hPS, insAfter_decomp e S haP]
    simp [hS]
  have hold : pairs (r :: xs ++ [r]) = pairs (P ++ [a]) ++ (a, b) :: pairs (b :: T) := by
    rw [hfull, pairs_append_cons]
  have hab : (h a).next = b := by
    have := (hr (a, b) (by rw [hold]; simp)).1
    simpa using this
  have hsep := pairs_sep (A := pairs (P ++ [a])) (B := pairs (b :: T)) (a := a) (b := b)
    (by rw [← hold, pairs_map_fst, full_dropLast]; exact hnd)
    (by rw [← hold, pairs_map_snd, full_tail]; exact nodup_targets hnd)
  have hbe : b ≠ e := by
    intro k
    have : b ∈ r :: xs ++ [r] := by rw [hfull]; simp
    rw [k] at this
    rcases List.mem_append.1 this with m | m
    · exact he m
    · simp only [List.mem_singleton] at m; exact he (m ▸ List.mem_cons_self)
  intro p hp
  show (link h e a p.1).next = p.2 ∧ (link h e a p.2).prev = p.1
  rw [hfull', pairs_append_cons, pairs_cons_cons] at hp
  rw [link_next h hea, link_prev h hea, hab]
  rcases List.mem_append.1 hp with m | m
  · -- an untouched pair before `a`
    have hold_p : p ∈ pairs (r :: xs ++ [r]) := by rw [hold]; exact List.mem_append_left _ m
    obtain ⟨s1, s2⟩ := hsep p (List.mem_append_left _ m)
    obtain ⟨m1, m2⟩ := mem_pairs hold_p
    rw [full_dropLast] at m1
    have q1 : p.1 ≠ e := fun k => he (k ▸ m1)
    have q2 : p.2 ≠ e := by
      intro k
      rw [full_tail] at m2
      rcases List.mem_append.1 m2 with m | m
      · exact he (k ▸ List.mem_cons_of_mem _ m)
      · simp only [List.mem_singleton] at m; exact he (k ▸ m ▸ List.mem_cons_self)
    rw [if_neg s1, if_neg q1, if_neg s2, if_neg q2]
    exact hr p hold_p
  · rcases List.mem_cons.1 m with rfl | m
    · simp [hbe.symm]
    · rcases List.mem_cons.1 m with rfl | m
      · simp [hea]
      · have hold_p : p ∈ pairs (r :: xs ++ [r]) := by
          rw [hold]; exact List.mem_append_right _ (List.mem_cons_of_mem _ m)
        obtain ⟨s1, s2⟩ := hsep p (List.mem_append_right _ m)
        obtain ⟨m1, m2⟩ := mem_pairs hold_p
        rw [full_dropLast] at m1
        have q1 : p.1 ≠ e := fun k => he (k ▸ m1)
        have q2 : p.2 ≠ e := by
          intro k
          rw [full_tail] at m2
          rcases List.mem_append.1 m2 with m | m
          · exact he (k ▸ List.mem_cons_of_mem _ m)
          · simp only [List.mem_singleton] at m; exact he (k ▸ m ▸ List.mem_cons_self)
        rw [if_neg s1, if_neg q1, if_neg s2, if_neg q2]
        exact hr p hold_p

/-- **Splice-out.** Unlinking a ring element yields the ring without it. -/
theorem ring_unlink {h : Heap} {r : Nat} {xs : List Nat} {e : Nat}
    (hr : Ring h r xs) (hnd : (r :: xs).Nodup) (he : e ∈ xs) :
    Ring (unlink h e) r (xs.erase e) := by
  obtain ⟨X, Y, hXY, heX⟩ := decomp_of_mem he
  subst hXY
  have her : e ≠ r := by
    intro k; rw [List.nodup_cons] at hnd; exact hnd.1 (k ▸ he)
  obtain ⟨Q, a, hQ⟩ := snoc_of_ne_nil (l := r :: X) (by simp)
  have hea : e ≠ a := by
    intro k
    have : a ∈ r :: X := by rw [hQ]; simp
    rcases List.mem_cons.1 this with m | m
    · exact her (k.trans m)
    · exact heX (k ▸ m)
  cases hY : Y ++ [r] with
  | nil => simp at hY
  | cons b T =>
  have hfull : r :: (X ++ e :: Y) ++ [r] = Q ++ a :: e :: b :: T := by
    have : r :: (X ++ e :: Y) ++ [r] = (r :: X) ++ e :: (Y ++ [r]) := by simp
    rw [this, hQ, hY]; simp
  have hfull' : r :: (X ++ e :: Y).erase e ++ [r] = Q ++ a :: b :: T := by
    rw [erase_decomp Y heX]
    have : r :: (X ++ Y) ++ [r] = (r :: X) ++ (Y ++ [r]) := by simp
    rw [this, hQ, hY]; simp
  have hold : pairs (r :: (X ++ e :: Y) ++ [r]) = pairs (Q ++ [a]) ++ (a, e) :: (e, b) :: pairs (b :: T) := by
    rw [hfull, pairs_append_cons, pairs_cons_cons]
  have hprev : (h e).prev = a := by
    have := (hr (a, e) (by rw [hold]; simp)).2
    simpa using this
  have hnext : (h e).next = b := by
    have := (hr (e, b) (by rw [hold]; simp)).1
    simpa using this
  have n1 : ((pairs (r :: (X ++ e :: Y) ++ [r])).map Prod.fst).Nodup := by
    rw [pairs_map_fst, full_dropLast]; exact hnd
  have n2 : ((pairs (r :: (X ++ e :: Y) ++ [r])).map Prod.snd).Nodup := by
    rw [pairs_map_snd, full_tail]; exact nodup_targets hnd
  have sepA := pairs_sep (A := pairs (Q ++ [a])) (B := (e, b) :: pairs (b :: T)) (a := a) (b := e)
    (by rw [← hold]; exact n1) (by rw [← hold]; exact n2)
  have sepB := pairs_sep (A := pairs (Q ++ [a]) ++ [(a, e)]) (B := pairs (b :: T)) (a := e) (b := b)
    (by have := n1; rw [hold] at this; simpa using this) (by have := n2; rw [hold] at this; simpa using this)
  intro p hp
  show (unlink h e p.1).next = p.2 ∧ (unlink h e p.2).prev = p.1
  rw [hfull', pairs_append_cons] at hp
  rw [unlink_next, unlink_prev h (by rw [hprev]; exact hea), hprev, hnext]
  rcases List.mem_append.1 hp with m | m
  · have s1 := (sepA p (List.mem_append_left _ m)).1
    have s2 := (sepB p (List.mem_append_left _ (List.mem_append_left _ m))).2
    rw [if_neg s1, if_neg s2]
    exact hr p (by rw [hold]; exact List.mem_append_left _ m)
  · rcases List.mem_cons.1 m with rfl | m
    · simp
    · have s1 := (sepA p (List.mem_append_right _ (List.mem_cons_of_mem _ m))).1
      have s2 := (sepB p (List.mem_append_right _ m)).2
      rw [if_neg s1, if_neg s2]
      exact hr p (by rw [hold]; exact List.mem_append_right _ (List.mem_cons_of_mem _ (List.mem_cons_of_mem _ m)))

/-- What `unlink` needs to know about `e`'s own pointers: they are ring nodes different from `e`. -/
theorem ring_self_ne {h : Heap} {r : Nat} {xs : List Nat} {e : Nat}
    (hr : Ring h r xs) (hnd : (r :: xs).Nodup) (he : e ∈ xs) :
    (h e).prev ≠ e ∧ (h e).next ≠ e ∧ (h e).prev ∈ r :: xs ∧ (h e).next ∈ r :: xs := by
  obtain ⟨X, Y, hXY, heX⟩ := decomp_of_mem he
  subst hXY
  obtain ⟨hn, hp⟩ := ring_at hr
  have her : e ≠ r := by
    intro k; rw [List.nodup_cons] at hnd; exact hnd.1 (k ▸ he)
  have hndx : (X ++ e :: Y).Nodup := (List.nodup_cons.1 hnd).2
  rw [List.nodup_append] at hndx
  obtain ⟨_, hY, hXYd⟩ := hndx
  rw [List.nodup_cons] at hY
  have pmem : X.getLast?.getD r ∈ r :: X := by
    cases hl : X.getLast? with
    | none => simp
    | some a => simp only [Option.getD_some]; exact List.mem_cons_of_mem _ (List.mem_of_getLast? hl)
  have nmem : Y.head?.getD r ∈ r :: Y := by
    cases hl : Y.head? with
    | none => simp
    | some a => simp only [Option.getD_some]; exact List.mem_cons_of_mem _ (List.mem_of_head? hl)
  refine ⟨?_, ?_, ?_, ?_⟩
  · rw [hp]; intro k
    rcases List.mem_cons.1 pmem with m | m
    · exact her (k.symm.trans m)
    · exact heX (k ▸ m)
  · rw [hn]; intro k
    rcases List.mem_cons.1 nmem with m | m
    · exact her (k.symm.trans m)
    · exact hY.1 (k ▸ m)
  · rw [hp]
    rcases List.mem_cons.1 pmem with m | m
    · rw [m]; exact List.mem_cons_self
    · exact List.mem_cons_of_mem _ (List.mem_append_left _ m)
  · rw [hn]
    rcases List.mem_cons.1 nmem with m | m
    · rw [m]; exact List.mem_cons_self
    · exact List.mem_cons_of_mem _ (List.mem_append_right _ (List.mem_cons_of_mem _ m))

/-! ### frames at node level -/

theorem node_ext {x y : Node} (h1 : x.prev = y.prev) (h2 : x.next = y.next) (h3 : x.owner = y.owner)
    (h4 : x.val = y.val) : x = y := by
  cases x; cases y; simp_all

theorem link_frame (h : Heap) {e a j : Nat} (h1 : j ≠ e) (h2 : j ≠ a) (h3 : j ≠ (h a).next) (hne : e ≠ a) :
    link h e a j = h j := by
  apply node_ext
  · rw [link_prev h hne, if_neg h3, if_neg h1]
  · rw [link_next h hne, if_neg h2, if_neg h1]
  · simp
  · simp

theorem unlink_frame (h : Heap) {e j : Nat} (h1 : j ≠ (h e).prev) (h2 : j ≠ (h e).next) (hne : e ≠ (h e).prev) :
    unlink h e j = h j := by
  apply node_ext
  · rw [unlink_prev h hne, if_neg h2]
  · rw [unlink_next, if_neg h1]
  · simp
  · simp

/-- The neighbours of a ring node are ring nodes. -/
theorem ring_next_mem {h : Heap} {r : Nat} {xs : List Nat} {a : Nat}
    (hr : Ring h r xs) (hnd : (r :: xs).Nodup) (ha : a ∈ r :: xs) : (h a).next ∈ r :: xs := by
  rcases List.mem_cons.1 ha with k | m
  · subst k
    rw [(ring_root hr).1]
    cases hx : xs.head? with
    | none => simp
    | some b => simp only [Option.getD_some]; exact List.mem_cons_of_mem _ (List.mem_of_head? hx)
  · exact (ring_self_ne hr hnd m).2.2.2

theorem ring_prev_mem {h : Heap} {r : Nat} {xs : List Nat} {a : Nat}
    (hr : Ring h r xs) (hnd : (r :: xs).Nodup) (ha : a ∈ r :: xs) : (h a).prev ∈ r :: xs := by
  rcases List.mem_cons.1 ha with k | m
  · subst k
    rw [(ring_root hr).2]
    cases hx : xs.getLast? with
    | none => simp
    | some b => simp only [Option.getD_some]; exact List.mem_cons_of_mem _ (List.mem_of_getLast? hx)
  · exact (ring_self_ne hr hnd m).2.2.1

end Hive.DList
