import Hive.Proofs.SerixRoundTrip
/-!
# Totality facts about the decoder model: consumed ≤ supplied, no panic
-/
namespace Hive.Serix
open Res

theorem readLen_ok {lp : LP} {b : Bytes} {l w : Nat} (h : readLen lp b = .ok (l, w)) :
    lp.width = some w ∧ w ≤ b.length ∧ l = leNat (b.take w) := by
  unfold readLen at h
  split at h
  · contradiction
  · rename_i w' hw
    split at h
    · contradiction
    · rename_i hl
      cases h
      exact ⟨hw, by omega, rfl⟩

theorem leBytes_leNat_take {b : Bytes} {w : Nat} (h : w ≤ b.length) :
    leBytes w (leNat (b.take w)) = b.take w := by
  have h1 := leBytes_leNat (b.take w)
  have h2 : (b.take w).length = w := by simp; omega
  rw [h2] at h1
  exact h1

theorem readCode_ok {code : Option Code} {b : Bytes} {cw : Nat} (h : readCode code b = .ok cw) :
    cw ≤ b.length ∧ codeBytes code = b.take cw := by
  cases code with
  | none => simp only [readCode] at h; cases h; simp [codeBytes]
  | some c =>
    simp only [readCode] at h
    split at h
    · contradiction
    · rename_i hl
      split at h
      · rename_i hc
        cases h
        refine ⟨by omega, ?_⟩
        have hc' : leNat (b.take c.den.width) = c.n := by simpa using hc
        simp only [codeBytes, Code.bytes, ← hc']
        exact leBytes_leNat_take (by omega)
      · contradiction

/-- Facts about the item loop: number of items, total consumption, and the consumed slices. -/
theorem decLoop_spec {item : Bytes → Res (Val × Nat)}
    (hle : ∀ b v n, item b = .ok (v, n) → n ≤ b.length) :
    ∀ (k : Nat) (b : Bytes) (items : List (Val × Bytes)) (m : Nat), decLoop item k b = .ok (items, m) →
      m ≤ b.length ∧ items.length = k ∧ (items.map (·.2)).flatten = b.take m ∧
      ∀ p ∈ items, ∃ b', item b' = .ok (p.1, p.2.length) ∧ p.2 = b'.take p.2.length
  | 0, b, items, m, h => by
    simp only [decLoop] at h
    cases h
    simp
  | k + 1, b, items, m, h => by
    simp only [decLoop, Res.bind_eq_ok, Res.pure_eq] at h
    obtain ⟨⟨v, n⟩, hv, ⟨rest, m'⟩, hrest, hc⟩ := h
    cases hc
    have hn := hle b v n hv
    obtain ⟨h1, h2, h3, h4⟩ := decLoop_spec hle k (b.drop n) rest m' hrest
    simp only [List.length_drop] at h1
    refine ⟨by omega, by simp [h2], ?_, ?_⟩
    · simp only [List.map_cons, List.flatten_cons, h3]
      rw [List.take_add, List.take_drop]
    · intro p hp
      rcases List.mem_cons.1 hp with rfl | hp'
      · refine ⟨b, ?_, ?_⟩
        · simp only [List.length_take, Nat.min_eq_left hn]; exact hv
        · simp only [List.length_take, Nat.min_eq_left hn]
      · exact h4 p hp'

theorem decSeqBody_ok {item : Bytes → Res (Val × Nat)} {r : Rules} {o : Opts} {count w : Nat} {b : Bytes}
    {items : List (Val × Bytes)} {n : Nat} (h : decSeqBody item r o count w b = .ok (items, n)) :
    ∃ m, n = w + m ∧ decLoop item count (b.drop w) = .ok (items, m) ∧
      (o.validation = true → r.boundsOk count = true ∧ validSeq r (items.map (·.2)) = true) := by
  unfold decSeqBody at h
  simp only [Res.bind_eq_ok, Res.require_eq_ok_iff, exists_and_left, exists_const, Res.pure_eq] at h
  obtain ⟨hb, ⟨items', m⟩, hloop, hv, hc⟩ := h
  cases hc
  refine ⟨m, rfl, hloop, ?_⟩
  intro hval
  simp only [hval, Bool.not_true, Bool.false_or] at hb hv
  exact ⟨hb, hv⟩

/-- A decoder never reports more consumed bytes than it was given. -/
def CL (t : Ty) : Prop := ∀ (b : Bytes) (o : Opts) (v : Val) (n : Nat), dec t b o = .ok (v, n) → n ≤ b.length

theorem decKV_le {k v : Ty} (hk : CL k) (hv : CL v) (o : Opts) (b : Bytes) (x : Val) (n : Nat)
    (h : decKV (fun b => dec k b o) (fun b => dec v b o) b = .ok (x, n)) : n ≤ b.length := by
  simp only [decKV, Res.bind_eq_ok, Res.pure_eq] at h
  obtain ⟨⟨kk, n1⟩, h1, ⟨vv, n2⟩, h2, hc⟩ := h
  cases hc
  have := hk b o kk n1 h1
  have := hv (b.drop n1) o vv n2 h2
  simp only [List.length_drop] at this
  omega

mutual
theorem cl_ty : ∀ (t : Ty), CL t
  | .bool => by
    intro b o v n h
    simp only [dec] at h
    split at h
    · contradiction
    · split at h
      · cases h; simp
      · split at h
        · cases h; simp
        · contradiction
  | .uint w => by
    intro b o v n h
    simp only [dec] at h
    split at h
    · contradiction
    · cases h; omega
  | .float w => by
    intro b o v n h
    simp only [dec] at h
    split at h
    · contradiction
    · cases h; omega
  | .int w => by
    intro b o v n h
    simp only [dec] at h
    split at h
    · contradiction
    · cases h; omega
  | .str lp mn mx => by
    intro b o v n h
    simp only [dec, Res.bind_eq_ok, Res.require_eq_ok_iff, exists_and_left, exists_const] at h
    obtain ⟨⟨l, w⟩, hr, _, h⟩ := h
    obtain ⟨_, hw, _⟩ := readLen_ok hr
    split at h
    · contradiction
    · simp only [Res.bind_eq_ok, Res.require_eq_ok_iff, exists_and_left, exists_const, Res.pure_eq] at h
      obtain ⟨_, hc⟩ := h
      cases hc
      simp only [List.length_drop] at *
      omega
  | .bytes lp mn mx => by
    intro b o v n h
    simp only [dec, Res.bind_eq_ok, Res.require_eq_ok_iff, exists_and_left, exists_const] at h
    obtain ⟨⟨l, w⟩, hr, _, h⟩ := h
    obtain ⟨_, hw, _⟩ := readLen_ok hr
    split at h
    · contradiction
    · cases h
      simp only [List.length_drop] at *
      omega
  | .byteArr len code mn mx => by
    intro b o v n h
    simp only [dec, Res.bind_eq_ok, Res.require_eq_ok_iff, exists_and_left, exists_const] at h
    obtain ⟨_, cw, hc, h⟩ := h
    obtain ⟨hcw, _⟩ := readCode_ok hc
    split at h
    · contradiction
    · cases h
      simp only [List.length_drop] at *
      omega
  | .u256 => by
    intro b o v n h
    simp only [dec] at h
    split at h
    · contradiction
    · cases h; omega
  | .time => by
    intro b o v n h
    simp only [dec] at h
    split at h
    · contradiction
    · split at h
      · contradiction
      · cases h; omega
  | .custom code fixed => by
    intro b o v n h
    simp only [dec, Res.bind_eq_ok] at h
    obtain ⟨cw, hc, h⟩ := h
    obtain ⟨hcw, _⟩ := readCode_ok hc
    split at h
    · contradiction
    · rename_i x rest hd
      have hl : (b.drop cw).length = rest.length + 1 := by rw [hd]; rfl
      simp only [List.length_drop] at hl
      split at h
      · contradiction
      · split at h
        · cases h; omega
        · contradiction
  | .slice lp r e => by
    intro b o v n h
    simp only [dec, Res.bind_eq_ok, Res.pure_eq] at h
    obtain ⟨⟨count, w⟩, hr, ⟨items, n'⟩, hbody, _, _, hc⟩ := h
    cases hc
    obtain ⟨_, hw, _⟩ := readLen_ok hr
    obtain ⟨m, rfl, hloop, _⟩ := decSeqBody_ok hbody
    obtain ⟨hm, _⟩ := decLoop_spec (fun b v n h => cl_ty e b o v n h) _ _ _ _ hloop
    simp only [List.length_drop] at hm
    omega
  | .array len lp r e => by
    intro b o v n h
    simp only [dec, Res.bind_eq_ok, Res.require_eq_ok_iff, exists_and_left, exists_const] at h
    obtain ⟨⟨count, w⟩, hr, _, h⟩ := h
    split at h
    · contradiction
    · simp only [Res.bind_eq_ok, Res.pure_eq] at h
      obtain ⟨⟨items, n'⟩, hbody, _, _, hc⟩ := h
      cases hc
      obtain ⟨_, hw, _⟩ := readLen_ok hr
      obtain ⟨m, rfl, hloop, _⟩ := decSeqBody_ok hbody
      obtain ⟨hm, _⟩ := decLoop_spec (fun b v n h => cl_ty e b o v n h) _ _ _ _ hloop
      simp only [List.length_drop] at hm
      omega
  | .map lp r k v' => by
    intro b o v n h
    simp only [dec, Res.bind_eq_ok, Res.require_eq_ok_iff, exists_and_left, exists_const, Res.pure_eq] at h
    obtain ⟨⟨count, w⟩, hr, ⟨items, n'⟩, hbody, _, hc⟩ := h
    cases hc
    obtain ⟨_, hw, _⟩ := readLen_ok hr
    obtain ⟨m, rfl, hloop, _⟩ := decSeqBody_ok hbody
    obtain ⟨hm, _⟩ := decLoop_spec (decKV_le (cl_ty k) (cl_ty v') o) _ _ _ _ hloop
    simp only [List.length_drop] at hm
    omega
  | .struct code fs => by
    intro b o v n h
    simp only [dec, Res.bind_eq_ok, Res.pure_eq] at h
    obtain ⟨cw, hc, ⟨vs, m⟩, hf, hc'⟩ := h
    cases hc'
    obtain ⟨hcw, _⟩ := readCode_ok hc
    have := cl_fields fs (b.drop cw) o vs m hf
    simp only [List.length_drop] at this
    omega
  | .ptr t => by
    intro b o v n h
    simp only [dec, Res.bind_eq_ok, Res.pure_eq] at h
    obtain ⟨⟨v', n'⟩, h', hc⟩ := h
    cases hc
    exact cl_ty t b o v' _ h'
  | .iface den alts => by
    intro b o v n h
    simp only [dec] at h
    split at h
    · contradiction
    · exact cl_alts alts _ b o v n h
theorem cl_fields : ∀ (fs : Fields) (b : Bytes) (o : Opts) (vs : List Val) (n : Nat),
    decFields fs b o = .ok (vs, n) → n ≤ b.length
  | .nil, b, o, vs, n, h => by simp only [decFields] at h; cases h; omega
  | .cons false t rest, b, o, vs, n, h => by
    simp only [decFields, Res.bind_eq_ok, Res.pure_eq] at h
    obtain ⟨⟨v, n1⟩, h1, ⟨vs', m⟩, h2, hc⟩ := h
    cases hc
    have := cl_ty t b o v n1 h1
    have := cl_fields rest (b.drop n1) o vs' m h2
    simp only [List.length_drop] at this
    omega
  | .cons true t rest, b, o, vs, n, h => by
    simp only [decFields] at h
    split at h
    · contradiction
    · rename_i hl
      split at h
      · simp only [Res.bind_eq_ok, Res.pure_eq] at h
        obtain ⟨⟨vs', m⟩, h2, hc⟩ := h
        cases hc
        have := cl_fields rest (b.drop 4) o vs' m h2
        simp only [List.length_drop] at this
        omega
      · simp only [Res.bind_eq_ok] at h
        obtain ⟨⟨v, n1⟩, h1, h⟩ := h
        split at h
        · contradiction
        · simp only [Res.bind_eq_ok, Res.pure_eq] at h
          obtain ⟨⟨vs', m⟩, h2, hc⟩ := h
          cases hc
          have := cl_ty t (b.drop 4) o v n1 h1
          have := cl_fields rest (b.drop (4 + n1)) o vs' m h2
          simp only [List.length_drop] at *
          omega
  | .emb ptr fs rest, b, o, vs, n, h => by
    simp only [decFields, Res.bind_eq_ok, Res.pure_eq] at h
    obtain ⟨⟨ws, n1⟩, h1, ⟨vs', m⟩, h2, hc⟩ := h
    cases hc
    have := cl_fields fs b o ws n1 h1
    have := cl_fields rest (b.drop n1) o vs' m h2
    simp only [List.length_drop] at this
    omega
theorem cl_alts : ∀ (alts : Alts) (code : Nat) (b : Bytes) (o : Opts) (v : Val) (n : Nat),
    decAlts alts code b o = .ok (v, n) → n ≤ b.length
  | .nil, _, _, _, _, _, h => by simp [decAlts] at h
  | .cons c t rest, code, b, o, v, n, h => by
    simp only [decAlts] at h
    split at h
    · simp only [Res.bind_eq_ok, Res.pure_eq] at h
      obtain ⟨⟨v', n'⟩, h', hc⟩ := h
      cases hc
      exact cl_ty t b o v' _ h'
    · exact cl_alts rest code b o v n h
end

end Hive.Serix
