import Hive.Proofs.DerivedVar
namespace Hive.Derived
open Hive.Conc
variable {n : Nat} {f : (Nat → Int) → Int} {s s' : DVS} {t t' : DVT} {pre post : List DVT}

/-! ## Coverage of stale reads by threads in flight -/

def committing : DVT → Bool
  | .comp _ _ _ [] _ => true
  | _ => false

theorem committing_holdsD {t : DVT} (h : committing t = true) : holdsD t = true := by
  cases t with
  | comp i v snap todo k => rfl
  | _ => simp [committing] at h

/-- a thread stays in flight until it commits -/
theorem inflight_keep (hs : DVStep n f s t s' t') (j : Nat) (hin : inflight j t = true) :
    inflight j t' = true ∨ committing t = true := by
  cases hs <;> simp_all [inflight, committing]

/-- every change of a (now) registered input, and every registration, puts the moving thread in flight -/
theorem cover (hs : DVStep n f s t s' t') (j : Nat) (hreg : s'.reg j = true)
    (hch : s.reg j = false ∨ s'.val j ≠ s.val j) : inflight j t' = true := by
  cases hs with
  | write i v sc hv hr =>
    by_cases hij : j = i
    · simp [inflight, hij]
    · rcases hch with h | h
      · simp [show s.reg j = true from hreg] at h
      · simp [setAt, hij] at h
  | writeU i v sc hv hr =>
    by_cases hij : j = i
    · subst hij; simp [hr] at hreg
    · rcases hch with h | h
      · simp [show s.reg j = true from hreg] at h
      · simp [setAt, hij] at h
  | register i rest he hr =>
    by_cases hij : j = i
    · simp [inflight, hij]
    · rcases hch with h | h
      · simp [setAt, hij, h] at hreg
      · exact absurd rfl h
  | _ =>
    rcases hch with h | h
    · simp [show s.reg j = true from hreg] at h
    · exact absurd rfl h

/-- the reads done so far by a recompute are current, or covered by a thread in flight -/
def compOK (n : Nat) (val : Nat → Int) (reg : Nat → Bool) (ts : List DVT) : DVT → Prop
  | .comp i _ snap todo _ => ∀ j, j ≠ i → j < n → j ∉ todo → reg j = true → snap j ≠ val j →
      ∃ w ∈ ts, inflight j w = true
  | _ => True

def I3 (n : Nat) (s : DVS) (ts : List DVT) : Prop := ∀ u ∈ ts, compOK n s.val s.reg ts u

theorem I3_pres (hE : E3 s (pre ++ t :: post)) (h : I3 n s (pre ++ t :: post)) (hs : DVStep n f s t s' t') :
    I3 n s' (pre ++ t' :: post) := by
  intro u hu
  rcases mem_mid.1 hu with rfl | hu2
  · have ht := h t mem_mid_self
    cases hs with
    | begin i v k hd =>
      intro j hji hjn hjt
      exact absurd (by simp [List.mem_filter, hjn, hji]) hjt
    | read i v snap j0 todo k =>
      intro j hji hjn hjt hreg hne
      by_cases hj0 : j = j0
      · subst hj0; simp at hne
      · rw [setAt_other _ _ _ _ hj0] at hne
        exact exists_mid (ht j hji hjn (by simp [hj0, hjt]) hreg hne) (by simp [inflight])
    | _ => trivial
  · have hu' := h u (mem_mid_rest hu2)
    cases u with
    | comp i v snap todo k =>
      intro j hji hjn hjt hreg hne
      by_cases hc : s.reg j = true ∧ s'.val j = s.val j
      · rw [hc.2] at hne
        refine exists_mid (hu' j hji hjn hjt hc.1 hne) (fun hin => ?_)
        rcases inflight_keep hs j hin with h' | h'
        · exact h'
        · have := excl_of_count hE (committing_holdsD h') hu2
          simp [holdsD] at this
      · refine exists_new (cover hs j hreg ?_)
        cases hr : s.reg j with
        | false => exact Or.inl rfl
        | true => exact Or.inr (fun e => hc ⟨hr, e⟩)
    | _ => trivial

/-! ## The committed vector -/

/-- every difference between the committed vector and the inputs is covered by a thread in flight -/
def I2 (s : DVS) (ts : List DVT) : Prop :=
  ∀ j, s.reg j = true → s.seen j ≠ s.val j → ∃ w ∈ ts, inflight j w = true

theorem isWrote_inflight {j : Nat} {w : DVT} (h : isWrote j w = true) : inflight j w = true := by
  cases w <;> simp_all [isWrote, inflight]

theorem seen_same (hs : DVStep n f s t s' t') (hnc : committing t = false) : s'.seen = s.seen := by
  cases hs <;> first | rfl | simp [committing] at hnc

theorem I2_pres (h3 : I3 n s (pre ++ t :: post)) (h4 : I4 s (pre ++ t :: post)) (h6 : I6 s (pre ++ t :: post))
    (h7 : I7 n s) (h : I2 s (pre ++ t :: post)) (hs : DVStep n f s t s' t') : I2 s' (pre ++ t' :: post) := by
  intro j hreg hne
  cases hcm : committing t with
  | false =>
    rw [seen_same hs hcm] at hne
    by_cases hc : s.reg j = true ∧ s'.val j = s.val j
    · rw [hc.2] at hne
      refine exists_mid (h j hc.1 hne) (fun hin => ?_)
      rcases inflight_keep hs j hin with h' | h'
      · exact h'
      · simp [hcm] at h'
    · refine exists_new (cover hs j hreg ?_)
      cases hr : s.reg j with
      | false => exact Or.inl rfl
      | true => exact Or.inr (fun e => hc ⟨hr, e⟩)
  | true =>
    have ht3 := h3 t mem_mid_self
    have ht4 := h4 t mem_mid_self
    have ht6 := h6 t mem_mid_self
    cases hs with
    | commit i v snap k =>
      by_cases hij : j = i
      · subst hij
        have hne' : s.val j ≠ v := by
          intro e; apply hne; simp [e]
        cases hk : k.isW with
        | true => exact absurd (ht6 hk) hne'
        | false =>
          obtain ⟨w, hw, hq⟩ := exists_mid (ht4 hk hne') (t' := DVT.rel1 j k) (by simp [isWrote])
          exact ⟨w, hw, isWrote_inflight hq⟩
      · have hne' : snap j ≠ s.val j := by
          intro e; apply hne; simp [setAt, hij, e]
        exact exists_mid (ht3 j hij (h7 j hreg) (by simp) hreg hne') (by simp [inflight, hij])
    | _ => simp [committing] at hcm

end Hive.Derived
