import Hive.Model.C12bTimeHeap
/-!
# The float32 model of `TimeHeap.AveragePerSecond` (`TH.f32OfRat`): the mantissa is normalised

`f32OfRat n d` picks its exponent from the bit lengths of `n` and `d` (`Nat.log2`), corrects it by one if
needed and rounds the quotient at that exponent half-even.  Here: the integer quotient at the first exponent
lies in `[2^22, 2^24)`, lowering the exponent by one doubles it (up to the rounding bit), so the mantissa that
is returned always has exactly 24 bits.
-/
namespace Hive.C12b.TH

theorem q0_bounds_nonneg (n d k : Nat) (hn : n ≠ 0) (hd : d ≠ 0) (hk : n.log2 = d.log2 + 23 + k) :
    2 ^ 22 ≤ n / (d * 2 ^ k) ∧ n / (d * 2 ^ k) < 2 ^ 24 := by
  have hL1 := Nat.log2_self_le hn
  have hL2 := @Nat.lt_log2_self n
  have hM1 := Nat.log2_self_le hd
  have hM2 := @Nat.lt_log2_self d
  have hpos : 0 < d * 2 ^ k := Nat.mul_pos (Nat.pos_of_ne_zero hd) (Nat.pow_pos (by decide))
  constructor
  · rw [Nat.le_div_iff_mul_le hpos]
    calc 2 ^ 22 * (d * 2 ^ k) ≤ 2 ^ 22 * (2 ^ (d.log2 + 1) * 2 ^ k) :=
          Nat.mul_le_mul_left _ (Nat.mul_le_mul_right _ (Nat.le_of_lt hM2))
      _ = 2 ^ n.log2 := by rw [← Nat.pow_add, ← Nat.pow_add]; congr 1; omega
      _ ≤ n := hL1
  · rw [Nat.div_lt_iff_lt_mul hpos]
    calc n < 2 ^ (n.log2 + 1) := hL2
      _ = 2 ^ 24 * (2 ^ d.log2 * 2 ^ k) := by rw [← Nat.pow_add, ← Nat.pow_add]; congr 1; omega
      _ ≤ 2 ^ 24 * (d * 2 ^ k) := Nat.mul_le_mul_left _ (Nat.mul_le_mul_right _ hM1)

theorem q0_bounds_neg (n d j : Nat) (hn : n ≠ 0) (hd : d ≠ 0) (hj : n.log2 + j = d.log2 + 23) :
    2 ^ 22 ≤ n * 2 ^ j / d ∧ n * 2 ^ j / d < 2 ^ 24 := by
  have hL1 := Nat.log2_self_le hn
  have hL2 := @Nat.lt_log2_self n
  have hM1 := Nat.log2_self_le hd
  have hM2 := @Nat.lt_log2_self d
  have hpos : 0 < d := Nat.pos_of_ne_zero hd
  constructor
  · rw [Nat.le_div_iff_mul_le hpos]
    calc 2 ^ 22 * d ≤ 2 ^ 22 * 2 ^ (d.log2 + 1) := Nat.mul_le_mul_left _ (Nat.le_of_lt hM2)
      _ = 2 ^ n.log2 * 2 ^ j := by rw [← Nat.pow_add, ← Nat.pow_add]; congr 1; omega
      _ ≤ n * 2 ^ j := Nat.mul_le_mul_right _ hL1
  · rw [Nat.div_lt_iff_lt_mul hpos]
    calc n * 2 ^ j < 2 ^ (n.log2 + 1) * 2 ^ j := (Nat.mul_lt_mul_right (Nat.pow_pos (by decide))).2 hL2
      _ = 2 ^ 24 * 2 ^ d.log2 := by rw [← Nat.pow_add, ← Nat.pow_add]; congr 1; omega
      _ ≤ 2 ^ 24 * d := Nat.mul_le_mul_left _ hM1

theorem div_half (n D : Nat) : 2 * (n / (D * 2)) ≤ n / D ∧ n / D ≤ 2 * (n / (D * 2)) + 1 := by
  rw [← Nat.div_div_eq_div_mul]; omega

theorem div_double (N d : Nat) (hd : 0 < d) : 2 * (N / d) ≤ N * 2 / d ∧ N * 2 / d ≤ 2 * (N / d) + 1 := by
  have h1 := Nat.div_add_mod N d
  have h2 := Nat.mod_lt N hd
  constructor
  · rw [Nat.le_div_iff_mul_le hd]
    have : 2 * (N / d) * d = 2 * (d * (N / d)) := by rw [Nat.mul_assoc, Nat.mul_comm (N / d) d]
    omega
  · have : N * 2 / d < 2 * (N / d) + 2 := by
      rw [Nat.div_lt_iff_lt_mul hd]
      have : (2 * (N / d) + 2) * d = 2 * (d * (N / d)) + 2 * d := by
        rw [Nat.add_mul, Nat.mul_assoc, Nat.mul_comm (N / d) d]
      omega
    omega

theorem roundDiv_range (N D : Nat) : N / D ≤ roundDiv N D ∧ roundDiv N D ≤ N / D + 1 := by
  unfold roundDiv; simp only; split <;> omega

theorem f32Q_e0 (n d : Nat) (hn : n ≠ 0) (hd : d ≠ 0) :
    2 ^ 22 ≤ f32Q n d ((n.log2 : Int) - (d.log2 : Int) - 23) ∧
    f32Q n d ((n.log2 : Int) - (d.log2 : Int) - 23) < 2 ^ 24 := by
  by_cases h : d.log2 + 23 ≤ n.log2
  · have he : ((n.log2 : Int) - (d.log2 : Int) - 23) = ((n.log2 - (d.log2 + 23) : Nat) : Int) := by omega
    rw [he]
    have hge : ((n.log2 - (d.log2 + 23) : Nat) : Int) ≥ 0 := Int.natCast_nonneg _
    simp only [f32Q, f32Scale, hge, ↓reduceIte, Int.toNat_natCast]
    exact q0_bounds_nonneg n d _ hn hd (by omega)
  · have he : ((n.log2 : Int) - (d.log2 : Int) - 23) = -((d.log2 + 23 - n.log2 : Nat) : Int) := by omega
    rw [he]
    have hlt : ¬ (-((d.log2 + 23 - n.log2 : Nat) : Int) ≥ 0) := by omega
    simp only [f32Q, f32Scale, hlt, ↓reduceIte, Int.neg_neg, Int.toNat_natCast]
    exact q0_bounds_neg n d _ hn hd (by omega)

theorem f32Q_pred (n d : Nat) (hd : d ≠ 0) (e : Int) :
    2 * f32Q n d e ≤ f32Q n d (e - 1) ∧ f32Q n d (e - 1) ≤ 2 * f32Q n d e + 1 := by
  have hd0 : 0 < d := Nat.pos_of_ne_zero hd
  rcases Int.lt_trichotomy e 0 with hneg | hzero | hpos
  · -- e = -(j+1)
    obtain ⟨j, rfl⟩ : ∃ j : Nat, e = -((j + 1 : Nat) : Int) := ⟨(-e).toNat - 1, by omega⟩
    have h1 : ¬ (-((j + 1 : Nat) : Int) ≥ 0) := by omega
    have h2 : ¬ (-((j + 1 : Nat) : Int) - 1 ≥ 0) := by omega
    have h3 : (-(-((j + 1 : Nat) : Int) - 1)).toNat = j + 2 := by omega
    simp only [f32Q, f32Scale, h1, h2, ↓reduceIte, Int.neg_neg, Int.toNat_natCast, h3]
    have := div_double (n * 2 ^ (j + 1)) d hd0
    rw [show n * 2 ^ (j + 2) = n * 2 ^ (j + 1) * 2 by rw [Nat.pow_succ, Nat.mul_assoc]]
    exact this
  · subst hzero
    have h2 : ¬ ((0 : Int) - 1 ≥ 0) := by omega
    have h3 : (-((0 : Int) - 1)).toNat = 1 := by omega
    simp only [f32Q, f32Scale, h2, ↓reduceIte, h3, Int.toNat_zero, Nat.pow_zero, Nat.mul_one, Nat.pow_one,
      ge_iff_le, Int.le_refl]
    exact div_double n d hd0
  · obtain ⟨k, rfl⟩ : ∃ k : Nat, e = ((k + 1 : Nat) : Int) := ⟨e.toNat - 1, by omega⟩
    have h1 : ((k + 1 : Nat) : Int) ≥ 0 := by omega
    have h2 : ((k + 1 : Nat) : Int) - 1 ≥ 0 := by omega
    have h3 : (((k + 1 : Nat) : Int) - 1).toNat = k := by omega
    simp only [f32Q, f32Scale, h1, h2, ↓reduceIte, Int.toNat_natCast, h3]
    have := div_half n (d * 2 ^ k)
    rw [show d * 2 ^ (k + 1) = d * 2 ^ k * 2 by rw [Nat.pow_succ, Nat.mul_assoc]]
    exact this

theorem f32OfRat_normal (n d : Nat) (hn : n ≠ 0) (hd : d ≠ 0) :
    2 ^ 23 ≤ (f32OfRat n d).1 ∧ (f32OfRat n d).1 < 2 ^ 24 := by
  have hq0 := f32Q_e0 n d hn hd
  have hp := f32Q_pred n d hd ((n.log2 : Int) - (d.log2 : Int) - 23)
  unfold f32OfRat
  simp only [hn, hd, or_self, ↓reduceIte]
  generalize ((n.log2 : Int) - (d.log2 : Int) - 23) = e0 at *
  have h24 : ¬ (f32Q n d e0 ≥ 2 ^ 24) := by omega
  simp only [h24, ↓reduceIte]
  by_cases h23 : f32Q n d e0 < 2 ^ 23
  · simp only [h23, ↓reduceIte]
    have hr := roundDiv_range (f32Scale n d (e0 - 1)).1 (f32Scale n d (e0 - 1)).2
    have hq : (f32Scale n d (e0 - 1)).1 / (f32Scale n d (e0 - 1)).2 = f32Q n d (e0 - 1) := rfl
    rw [hq] at hr
    split
    · simp
    · simp only; omega
  · simp only [h23, ↓reduceIte]
    have hr := roundDiv_range (f32Scale n d e0).1 (f32Scale n d e0).2
    have hq : (f32Scale n d e0).1 / (f32Scale n d e0).2 = f32Q n d e0 := rfl
    rw [hq] at hr
    split
    · simp
    · simp only; omega

end Hive.C12b.TH
