import Hive.Spec.Ads
/-!
# Helper lemmas and the invariant for C09

* association-list and sorted-insertion lemmas;
* `Inv`: the raw-key mirror lists exactly the keys of the trie, without duplicates; the stored size
  is their number; the stored root is the root of what was flushed;
* `Clean`: the in-memory trie holds what the last `Commit` flushed (a *commit point*);
* `CleanFrom`: every `reopen` of a history happens at a commit point;
* `step_inv`, `step_abs`: the invariant and the abstraction to the plain map are preserved.
-/
namespace Hive.Ads

/-! ## association lists -/

theorem kvGet_kvErase (k k' : Key) (l : KV) :
    kvGet k' (kvErase k l) = if k' = k then none else kvGet k' l := by
  induction l with
  | nil => simp [kvErase, kvGet]
  | cons p l ih =>
    obtain ⟨a, v⟩ := p
    by_cases h : a = k
    · subst h
      by_cases h' : k' = a
      · subst h'; simp [kvErase, ih]
      · have : ¬ a = k' := fun e => h' e.symm
        simp [kvErase, ih, kvGet, h', this]
    · by_cases h' : k' = k
      · subst h'
        simp [kvErase, h, kvGet, ih]
      · simp [kvErase, h, kvGet, ih, h']

theorem kvGet_kvPut (k k' : Key) (v : Val) (l : KV) :
    kvGet k' (kvPut k v l) = if k' = k then some v else kvGet k' l := by
  by_cases h : k' = k
  · subst h; simp [kvPut, kvGet]
  · have : ¬ k = k' := fun e => h e.symm
    simp [kvPut, kvGet, this, kvGet_kvErase, h]

/-! ## the raw-key mirror -/

theorem mem_insertAt (k x : Key) (l : List Key) : x ∈ insertAt k l ↔ x = k ∨ x ∈ l := by
  induction l with
  | nil => simp [insertAt]
  | cons y ys ih =>
    unfold insertAt
    cases h2 : ltBytes k y
    · simp only [Bool.false_eq_true, if_false, List.mem_cons, ih]
      constructor
      · intro h
        rcases h with h | h | h
        · exact Or.inr (Or.inl h)
        · exact Or.inl h
        · exact Or.inr (Or.inr h)
      · intro h
        rcases h with h | h | h
        · exact Or.inr (Or.inl h)
        · exact Or.inl h
        · exact Or.inr (Or.inr h)
    · simp

theorem length_insertAt (k : Key) (l : List Key) : (insertAt k l).length = l.length + 1 := by
  induction l with
  | nil => simp [insertAt]
  | cons y ys ih =>
    unfold insertAt
    cases h2 : ltBytes k y <;> simp [ih]

theorem nodup_insertAt (k : Key) (l : List Key) (hk : k ∉ l) (hl : l.Nodup) : (insertAt k l).Nodup := by
  induction l with
  | nil => simp [insertAt]
  | cons y ys ih =>
    unfold insertAt
    have hy : k ≠ y := fun e => hk (by simp [e])
    have hys : k ∉ ys := fun e => hk (List.mem_cons_of_mem _ e)
    rw [List.nodup_cons] at hl
    cases h2 : ltBytes k y
    · simp only [Bool.false_eq_true, if_false]
      rw [List.nodup_cons]
      refine ⟨?_, ih hys hl.2⟩
      rw [mem_insertAt]
      intro e
      rcases e with e | e
      · exact hy e.symm
      · exact hl.1 e
    · simp only [if_true]
      rw [List.nodup_cons]
      exact ⟨hk, List.nodup_cons.mpr hl⟩

theorem mem_insertSorted (k x : Key) (l : List Key) : x ∈ insertSorted k l ↔ x = k ∨ x ∈ l := by
  unfold insertSorted
  by_cases h : k ∈ l
  · simp only [h, if_true]
    constructor
    · exact Or.inr
    · intro e
      rcases e with e | e
      · exact e ▸ h
      · exact e
  · simp only [h, if_false]; exact mem_insertAt k x l

theorem nodup_insertSorted (k : Key) (l : List Key) (hl : l.Nodup) : (insertSorted k l).Nodup := by
  unfold insertSorted
  by_cases h : k ∈ l
  · simpa [h] using hl
  · simpa [h] using nodup_insertAt k l h hl

theorem length_insertSorted (k : Key) (l : List Key) :
    (insertSorted k l).length = if k ∈ l then l.length else l.length + 1 := by
  unfold insertSorted
  by_cases h : k ∈ l <;> simp [h, length_insertAt]

theorem length_filter_ne (k : Key) (l : List Key) (hl : l.Nodup) (hk : k ∈ l) :
    (l.filter (· ≠ k)).length + 1 = l.length := by
  induction l with
  | nil => simp at hk
  | cons y ys ih =>
    rw [List.nodup_cons] at hl
    by_cases h : y = k
    · subst h
      have : ys.filter (· ≠ y) = ys := by
        apply List.filter_eq_self.mpr
        intro a ha
        have : a ≠ y := fun e => hl.1 (e ▸ ha)
        simpa using this
      rw [List.filter_cons]
      simp only [ne_eq, not_true_eq_false, decide_false, Bool.false_eq_true, if_false, this, List.length_cons]
    · have hk' : k ∈ ys := by
        rcases List.mem_cons.mp hk with e | e
        · exact absurd e.symm h
        · exact e
      rw [List.filter_cons]
      simp only [ne_eq, h, not_false_eq_true, decide_true, if_true, List.length_cons, ih hl.2 hk']

/-! ## invariant, commit points, abstraction -/

variable {R : Type}

/-- The plain map a state stands for: the contents of its trie. -/
def abs (s : St R) : Spec.SMap := s.trie.fn

structure Inv (c : Cfg R) (s : St R) : Prop where
  nodup : s.rawKeys.Nodup
  mem : ∀ k, k ∈ s.rawKeys ↔ (kvGet k s.trie.mem).isSome = true
  size : sizeOf s = (s.rawKeys.length : Int)
  root : s.rootKey = s.trie.disk.map (fun d => c.rootOf (fun k => kvGet k d))

/-- A commit point: the in-memory trie holds exactly what the last `Commit` flushed (nothing, if
there was none). -/
def Clean (s : St R) : Prop := ∀ k, kvGet k s.trie.mem = kvGet k (s.trie.disk.getD [])

/-- Every `reopen` of the history happens at a commit point. -/
def CleanFrom (c : Cfg R) (s : St R) : List Op → Prop
  | [] => True
  | op :: ops => (op = .reopen → Clean s) ∧ CleanFrom c (step c s op).1 ops

theorem inv_init (c : Cfg R) : Inv c (init : St R) := by
  constructor <;> simp [init, Trie.fresh, kvGet, sizeOf]

theorem clean_init : Clean (init : St R) := by
  intro k; simp [init, Trie.fresh]

theorem has_iff_mem {c : Cfg R} {s : St R} (h : Inv c s) (k : Key) : has s k = true ↔ k ∈ s.rawKeys := by
  rw [h.mem k]; rfl

theorem step_get_fst (c : Cfg R) (s : St R) (k : Option Key) : (step c s (.get k)).1 = s := by
  cases k with
  | none => rfl
  | some kb =>
    simp only [step]
    repeat' split
    all_goals rfl

theorem step_inv (c : Cfg R) (s : St R) (op : Op) (h : Inv c s) (hc : op = .reopen → Clean s) :
    Inv c (step c s op).1 := by
  cases op with
  | set k v =>
    cases v with
    | none => exact h
    | some vb =>
      cases k with
      | none => exact h
      | some kb =>
        have hm := has_iff_mem h kb
        cases hh : has s kb with
        | true =>
          have hin : kb ∈ s.rawKeys := hm.mp hh
          simp only [step, hh, if_true]
          constructor
          · exact nodup_insertSorted kb _ h.nodup
          · intro k
            simp only [mem_insertSorted, Trie.update, kvGet_kvPut]
            by_cases e : k = kb
            · simp [e]
            · simp [e, h.mem k]
          · simp only [sizeOf, length_insertSorted, hin, if_true]
            exact h.size
          · exact h.root
        | false =>
          have hin : kb ∉ s.rawKeys := fun e => by simp [hm.mpr e] at hh
          simp only [step, hh, Bool.false_eq_true, if_false]
          constructor
          · exact nodup_insertSorted kb _ h.nodup
          · intro k
            simp only [addSize, mem_insertSorted, Trie.update, kvGet_kvPut]
            by_cases e : k = kb
            · simp [e]
            · simp [e, h.mem k]
          · have := h.size
            simp only [sizeOf] at this
            simp only [sizeOf, addSize, length_insertSorted, hin, if_false, Option.getD_some, this]
            omega
          · exact h.root
  | get k => rw [step_get_fst]; exact h
  | has k => cases k <;> exact h
  | del k =>
    cases k with
    | none => exact h
    | some kb =>
      have hm := has_iff_mem h kb
      cases hh : has s kb with
      | false => simpa [step, hh] using h
      | true =>
        have hin : kb ∈ s.rawKeys := hm.mp hh
        have hd : s.trie.delete kb = some { s.trie with mem := kvErase kb s.trie.mem } := by
          have : (kvGet kb s.trie.mem).isSome = true := hh
          simp [Trie.delete, this]
        simp only [step, hh, if_true, hd]
        constructor
        · exact h.nodup.filter _
        · intro k
          simp only [addSize, List.mem_filter, kvGet_kvErase]
          by_cases e : k = kb
          · simp [e]
          · simp [e, h.mem k]
        · have := h.size
          have hl := length_filter_ne kb s.rawKeys h.nodup hin
          simp only [sizeOf] at this
          simp only [sizeOf, addSize, Option.getD_some, this]
          omega
        · exact h.root
  | size => exact h
  | stream stop => exact h
  | commit =>
    constructor
    · exact h.nodup
    · exact h.mem
    · exact h.size
    · simp only [step, Trie.commit, Option.map_some]; rfl
  | root => exact h
  | restored => exact h
  | reopen =>
    have hcl := hc rfl
    cases hr : s.rootKey with
    | some r =>
      simp only [step, hr]
      constructor
      · exact h.nodup
      · intro k
        rw [h.mem k, hcl k]; rfl
      · exact h.size
      · rw [← hr]; exact h.root
    | none =>
      have hdisk : s.trie.disk = none := by
        have := h.root
        rw [hr] at this
        cases hd : s.trie.disk with
        | none => rfl
        | some d => rw [hd] at this; simp at this
      simp only [step, hr]
      constructor
      · exact h.nodup
      · intro k
        rw [h.mem k, hcl k, hdisk]; rfl
      · exact h.size
      · simp [Trie.fresh, hdisk]

theorem step_abs (c : Cfg R) (s : St R) (op : Op) (h : Inv c s) (hc : op = .reopen → Clean s) :
    abs (step c s op).1 = Spec.apply (abs s) op := by
  cases op with
  | set k v =>
    cases v with
    | none => cases k <;> rfl
    | some vb =>
      cases k with
      | none => rfl
      | some kb =>
        funext k
        cases hh : has s kb <;>
          simp [step, hh, abs, Trie.fn, Trie.update, addSize, kvGet_kvPut, Spec.apply, Spec.put]
  | get k => rw [step_get_fst]; rfl
  | has k => cases k <;> rfl
  | del k =>
    cases k with
    | none => rfl
    | some kb =>
      funext k
      cases hh : has s kb with
      | false =>
        have hn : kvGet kb s.trie.mem = none := by
          have : (kvGet kb s.trie.mem).isSome = false := hh
          simpa using this
        simp only [step, hh, Bool.false_eq_true, if_false, abs, Trie.fn, Spec.apply, Spec.remove]
        by_cases e : k = kb
        · simp [e, hn]
        · simp [e]
      | true =>
        have hd : s.trie.delete kb = some { s.trie with mem := kvErase kb s.trie.mem } := by
          have : (kvGet kb s.trie.mem).isSome = true := hh
          simp [Trie.delete, this]
        simp [step, hh, hd, abs, Trie.fn, addSize, kvGet_kvErase, Spec.apply, Spec.remove]
  | size => rfl
  | stream stop => rfl
  | commit => rfl
  | root => rfl
  | restored => rfl
  | reopen =>
    have hcl := hc rfl
    funext k
    cases hr : s.rootKey with
    | some r =>
      simp only [step, hr, abs, Trie.fn, Trie.imported, Spec.apply]
      exact (hcl k).symm
    | none =>
      have hdisk : s.trie.disk = none := by
        have := h.root
        rw [hr] at this
        cases hd : s.trie.disk with
        | none => rfl
        | some d => rw [hd] at this; simp at this
      have := hcl k
      rw [hdisk] at this
      simp only [step, hr, abs, Trie.fn, Trie.fresh, Spec.apply]
      exact this.symm

/-! ## histories -/

theorem final_cons (c : Cfg R) (s : St R) (op : Op) (ops : List Op) :
    final c s (op :: ops) = final c (step c s op).1 ops := rfl

theorem final_append (c : Cfg R) (s : St R) (a b : List Op) :
    final c s (a ++ b) = final c (final c s a) b := by
  simp [final, List.foldl_append]

theorem run_fst (c : Cfg R) (s : St R) (ops : List Op) : (run c s ops).1 = final c s ops := by
  induction ops generalizing s with
  | nil => rfl
  | cons op ops ih => simp [run, final_cons, ih]

theorem cleanFrom_append (c : Cfg R) (s : St R) (a b : List Op) :
    CleanFrom c s (a ++ b) ↔ CleanFrom c s a ∧ CleanFrom c (final c s a) b := by
  induction a generalizing s with
  | nil => simp [CleanFrom, final]
  | cons op a ih => simp [CleanFrom, final_cons, ih, and_assoc]

theorem final_inv (c : Cfg R) (s : St R) (ops : List Op) (h : Inv c s) (hc : CleanFrom c s ops) :
    Inv c (final c s ops) := by
  induction ops generalizing s with
  | nil => exact h
  | cons op ops ih => exact ih _ (step_inv c s op h hc.1) hc.2

theorem final_abs (c : Cfg R) (s : St R) (ops : List Op) (h : Inv c s) (hc : CleanFrom c s ops) :
    abs (final c s ops) = ops.foldl Spec.apply (abs s) := by
  induction ops generalizing s with
  | nil => rfl
  | cons op ops ih =>
    rw [final_cons, ih _ (step_inv c s op h hc.1) hc.2, step_abs c s op h hc.1]; rfl

theorem abs_init : abs (init : St R) = Spec.empty := by
  funext k; simp [abs, init, Trie.fn, Trie.fresh, kvGet, Spec.empty]

/-- After a history whose reopens happen at commit points the trie holds the plain map. -/
theorem final_abs_init (c : Cfg R) (ops : List Op) (hc : CleanFrom c init ops) :
    abs (final c init ops) = Spec.final ops := by
  rw [final_abs c init ops (inv_init c) hc, abs_init]; rfl

theorem step_rootKey (c : Cfg R) (s : St R) (op : Op) :
    (step c s op).1.rootKey.isSome = (s.rootKey.isSome || decide (op = .commit)) := by
  cases op with
  | get k => rw [step_get_fst]; simp
  | set k v =>
    cases v with
    | none => simp [step]
    | some vb =>
      cases k with
      | none => simp [step]
      | some kb => cases hh : has s kb <;> simp [step, hh, addSize]
  | del k =>
    cases k with
    | none => simp [step]
    | some kb =>
      cases hh : has s kb with
      | false => simp [step, hh]
      | true =>
        have hd : s.trie.delete kb = some { s.trie with mem := kvErase kb s.trie.mem } := by
          have : (kvGet kb s.trie.mem).isSome = true := hh
          simp [Trie.delete, this]
        simp [step, hh, hd, addSize]
  | has k => cases k <;> simp [step]
  | size => simp [step]
  | stream stop => simp [step]
  | commit => simp [step]
  | root => simp [step]
  | restored => simp [step]
  | reopen => simp [step]

theorem final_rootKey (c : Cfg R) (s : St R) (ops : List Op) :
    (final c s ops).rootKey.isSome = (s.rootKey.isSome || Spec.committed ops) := by
  induction ops generalizing s with
  | nil => simp [final, Spec.committed]
  | cons op ops ih =>
    rw [final_cons, ih, step_rootKey]
    simp [Spec.committed, Bool.or_assoc]

/-! ## reopening only at commit points, syntactically -/

/-- `d`: a state-changing call may have happened since the last `Commit` (or since creation). -/
def reopensAtCommitPoints : Bool → List Op → Bool
  | _, [] => true
  | d, .reopen :: ops => !d && reopensAtCommitPoints d ops
  | _, .commit :: ops => reopensAtCommitPoints false ops
  | _, .set _ _ :: ops => reopensAtCommitPoints true ops
  | _, .del _ :: ops => reopensAtCommitPoints true ops
  | d, _ :: ops => reopensAtCommitPoints d ops

theorem clean_reopen (c : Cfg R) (s : St R) (h : Inv c s) : Clean (step c s .reopen).1 := by
  intro k
  cases hr : s.rootKey with
  | some r => simp [step, hr, Trie.imported]
  | none =>
    have hdisk : s.trie.disk = none := by
      have := h.root
      rw [hr] at this
      cases hd : s.trie.disk with
      | none => rfl
      | some d => rw [hd] at this; simp at this
    simp [step, hr, Trie.fresh, hdisk]

theorem cleanFrom_of_syntactic (c : Cfg R) (s : St R) (d : Bool) (ops : List Op) (h : Inv c s)
    (hd : d = false → Clean s) (hs : reopensAtCommitPoints d ops = true) : CleanFrom c s ops := by
  induction ops generalizing s d with
  | nil => trivial
  | cons op ops ih =>
    cases op with
    | reopen =>
      simp only [reopensAtCommitPoints, Bool.and_eq_true, Bool.not_eq_true'] at hs
      have hcl := hd hs.1
      exact ⟨fun _ => hcl, ih _ d (step_inv c s .reopen h (fun _ => hcl)) (fun _ => clean_reopen c s h) hs.2⟩
    | commit =>
      refine ⟨(fun e => nomatch e), ih _ false (step_inv c s .commit h ((fun e => nomatch e))) ?_ hs⟩
      intro _ k; simp [step, Trie.commit]
    | set k v =>
      exact ⟨(fun e => nomatch e), ih _ true (step_inv c s _ h ((fun e => nomatch e))) ((fun e => nomatch e)) hs⟩
    | del k =>
      exact ⟨(fun e => nomatch e), ih _ true (step_inv c s _ h ((fun e => nomatch e))) ((fun e => nomatch e)) hs⟩
    | get k =>
      refine ⟨(fun e => nomatch e), ?_⟩
      rw [step_get_fst]; exact ih s d h hd hs
    | has k =>
      refine ⟨(fun e => nomatch e), ?_⟩
      have : (step c s (.has k)).1 = s := by cases k <;> rfl
      rw [this]; exact ih s d h hd hs
    | size => exact ⟨(fun e => nomatch e), ih s d h hd hs⟩
    | stream stop => exact ⟨(fun e => nomatch e), ih s d h hd hs⟩
    | root => exact ⟨(fun e => nomatch e), ih s d h hd hs⟩
    | restored => exact ⟨(fun e => nomatch e), ih s d h hd hs⟩

/-- Histories in which every `reopen` follows a `Commit` with only reads in between are clean. -/
theorem cleanFrom_init_of_syntactic (c : Cfg R) (ops : List Op)
    (hs : reopensAtCommitPoints false ops = true) : CleanFrom c init ops :=
  cleanFrom_of_syntactic c init false ops (inv_init c) (fun _ => clean_init) hs

/-! ## Stream -/

/-- What `Stream` hands to the callback for a raw key. -/
def pairOf (t : Trie) (k : Key) : Key × Val := (k, (t.get k).getD [])

theorem streamGo_spec (dec : Val → Dec) (t : Trie) (stop : Nat) (ks : List Key) (seen : KV) :
    ∃ n, n ≤ ks.length ∧
      (streamGo dec t stop ks seen).1 = seen.reverse ++ (ks.take n).map (pairOf t) ∧
      ((streamGo dec t stop ks seen).2 = .ok → n = ks.length) ∧
      ((streamGo dec t stop ks seen).2 = .errCb → seen.length + n = stop) ∧
      (stop = 0 → (∀ k ∈ ks, dec ((t.get k).getD []) ≠ .fail) → (streamGo dec t stop ks seen).2 = .ok) := by
  induction ks generalizing seen with
  | nil => exact ⟨0, by simp [streamGo]⟩
  | cons k ks ih =>
    by_cases hf : dec ((t.get k).getD []) = .fail
    · refine ⟨0, by simp, ?_, ?_, ?_, ?_⟩
      · simp [streamGo, hf]
      · simp [streamGo, hf]
      · simp [streamGo, hf]
      · intro _ hall; exact absurd hf (hall k (by simp))
    · have hgo : streamGo dec t stop (k :: ks) seen =
          if (seen.length + 1 = stop) then (((k, (t.get k).getD []) :: seen).reverse, .errCb)
          else streamGo dec t stop ks ((k, (t.get k).getD []) :: seen) := by
        simp only [streamGo]
        cases hd : dec ((t.get k).getD []) with
        | fail => exact absurd hd hf
        | ok => simp
        | short => simp
      by_cases hstop : seen.length + 1 = stop
      · refine ⟨1, by simp, ?_, ?_, ?_, ?_⟩
        · simp [hgo, hstop, pairOf]
        · simp [hgo, hstop]
        · intro _; exact hstop
        · intro h0; omega
      · obtain ⟨n, hn, h1, h2, h3, h4⟩ := ih ((k, (t.get k).getD []) :: seen)
        refine ⟨n + 1, by simp; omega, ?_, ?_, ?_, ?_⟩
        · simp only [hgo, hstop, if_false, h1]
          simp [pairOf]
        · simp only [hgo, hstop, if_false]
          intro h; simp [h2 h]
        · simp only [hgo, hstop, if_false]
          intro h; have := h3 h; simp at this; omega
        · simp only [hgo, hstop, if_false]
          intro h0 hall
          exact h4 h0 (fun k' hk' => hall k' (List.mem_cons_of_mem _ hk'))

theorem streamGo_congr (dec : Val → Dec) (t t' : Trie) (h : ∀ k, t.get k = t'.get k) (stop : Nat)
    (ks : List Key) (seen : KV) : streamGo dec t stop ks seen = streamGo dec t' stop ks seen := by
  induction ks generalizing seen with
  | nil => rfl
  | cons k ks ih => simp only [streamGo, h k, ih]

theorem run_snd_getElem (c : Cfg R) (s : St R) (ops : List Op) (i : Nat) (hi : i < ops.length) :
    ∃ h : i < (run c s ops).2.length,
      (run c s ops).2[i] = (step c (final c s (ops.take i)) ops[i]).2 := by
  induction ops generalizing s i with
  | nil => simp at hi
  | cons op ops ih =>
    cases i with
    | zero => exact ⟨by simp [run], by simp [run, final]⟩
    | succ i =>
      obtain ⟨h, e⟩ := ih (step c s op).1 i (by simpa using hi)
      exact ⟨by simpa [run] using h, by simpa [run, final_cons] using e⟩

/-! ## root classes of the driver -/

theorem kvGet_some_mem (k : Key) (l : KV) (h : (kvGet k l).isSome = true) : ∃ p ∈ l, p.1 = k := by
  induction l with
  | nil => simp [kvGet] at h
  | cons p l ih =>
    obtain ⟨a, v⟩ := p
    by_cases e : a = k
    · exact ⟨(a, v), by simp, e⟩
    · simp only [kvGet, e, if_false] at h
      obtain ⟨p, hp, hk⟩ := ih h
      exact ⟨p, List.mem_cons_of_mem _ hp, hk⟩

/-- `sameKV` decides extensional equality of contents. -/
theorem sameKV_iff (a b : KV) : sameKV a b = true ↔ ∀ k, kvGet k a = kvGet k b := by
  constructor
  · intro h k
    simp only [sameKV, Bool.and_eq_true, List.all_eq_true, beq_iff_eq] at h
    cases ha : kvGet k a with
    | some v =>
      obtain ⟨p, hp, hk⟩ := kvGet_some_mem k a (by simp [ha])
      have := h.1 p hp
      rw [hk, ha] at this; exact this
    | none =>
      cases hb : kvGet k b with
      | none => rfl
      | some v =>
        obtain ⟨p, hp, hk⟩ := kvGet_some_mem k b (by simp [hb])
        have := h.2 p hp
        rw [hk, ha, hb] at this; exact this
  · intro h
    simp [sameKV, h]

/-- `classOf m pts` is the first point with the contents `m`. -/
theorem classOf_spec (m : KV) (pts : List KV) :
    (∀ i, i < classOf m pts → ∀ h : i < pts.length, sameKV pts[i] m = false) ∧
    (∀ h : classOf m pts < pts.length, sameKV pts[classOf m pts] m = true) ∧
    classOf m pts ≤ pts.length := by
  induction pts with
  | nil => simp [classOf]
  | cons p ps ih =>
    cases hp : sameKV p m with
    | true => simp [classOf, hp]
    | false =>
      simp only [classOf, hp, Bool.false_eq_true, if_false]
      refine ⟨?_, ?_, by simp; exact ih.2.2⟩
      · intro i hi h
        cases i with
        | zero => simpa using hp
        | succ i => simpa using ih.1 i (by omega) (by simpa using h)
      · intro h
        simpa using ih.2.1 (by simpa using h)

end Hive.Ads
