import Hive.Proofs.C12aMap
import Hive.Model.C12aRandomMap
/-! RandomMap: the index invariant, refinement to the plain map, random picks are members. -/
namespace Hive.C12a

namespace AL
variable {β γ : Type}

/-- Mapping the values of a map. -/
def mapVal (f : β → γ) (m : AL β) : AL γ := m.map (fun p => (p.1, f p.2))

theorem get_mapVal (f : β → γ) (m : AL β) (k : Nat) : get (mapVal f m) k = (get m k).map f := by
  induction m with
  | nil => rfl
  | cons p t ih =>
    obtain ⟨a, b⟩ := p
    simp only [mapVal, List.map_cons, get] at ih ⊢
    split <;> simp [ih]

theorem mapVal_set (f : β → γ) (m : AL β) (k : Nat) (v : β) :
    mapVal f (set m k v) = set (mapVal f m) k (f v) := by
  induction m with
  | nil => rfl
  | cons p t ih =>
    obtain ⟨a, b⟩ := p
    simp only [mapVal, List.map_cons, set] at ih ⊢
    split <;> simp [ih]

theorem mapVal_del (f : β → γ) (m : AL β) (k : Nat) : mapVal f (del m k) = del (mapVal f m) k := by
  simp only [mapVal, del, List.filter_map]; rfl

/-- Overwriting a binding with a value that has the same image leaves the image unchanged. -/
theorem mapVal_set_same (f : β → γ) (m : AL β) (k : Nat) (v v0 : β) (h : get m k = some v0)
    (hf : f v = f v0) : mapVal f (set m k v) = mapVal f m := by
  induction m with
  | nil => simp [get] at h
  | cons p t ih =>
    obtain ⟨a, b⟩ := p
    simp only [get] at h
    by_cases e : a = k
    · subst e
      simp only [if_true, Option.some.injEq] at h; subst h
      simp [mapVal, set, hf]
    · simp only [e, if_false] at h
      have := ih h
      simp only [mapVal] at this
      simp [mapVal, set, e, this]

theorem keys_mapVal (f : β → γ) (m : AL β) : keys (mapVal f m) = keys m := by
  simp [keys, mapVal, List.map_map, Function.comp_def]

theorem length_mapVal (f : β → γ) (m : AL β) : (mapVal f m).length = m.length := by
  simp [mapVal]

end AL

namespace RMap

/-- Abstraction to the plain map. -/
def absm (s : St) : AL Nat := AL.mapVal (·.value) s.raw

/-- The index invariant: the back-index of every entry is the position of its key in the dense
slice, and every slot of the slice belongs to an entry. -/
structure Inv (s : St) : Prop where
  back : ∀ k e, AL.get s.raw k = some e → s.keys[e.keyIndex]? = some k
  slot : ∀ i k, s.keys[i]? = some k → ∃ e, AL.get s.raw k = some e ∧ e.keyIndex = i
  nodup : AL.NoDupKeys s.raw

theorem inv_init : Inv init :=
  ⟨by intro k e h; simp [init, AL.get] at h, by intro i k h; simp [init] at h, by simp [init, AL.NoDupKeys, AL.keys]⟩

theorem Inv.keys_nodup {s : St} (h : Inv s) : s.keys.Nodup := by
  rw [List.nodup_iff_pairwise_ne, List.pairwise_iff_getElem]
  intro i j hi hj hij e
  obtain ⟨e1, g1, x1⟩ := h.slot i s.keys[i] (by simp [hi])
  obtain ⟨e2, g2, x2⟩ := h.slot j s.keys[j] (by simp [hj])
  rw [e] at g1; rw [g1] at g2; cases g2; omega

theorem Inv.mem_iff {s : St} (h : Inv s) (k : Nat) : k ∈ AL.keys s.raw ↔ k ∈ s.keys := by
  rw [← AL.has_iff_mem_keys, List.mem_iff_getElem?]
  constructor
  · intro hk
    simp only [AL.has] at hk
    cases hg : AL.get s.raw k with
    | none => simp [hg] at hk
    | some e => exact ⟨e.keyIndex, h.back k e hg⟩
  · intro ⟨i, hi⟩
    obtain ⟨e, g, _⟩ := h.slot i k hi
    simp [AL.has, g]

theorem Inv.perm {s : St} (h : Inv s) : (AL.keys s.raw).Perm s.keys :=
  (List.perm_ext_iff_of_nodup h.nodup h.keys_nodup).2 h.mem_iff

theorem Inv.length {s : St} (h : Inv s) : s.raw.length = s.keys.length := by
  have := h.perm.length_eq; simpa [AL.keys] using this

/-! ### Set -/

theorem inv_set {s : St} (h : Inv s) (k v : Nat) : Inv (set s k v) := by
  unfold set
  cases hg : AL.get s.raw k with
  | some e =>
    refine ⟨?_, ?_, AL.nodup_set h.nodup _ _⟩
    · intro k' e' h'
      simp only [AL.get_set] at h'
      split at h'
      · rename_i ek; subst ek; cases h'; exact h.back k e hg
      · exact h.back k' e' h'
    · intro i k' h'
      obtain ⟨e', g', x'⟩ := h.slot i k' h'
      simp only [AL.get_set]
      split
      · rename_i ek; subst ek; rw [hg] at g'; cases g'; exact ⟨_, rfl, x'⟩
      · exact ⟨e', g', x'⟩
  | none =>
    have hlen := h.length
    have hk : k ∉ s.keys := by rw [← h.mem_iff, ← AL.get_eq_none_iff]; exact hg
    refine ⟨?_, ?_, AL.nodup_set h.nodup _ _⟩
    · intro k' e' h'
      simp only [AL.get_set] at h'
      split at h'
      · rename_i ek; subst ek; cases h'
        simp [hlen]
      · have := h.back k' e' h'
        have hlt : e'.keyIndex < s.keys.length := by
          rcases Nat.lt_or_ge e'.keyIndex s.keys.length with hl | hl
          · exact hl
          · rw [List.getElem?_eq_none hl] at this; cases this
        rw [List.getElem?_append_left hlt]; exact this
    · intro i k' h'
      simp only [AL.get_set]
      rcases Nat.lt_or_ge i s.keys.length with hl | hl
      · rw [List.getElem?_append_left hl] at h'
        obtain ⟨e', g', x'⟩ := h.slot i k' h'
        have : k ≠ k' := by
          intro ek; subst ek; exact hk (List.mem_of_getElem? h')
        simp only [this, if_false]; exact ⟨e', g', x'⟩
      · rw [List.getElem?_append_right hl] at h'
        have hi : i - s.keys.length = 0 := by
          rcases Nat.eq_zero_or_pos (i - s.keys.length) with h0 | h0
          · exact h0
          · rw [List.getElem?_eq_none (by simp; omega)] at h'; cases h'
        rw [hi] at h'; simp at h'; subst h'
        exact ⟨⟨v, s.raw.length⟩, by simp, by simp only; omega⟩

/-! ### Delete -/

/-- What `Delete` does to an existing key under the invariant (both the last-key and the
inner-key case go through the swap). -/
theorem delete_some {s : St} (h : Inv s) (k : Nat) (e : Entry) (hg : AL.get s.raw k = some e) :
    ∃ mk me, s.keys[s.keys.length - 1]? = some mk ∧ AL.get s.raw mk = some me ∧
      me.keyIndex = s.keys.length - 1 ∧ e.keyIndex < s.keys.length ∧
      delete s k =
        ({ raw := AL.del (AL.set s.raw mk { me with keyIndex := e.keyIndex }) k,
           keys := ((s.keys.set e.keyIndex mk).set (s.keys.length - 1) 0).take (s.keys.length - 1) },
         some e.value) := by
  have hb := h.back k e hg
  have hlt : e.keyIndex < s.keys.length := by
    rcases Nat.lt_or_ge e.keyIndex s.keys.length with hl | hl
    · exact hl
    · rw [List.getElem?_eq_none hl] at hb; cases hb
  have hlast : s.keys.length - 1 < s.keys.length := by omega
  obtain ⟨me, gm, xm⟩ := h.slot (s.keys.length - 1) s.keys[s.keys.length - 1] (by simp [hlast])
  refine ⟨s.keys[s.keys.length - 1], me, by simp [hlast], gm, xm, hlt, ?_⟩
  have hne : e.keyIndex ≠ s.keys.length := by omega
  have hgd : s.keys.getD (s.keys.length - 1) 0 = s.keys[s.keys.length - 1] := by
    simp [List.getD_eq_getElem?_getD, hlast]
  simp only [delete, hg, hne, ne_eq, not_false_eq_true, if_true, hgd, gm, List.length_set]

theorem inv_delete {s : St} (h : Inv s) (k : Nat) : Inv (delete s k).1 := by
  cases hg : AL.get s.raw k with
  | none => simpa [delete, hg] using h
  | some e =>
    obtain ⟨mk, me, hmk, gm, xm, hlt, hd⟩ := delete_some h k e hg
    rw [hd]
    have hb := h.back k e hg
    have hlast : s.keys.length - 1 < s.keys.length := by omega
    -- the slice after the swap and the cut
    have hkeys : ∀ i, (((s.keys.set e.keyIndex mk).set (s.keys.length - 1) 0).take (s.keys.length - 1))[i]? =
        if i < s.keys.length - 1 then (if e.keyIndex = i then some mk else s.keys[i]?) else none := by
      intro i
      rw [List.getElem?_take]
      split
      · rename_i hi
        rw [List.getElem?_set_ne (by omega), List.getElem?_set]
        split
        · simp [hlt]
        · rfl
      · rfl
    refine ⟨?_, ?_, AL.nodup_del (AL.nodup_set h.nodup _ _) _⟩
    · intro k' e' h'
      simp only [AL.get_del, AL.get_set] at h'
      split at h'
      · cases h'
      · rename_i hkk
        rw [hkeys]
        split at h'
        · rename_i hmk'; subst hmk'; cases h'
          simp only
          have : e.keyIndex < s.keys.length - 1 := by
            rcases Nat.lt_or_ge e.keyIndex (s.keys.length - 1) with hl | hl
            · exact hl
            · have : e.keyIndex = s.keys.length - 1 := by omega
              rw [this] at hb; rw [hb] at hmk; cases hmk; exact absurd rfl hkk
          simp [this]
        · rename_i hmk'
          have hb' := h.back k' e' h'
          have h1 : e'.keyIndex ≠ s.keys.length - 1 := by
            intro ee; rw [ee, hmk] at hb'; cases hb'; exact hmk' rfl
          have h2 : e'.keyIndex ≠ e.keyIndex := by
            intro ee; rw [ee, hb] at hb'; cases hb'; exact hkk rfl
          have h3 : e'.keyIndex < s.keys.length := by
            rcases Nat.lt_or_ge e'.keyIndex s.keys.length with hl | hl
            · exact hl
            · rw [List.getElem?_eq_none hl] at hb'; cases hb'
          have : e'.keyIndex < s.keys.length - 1 := by omega
          simp [this, Ne.symm h2, hb']
    · intro i k' h'
      rw [hkeys] at h'
      split at h'
      · rename_i hi
        simp only [AL.get_del, AL.get_set]
        split at h'
        · rename_i hei; cases h'
          have hkk : k ≠ mk := by
            intro ek; subst ek
            rw [gm] at hg; cases hg; omega
          simp only [hkk, if_false, if_true]
          exact ⟨_, rfl, hei⟩
        · rename_i hei
          obtain ⟨e', g', x'⟩ := h.slot i k' h'
          have hkk : k ≠ k' := by
            intro ek; subst ek; rw [hg] at g'; cases g'; exact hei x'
          have hmk' : mk ≠ k' := by
            intro ek; subst ek; rw [gm] at g'; cases g'; omega
          simp only [hkk, hmk', if_false]
          exact ⟨e', g', x'⟩
      · cases h'

theorem inv_step {s : St} (h : Inv s) (op : Op) : Inv (step s op).1 := by
  cases op with
  | set k v => exact inv_set h k v
  | del k => exact inv_delete h k
  | _ => exact h

theorem inv_final (ops : List Op) {s : St} (h : Inv s) : Inv (final s ops) := by
  induction ops generalizing s with
  | nil => exact h
  | cons op ops ih => exact ih (inv_step h op)

theorem run_fst (s : St) (ops : List Op) : (run s ops).1 = final s ops := by
  induction ops generalizing s with
  | nil => rfl
  | cons op ops ih => simp [run, final, ih]

/-! ### the plain-map view (no invariant needed) -/

theorem abs_set (s : St) (k v : Nat) : absm (set s k v) = AL.set (absm s) k v := by
  unfold set absm
  cases hg : AL.get s.raw k <;> simp [AL.mapVal_set]

theorem get_abs (s : St) (k : Nat) : get s k = AL.get (absm s) k := by
  simp [get, absm, AL.get_mapVal]

theorem has_abs (s : St) (k : Nat) : AL.has s.raw k = AL.has (absm s) k := by
  simp [AL.has, absm, AL.get_mapVal]

theorem abs_delete (s : St) (k : Nat) :
    absm (delete s k).1 = AL.del (absm s) k ∧ (delete s k).2 = AL.get (absm s) k := by
  unfold delete absm
  rw [AL.get_mapVal]
  cases hg : AL.get s.raw k with
  | none =>
    refine ⟨?_, rfl⟩
    symm
    unfold AL.del
    rw [List.filter_eq_self]
    intro p hp
    have hm : p.1 ∈ AL.keys (AL.mapVal (·.value) s.raw) := List.mem_map_of_mem hp
    rw [AL.keys_mapVal] at hm
    have hn : k ∉ AL.keys s.raw := (AL.get_eq_none_iff _ _).1 hg
    simp only [bne_iff_ne, ne_eq]
    intro e; rw [e] at hm; exact hn hm
  | some e =>
    refine ⟨?_, rfl⟩
    simp only [AL.mapVal_del]
    congr 1
    split
    · simp only
      cases hm : AL.get s.raw (s.keys.getD (s.keys.length - 1) 0) with
      | none => rfl
      | some me => exact AL.mapVal_set_same _ _ _ _ me hm rfl
    · rfl

/-! ### Keys, random picks -/

theorem keysOut_eq {s : St} (h : Inv s) : keysOut s = s.keys := by
  unfold keysOut; rw [h.length]; simp

theorem keysOut_perm {s : St} (h : Inv s) : (keysOut s).Perm (AL.keys (absm s)) := by
  rw [keysOut_eq h, absm, AL.keys_mapVal]; exact h.perm.symm

theorem mem_abs_keys {s : St} (h : Inv s) (k : Nat) : k ∈ AL.keys (absm s) ↔ k ∈ s.keys := by
  rw [absm, AL.keys_mapVal]; exact h.mem_iff k

/-- `RandomKey`: nothing iff the map is empty, otherwise a key of the map — for every outcome `c`
of the random source. -/
theorem randKey_spec {s : St} (h : Inv s) (c : Nat) :
    (randKey s c = none ↔ (absm s).length = 0) ∧ ∀ k, randKey s c = some k → k ∈ AL.keys (absm s) := by
  have hlen := h.length
  unfold randKey
  by_cases h0 : s.keys.length = 0
  · simp [h0, absm, AL.length_mapVal, hlen]
  · simp only [h0, if_false]
    refine ⟨by simp [absm, AL.length_mapVal, hlen, h0], ?_⟩
    intro k hk
    simp only [Option.some.injEq, randomKey] at hk
    have hlt : c % s.raw.length < s.keys.length := by rw [hlen]; exact Nat.mod_lt _ (by omega)
    rw [mem_abs_keys h, ← hk, List.getD_eq_getElem?_getD, List.getElem?_eq_getElem hlt]
    simp

/-- `RandomEntry`: nothing iff the map is empty, otherwise the value of some key. -/
theorem randEntry_spec {s : St} (h : Inv s) (c : Nat) :
    (randEntry s c = none ↔ (absm s).length = 0) ∧
      ∀ v, randEntry s c = some v → ∃ k, AL.get (absm s) k = some v := by
  have hlen := h.length
  unfold randEntry
  by_cases h0 : s.raw.length = 0
  · simp [h0, absm, AL.length_mapVal]
  · simp only [h0, if_false]
    have hlt : c % s.raw.length < s.keys.length := by rw [← hlen]; exact Nat.mod_lt _ (by omega)
    obtain ⟨e, g, _⟩ := h.slot (c % s.raw.length) s.keys[c % s.raw.length] (by simp [hlt])
    have hk : randomKey s c = s.keys[c % s.raw.length] := by
      simp [randomKey, List.getD_eq_getElem?_getD, hlt]
    rw [hk, g]
    refine ⟨by simp [absm, AL.length_mapVal, h0], ?_⟩
    intro v hv
    exact ⟨s.keys[c % s.raw.length], by rw [absm, AL.get_mapVal, g]; exact hv⟩

/-- The value `RandomUniqueEntries` reads through slot `i` of the dense slice. -/
def valAt (s : St) (i : Nat) : Nat := (AL.get (absm s) (s.keys.getD i 0)).getD 0

theorem rueLoop_eq {s : St} (h : Inv s) (count : Nat) (is acc : List Nat)
    (hin : ∀ i ∈ is, i < s.keys.length) :
    rueLoop s count is acc = acc ++ (is.take (count - acc.length)).map (valAt s) := by
  induction is generalizing acc with
  | nil => simp [rueLoop]
  | cons i rest ih =>
    have hi : i < s.keys.length := hin i (by simp)
    obtain ⟨e, g, _⟩ := h.slot i s.keys[i] (by simp [hi])
    have hk : s.keys.getD i 0 = s.keys[i] := by simp [List.getD_eq_getElem?_getD, hi]
    unfold rueLoop
    by_cases hc : acc.length < count
    · simp only [hc, if_true, hk, g]
      rw [ih _ (fun j hj => hin j (List.mem_cons_of_mem _ hj))]
      have : count - acc.length = (count - (acc ++ [e.value]).length) + 1 := by simp; omega
      have hv : valAt s i = e.value := by unfold valAt; rw [hk, absm, AL.get_mapVal, g]; rfl
      rw [this, List.take_succ_cons, List.map_cons, List.append_assoc, hv]
      rfl
    · simp only [hc, if_false]
      have : count - acc.length = 0 := by omega
      simp [this]

theorem AL_get_of_mem {β : Type} {m : AL β} (h : AL.NoDupKeys m) {k : Nat} {v : β} (hm : (k, v) ∈ m) :
    AL.get m k = some v := by
  induction m with
  | nil => cases hm
  | cons p t ih =>
    obtain ⟨a, b⟩ := p
    simp only [AL.NoDupKeys, AL.keys, List.map_cons, List.nodup_cons] at h
    simp only [List.mem_cons, Prod.mk.injEq] at hm
    rcases hm with ⟨rfl, rfl⟩ | hm
    · simp [AL.get]
    · have : a ≠ k := by
        intro e; subst e; exact h.1 (List.mem_map_of_mem (f := (·.1)) hm)
      simp only [AL.get, this, if_false]
      exact ih h.2 hm

/-- `RandomUniqueEntries(n)` returns the values of `min(n, size)` pairwise distinct keys of the
map, for every outcome `perm` of `rand.Perm(len(keys))`. -/
theorem randUnique_spec {s : St} (h : Inv s) (n : Nat) (perm : List Nat)
    (hp : perm.Perm (List.range s.keys.length)) :
    ∃ ks : List Nat, ks.Nodup ∧ (∀ k ∈ ks, k ∈ AL.keys (absm s)) ∧ ks.length = min n (absm s).length ∧
      randUnique s n perm = ks.map (fun k => (AL.get (absm s) k).getD 0) := by
  have hlen := h.length
  have hal : (absm s).length = s.raw.length := AL.length_mapVal _ _
  unfold randUnique
  by_cases h1 : n < 1
  · exact ⟨[], List.nodup_nil, by simp, by simp; omega, by simp [h1]⟩
  · simp only [h1, if_false]
    by_cases h2 : s.raw.length ≤ n
    · simp only [h2, if_true]
      refine ⟨AL.keys s.raw, h.nodup, ?_, ?_, ?_⟩
      · intro k hk; rw [absm, AL.keys_mapVal]; exact hk
      · rw [hal, Nat.min_eq_right h2]; simp [AL.keys]
      · simp only [AL.keys, List.map_map]
        apply List.map_congr_left
        intro p hp'
        obtain ⟨k, e⟩ := p
        simp [absm, AL.get_mapVal, AL_get_of_mem h.nodup hp']
    · simp only [h2, if_false]
      have hin : ∀ i ∈ perm, i < s.keys.length := by
        intro i hi; have := hp.mem_iff.1 hi; simpa using this
      have hpn : perm.Nodup := hp.nodup_iff.2 List.nodup_range
      have hpl : perm.length = s.keys.length := by simpa using hp.length_eq
      rw [rueLoop_eq h n perm [] hin]
      simp only [List.nil_append, List.length_nil, Nat.sub_zero]
      refine ⟨(perm.take n).map (fun i => s.keys.getD i 0), ?_, ?_, ?_, ?_⟩
      · rw [List.nodup_iff_pairwise_ne, List.pairwise_map]
        have hn : (perm.take n).Nodup := hpn.sublist (List.take_sublist _ _)
        refine List.Pairwise.imp_of_mem ?_ hn
        intro a b ha hb hab e
        have ha' := hin a (List.mem_of_mem_take ha)
        have hb' := hin b (List.mem_of_mem_take hb)
        simp only [List.getD_eq_getElem?_getD] at e
        have : s.keys[a]? = s.keys[b]? := by
          rw [List.getElem?_eq_getElem ha', List.getElem?_eq_getElem hb'] at e ⊢
          simpa using e
        exact hab ((List.getElem?_inj ha' h.keys_nodup).1 this)
      · intro k hk
        simp only [List.mem_map] at hk
        obtain ⟨i, hi, rfl⟩ := hk
        have hi' := hin i (List.mem_of_mem_take hi)
        rw [mem_abs_keys h, List.getD_eq_getElem?_getD, List.getElem?_eq_getElem hi']
        simp
      · simp only [List.length_map, List.length_take, hpl, hal]; omega
      · simp only [List.map_map]; rfl

/-! ### the abstract model: a plain map whose picks are members -/

def specNext (m : AL Nat) : Op → AL Nat
  | .set k v => AL.set m k v
  | .del k => AL.del m k
  | _ => m

/-- What the abstract model (a plain map with a nondeterministic picker) allows as the answer. -/
def specOk (m : AL Nat) : Op → Out → Prop
  | .set _ _, o => o = .ok
  | .get k, o => o = .val (AL.get m k)
  | .has k, o => o = .bool (AL.has m k)
  | .del k, o => o = .val (AL.get m k)
  | .size, o => o = .nat m.length
  | .keys, o => ∃ ks, o = .list ks ∧ ks.Perm (AL.keys m)
  | .values, o => o = .list (m.map (·.2))
  | .forEach, o => o = .pairs m
  | .forEachN n, o => o = .nat (Shrink.visits n m.length)
  | .randKey _, o => (o = .val none ∧ m.length = 0) ∨ ∃ k, o = .val (some k) ∧ k ∈ AL.keys m
  | .randEntry _, o => (o = .val none ∧ m.length = 0) ∨ ∃ k v, o = .val (some v) ∧ AL.get m k = some v
  | .randUnique n perm, o =>
    perm.Perm (List.range m.length) →
      ∃ ks : List Nat, ks.Nodup ∧ (∀ k ∈ ks, k ∈ AL.keys m) ∧ ks.length = min n m.length ∧
        o = .list (ks.map (fun k => (AL.get m k).getD 0))

def Allowed : AL Nat → List Op → List Out → Prop
  | _, [], [] => True
  | m, op :: ops, o :: os => specOk m op o ∧ Allowed (specNext m op) ops os
  | _, _, _ => False

theorem step_allowed {s : St} (h : Inv s) (op : Op) :
    specOk (absm s) op (step s op).2 ∧ absm (step s op).1 = specNext (absm s) op := by
  cases op with
  | set k v => exact ⟨rfl, abs_set s k v⟩
  | get k => exact ⟨by simp [specOk, step, get_abs], rfl⟩
  | has k => exact ⟨by simp [specOk, step, has_abs], rfl⟩
  | del k => exact ⟨by simp [specOk, step, (abs_delete s k).2], (abs_delete s k).1⟩
  | size => exact ⟨by simp [specOk, step, absm, AL.length_mapVal], rfl⟩
  | keys => exact ⟨⟨_, rfl, keysOut_perm h⟩, rfl⟩
  | values => exact ⟨by simp [specOk, step, absm, AL.mapVal, List.map_map, Function.comp_def], rfl⟩
  | forEach => exact ⟨by simp [specOk, step, absm, AL.mapVal], rfl⟩
  | forEachN n => exact ⟨by simp [specOk, step, absm, AL.length_mapVal], rfl⟩
  | randKey c =>
    refine ⟨?_, rfl⟩
    obtain ⟨h1, h2⟩ := randKey_spec h c
    simp only [specOk, step]
    cases hr : randKey s c with
    | none => exact Or.inl ⟨rfl, h1.1 hr⟩
    | some k => exact Or.inr ⟨k, rfl, h2 k hr⟩
  | randEntry c =>
    refine ⟨?_, rfl⟩
    obtain ⟨h1, h2⟩ := randEntry_spec h c
    simp only [specOk, step]
    cases hr : randEntry s c with
    | none => exact Or.inl ⟨rfl, h1.1 hr⟩
    | some v => obtain ⟨k, hk⟩ := h2 v hr; exact Or.inr ⟨k, v, rfl, hk⟩
  | randUnique n perm =>
    refine ⟨?_, rfl⟩
    intro hp
    rw [absm, AL.length_mapVal, h.length] at hp
    obtain ⟨ks, a, b, c, d⟩ := randUnique_spec h n perm hp
    exact ⟨ks, a, b, c, by simp [step, d]⟩

theorem run_allowed {s : St} (h : Inv s) (ops : List Op) : Allowed (absm s) ops (run s ops).2 := by
  induction ops generalizing s with
  | nil => trivial
  | cons op ops ih =>
    obtain ⟨h1, h2⟩ := step_allowed h op
    simp only [run, Allowed]
    exact ⟨h1, by rw [← h2]; exact ih (inv_step h op)⟩

end RMap
end Hive.C12a
