import Hive.Model.C12aCb
/-! The linearizability search is sound, and the lock protocol of the callback-taking operations of
ShrinkingMap refines the atomic plain map (any number of callers, any schedule). -/
namespace Hive.C12a.Cb

open Hive.C12a Hive.Conc

/-! ## the search only accepts linearizable histories -/

theorem minimal_perm {e : Ev} {l l' : List Ev} (h : l.Perm l') (hm : minimal e l = true) : minimal e l' = true := by
  unfold minimal at *
  rw [List.all_eq_true] at *
  intro x hx
  exact hm x (h.mem_iff.mpr hx)

theorem search_sound (f : Nat) (m : AL Nat) (todo : List Ev) (h : search f m todo = true) :
    ∃ w : List Ev, w.Perm todo ∧ validFrom m w = true := by
  induction f generalizing m todo with
  | zero =>
    simp only [search, List.isEmpty_iff] at h
    subst h; exact ⟨[], List.Perm.refl _, rfl⟩
  | succ f ih =>
    simp only [search, Bool.or_eq_true, List.isEmpty_iff, List.any_eq_true, Bool.and_eq_true] at h
    rcases h with h | ⟨e, he, ⟨hmin, hout⟩, hs⟩
    · subst h; exact ⟨[], List.Perm.refl _, rfl⟩
    · obtain ⟨w, hw, hv⟩ := ih _ _ hs
      have hp : (e :: w).Perm todo := (List.Perm.cons e hw).trans (List.perm_cons_erase he).symm
      refine ⟨e :: w, hp, ?_⟩
      simp only [validFrom, Bool.and_eq_true]
      exact ⟨⟨minimal_perm hp.symm hmin, hout⟩, hv⟩

theorem linOk_sound (m : AL Nat) (h : List Ev) (hk : linOk m h = true) : Linearizable m h :=
  search_sound _ _ _ hk

/-! ## the lock protocol -/

theorem replay_snoc (m0 : AL Nat) (log : List (LOp × Shrink.Out)) (m : AL Nat) (o : LOp)
    (h : replay m0 log = some m) : replay m0 (log ++ [(o, (spec m o).2)]) = some (spec m o).1 := by
  induction log generalizing m0 with
  | nil => simp only [replay] at h; cases h; simp [replay]
  | cons p rest ih =>
    obtain ⟨o', out'⟩ := p
    simp only [replay, List.cons_append] at h ⊢
    split at h
    · rename_i hc; simp only [hc, if_true]; exact ih _ h
    · cases h

structure Inv (m0 : AL Nat) (c : Cfg Sh Pc) : Prop where
  count : c.2.countP inCrit = if c.1.locked then 1 else 0
  log : replay m0 c.1.log = some c.1.m
  cb : ∀ t ∈ c.2, ∀ o b, t = .eff o b → b = cbVal c.1.m o
  nopre : ∀ t ∈ c.2, ∀ o b, t ≠ .pre o b
  answered : ∀ t ∈ c.2, ∀ o out, (t = .rel o out ∨ t = .done o out) → (o, out) ∈ c.1.log

theorem inv_start (m0 : AL Nat) (ops : List LOp) : Inv m0 (start m0 ops) := by
  refine ⟨?_, rfl, ?_, ?_, ?_⟩
  · simp only [start]
    induction ops with
    | nil => rfl
    | cons x xs ih => simp [inCrit]
  all_goals
    intro t ht
    simp only [start, List.mem_map] at ht
    obtain ⟨o', _, rfl⟩ := ht
    intros; simp_all

theorem mem_mid {α : Type} {pre post : List α} {t u : α} (h : u ∈ pre ++ t :: post) :
    u = t ∨ u ∈ pre ∨ u ∈ post := by
  simp only [List.mem_append, List.mem_cons] at h
  rcases h with h | h | h
  · exact Or.inr (Or.inl h)
  · exact Or.inl h
  · exact Or.inr (Or.inr h)

theorem mem_mid' {α : Type} {pre post : List α} {t u : α} (h : u ∈ pre ∨ u ∈ post) : u ∈ pre ++ t :: post := by
  simp only [List.mem_append, List.mem_cons]
  rcases h with h | h
  · exact Or.inl h
  · exact Or.inr (Or.inr h)

/-- When the stepping thread is inside the critical section, nobody else is. -/
theorem others_out {pre post : List Pc} {t : Pc} {w : Bool}
    (hc : (pre ++ t :: post).countP inCrit = if w then 1 else 0) (ht : inCrit t = true) :
    w = true ∧ ∀ u, u ∈ pre ∨ u ∈ post → inCrit u = false := by
  rw [countP_mid] at hc
  simp only [ht, if_true] at hc
  have hw : w = true := by cases w <;> simp_all <;> omega
  subst hw
  simp only [if_true] at hc
  have hpre : pre.countP inCrit = 0 := by omega
  have hpost : post.countP inCrit = 0 := by omega
  refine ⟨rfl, ?_⟩
  intro u hu
  rcases hu with hu | hu
  · have := (List.countP_eq_zero.mp hpre) u hu; simpa using this
  · have := (List.countP_eq_zero.mp hpost) u hu; simpa using this

theorem inv_step (m0 : AL Nat) (a b : Cfg Sh Pc) (h : Inv m0 a) (hs : Step (sys false) a b) : Inv m0 b := by
  cases hs with
  | mk s pre t post s' t' hmem =>
    have hcount := h.count
    have hlog := h.log
    have hcb := h.cb
    have hans := h.answered
    have hnp := h.nopre
    simp only at hcount hlog hcb hans hnp
    cases t with
    | want o =>
      simp only [sys, Bool.false_eq_true, if_false] at hmem
      cases hl' : s.locked with
      | true => simp [hl'] at hmem
      | false =>
        simp only [hl', Bool.false_eq_true, if_false, List.mem_singleton, Prod.mk.injEq] at hmem
        obtain ⟨rfl, rfl⟩ := hmem
        refine ⟨?_, hlog, ?_, ?_, ?_⟩
        · rw [countP_mid] at hcount ⊢
          simp only [inCrit, hl', Bool.false_eq_true, if_false, if_true] at hcount ⊢
          omega
        · intro u hu o' b' e
          rcases mem_mid hu with rfl | hu
          · cases e
          · exact hcb u (mem_mid' hu) o' b' e
        · intro u hu o' b' e
          rcases mem_mid hu with rfl | hu
          · cases e
          · exact hnp u (mem_mid' hu) o' b' e
        · intro u hu o' out' e
          rcases mem_mid hu with rfl | hu
          · rcases e with e | e <;> cases e
          · exact hans u (mem_mid' hu) o' out' e
    | pre o b0 => exact absurd rfl (hnp (.pre o b0) (by simp) o b0)
    | inCb o =>
      simp only [sys, List.mem_singleton, Prod.mk.injEq] at hmem
      obtain ⟨rfl, rfl⟩ := hmem
      refine ⟨?_, hlog, ?_, ?_, ?_⟩
      · rw [countP_mid] at hcount ⊢
        simpa [inCrit] using hcount
      · intro u hu o' b' e
        rcases mem_mid hu with rfl | hu
        · cases e; rfl
        · exact hcb u (mem_mid' hu) o' b' e
      · intro u hu o' b' e
        rcases mem_mid hu with rfl | hu
        · cases e
        · exact hnp u (mem_mid' hu) o' b' e
      · intro u hu o' out' e
        rcases mem_mid hu with rfl | hu
        · rcases e with e | e <;> cases e
        · exact hans u (mem_mid' hu) o' out' e
    | eff o b0 =>
      simp only [sys, List.mem_singleton, Prod.mk.injEq] at hmem
      obtain ⟨rfl, rfl⟩ := hmem
      have hb : b0 = cbVal s.m o := hcb (.eff o b0) (by simp) o b0 rfl
      have hsp : Shrink.specStep s.m (toOp o b0) = spec s.m o := by rw [hb]; rfl
      obtain ⟨_, hothers⟩ := others_out hcount (t := .eff o b0) rfl
      refine ⟨?_, ?_, ?_, ?_, ?_⟩
      · rw [countP_mid] at hcount ⊢
        simpa [inCrit] using hcount
      · simp only [hsp]; exact replay_snoc m0 s.log s.m o hlog
      · intro u hu o' b' e
        rcases mem_mid hu with rfl | hu
        · cases e
        · have := hothers u hu; rw [e] at this; simp [inCrit] at this
      · intro u hu o' b' e
        rcases mem_mid hu with rfl | hu
        · cases e
        · exact hnp u (mem_mid' hu) o' b' e
      · intro u hu o' out' e
        rcases mem_mid hu with rfl | hu
        · rcases e with e | e
          · cases e; simp
          · cases e
        · simp only [List.mem_append]; exact Or.inl (hans u (mem_mid' hu) o' out' e)
    | rel o out =>
      simp only [sys, List.mem_singleton, Prod.mk.injEq] at hmem
      obtain ⟨rfl, rfl⟩ := hmem
      obtain ⟨hw, _⟩ := others_out hcount (t := .rel o out) rfl
      refine ⟨?_, hlog, ?_, ?_, ?_⟩
      · rw [countP_mid] at hcount ⊢
        simp only [inCrit, hw, if_true, Bool.false_eq_true, if_false] at hcount ⊢
        omega
      · intro u hu o' b' e
        rcases mem_mid hu with rfl | hu
        · cases e
        · exact hcb u (mem_mid' hu) o' b' e
      · intro u hu o' b' e
        rcases mem_mid hu with rfl | hu
        · cases e
        · exact hnp u (mem_mid' hu) o' b' e
      · intro u hu o' out' e
        rcases mem_mid hu with rfl | hu
        · rcases e with e | e
          · cases e
          · cases e; exact hans (.rel o out) (by simp) o out (Or.inl rfl)
        · exact hans u (mem_mid' hu) o' out' e
    | done o out => simp [sys] at hmem

theorem inv_reach (m0 : AL Nat) (ops : List LOp) (c : Cfg Sh Pc) (hr : Reach (sys false) (start m0 ops) c) :
    Inv m0 c :=
  inv_induction (Inv m0) (inv_start m0 ops) (inv_step m0) hr

end Hive.C12a.Cb
