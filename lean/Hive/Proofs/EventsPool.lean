import Hive.Model.EventsPool
/-!
# Pooled hooks: conservation of submitted invocations, and what "drained" gives (C15)
-/
namespace Hive.EventsPool
open Hive.Conc

def hold (t : Nat) : Th → Nat
  | .run x => if x = t then 1 else 0
  | _ => 0

def busy : Th → Nat
  | .run _ => 1
  | .done _ => 1
  | _ => 0

def todo (t : Nat) : Th → Nat
  | .sub l => l.count t
  | _ => 0

theorem hold_le_busy (t : Nat) (th : Th) : hold t th ≤ busy th := by
  cases th <;> simp [hold, busy]
  split <;> omega

/-- What one step does to the quantities of the invariant (for one task id `t`). -/
theorem step_facts {s s' : Sh} {th th' : Th} (hm : (s', th') ∈ step s th) (hp : busy th ≤ s.pending) (t : Nat) :
    (s'.submitted.count t + todo t th' = s.submitted.count t + todo t th) ∧
    (s'.queue.count t + hold t th' + s'.executed.count t + s.submitted.count t =
      s.queue.count t + hold t th + s.executed.count t + s'.submitted.count t) ∧
    (s'.pending + s.queue.length + busy th = s.pending + s'.queue.length + busy th') := by
  cases th with
  | sub l =>
    cases l with
    | nil => simp [step] at hm
    | cons x rest =>
      simp only [step, List.mem_singleton, Prod.mk.injEq] at hm
      obtain ⟨rfl, rfl⟩ := hm
      by_cases hx : x = t <;> simp [todo, hold, busy, List.count_cons, hx] <;> omega
  | idle =>
    simp only [step] at hm
    cases hq : s.queue with
    | nil => simp [hq] at hm
    | cons x q =>
      simp only [hq, List.mem_singleton, Prod.mk.injEq] at hm
      obtain ⟨rfl, rfl⟩ := hm
      by_cases hx : x = t <;> simp [todo, hold, busy, List.count_cons, hx] <;> omega
  | run x =>
    simp only [step, List.mem_singleton, Prod.mk.injEq] at hm
    obtain ⟨rfl, rfl⟩ := hm
    by_cases hx : x = t <;> simp [todo, hold, busy, List.count_cons, hx] <;> omega
  | done x =>
    simp only [step, List.mem_singleton, Prod.mk.injEq] at hm
    obtain ⟨rfl, rfl⟩ := hm
    simp only [busy] at hp
    simp [todo, hold, busy]
    omega

def sumOf (f : Th → Nat) (ts : List Th) : Nat := (ts.map f).sum

theorem sumOf_mid (f : Th → Nat) (pre post : List Th) (t : Th) :
    sumOf f (pre ++ t :: post) = sumOf f pre + f t + sumOf f post := by
  simp [sumOf, List.sum_append]; omega

/-- `total t` = how often task `t` is submitted by the triggers of the run. -/
structure Inv (total : Nat → Nat) (c : Cfg Sh Th) : Prop where
  subm : ∀ t, c.1.submitted.count t + sumOf (todo t) c.2 = total t
  cons : ∀ t, c.1.submitted.count t = c.1.queue.count t + sumOf (hold t) c.2 + c.1.executed.count t
  pend : c.1.pending = c.1.queue.length + sumOf busy c.2

theorem inv_step {total : Nat → Nat} {a b : Cfg Sh Th} (h : Inv total a) (hs : Step sys a b) : Inv total b := by
  cases hs with
  | mk s pre th post s' th' hm =>
    have hp : busy th ≤ s.pending := by
      have := h.pend
      simp only [sumOf_mid] at this
      omega
    constructor
    · intro t
      have := h.subm t
      have f := (step_facts hm hp t).1
      simp only [sumOf_mid] at this ⊢
      omega
    · intro t
      have := h.cons t
      have f := (step_facts hm hp t).2.1
      simp only [sumOf_mid] at this ⊢
      omega
    · have := h.pend
      have f := (step_facts hm hp 0).2.2
      simp only [sumOf_mid] at this ⊢
      omega

theorem sumOf_zero {f : Th → Nat} {ts : List Th} (h : ∀ t ∈ ts, f t = 0) : sumOf f ts = 0 := by
  induction ts with
  | nil => rfl
  | cons x r ih =>
    simp only [sumOf, List.map_cons, List.sum_cons] at ih ⊢
    rw [h x (by simp), ih (fun t ht => h t (by simp [ht]))]

theorem sumOf_le {f g : Th → Nat} (hfg : ∀ t, f t ≤ g t) (ts : List Th) : sumOf f ts ≤ sumOf g ts := by
  induction ts with
  | nil => simp [sumOf]
  | cons x r ih =>
    simp only [sumOf, List.map_cons, List.sum_cons] at ih ⊢
    have := hfg x
    omega

theorem inv_init (ts : List Th) (hts : ∀ t ∈ ts, t.initial = true) :
    Inv (fun t => sumOf (todo t) ts) (init, ts) := by
  have hb : sumOf busy ts = 0 := sumOf_zero (fun t ht => by
    have := hts t ht
    cases t <;> simp_all [Th.initial, busy])
  constructor
  · intro t; simp [init]
  · intro t
    have : sumOf (hold t) ts = 0 := by
      have := sumOf_le (hold_le_busy t) ts
      omega
    simp [init, this]
  · simp [init, hb]

/-! ## a list fact used when tasks are indices into a trigger's log -/

theorem range'_filterMap_getElem? {α : Type} (full : List α) : ∀ (l : List α) (off : Nat),
    (∀ i, i < l.length → full[off + i]? = l[i]?) → (List.range' off l.length).filterMap (fun i => full[i]?) = l
  | [], _, _ => rfl
  | a :: r, off, h => by
    have h0 := h 0 (by simp)
    simp only [Nat.add_zero, List.getElem?_cons_zero] at h0
    rw [List.length_cons, List.range'_succ, List.filterMap_cons, h0]
    simp only
    rw [range'_filterMap_getElem? full r (off + 1) (fun i hi => by
      have := h (i + 1) (by simp; omega)
      rw [List.getElem?_cons_succ] at this
      rw [← this]; congr 1; omega)]

theorem range_filterMap_getElem? {α : Type} (l : List α) : (List.range l.length).filterMap (fun i => l[i]?) = l := by
  rw [List.range_eq_range']
  exact range'_filterMap_getElem? l l 0 (fun i _ => by rw [Nat.zero_add])

end Hive.EventsPool
