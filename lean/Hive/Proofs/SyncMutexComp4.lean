import Hive.Proofs.SyncMutexComp3
/-!
Invariants of the composed DAGMutex, part 4: RUnlock (validate all ids and collect the objects, then `RUnlock`
one object after the other; the unregistration follows in a second critical section, see part 3).
-/
namespace Hive.SyncMutex.Comp
open Hive.Conc
open Hive.SyncMutex.Dag (Mode DOp upd eraseAll below chain pushAll allHeld okD)
open Hive.SyncMutex.Wait (sumL sumL_mid sumL_ge sumL_zero)

theorem allHeld_spec : ∀ (xs : List Nat) (held : List (Nat × Mode)), Sorted held →
    allHeld held .r xs = true → xs.Nodup ∧ ∀ x ∈ xs, (x, Mode.r) ∈ held := by
  intro xs
  induction xs with
  | nil => intro _ _ _; exact ⟨List.nodup_nil, fun _ h => by simp at h⟩
  | cons x xs ih =>
    intro held hs ha
    simp only [allHeld, Bool.and_eq_true, List.contains_iff_mem] at ha
    obtain ⟨h1, h2⟩ := ih (held.erase (x, .r)) (hs.erase _) ha.2
    refine ⟨List.nodup_cons.mpr ⟨?_, h1⟩, ?_⟩
    · intro hx
      exact hs.not_mem_erase ha.1 _ (h2 x hx) rfl
    · intro y hy
      rcases List.mem_cons.mp hy with rfl | hy'
      · exact ha.1
      · exact List.mem_of_mem_erase (h2 y hy')

theorem eraseAll_count (p : Nat × Mode → Bool) : ∀ (xs : List Nat) (held : List (Nat × Mode)),
    xs.Nodup → (∀ x ∈ xs, (x, Mode.r) ∈ held) →
    (eraseAll held .r xs).countP p + (xs.map (fun x => (x, Mode.r))).countP p = held.countP p := by
  intro xs
  induction xs with
  | nil => intro held _ _; simp [eraseAll]
  | cons x xs ih =>
    intro held hnd hall
    have hx := List.nodup_cons.mp hnd
    have hall' : ∀ y ∈ xs, (y, Mode.r) ∈ held.erase (x, .r) := by
      intro y hy
      have hne : (y, Mode.r) ≠ (x, Mode.r) := by
        intro h; simp at h; exact hx.1 (h ▸ hy)
      exact (List.mem_erase_of_ne hne).mpr (hall y (by simp [hy]))
    have h1 := ih (held.erase (x, .r)) hx.2 hall'
    have h2 := countP_erase_add p held (x, .r) (hall x (by simp))
    simp only [eraseAll, List.map_cons, List.countP_cons]
    omega

theorem mem_eraseAll : ∀ (xs : List Nat) (held : List (Nat × Mode)), Sorted held →
    (∀ x ∈ xs, (x, Mode.r) ∈ held) → xs.Nodup →
    ∀ a ∈ eraseAll held .r xs, a ∈ held ∧ a.1 ∉ xs := by
  intro xs
  induction xs with
  | nil => intro held _ _ _ a ha; exact ⟨ha, by simp⟩
  | cons x xs ih =>
    intro held hs hall hnd a ha
    have hx := List.nodup_cons.mp hnd
    have hall' : ∀ y ∈ xs, (y, Mode.r) ∈ held.erase (x, .r) := by
      intro y hy
      have hne : (y, Mode.r) ≠ (x, Mode.r) := by
        intro h; simp at h; exact hx.1 (h ▸ hy)
      exact (List.mem_erase_of_ne hne).mpr (hall y (by simp [hy]))
    obtain ⟨h1, h2⟩ := ih (held.erase (x, .r)) (hs.erase _) hall' hx.2 a ha
    refine ⟨List.mem_of_mem_erase h1, ?_⟩
    intro hm
    rcases List.mem_cons.mp hm with h | h
    · exact hs.not_mem_erase (hall x (by simp)) a h1 h
    · exact h2 h

theorem nodup_map_of_inj_on {f : Nat → Nat} : ∀ (xs : List Nat), xs.Nodup →
    (∀ y ∈ xs, ∀ z ∈ xs, f y = f z → y = z) → (xs.map f).Nodup := by
  intro xs
  induction xs with
  | nil => intro _ _; exact List.nodup_nil
  | cons x xs ih =>
    intro hnd hinj
    have hx := List.nodup_cons.mp hnd
    simp only [List.map_cons]
    refine List.nodup_cons.mpr ⟨?_, ih hx.2 (fun y hy z hz => hinj y (by simp [hy]) z (by simp [hz]))⟩
    intro hm
    simp only [List.mem_map] at hm
    obtain ⟨y, hy, he⟩ := hm
    have := hinj y (by simp [hy]) x (by simp) he
    exact hx.1 (this ▸ hy)

theorem count_map_obj (f : Nat → Nat) (m : Mode) (o : Nat) (xs : List Nat) :
    (xs.map (fun x => (x, m))).countP (fun h : Nat × Mode => h.2 == m && f h.1 == o) = (xs.map f).count o := by
  induction xs with
  | nil => rfl
  | cons x xs ih =>
    simp only [List.map_cons, List.countP_cons, List.count_cons, ih]
    simp

theorem count_map_ent (m : Mode) (y : Nat) (xs : List Nat) :
    (xs.map (fun x => (x, m))).countP (fun h : Nat × Mode => h.1 == y) = xs.count y := by
  induction xs with
  | nil => rfl
  | cons x xs ih => simp only [List.map_cons, List.countP_cons, List.count_cons, ih]

/-- What `RUnlock(xs...)` finds in its critical section, for a goroutine that holds all of `xs` for reading. -/
theorem cinv_runlockC {s : CSh} {pre post : List CTh} {t : CTh} (h : CInv s (pre ++ t :: post))
    {xs : List Nat} (hc : t.ctl = .runlockC xs) :
    lookAll s [] xs = some (xs.map t.hobj) ∧
      (xs = [] → CInv { s with dm := false } (pre ++ { t with ctl := .runregA xs, held := eraseAll t.held .r xs } :: post)) ∧
      (∀ x xs', xs = x :: xs' →
        CInv { s with dm := false }
          (pre ++ startInner { t with held := eraseAll t.held .r xs } .runlock 0 (t.hobj x) (.ru (xs'.map t.hobj) xs) :: post)) := by
  have hti := h.th t (by simp)
  have hni : isInner t = false := by simp [isInner, hc]
  have hidle := hti.ci hni
  have hsi := hti.si
  simp only [SI, hc] at hsi
  obtain ⟨hall, hok⟩ := hsi
  obtain ⟨hnd, hmem⟩ := allHeld_spec xs t.held hti.so hall
  have hent : ∀ x ∈ xs, s.ent x = some (t.hobj x) := fun x hx => hti.tl.t1 (x, .r) (hmem x hx)
  have e1 := lookAll_spec s h.rw t.hobj xs [] hnd (fun _ _ => by simp) hent
  refine ⟨e1, ?_, ?_⟩
  · -- no ids: nothing happens
    intro hx
    subst hx
    have := cinv_ctl h (.runregA []) t.script false hni (by simp [isInner])
      (by intro k hk; simp only [fDm, hc] at hk; simp only [fDm]; exact dm_release hk)
      (by simp only [SI]; exact hok) (by simp [unrg, hc])
    simpa [eraseAll] using this
  · intro x xs' hxs
    have hv := (lk_outside_iff hni hidle).mp hti.lk
    have hxin : x ∈ xs := by rw [hxs]; simp
    have hx' := List.nodup_cons.mp (hxs ▸ hnd)
    -- the remaining entries avoid the unlocked entities and their objects
    have hrem := mem_eraseAll xs t.held hti.so hmem hnd
    have hobjinj : ∀ y ∈ xs, ∀ z ∈ xs, t.hobj y = t.hobj z → y = z := by
      intro y hy z hz he
      have h1 := hent y hy; have h2 := hent z hz
      rw [he] at h1
      exact h.rw.inj _ _ _ h1 h2
    have hz0 : ∀ y ∈ xs, cR { t with held := eraseAll t.held .r xs } (t.hobj y) = 0 ∧
        cW { t with held := eraseAll t.held .r xs } (t.hobj y) = 0 := by
      intro y hy
      apply counts_zero
      intro a ha ho
      obtain ⟨ha1, ha2⟩ := hrem a ha
      have := held_ent h.rw hti.tl.t1 ha1 (hent y hy) ho
      exact ha2 (this ▸ hy)
    have hcR : ∀ o, cR { t with held := eraseAll t.held .r xs } o + (xs.map t.hobj).count o = cR t o := by
      intro o
      have := eraseAll_count (fun h : Nat × Mode => h.2 == .r && t.hobj h.1 == o) xs t.held hnd hmem
      rw [count_map_obj] at this
      exact this
    have hcW : ∀ o, cW { t with held := eraseAll t.held .r xs } o = cW t o := by
      intro o
      have := eraseAll_count (fun h : Nat × Mode => h.2 == .w && t.hobj h.1 == o) xs t.held hnd hmem
      have hz : (xs.map (fun x => (x, Mode.r))).countP (fun h : Nat × Mode => h.2 == .w && t.hobj h.1 == o) = 0 := by
        simp [List.countP_eq_zero]
      simp only [cW]
      omega
    have hpnd : (xs'.map t.hobj).Nodup :=
      nodup_map_of_inj_on xs' hx'.2 (fun y hy z hz => hobjinj y (by rw [hxs]; simp [hy]) z (by rw [hxs]; simp [hz]))
    have hxnot : t.hobj x ∉ xs'.map t.hobj := by
      intro hm
      simp only [List.mem_map] at hm
      obtain ⟨y, hy, he⟩ := hm
      have := hobjinj y (by rw [hxs]; simp [hy]) x hxin he
      exact hx'.1 (this ▸ hy)
    have hcnt0 : (xs'.map t.hobj).count (t.hobj x) = 0 := List.count_eq_zero.mpr hxnot
    have hcRx : cR t (t.hobj x) = 1 := by
      have := hcR (t.hobj x)
      rw [(hz0 x hxin).1, hxs, List.map_cons, List.count_cons_self, hcnt0] at this
      omega
    have hcWx : cW t (t.hobj x) = 0 := by rw [← hcW]; exact (hz0 x hxin).2
    refine cinv_assemble h ?_ ?_ ?_ ⟨h.rw.z, h.rw.lt, h.rw.inj⟩
      (fun u _ htl _ => ⟨htl.t1, htl.t2, htl.t3⟩) ?_
    · intro o' hw
      have hp : proj o' t = proj o' { t with held := eraseAll t.held .r xs } := rfl
      rw [hp] at hw
      apply obj_start (t := { t with held := eraseAll t.held .r xs }) hidle .runlock 0 _ _ o' _ hw
      show vinv ⟨start .runlock, t.rd (t.hobj x), t.wr (t.hobj x)⟩
      rw [(hv _).1, (hv _).2, hcRx, hcWx]
      simp [vinv, start]
    · intro k hk
      simp only [fDm, hc] at hk
      simp only [fDm, startInner]
      exact dm_release hk
    · intro y k hk
      have hun : unrg t = [] := by simp [unrg, hc]
      rw [regc_outside hni, hun] at hk
      show s.cnt y = _
      rw [hk]
      have := eraseAll_count (fun h : Nat × Mode => h.1 == y) xs t.held hnd hmem
      rw [count_map_ent] at this
      simp only [regc, acq, isInner, startInner, restEnts, restPairs, unrg]
      simp
      omega
    · refine ⟨?_, ?_, ?_, ?_, hti.so.eraseAll _ _, ?_, by simpa [unrg, startInner] using hnd⟩
      · intro hi; simp [isInner, startInner] at hi
      · simp [KOk, startInner]
      · have hpend : pend (startInner { t with held := eraseAll t.held .r xs } .runlock 0 (t.hobj x) (.ru (xs'.map t.hobj) xs))
            = xs'.map t.hobj := by simp [pend, startInner]
        have hin : ∀ o, inA (startInner { t with held := eraseAll t.held .r xs } .runlock 0 (t.hobj x) (.ru (xs'.map t.hobj) xs)) o
            = (t.hobj x == o) := by intro o; simp [inA, isInner, startInner]
        have hcR' : ∀ o, cR (startInner { t with held := eraseAll t.held .r xs } .runlock 0 (t.hobj x) (.ru (xs'.map t.hobj) xs)) o
            = cR { t with held := eraseAll t.held .r xs } o := fun _ => rfl
        have hcW' : ∀ o, cW (startInner { t with held := eraseAll t.held .r xs } .runlock 0 (t.hobj x) (.ru (xs'.map t.hobj) xs)) o
            = cW { t with held := eraseAll t.held .r xs } o := fun _ => rfl
        refine ⟨?_, ?_, ?_, ?_⟩
        · intro o
          rw [proj_startInner, hpend, hcR', hcW', bonusR_start, bonusW_start, hcW]
          have hcount : (xs.map t.hobj).count o = (xs'.map t.hobj).count o + (if t.hobj x = o then 1 else 0) := by
            rw [hxs]; simp [List.count_cons]
          have hco := hcR o
          rw [hcount] at hco
          obtain ⟨h1, h2⟩ := hv o
          show after ⟨if t.hobj x = o then start .runlock else .idle, t.rd o, t.wr o⟩ = _
          by_cases ho : t.hobj x = o
          · subst ho
            have hzz := (hz0 x hxin).1
            simp only [if_true] at hco
            rw [hcnt0] at hco ⊢
            simp [after, start, h1, hcWx]
            omega
          · have hb : (t.hobj x == o) = false := by simpa using ho
            simp only [ho, if_false, Nat.add_zero] at hco
            simp [ho, hb, after, h1, h2]
            omega
        · intro o ho
          rw [hpend, hin, hcR', hcW'] at *
          have : ∃ y ∈ xs, t.hobj y = o := by
            rcases ho with ho | ho
            · exact ⟨x, hxin, by simpa using ho⟩
            · simp only [List.mem_map] at ho
              obtain ⟨y, hy, he⟩ := ho
              exact ⟨y, by rw [hxs]; simp [hy], he⟩
          obtain ⟨y, hy, rfl⟩ := this
          exact hz0 y hy
        · intro o ho
          rw [hpend]
          rw [hin] at ho
          have : t.hobj x = o := by simpa using ho
          subst this
          exact hxnot
        · rw [hpend]; exact hpnd
      · simp only [SI, startInner]; exact hok
      · refine ⟨?_, ?_, ?_⟩
        · intro a ha
          exact hti.tl.t1 a (hrem a ha).1
        · intro ha; simp [acq, startInner] at ha
        · intro p hp; simp [restPairs, startInner] at hp

end Hive.SyncMutex.Comp
