import Hive.Proofs.SafeMathLemmas
import Hive.Gen.C19_SafeMath
/-! SafeDiv: the definition generated from core/safemath/safe_math.go meets the specification, for every width and signedness. -/
namespace Hive.GoInt
open Hive.Gen.SafeMath IntTy

theorem safeDiv_exact (T : IntTy) (hb : 0 < T.bits) (x y : Int) (hx : T.InRange x) (hy : T.InRange y) :
    SafeDiv T x y = exactDiv T x y := by
  obtain ⟨b1, b2, b3, b4, b5, b6⟩ := bounds T hb
  unfold SafeDiv exactDiv exact
  by_cases hy0 : y = 0
  · simp [hy0]
  · simp only [hy0, decide_false, Bool.false_eq_true, if_false]
    rcases tdiv_inRange_or T hb x y hx hy hy0 with hq | ⟨hs, hxmin, hym1⟩
    · rw [if_pos hq]
      have hd : T.div x y = x.tdiv y := T.wrap_eq_self hb _ hq
      rw [hd]
      have hneg : ¬ (x < 0 ∧ y < 0 ∧ x.tdiv y < 0) := by
        intro ⟨h1, h2, h3⟩
        have := Int.tdiv_nonneg_of_nonpos_of_nonpos (Int.le_of_lt h1) (Int.le_of_lt h2)
        omega
      have : (decide (x < 0) && decide (y < 0) && decide (x.tdiv y < 0)) = false := by
        rcases Decidable.em (x < 0) with h1 | h1 <;> rcases Decidable.em (y < 0) with h2 | h2 <;>
          rcases Decidable.em (x.tdiv y < 0) with h3 | h3 <;> simp [h1, h2, h3] <;> exact hneg ⟨h1, h2, h3⟩
      simp [this]
    · obtain ⟨e1, e2⟩ := b5 hs
      have hq : x.tdiv y = T.half := by rw [hxmin, hym1, e1]; simp
      have hnot : ¬ T.InRange (x.tdiv y) := by rw [hq]; unfold InRange; omega
      rw [if_neg hnot]
      have hd : T.div x y = -T.half := by unfold IntTy.div; rw [hq]; exact wrap_half T hb hs
      have hx' : x < 0 := by omega
      have hy' : y < 0 := by omega
      have hr' : -T.half < 0 := by omega
      simp [hd, hx', hy', b4]

end Hive.GoInt
