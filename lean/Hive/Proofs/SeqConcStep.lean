import Hive.Proofs.SeqConc
/-! Every transition of the protocol model of concurrent `Sequence` callers preserves the invariant:
one lemma per program point of `Next` / `update` / `Release`, one for crash + restart. -/
namespace Hive.Seq.Conc
open Hive.Conc Hive.Seq

theorem mem_withObj {sh : Shared} {f : Obj → List (Shared × Gor)} {x : Shared × Gor} (h : x ∈ withObj sh f) :
    ∃ o, sh.st.obj = some o ∧ x ∈ f o := by
  unfold withObj at h
  cases hobj : sh.st.obj with
  | none => simp [hobj] at h
  | some o => exact ⟨o, rfl, by simpa [hobj] using h⟩

theorem inv_me {s0 : St} {s : Shared} {pre post : List Thread} {g : Gor}
    (hi : Inv s0 (s, pre ++ .gor g :: post)) (hep : g.epoch = s.epoch) (hin : g.pc.inside = true) :
    s.holder = some g.id ∧ PcOk s g.id g.pc :=
  (hi.threads (.gor g) (by simp)).2 hep hin

/-- A linearisation point: `sm` is the state after the call's last concrete effect; that effect and
the answer are the sequential step of `op` on the state the section started from. -/
theorem inv_lin {s0 : St} {s sm : Shared} {pre post : List Thread} {g g' : Gor}
    (hi : Inv s0 (s, pre ++ .gor g :: post)) (hep : g.epoch = s.epoch) (hin : g.pc.inside = true)
    (hep' : g'.epoch = g.epoch) (hid : g'.id = g.id) {a : Out} (hpc' : g'.pc = .unlock a) {op : Op}
    (he : sm.epoch = s.epoch) (hh : sm.holder = s.holder) (hhist : sm.hist = s.hist)
    (hs : step s.base op = (sm.st, a)) (hop : op.wf)
    (hlog : sm.st.returned = (sm.log.map (·.2)).reverse ++ s0.returned) :
    Inv s0 (lin sm g.id op a, pre ++ .gor g' :: post) := by
  refine inv_holder hi hep hin hep' hid hpc' rfl he hh ?_ ?_ hlog ?_
  · show Seq.run s0 (histOps (sm.hist ++ [(some g.id, op, a)])) = (sm.st, histOuts (sm.hist ++ [(some g.id, op, a)]))
    rw [hhist]; exact run_lin (some g.id) hi.run hs
  · show ∀ o ∈ histOps (sm.hist ++ [(some g.id, op, a)]), o.wf
    rw [hhist]; exact wf_lin (some g.id) a hi.wf hop
  · exact ⟨rfl, rfl, op, getLast_snoc _ _⟩

section cases
variable {s0 : St} {s s1 : Shared} {pre post : List Thread} {id ep : Nat} {script : List Call} {got : List Out}
  {g1 : Gor}

theorem inv_idle (hi : Inv s0 (s, pre ++ .gor ⟨id, ep, script, .idle, got⟩ :: post)) (hep : ep = s.epoch)
    (hm : (s1, g1) ∈ mstep s ⟨id, ep, script, .idle, got⟩) : Inv s0 (s1, pre ++ .gor g1 :: post) := by
  simp only [mstep] at hm
  cases script with
  | nil => simp at hm
  | cons c rest =>
    simp only at hm
    split at hm
    · simp at hm
    · rename_i hh
      simp only [List.mem_singleton, Prod.mk.injEq] at hm
      obtain ⟨rfl, rfl⟩ := hm
      have hh' : s.holder = none := by
        cases h : s.holder with
        | none => rfl
        | some x => simp [h] at hh
      exact inv_acquire c hi hep rfl hh'

theorem inv_nTest (hi : Inv s0 (s, pre ++ .gor ⟨id, ep, script, .nTest, got⟩ :: post)) (hep : ep = s.epoch)
    (hm : (s1, g1) ∈ mstep s ⟨id, ep, script, .nTest, got⟩) : Inv s0 (s1, pre ++ .gor g1 :: post) := by
  simp only [mstep] at hm
  obtain ⟨o, hobj, hx⟩ := mem_withObj hm
  simp only [List.mem_singleton, Prod.mk.injEq] at hx
  obtain ⟨h1, h2⟩ := hx
  subst s1 g1
  obtain ⟨_, hst, hcp⟩ := inv_me hi hep rfl
  have hbo : s.base.obj = some o := by rw [← hst]; exact hobj
  cases hl : hasLease o with
  | true =>
    refine inv_holder hi hep rfl rfl rfl (pc' := .nHand) (by simp) rfl rfl rfl hi.run hi.wf hi.lognums ?_
    exact Or.inl ⟨hst, hcp, o, hbo, hl⟩
  | false =>
    refine inv_holder hi hep rfl rfl rfl (pc' := .uGet) (by simp) rfl rfl rfl hi.run hi.wf hi.lognums ?_
    exact ⟨hst, hcp, o, hbo, hl⟩

theorem inv_uGet (hi : Inv s0 (s, pre ++ .gor ⟨id, ep, script, .uGet, got⟩ :: post)) (hep : ep = s.epoch)
    (hm : (s1, g1) ∈ mstep s ⟨id, ep, script, .uGet, got⟩) : Inv s0 (s1, pre ++ .gor g1 :: post) := by
  simp only [mstep] at hm
  obtain ⟨o, hobj, hx⟩ := mem_withObj hm
  obtain ⟨_, hst, hcp, ob, hbo, hl⟩ := inv_me hi hep rfl
  simp only [List.mem_cons, Prod.mk.injEq, List.not_mem_nil, or_false] at hx
  rcases hx with ⟨h1, h2⟩ | ⟨h1, h2⟩ <;> subst s1 g1
  · refine inv_holder hi hep rfl rfl rfl (pc' := .uNext (mark s.st)) rfl rfl rfl rfl hi.run hi.wf hi.lognums ?_
    exact ⟨hst, hcp, by rw [hst], ob, hbo, hl⟩
  · refine inv_lin (sm := s) (g := ⟨id, ep, script, .uGet, got⟩) (g' := ⟨id, ep, script, .unlock .err, got⟩)
      (a := .err) (op := .failNext .get) hi hep rfl rfl rfl rfl rfl rfl rfl ?_ trivial ?_
    · rw [hst]; simp [step, hbo, hl]
    · rw [hst]; exact hi.lognums

theorem inv_uNext {m : Nat} (hi : Inv s0 (s, pre ++ .gor ⟨id, ep, script, .uNext m, got⟩ :: post))
    (hep : ep = s.epoch) (hm : (s1, g1) ∈ mstep s ⟨id, ep, script, .uNext m, got⟩) :
    Inv s0 (s1, pre ++ .gor g1 :: post) := by
  simp only [mstep] at hm
  obtain ⟨o, hobj, hx⟩ := mem_withObj hm
  obtain ⟨_, hst, hcp, hmk, ob, hbo, hl⟩ := inv_me hi hep rfl
  have hoe : ob = o := by rw [hst, hbo] at hobj; exact Option.some.inj hobj
  subst hoe hmk
  by_cases hz : lease (mark s.base) ob.interval = 0
  · simp only [hz, if_true, List.mem_singleton, Prod.mk.injEq] at hx
    obtain ⟨h1, h2⟩ := hx
    subst s1 g1
    refine inv_lin (sm := setObj s { ob with next := mark s.base }) (g := ⟨id, ep, script, .uNext (mark s.base), got⟩)
      (g' := ⟨id, ep, script, .unlock .err, got⟩) (a := .err) (op := .next) hi hep rfl rfl rfl rfl rfl rfl rfl
      ?_ trivial ?_
    · simp [step, hbo, hl, hz, setObj, hst]
    · simp only [setObj, hst]; exact hi.lognums
  · simp only [hz, if_false, List.mem_singleton, Prod.mk.injEq] at hx
    obtain ⟨h1, h2⟩ := hx
    subst s1 g1
    refine inv_holder hi hep rfl rfl rfl (pc' := .uSet) rfl rfl rfl rfl hi.run hi.wf hi.lognums ?_
    refine ⟨hcp, ob, hbo, hl, hz, ?_⟩
    simp only [setObj, hst]

theorem inv_uSet (hi : Inv s0 (s, pre ++ .gor ⟨id, ep, script, .uSet, got⟩ :: post)) (hep : ep = s.epoch)
    (hm : (s1, g1) ∈ mstep s ⟨id, ep, script, .uSet, got⟩) : Inv s0 (s1, pre ++ .gor g1 :: post) := by
  simp only [mstep] at hm
  obtain ⟨o, hobj, hx⟩ := mem_withObj hm
  obtain ⟨_, hcp, ob, hbo, hl, hz, hst⟩ := inv_me hi hep rfl
  have hoe : o = { ob with next := mark s.base } := by
    rw [hst] at hobj; exact (Option.some.inj hobj).symm
  subst hoe
  simp only [List.mem_cons, Prod.mk.injEq, List.not_mem_nil, or_false] at hx
  rcases hx with ⟨h1, h2⟩ | ⟨h1, h2⟩ <;> subst s1 g1
  · refine inv_holder hi hep rfl rfl rfl (pc' := .uRes (mark s.base + lease (mark s.base) ob.interval)) rfl rfl rfl rfl
      hi.run hi.wf hi.lognums ?_
    refine ⟨rfl, ob, hbo, hl, hz, rfl, ?_⟩
    simp only [setStore, hst]
  · refine inv_lin (sm := s) (g := ⟨id, ep, script, .uSet, got⟩) (g' := ⟨id, ep, script, .unlock .err, got⟩)
      (a := .err) (op := .failNext .set) hi hep rfl rfl rfl rfl rfl rfl rfl ?_ trivial ?_
    · rw [hst]; simp [step, hbo, hl]
    · rw [hst]; exact hi.lognums

theorem inv_uRes {r : Nat} (hi : Inv s0 (s, pre ++ .gor ⟨id, ep, script, .uRes r, got⟩ :: post))
    (hep : ep = s.epoch) (hm : (s1, g1) ∈ mstep s ⟨id, ep, script, .uRes r, got⟩) :
    Inv s0 (s1, pre ++ .gor g1 :: post) := by
  simp only [mstep] at hm
  obtain ⟨o, hobj, hx⟩ := mem_withObj hm
  simp only [List.mem_singleton, Prod.mk.injEq] at hx
  obtain ⟨h1, h2⟩ := hx
  subst s1 g1
  obtain ⟨_, hcp, ob, hbo, hl, hz, hr, hst⟩ := inv_me hi hep rfl
  have hoe : o = { ob with next := mark s.base } := by
    rw [hst] at hobj; exact (Option.some.inj hobj).symm
  subst hoe hr
  refine inv_holder hi hep rfl rfl rfl (pc' := .nHand) rfl rfl rfl rfl hi.run hi.wf hi.lognums ?_
  refine Or.inr ⟨hcp, ob, hbo, hl, hz, ?_⟩
  simp only [setObj, hst]

theorem inv_nHand (hi : Inv s0 (s, pre ++ .gor ⟨id, ep, script, .nHand, got⟩ :: post)) (hep : ep = s.epoch)
    (hm : (s1, g1) ∈ mstep s ⟨id, ep, script, .nHand, got⟩) : Inv s0 (s1, pre ++ .gor g1 :: post) := by
  simp only [mstep] at hm
  obtain ⟨o, hobj, hx⟩ := mem_withObj hm
  simp only [List.mem_singleton, Prod.mk.injEq] at hx
  obtain ⟨h1, h2⟩ := hx
  subst s1 g1
  have hln := hi.lognums
  obtain ⟨_, hme⟩ := inv_me hi hep rfl
  rcases hme with ⟨hst, hcp, ob, hbo, hl⟩ | ⟨hcp, ob, hbo, hl, hz, hst⟩
  · have hoe : ob = o := by rw [hst, hbo] at hobj; exact Option.some.inj hobj
    subst hoe
    refine inv_lin (sm := handOut s id ob) (g := ⟨id, ep, script, .nHand, got⟩)
      (g' := ⟨id, ep, script, .unlock (.num ob.next), got⟩) (a := .num ob.next) (op := .next) hi hep rfl rfl rfl rfl rfl rfl rfl
      ?_ trivial ?_
    · simp [step, hbo, hl, handOut, hst]
    · simp only [handOut, List.map_append, List.map_cons, List.map_nil, List.reverse_append, List.reverse_cons,
        List.reverse_nil, List.nil_append, List.cons_append]
      rw [hst, hln]
  · have hoe : o = { ob with next := mark s.base, reserved := mark s.base + lease (mark s.base) ob.interval } := by
      rw [hst] at hobj; exact (Option.some.inj hobj).symm
    subst hoe
    refine inv_lin (sm := handOut s id { ob with next := mark s.base, reserved := mark s.base + lease (mark s.base) ob.interval })
      (g := ⟨id, ep, script, .nHand, got⟩)
      (g' := ⟨id, ep, script, .unlock (.num (mark s.base)), got⟩) (a := .num (mark s.base)) (op := .next) hi hep rfl rfl rfl rfl rfl rfl rfl
      ?_ trivial ?_
    · simp [step, hbo, hl, hz, handOut, hst, update]
    · simp only [handOut, List.map_append, List.map_cons, List.map_nil, List.reverse_append, List.reverse_cons,
        List.reverse_nil, List.nil_append, List.cons_append]
      rw [hst]; simp only; rw [hln]

theorem inv_rTest (hi : Inv s0 (s, pre ++ .gor ⟨id, ep, script, .rTest, got⟩ :: post)) (hep : ep = s.epoch)
    (hm : (s1, g1) ∈ mstep s ⟨id, ep, script, .rTest, got⟩) : Inv s0 (s1, pre ++ .gor g1 :: post) := by
  simp only [mstep] at hm
  obtain ⟨o, hobj, hx⟩ := mem_withObj hm
  obtain ⟨_, hst, hcp⟩ := inv_me hi hep rfl
  have hbo : s.base.obj = some o := by rw [← hst]; exact hobj
  cases hl : hasLease o with
  | true =>
    simp only [hl, if_true, List.mem_singleton, Prod.mk.injEq] at hx
    obtain ⟨h1, h2⟩ := hx
    subst s1 g1
    refine inv_holder hi hep rfl rfl rfl (pc' := .rSet) rfl rfl rfl rfl hi.run hi.wf hi.lognums ?_
    exact ⟨hst, hcp, o, hbo, hl⟩
  | false =>
    simp only [hl, Bool.false_eq_true, if_false, List.mem_singleton, Prod.mk.injEq] at hx
    obtain ⟨h1, h2⟩ := hx
    subst s1 g1
    refine inv_lin (sm := s) (g := ⟨id, ep, script, .rTest, got⟩) (g' := ⟨id, ep, script, .unlock .ok, got⟩)
      (a := .ok) (op := .release) hi hep rfl rfl rfl rfl rfl rfl rfl ?_ trivial ?_
    · rw [hst]; simp [step, hbo, hl]
    · rw [hst]; exact hi.lognums

theorem inv_rSet (hi : Inv s0 (s, pre ++ .gor ⟨id, ep, script, .rSet, got⟩ :: post)) (hep : ep = s.epoch)
    (hm : (s1, g1) ∈ mstep s ⟨id, ep, script, .rSet, got⟩) : Inv s0 (s1, pre ++ .gor g1 :: post) := by
  simp only [mstep] at hm
  obtain ⟨o, hobj, hx⟩ := mem_withObj hm
  obtain ⟨_, hst, hcp, ob, hbo, hl⟩ := inv_me hi hep rfl
  have hoe : ob = o := by rw [hst, hbo] at hobj; exact Option.some.inj hobj
  subst hoe
  simp only [List.mem_cons, Prod.mk.injEq, List.not_mem_nil, or_false] at hx
  rcases hx with ⟨h1, h2⟩ | ⟨h1, h2⟩ <;> subst s1 g1
  · refine inv_holder hi hep rfl rfl rfl (pc' := .rRes) rfl rfl rfl rfl hi.run hi.wf hi.lognums ?_
    refine ⟨rfl, ob, hbo, hl, ?_⟩
    simp only [setStore, hst]
  · refine inv_lin (sm := s) (g := ⟨id, ep, script, .rSet, got⟩) (g' := ⟨id, ep, script, .unlock .err, got⟩)
      (a := .err) (op := .failRelease) hi hep rfl rfl rfl rfl rfl rfl rfl ?_ trivial ?_
    · rw [hst]; simp [step, hbo, hl]
    · rw [hst]; exact hi.lognums

theorem inv_rRes (hi : Inv s0 (s, pre ++ .gor ⟨id, ep, script, .rRes, got⟩ :: post)) (hep : ep = s.epoch)
    (hm : (s1, g1) ∈ mstep s ⟨id, ep, script, .rRes, got⟩) : Inv s0 (s1, pre ++ .gor g1 :: post) := by
  simp only [mstep] at hm
  obtain ⟨o, hobj, hx⟩ := mem_withObj hm
  simp only [List.mem_singleton, Prod.mk.injEq] at hx
  obtain ⟨h1, h2⟩ := hx
  subst s1 g1
  have hln := hi.lognums
  obtain ⟨_, hcp, ob, hbo, hl, hst⟩ := inv_me hi hep rfl
  have hoe : ob = o := by rw [hst] at hobj; rw [hbo] at hobj; exact Option.some.inj hobj
  subst hoe
  refine inv_lin (sm := setObj s { ob with reserved := ob.next }) (g := ⟨id, ep, script, .rRes, got⟩)
    (g' := ⟨id, ep, script, .unlock .ok, got⟩) (a := .ok) (op := .release) hi hep rfl rfl rfl rfl rfl rfl rfl ?_ trivial ?_
  · simp [step, hbo, hl, setObj, hst]
  · simp only [setObj, hst]; exact hln

theorem inv_gunlock {a : Out} (hi : Inv s0 (s, pre ++ .gor ⟨id, ep, script, .unlock a, got⟩ :: post))
    (hep : ep = s.epoch) (hm : (s1, g1) ∈ mstep s ⟨id, ep, script, .unlock a, got⟩) :
    Inv s0 (s1, pre ++ .gor g1 :: post) := by
  simp only [mstep, List.mem_singleton, Prod.mk.injEq] at hm
  obtain ⟨rfl, rfl⟩ := hm
  exact inv_unlock a hi hep rfl rfl rfl

end cases

theorem inv_gor {s0 : St} {s s1 : Shared} {pre post : List Thread} {g g1 : Gor}
    (hi : Inv s0 (s, pre ++ .gor g :: post)) (hep : g.epoch = s.epoch) (hm : (s1, g1) ∈ mstep s g) :
    Inv s0 (s1, pre ++ .gor g1 :: post) := by
  obtain ⟨id, ep, script, pc, got⟩ := g
  cases pc with
  | idle => exact inv_idle hi hep hm
  | nTest => exact inv_nTest hi hep hm
  | uGet => exact inv_uGet hi hep hm
  | uNext m => exact inv_uNext hi hep hm
  | uSet => exact inv_uSet hi hep hm
  | uRes r => exact inv_uRes hi hep hm
  | nHand => exact inv_nHand hi hep hm
  | rTest => exact inv_rTest hi hep hm
  | rSet => exact inv_rSet hi hep hm
  | rRes => exact inv_rRes hi hep hm
  | unlock a => exact inv_gunlock hi hep hm

/-! ### crash at any point + restart -/

theorem step_new (b : St) (i : Nat) :
    step b (.new i) = ({ abandon b with obj := some { interval := i, next := 0, reserved := 0 } }, .ok) := rfl

/-- Whatever micro-step the goroutine inside a method has reached, abandoning the object there is a
crash of the sequential machine at the store-operation boundary `cp`. -/
theorem pcOk_crash {s : Shared} {id : Nat} {pc : Pc} (h : PcOk s id pc) (hin : pc.inside = true) :
    abandon s.st = abandon (step s.base (.crash s.cp)).1 ∧ s.st.returned = s.base.returned ∧
      (s.cp = .nextWrite → ∃ o, s.base.obj = some o ∧ hasLease o = false ∧ lease (mark s.base) o.interval ≠ 0) := by
  have hidle : ∀ {P : Prop}, s.cp = .idle → (s.cp = .nextWrite → P) := fun h h' => by rw [h] at h'; cases h'
  cases pc with
  | idle => cases hin
  | nTest => obtain ⟨hst, hcp⟩ := h; rw [hcp, step_crash_idle, abandon_idem, hst]; exact ⟨rfl, rfl, fun h' => by cases h'⟩
  | rTest => obtain ⟨hst, hcp⟩ := h; rw [hcp, step_crash_idle, abandon_idem, hst]; exact ⟨rfl, rfl, fun h' => by cases h'⟩
  | uGet => obtain ⟨hst, hcp, _⟩ := h; rw [hcp, step_crash_idle, abandon_idem, hst]; exact ⟨rfl, rfl, fun h' => by cases h'⟩
  | uNext m => obtain ⟨hst, hcp, _⟩ := h; rw [hcp, step_crash_idle, abandon_idem, hst]; exact ⟨rfl, rfl, fun h' => by cases h'⟩
  | rSet => obtain ⟨hst, hcp, _⟩ := h; rw [hcp, step_crash_idle, abandon_idem, hst]; exact ⟨rfl, rfl, fun h' => by cases h'⟩
  | unlock a => obtain ⟨hst, hcp, _⟩ := h; rw [hcp, step_crash_idle, abandon_idem, hst]; exact ⟨rfl, rfl, fun h' => by cases h'⟩
  | uSet =>
    obtain ⟨hcp, o, hbo, hl, _, hst⟩ := h
    refine ⟨?_, by rw [hst], hidle hcp⟩
    rw [hcp, step_crash_idle, abandon_idem, hst]
    simp [abandon, hbo]
  | uRes r =>
    obtain ⟨hcp, o, hbo, hl, hz, _, hst⟩ := h
    refine ⟨?_, by rw [hst], fun _ => ⟨o, hbo, hl, hz⟩⟩
    rw [hcp, hst]
    simp [step, abandon, hbo, hl, hz]
  | nHand =>
    rcases h with ⟨hst, hcp, _⟩ | ⟨hcp, o, hbo, hl, hz, hst⟩
    · rw [hcp, step_crash_idle, abandon_idem, hst]; exact ⟨rfl, rfl, fun h' => by cases h'⟩
    · refine ⟨?_, by rw [hst], fun _ => ⟨o, hbo, hl, hz⟩⟩
      rw [hcp, hst]
      simp [step, abandon, hbo, hl, hz]
  | rRes =>
    obtain ⟨hcp, o, hbo, hl, hst⟩ := h
    refine ⟨?_, by rw [hst], fun h' => by rw [hcp] at h'; cases h'⟩
    rw [hcp, hst]
    simp [step, abandon, hbo, hl]

theorem crash_ok {s0 : St} {c : Cfg Shared Thread} (hi : Inv s0 c) :
    abandon c.1.st = abandon (step c.1.base (.crash c.1.cp)).1 ∧ c.1.st.returned = c.1.base.returned ∧
      (c.1.cp = .nextWrite → ∃ o, c.1.base.obj = some o ∧ hasLease o = false ∧
        lease (mark c.1.base) o.interval ≠ 0) := by
  cases hh : c.1.holder with
  | none =>
    obtain ⟨hst, hcp⟩ := hi.quiet hh
    rw [hcp, step_crash_idle, abandon_idem, hst]
    exact ⟨rfl, rfl, fun h' => by cases h'⟩
  | some h =>
    have hc := hi.cnt
    rw [hh] at hc
    have hpos : 0 < c.2.countP (pIn c.1.epoch) := by rw [hc]; simp
    obtain ⟨t, ht, hp⟩ := List.countP_pos_iff.mp hpos
    cases t with
    | env rs => simp [pIn] at hp
    | gor g =>
      simp only [pIn, Bool.and_eq_true, beq_iff_eq] at hp
      obtain ⟨_, hok⟩ := (hi.threads _ ht).2 hp.1 hp.2
      exact pcOk_crash hok hp.2

theorem inv_env {s0 : St} {s s' : Shared} {pre post : List Thread} {rs : List Nat} {t' : Thread}
    (hi : Inv s0 (s, pre ++ .env rs :: post)) (hm : (s', t') ∈ estep s rs) :
    Inv s0 (s', pre ++ t' :: post) := by
  cases rs with
  | nil => simp [estep] at hm
  | cons i rest =>
    simp only [estep] at hm
    split at hm
    · simp at hm
    · rename_i hi0
      simp only [List.mem_singleton, Prod.mk.injEq] at hm
      obtain ⟨rfl, rfl⟩ := hm
      obtain ⟨hab, hret, _⟩ := crash_ok hi
      have hfresh : ∀ u, u ∈ pre ∨ u ∈ post → pIn (s.epoch + 1) u = false ∧ ThreadOk
          { st := (step s.st (.new i)).1, holder := none, epoch := s.epoch + 1, log := s.log,
            hist := s.hist ++ [(none, .crash s.cp, (step s.base (.crash s.cp)).2), (none, .new i, .ok)],
            base := (step s.st (.new i)).1, cp := .idle } u := by
        intro u hu
        have hu' := hi.threads u (mem_mid' hu)
        cases u with
        | env r => exact ⟨rfl, trivial⟩
        | gor g =>
          have hidle : g.epoch = s.epoch + 1 → g.pc = .idle := fun h => hu'.1 (by rw [h]; exact Nat.lt_succ_self _)
          refine ⟨?_, fun h => hu'.1 (Nat.lt_of_succ_lt h), fun h hin => ?_⟩
          · cases hge : decide (g.epoch = s.epoch + 1) with
            | false => simp only [decide_eq_false_iff_not] at hge; simp [pIn, hge]
            | true => simp only [decide_eq_true_eq] at hge; simp [pIn, hidle hge, Pc.inside]
          · rw [hidle h] at hin; cases hin
      constructor
      · show (pre ++ Thread.env rest :: post).countP (pIn (s.epoch + 1)) = if (none : Option Nat).isSome then 1 else 0
        simp only [Option.isSome_none, Bool.false_eq_true, if_false]
        apply List.countP_eq_zero.mpr
        intro u hu
        rcases mem_mid hu with rfl | hu
        · simp [pIn]
        · simp [(hfresh u hu).1]
      · show Seq.run s0 (histOps (s.hist ++ [(none, .crash s.cp, (step s.base (.crash s.cp)).2), (none, .new i, .ok)]))
          = ((step s.st (.new i)).1, histOuts (s.hist ++ [(none, .crash s.cp, (step s.base (.crash s.cp)).2), (none, .new i, .ok)]))
        have h1 : histOps (s.hist ++ [(none, .crash s.cp, (step s.base (.crash s.cp)).2), (none, .new i, .ok)])
            = histOps s.hist ++ [.crash s.cp, .new i] := by simp [histOps]
        have h2 : histOuts (s.hist ++ [(none, .crash s.cp, (step s.base (.crash s.cp)).2), (none, .new i, .ok)])
            = histOuts s.hist ++ [(step s.base (.crash s.cp)).2, .ok] := by simp [histOuts]
        rw [h1, h2, run_append, hi.run]
        simp only [Seq.run]
        have hab' : abandon s.st = abandon (step s.base (.crash s.cp)).1 := hab
        have : (step (step s.base (.crash s.cp)).1 (.new i)) = ((step s.st (.new i)).1, .ok) := by
          rw [step_new, step_new, hab']
        rw [this]
      · intro op hop
        have h1 : histOps (s.hist ++ [(none, .crash s.cp, (step s.base (.crash s.cp)).2), (none, .new i, .ok)])
            = histOps s.hist ++ [.crash s.cp, .new i] := by simp [histOps]
        have hop' : op ∈ histOps s.hist ++ [.crash s.cp, .new i] := h1 ▸ hop
        simp only [List.mem_append, List.mem_cons, List.not_mem_nil, or_false] at hop'
        rcases hop' with h | rfl | rfl
        · exact hi.wf op h
        · trivial
        · exact Nat.pos_of_ne_zero hi0
      · intro _; exact ⟨rfl, rfl⟩
      · show (step s.st (.new i)).1.returned = _
        have : (step s.st (.new i)).1.returned = s.st.returned := by simp [step, abandon_returned]
        rw [this, hret]; exact hi.lognums
      · intro u hu
        rcases mem_mid hu with rfl | hu
        · trivial
        · exact (hfresh u hu).2

theorem inv_step (s0 : St) {a b : Cfg Shared Thread} (hi : Inv s0 a) (hs : Step sys a b) : Inv s0 b := by
  cases hs with
  | mk s pre t post s' t' hmem =>
    cases t with
    | env rs => exact inv_env hi hmem
    | gor g =>
      simp only [sys, tstep] at hmem
      split at hmem
      · rename_i hep
        simp only [List.mem_map] at hmem
        obtain ⟨⟨s1, g1⟩, hm, heq⟩ := hmem
        simp only [Prod.mk.injEq] at heq
        obtain ⟨rfl, rfl⟩ := heq
        exact inv_gor hi hep hm
      · simp at hmem

theorem inv_init (s0 : St) (specs : List Spec) : Inv s0 (initSh s0, specs.map spawn) := by
  constructor
  · show (specs.map spawn).countP (pIn 0) = 0
    apply List.countP_eq_zero.mpr
    intro u hu
    simp only [List.mem_map] at hu
    obtain ⟨sp, _, rfl⟩ := hu
    cases sp <;> simp [spawn, pIn, Pc.inside]
  · simp [initSh, histOps, histOuts, Seq.run]
  · intro op hop; simp [initSh, histOps] at hop
  · intro _; exact ⟨rfl, rfl⟩
  · simp [initSh]
  · intro u hu
    simp only [List.mem_map] at hu
    obtain ⟨sp, _, rfl⟩ := hu
    cases sp with
    | env rs => trivial
    | gor id e sc => exact ⟨fun _ => rfl, fun _ h => by cases h⟩

/-- The invariant holds in every configuration reachable from any pool of goroutines and
environments, with any scripts, under any schedule. -/
theorem inv_reach (s0 : St) (specs : List Spec) {c : Cfg Shared Thread}
    (hr : Reach sys (initSh s0, specs.map spawn) c) : Inv s0 c :=
  inv_induction (Inv s0) (inv_init s0 specs) (fun _ _ hi hs => inv_step s0 hi hs) hr

end Hive.Seq.Conc
