import Hive.Spec.ReactiveVariants
/-! Proofs about the subscription-variant machines (for every note stream). -/
namespace Hive.Reactive

/-! ## OnUpdateOnce -/
section once
variable {N : Type} (cond : N → Bool)

theorem onceRun_fired (l : List N) : onceRun cond true l = (true, []) := by
  induction l with
  | nil => rfl
  | cons n r ih => simp [onceRun, onceStep, ih]

theorem onceRun_calls (l : List N) : (onceRun cond false l).2 = (l.find? cond).toList := by
  induction l with
  | nil => rfl
  | cons n r ih =>
    cases hc : cond n with
    | true => simp [onceRun, onceStep, hc, onceRun_fired, List.find?]
    | false => simp [onceRun, onceStep, hc, ih, List.find?]

theorem onceRun_length (b : Bool) (l : List N) : (onceRun cond b l).2.length ≤ 1 := by
  cases b with
  | true => simp [onceRun_fired]
  | false => rw [onceRun_calls]; cases l.find? cond <;> simp

theorem onceRun_append (b : Bool) (l1 l2 : List N) :
    onceRun cond b (l1 ++ l2) = ((onceRun cond (onceRun cond b l1).1 l2).1,
      (onceRun cond b l1).2 ++ (onceRun cond (onceRun cond b l1).1 l2).2) := by
  induction l1 generalizing b with
  | nil => simp [onceRun]
  | cons n r ih => simp [onceRun, ih, List.append_assoc]

theorem onceRun_state (l : List N) : (onceRun cond false l).1 = (l.find? cond).isSome := by
  induction l with
  | nil => rfl
  | cons n r ih =>
    cases hc : cond n with
    | true => simp [onceRun, onceStep, hc, onceRun_fired, List.find?]
    | false => simp [onceRun, onceStep, hc, ih, List.find?]

end once

/-! ## WithValue -/
section wv
variable {V : Type} [DecidableEq V] (cond : V → Bool)

theorem wvStep_scan (active : Option V) (v : V) :
    (wvStep cond active v).2.foldl wvScan (some active) = some (wvStep cond active v).1 := by
  cases active <;> cases hc : cond v <;> simp [wvStep, hc, wvScan]

theorem wvRun_scan (active : Option V) (vals : List V) :
    (wvRun cond active vals).2.foldl wvScan (some active) = some (wvRun cond active vals).1 := by
  induction vals generalizing active with
  | nil => rfl
  | cons v r ih =>
    simp only [wvRun, List.foldl_append, wvStep_scan, ih]

/-- The state after a run: set up for the last value iff it satisfies the condition. -/
theorem wvRun_state (active : Option V) (vals : List V) :
    (wvRun cond active vals).1 = match vals.getLast? with
      | none => active
      | some v => if cond v then some v else none := by
  induction vals generalizing active with
  | nil => rfl
  | cons v r ih =>
    simp only [wvRun]
    rw [ih]
    cases r with
    | nil => simp [wvStep]
    | cons w r' =>
      rw [List.getLast?_cons_cons]
      cases hg : (w :: r').getLast? with
      | none => simp [List.getLast?_eq_none_iff] at hg
      | some x => rfl

theorem wvUnsub_scan (active : Option V) : (wvUnsub active).foldl wvScan (some active) = some none := by
  cases active <;> simp [wvUnsub, wvScan]

theorem wvSetups_append (a b : List (WvEv V)) : wvSetups (a ++ b) = wvSetups a ++ wvSetups b := by
  induction a with
  | nil => rfl
  | cons x xs ih => cases x <;> simp [wvSetups, ih]

theorem wvRun_setups (active : Option V) (vals : List V) :
    wvSetups (wvRun cond active vals).2 = vals.filter cond := by
  induction vals generalizing active with
  | nil => rfl
  | cons v r ih =>
    simp only [wvRun, wvSetups_append, ih]
    cases active <;> cases hc : cond v <;> simp [wvStep, hc, wvSetups, List.filter]

end wv

/-! ## OnUpdateWithContext -/
section ctx
variable {N : Type}

theorem ctx_downs (l r : List CtxId) :
    (l.map (CtxEv.down (N := N))).foldl ctxScan (some (l ++ r)) = some r := by
  induction l with
  | nil => rfl
  | cons x xs ih => simp [ctxScan, ih]

theorem ctx_subs (acc : List CtxId) (subs : List (CtxId × Bool)) :
    (subs.map (fun s => if s.2 then CtxEv.sub (N := N) s.1 else CtxEv.subNil s.1)).foldl ctxScan (some acc)
      = some (acc ++ (subs.filter (·.2)).map (·.1)) := by
  induction subs generalizing acc with
  | nil => simp
  | cons s r ih =>
    obtain ⟨id, b⟩ := s
    cases b <;> simp [ctxScan, ih, List.filter]

theorem ctxStep_scan (body : Nat → N → List Bool) (st : CtxSt) (n : N) :
    (ctxStep body st n).2.foldl ctxScan (some st.opens) = some (ctxStep body st n).1.opens := by
  simp only [ctxStep, List.foldl_append]
  have := ctx_downs (N := N) st.opens []
  rw [List.append_nil] at this
  rw [this]
  simp only [List.foldl_cons, List.foldl_nil, ctxScan]
  rw [ctx_subs]; simp

theorem ctxRun_scan (body : Nat → N → List Bool) (st : CtxSt) (notes : List N) :
    (ctxRun body st notes).2.foldl ctxScan (some st.opens) = some (ctxRun body st notes).1.opens := by
  induction notes generalizing st with
  | nil => rfl
  | cons n r ih => simp only [ctxRun, List.foldl_append, ctxStep_scan, ih]

theorem ctxUnsub_scan (st : CtxSt) : (ctxUnsub (N := N) st).foldl ctxScan (some st.opens) = some [] := by
  have := ctx_downs (N := N) st.opens []
  rw [List.append_nil] at this
  exact this

theorem ctxCalls_append (a b : List (CtxEv N)) : ctxCalls (a ++ b) = ctxCalls a ++ ctxCalls b := by
  induction a with
  | nil => rfl
  | cons x xs ih => cases x <;> simp [ctxCalls, ih]

theorem ctxCalls_downs (l : List CtxId) : ctxCalls (l.map (CtxEv.down (N := N))) = [] := by
  induction l with
  | nil => rfl
  | cons x xs ih => simp [ctxCalls, ih]

theorem ctxCalls_subs (subs : List (CtxId × Bool)) :
    ctxCalls (subs.map (fun s => if s.2 then CtxEv.sub (N := N) s.1 else CtxEv.subNil s.1)) = [] := by
  induction subs with
  | nil => rfl
  | cons s r ih => obtain ⟨id, b⟩ := s; cases b <;> simp [ctxCalls, ih]

theorem ctxRun_calls (body : Nat → N → List Bool) (st : CtxSt) (notes : List N) :
    ctxCalls (ctxRun body st notes).2 = notes := by
  induction notes generalizing st with
  | nil => rfl
  | cons n r ih =>
    simp only [ctxRun, ctxCalls_append, ih, ctxStep, ctxCalls_downs, ctxCalls_subs, ctxCalls]
    simp

end ctx

end Hive.Reactive
