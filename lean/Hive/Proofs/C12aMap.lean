import Hive.Model.C12aMap
/-! Laws of the association-list map used by the C12 part-A models. -/
namespace Hive.C12a.AL

variable {β : Type}

theorem get_set (m : AL β) (k k' : Nat) (v : β) :
    get (set m k v) k' = if k = k' then some v else get m k' := by
  induction m with
  | nil => simp [set, get]
  | cons p t ih =>
    obtain ⟨a, b⟩ := p
    by_cases h : a = k
    · subst h
      by_cases h2 : a = k' <;> simp [set, get, h2]
    · simp only [set, h, if_false, get]
      by_cases h2 : a = k'
      · subst h2; simp [Ne.symm h]
      · simp [h2, ih]

theorem get_del (m : AL β) (k k' : Nat) :
    get (del m k) k' = if k = k' then none else get m k' := by
  induction m with
  | nil => simp [del, get]
  | cons p t ih =>
    obtain ⟨a, b⟩ := p
    simp only [del] at ih ⊢
    by_cases h : a = k
    · subst h
      simp only [List.filter_cons, bne_self_eq_false, Bool.false_eq_true, if_false, ih, get]
      by_cases h2 : a = k' <;> simp [h2]
    · have : (a != k) = true := by simp [h]
      simp only [List.filter_cons, this, if_true, get, ih]
      by_cases h2 : a = k'
      · subst h2; simp [Ne.symm h]
      · simp [h2]

theorem has_iff_mem_keys (m : AL β) (k : Nat) : has m k = true ↔ k ∈ keys m := by
  induction m with
  | nil => simp [has, get, keys]
  | cons p t ih =>
    obtain ⟨a, b⟩ := p
    simp only [has, keys, get] at ih ⊢
    by_cases h : a = k
    · subst h; simp
    · simp only [h, if_false, List.map_cons, List.mem_cons]
      rw [ih]; constructor
      · intro h'; exact Or.inr h'
      · intro h'; rcases h' with h' | h'
        · exact absurd h'.symm h
        · exact h'

theorem get_eq_none_iff (m : AL β) (k : Nat) : get m k = none ↔ k ∉ keys m := by
  rw [← has_iff_mem_keys]; simp [has]

theorem keys_set (m : AL β) (k : Nat) (v : β) :
    keys (set m k v) = if has m k then keys m else keys m ++ [k] := by
  induction m with
  | nil => simp [set, keys, has, get]
  | cons p t ih =>
    obtain ⟨a, b⟩ := p
    by_cases h : a = k
    · subst h; simp [set, keys, has, get]
    · simp only [keys, has, get, set, h, if_false, List.map_cons] at ih ⊢
      rw [ih]; split <;> simp [*]

theorem length_set (m : AL β) (k : Nat) (v : β) :
    (set m k v).length = if has m k then m.length else m.length + 1 := by
  have := congrArg List.length (keys_set m k v)
  simp only [keys, List.length_map] at this
  rw [this]; split <;> simp

theorem keys_del (m : AL β) (k : Nat) : keys (del m k) = (keys m).filter (· != k) := by
  induction m with
  | nil => rfl
  | cons p t ih =>
    obtain ⟨a, b⟩ := p
    simp only [keys, del, List.filter_cons, List.map_cons] at ih ⊢
    by_cases h : a = k
    · subst h; simp [ih]
    · have : (a != k) = true := by simp [h]
      simp [this, ih]

theorem nodup_set {m : AL β} (h : NoDupKeys m) (k : Nat) (v : β) : NoDupKeys (set m k v) := by
  unfold NoDupKeys at *
  rw [keys_set]
  split
  · exact h
  · rename_i hk
    have : k ∉ keys m := by rw [← has_iff_mem_keys]; exact hk
    rw [List.nodup_append]
    exact ⟨h, by simp, by intro a ha b hb; simp at hb; subst hb; intro e; subst e; exact this ha⟩

theorem nodup_del {m : AL β} (h : NoDupKeys m) (k : Nat) : NoDupKeys (del m k) := by
  unfold NoDupKeys at *
  rw [keys_del]; exact h.filter _

theorem length_del {m : AL β} (h : NoDupKeys m) (k : Nat) :
    (del m k).length = if has m k then m.length - 1 else m.length := by
  induction m with
  | nil => simp [del, has, get]
  | cons p t ih =>
    obtain ⟨a, b⟩ := p
    have ht : NoDupKeys t := by
      unfold NoDupKeys keys at *; simp only [List.map_cons, List.nodup_cons] at h; exact h.2
    have hnot : a ∉ keys t := by
      unfold NoDupKeys keys at *; simp only [List.map_cons, List.nodup_cons] at h; exact h.1
    simp only [del, has, get, List.filter_cons] at ih ⊢
    by_cases hk : a = k
    · subst hk
      have hg : get t a = none := (get_eq_none_iff t a).2 hnot
      have := ih ht
      simp only [hg, Option.isSome_none, Bool.false_eq_true, if_false] at this
      simp [this]
    · have : (a != k) = true := by simp [hk]
      simp only [this, if_true, List.length_cons, hk, if_false, ih ht]
      by_cases hh : (get t k).isSome = true
      · have : t.length ≠ 0 := by
          intro h0; have := List.eq_nil_of_length_eq_zero h0; subst this; simp [get] at hh
        simp only [hh, if_true]; omega
      · simp [hh]

theorem has_set (m : AL β) (k k' : Nat) (v : β) : has (set m k v) k' = (decide (k = k') || has m k') := by
  simp only [has, get_set]; split <;> simp_all

theorem has_del (m : AL β) (k k' : Nat) : has (del m k) k' = (!decide (k = k') && has m k') := by
  simp only [has, get_del]; split <;> simp_all

end Hive.C12a.AL
