import Hive.Spec.OMapConc
/-!
# Lock protocol of `ds.Set`: counting invariant, mutual exclusion, progress (C11)

Threads are arbitrary well-formed lock scripts; the pool is an arbitrary list.  The invariant ties
each `RWMutex`'s fields to the number of threads in the corresponding hold state.
-/
namespace Hive.OMap
open Hive.Conc

def cnt (l : LockId) (x : Hold) (ts : List Th) : Nat := ts.countP (fun t => t.hold l == x)

theorem cnt_mid (l : LockId) (x : Hold) (pre post : List Th) (t : Th) :
    cnt l x (pre ++ t :: post) = cnt l x pre + (if t.hold l = x then 1 else 0) + cnt l x post := by
  unfold cnt; rw [countP_mid]; simp

theorem hold_setHold_same (t : Th) (l : LockId) (h : Hold) : (t.setHold l h).hold l = h := by
  cases l <;> rfl

theorem hold_setHold_other (t : Th) {l l' : LockId} (h : Hold) (hne : l' ≠ l) : (t.setHold l h).hold l' = t.hold l' := by
  cases l <;> cases l' <;> first | rfl | exact absurd rfl hne

theorem get_put_same (s : Locks) (l : LockId) (x : RW) : (s.put l x).get l = x := by cases l <;> rfl
theorem get_put_other (s : Locks) {l l' : LockId} (x : RW) (hne : l' ≠ l) : (s.put l x).get l' = s.get l' := by
  cases l <;> cases l' <;> first | rfl | exact absurd rfl hne

/-- the fields of lock `l` count the threads holding / waiting for it -/
structure LockOk (x : RW) (l : LockId) (ts : List Th) : Prop where
  readers : x.readers = cnt l .r ts
  writer : (if x.writer then 1 else 0) = cnt l .w ts
  pending : x.pending = cnt l .req ts
  excl : x.writer = true → x.readers = 0

structure LInv (c : Cfg Locks Th) : Prop where
  ok : ∀ l, LockOk (c.1.get l) l c.2
  wf : ∀ t ∈ c.2, WF t.hA t.hM t.script

theorem cnt_start (l : LockId) (x : Hold) (hx : x ≠ .none) (scripts : List (List Act)) :
    cnt l x (scripts.map Th.start) = 0 := by
  unfold cnt
  rw [List.countP_eq_zero]
  intro t ht
  obtain ⟨s, _, rfl⟩ := List.mem_map.1 ht
  cases l <;> cases x <;> simp_all [Th.start, Th.hold]

theorem linv_init (scripts : List (List Act)) (hwf : ∀ s ∈ scripts, WF .none .none s) :
    LInv (Locks.init, scripts.map Th.start) := by
  refine ⟨fun l => ?_, ?_⟩
  · have h1 := cnt_start l .r (by decide) scripts
    have h2 := cnt_start l .w (by decide) scripts
    have h3 := cnt_start l .req (by decide) scripts
    cases l <;> exact ⟨by simp [Locks.get, Locks.init, RW.free, h1], by simp [Locks.get, Locks.init, RW.free, h2],
      by simp [Locks.get, Locks.init, RW.free, h3], by simp [Locks.get, Locks.init, RW.free]⟩
  · intro t ht
    obtain ⟨s, hs, rfl⟩ := List.mem_map.1 ht
    exact hwf s hs

/-- a thread changes only its own hold of lock `l` -/
theorem lockOk_other {s : Locks} {pre post : List Th} {t t' : Th} {l l' : LockId} (hne : l' ≠ l)
    (ht : t'.hold l' = t.hold l') (x : RW) (h : LockOk (s.get l') l' (pre ++ t :: post)) :
    LockOk ((s.put l x).get l') l' (pre ++ t' :: post) := by
  rw [get_put_other _ _ hne]
  obtain ⟨h1, h2, h3, h4⟩ := h
  refine ⟨?_, ?_, ?_, h4⟩
  · rw [h1, cnt_mid, cnt_mid, ht]
  · rw [h2, cnt_mid, cnt_mid, ht]
  · rw [h3, cnt_mid, cnt_mid, ht]

theorem lockOk_same_hold {s : Locks} {pre post : List Th} {t t' : Th} {l : LockId}
    (ht : t'.hold l = t.hold l) (h : LockOk (s.get l) l (pre ++ t :: post)) :
    LockOk (s.get l) l (pre ++ t' :: post) := by
  obtain ⟨h1, h2, h3, h4⟩ := h
  refine ⟨?_, ?_, ?_, h4⟩
  · rw [h1, cnt_mid, cnt_mid, ht]
  · rw [h2, cnt_mid, cnt_mid, ht]
  · rw [h3, cnt_mid, cnt_mid, ht]

theorem script_setHold (t : Th) (l : LockId) (h : Hold) : (t.setHold l h).script = t.script := by cases l <;> rfl

/-- the thread after performing a lock action on `l` -/
def Th.after (t : Th) (rest : List Act) (l : LockId) (h : Hold) : Th := { t with script := rest }.setHold l h

theorem hold_after_same (t : Th) (rest : List Act) (l : LockId) (h : Hold) : (t.after rest l h).hold l = h :=
  hold_setHold_same _ _ _
theorem hold_after_other (t : Th) (rest : List Act) {l l' : LockId} (h : Hold) (hne : l' ≠ l) :
    (t.after rest l h).hold l' = t.hold l' := by
  unfold Th.after; rw [hold_setHold_other _ _ hne]; cases l' <;> rfl

/-- what `WF` says about the hold of the lock an action works on, and about the rest of the script -/
theorem wf_rlock {t : Th} {l : LockId} {rest : List Act} (hs : t.script = .rlock l :: rest) (h : WF t.hA t.hM t.script) :
    t.hold l = .none ∧ WF (t.after rest l .r).hA (t.after rest l .r).hM (t.after rest l .r).script := by
  rw [hs] at h
  cases l with
  | A =>
    simp only [WF, wfB, Bool.and_eq_true, beq_iff_eq, bne_iff_ne] at h
    refine ⟨by simp [Th.hold, h], ?_⟩
    simp only [Th.after, Th.setHold, WF]
    first
      | exact h.2
      | (have h3 := h.2; rw [h.1.2] at h3 ⊢; exact h3)
  | M =>
    simp only [WF, wfB, Bool.and_eq_true, beq_iff_eq, bne_iff_ne] at h
    refine ⟨by simp [Th.hold, h], ?_⟩
    simp only [Th.after, Th.setHold, WF]
    exact h.2

theorem wf_req {t : Th} {l : LockId} {rest : List Act} (hs : t.script = .req l :: rest) (h : WF t.hA t.hM t.script) :
    t.hold l = .none ∧ WF (t.after rest l .req).hA (t.after rest l .req).hM (t.after rest l .req).script := by
  rw [hs] at h
  cases l with
  | A =>
    simp only [WF, wfB, Bool.and_eq_true, beq_iff_eq, bne_iff_ne] at h
    refine ⟨by simp [Th.hold, h], ?_⟩
    simp only [Th.after, Th.setHold, WF]
    first
      | exact h.2
      | (have h3 := h.2; rw [h.1.2] at h3 ⊢; exact h3)
  | M =>
    simp only [WF, wfB, Bool.and_eq_true, beq_iff_eq, bne_iff_ne] at h
    refine ⟨by simp [Th.hold, h], ?_⟩
    simp only [Th.after, Th.setHold, WF]
    exact h.2

theorem wf_acq {t : Th} {l : LockId} {rest : List Act} (hs : t.script = .acq l :: rest) (h : WF t.hA t.hM t.script) :
    t.hold l = .req ∧ WF (t.after rest l .w).hA (t.after rest l .w).hM (t.after rest l .w).script := by
  rw [hs] at h
  cases l with
  | A =>
    simp only [WF, wfB, Bool.and_eq_true, beq_iff_eq, bne_iff_ne] at h
    refine ⟨by simp [Th.hold, h], ?_⟩
    simp only [Th.after, Th.setHold, WF]
    first
      | exact h.2
      | (have h3 := h.2; rw [h.1.2] at h3 ⊢; exact h3)
  | M =>
    simp only [WF, wfB, Bool.and_eq_true, beq_iff_eq, bne_iff_ne] at h
    refine ⟨by simp [Th.hold, h], ?_⟩
    simp only [Th.after, Th.setHold, WF]
    exact h.2

theorem wf_runlock {t : Th} {l : LockId} {rest : List Act} (hs : t.script = .runlock l :: rest) (h : WF t.hA t.hM t.script) :
    t.hold l = .r ∧ WF (t.after rest l .none).hA (t.after rest l .none).hM (t.after rest l .none).script := by
  rw [hs] at h
  cases l with
  | A =>
    simp only [WF, wfB, Bool.and_eq_true, beq_iff_eq, bne_iff_ne] at h
    refine ⟨by simp [Th.hold, h], ?_⟩
    simp only [Th.after, Th.setHold, WF]
    first
      | exact h.2
      | (have h3 := h.2; rw [h.1.2] at h3 ⊢; exact h3)
  | M =>
    simp only [WF, wfB, Bool.and_eq_true, beq_iff_eq, bne_iff_ne] at h
    refine ⟨by simp [Th.hold, h], ?_⟩
    simp only [Th.after, Th.setHold, WF]
    exact h.2

theorem wf_unlock {t : Th} {l : LockId} {rest : List Act} (hs : t.script = .unlock l :: rest) (h : WF t.hA t.hM t.script) :
    t.hold l = .w ∧ WF (t.after rest l .none).hA (t.after rest l .none).hM (t.after rest l .none).script := by
  rw [hs] at h
  cases l with
  | A =>
    simp only [WF, wfB, Bool.and_eq_true, beq_iff_eq, bne_iff_ne] at h
    refine ⟨by simp [Th.hold, h], ?_⟩
    simp only [Th.after, Th.setHold, WF]
    first
      | exact h.2
      | (have h3 := h.2; rw [h.1.2] at h3 ⊢; exact h3)
  | M =>
    simp only [WF, wfB, Bool.and_eq_true, beq_iff_eq, bne_iff_ne] at h
    refine ⟨by simp [Th.hold, h], ?_⟩
    simp only [Th.after, Th.setHold, WF]
    exact h.2

theorem wf_data {t : Th} {a : Act} {rest : List Act} (ha : a = .read ∨ a = .write) (hs : t.script = a :: rest)
    (h : WF t.hA t.hM t.script) : WF t.hA t.hM rest := by
  rw [hs] at h
  rcases ha with rfl | rfl <;> simp only [WF, wfB, Bool.and_eq_true] at h <;> exact h.2

theorem wf_replace {pre post : List Th} {t t' : Th}
    (h : ∀ u ∈ pre ++ t :: post, WF u.hA u.hM u.script) (ht' : WF t'.hA t'.hM t'.script) :
    ∀ u ∈ pre ++ t' :: post, WF u.hA u.hM u.script := by
  intro u hu
  rcases List.mem_append.1 hu with hu | hu
  · exact h u (List.mem_append_left _ hu)
  · rcases List.mem_cons.1 hu with hu | hu
    · exact hu ▸ ht'
    · exact h u (List.mem_append_right _ (List.mem_cons_of_mem _ hu))

theorem cnt_shift (l : LockId) (x : Hold) (pre post : List Th) (t t' : Th) :
    cnt l x (pre ++ t' :: post) + (if t.hold l = x then 1 else 0)
      = cnt l x (pre ++ t :: post) + (if t'.hold l = x then 1 else 0) := by
  rw [cnt_mid, cnt_mid]; omega

/-- bookkeeping for the lock the stepping thread works on: its hold goes from `h0` to `h1` -/
theorem cnt_shift3 {l : LockId} {pre post : List Th} {t t' : Th} {h0 h1 : Hold} (e0 : t.hold l = h0) (e1 : t'.hold l = h1) :
    (cnt l .r (pre ++ t' :: post) + (if h0 = .r then 1 else 0) = cnt l .r (pre ++ t :: post) + (if h1 = .r then 1 else 0)) ∧
    (cnt l .w (pre ++ t' :: post) + (if h0 = .w then 1 else 0) = cnt l .w (pre ++ t :: post) + (if h1 = .w then 1 else 0)) ∧
    (cnt l .req (pre ++ t' :: post) + (if h0 = .req then 1 else 0) = cnt l .req (pre ++ t :: post) + (if h1 = .req then 1 else 0)) := by
  have a := cnt_shift l .r pre post t t'
  have b := cnt_shift l .w pre post t t'
  have c := cnt_shift l .req pre post t t'
  rw [e0, e1] at a b c
  exact ⟨a, b, c⟩

/-- the invariant is preserved by every step of the permissive semantics (hence of the strict one) -/
theorem linv_step {a b : Cfg Locks Th} (ha : LInv a) (hs : Step lockSysP a b) : LInv b := by
  obtain ⟨s, pre, t, post, s', t', hmem⟩ := hs
  have hwfall : ∀ u ∈ pre ++ t :: post, WF u.hA u.hM u.script := ha.wf
  have hok : ∀ l, LockOk (s.get l) l (pre ++ t :: post) := ha.ok
  have hwft := hwfall t (by simp)
  simp only [lockSysP, lockStep] at hmem
  cases hsc : t.script with
  | nil => simp [hsc] at hmem
  | cons act rest =>
    simp only [hsc] at hmem
    cases act with
    | rlock l =>
      obtain ⟨hh, hwf'⟩ := wf_rlock hsc hwft
      dsimp only at hmem
      split at hmem
      · rename_i hen
        simp only [List.mem_singleton, Prod.mk.injEq] at hmem
        obtain ⟨rfl, rfl⟩ := hmem
        have hw : (s.get l).writer = false := by simp at hen; exact hen
        refine ⟨fun l' => ?_, wf_replace hwfall hwf'⟩
        by_cases hl : l' = l
        · subst hl
          obtain ⟨h1, h2, h3, h4⟩ := hok l'
          obtain ⟨e1, e2, e3⟩ := cnt_shift3 (pre := pre) (post := post) hh (hold_after_same t rest l' .r)
          simp at e1 e2 e3
          show LockOk ((s.put l' _).get l') l' (pre ++ t.after rest l' .r :: post)
          rw [get_put_same]
          exact ⟨by show _ + 1 = _; omega, by show (if (s.get l').writer = true then 1 else 0) = _; omega,
            by show (s.get l').pending = _; omega, by simp [hw]⟩
        · exact lockOk_other hl (hold_after_other t rest _ hl) _ (hok l')
      · simp at hmem
    | runlock l =>
      obtain ⟨hh, hwf'⟩ := wf_runlock hsc hwft
      dsimp only at hmem
      simp only [List.mem_singleton, Prod.mk.injEq] at hmem
      obtain ⟨rfl, rfl⟩ := hmem
      refine ⟨fun l' => ?_, wf_replace hwfall hwf'⟩
      by_cases hl : l' = l
      · subst hl
        obtain ⟨h1, h2, h3, h4⟩ := hok l'
        obtain ⟨e1, e2, e3⟩ := cnt_shift3 (pre := pre) (post := post) hh (hold_after_same t rest l' .none)
        simp at e1 e2 e3
        have hw : (s.get l').writer = false := by
          cases hw : (s.get l').writer with
          | false => rfl
          | true => have := h4 hw; omega
        show LockOk ((s.put l' _).get l') l' (pre ++ t.after rest l' .none :: post)
        rw [get_put_same]
        exact ⟨by show _ - 1 = _; omega, by show (if (s.get l').writer = true then 1 else 0) = _; omega,
          by show (s.get l').pending = _; omega, by simp [hw]⟩
      · exact lockOk_other hl (hold_after_other t rest _ hl) _ (hok l')
    | req l =>
      obtain ⟨hh, hwf'⟩ := wf_req hsc hwft
      dsimp only at hmem
      simp only [List.mem_singleton, Prod.mk.injEq] at hmem
      obtain ⟨rfl, rfl⟩ := hmem
      refine ⟨fun l' => ?_, wf_replace hwfall hwf'⟩
      by_cases hl : l' = l
      · subst hl
        obtain ⟨h1, h2, h3, h4⟩ := hok l'
        obtain ⟨e1, e2, e3⟩ := cnt_shift3 (pre := pre) (post := post) hh (hold_after_same t rest l' .req)
        simp at e1 e2 e3
        show LockOk ((s.put l' _).get l') l' (pre ++ t.after rest l' .req :: post)
        rw [get_put_same]
        exact ⟨by show (s.get l').readers = _; omega, by show (if (s.get l').writer = true then 1 else 0) = _; omega,
          by show _ + 1 = _; omega, h4⟩
      · exact lockOk_other hl (hold_after_other t rest _ hl) _ (hok l')
    | acq l =>
      obtain ⟨hh, hwf'⟩ := wf_acq hsc hwft
      dsimp only at hmem
      split at hmem
      · rename_i hen
        simp only [List.mem_singleton, Prod.mk.injEq] at hmem
        obtain ⟨rfl, rfl⟩ := hmem
        have hr : (s.get l).readers = 0 := by simp at hen; exact hen.1
        have hw : (s.get l).writer = false := by simp at hen; exact hen.2
        refine ⟨fun l' => ?_, wf_replace hwfall hwf'⟩
        by_cases hl : l' = l
        · subst hl
          obtain ⟨h1, h2, h3, h4⟩ := hok l'
          obtain ⟨e1, e2, e3⟩ := cnt_shift3 (pre := pre) (post := post) hh (hold_after_same t rest l' .w)
          simp at e1 e2 e3
          rw [hw] at h2; simp at h2
          show LockOk ((s.put l' _).get l') l' (pre ++ t.after rest l' .w :: post)
          rw [get_put_same]
          exact ⟨by show (s.get l').readers = _; omega, by show (if true = true then 1 else 0) = _; simp; omega,
            by show _ - 1 = _; omega, fun _ => hr⟩
        · exact lockOk_other hl (hold_after_other t rest _ hl) _ (hok l')
      · simp at hmem
    | unlock l =>
      obtain ⟨hh, hwf'⟩ := wf_unlock hsc hwft
      dsimp only at hmem
      simp only [List.mem_singleton, Prod.mk.injEq] at hmem
      obtain ⟨rfl, rfl⟩ := hmem
      refine ⟨fun l' => ?_, wf_replace hwfall hwf'⟩
      by_cases hl : l' = l
      · subst hl
        obtain ⟨h1, h2, h3, h4⟩ := hok l'
        obtain ⟨e1, e2, e3⟩ := cnt_shift3 (pre := pre) (post := post) hh (hold_after_same t rest l' .none)
        simp at e1 e2 e3
        show LockOk ((s.put l' _).get l') l' (pre ++ t.after rest l' .none :: post)
        rw [get_put_same]
        refine ⟨by show (s.get l').readers = _; omega, ?_, by show (s.get l').pending = _; omega, by simp⟩
        show (if false = true then 1 else 0) = _
        split at h2 <;> simp <;> omega
      · exact lockOk_other hl (hold_after_other t rest _ hl) _ (hok l')
    | read =>
      dsimp only at hmem
      simp only [List.mem_singleton, Prod.mk.injEq] at hmem
      obtain ⟨rfl, rfl⟩ := hmem
      exact ⟨fun l' => lockOk_same_hold (by cases l' <;> rfl) (hok l'),
        wf_replace hwfall (wf_data (t := t) (Or.inl rfl) hsc hwft)⟩
    | write =>
      dsimp only at hmem
      simp only [List.mem_singleton, Prod.mk.injEq] at hmem
      obtain ⟨rfl, rfl⟩ := hmem
      exact ⟨fun l' => lockOk_same_hold (by cases l' <;> rfl) (hok l'),
        wf_replace hwfall (wf_data (t := t) (Or.inr rfl) hsc hwft)⟩

theorem linv_reach {scripts : List (List Act)} (hwf : ∀ s ∈ scripts, WF .none .none s) {c : Cfg Locks Th}
    (hr : Reach lockSysP (Locks.init, scripts.map Th.start) c) : LInv c :=
  inv_induction LInv (linv_init scripts hwf) (fun _ _ h hs => linv_step h hs) hr

/-- every step of the strict (writer-preference) semantics is a step of the permissive one -/
theorem strict_sub_permissive {s : Locks} {t : Th} {x : Locks × Th} (h : x ∈ lockStep true s t) : x ∈ lockStep false s t := by
  unfold lockStep at h ⊢
  cases hsc : t.script with
  | nil => simp [hsc] at h
  | cons a rest =>
    simp only [hsc] at h ⊢
    cases a with
    | rlock l =>
      dsimp only at h ⊢
      split at h
      · rename_i hen
        have : (!(s.get l).writer && (!false || (s.get l).pending == 0)) = true := by simp at hen ⊢; exact hen.1
        rw [if_pos this]; exact h
      · simp at h
    | runlock l => exact h
    | req l => exact h
    | acq l => exact h
    | unlock l => exact h
    | read => exact h
    | write => exact h

theorem reach_strict_permissive {a b : Cfg Locks Th} (h : Reach lockSys a b) : Reach lockSysP a b := by
  induction h with
  | refl => exact Reach.refl _
  | tail _ hs ih =>
    obtain ⟨s, pre, t, post, s', t', hmem⟩ := hs
    exact Reach.tail ih (Step.mk s pre t post s' t' (strict_sub_permissive hmem))

/-! ## progress -/

theorem cnt_zero_of_none {l : LockId} {x : Hold} {ts : List Th} (h : ¬ ∃ t ∈ ts, t.hold l = x) : cnt l x ts = 0 := by
  unfold cnt
  rw [List.countP_eq_zero]
  intro t ht hx
  exact h ⟨t, ht, by simpa using hx⟩

/-- a thread that holds `M` can always take its next step -/
theorem enabled_holdsM {s : Locks} {t : Th} (hwf : WF t.hA t.hM t.script) (h : t.hM = .r ∨ t.hM = .w) :
    lockStep true s t ≠ [] := by
  unfold lockStep
  cases hsc : t.script with
  | nil => rw [hsc] at hwf; rcases h with h | h <;> simp [WF, wfB, h] at hwf
  | cons a rest =>
    rw [hsc] at hwf
    cases a with
    | rlock l => cases l <;> rcases h with h | h <;> simp [WF, wfB, h] at hwf
    | req l => cases l <;> rcases h with h | h <;> simp [WF, wfB, h] at hwf
    | acq l => cases l <;> rcases h with h | h <;> simp [WF, wfB, h] at hwf
    | runlock l => simp
    | unlock l => simp
    | read => simp
    | write => simp

/-- a thread pending on `M` can acquire it as soon as it is free -/
theorem enabled_reqM {s : Locks} {t : Th} (hwf : WF t.hA t.hM t.script) (h : t.hM = .req)
    (hfree : s.m.readers = 0 ∧ s.m.writer = false) : lockStep true s t ≠ [] := by
  unfold lockStep
  cases hsc : t.script with
  | nil => rw [hsc] at hwf; simp [WF, wfB, h] at hwf
  | cons a rest =>
    rw [hsc] at hwf
    cases a with
    | rlock l => cases l <;> simp [WF, wfB, h] at hwf
    | req l => cases l <;> simp [WF, wfB, h] at hwf
    | acq l =>
      cases l with
      | A => simp [WF, wfB, h] at hwf
      | M => simp [Locks.get, hfree.1, hfree.2]
    | runlock l => simp
    | unlock l => simp
    | read => simp
    | write => simp

/-- a thread that holds `A` (and not `M`) can take its next step when `M` is completely free -/
theorem enabled_holdsA {s : Locks} {t : Th} (hwf : WF t.hA t.hM t.script) (hM : t.hM = .none)
    (h : t.hA = .r ∨ t.hA = .w) (hfree : s.m.writer = false ∧ s.m.pending = 0) : lockStep true s t ≠ [] := by
  unfold lockStep
  cases hsc : t.script with
  | nil => rw [hsc] at hwf; rcases h with h | h <;> simp [WF, wfB, h] at hwf
  | cons a rest =>
    rw [hsc] at hwf
    cases a with
    | rlock l =>
      cases l with
      | A => rcases h with h | h <;> simp [WF, wfB, h] at hwf
      | M => simp [Locks.get, hfree.1, hfree.2]
    | req l => simp
    | acq l => cases l <;> rcases h with h | h <;> simp [WF, wfB, h, hM] at hwf
    | runlock l => simp
    | unlock l => simp
    | read => simp
    | write => simp

/-- a thread pending on `A` can acquire it as soon as it is free -/
theorem enabled_reqA {s : Locks} {t : Th} (hwf : WF t.hA t.hM t.script) (h : t.hA = .req) (hM : t.hM = .none)
    (hfree : s.a.readers = 0 ∧ s.a.writer = false) : lockStep true s t ≠ [] := by
  unfold lockStep
  cases hsc : t.script with
  | nil => rw [hsc] at hwf; simp [WF, wfB, h] at hwf
  | cons a rest =>
    rw [hsc] at hwf
    cases a with
    | rlock l => cases l <;> simp [WF, wfB, h] at hwf
    | req l => simp
    | acq l =>
      cases l with
      | A => simp [Locks.get, hfree.1, hfree.2]
      | M => simp [WF, wfB, h, hM] at hwf
    | runlock l => simp
    | unlock l => simp
    | read => simp
    | write => simp

/-- a thread that holds nothing can start whatever comes next when both locks are completely free -/
theorem enabled_idle {s : Locks} {t : Th} (hwf : WF t.hA t.hM t.script) (hA : t.hA = .none) (hM : t.hM = .none)
    (hne : t.script ≠ [])
    (hfreeA : s.a.writer = false ∧ s.a.pending = 0) (hfreeM : s.m.writer = false ∧ s.m.pending = 0) :
    lockStep true s t ≠ [] := by
  unfold lockStep
  cases hsc : t.script with
  | nil => exact absurd hsc hne
  | cons a rest =>
    cases a with
    | rlock l => cases l <;> simp [Locks.get, hfreeA.1, hfreeA.2, hfreeM.1, hfreeM.2]
    | req l => simp
    | acq l => rw [hsc] at hwf; cases l <;> simp [WF, wfB, hA, hM] at hwf
    | runlock l => simp
    | unlock l => simp
    | read => simp
    | write => simp

/-- **Progress.** In every configuration satisfying the invariant, if some thread has not finished
then some thread can take a step under the strict (writer-preference) semantics. -/
theorem progress {c : Cfg Locks Th} (hi : LInv c) (hun : ∃ t ∈ c.2, t.script ≠ []) :
    ∃ t ∈ c.2, lockSys.step c.1 t ≠ [] := by
  obtain ⟨s, ts⟩ := c
  have hokA : LockOk s.a .A ts := hi.ok .A
  have hokM : LockOk s.m .M ts := hi.ok .M
  have hwf : ∀ t ∈ ts, WF t.hA t.hM t.script := hi.wf
  by_cases h1 : ∃ t ∈ ts, t.hold .M = .r
  · obtain ⟨t, ht, hh⟩ := h1; exact ⟨t, ht, enabled_holdsM (hwf t ht) (Or.inl hh)⟩
  by_cases h2 : ∃ t ∈ ts, t.hold .M = .w
  · obtain ⟨t, ht, hh⟩ := h2; exact ⟨t, ht, enabled_holdsM (hwf t ht) (Or.inr hh)⟩
  have mr : s.m.readers = 0 := by rw [hokM.readers]; exact cnt_zero_of_none h1
  have mw : s.m.writer = false := by
    have := hokM.writer; rw [cnt_zero_of_none h2] at this
    cases hw : s.m.writer with
    | false => rfl
    | true => simp [hw] at this
  by_cases h3 : ∃ t ∈ ts, t.hold .M = .req
  · obtain ⟨t, ht, hh⟩ := h3; exact ⟨t, ht, enabled_reqM (hwf t ht) hh ⟨mr, mw⟩⟩
  have mp : s.m.pending = 0 := by rw [hokM.pending]; exact cnt_zero_of_none h3
  have hMnone : ∀ t ∈ ts, t.hM = .none := by
    intro t ht
    cases h : t.hM with
    | none => rfl
    | req => exact absurd ⟨t, ht, h⟩ h3
    | r => exact absurd ⟨t, ht, h⟩ h1
    | w => exact absurd ⟨t, ht, h⟩ h2
  by_cases h4 : ∃ t ∈ ts, t.hold .A = .r
  · obtain ⟨t, ht, hh⟩ := h4; exact ⟨t, ht, enabled_holdsA (hwf t ht) (hMnone t ht) (Or.inl hh) ⟨mw, mp⟩⟩
  by_cases h5 : ∃ t ∈ ts, t.hold .A = .w
  · obtain ⟨t, ht, hh⟩ := h5; exact ⟨t, ht, enabled_holdsA (hwf t ht) (hMnone t ht) (Or.inr hh) ⟨mw, mp⟩⟩
  have ar : s.a.readers = 0 := by rw [hokA.readers]; exact cnt_zero_of_none h4
  have aw : s.a.writer = false := by
    have := hokA.writer; rw [cnt_zero_of_none h5] at this
    cases hw : s.a.writer with
    | false => rfl
    | true => simp [hw] at this
  by_cases h6 : ∃ t ∈ ts, t.hold .A = .req
  · obtain ⟨t, ht, hh⟩ := h6; exact ⟨t, ht, enabled_reqA (hwf t ht) hh (hMnone t ht) ⟨ar, aw⟩⟩
  have ap : s.a.pending = 0 := by rw [hokA.pending]; exact cnt_zero_of_none h6
  obtain ⟨t, ht, hne⟩ := hun
  have hAnone : t.hA = .none := by
    cases h : t.hA with
    | none => rfl
    | req => exact absurd ⟨t, ht, h⟩ h6
    | r => exact absurd ⟨t, ht, h⟩ h4
    | w => exact absurd ⟨t, ht, h⟩ h5
  exact ⟨t, ht, enabled_idle (hwf t ht) hAnone (hMnone t ht) hne ⟨aw, ap⟩ ⟨mw, mp⟩⟩

/-- mutual exclusion provided by lock `l`: at most one writer, and no reader next to a writer -/
theorem exclusion {c : Cfg Locks Th} (hi : LInv c) (l : LockId) :
    cnt l .w c.2 ≤ 1 ∧ (cnt l .w c.2 = 1 → cnt l .r c.2 = 0) := by
  obtain ⟨h1, h2, _, h4⟩ := hi.ok l
  constructor
  · rw [← h2]; split <;> omega
  · intro hw
    rw [← h2] at hw
    rw [← h1]
    apply h4
    cases hx : (c.1.get l).writer with
    | true => rfl
    | false => simp [hx] at hw

/-! ## the method scripts are well formed -/

theorem wf_append {a b : List Act} {hA hM : Hold} (ha : WF hA hM a) (hb : WF .none .none b) : WF hA hM (a ++ b) := by
  induction a generalizing hA hM with
  | nil =>
    simp only [WF, wfB, Bool.and_eq_true, beq_iff_eq] at ha
    rw [ha.1, ha.2]; exact hb
  | cons x r ih =>
    cases x with
    | rlock l => cases l <;> simp only [WF, wfB, List.cons_append, Bool.and_eq_true] at ha ⊢ <;> exact ⟨ha.1, ih ha.2⟩
    | req l => cases l <;> simp only [WF, wfB, List.cons_append, Bool.and_eq_true] at ha ⊢ <;> exact ⟨ha.1, ih ha.2⟩
    | acq l => cases l <;> simp only [WF, wfB, List.cons_append, Bool.and_eq_true] at ha ⊢ <;> exact ⟨ha.1, ih ha.2⟩
    | runlock l => cases l <;> simp only [WF, wfB, List.cons_append, Bool.and_eq_true] at ha ⊢ <;> exact ⟨ha.1, ih ha.2⟩
    | unlock l => cases l <;> simp only [WF, wfB, List.cons_append, Bool.and_eq_true] at ha ⊢ <;> exact ⟨ha.1, ih ha.2⟩
    | read => simp only [WF, wfB, List.cons_append, Bool.and_eq_true] at ha ⊢; exact ⟨ha.1, ih ha.2⟩
    | write => simp only [WF, wfB, List.cons_append, Bool.and_eq_true] at ha ⊢; exact ⟨ha.1, ih ha.2⟩

/-- a block that may run under any hold of `A` (but not between `Lock()` and its return), leaves `M` free -/
def Neutral (b : List Act) : Prop := ∀ (hA : Hold) (rest : List Act), hA ≠ .req → WF hA .none rest → WF hA .none (b ++ rest)

theorem neutral_nil : Neutral [] := fun _ _ _ h => h

theorem neutral_append {a b : List Act} (ha : Neutral a) (hb : Neutral b) : Neutral (a ++ b) := by
  intro hA rest hne h
  rw [List.append_assoc]; exact ha hA _ hne (hb hA rest hne h)

theorem neutral_omSet : Neutral omSet := by
  intro hA rest hne h
  cases hA <;> simp_all [omSet, WF, wfB]

theorem neutral_omRead : Neutral omRead := by
  intro hA rest hne h
  cases hA <;> simp_all [omRead, WF, wfB]

theorem neutral_omClear : Neutral omClear := by
  intro hA rest hne h
  cases hA <;> simp_all [omClear, WF, wfB]

theorem neutral_omDelete (f : Bool) : Neutral (omDelete f) := by
  unfold omDelete
  apply neutral_append neutral_omRead
  cases f
  · exact neutral_nil
  · intro hA rest hne h
    cases hA <;> simp_all [WF, wfB]

theorem wf_reads_underR (n : Nat) (hA : Hold) (rest : List Act) (hne : hA ≠ .req) (h : WF hA .r rest) :
    WF hA .r (rep n [.read] ++ rest) := by
  induction n with
  | zero => simpa [rep] using h
  | succ n ih =>
    have : rep (n + 1) [Act.read] ++ rest = .read :: (rep n [.read] ++ rest) := by simp [rep, List.replicate_succ]
    rw [this]
    cases hA <;> simp_all [WF, wfB]

theorem neutral_omClone (n : Nat) : Neutral (omClone n) := by
  intro hA rest hne h
  have h1 : WF hA .r ([.runlock .M] ++ rest) := by cases hA <;> simp_all [WF, wfB]
  have h2 := wf_reads_underR n hA _ hne h1
  have : omClone n ++ rest = .rlock .M :: (rep n [.read] ++ ([.runlock .M] ++ rest)) := by
    simp [omClone, List.append_assoc]
  rw [this]
  cases hA <;> simp_all [WF, wfB]

theorem neutral_rep (n : Nat) {b : List Act} (hb : Neutral b) : Neutral (rep n b) := by
  induction n with
  | zero => exact neutral_nil
  | succ n ih =>
    have : rep (n + 1) b = b ++ rep n b := by simp [rep, List.replicate_succ]
    rw [this]; exact neutral_append hb ih

theorem neutral_flatten {bs : List (List Act)} (h : ∀ b ∈ bs, Neutral b) : Neutral bs.flatten := by
  induction bs with
  | nil => exact neutral_nil
  | cons b r ih =>
    rw [List.flatten_cons]
    exact neutral_append (h b (by simp)) (ih (fun x hx => h x (List.mem_cons_of_mem _ hx)))

theorem wf_underR {b : List Act} (hb : Neutral b) : WF .none .none ([.rlock .A] ++ b ++ [.runlock .A]) := by
  have : WF .r .none (b ++ [.runlock .A]) := hb .r _ (by decide) (by decide)
  simpa [WF, wfB] using this

theorem wf_underW {b : List Act} (hb : Neutral b) : WF .none .none ([.req .A, .acq .A] ++ b ++ [.unlock .A]) := by
  have : WF .w .none (b ++ [.unlock .A]) := hb .w _ (by decide) (by decide)
  simpa [WF, wfB] using this

/-- every `ds.Set` method, whatever its arguments and data-dependent branches, follows a well-formed
lock script (rank `A < M`, no re-entrant acquisition) -/
theorem wf_methodScript (c : Call) : WF .none .none (methodScript c) := by
  cases c with
  | add => exact wf_underR neutral_omSet
  | delete f => exact wf_underR (neutral_omDelete f)
  | addAll n => exact wf_underR (neutral_rep n neutral_omSet)
  | deleteAll fs =>
    exact wf_underR (neutral_flatten (fun b hb => by obtain ⟨f, _, rfl⟩ := List.mem_map.1 hb; exact neutral_omDelete f))
  | apply n ds =>
    have := wf_underW (neutral_append (neutral_rep n neutral_omSet)
      (neutral_flatten (bs := ds.map omDelete) (fun b hb => by obtain ⟨f, _, rfl⟩ := List.mem_map.1 hb; exact neutral_omDelete f)))
    simpa [methodScript, List.append_assoc] using this
  | replace p n =>
    have := wf_underW (neutral_append (neutral_rep (p + 1) neutral_omRead) (neutral_append neutral_omClear
      (neutral_append (neutral_rep n neutral_omSet) (neutral_rep p neutral_omRead))))
    simpa [methodScript, List.append_assoc] using this
  | reader n =>
    have := neutral_rep n neutral_omRead .none [] (by decide) (by decide)
    simpa [methodScript] using this
  | clear =>
    have := neutral_omClear .none [] (by decide) (by decide)
    simpa [methodScript] using this
  | mapSet =>
    have := neutral_omSet .none [] (by decide) (by decide)
    simpa [methodScript] using this
  | mapDelete f =>
    have := neutral_omDelete f .none [] (by decide) (by decide)
    simpa [methodScript] using this
  | clone n =>
    have := neutral_omClone n .none [] (by decide) (by decide)
    simpa [methodScript] using this

theorem wf_methods (cs : List Call) : WF .none .none (cs.flatMap methodScript) := by
  induction cs with
  | nil => decide
  | cons c r ih => rw [List.flatMap_cons]; exact wf_append (wf_methodScript c) ih

/-! ## which hold of `applyMutex` guards the writes of each method -/

/-- a block without `A` actions whose writes are fine under the current hold -/
def AFree (b : List Act) : Prop :=
  ∀ (want hA : Hold) (rest : List Act), hA = want → guardedBy want hA (b ++ rest) = guardedBy want hA rest

theorem afree_nil : AFree [] := fun _ _ _ _ => rfl

theorem afree_append {a b : List Act} (ha : AFree a) (hb : AFree b) : AFree (a ++ b) := by
  intro want hA rest h
  rw [List.append_assoc, ha want hA _ h, hb want hA _ h]

theorem afree_omSet : AFree omSet := by
  intro want hA rest h; subst h; simp [omSet, guardedBy]
theorem afree_omRead : AFree omRead := by
  intro want hA rest h; subst h; simp [omRead, guardedBy]
theorem afree_omClear : AFree omClear := by
  intro want hA rest h; subst h; simp [omClear, guardedBy]
theorem afree_omDelete (f : Bool) : AFree (omDelete f) := by
  unfold omDelete
  apply afree_append afree_omRead
  cases f
  · exact afree_nil
  · intro want hA rest h; subst h; simp [guardedBy]

theorem afree_rep (n : Nat) {b : List Act} (hb : AFree b) : AFree (rep n b) := by
  induction n with
  | zero => exact afree_nil
  | succ n ih =>
    have : rep (n + 1) b = b ++ rep n b := by simp [rep, List.replicate_succ]
    rw [this]; exact afree_append hb ih

theorem afree_flatten {bs : List (List Act)} (h : ∀ b ∈ bs, AFree b) : AFree bs.flatten := by
  induction bs with
  | nil => exact afree_nil
  | cons b r ih =>
    rw [List.flatten_cons]
    exact afree_append (h b (by simp)) (ih (fun x hx => h x (List.mem_cons_of_mem _ hx)))

theorem guarded_underR {b : List Act} (hb : AFree b) : guardedBy .r .none ([.rlock .A] ++ b ++ [.runlock .A]) = true := by
  have := hb .r .r [.runlock .A] rfl
  simp only [List.singleton_append, List.append_assoc, List.cons_append, List.nil_append, guardedBy] at this ⊢
  rw [this]

theorem guarded_underW {b : List Act} (hb : AFree b) : guardedBy .w .none ([.req .A, .acq .A] ++ b ++ [.unlock .A]) = true := by
  have := hb .w .w [.unlock .A] rfl
  simp only [List.append_assoc, List.cons_append, List.nil_append, guardedBy] at this ⊢
  rw [this]

/-- `Apply`/`Compute`/`Replace` perform every write while holding `applyMutex` exclusively; `Add`,
`Delete`, `AddAll`, `DeleteAll` perform every write while holding it shared. -/
theorem guarded_methodScript (c : Call) (hm : c.isMutator = true) :
    guardedBy (if c.isAtomic then .w else .r) .none (methodScript c) = true := by
  cases c with
  | add => exact guarded_underR afree_omSet
  | delete f => exact guarded_underR (afree_omDelete f)
  | addAll n => exact guarded_underR (afree_rep n afree_omSet)
  | deleteAll fs =>
    exact guarded_underR (afree_flatten (fun b hb => by obtain ⟨f, _, rfl⟩ := List.mem_map.1 hb; exact afree_omDelete f))
  | apply n ds =>
    have := guarded_underW (afree_append (afree_rep n afree_omSet)
      (afree_flatten (bs := ds.map omDelete) (fun b hb => by obtain ⟨f, _, rfl⟩ := List.mem_map.1 hb; exact afree_omDelete f)))
    simpa [methodScript, Call.isAtomic, List.append_assoc] using this
  | replace p n =>
    have := guarded_underW (afree_append (afree_rep (p + 1) afree_omRead) (afree_append afree_omClear
      (afree_append (afree_rep n afree_omSet) (afree_rep p afree_omRead))))
    simpa [methodScript, Call.isAtomic, List.append_assoc] using this
  | reader n => simp [Call.isMutator] at hm
  | clear => simp [Call.isMutator] at hm
  | mapSet => simp [Call.isMutator] at hm
  | mapDelete f => simp [Call.isMutator] at hm
  | clone n => simp [Call.isMutator] at hm

end Hive.OMap
