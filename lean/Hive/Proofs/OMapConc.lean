import Hive.Spec.OMapConc
/-!
# Lock protocol of `ds.Set`: counting invariant, mutual exclusion, progress (C11)

Threads are arbitrary well-formed lock scripts; the pool is an arbitrary list.  The invariant ties
each `RWMutex`'s fields to the number of threads in the corresponding hold state.
-/
namespace Hive.OMap
open Hive.Conc

def cnt (l : LockId) (x : Hold) (ts : List Th) : Nat := ts.countP (fun t => t.hold l == x)

theorem cnt_mid (l : LockId) (x : Hold) (pre post : List Th) (t : Th) :
    cnt l x (pre ++ t :: post) = cnt l x pre + (if t.hold l = x then 1 else 0) + cnt l x post := by
  unfold cnt; rw [countP_mid]; simp

theorem hold_setHold_same (t : Th) (l : LockId) (h : Hold) : (t.setHold l h).hold l = h := by
  cases l <;> cases h <;> simp [Th.setHold, Th.hold]

/-- acting on lock `l` is compatible with what the thread holds of `l`'s class: nothing, or `l` itself -/
def Th.compat (t : Th) : LockId → Prop
  | .A i => t.hA = .none ∨ t.sA = i
  | .M i => t.hM = .none ∨ t.sM = i

theorem hold_setHold_other (t : Th) {l l' : LockId} (h : Hold) (hne : l' ≠ l) (hc : t.compat l) :
    (t.setHold l h).hold l' = t.hold l' := by
  cases l with
  | A i =>
    cases l' with
    | M j => rfl
    | A j =>
      have hij : i ≠ j := fun e => hne (by rw [e])
      have hji : ¬ j = i := fun e => hij e.symm
      simp only [Th.compat] at hc
      cases h <;> rcases hc with hc | hc <;> simp [Th.setHold, Th.hold, hc, hij] <;> (try (split <;> simp_all)) <;> (try omega)
  | M i =>
    cases l' with
    | A j => rfl
    | M j =>
      have hij : i ≠ j := fun e => hne (by rw [e])
      simp only [Th.compat] at hc
      cases h <;> rcases hc with hc | hc <;> simp [Th.setHold, Th.hold, hc, hij] <;> (try (split <;> simp_all)) <;> (try omega)

theorem get_put_same (s : Locks) (l : LockId) (x : RW) : (s.put l x).get l = x := by simp [Locks.put, Locks.get]
theorem get_put_other (s : Locks) {l l' : LockId} (x : RW) (hne : l' ≠ l) : (s.put l x).get l' = s.get l' := by
  simp [Locks.put, Locks.get, hne]

/-- the fields of lock `l` count the threads holding / waiting for it -/
structure LockOk (x : RW) (l : LockId) (ts : List Th) : Prop where
  readers : x.readers = cnt l .r ts
  writer : (if x.writer then 1 else 0) = cnt l .w ts
  pending : x.pending = cnt l .req ts
  excl : x.writer = true → x.readers = 0

structure LInv (c : Cfg Locks Th) : Prop where
  ok : ∀ l, LockOk (c.1.get l) l c.2
  wf : ∀ t ∈ c.2, t.wf

theorem cnt_start (l : LockId) (x : Hold) (hx : x ≠ .none) (scripts : List (List Act)) :
    cnt l x (scripts.map Th.start) = 0 := by
  unfold cnt
  rw [List.countP_eq_zero]
  intro t ht
  obtain ⟨s, _, rfl⟩ := List.mem_map.1 ht
  cases l <;> cases x <;> first
    | exact absurd rfl hx
    | (rename_i i; simp only [Th.start, Th.hold]; by_cases h0 : 0 = i <;> simp [h0])

theorem linv_init (scripts : List (List Act)) (hwf : ∀ s ∈ scripts, WF0 s) :
    LInv (Locks.init, scripts.map Th.start) := by
  refine ⟨fun l => ?_, ?_⟩
  · have h1 := cnt_start l .r (by decide) scripts
    have h2 := cnt_start l .w (by decide) scripts
    have h3 := cnt_start l .req (by decide) scripts
    exact ⟨by simp [Locks.get, Locks.init, RW.free, h1], by simp [Locks.get, Locks.init, RW.free, h2],
      by simp [Locks.get, Locks.init, RW.free, h3], by simp [Locks.get, Locks.init, RW.free]⟩
  · intro t ht
    obtain ⟨s, hs, rfl⟩ := List.mem_map.1 ht
    exact hwf s hs

/-- a thread changes only its own hold of lock `l` -/
theorem lockOk_other {s : Locks} {pre post : List Th} {t t' : Th} {l l' : LockId} (hne : l' ≠ l)
    (ht : t'.hold l' = t.hold l') (x : RW) (h : LockOk (s.get l') l' (pre ++ t :: post)) :
    LockOk ((s.put l x).get l') l' (pre ++ t' :: post) := by
  rw [get_put_other _ _ hne]
  obtain ⟨h1, h2, h3, h4⟩ := h
  refine ⟨?_, ?_, ?_, h4⟩
  · rw [h1, cnt_mid, cnt_mid, ht]
  · rw [h2, cnt_mid, cnt_mid, ht]
  · rw [h3, cnt_mid, cnt_mid, ht]

theorem lockOk_same_hold {s : Locks} {pre post : List Th} {t t' : Th} {l : LockId}
    (ht : t'.hold l = t.hold l) (h : LockOk (s.get l) l (pre ++ t :: post)) :
    LockOk (s.get l) l (pre ++ t' :: post) := by
  obtain ⟨h1, h2, h3, h4⟩ := h
  refine ⟨?_, ?_, ?_, h4⟩
  · rw [h1, cnt_mid, cnt_mid, ht]
  · rw [h2, cnt_mid, cnt_mid, ht]
  · rw [h3, cnt_mid, cnt_mid, ht]

theorem script_setHold (t : Th) (l : LockId) (h : Hold) : (t.setHold l h).script = t.script := by cases l <;> rfl

/-- the thread after performing a lock action on `l` -/
def Th.after (t : Th) (rest : List Act) (l : LockId) (h : Hold) : Th := { t with script := rest }.setHold l h

theorem hold_after_same (t : Th) (rest : List Act) (l : LockId) (h : Hold) : (t.after rest l h).hold l = h :=
  hold_setHold_same _ _ _
theorem hold_after_other (t : Th) (rest : List Act) {l l' : LockId} (h : Hold) (hne : l' ≠ l) (hc : t.compat l) :
    (t.after rest l h).hold l' = t.hold l' := by
  unfold Th.after
  rw [hold_setHold_other _ _ hne (by cases l <;> exact hc)]
  cases l' <;> rfl

/-- what `WF` says about the hold of the lock an action works on, and about the rest of the script -/
theorem wf_rlock {t : Th} {l : LockId} {rest : List Act} (hs : t.script = .rlock l :: rest) (h : t.wf) :
    t.hold l = .none ∧ t.compat l ∧ (t.after rest l .r).wf := by
  unfold Th.wf WF at h
  rw [hs] at h
  cases l with
  | A i =>
    simp only [wfB, Bool.and_eq_true, beq_iff_eq, bne_iff_ne] at h
    refine ⟨by simp_all [Th.hold], by simp_all [Th.compat], ?_⟩
    simp only [Th.after, Th.setHold, Th.wf, WF]
    simpa using h.2
  | M i =>
    simp only [wfB, Bool.and_eq_true, beq_iff_eq, bne_iff_ne] at h
    refine ⟨by simp_all [Th.hold], by simp_all [Th.compat], ?_⟩
    simp only [Th.after, Th.setHold, Th.wf, WF]
    simpa using h.2

theorem wf_req {t : Th} {l : LockId} {rest : List Act} (hs : t.script = .req l :: rest) (h : t.wf) :
    t.hold l = .none ∧ t.compat l ∧ (t.after rest l .req).wf := by
  unfold Th.wf WF at h
  rw [hs] at h
  cases l with
  | A i =>
    simp only [wfB, Bool.and_eq_true, beq_iff_eq, bne_iff_ne] at h
    refine ⟨by simp_all [Th.hold], by simp_all [Th.compat], ?_⟩
    simp only [Th.after, Th.setHold, Th.wf, WF]
    simpa using h.2
  | M i =>
    simp only [wfB, Bool.and_eq_true, beq_iff_eq, bne_iff_ne] at h
    refine ⟨by simp_all [Th.hold], by simp_all [Th.compat], ?_⟩
    simp only [Th.after, Th.setHold, Th.wf, WF]
    simpa using h.2

theorem wf_acq {t : Th} {l : LockId} {rest : List Act} (hs : t.script = .acq l :: rest) (h : t.wf) :
    t.hold l = .req ∧ t.compat l ∧ (t.after rest l .w).wf := by
  unfold Th.wf WF at h
  rw [hs] at h
  cases l with
  | A i =>
    simp only [wfB, Bool.and_eq_true, beq_iff_eq, bne_iff_ne] at h
    refine ⟨by simp_all [Th.hold], by simp_all [Th.compat], ?_⟩
    simp only [Th.after, Th.setHold, Th.wf, WF]
    simpa using h.2
  | M i =>
    simp only [wfB, Bool.and_eq_true, beq_iff_eq, bne_iff_ne] at h
    refine ⟨by simp_all [Th.hold], by simp_all [Th.compat], ?_⟩
    simp only [Th.after, Th.setHold, Th.wf, WF]
    simpa using h.2

theorem wf_runlock {t : Th} {l : LockId} {rest : List Act} (hs : t.script = .runlock l :: rest) (h : t.wf) :
    t.hold l = .r ∧ t.compat l ∧ (t.after rest l .none).wf := by
  unfold Th.wf WF at h
  rw [hs] at h
  cases l with
  | A i =>
    simp only [wfB, Bool.and_eq_true, beq_iff_eq, bne_iff_ne] at h
    refine ⟨by simp_all [Th.hold], by simp_all [Th.compat], ?_⟩
    simp only [Th.after, Th.setHold, Th.wf, WF]
    simpa using h.2
  | M i =>
    simp only [wfB, Bool.and_eq_true, beq_iff_eq, bne_iff_ne] at h
    refine ⟨by simp_all [Th.hold], by simp_all [Th.compat], ?_⟩
    simp only [Th.after, Th.setHold, Th.wf, WF]
    simpa using h.2

theorem wf_unlock {t : Th} {l : LockId} {rest : List Act} (hs : t.script = .unlock l :: rest) (h : t.wf) :
    t.hold l = .w ∧ t.compat l ∧ (t.after rest l .none).wf := by
  unfold Th.wf WF at h
  rw [hs] at h
  cases l with
  | A i =>
    simp only [wfB, Bool.and_eq_true, beq_iff_eq, bne_iff_ne] at h
    refine ⟨by simp_all [Th.hold], by simp_all [Th.compat], ?_⟩
    simp only [Th.after, Th.setHold, Th.wf, WF]
    simpa using h.2
  | M i =>
    simp only [wfB, Bool.and_eq_true, beq_iff_eq, bne_iff_ne] at h
    refine ⟨by simp_all [Th.hold], by simp_all [Th.compat], ?_⟩
    simp only [Th.after, Th.setHold, Th.wf, WF]
    simpa using h.2

theorem wf_data {t : Th} {a : Act} {rest : List Act} (ha : a = .read ∨ a = .write) (hs : t.script = a :: rest)
    (h : t.wf) : ({ t with script := rest } : Th).wf := by
  unfold Th.wf WF at h ⊢
  rw [hs] at h
  rcases ha with rfl | rfl <;> simp only [wfB, Bool.and_eq_true] at h <;> exact h.2

theorem wf_replace {pre post : List Th} {t t' : Th}
    (h : ∀ u ∈ pre ++ t :: post, u.wf) (ht' : t'.wf) :
    ∀ u ∈ pre ++ t' :: post, u.wf := by
  intro u hu
  rcases List.mem_append.1 hu with hu | hu
  · exact h u (List.mem_append_left _ hu)
  · rcases List.mem_cons.1 hu with hu | hu
    · exact hu ▸ ht'
    · exact h u (List.mem_append_right _ (List.mem_cons_of_mem _ hu))

theorem cnt_shift (l : LockId) (x : Hold) (pre post : List Th) (t t' : Th) :
    cnt l x (pre ++ t' :: post) + (if t.hold l = x then 1 else 0)
      = cnt l x (pre ++ t :: post) + (if t'.hold l = x then 1 else 0) := by
  rw [cnt_mid, cnt_mid]; omega

/-- bookkeeping for the lock the stepping thread works on: its hold goes from `h0` to `h1` -/
theorem cnt_shift3 {l : LockId} {pre post : List Th} {t t' : Th} {h0 h1 : Hold} (e0 : t.hold l = h0) (e1 : t'.hold l = h1) :
    (cnt l .r (pre ++ t' :: post) + (if h0 = .r then 1 else 0) = cnt l .r (pre ++ t :: post) + (if h1 = .r then 1 else 0)) ∧
    (cnt l .w (pre ++ t' :: post) + (if h0 = .w then 1 else 0) = cnt l .w (pre ++ t :: post) + (if h1 = .w then 1 else 0)) ∧
    (cnt l .req (pre ++ t' :: post) + (if h0 = .req then 1 else 0) = cnt l .req (pre ++ t :: post) + (if h1 = .req then 1 else 0)) := by
  have a := cnt_shift l .r pre post t t'
  have b := cnt_shift l .w pre post t t'
  have c := cnt_shift l .req pre post t t'
  rw [e0, e1] at a b c
  exact ⟨a, b, c⟩

/-- the invariant is preserved by every step of the permissive semantics (hence of the strict one) -/
theorem linv_step {a b : Cfg Locks Th} (ha : LInv a) (hs : Step lockSysP a b) : LInv b := by
  obtain ⟨s, pre, t, post, s', t', hmem⟩ := hs
  have hwfall : ∀ u ∈ pre ++ t :: post, u.wf := ha.wf
  have hok : ∀ l, LockOk (s.get l) l (pre ++ t :: post) := ha.ok
  have hwft := hwfall t (by simp)
  simp only [lockSysP, lockStep] at hmem
  cases hsc : t.script with
  | nil => simp [hsc] at hmem
  | cons act rest =>
    simp only [hsc] at hmem
    cases act with
    | rlock l =>
      obtain ⟨hh, hcompat, hwf'⟩ := wf_rlock hsc hwft
      dsimp only at hmem
      split at hmem
      · rename_i hen
        simp only [List.mem_singleton, Prod.mk.injEq] at hmem
        obtain ⟨rfl, rfl⟩ := hmem
        have hw : (s.get l).writer = false := by simp at hen; exact hen
        refine ⟨fun l' => ?_, wf_replace hwfall hwf'⟩
        by_cases hl : l' = l
        · subst hl
          obtain ⟨h1, h2, h3, h4⟩ := hok l'
          obtain ⟨e1, e2, e3⟩ := cnt_shift3 (pre := pre) (post := post) hh (hold_after_same t rest l' .r)
          simp at e1 e2 e3
          show LockOk ((s.put l' _).get l') l' (pre ++ t.after rest l' .r :: post)
          rw [get_put_same]
          exact ⟨by show _ + 1 = _; omega, by show (if (s.get l').writer = true then 1 else 0) = _; omega,
            by show (s.get l').pending = _; omega, by simp [hw]⟩
        · exact lockOk_other hl (hold_after_other t rest _ hl hcompat) _ (hok l')
      · simp at hmem
    | runlock l =>
      obtain ⟨hh, hcompat, hwf'⟩ := wf_runlock hsc hwft
      dsimp only at hmem
      simp only [List.mem_singleton, Prod.mk.injEq] at hmem
      obtain ⟨rfl, rfl⟩ := hmem
      refine ⟨fun l' => ?_, wf_replace hwfall hwf'⟩
      by_cases hl : l' = l
      · subst hl
        obtain ⟨h1, h2, h3, h4⟩ := hok l'
        obtain ⟨e1, e2, e3⟩ := cnt_shift3 (pre := pre) (post := post) hh (hold_after_same t rest l' .none)
        simp at e1 e2 e3
        have hw : (s.get l').writer = false := by
          cases hw : (s.get l').writer with
          | false => rfl
          | true => have := h4 hw; omega
        show LockOk ((s.put l' _).get l') l' (pre ++ t.after rest l' .none :: post)
        rw [get_put_same]
        exact ⟨by show _ - 1 = _; omega, by show (if (s.get l').writer = true then 1 else 0) = _; omega,
          by show (s.get l').pending = _; omega, by simp [hw]⟩
      · exact lockOk_other hl (hold_after_other t rest _ hl hcompat) _ (hok l')
    | req l =>
      obtain ⟨hh, hcompat, hwf'⟩ := wf_req hsc hwft
      dsimp only at hmem
      simp only [List.mem_singleton, Prod.mk.injEq] at hmem
      obtain ⟨rfl, rfl⟩ := hmem
      refine ⟨fun l' => ?_, wf_replace hwfall hwf'⟩
      by_cases hl : l' = l
      · subst hl
        obtain ⟨h1, h2, h3, h4⟩ := hok l'
        obtain ⟨e1, e2, e3⟩ := cnt_shift3 (pre := pre) (post := post) hh (hold_after_same t rest l' .req)
        simp at e1 e2 e3
        show LockOk ((s.put l' _).get l') l' (pre ++ t.after rest l' .req :: post)
        rw [get_put_same]
        exact ⟨by show (s.get l').readers = _; omega, by show (if (s.get l').writer = true then 1 else 0) = _; omega,
          by show _ + 1 = _; omega, h4⟩
      · exact lockOk_other hl (hold_after_other t rest _ hl hcompat) _ (hok l')
    | acq l =>
      obtain ⟨hh, hcompat, hwf'⟩ := wf_acq hsc hwft
      dsimp only at hmem
      split at hmem
      · rename_i hen
        simp only [List.mem_singleton, Prod.mk.injEq] at hmem
        obtain ⟨rfl, rfl⟩ := hmem
        have hr : (s.get l).readers = 0 := by simp at hen; exact hen.1
        have hw : (s.get l).writer = false := by simp at hen; exact hen.2
        refine ⟨fun l' => ?_, wf_replace hwfall hwf'⟩
        by_cases hl : l' = l
        · subst hl
          obtain ⟨h1, h2, h3, h4⟩ := hok l'
          obtain ⟨e1, e2, e3⟩ := cnt_shift3 (pre := pre) (post := post) hh (hold_after_same t rest l' .w)
          simp at e1 e2 e3
          rw [hw] at h2; simp at h2
          show LockOk ((s.put l' _).get l') l' (pre ++ t.after rest l' .w :: post)
          rw [get_put_same]
          exact ⟨by show (s.get l').readers = _; omega, by show (if true = true then 1 else 0) = _; simp; omega,
            by show _ - 1 = _; omega, fun _ => hr⟩
        · exact lockOk_other hl (hold_after_other t rest _ hl hcompat) _ (hok l')
      · simp at hmem
    | unlock l =>
      obtain ⟨hh, hcompat, hwf'⟩ := wf_unlock hsc hwft
      dsimp only at hmem
      simp only [List.mem_singleton, Prod.mk.injEq] at hmem
      obtain ⟨rfl, rfl⟩ := hmem
      refine ⟨fun l' => ?_, wf_replace hwfall hwf'⟩
      by_cases hl : l' = l
      · subst hl
        obtain ⟨h1, h2, h3, h4⟩ := hok l'
        obtain ⟨e1, e2, e3⟩ := cnt_shift3 (pre := pre) (post := post) hh (hold_after_same t rest l' .none)
        simp at e1 e2 e3
        show LockOk ((s.put l' _).get l') l' (pre ++ t.after rest l' .none :: post)
        rw [get_put_same]
        refine ⟨by show (s.get l').readers = _; omega, ?_, by show (s.get l').pending = _; omega, by simp⟩
        show (if false = true then 1 else 0) = _
        split at h2 <;> simp <;> omega
      · exact lockOk_other hl (hold_after_other t rest _ hl hcompat) _ (hok l')
    | read =>
      dsimp only at hmem
      simp only [List.mem_singleton, Prod.mk.injEq] at hmem
      obtain ⟨rfl, rfl⟩ := hmem
      exact ⟨fun l' => lockOk_same_hold (by cases l' <;> rfl) (hok l'),
        wf_replace hwfall (wf_data (t := t) (Or.inl rfl) hsc hwft)⟩
    | write =>
      dsimp only at hmem
      simp only [List.mem_singleton, Prod.mk.injEq] at hmem
      obtain ⟨rfl, rfl⟩ := hmem
      exact ⟨fun l' => lockOk_same_hold (by cases l' <;> rfl) (hok l'),
        wf_replace hwfall (wf_data (t := t) (Or.inr rfl) hsc hwft)⟩

theorem linv_reach {scripts : List (List Act)} (hwf : ∀ s ∈ scripts, WF0 s) {c : Cfg Locks Th}
    (hr : Reach lockSysP (Locks.init, scripts.map Th.start) c) : LInv c :=
  inv_induction LInv (linv_init scripts hwf) (fun _ _ h hs => linv_step h hs) hr

/-- every step of the strict (writer-preference) semantics is a step of the permissive one -/
theorem strict_sub_permissive {s : Locks} {t : Th} {x : Locks × Th} (h : x ∈ lockStep true s t) : x ∈ lockStep false s t := by
  unfold lockStep at h ⊢
  cases hsc : t.script with
  | nil => simp [hsc] at h
  | cons a rest =>
    simp only [hsc] at h ⊢
    cases a with
    | rlock l =>
      dsimp only at h ⊢
      split at h
      · rename_i hen
        have : (!(s.get l).writer && (!false || (s.get l).pending == 0)) = true := by simp at hen ⊢; exact hen.1
        rw [if_pos this]; exact h
      · simp at h
    | runlock l => exact h
    | req l => exact h
    | acq l => exact h
    | unlock l => exact h
    | read => exact h
    | write => exact h

theorem reach_strict_permissive {a b : Cfg Locks Th} (h : Reach lockSys a b) : Reach lockSysP a b := by
  induction h with
  | refl => exact Reach.refl _
  | tail _ hs ih =>
    obtain ⟨s, pre, t, post, s', t', hmem⟩ := hs
    exact Reach.tail ih (Step.mk s pre t post s' t' (strict_sub_permissive hmem))

/-! ## progress -/

theorem cnt_zero_of_none {l : LockId} {x : Hold} {ts : List Th} (h : ¬ ∃ t ∈ ts, t.hold l = x) : cnt l x ts = 0 := by
  unfold cnt
  rw [List.countP_eq_zero]
  intro t ht hx
  exact h ⟨t, ht, by simpa using hx⟩

/-- a thread that holds a map mutex can always take its next step -/
theorem enabled_holdsM {s : Locks} {t : Th} (hwf : t.wf) (h : t.hM = .r ∨ t.hM = .w) :
    lockStep true s t ≠ [] := by
  unfold Th.wf WF at hwf
  unfold lockStep
  cases hsc : t.script with
  | nil => rw [hsc] at hwf; rcases h with h | h <;> simp [wfB, h] at hwf
  | cons a rest =>
    rw [hsc] at hwf
    cases a with
    | rlock l => cases l <;> rcases h with h | h <;> simp [wfB, h] at hwf
    | req l => cases l <;> rcases h with h | h <;> simp [wfB, h] at hwf
    | acq l => cases l <;> rcases h with h | h <;> simp [wfB, h] at hwf
    | runlock l => simp
    | unlock l => simp
    | read => simp
    | write => simp

/-- a thread pending on a map mutex can acquire it as soon as all map mutexes are free -/
theorem enabled_reqM {s : Locks} {t : Th} (hwf : t.wf) (h : t.hM = .req)
    (hfree : ∀ j, (s (.M j)).readers = 0 ∧ (s (.M j)).writer = false) : lockStep true s t ≠ [] := by
  unfold Th.wf WF at hwf
  unfold lockStep
  cases hsc : t.script with
  | nil => rw [hsc] at hwf; simp [wfB, h] at hwf
  | cons a rest =>
    rw [hsc] at hwf
    cases a with
    | rlock l => cases l <;> simp [wfB, h] at hwf
    | req l => cases l <;> simp [wfB, h] at hwf
    | acq l =>
      cases l with
      | A i => simp [wfB, h] at hwf
      | M j => simp [Locks.get, (hfree j).1, (hfree j).2]
    | runlock l => simp
    | unlock l => simp
    | read => simp
    | write => simp

/-- a thread that holds an `applyMutex` (and no map mutex) can take its next step when all map mutexes are
completely free -/
theorem enabled_holdsA {s : Locks} {t : Th} (hwf : t.wf) (hM : t.hM = .none)
    (h : t.hA = .r ∨ t.hA = .w) (hfree : ∀ j, (s (.M j)).writer = false ∧ (s (.M j)).pending = 0) :
    lockStep true s t ≠ [] := by
  unfold Th.wf WF at hwf
  unfold lockStep
  cases hsc : t.script with
  | nil => rw [hsc] at hwf; rcases h with h | h <;> simp [wfB, h] at hwf
  | cons a rest =>
    rw [hsc] at hwf
    cases a with
    | rlock l =>
      cases l with
      | A i => rcases h with h | h <;> simp [wfB, h] at hwf
      | M j => simp [Locks.get, (hfree j).1, (hfree j).2]
    | req l => simp
    | acq l => cases l <;> rcases h with h | h <;> simp [wfB, h, hM] at hwf
    | runlock l => simp
    | unlock l => simp
    | read => simp
    | write => simp

/-- a thread pending on an `applyMutex` can acquire it as soon as all of them are free -/
theorem enabled_reqA {s : Locks} {t : Th} (hwf : t.wf) (h : t.hA = .req) (hM : t.hM = .none)
    (hfree : ∀ i, (s (.A i)).readers = 0 ∧ (s (.A i)).writer = false) : lockStep true s t ≠ [] := by
  unfold Th.wf WF at hwf
  unfold lockStep
  cases hsc : t.script with
  | nil => rw [hsc] at hwf; simp [wfB, h] at hwf
  | cons a rest =>
    rw [hsc] at hwf
    cases a with
    | rlock l => cases l <;> simp [wfB, h] at hwf
    | req l => simp
    | acq l =>
      cases l with
      | A i => simp [Locks.get, (hfree i).1, (hfree i).2]
      | M j => simp [wfB, h, hM] at hwf
    | runlock l => simp
    | unlock l => simp
    | read => simp
    | write => simp

/-- a thread that holds nothing can start whatever comes next when all locks are completely free -/
theorem enabled_idle {s : Locks} {t : Th} (hwf : t.wf) (hA : t.hA = .none) (hM : t.hM = .none)
    (hne : t.script ≠ [])
    (hfree : ∀ l, (s l).writer = false ∧ (s l).pending = 0) :
    lockStep true s t ≠ [] := by
  unfold Th.wf WF at hwf
  unfold lockStep
  cases hsc : t.script with
  | nil => exact absurd hsc hne
  | cons a rest =>
    cases a with
    | rlock l => simp [Locks.get, (hfree l).1, (hfree l).2]
    | req l => simp
    | acq l => rw [hsc] at hwf; cases l <;> simp [wfB, hA, hM] at hwf
    | runlock l => simp
    | unlock l => simp
    | read => simp
    | write => simp

/-- no thread is in hold state `x` of the class ⇒ the corresponding counter of every lock of the class is 0 -/
theorem cntA_zero {x : Hold} {ts : List Th} (hx : x ≠ .none) (h : ¬ ∃ t ∈ ts, t.hA = x) (i : Nat) : cnt (.A i) x ts = 0 := by
  apply cnt_zero_of_none
  rintro ⟨t, ht, hh⟩
  apply h ⟨t, ht, ?_⟩
  simp only [Th.hold] at hh
  split at hh
  · exact hh
  · exact absurd hh.symm hx

theorem cntM_zero {x : Hold} {ts : List Th} (hx : x ≠ .none) (h : ¬ ∃ t ∈ ts, t.hM = x) (i : Nat) : cnt (.M i) x ts = 0 := by
  apply cnt_zero_of_none
  rintro ⟨t, ht, hh⟩
  apply h ⟨t, ht, ?_⟩
  simp only [Th.hold] at hh
  split at hh
  · exact hh
  · exact absurd hh.symm hx

theorem writer_false_of_cnt {x : RW} {l : LockId} {ts : List Th} (hok : LockOk x l ts) (h0 : cnt l .w ts = 0) :
    x.writer = false := by
  have := hok.writer; rw [h0] at this
  cases hw : x.writer with
  | false => rfl
  | true => simp [hw] at this

/-- **Progress.** In every configuration satisfying the invariant, if some thread has not finished
then some thread can take a step under the strict (writer-preference) semantics. -/
theorem progress {c : Cfg Locks Th} (hi : LInv c) (hun : ∃ t ∈ c.2, t.script ≠ []) :
    ∃ t ∈ c.2, lockSys.step c.1 t ≠ [] := by
  obtain ⟨s, ts⟩ := c
  have hok : ∀ l, LockOk (s l) l ts := hi.ok
  have hwf : ∀ t ∈ ts, t.wf := hi.wf
  by_cases h1 : ∃ t ∈ ts, t.hM = .r
  · obtain ⟨t, ht, hh⟩ := h1; exact ⟨t, ht, enabled_holdsM (hwf t ht) (Or.inl hh)⟩
  by_cases h2 : ∃ t ∈ ts, t.hM = .w
  · obtain ⟨t, ht, hh⟩ := h2; exact ⟨t, ht, enabled_holdsM (hwf t ht) (Or.inr hh)⟩
  have mr : ∀ j, (s (.M j)).readers = 0 := fun j => by rw [(hok (.M j)).readers]; exact cntM_zero (by decide) h1 j
  have mw : ∀ j, (s (.M j)).writer = false := fun j => writer_false_of_cnt (hok (.M j)) (cntM_zero (by decide) h2 j)
  by_cases h3 : ∃ t ∈ ts, t.hM = .req
  · obtain ⟨t, ht, hh⟩ := h3; exact ⟨t, ht, enabled_reqM (hwf t ht) hh (fun j => ⟨mr j, mw j⟩)⟩
  have mp : ∀ j, (s (.M j)).pending = 0 := fun j => by rw [(hok (.M j)).pending]; exact cntM_zero (by decide) h3 j
  have hMnone : ∀ t ∈ ts, t.hM = .none := by
    intro t ht
    cases h : t.hM with
    | none => rfl
    | req => exact absurd ⟨t, ht, h⟩ h3
    | r => exact absurd ⟨t, ht, h⟩ h1
    | w => exact absurd ⟨t, ht, h⟩ h2
  by_cases h4 : ∃ t ∈ ts, t.hA = .r
  · obtain ⟨t, ht, hh⟩ := h4
    exact ⟨t, ht, enabled_holdsA (hwf t ht) (hMnone t ht) (Or.inl hh) (fun j => ⟨mw j, mp j⟩)⟩
  by_cases h5 : ∃ t ∈ ts, t.hA = .w
  · obtain ⟨t, ht, hh⟩ := h5
    exact ⟨t, ht, enabled_holdsA (hwf t ht) (hMnone t ht) (Or.inr hh) (fun j => ⟨mw j, mp j⟩)⟩
  have ar : ∀ i, (s (.A i)).readers = 0 := fun i => by rw [(hok (.A i)).readers]; exact cntA_zero (by decide) h4 i
  have aw : ∀ i, (s (.A i)).writer = false := fun i => writer_false_of_cnt (hok (.A i)) (cntA_zero (by decide) h5 i)
  by_cases h6 : ∃ t ∈ ts, t.hA = .req
  · obtain ⟨t, ht, hh⟩ := h6
    exact ⟨t, ht, enabled_reqA (hwf t ht) hh (hMnone t ht) (fun i => ⟨ar i, aw i⟩)⟩
  have ap : ∀ i, (s (.A i)).pending = 0 := fun i => by rw [(hok (.A i)).pending]; exact cntA_zero (by decide) h6 i
  obtain ⟨t, ht, hne⟩ := hun
  have hAnone : t.hA = .none := by
    cases h : t.hA with
    | none => rfl
    | req => exact absurd ⟨t, ht, h⟩ h6
    | r => exact absurd ⟨t, ht, h⟩ h4
    | w => exact absurd ⟨t, ht, h⟩ h5
  refine ⟨t, ht, enabled_idle (hwf t ht) hAnone (hMnone t ht) hne ?_⟩
  intro l
  cases l with
  | A i => exact ⟨aw i, ap i⟩
  | M j => exact ⟨mw j, mp j⟩

/-- mutual exclusion provided by lock `l`: at most one writer, and no reader next to a writer -/
theorem exclusion {c : Cfg Locks Th} (hi : LInv c) (l : LockId) :
    cnt l .w c.2 ≤ 1 ∧ (cnt l .w c.2 = 1 → cnt l .r c.2 = 0) := by
  obtain ⟨h1, h2, _, h4⟩ := hi.ok l
  constructor
  · rw [← h2]; split <;> omega
  · intro hw
    rw [← h2] at hw
    rw [← h1]
    apply h4
    cases hx : (c.1.get l).writer with
    | true => rfl
    | false => simp [hx] at hw

theorem stuck_of_stuckB {c : Cfg Locks Th} (h : stuckB c = true) : Stuck lockSys c := by
  intro t ht
  have := List.all_eq_true.1 h t ht
  exact List.isEmpty_iff.1 this

/-! ## the method scripts are well formed -/

theorem wf_append {a b : List Act} {hA hM : Hold} {sA sM : Nat} (ha : WF hA sA hM sM a) (hb : WF0 b) :
    WF hA sA hM sM (a ++ b) := by
  induction a generalizing hA hM sA sM with
  | nil =>
    simp only [WF, wfB, Bool.and_eq_true, beq_iff_eq] at ha
    obtain ⟨⟨⟨h1, h2⟩, h3⟩, h4⟩ := ha
    rw [h1, h2, h3, h4]; exact hb
  | cons x r ih =>
    cases x with
    | rlock l => cases l <;> simp only [WF, wfB, List.cons_append, Bool.and_eq_true] at ha ⊢ <;> exact ⟨ha.1, ih ha.2⟩
    | req l => cases l <;> simp only [WF, wfB, List.cons_append, Bool.and_eq_true] at ha ⊢ <;> exact ⟨ha.1, ih ha.2⟩
    | acq l => cases l <;> simp only [WF, wfB, List.cons_append, Bool.and_eq_true] at ha ⊢ <;> exact ⟨ha.1, ih ha.2⟩
    | runlock l => cases l <;> simp only [WF, wfB, List.cons_append, Bool.and_eq_true] at ha ⊢ <;> exact ⟨ha.1, ih ha.2⟩
    | unlock l => cases l <;> simp only [WF, wfB, List.cons_append, Bool.and_eq_true] at ha ⊢ <;> exact ⟨ha.1, ih ha.2⟩
    | read => simp only [WF, wfB, List.cons_append, Bool.and_eq_true] at ha ⊢; exact ⟨ha.1, ih ha.2⟩
    | write => simp only [WF, wfB, List.cons_append, Bool.and_eq_true] at ha ⊢; exact ⟨ha.1, ih ha.2⟩

/-- a block that may run under any hold of an `applyMutex` (but not between `Lock()` and its return) and
leaves every map mutex free -/
def Neutral (b : List Act) : Prop :=
  ∀ (hA : Hold) (sA : Nat) (rest : List Act), hA ≠ .req → WF hA sA .none 0 rest → WF hA sA .none 0 (b ++ rest)

theorem neutral_nil : Neutral [] := fun _ _ _ _ h => h

theorem neutral_append {a b : List Act} (ha : Neutral a) (hb : Neutral b) : Neutral (a ++ b) := by
  intro hA sA rest hne h
  rw [List.append_assoc]; exact ha hA sA _ hne (hb hA sA rest hne h)

theorem neutral_omSet (i : Nat) : Neutral (omSet i) := by
  intro hA sA rest hne h
  cases hA <;> simp_all [omSet, WF, wfB]

theorem neutral_omRead (i : Nat) : Neutral (omRead i) := by
  intro hA sA rest hne h
  cases hA <;> simp_all [omRead, WF, wfB]

theorem neutral_omClear (i : Nat) : Neutral (omClear i) := by
  intro hA sA rest hne h
  cases hA <;> simp_all [omClear, WF, wfB]

theorem neutral_omDelete (i : Nat) (f : Bool) : Neutral (omDelete i f) := by
  unfold omDelete
  apply neutral_append (neutral_omRead i)
  cases f
  · exact neutral_nil
  · intro hA sA rest hne h
    cases hA <;> simp_all [WF, wfB]

theorem wf_reads_underR (n : Nat) (hA : Hold) (sA j : Nat) (rest : List Act) (hne : hA ≠ .req) (h : WF hA sA .r j rest) :
    WF hA sA .r j (rep n [.read] ++ rest) := by
  induction n with
  | zero => simpa [rep] using h
  | succ n ih =>
    have : rep (n + 1) [Act.read] ++ rest = .read :: (rep n [.read] ++ rest) := by simp [rep, List.replicate_succ]
    rw [this]
    cases hA <;> simp_all [WF, wfB]

theorem neutral_omClone (i n : Nat) : Neutral (omClone i n) := by
  intro hA sA rest hne h
  have h1 : WF hA sA .r i ([.runlock (.M i)] ++ rest) := by cases hA <;> simp_all [WF, wfB]
  have h2 := wf_reads_underR n hA sA i _ hne h1
  have : omClone i n ++ rest = .rlock (.M i) :: (rep n [.read] ++ ([.runlock (.M i)] ++ rest)) := by
    simp [omClone, List.append_assoc]
  rw [this]
  cases hA <;> simp_all [WF, wfB]

theorem neutral_rep (n : Nat) {b : List Act} (hb : Neutral b) : Neutral (rep n b) := by
  induction n with
  | zero => exact neutral_nil
  | succ n ih =>
    have : rep (n + 1) b = b ++ rep n b := by simp [rep, List.replicate_succ]
    rw [this]; exact neutral_append hb ih

theorem neutral_flatten {bs : List (List Act)} (h : ∀ b ∈ bs, Neutral b) : Neutral bs.flatten := by
  induction bs with
  | nil => exact neutral_nil
  | cons b r ih =>
    rw [List.flatten_cons]
    exact neutral_append (h b (by simp)) (ih (fun x hx => h x (List.mem_cons_of_mem _ hx)))

/-- iterating a source (any set, possibly the receiver itself) with neutral consumer blocks is neutral -/
theorem neutral_forEachOver (src : Nat) {bodies : List (List Act)} (h : ∀ b ∈ bodies, Neutral b) :
    Neutral (forEachOver src bodies) := by
  unfold forEachOver
  apply neutral_append (neutral_omRead src)
  apply neutral_flatten
  intro b hb
  obtain ⟨x, hx, rfl⟩ := List.mem_map.1 hb
  exact neutral_append (h x hx) (neutral_omRead src)

theorem neutral_replicate {n : Nat} {b : List Act} (hb : Neutral b) : ∀ x ∈ List.replicate n b, Neutral x := by
  intro x hx; rw [List.eq_of_mem_replicate hx]; exact hb

theorem neutral_map_omDelete (i : Nat) (fs : List Bool) : ∀ x ∈ fs.map (omDelete i), Neutral x := by
  intro x hx; obtain ⟨f, _, rfl⟩ := List.mem_map.1 hx; exact neutral_omDelete i f

theorem wf_underR (i : Nat) {b : List Act} (hb : Neutral b) : WF0 ([.rlock (.A i)] ++ b ++ [.runlock (.A i)]) := by
  have : WF .r i .none 0 (b ++ [.runlock (.A i)]) := hb .r i _ (by decide) (by simp [WF, wfB])
  simpa [WF0, WF, wfB] using this

theorem wf_underW (i : Nat) {b : List Act} (hb : Neutral b) : WF0 ([.req (.A i), .acq (.A i)] ++ b ++ [.unlock (.A i)]) := by
  have : WF .w i .none 0 (b ++ [.unlock (.A i)]) := hb .w i _ (by decide) (by simp [WF, wfB])
  simpa [WF0, WF, wfB] using this

/-- every `ds.Set` / `OrderedMap` method, whatever its receiver `i`, its source set(s) — **including the receiver
itself** —, its arguments' sizes and its data-dependent branches, follows a well-formed lock script -/
theorem wf_methodScript (i : Nat) (c : Call) : WF0 (methodScript i c) := by
  cases c with
  | add => exact wf_underR i (neutral_omSet i)
  | delete f => exact wf_underR i (neutral_omDelete i f)
  | addAll src n => exact wf_underR i (neutral_forEachOver src (neutral_replicate (neutral_omSet i)))
  | deleteAll src fs => exact wf_underR i (neutral_forEachOver src (neutral_map_omDelete i fs))
  | apply srcA srcD n ds =>
    have := wf_underW i (neutral_append (neutral_forEachOver srcA (neutral_replicate (n := n) (neutral_omSet i)))
      (neutral_forEachOver srcD (neutral_map_omDelete i ds)))
    simpa [methodScript, List.append_assoc] using this
  | replace src p n =>
    have := wf_underW i (neutral_append (neutral_rep (p + 1) (neutral_omRead i)) (neutral_append (neutral_rep (n + 1) (neutral_omRead src))
      (neutral_append (neutral_omClear i) (neutral_append (neutral_rep n (neutral_omSet i)) (neutral_rep p (neutral_omRead i))))))
    simpa [methodScript, List.append_assoc] using this
  | reader n =>
    have := neutral_rep n (neutral_omRead i) .none 0 [] (by decide) (by decide)
    simpa [methodScript] using this
  | readerOf src n =>
    have := neutral_rep n (neutral_append (neutral_omRead i) (neutral_omRead src)) .none 0 [] (by decide) (by decide)
    simpa [methodScript] using this
  | clear =>
    have := neutral_omClear i .none 0 [] (by decide) (by decide)
    simpa [methodScript] using this
  | mapSet =>
    have := neutral_omSet i .none 0 [] (by decide) (by decide)
    simpa [methodScript] using this
  | mapDelete f =>
    have := neutral_omDelete i f .none 0 [] (by decide) (by decide)
    simpa [methodScript] using this
  | clone n =>
    have := neutral_omClone i n .none 0 [] (by decide) (by decide)
    simpa [methodScript] using this

/-- a goroutine: any sequence of calls, each on any set -/
theorem wf_methods (cs : List (Nat × Call)) : WF0 (cs.flatMap (fun c => methodScript c.1 c.2)) := by
  induction cs with
  | nil => decide
  | cons c r ih => rw [List.flatMap_cons]; exact wf_append (wf_methodScript c.1 c.2) ih

/-! ## which hold of `applyMutex` guards the writes of each method -/

/-- a block without `applyMutex` actions whose writes to set `i` are fine under the current hold -/
def AFree (i : Nat) (b : List Act) : Prop :=
  ∀ (want hA : Hold) (sA : Nat) (rest : List Act), hA = want → sA = i →
    guardedBy i want hA sA none (b ++ rest) = guardedBy i want hA sA none rest

theorem afree_nil (i : Nat) : AFree i [] := fun _ _ _ _ _ _ => rfl

theorem afree_append {i : Nat} {a b : List Act} (ha : AFree i a) (hb : AFree i b) : AFree i (a ++ b) := by
  intro want hA sA rest h hs
  rw [List.append_assoc, ha want hA sA _ h hs, hb want hA sA _ h hs]

theorem afree_omSet (i j : Nat) : AFree i (omSet j) := by
  intro want hA sA rest h hs; subst h; subst hs; simp [omSet, guardedBy]
theorem afree_omRead (i j : Nat) : AFree i (omRead j) := by
  intro want hA sA rest h hs; subst h; subst hs; simp [omRead, guardedBy]
theorem afree_omClear (i j : Nat) : AFree i (omClear j) := by
  intro want hA sA rest h hs; subst h; subst hs; simp [omClear, guardedBy]
theorem afree_omDelete (i j : Nat) (f : Bool) : AFree i (omDelete j f) := by
  unfold omDelete
  apply afree_append (afree_omRead i j)
  cases f
  · exact afree_nil i
  · intro want hA sA rest h hs; subst h; subst hs; simp [guardedBy]

theorem afree_rep {i : Nat} (n : Nat) {b : List Act} (hb : AFree i b) : AFree i (rep n b) := by
  induction n with
  | zero => exact afree_nil i
  | succ n ih =>
    have : rep (n + 1) b = b ++ rep n b := by simp [rep, List.replicate_succ]
    rw [this]; exact afree_append hb ih

theorem afree_flatten {i : Nat} {bs : List (List Act)} (h : ∀ b ∈ bs, AFree i b) : AFree i bs.flatten := by
  induction bs with
  | nil => exact afree_nil i
  | cons b r ih =>
    rw [List.flatten_cons]
    exact afree_append (h b (by simp)) (ih (fun x hx => h x (List.mem_cons_of_mem _ hx)))

theorem afree_forEachOver {i : Nat} (src : Nat) {bodies : List (List Act)} (h : ∀ b ∈ bodies, AFree i b) :
    AFree i (forEachOver src bodies) := by
  unfold forEachOver
  apply afree_append (afree_omRead i src)
  apply afree_flatten
  intro b hb
  obtain ⟨x, hx, rfl⟩ := List.mem_map.1 hb
  exact afree_append (h x hx) (afree_omRead i src)

theorem afree_replicate {i n : Nat} {b : List Act} (hb : AFree i b) : ∀ x ∈ List.replicate n b, AFree i x := by
  intro x hx; rw [List.eq_of_mem_replicate hx]; exact hb

theorem afree_map_omDelete (i : Nat) (fs : List Bool) : ∀ x ∈ fs.map (omDelete i), AFree i x := by
  intro x hx; obtain ⟨f, _, rfl⟩ := List.mem_map.1 hx; exact afree_omDelete i i f

theorem guarded_underR (i : Nat) {b : List Act} (hb : AFree i b) :
    guardedBy i .r .none 0 none ([.rlock (.A i)] ++ b ++ [.runlock (.A i)]) = true := by
  have := hb .r .r i [.runlock (.A i)] rfl rfl
  simp only [List.singleton_append, List.append_assoc, List.cons_append, List.nil_append, guardedBy] at this ⊢
  rw [this]

theorem guarded_underW (i : Nat) {b : List Act} (hb : AFree i b) :
    guardedBy i .w .none 0 none ([.req (.A i), .acq (.A i)] ++ b ++ [.unlock (.A i)]) = true := by
  have := hb .w .w i [.unlock (.A i)] rfl rfl
  simp only [List.append_assoc, List.cons_append, List.nil_append, guardedBy] at this ⊢
  rw [this]

/-- `Apply`/`Compute`/`Replace` on set `i` perform every write to set `i` while holding `A i` exclusively;
`Add`, `Delete`, `AddAll`, `DeleteAll` while holding it shared — whatever the source sets are. -/
theorem guarded_methodScript (i : Nat) (c : Call) (hm : c.isMutator = true) :
    guardedBy i (if c.isAtomic then .w else .r) .none 0 none (methodScript i c) = true := by
  cases c with
  | add => exact guarded_underR i (afree_omSet i i)
  | delete f => exact guarded_underR i (afree_omDelete i i f)
  | addAll src n => exact guarded_underR i (afree_forEachOver src (afree_replicate (afree_omSet i i)))
  | deleteAll src fs => exact guarded_underR i (afree_forEachOver src (afree_map_omDelete i fs))
  | apply srcA srcD n ds =>
    have := guarded_underW i (afree_append (afree_forEachOver srcA (afree_replicate (n := n) (afree_omSet i i)))
      (afree_forEachOver srcD (afree_map_omDelete i ds)))
    simpa [methodScript, Call.isAtomic, List.append_assoc] using this
  | replace src p n =>
    have := guarded_underW i (afree_append (afree_rep (p + 1) (afree_omRead i i)) (afree_append (afree_rep (n + 1) (afree_omRead i src))
      (afree_append (afree_omClear i i) (afree_append (afree_rep n (afree_omSet i i)) (afree_rep p (afree_omRead i i))))))
    simpa [methodScript, Call.isAtomic, List.append_assoc] using this
  | reader n => simp [Call.isMutator] at hm
  | readerOf src n => simp [Call.isMutator] at hm
  | clear => simp [Call.isMutator] at hm
  | mapSet => simp [Call.isMutator] at hm
  | mapDelete f => simp [Call.isMutator] at hm
  | clone n => simp [Call.isMutator] at hm

end Hive.OMap
