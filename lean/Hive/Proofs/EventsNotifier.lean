import Hive.Model.EventsNotifier
/-!
# Invariant of the value-notifier model (repaired code) and the relation of its ghost flag to the history
-/
namespace Hive.Notifier
theorem findEntry_some {es : List Entry} {v : Nat} {e : Entry} (h : findEntry es v = some e) :
    e ∈ es ∧ e.value = v := by
  unfold findEntry at h
  have h1 := List.mem_of_find?_eq_some h
  have h2 := List.find?_some h
  exact ⟨h1, by simpa using h2⟩

theorem findEntry_none {es : List Entry} {v : Nat} (h : findEntry es v = none) :
    ∀ e ∈ es, e.value ≠ v := by
  unfold findEntry at h
  intro e he
  have := List.find?_eq_none.mp h e he
  simpa using this

def liveP (c : Nat) (l : Lst) : Bool := !l.dereg && l.chan == c
def liveCount (ls : List Lst) (c : Nat) : Nat := ls.countP (liveP c)

theorem liveCount_append (ls : List Lst) (l : Lst) (c : Nat) :
    liveCount (ls ++ [l]) c = liveCount ls c + (if liveP c l then 1 else 0) := by
  simp [liveCount, List.countP_append, List.countP_cons]

theorem liveCount_markHit (ls : List Lst) (v c : Nat) :
    liveCount (ls.map (markHit v)) c = liveCount ls c := by
  simp only [liveCount, List.countP_map]
  congr 1
  funext l
  simp only [Function.comp, markHit, liveP]
  split <;> rfl

theorem liveCount_setDereg (ls : List Lst) (h : Nat) (l : Lst) (c : Nat)
    (hl : ls[h]? = some l) (hd : l.dereg = false) :
    liveCount (setDereg ls h) c + (if l.chan == c then 1 else 0) = liveCount ls c := by
  induction ls generalizing h with
  | nil => simp at hl
  | cons x xs ih =>
    cases h with
    | zero =>
      simp at hl; subst hl
      simp [setDereg, liveCount, List.countP_cons, liveP, hd]
    | succ h =>
      simp at hl
      have := ih h hl
      simp only [setDereg, liveCount, List.countP_cons] at this ⊢
      omega

theorem mem_setDereg {ls : List Lst} {h : Nat} {l' : Lst} (hm : l' ∈ setDereg ls h) (hd : l'.dereg = false) :
    l' ∈ ls := by
  induction ls generalizing h with
  | nil => simp [setDereg] at hm
  | cons x xs ih =>
    cases h with
    | zero =>
      simp only [setDereg, List.mem_cons] at hm
      rcases hm with rfl | hm
      · simp at hd
      · exact List.mem_cons_of_mem _ hm
    | succ h =>
      simp only [setDereg, List.mem_cons] at hm
      rcases hm with rfl | hm
      · exact List.mem_cons_self
      · exact List.mem_cons_of_mem _ (ih hm)

theorem setDereg_chan {ls : List Lst} {h : Nat} {l' : Lst} (hm : l' ∈ setDereg ls h) :
    ∃ l ∈ ls, l.chan = l'.chan ∧ l.value = l'.value := by
  induction ls generalizing h with
  | nil => simp [setDereg] at hm
  | cons x xs ih =>
    cases h with
    | zero =>
      simp only [setDereg, List.mem_cons] at hm
      rcases hm with rfl | hm
      · exact ⟨x, List.mem_cons_self, rfl, rfl⟩
      · exact ⟨l', List.mem_cons_of_mem _ hm, rfl, rfl⟩
    | succ h =>
      simp only [setDereg, List.mem_cons] at hm
      rcases hm with rfl | hm
      · exact ⟨l', List.mem_cons_self, rfl, rfl⟩
      · obtain ⟨l, hl, h1⟩ := ih hm
        exact ⟨l, List.mem_cons_of_mem _ hl, h1⟩


structure Inv (s : St) : Prop where
  uniq_val : ∀ e1 ∈ s.entries, ∀ e2 ∈ s.entries, e1.value = e2.value → e1 = e2
  uniq_chan : ∀ e1 ∈ s.entries, ∀ e2 ∈ s.entries, e1.chan = e2.chan → e1 = e2
  chan_lt : ∀ e ∈ s.entries, e.chan < s.nextChan
  opn : ∀ e ∈ s.entries, s.closed.contains e.chan = false
  count : ∀ e ∈ s.entries, e.count = liveCount s.ls e.chan
  lchan_lt : ∀ l ∈ s.ls, l.chan < s.nextChan
  closed_lt : ∀ c ∈ s.closed, c < s.nextChan
  live : ∀ l ∈ s.ls, l.dereg = false →
    (∃ e ∈ s.entries, e.chan = l.chan ∧ e.value = l.value) ∨ (s.closed.contains l.chan = true ∧ l.hit = true)

theorem inv_init : Inv init := by
  constructor <;> simp [init]

/-- The fact the property rests on: a closed notify channel seen by a live listener means it was notified. -/
theorem Inv.closed_hit {s : St} (h : Inv s) {l : Lst} (hl : l ∈ s.ls) (hd : l.dereg = false)
    (hc : s.closed.contains l.chan = true) : l.hit = true := by
  rcases h.live l hl hd with ⟨e, he, hch, _⟩ | ⟨_, hh⟩
  · have := h.opn e he
    rw [hch, hc] at this; cases this
  · exact hh

theorem inv_listener {s : St} (h : Inv s) (v : Nat) : Inv (step true s (.listener v)).1 := by
  simp only [step]
  cases hf : findEntry s.entries v with
  | some e =>
    obtain ⟨hem, hev⟩ := findEntry_some hf
    simp only
    constructor
    · intro e1 h1 e2 h2 hv
      simp only [List.mem_map] at h1 h2
      obtain ⟨a, ha, rfl⟩ := h1
      obtain ⟨b, hb, rfl⟩ := h2
      have : a.value = b.value := by
        revert hv; split <;> split <;> simp_all
      have := h.uniq_val a ha b hb this
      subst this; rfl
    · intro e1 h1 e2 h2 hv
      simp only [List.mem_map] at h1 h2
      obtain ⟨a, ha, rfl⟩ := h1
      obtain ⟨b, hb, rfl⟩ := h2
      have : a.chan = b.chan := by
        revert hv; split <;> split <;> simp_all
      have := h.uniq_chan a ha b hb this
      subst this; rfl
    · intro e1 h1
      simp only [List.mem_map] at h1
      obtain ⟨a, ha, rfl⟩ := h1
      have := h.chan_lt a ha
      split <;> simpa using this
    · intro e1 h1
      simp only [List.mem_map] at h1
      obtain ⟨a, ha, rfl⟩ := h1
      have := h.opn a ha
      split <;> simpa using this
    · intro e1 h1
      simp only [List.mem_map] at h1
      obtain ⟨a, ha, rfl⟩ := h1
      have hc := h.count a ha
      rw [liveCount_append]
      by_cases hav : a.value = v
      · have : a = e := h.uniq_val a ha e hem (by rw [hav, hev])
        subst this
        simp [hav, liveP, hc]
      · have hne : a.chan ≠ e.chan := by
          intro hch; exact hav (by rw [h.uniq_chan a ha e hem hch, hev])
        have hne' : ¬ e.chan = a.chan := fun x => hne x.symm
        simp [hav, liveP, hc, hne']
    · intro l hl
      simp only [List.mem_append, List.mem_singleton] at hl
      rcases hl with hl | rfl
      · exact h.lchan_lt l hl
      · exact h.chan_lt e hem
    · exact h.closed_lt
    · intro l hl hd
      simp only [List.mem_append, List.mem_singleton] at hl
      rcases hl with hl | rfl
      · rcases h.live l hl hd with ⟨e', he', h1, h2⟩ | h2
        · left
          refine ⟨if e'.value == v then { e' with count := e'.count + 1 } else e', ?_, ?_, ?_⟩
          · exact List.mem_map.mpr ⟨e', he', rfl⟩
          · split <;> simpa using h1
          · split <;> simpa using h2
        · right; exact h2
      · left
        refine ⟨{ e with count := e.count + 1 }, ?_, rfl, hev⟩
        exact List.mem_map.mpr ⟨e, hem, by simp [hev]⟩
  | none =>
    have hnone := findEntry_none hf
    simp only
    constructor
    · intro e1 h1 e2 h2 hv
      simp only [List.mem_append, List.mem_singleton] at h1 h2
      rcases h1 with h1 | rfl <;> rcases h2 with h2 | rfl
      · exact h.uniq_val e1 h1 e2 h2 hv
      · exact absurd hv (hnone e1 h1)
      · exact absurd hv.symm (hnone e2 h2)
      · rfl
    · intro e1 h1 e2 h2 hv
      simp only [List.mem_append, List.mem_singleton] at h1 h2
      rcases h1 with h1 | rfl <;> rcases h2 with h2 | rfl
      · exact h.uniq_chan e1 h1 e2 h2 hv
      · have := h.chan_lt e1 h1; simp at hv; omega
      · have := h.chan_lt e2 h2; simp at hv; omega
      · rfl
    · intro e1 h1
      simp only [List.mem_append, List.mem_singleton] at h1
      rcases h1 with h1 | rfl
      · have := h.chan_lt e1 h1; show e1.chan < s.nextChan + 1; omega
      · simp
    · intro e1 h1
      simp only [List.mem_append, List.mem_singleton] at h1
      rcases h1 with h1 | rfl
      · exact h.opn e1 h1
      · simp only [List.contains_eq_mem, decide_eq_false_iff_not]
        intro hc; have := h.closed_lt _ hc; omega
    · intro e1 h1
      simp only [List.mem_append, List.mem_singleton] at h1
      rw [liveCount_append]
      rcases h1 with h1 | rfl
      · have := h.chan_lt e1 h1
        have hne : ¬ s.nextChan = e1.chan := by omega
        simp [liveP, h.count e1 h1, hne]
      · have : liveCount s.ls s.nextChan = 0 := by
          simp only [liveCount, List.countP_eq_zero, liveP]
          intro l hl
          have := h.lchan_lt l hl
          have hne : ¬ l.chan = s.nextChan := by omega
          simp [hne]
        simp [liveP, this]
    · intro l hl
      simp only [List.mem_append, List.mem_singleton] at hl
      rcases hl with hl | rfl
      · have := h.lchan_lt l hl; show l.chan < s.nextChan + 1; omega
      · simp
    · intro c hc; have := h.closed_lt c hc; show c < s.nextChan + 1; omega
    · intro l hl hd
      simp only [List.mem_append, List.mem_singleton] at hl
      rcases hl with hl | rfl
      · rcases h.live l hl hd with ⟨e', he', h1, h2⟩ | h2
        · left; exact ⟨e', List.mem_append_left _ he', h1, h2⟩
        · right; exact h2
      · left; exact ⟨_, List.mem_append_right _ (List.mem_singleton.mpr rfl), rfl, rfl⟩

@[simp] theorem markHit_chan (v : Nat) (l : Lst) : (markHit v l).chan = l.chan := by
  unfold markHit; split <;> rfl
@[simp] theorem markHit_value (v : Nat) (l : Lst) : (markHit v l).value = l.value := by
  unfold markHit; split <;> rfl
@[simp] theorem markHit_dereg (v : Nat) (l : Lst) : (markHit v l).dereg = l.dereg := by
  unfold markHit; split <;> rfl
theorem markHit_hit_of_hit (v : Nat) (l : Lst) (h : l.hit = true) : (markHit v l).hit = true := by
  unfold markHit; split <;> simp [h]
theorem markHit_hit_of_live (v : Nat) (l : Lst) (hv : l.value = v) (hd : l.dereg = false) :
    (markHit v l).hit = true := by
  simp [markHit, hv, hd]

theorem inv_notify {s : St} (h : Inv s) (v : Nat) : Inv (step true s (.notify v)).1 := by
  simp only [step]
  cases hf : findEntry s.entries v with
  | none =>
    simp only
    constructor
    · exact h.uniq_val
    · exact h.uniq_chan
    · exact h.chan_lt
    · exact h.opn
    · intro e he; rw [liveCount_markHit]; exact h.count e he
    · intro l hl
      obtain ⟨l0, hl0, rfl⟩ := List.mem_map.mp hl
      simpa using h.lchan_lt l0 hl0
    · exact h.closed_lt
    · intro l hl hd
      obtain ⟨l0, hl0, rfl⟩ := List.mem_map.mp hl
      simp only [markHit_dereg] at hd
      rcases h.live l0 hl0 hd with ⟨e', he', h1, h2⟩ | ⟨h1, h2⟩
      · left; exact ⟨e', he', by simpa using h1, by simpa using h2⟩
      · right; exact ⟨by simpa using h1, markHit_hit_of_hit v l0 h2⟩
  | some e =>
    obtain ⟨hem, hev⟩ := findEntry_some hf
    simp only
    have hsub : ∀ x, x ∈ s.entries.filter (fun x => x.value != v) → x ∈ s.entries ∧ x.value ≠ v := by
      intro x hx
      simpa using List.mem_filter.mp hx
    constructor
    · intro e1 h1 e2 h2; exact h.uniq_val e1 (hsub e1 h1).1 e2 (hsub e2 h2).1
    · intro e1 h1 e2 h2; exact h.uniq_chan e1 (hsub e1 h1).1 e2 (hsub e2 h2).1
    · intro e1 h1; exact h.chan_lt e1 (hsub e1 h1).1
    · intro e1 h1
      obtain ⟨h1m, h1v⟩ := hsub e1 h1
      have hne : e1.chan ≠ e.chan := by
        intro hc; exact h1v (by rw [h.uniq_chan e1 h1m e hem hc, hev])
      have := h.opn e1 h1m
      simp only [List.contains_eq_mem, List.mem_cons, decide_eq_false_iff_not] at this ⊢
      intro hx; rcases hx with hx | hx
      · exact hne hx
      · exact this hx
    · intro e1 h1; rw [liveCount_markHit]; exact h.count e1 (hsub e1 h1).1
    · intro l hl
      obtain ⟨l0, hl0, rfl⟩ := List.mem_map.mp hl
      simpa using h.lchan_lt l0 hl0
    · intro c hc
      simp only [List.mem_cons] at hc
      rcases hc with rfl | hc
      · exact h.chan_lt e hem
      · exact h.closed_lt c hc
    · intro l hl hd
      obtain ⟨l0, hl0, rfl⟩ := List.mem_map.mp hl
      simp only [markHit_dereg] at hd
      rcases h.live l0 hl0 hd with ⟨e', he', h1, h2⟩ | ⟨h1, h2⟩
      · by_cases hv : e'.value = v
        · have : e' = e := h.uniq_val e' he' e hem (by rw [hv, hev])
          subst this
          right
          refine ⟨?_, markHit_hit_of_live v l0 (by rw [← h2, hv]) hd⟩
          simp [h1]
        · left
          exact ⟨e', List.mem_filter.mpr ⟨he', by simpa using hv⟩, by simpa using h1, by simpa using h2⟩
      · right
        refine ⟨?_, markHit_hit_of_hit v l0 h2⟩
        simp only [List.contains_eq_mem, List.mem_cons, decide_eq_true_eq, markHit_chan] at h1 ⊢
        right; exact h1

theorem liveCount_setDereg_ne (ls : List Lst) (i : Nat) (l : Lst) (c : Nat)
    (hl : ls[i]? = some l) (hd : l.dereg = false) (hne : l.chan ≠ c) :
    liveCount (setDereg ls i) c = liveCount ls c := by
  have := liveCount_setDereg ls i l c hl hd
  simpa [hne] using this

theorem liveCount_setDereg_eq (ls : List Lst) (i : Nat) (l : Lst)
    (hl : ls[i]? = some l) (hd : l.dereg = false) :
    liveCount (setDereg ls i) l.chan + 1 = liveCount ls l.chan := by
  have := liveCount_setDereg ls i l l.chan hl hd
  simpa using this

/-- Marking listener `i` as deregistered when no entry carries its channel. -/
theorem inv_setDereg_noentry {s : St} (h : Inv s) {i : Nat} {l : Lst} (hi : s.ls[i]? = some l)
    (hd : l.dereg = false) (hno : ∀ e ∈ s.entries, e.chan ≠ l.chan) :
    Inv { s with ls := setDereg s.ls i } := by
  constructor
  · exact h.uniq_val
  · exact h.uniq_chan
  · exact h.chan_lt
  · exact h.opn
  · intro e he
    rw [liveCount_setDereg_ne s.ls i l e.chan hi hd (fun x => hno e he x.symm)]
    exact h.count e he
  · intro l' hl'
    obtain ⟨l0, hl0, hc, _⟩ := setDereg_chan hl'
    rw [← hc]; exact h.lchan_lt l0 hl0
  · exact h.closed_lt
  · intro l' hl' hd'
    exact h.live l' (mem_setDereg hl' hd') hd'

theorem inv_deregister {s : St} (h : Inv s) {i : Nat} {l : Lst} (hi : s.ls[i]? = some l)
    (hd : l.dereg = false) : Inv (deregister true s i l) := by
  have hlm : l ∈ s.ls := List.mem_of_getElem? hi
  unfold deregister removeListener
  simp only
  cases hf : findEntry s.entries l.value with
  | none =>
    simp only
    apply inv_setDereg_noentry h hi hd
    intro e he hc
    rcases h.live l hlm hd with ⟨e', he', _, h2⟩ | ⟨h1, _⟩
    · exact findEntry_none hf e' he' h2
    · have := h.opn e he; rw [hc, h1] at this; cases this
  | some e =>
    obtain ⟨hem, hev⟩ := findEntry_some hf
    simp only [Bool.true_and]
    by_cases hch : e.chan = l.chan
    · have hne : (e.chan != l.chan) = false := by simp [hch]
      simp only [hne, Bool.false_eq_true, if_false]
      have hcnt := liveCount_setDereg_eq s.ls i l hi hd
      have hec := h.count e hem
      rw [hch] at hec
      by_cases h1 : e.count = 1
      · have h1' : (e.count == 1) = true := by simp [h1]
        simp only [h1', if_true]
        have hzero : liveCount (setDereg s.ls i) l.chan = 0 := by omega
        have hsub : ∀ x, x ∈ s.entries.filter (fun x => x.value != l.value) → x ∈ s.entries ∧ x.value ≠ l.value := by
          intro x hx
          simpa using List.mem_filter.mp hx
        have hother : ∀ x, x ∈ s.entries.filter (fun x => x.value != l.value) → x.chan ≠ l.chan := by
          intro x hx hc
          obtain ⟨hxm, hxv⟩ := hsub x hx
          exact hxv (by rw [h.uniq_chan x hxm e hem (by rw [hc, hch]), hev])
        constructor
        · intro e1 h1 e2 h2; exact h.uniq_val e1 (hsub e1 h1).1 e2 (hsub e2 h2).1
        · intro e1 h1 e2 h2; exact h.uniq_chan e1 (hsub e1 h1).1 e2 (hsub e2 h2).1
        · intro e1 h1; exact h.chan_lt e1 (hsub e1 h1).1
        · intro e1 h1
          have := h.opn e1 (hsub e1 h1).1
          have hne := hother e1 h1
          simp only [List.contains_eq_mem, List.mem_cons, decide_eq_false_iff_not] at this ⊢
          intro hx; rcases hx with hx | hx
          · exact hne (by rw [hx, hch])
          · exact this hx
        · intro e1 h1
          rw [liveCount_setDereg_ne s.ls i l e1.chan hi hd (fun x => hother e1 h1 x.symm)]
          exact h.count e1 (hsub e1 h1).1
        · intro l' hl'
          obtain ⟨l0, hl0, hc, _⟩ := setDereg_chan hl'
          rw [← hc]; exact h.lchan_lt l0 hl0
        · intro c hc
          simp only [List.mem_cons] at hc
          rcases hc with rfl | hc
          · exact h.chan_lt e hem
          · exact h.closed_lt c hc
        · intro l' hl' hd'
          have hl'm := mem_setDereg hl' hd'
          have hl'c : l'.chan ≠ l.chan := by
            intro hc
            have := (List.countP_eq_zero.mp hzero) l' hl'
            simp [liveP, hd', hc] at this
          rcases h.live l' hl'm hd' with ⟨e', he', hc1, h2⟩ | ⟨hc1, h2⟩
          · left
            refine ⟨e', List.mem_filter.mpr ⟨he', ?_⟩, hc1, h2⟩
            simp only [bne_iff_ne, ne_eq]
            intro hv
            have : e' = e := h.uniq_val e' he' e hem (by rw [hv, hev])
            subst this
            exact hl'c (by rw [← hc1, hch])
          · right
            refine ⟨?_, h2⟩
            simp only [List.contains_eq_mem, List.mem_cons, decide_eq_true_eq] at hc1 ⊢
            right; exact hc1
      · have h1' : (e.count == 1) = false := by simp [h1]
        simp only [h1', Bool.false_eq_true, if_false]
        constructor
        · intro e1 h1 e2 h2 hv
          simp only [List.mem_map] at h1 h2
          obtain ⟨a, ha, rfl⟩ := h1
          obtain ⟨b, hb, rfl⟩ := h2
          have : a.value = b.value := by
            revert hv; split <;> split <;> simp_all
          have := h.uniq_val a ha b hb this
          subst this; rfl
        · intro e1 h1 e2 h2 hv
          simp only [List.mem_map] at h1 h2
          obtain ⟨a, ha, rfl⟩ := h1
          obtain ⟨b, hb, rfl⟩ := h2
          have : a.chan = b.chan := by
            revert hv; split <;> split <;> simp_all
          have := h.uniq_chan a ha b hb this
          subst this; rfl
        · intro e1 h1
          simp only [List.mem_map] at h1
          obtain ⟨a, ha, rfl⟩ := h1
          have := h.chan_lt a ha
          split <;> simpa using this
        · intro e1 h1
          simp only [List.mem_map] at h1
          obtain ⟨a, ha, rfl⟩ := h1
          have := h.opn a ha
          split <;> simpa using this
        · intro e1 h1
          simp only [List.mem_map] at h1
          obtain ⟨a, ha, rfl⟩ := h1
          by_cases hav : a.value = l.value
          · have : a = e := h.uniq_val a ha e hem (by rw [hav, hev])
            subst this
            simp only [hav, beq_self_eq_true, if_true, hch]
            omega
          · have hne : a.chan ≠ l.chan := by
              intro hc; exact hav (by rw [h.uniq_chan a ha e hem (by rw [hc, hch]), hev])
            simp only [beq_iff_eq, hav, if_false]
            rw [liveCount_setDereg_ne s.ls i l a.chan hi hd (fun x => hne x.symm)]
            exact h.count a ha
        · intro l' hl'
          obtain ⟨l0, hl0, hc, _⟩ := setDereg_chan hl'
          rw [← hc]; exact h.lchan_lt l0 hl0
        · exact h.closed_lt
        · intro l' hl' hd'
          rcases h.live l' (mem_setDereg hl' hd') hd' with ⟨e', he', h1, h2⟩ | h2
          · left
            refine ⟨if e'.value == l.value then { e' with count := e'.count - 1 } else e', ?_, ?_, ?_⟩
            · exact List.mem_map.mpr ⟨e', he', rfl⟩
            · split <;> simpa using h1
            · split <;> simpa using h2
          · right; exact h2
    · have hne : (e.chan != l.chan) = true := by simp [hch]
      simp only [hne, if_true]
      apply inv_setDereg_noentry h hi hd
      intro e1 he1 hc
      rcases h.live l hlm hd with ⟨e', he', h1, h2⟩ | ⟨h1, _⟩
      · have : e' = e := h.uniq_val e' he' e hem (by rw [h2, hev])
        subst this; exact hch h1
      · have := h.opn e1 he1; rw [hc, h1] at this; cases this

theorem inv_step {s : St} (h : Inv s) (op : Op) : Inv (step true s op).1 := by
  cases op with
  | listener v => exact inv_listener h v
  | notify v => exact inv_notify h v
  | dereg i =>
    simp only [step]
    cases hi : s.ls[i]? with
    | none => exact h
    | some l =>
      cases hd : l.dereg with
      | true => simpa [hd] using h
      | false => simpa [hd] using inv_deregister h hi hd
  | wait i c =>
    simp only [step]
    cases hi : s.ls[i]? with
    | none => exact h
    | some l =>
      cases hd : l.dereg with
      | true => simpa [hd] using h
      | false => simpa [hd] using inv_deregister h hi hd

theorem inv_final (ops : List Op) {s : St} (h : Inv s) : Inv (final true s ops) := by
  induction ops generalizing s with
  | nil => simpa [final] using h
  | cons op ops ih =>
    simp only [final, List.foldl_cons]
    exact ih (inv_step h op)

/-! ## Relating the ghost flag `hit` to the history -/

def countListeners : List Op → Nat
  | [] => 0
  | .listener _ :: ops => countListeners ops + 1
  | _ :: ops => countListeners ops

/-- Operations after which listener `h` is deregistered: `Deregister`, and `Wait` (which always
deregisters on return). -/
def isDeregOf (h : Nat) : Op → Bool
  | .dereg h' => h' == h
  | .wait h' _ => h' == h
  | _ => false

/-- In history `ops`: listener handle `h` was created for some value `v`, `Notify(v)` was called
later, and in between the listener was not deregistered. -/
def NotifiedInWindow (ops : List Op) (h : Nat) : Prop :=
  ∃ p1 v p2 p3, ops = p1 ++ (.listener v :: (p2 ++ (.notify v :: p3))) ∧ countListeners p1 = h ∧
    ∀ op ∈ p2, isDeregOf h op = false

theorem countListeners_append (a b : List Op) : countListeners (a ++ b) = countListeners a + countListeners b := by
  induction a with
  | nil => simp [countListeners]
  | cons x xs ih => cases x <;> simp [countListeners, ih] <;> omega

theorem NotifiedInWindow.mono {ops : List Op} {h : Nat} (hn : NotifiedInWindow ops h) (op : Op) :
    NotifiedInWindow (ops ++ [op]) h := by
  obtain ⟨p1, v, p2, p3, rfl, hc, hp⟩ := hn
  exact ⟨p1, v, p2, p3 ++ [op], by simp, hc, hp⟩

/-- What the history says about listener `h` whose model record is `l`. -/
def HistOf (pre : List Op) (h : Nat) (l : Lst) : Prop :=
  (∃ p1 p2, pre = p1 ++ (.listener l.value :: p2) ∧ countListeners p1 = h ∧
    (l.dereg = false → ∀ op ∈ p2, isDeregOf h op = false)) ∧
  (l.hit = true → NotifiedInWindow pre h)

structure Hist (pre : List Op) (s : St) : Prop where
  len : s.ls.length = countListeners pre
  each : ∀ h l, s.ls[h]? = some l → HistOf pre h l

theorem removeListener_ls (f : Bool) (s : St) (v c : Nat) : (removeListener f s v c).ls = s.ls := by
  unfold removeListener
  split
  · rfl
  · split
    · rfl
    · split <;> rfl

theorem setDereg_length (ls : List Lst) (i : Nat) : (setDereg ls i).length = ls.length := by
  induction ls generalizing i with
  | nil => rfl
  | cons x xs ih => cases i <;> simp [setDereg, ih]

theorem setDereg_get_ne (ls : List Lst) (i h : Nat) (hne : h ≠ i) : (setDereg ls i)[h]? = ls[h]? := by
  induction ls generalizing i h with
  | nil => rfl
  | cons x xs ih =>
    cases i with
    | zero =>
      cases h with
      | zero => exact absurd rfl hne
      | succ h => simp [setDereg]
    | succ i =>
      cases h with
      | zero => simp [setDereg]
      | succ h => simp only [setDereg, List.getElem?_cons_succ]; exact ih i h (by omega)

theorem setDereg_get_eq (ls : List Lst) (i : Nat) (l : Lst) (hl : ls[i]? = some l) :
    (setDereg ls i)[i]? = some { l with dereg := true } := by
  induction ls generalizing i with
  | nil => simp at hl
  | cons x xs ih =>
    cases i with
    | zero => simp at hl; subst hl; simp [setDereg]
    | succ i => simp only [setDereg, List.getElem?_cons_succ] at hl ⊢; exact ih i hl

theorem deregister_ls (s : St) (i : Nat) (l : Lst) : (deregister true s i l).ls = setDereg s.ls i := by
  unfold deregister; rw [removeListener_ls]

theorem HistOf.snoc {pre : List Op} {h : Nat} {l : Lst} (hh : HistOf pre h l) (op : Op)
    (hop : l.dereg = false → isDeregOf h op = false) : HistOf (pre ++ [op]) h l := by
  obtain ⟨⟨p1, p2, rfl, hc, hp⟩, hn⟩ := hh
  refine ⟨⟨p1, p2 ++ [op], by simp, hc, ?_⟩, fun hh => (hn hh).mono op⟩
  intro hd o ho
  simp only [List.mem_append, List.mem_singleton] at ho
  rcases ho with ho | rfl
  · exact hp hd o ho
  · exact hop hd

/-- Deregistering handle `i` (by `Deregister` or by a returning `Wait`). -/
theorem hist_dereg {pre : List Op} {s : St} (hh : Hist pre s) (op : Op) (i : Nat) (l : Lst)
    (hi : s.ls[i]? = some l) (hop : ∀ h, h ≠ i → isDeregOf h op = false)
    (hcl : countListeners [op] = 0) :
    Hist (pre ++ [op]) (deregister true s i l) := by
  constructor
  · rw [deregister_ls, setDereg_length, hh.len, countListeners_append, hcl]; rfl
  · intro h l' hl'
    rw [deregister_ls] at hl'
    by_cases hne : h = i
    · subst hne
      rw [setDereg_get_eq s.ls h l hi] at hl'
      cases hl'
      obtain ⟨⟨p1, p2, hp, hc, _⟩, hn⟩ := hh.each h l hi
      exact ⟨⟨p1, p2 ++ [op], by simp [hp], hc, by simp⟩, fun x => (hn x).mono op⟩
    · rw [setDereg_get_ne s.ls i h hne] at hl'
      exact (hh.each h l' hl').snoc op (fun _ => hop h hne)

theorem hist_same {pre : List Op} {s : St} (hh : Hist pre s) (op : Op)
    (hop : ∀ h l, s.ls[h]? = some l → l.dereg = false → isDeregOf h op = false)
    (hcl : countListeners [op] = 0) : Hist (pre ++ [op]) s := by
  constructor
  · rw [hh.len, countListeners_append, hcl]; rfl
  · intro h l hl
    exact (hh.each h l hl).snoc op (hop h l hl)

theorem hist_step {pre : List Op} {s : St} (hh : Hist pre s) (op : Op) :
    Hist (pre ++ [op]) (step true s op).1 := by
  cases op with
  | listener v =>
    have key : ∀ c : Nat, ∀ es cl nc, Hist (pre ++ [.listener v])
        { entries := es, closed := cl, nextChan := nc,
          ls := s.ls ++ [{ value := v, chan := c, dereg := false, hit := false }] } := by
      intro c es cl nc
      constructor
      · simp [hh.len, countListeners_append, countListeners]
      · intro h l hl
        by_cases hlt : h < s.ls.length
        · rw [List.getElem?_append_left hlt] at hl
          exact (hh.each h l hl).snoc _ (fun _ => rfl)
        · have hge : s.ls.length ≤ h := by omega
          rw [List.getElem?_append_right hge] at hl
          have h0 : h - s.ls.length = 0 := by
            rcases Nat.eq_zero_or_pos (h - s.ls.length) with h0 | h0
            · exact h0
            · rw [List.getElem?_eq_none (by simp; omega)] at hl; cases hl
          rw [h0] at hl
          simp at hl; subst hl
          refine ⟨⟨pre, [], rfl, ?_, by simp⟩, by simp⟩
          rw [← hh.len]; omega
    simp only [step]
    cases hf : findEntry s.entries v with
    | some e => exact key _ _ _ _
    | none => exact key _ _ _ _
  | notify v =>
    have key : ∀ es cl nc, Hist (pre ++ [.notify v])
        { entries := es, closed := cl, nextChan := nc, ls := s.ls.map (markHit v) } := by
      intro es cl nc
      constructor
      · simp [hh.len, countListeners_append, countListeners]
      · intro h l hl
        simp only [List.getElem?_map, Option.map_eq_some_iff] at hl
        obtain ⟨l0, hl0, rfl⟩ := hl
        have h0 := hh.each h l0 hl0
        obtain ⟨⟨p1, p2, hp, hc, hd⟩, hn⟩ := h0
        refine ⟨⟨p1, p2 ++ [.notify v], by simp [hp], hc, ?_⟩, ?_⟩
        · intro hdr o ho
          simp only [markHit_dereg] at hdr
          simp only [List.mem_append, List.mem_singleton] at ho
          rcases ho with ho | rfl
          · exact hd hdr o ho
          · rfl
        · intro hhit
          by_cases hold : l0.hit = true
          · exact (hn hold).mono _
          · have : l0.value = v ∧ l0.dereg = false := by
              unfold markHit at hhit
              split at hhit
              · rename_i hc'; simpa using hc'
              · exact absurd hhit hold
            refine ⟨p1, v, p2, [], ?_, hc, hd this.2⟩
            rw [hp, this.1]; simp
    simp only [step]
    cases hf : findEntry s.entries v with
    | some e => exact key _ _ _
    | none => exact key _ _ _
  | dereg i =>
    simp only [step]
    cases hi : s.ls[i]? with
    | none =>
      refine hist_same hh (.dereg i) ?_ rfl
      intro h l hl _
      have : h ≠ i := by intro x; subst x; rw [hi] at hl; cases hl
      simp [isDeregOf]; exact fun x => this x.symm
    | some l =>
      cases hd : l.dereg with
      | true =>
        simp only [hd, ↓reduceIte]
        refine hist_same hh (.dereg i) ?_ rfl
        intro h l' hl' hd'
        have : h ≠ i := by intro x; subst x; rw [hi] at hl'; cases hl'; rw [hd] at hd'; cases hd'
        simp [isDeregOf]; exact fun x => this x.symm
      | false =>
        simp only [hd, Bool.false_eq_true, ↓reduceIte]
        refine hist_dereg hh (.dereg i) i l hi ?_ rfl
        intro h hne; simp [isDeregOf]; exact fun x => hne x.symm
  | wait i c =>
    simp only [step]
    cases hi : s.ls[i]? with
    | none =>
      refine hist_same hh (.wait i c) ?_ rfl
      intro h l hl _
      have : h ≠ i := by intro x; subst x; rw [hi] at hl; cases hl
      simp [isDeregOf]; exact fun x => this x.symm
    | some l =>
      cases hd : l.dereg with
      | true =>
        simp only [hd, ↓reduceIte]
        refine hist_same hh (.wait i c) ?_ rfl
        intro h l' hl' hd'
        have : h ≠ i := by intro x; subst x; rw [hi] at hl'; cases hl'; rw [hd] at hd'; cases hd'
        simp [isDeregOf]; exact fun x => this x.symm
      | false =>
        simp only [hd, Bool.false_eq_true, ↓reduceIte]
        refine hist_dereg hh (.wait i c) i l hi ?_ rfl
        intro h hne; simp [isDeregOf]; exact fun x => hne x.symm

theorem final_snoc (f : Bool) (s : St) (pre : List Op) (op : Op) :
    final f s (pre ++ [op]) = (step f (final f s pre) op).1 := by
  simp [final, List.foldl_append]

theorem snoc_induction {α : Type} {P : List α → Prop} (h0 : P [])
    (hs : ∀ l a, P l → P (l ++ [a])) (l : List α) : P l := by
  have : ∀ r : List α, P r.reverse := by
    intro r
    induction r with
    | nil => exact h0
    | cons a r ih => rw [List.reverse_cons]; exact hs _ _ ih
  simpa using this l.reverse

theorem hist_final (ops : List Op) : Hist ops (final true init ops) := by
  induction ops using snoc_induction with
  | h0 => exact ⟨rfl, by intro h l hl; simp [final, init] at hl⟩
  | hs pre op ih => rw [final_snoc]; exact hist_step ih op

end Hive.Notifier
