import Hive.Model.EventsIter
/-!
# Weak iteration: invariant of the registry with frozen next pointers and of the iterators
-/
namespace Hive.EventsIter
open Hive.Conc

def known (r : Reg) (x : Nat) : Prop := x ∈ r.live ∨ ∃ q ∈ r.frozen, q.1 = x

/-- What a next pointer read on `x` must satisfy with respect to the protected ids `P`. -/
def NextOK (P : List Nat) (r : Reg) (x : Nat) : Option Nat → Prop
  | some y => x < y ∧ (∀ p ∈ P, x < p → y ≤ p) ∧ known r y
  | none => ∀ p ∈ P, ¬ x < p

structure RegInv (P : List Nat) (r : Reg) : Prop where
  sorted : r.live.Pairwise (· < ·)
  le_counter : ∀ x ∈ r.live, x ≤ r.counter
  fle_counter : ∀ q ∈ r.frozen, q.1 ≤ r.counter
  prot : ∀ p ∈ P, p ∈ r.live
  frozen_ok : ∀ q ∈ r.frozen, NextOK P r q.1 q.2

theorem find_first {l : List Nat} {q : Nat → Bool} {y : Nat} (hs : l.Pairwise (· < ·))
    (hf : l.find? q = some y) : ∀ p ∈ l, q p = true → y ≤ p := by
  induction l with
  | nil => simp at hf
  | cons a l ih =>
    rw [List.pairwise_cons] at hs
    intro p hp hq
    by_cases ha : q a = true
    · simp [ha] at hf
      subst hf
      simp only [List.mem_cons] at hp
      rcases hp with rfl | hp
      · exact Nat.le_refl _
      · exact Nat.le_of_lt (hs.1 p hp)
    · simp [ha] at hf
      simp only [List.mem_cons] at hp
      rcases hp with rfl | hp
      · exact absurd hq ha
      · exact ih hs.2 hf p hp hq

theorem liveNext_ok {P : List Nat} {r : Reg} (h : RegInv P r) (x : Nat) : NextOK P r x (liveNext r x) := by
  unfold liveNext
  cases hf : r.live.find? (fun y => decide (x < y)) with
  | none =>
    intro p hp hlt
    have := List.find?_eq_none.mp hf p (h.prot p hp)
    simp at this; omega
  | some y =>
    have hy : y ∈ r.live := List.mem_of_find?_eq_some hf
    have hxy : x < y := by simpa using List.find?_some hf
    refine ⟨hxy, ?_, Or.inl hy⟩
    intro p hp hlt
    exact find_first h.sorted hf p (h.prot p hp) (by simpa using hlt)

theorem next_ok {P : List Nat} {r : Reg} (h : RegInv P r) {x : Nat} (hk : known r x) : NextOK P r x (next r x) := by
  unfold next
  by_cases hl : r.live.contains x = true
  · simp only [hl, if_true]; exact liveNext_ok h x
  · simp only [hl, Bool.false_eq_true, if_false]
    have hnl : x ∉ r.live := by simpa using hl
    rcases hk with hk | ⟨q, hq, hqx⟩
    · exact absurd hk hnl
    · cases hf : r.frozen.find? (fun p => p.1 == x) with
      | none =>
        have := List.find?_eq_none.mp hf q hq
        simp [hqx] at this
      | some q' =>
        have hq' : q' ∈ r.frozen := List.mem_of_find?_eq_some hf
        have hx' : q'.1 = x := by simpa using List.find?_some hf
        have := h.frozen_ok q' hq'
        rw [hx'] at this
        exact this

theorem known_attach {r : Reg} {x : Nat} (h : known r x) : known (attach r) x := by
  rcases h with h | h
  · left; simp [attach, h]
  · right; exact h

theorem known_delete {r : Reg} {x : Nat} (y : Nat) (h : known r x) : known (delete r y) x := by
  unfold delete
  by_cases hc : r.live.contains y = true
  · simp only [hc, if_true]
    rcases h with h | ⟨q, hq, hqx⟩
    · by_cases hxy : x = y
      · right; exact ⟨(y, liveNext r y), by simp, hxy.symm⟩
      · left; simp [h, hxy]
    · right; exact ⟨q, by simp [hq], hqx⟩
  · simp only [hc, Bool.false_eq_true, if_false]; exact h

theorem NextOK.mono {P : List Nat} {r r' : Reg} {x : Nat} {o : Option Nat}
    (hk : ∀ z, known r z → known r' z) (h : NextOK P r x o) : NextOK P r' x o := by
  cases o with
  | none => exact h
  | some y => exact ⟨h.1, h.2.1, hk y h.2.2⟩

theorem regInv_attach {P : List Nat} {r : Reg} (h : RegInv P r) : RegInv P (attach r) := by
  constructor
  · simp only [attach, List.pairwise_append, List.pairwise_cons, List.mem_singleton]
    refine ⟨h.sorted, ⟨by simp, List.Pairwise.nil⟩, ?_⟩
    intro a ha b hb; subst hb
    have := h.le_counter a ha; omega
  · intro x hx
    simp only [attach, List.mem_append, List.mem_singleton] at hx ⊢
    rcases hx with hx | rfl
    · have := h.le_counter x hx; omega
    · exact Nat.le_refl _
  · intro q hq
    have := h.fle_counter q hq
    simp only [attach]; omega
  · intro p hp; simp [attach, h.prot p hp]
  · intro q hq
    exact (h.frozen_ok q hq).mono (fun z hz => known_attach hz)

theorem regInv_delete {P : List Nat} {r : Reg} (h : RegInv P r) (y : Nat) (hy : y ∉ P) : RegInv P (delete r y) := by
  have hmono : ∀ z, known r z → known (delete r y) z := fun z hz => known_delete y hz
  unfold delete at hmono ⊢
  by_cases hc : r.live.contains y = true
  · simp only [hc, if_true] at hmono ⊢
    constructor
    · exact h.sorted.filter _
    · intro x hx; exact h.le_counter x (List.mem_filter.mp hx).1
    · intro q hq
      simp only [List.mem_cons] at hq
      rcases hq with rfl | hq
      · exact h.le_counter y (by simpa using hc)
      · exact h.fle_counter q hq
    · intro p hp
      refine List.mem_filter.mpr ⟨h.prot p hp, ?_⟩
      simp only [bne_iff_ne, ne_eq]
      intro hpy; exact hy (hpy ▸ hp)
    · intro q hq
      simp only [List.mem_cons] at hq
      rcases hq with rfl | hq
      · exact (liveNext_ok h y).mono hmono
      · exact (h.frozen_ok q hq).mono hmono
  · simp only [hc, Bool.false_eq_true, if_false]; exact h

/-- Invariant of one thread (with respect to the protected ids `P`). -/
def ThInv (P : List Nat) (r : Reg) : Th → Prop
  | .it pc vs =>
    vs.Pairwise (· < ·) ∧ (∀ v ∈ vs, v ≤ r.counter) ∧
    match pc with
    | .start => vs = []
    | .at x => (∀ v ∈ vs, v < x) ∧ known r x ∧ x ≤ r.counter ∧ ∀ p ∈ P, p ∈ vs ∨ x ≤ p
    | .after x => (∀ v ∈ vs, v ≤ x) ∧ known r x ∧ ∀ p ∈ P, p ∈ vs ∨ x < p
    | .fin => ∀ p ∈ P, p ∈ vs
  | .del x _ => x ∉ P
  | .att _ => True

theorem known_le {P : List Nat} {r : Reg} (h : RegInv P r) {x : Nat} (hk : known r x) : x ≤ r.counter := by
  rcases hk with hk | ⟨q, hq, rfl⟩
  · exact h.le_counter x hk
  · exact h.fle_counter q hq

theorem ThInv.mono {P : List Nat} {r r' : Reg} (hk : ∀ z, known r z → known r' z) (hc : r.counter ≤ r'.counter)
    {t : Th} (h : ThInv P r t) : ThInv P r' t := by
  cases t with
  | it pc vs =>
    obtain ⟨h1, h2, h3⟩ := h
    refine ⟨h1, fun v hv => Nat.le_trans (h2 v hv) hc, ?_⟩
    cases pc with
    | start => exact h3
    | «at» x => exact ⟨h3.1, hk x h3.2.1, Nat.le_trans h3.2.2.1 hc, h3.2.2.2⟩
    | after x => exact ⟨h3.1, hk x h3.2.1, h3.2.2⟩
    | fin => exact h3
  | del x b => exact h
  | att b => trivial

/-- Arriving at `o` (read from `head` or from a next pointer that satisfies `NextOK`). -/
theorem arrive {P : List Nat} {r : Reg} (hr : RegInv P r) {vs : List Nat} (hp : vs.Pairwise (· < ·))
    (hle : ∀ v ∈ vs, v ≤ r.counter) (o : Option Nat)
    (ho : match o with
      | some y => (∀ v ∈ vs, v < y) ∧ known r y ∧ ∀ p ∈ P, p ∈ vs ∨ y ≤ p
      | none => ∀ p ∈ P, p ∈ vs) :
    ThInv P r (.it (pcOf o) vs) := by
  cases o with
  | none => exact ⟨hp, hle, ho⟩
  | some y => exact ⟨hp, hle, ho.1, ho.2.1, known_le hr ho.2.1, ho.2.2⟩

theorem step_ok {P : List Nat} {r r' : Reg} {t t' : Th} (hr : RegInv P r) (ht : ThInv P r t)
    (hm : (r', t') ∈ step r t) :
    RegInv P r' ∧ (∀ z, known r z → known r' z) ∧ r.counter ≤ r'.counter ∧ ThInv P r' t' := by
  cases t with
  | it pc vs =>
    obtain ⟨h1, h2, h3⟩ := ht
    cases pc with
    | start =>
      simp only [step, List.mem_singleton, Prod.mk.injEq] at hm
      obtain ⟨rfl, rfl⟩ := hm
      refine ⟨hr, fun _ h => h, Nat.le_refl _, ?_⟩
      simp only at h3; subst h3
      apply arrive hr h1 h2
      cases hh : r'.live.head? with
      | none =>
        intro p hp
        have := hr.prot p hp
        rw [List.head?_eq_none_iff] at hh
        rw [hh] at this; cases this
      | some y =>
        have hy : y ∈ r'.live := List.mem_of_head? hh
        refine ⟨by simp, Or.inl hy, ?_⟩
        intro p hp
        right
        have hpl := hr.prot p hp
        cases hl : r'.live with
        | nil => rw [hl] at hpl; cases hpl
        | cons a l =>
          rw [hl] at hh hpl
          simp at hh; subst hh
          have hs := hr.sorted
          rw [hl, List.pairwise_cons] at hs
          simp only [List.mem_cons] at hpl
          rcases hpl with rfl | hpl
          · exact Nat.le_refl _
          · exact Nat.le_of_lt (hs.1 p hpl)
    | «at» x =>
      simp only [step, List.mem_singleton, Prod.mk.injEq] at hm
      obtain ⟨rfl, rfl⟩ := hm
      refine ⟨hr, fun _ h => h, Nat.le_refl _, ?_⟩
      obtain ⟨h3a, h3b, h3c, h3d⟩ := h3
      refine ⟨?_, ?_, ?_, h3b, ?_⟩
      · rw [List.pairwise_append]
        exact ⟨h1, by simp, fun a ha b hb => by simp at hb; subst hb; exact h3a a ha⟩
      · intro v hv
        simp only [List.mem_append, List.mem_singleton] at hv
        rcases hv with hv | rfl
        · exact h2 v hv
        · exact h3c
      · intro v hv
        simp only [List.mem_append, List.mem_singleton] at hv
        rcases hv with hv | rfl
        · exact Nat.le_of_lt (h3a v hv)
        · exact Nat.le_refl _
      · intro p hp
        rcases h3d p hp with h | h
        · left; simp [h]
        · rcases Nat.lt_or_eq_of_le h with h | h
          · right; exact h
          · left; simp [h]
    | after x =>
      simp only [step, List.mem_singleton, Prod.mk.injEq] at hm
      obtain ⟨rfl, rfl⟩ := hm
      refine ⟨hr, fun _ h => h, Nat.le_refl _, ?_⟩
      obtain ⟨h3a, h3b, h3c⟩ := h3
      have hn := next_ok hr h3b
      apply arrive hr h1 h2
      cases hnx : next r' x with
      | none =>
        rw [hnx] at hn
        intro p hp
        rcases h3c p hp with h | h
        · exact h
        · exact absurd h (hn p hp)
      | some y =>
        rw [hnx] at hn
        obtain ⟨hxy, hmin, hky⟩ := hn
        refine ⟨fun v hv => Nat.lt_of_le_of_lt (h3a v hv) hxy, hky, ?_⟩
        intro p hp
        rcases h3c p hp with h | h
        · left; exact h
        · right; exact hmin p hp h
    | fin => simp [step] at hm
  | att b =>
    cases b with
    | true => simp [step] at hm
    | false =>
      simp only [step, List.mem_singleton, Prod.mk.injEq] at hm
      obtain ⟨rfl, rfl⟩ := hm
      exact ⟨regInv_attach hr, fun z hz => known_attach hz, by simp [attach], trivial⟩
  | del x b =>
    cases b with
    | true => simp [step] at hm
    | false =>
      simp only [step, List.mem_singleton, Prod.mk.injEq] at hm
      obtain ⟨rfl, rfl⟩ := hm
      refine ⟨regInv_delete hr x ht, fun z hz => known_delete x hz, ?_, ht⟩
      unfold delete; split <;> simp

def CfgInv (P : List Nat) (c : Cfg Reg Th) : Prop := RegInv P c.1 ∧ ∀ t ∈ c.2, ThInv P c.1 t

theorem cfgInv_step {P : List Nat} {a b : Cfg Reg Th} (h : CfgInv P a) (hs : Step sys a b) : CfgInv P b := by
  cases hs with
  | mk s pre t post s' t' hm =>
    obtain ⟨hsh, hth⟩ := h
    have ht := hth t (by simp)
    obtain ⟨h1, h2, h3, h4⟩ := step_ok hsh ht hm
    refine ⟨h1, ?_⟩
    intro x hx
    simp only [List.mem_append, List.mem_cons] at hx
    rcases hx with hx | rfl | hx
    · exact (hth x (by simp [hx])).mono h2 h3
    · exact h4
    · exact (hth x (by simp [hx])).mono h2 h3

/-- A registry as it is when nobody iterates: no removed element is reachable. -/
def Reg.WF (r : Reg) : Prop := r.live.Pairwise (· < ·) ∧ (∀ x ∈ r.live, x ≤ r.counter) ∧ r.frozen = []

theorem cfgInv_init {P : List Nat} {r : Reg} {ts : List Th} (hr : r.WF) (hP : ∀ p ∈ P, p ∈ r.live)
    (hts : ∀ t ∈ ts, t.initial = true) (hdel : ∀ x b, Th.del x b ∈ ts → x ∉ P) : CfgInv P (r, ts) := by
  obtain ⟨h1, h2, h3⟩ := hr
  refine ⟨⟨h1, h2, by simp [h3], hP, by simp [h3]⟩, ?_⟩
  intro t ht
  have hi := hts t ht
  cases t with
  | it pc vs =>
    cases pc <;> cases vs <;> simp [Th.initial] at hi
    exact ⟨List.Pairwise.nil, by simp, rfl⟩
  | att b => trivial
  | del x b => exact hdel x b ht

end Hive.EventsIter
