import Hive.Proofs.SyncMutexComp8
/-!
The composed DAGMutex under **arbitrary scripts** (any misuse, any number of recovered panics): every StarvingMutex
object of the heap keeps the script-independent monitor invariant `GInv` (exclusion of the lock state, accounting of
the internal mutex, of `pendingWriters` and of both condition variables, Φ_W and Φ_R) for the goroutines' views of it.
Nothing a caller of `Lock`/`RLock`/`Unlock`/`RUnlock` does — in whatever order, on whatever entities — can bring a
mutex object into a state outside these invariants.
-/
namespace Hive.SyncMutex.Comp
open Hive.Conc
open Hive.SyncMutex.Dag (Mode DOp upd eraseAll)

structure GI (s : CSh) (ts : List CTh) : Prop where
  obj : ∀ o, GInv (s.heap o) (ts.map (proj o))
  ci : ∀ t ∈ ts, isInner t = false → t.ipc = .idle

/-! ### the registry operations do not touch the heap -/

theorem regOne_heap (s : CSh) (x : Nat) : (regOne s x).1.heap = s.heap := by
  unfold regOne; split <;> rfl

theorem regAll_heap : ∀ (xs : List Nat) (s : CSh), (regAll s xs).1.heap = s.heap := by
  intro xs
  induction xs with
  | nil => intro s; rfl
  | cons x xs ih => intro s; simp only [regAll]; rw [ih, regOne_heap]

theorem unregOne_heap {s : CSh} {x : Nat} {r : CSh × Nat} (h : unregOne s x = some r) : r.1.heap = s.heap := by
  unfold unregOne at h
  split at h
  · cases h
  · split at h <;> (cases h; rfl)

theorem unregAll_heap : ∀ (xs : List Nat) (s : CSh) (r : CSh × List Nat), unregAll s xs = some r → r.1.heap = s.heap := by
  intro xs
  induction xs with
  | nil => intro s r h; simp only [unregAll] at h; cases h; rfl
  | cons x xs ih =>
    intro s r h
    simp only [unregAll] at h
    cases h1 : unregOne s x with
    | none => simp [h1] at h
    | some r1 =>
      simp only [h1] at h
      cases h2 : unregAll r1.1 xs with
      | none => simp [h2] at h
      | some r2 =>
        simp only [h2] at h
        cases h
        show r2.1.heap = s.heap
        rw [ih r1.1 r2 h2, unregOne_heap h1]

theorem unregPrefix_heap : ∀ (xs : List Nat) (s : CSh), (unregPrefix s xs).heap = s.heap := by
  intro xs
  induction xs with
  | nil => intro s; rfl
  | cons x xs ih =>
    intro s
    simp only [unregPrefix]
    cases h1 : unregOne s x with
    | none => rfl
    | some r1 => simp only []; rw [ih, unregOne_heap h1]

/-! ### preservation -/

theorem gi_assemble {s s' : CSh} {pre post : List CTh} {t t' : CTh} (h : GI s (pre ++ t :: post))
    (hobj : ∀ o, GInv (s.heap o) (pre.map (proj o) ++ proj o t :: post.map (proj o)) →
      GInv (s'.heap o) (pre.map (proj o) ++ proj o t' :: post.map (proj o)))
    (hci : isInner t' = false → t'.ipc = .idle) : GI s' (pre ++ t' :: post) := by
  refine ⟨?_, ?_⟩
  · intro o
    have := h.obj o
    simp only [List.map_append, List.map_cons] at this ⊢
    exact hobj o this
  · intro u hu
    simp only [List.mem_append, List.mem_cons] at hu
    rcases hu with hu | rfl | hu
    · exact h.ci u (by simp [hu])
    · exact hci
    · exact h.ci u (by simp [hu])

/-- a step that leaves the heap and the goroutine's views alone -/
theorem gi_same {s s' : CSh} {pre post : List CTh} {t t' : CTh} (h : GI s (pre ++ t :: post))
    (hh : s'.heap = s.heap) (hp : ∀ o, proj o t' = proj o t) (hci : isInner t' = false → t'.ipc = .idle) :
    GI s' (pre ++ t' :: post) :=
  gi_assemble h (fun o hw => by rw [hh, hp o]; exact hw) hci

/-- entering a StarvingMutex method from outside (or from the return of the previous one) -/
theorem gi_start {s s' : CSh} {pre post : List CTh} {t t0 : CTh} (h : GI s (pre ++ t :: post))
    (hh : s'.heap = s.heap) (hp : ∀ o, proj o t0 = proj o t) (hi : t0.ipc = .idle)
    (op : Op) (x o0 : Nat) (k : Kont) : GI s' (pre ++ startInner t0 op x o0 k :: post) := by
  refine gi_assemble h ?_ (fun hin => by simp [isInner, startInner] at hin)
  intro o hw
  rw [hh, proj_startInner]
  rw [← hp o, proj_of_idle o hi] at hw
  by_cases ho : o0 = o
  · simp only [ho, if_true]
    exact ginv_start op hw rfl
  · simp only [ho, if_false]
    exact hw

/-- a micro-step of the StarvingMutex method the goroutine is in -/
theorem gi_inner {s : CSh} {pre post : List CTh} {t : CTh} (h : GI s (pre ++ t :: post))
    {k : Kont} (hc : t.ctl = .inner k) {p : Mx × V}
    (hp : p ∈ mxStep (s.heap t.cur) (proj t.cur t)) :
    GI { s with heap := upd s.heap t.cur p.1 }
      (pre ++ { t with ipc := p.2.pc, rd := upd t.rd t.cur p.2.rd, wr := upd t.wr t.cur p.2.wr } :: post) := by
  have hpc : proj t.cur { t with ipc := p.2.pc, rd := upd t.rd t.cur p.2.rd, wr := upd t.wr t.cur p.2.wr } = p.2 := by
    simp [proj, upd]
  have hpo : ∀ o, o ≠ t.cur →
      proj o { t with ipc := p.2.pc, rd := upd t.rd t.cur p.2.rd, wr := upd t.wr t.cur p.2.wr } = proj o t := by
    intro o ho
    have : ¬ t.cur = o := fun h => ho h.symm
    simp [proj, upd, ho, this]
  refine gi_assemble h ?_ (fun hin => by simp [isInner, hc] at hin)
  intro o hw
  by_cases ho : o = t.cur
  · subst ho
    rw [hpc]
    have := ginv_step (s' := p.1) (v' := p.2) hw hp
    simpa [upd] using this
  · rw [hpo o ho]
    simpa [upd, ho] using hw

theorem gi_step_mid {s : CSh} {pre post : List CTh} {t : CTh} {s' : CSh} {t' : CTh}
    (h : GI s (pre ++ t :: post)) (hmem : (s', t') ∈ step s t) : GI s' (pre ++ t' :: post) := by
  have hcit := h.ci t (by simp)
  unfold step at hmem
  cases hc : t.ctl with
  | dead => simp [hc] at hmem
  | idle =>
    have hni : isInner t = false := by simp [isInner, hc]
    simp only [hc] at hmem
    cases hs : t.script with
    | nil => simp [hs] at hmem
    | cons op r =>
      cases op <;> simp [hs] at hmem <;> (obtain ⟨rfl, rfl⟩ := hmem) <;>
        exact gi_same h rfl (fun _ => rfl) (fun _ => hcit hni)
  | lockA x =>
    have hni : isInner t = false := by simp [isInner, hc]
    simp only [hc] at hmem
    cases hd : s.dm <;> simp [hd] at hmem
    obtain ⟨rfl, rfl⟩ := hmem
    exact gi_same h rfl (fun _ => rfl) (fun _ => hcit hni)
  | rlockA x =>
    have hni : isInner t = false := by simp [isInner, hc]
    simp only [hc] at hmem
    cases hd : s.dm <;> simp [hd] at hmem
    obtain ⟨rfl, rfl⟩ := hmem
    exact gi_same h rfl (fun _ => rfl) (fun _ => hcit hni)
  | unlockA x =>
    have hni : isInner t = false := by simp [isInner, hc]
    simp only [hc] at hmem
    cases hd : s.dm <;> simp [hd] at hmem
    obtain ⟨rfl, rfl⟩ := hmem
    exact gi_same h rfl (fun _ => rfl) (fun _ => hcit hni)
  | runlockA x =>
    have hni : isInner t = false := by simp [isInner, hc]
    simp only [hc] at hmem
    cases hd : s.dm <;> simp [hd] at hmem
    obtain ⟨rfl, rfl⟩ := hmem
    exact gi_same h rfl (fun _ => rfl) (fun _ => hcit hni)
  | unregA x =>
    have hni : isInner t = false := by simp [isInner, hc]
    simp only [hc] at hmem
    cases hd : s.dm <;> simp [hd] at hmem
    obtain ⟨rfl, rfl⟩ := hmem
    exact gi_same h rfl (fun _ => rfl) (fun _ => hcit hni)
  | runregA x =>
    have hni : isInner t = false := by simp [isInner, hc]
    simp only [hc] at hmem
    cases hd : s.dm <;> simp [hd] at hmem
    obtain ⟨rfl, rfl⟩ := hmem
    exact gi_same h rfl (fun _ => rfl) (fun _ => hcit hni)
  | lockC x =>
    have hni : isInner t = false := by simp [isInner, hc]
    simp only [hc, List.mem_singleton, Prod.mk.injEq] at hmem
    obtain ⟨rfl, rfl⟩ := hmem
    exact gi_start h (by exact regOne_heap s x) (fun _ => rfl) (hcit hni) _ _ _ _
  | rlockC xs =>
    have hni : isInner t = false := by simp [isInner, hc]
    simp only [hc] at hmem
    split at hmem
    · simp only [List.mem_singleton, Prod.mk.injEq] at hmem
      obtain ⟨rfl, rfl⟩ := hmem
      exact gi_same h (by exact regAll_heap xs s) (fun _ => rfl) (fun _ => hcit hni)
    · simp only [List.mem_singleton, Prod.mk.injEq] at hmem
      obtain ⟨rfl, rfl⟩ := hmem
      exact gi_start h (by exact regAll_heap xs s) (fun _ => rfl) (hcit hni) _ _ _ _
  | unlockC x =>
    have hni : isInner t = false := by simp [isInner, hc]
    simp only [hc] at hmem
    split at hmem
    · simp only [List.mem_singleton, Prod.mk.injEq] at hmem
      obtain ⟨rfl, rfl⟩ := hmem
      exact gi_same h rfl (fun _ => rfl) (fun _ => hcit hni)
    · simp only [List.mem_singleton, Prod.mk.injEq] at hmem
      obtain ⟨rfl, rfl⟩ := hmem
      exact gi_start h (by rfl) (fun _ => by rfl) (by exact hcit hni) _ _ _ _
  | runlockC xs =>
    have hni : isInner t = false := by simp [isInner, hc]
    simp only [hc] at hmem
    split at hmem
    · simp only [List.mem_singleton, Prod.mk.injEq] at hmem
      obtain ⟨rfl, rfl⟩ := hmem
      exact gi_same h rfl (fun _ => rfl) (fun _ => hcit hni)
    · simp only [List.mem_singleton, Prod.mk.injEq] at hmem
      obtain ⟨rfl, rfl⟩ := hmem
      exact gi_same h rfl (fun _ => rfl) (fun _ => hcit hni)
    · simp only [List.mem_singleton, Prod.mk.injEq] at hmem
      obtain ⟨rfl, rfl⟩ := hmem
      exact gi_start h (by rfl) (fun _ => by rfl) (by exact hcit hni) _ _ _ _
  | unregC x =>
    have hni : isInner t = false := by simp [isInner, hc]
    simp only [hc] at hmem
    split at hmem
    · simp only [List.mem_singleton, Prod.mk.injEq] at hmem
      obtain ⟨rfl, rfl⟩ := hmem
      exact gi_same h rfl (fun _ => rfl) (fun _ => hcit hni)
    · rename_i r hr
      simp only [List.mem_singleton, Prod.mk.injEq] at hmem
      obtain ⟨rfl, rfl⟩ := hmem
      exact gi_same h (by exact unregOne_heap hr) (fun _ => rfl) (fun _ => hcit hni)
  | runregC xs =>
    have hni : isInner t = false := by simp [isInner, hc]
    simp only [hc] at hmem
    split at hmem
    · simp only [List.mem_singleton, Prod.mk.injEq] at hmem
      obtain ⟨rfl, rfl⟩ := hmem
      exact gi_same h (by exact unregPrefix_heap xs s) (fun _ => rfl) (fun _ => hcit hni)
    · rename_i r hr
      simp only [List.mem_singleton, Prod.mk.injEq] at hmem
      obtain ⟨rfl, rfl⟩ := hmem
      exact gi_same h (by exact unregAll_heap xs s r hr) (fun _ => rfl) (fun _ => hcit hni)
  | inner k =>
    simp only [hc] at hmem
    by_cases hi : t.ipc = .idle
    · simp only [hi, if_true, List.mem_singleton, Prod.mk.injEq] at hmem
      obtain ⟨rfl, rfl⟩ := hmem
      unfold ret
      split
      · exact gi_same h rfl (fun _ => rfl) (fun _ => by simpa [grant] using hi)
      · exact gi_start (t0 := grant t .r) h rfl (fun _ => rfl) (by simpa [grant] using hi) _ _ _ _
      · exact gi_same h rfl (fun _ => rfl) (fun _ => by simpa [grant] using hi)
      · exact gi_start (t0 := t) h rfl (fun _ => rfl) hi _ _ _ _
      · exact gi_same h rfl (fun _ => rfl) (fun _ => hi)
      · exact gi_same h rfl (fun _ => rfl) (fun _ => hi)
      · exact gi_same h rfl (fun _ => rfl) (fun _ => hi)
    · simp only [hi, if_false, List.mem_map] at hmem
      obtain ⟨p, hp, heq⟩ := hmem
      simp only [Prod.mk.injEq] at heq
      obtain ⟨rfl, rfl⟩ := heq
      simpa [hc] using gi_inner h hc hp

theorem gi_step {a b : Cfg CSh CTh} (h : GI a.1 a.2) (hs : Step sys a b) : GI b.1 b.2 := by
  cases hs with
  | mk s pre t post s' t' hmem => exact gi_step_mid h hmem

theorem gi_init (scripts : List (List DOp)) : GI (initCfg scripts).1 (initCfg scripts).2 := by
  refine ⟨?_, ?_⟩
  · intro o
    apply ginv_init
    intro v hv
    simp only [initCfg, List.map_map, List.mem_map] at hv
    obtain ⟨sc, _, rfl⟩ := hv
    show (if (CTh.new sc).cur = o then (CTh.new sc).ipc else Pc.idle) = Pc.idle
    split <;> rfl
  · intro t ht _
    simp only [initCfg, List.mem_map] at ht
    obtain ⟨sc, _, rfl⟩ := ht
    rfl

theorem gi_reach {scripts : List (List DOp)} {c : Cfg CSh CTh}
    (hr : Reach sys (initCfg scripts) c) : GI c.1 c.2 :=
  inv_induction (fun c => GI c.1 c.2) (gi_init scripts) (fun _ _ h hs => gi_step h hs) hr

end Hive.SyncMutex.Comp
