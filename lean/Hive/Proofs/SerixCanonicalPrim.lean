import Hive.Proofs.SerixPrim
import Hive.Proofs.SerixCanonical
import Hive.Proofs.SerixCanonicalObjects
/-!
# Canonicity at the level of the chains: `ReadSequenceOfObjects` / `WriteSliceOfByteSlices`

Whatever the validating `ReadSequenceOfObjects` accepts — for every prefix width and every set of array rules (bounds,
no duplicates, lexical order, at most one of each type byte / word) — `WriteSliceOfByteSlices` with the same rules (with or
without the lexical-ordering mode bit) writes back to exactly the bytes consumed.  This is the reverse direction of C03 one
layer below serix, where the `canonical` oracle of `harness/c03/prim` lives.
-/
namespace Hive.Serix
open VX

theorem itemLen_le {b : Bytes} {n : Nat} (h : itemLen b = some n) : n ≤ b.length := by
  cases b with
  | nil => simp [itemLen] at h
  | cons x rest =>
    simp only [itemLen] at h
    split at h
    · cases h
    · cases h; simp; omega

/-- What the item loop accepted: the items are the consumed bytes cut into pieces, there are `k` of them, and (under
validation) the validator machines accept them from the state the loop started in. -/
theorem rLoop_ok (r : Rules) (val : Bool) : ∀ (k : Nat) (st : VSt) (b : Bytes) (xs : List Bytes) (m : Nat),
    rLoop r val k st b = (xs, m, none) →
    xs.flatten = b.take m ∧ m ≤ b.length ∧ xs.length = k ∧ (val = true → (vRun r st xs).2 = none)
  | 0, st, b, xs, m, h => by
    simp only [rLoop, Prod.mk.injEq] at h
    obtain ⟨rfl, rfl, _⟩ := h
    simp [vRun]
  | k + 1, st, b, xs, m, h => by
    simp only [rLoop] at h
    cases hi : itemLen b with
    | none => simp [hi] at h
    | some n =>
      simp only [hi] at h
      cases hv : (if val = true then vErr r st (b.take n) else none) with
      | some e => simp [hv] at h
      | none =>
        simp only [hv] at h
        cases hrec : rLoop r val k (vNext r st (b.take n)) (b.drop n) with
        | mk ys p =>
          obtain ⟨m', e'⟩ := p
          simp only [hrec, Prod.mk.injEq] at h
          obtain ⟨rfl, rfl, rfl⟩ := h
          have ih := rLoop_ok r val k _ _ ys m' hrec
          have hn := itemLen_le hi
          refine ⟨?_, ?_, by simp [ih.2.2.1], ?_⟩
          · rw [List.flatten_cons, ih.1, take_add_drop]
          · have := ih.2.1
            simp only [List.length_drop] at this
            omega
          · intro hval
            have hve : vErr r st (b.take n) = none := by simpa [hval] using hv
            simp only [vRun, hve]
            exact ih.2.2.2 hval

/-- **Canonicity of sequences at the chain level.** -/
theorem prim_seq_canonical (lp : LP) (r : Rules) (srt : Bool) (rem : Bytes) (total off : Nat) (xs : List Bytes) (n : Nat)
    (h : rOp rem total off (.seq lp r true) = .done (some (.items xs)) n none) :
    wOp (.seq lp { r with autoSort := srt } true xs) = .done (rem.take n) none := by
  simp only [rOp] at h
  cases hw : lp.width with
  | none => simp [hw] at h
  | some w =>
    simp only [hw, if_true] at h
    split at h
    · cases h
    · rename_i hlen
      split at h
      · cases h
      · rename_i hb
        cases hl : rLoop r true (leNat (rem.take w)) {} (rem.drop w) with
        | mk ys p =>
          obtain ⟨m, e⟩ := p
          simp only [hl, ROut.done.injEq, Option.some.injEq, PV.items.injEq] at h
          obtain ⟨rfl, rfl, rfl⟩ := h
          obtain ⟨hfl, hm, hk, hv⟩ := rLoop_ok r true _ _ _ _ _ hl
          have hv' := hv rfl
          have hvalid : validSeq r ys = true := (vRun_ok_iff_validSeq r ys).1 hv'
          have hw' : w ≤ rem.length := by omega
          have hlt : leNat (rem.take w) < 256 ^ w := by
            have := leNat_lt (rem.take w)
            rwa [List.length_take, Nat.min_eq_left hw'] at this
          have hpre : leBytes w (leNat (rem.take w)) = rem.take w := by
            have := leBytes_leNat (rem.take w)
            rwa [List.length_take, Nat.min_eq_left hw'] at this
          have hdata : (if (srt && r.lex) = true then sortBytes ys else ys) = ys := by
            split
            · rename_i hs
              have hlex : r.lex = true := by
                cases hh : r.lex <;> simp [hh] at hs ⊢
              exact isortBy_of_sorted id (sorted_of_validSeq hlex hvalid)
            · rfl
          have hbd : boundsErr { r with autoSort := srt } ys.length = none := by
            have : boundsErr { r with autoSort := srt } ys.length = boundsErr r ys.length := rfl
            rw [this, hk]; exact hb
          have hrun : vRun { r with autoSort := srt } {} ys = vRun r {} ys := by
            have : ∀ (st : VSt) (l : List Bytes), vRun { r with autoSort := srt } st l = vRun r st l := by
              intro st l
              induction l generalizing st with
              | nil => rfl
              | cons x xs ih =>
                have e1 : vErr { r with autoSort := srt } st x = vErr r st x := rfl
                have e2 : vNext { r with autoSort := srt } st x = vNext r st x := rfl
                simp only [vRun, e1, e2, ih]
            exact this {} ys
          simp only [wOp, if_true, wLen, hw, hk, hlt, hpre, hdata, hrun]
          have hall := vRun_all r {} ys hv'
          have : vRun r {} ys = (ys, none) := Prod.ext hall hv'
          rw [this]
          simp only [hfl, take_add_drop]
          rw [hk] at hbd
          simp only [hbd]

end Hive.Serix
